import AquaVerif.Model.Profile
/-
Model of `aquacrop/solution/check_groundwater_table.py`: presence of the water table inside the
modelled profile and the adjustment of field capacity (`th_fc_Adj`) of the compartments that lie
less than `Xmax` above the water table.

Python walks the compartments bottom-up (`compi = n-1 … 0`) and leaves the loop early
(`compi = -1`) at the first compartment that is `≥ Xmax` above the table, after having copied
`th_fc` to that compartment *and all compartments above it*.  The model recurses over the
**reversed** cell list (bottom compartment first) and reverses back.

Partiality: with `water_table_presence == 1` and `NewCond_zGW < 0` the local `NewCond_WTinSoil`
is never assigned and the `return` raises `UnboundLocalError` → `none`.

With `water_table_presence != 1` the Python returns `(th_fc_Adj, None, None)`; the caller stores
the two `None`s in `NewCond.wt_in_soil` / `NewCond.z_gw`.  `None` is falsy and is only compared
with `== True` downstream, so the model reports this case as "no change":
`table = false`, cells unchanged, `wtInSoil = false`, `zGW` = the argument passed in.
-/

namespace Aqua
section
variable {α : Type} [Add α] [Sub α] [Mul α] [Div α] [Neg α] [LT α] [LE α]
  [DecidableLT α] [DecidableLE α] [OfScientific α] [OfNat α 0] [OfNat α 1] [OfNat α 2]
  [OfNat α 10] [OfNat α 100] [OfNat α 1000]

/-- `Xmax`: the height above the water table (m) up to which field capacity is adjusted. -/
def gwXmax (F : Fn α) (thFC : α) : α :=
  if thFC ≤ 0.1 then 1
  else if 0.3 ≤ thFC then 2
  else
    let pF := 2 + 0.3 * (thFC - 0.1) / 0.2
    (F.exp (pF * F.log 10)) / 100

/-- adjusted field capacity of one compartment that is less than `xmax` above the table.
`dFC = (dV / (Xmax * Xmax)) * ((zMid - (zGW - Xmax)) ** 2)`: the divisor is a real product in the
Python, the second factor is `** 2` on a numpy float64 scalar, i.e. C `pow(·, 2.0)` → `F.pow · 2`. -/
def gwFcAdj (F : Fn α) (zGW xmax : α) (c : Comp α) : α :=
  if c.thS ≤ c.thFC then c.thFC
  else if zGW ≤ c.zMid then c.thS
  else
    let dV := c.thS - c.thFC
    let t := c.zMid - (zGW - xmax)
    let dFC := (dV / (xmax * xmax)) * (F.pow t 2)
    c.thFC + dFC

/-- reset `fcAdj` to `thFC` -/
def Cell.resetFC (x : Cell α) : Cell α := { x with fcAdj := x.c.thFC }

/-- the `while compi >= 0` loop over the *reversed* profile (bottom compartment first). -/
def gwtLoop (F : Fn α) (zGW : α) : List (Cell α) → List (Cell α)
  | [] => []
  | x :: xs =>
    let xmax := gwXmax F x.c.thFC
    if zGW < 0 ∨ xmax ≤ zGW - x.c.zMid then
      -- `for ii in range(compi + 1): thfcAdj[ii] = th_fc[ii]; compi = -1`
      (x :: xs).map Cell.resetFC
    else
      { x with fcAdj := gwFcAdj F zGW xmax x.c } :: gwtLoop F zGW xs

/-- `len(zMid[zMid >= zGW]) != 0` -/
def anyMidGE (zGW : α) : List (Cell α) → Bool
  | [] => false
  | x :: xs => if zGW ≤ x.c.zMid then true else anyMidGE zGW xs

structure GwtOut (α : Type) where
  cells    : List (Cell α)
  /-- `false`: `water_table_presence != 1`, Python returned `(th_fc_Adj, None, None)` -/
  table    : Bool
  wtInSoil : Bool
  zGW      : α

/-- `check_groundwater_table(prof, NewCond_zGW, th, th_fc_Adj, water_table_presence, z_gw)`.
`NewCond_zGW` is overwritten before it is read and `th` is never read, so neither is an argument.
`none` = `UnboundLocalError` (`zGW < 0`, or NaN). -/
def checkGroundwaterTable (F : Fn α) (cells : List (Cell α)) (waterTable : Nat) (zGW : α) :
    Option (GwtOut α) :=
  if waterTable = 1 then
    let cells' := (gwtLoop F zGW cells.reverse).reverse
    if 0 ≤ zGW then
      some { cells := cells', table := true, wtInSoil := anyMidGE zGW cells, zGW := zGW }
    else none
  else
    some { cells := cells, table := false, wtInSoil := false, zGW := zGW }

end
end Aqua
