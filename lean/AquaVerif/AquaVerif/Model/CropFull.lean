import AquaVerif.Model.CropResp
/-
The **whole parameter vector of a catalogue crop** as exact rationals, and the decidable predicate
`CropFullOK` collecting the premises that the theorems of this library put on *raw* crop
parameters.

`CropFull` has one field per parameter of `aquacrop/entities/crops/crop_params.py` together with
the program defaults that `Crop.__init__` (`aquacrop/entities/crop.py`) assigns before it merges
the catalogue entry — a crop that does not set a parameter keeps the default.  The table
`AquaVerif/Generated/CropFullTable.lean` (`cropFullTable : List CropFull`, written by
`harness/translate/cropfull.py` from the sources on every run) is expected to satisfy
`∀ c ∈ cropFullTable, CropFullOK c`, closed by `decide +kernel` in `Proofs/CropFull.lean`, where
the bridging lemmas from `CropFullOK c` to the premise structures at an arbitrary ordered field
live as well.

What is **not** here: everything initialisation derives with `log`/`exp`/`round` or from the
weather — the crop calendar (`Canopy10Pct`, `MaxCanopy`, `CanopyDevEnd`, `HIend`, their `…CD`
twins, `FloweringEnd`), `HIGC`, `tLinSwitch`, `dHILinear`, `fCO2` — whose attributes
`Crop.__init__` merely initialises to `0`.  The three quantities that
`Crop.calculate_additional_params` derives *without* transcendental functions are Lean functions
of the raw values: `CropFull.cc0`, `CropFull.sxTop`, `CropFull.sxBot`.

Numbers are `Rat` (the exact value of the decimal the Python float prints as); integer-coded
switches are `Nat`.  Core Lean only.
-/

namespace Aqua

/-- every raw parameter of one crop (`crop_params.py` + defaults of `Crop.__init__`);
the comment gives the Python attribute -/
structure CropFull where
  name : String
  -- program defaults of `Crop.__init__`
  fshapeB : Rat        -- fshape_b
  pctZmin : Rat        -- PctZmin
  fshapeEx : Rat       -- fshape_ex
  et0dorm : Rat        -- ET0dorm
  aer : Rat            -- Aer
  lagAer : Rat         -- LagAer
  beta : Rat           -- beta
  aTr : Rat            -- a_Tr
  germThr : Rat        -- GermThr
  ccMin : Rat          -- CCmin
  maxFlowPct : Rat     -- MaxFlowPct (`100 / 3` as the float prints)
  hiIni : Rat          -- HIini
  bsted : Rat          -- bsted
  bface : Rat          -- bface
  -- calendar inputs, calendar-day mode (`-9`/`-999`: not given)
  emergenceCD : Rat    -- EmergenceCD
  maxRootingCD : Rat   -- MaxRootingCD
  senescenceCD : Rat   -- SenescenceCD
  maturityCD : Rat     -- MaturityCD
  hiStartCD : Rat      -- HIstartCD
  floweringCD : Rat    -- FloweringCD
  yldFormCD : Rat      -- YldFormCD
  -- calendar inputs, growing-degree-day mode
  emergence : Rat      -- Emergence
  maxRooting : Rat     -- MaxRooting
  senescence : Rat     -- Senescence
  maturity : Rat       -- Maturity
  hiStart : Rat        -- HIstart
  flowering : Rat      -- Flowering
  yldForm : Rat        -- YldForm
  yldWC : Rat          -- YldWC
  -- temperatures
  tbase : Rat          -- Tbase
  tupp : Rat           -- Tupp
  tmaxUp : Rat         -- Tmax_up
  tmaxLo : Rat         -- Tmax_lo
  tminUp : Rat         -- Tmin_up
  tminLo : Rat         -- Tmin_lo
  gddUp : Rat          -- GDD_up
  gddLo : Rat          -- GDD_lo
  -- roots
  zmin : Rat           -- Zmin
  zmax : Rat           -- Zmax
  fshapeR : Rat        -- fshape_r
  sxTopQ : Rat         -- SxTopQ
  sxBotQ : Rat         -- SxBotQ
  -- canopy
  seedSize : Rat       -- SeedSize
  plantPop : Rat       -- PlantPop
  ccx : Rat            -- CCx
  cdc : Rat            -- CDC     (per growing degree day)
  cgc : Rat            -- CGC
  cdcCD : Rat          -- CDC_CD  (per calendar day)
  cgcCD : Rat          -- CGC_CD
  -- transpiration, biomass, harvest index
  kcb : Rat            -- Kcb
  fage : Rat           -- fage
  wp : Rat             -- WP
  wpy : Rat            -- WPy
  fsink : Rat          -- fsink
  hi0 : Rat            -- HI0
  dHIpre : Rat         -- dHI_pre
  aHI : Rat            -- a_HI
  bHI : Rat            -- b_HI
  dHI0 : Rat           -- dHI0
  exc : Rat            -- exc
  -- integer-coded switches
  etAdj : Nat          -- ETadj          (1 = thresholds adjusted for ET0)
  cropType : Nat       -- CropType       (1 leafy, 2 root/tuber, 3 fruit/grain)
  plantMethod : Nat    -- PlantMethod    (0 transplanted, 1 sown)
  calendarType : Nat   -- CalendarType   (1 calendar days, 2 growing degree days)
  switchGDD : Nat      -- SwitchGDD      (1 = convert a calendar-day crop to GDD mode)
  gddMethod : Nat      -- GDDmethod
  polHeatStress : Nat  -- PolHeatStress
  polColdStress : Nat  -- PolColdStress
  trColdStress : Nat   -- TrColdStress
  determinant : Nat    -- Determinant
  -- water-stress thresholds and shape factors (`p_up1..4`, `p_lo1..4`, `fshape_w1..4`)
  pUp : Fin 4 → Rat
  pLo : Fin 4 → Rat
  fshapeW : Fin 4 → Rat

namespace CropFull

/-! ### what `Crop.calculate_additional_params` derives (no transcendental function involved) -/

/-- `self.CC0 = self.PlantPop * self.SeedSize * 1e-8` -/
def cc0 (c : CropFull) : Rat := c.plantPop * c.seedSize * 1e-8

/-- the root-extraction terms `(SxTop, SxBot)`:
```
S1 = SxTopQ; S2 = SxBotQ
if S1 == S2: SxTop = S1; SxBot = S2
else:
    if SxTopQ < SxBotQ: S1 = SxBotQ; S2 = SxTopQ
    xx = 3 * (S2 / (S1 - S2))
    if xx < 0.5: SS1 = (4 / 3.5) * S1; SS2 = 0
    else:        SS1 = (xx + 3.5) * (S1 / (xx + 3)); SS2 = (xx - 0.5) * (S2 / xx)
    if SxTopQ > SxBotQ: SxTop = SS1; SxBot = SS2
    else:               SxTop = SS2; SxBot = SS1
``` -/
def sx (c : CropFull) : Rat × Rat :=
  if c.sxTopQ = c.sxBotQ then (c.sxTopQ, c.sxBotQ)
  else
    let s1 := if c.sxTopQ < c.sxBotQ then c.sxBotQ else c.sxTopQ
    let s2 := if c.sxTopQ < c.sxBotQ then c.sxTopQ else c.sxBotQ
    let xx := 3 * (s2 / (s1 - s2))
    let ss : Rat × Rat :=
      if xx < 0.5 then ((4 / 3.5) * s1, 0)
      else ((xx + 3.5) * (s1 / (xx + 3)), (xx - 0.5) * (s2 / xx))
    if c.sxBotQ < c.sxTopQ then ss else (ss.2, ss.1)

/-- `Crop.SxTop` -/
def sxTop (c : CropFull) : Rat := c.sx.1
/-- `Crop.SxBot` -/
def sxBot (c : CropFull) : Rat := c.sx.2

/-! ### the canopy coefficients in force

`compute_crop_calendar`: a calendar-day crop (`CalendarType == 1`) that is not converted
(`SwitchGDD == 0`) runs on `CGC = CGC_CD`, `CDC = CDC_CD`; a GDD crop on its own `CGC`, `CDC`.
(The conversion `SwitchGDD == 1` computes them with `log`/`exp` from the weather: out of scope;
`CanopyOK` records that no catalogue crop asks for it.) -/

def cgcUsed (c : CropFull) : Rat := if c.calendarType = 1 then c.cgcCD else c.cgc
def cdcUsed (c : CropFull) : Rat := if c.calendarType = 1 then c.cdcCD else c.cdc

/-- the largest time step `dtCC` of `canopy_cover`: one day, or a day's growing degree days,
which never exceed `Tupp − Tbase` (`gdd_range`) -/
def dtMax (c : CropFull) : Rat := if c.calendarType = 1 then 1 else c.tupp - c.tbase

/-- the FACE-weighted CO2 coefficient `bsted·fsink + bface·(1 − fsink)` -/
def co2g (c : CropFull) : Rat := c.bsted * c.fsink + c.bface * (1 - c.fsink)

/-- the projection to the record of the C17 response functions (`Model/CropResp.lean`) -/
def toResp (c : CropFull) : CropResp :=
  { name := c.name, pUp := c.pUp, pLo := c.pLo, fshapeW := c.fshapeW, tbase := c.tbase,
    tupp := c.tupp, cc0 := c.cc0, ccx := c.ccx, cgc := c.cgcUsed, cdc := c.cdcUsed, beta := c.beta,
    fshapeB := c.fshapeB, bsted := c.bsted, bface := c.bface, fsink := c.fsink }

end CropFull

/-! ## The premises on raw parameters, group by group

Each conjunct names the premise (structure field or theorem hypothesis) it serves. -/

/-- **roots and root extraction**
1. `0 ≤ Zmin`                    — `RdCrop.WF.zmin_nn`   (`Proofs/RootDevelopment.lean`; `RootPre.crop`)
2. `Zmin ≤ Zmax`                 — `RdCrop.WF.zmin_le`
3. `PctZmin ≤ 100`               — `RdCrop.WF.pct_le`
4. `0 < fshape_r`                — `RdCrop.WF.fshapeR_pos`
5. `p_up[1] < 1`                 — `RootPre.pUp1` (`Proofs/Day.lean`), `RdHyp` of `root_development`
6. `fshape_w[1] ≠ 0`             — `RootPre.fw1`
7. `0 ≤ SxTop`                   — `TrLoopP.NonnegOK.sxTop`, `DayTrPre.sxTop`, `transp_inv` (C03/C04 `hsxT`)
8. `0 ≤ SxBot`                   — `TrLoopP.NonnegOK.sxBot`, `DayTrPre.sxBot`, `transp_inv` (`hsxB`) -/
def CropFull.RootOK (c : CropFull) : Prop :=
  0 ≤ c.zmin ∧ c.zmin ≤ c.zmax ∧ c.pctZmin ≤ 100 ∧ 0 < c.fshapeR ∧
  c.pUp 1 < 1 ∧ c.fshapeW 1 ≠ 0 ∧ 0 ≤ c.sxTop ∧ 0 ≤ c.sxBot

/-- **temperatures**: `Tbase ≤ Tupp` — `CcCropPre.temp`, `RootPre.temp`, `HiPre.temp`,
`gdd_range`, `fullDay_gdd`, `ResponseOK`. -/
def CropFull.TempOK (c : CropFull) : Prop := c.tbase ≤ c.tupp

/-- **canopy**
1. `SwitchGDD = 0`               — the coefficients in force are `cgcUsed`/`cdcUsed` (see above)
2. `CalendarType ∈ {1,2}`        — `growth_stage_defined_iff` (C16), `ccTime` (`dtCC` bound), `CcCropPre.step`
3. `0 < CC0`                     — `ResetCropOK.cc0`, `CcParams.cc0_nonneg`, `ResponseOK` (`cc0_pos`)
4. `0 < CCx`                     — `ResetCropOK.ccx`, `CcCropPre.ccx0`, `ResponseOK` (`ccx_pos`)
5. `CCx ≤ 1`                     — `ResponseOK` (`ccx_le`)
6. `0 < CGC`                     — `ResponseOK` (`cgc_pos`)
7. `0 ≤ CDC`                     — `CcParams.cdc_nonneg`, `ResponseOK` (`cdc_nn`)
8. `CGC · dtMax < 1` and
9. `CC0 ≤ CCx · (1 − CGC · dtMax)` — rational sufficient condition for `CcParams.step`
   (`CC0 · exp(CGC · dt) ≤ CCx` for every `0 ≤ dt ≤ dtMax`) through `exp x ≤ 1/(1 − x)`. -/
def CropFull.CanopyOK (c : CropFull) : Prop :=
  c.switchGDD = 0 ∧ (c.calendarType = 1 ∨ c.calendarType = 2) ∧
  0 < c.cc0 ∧ 0 < c.ccx ∧ c.ccx ≤ 1 ∧ 0 < c.cgcUsed ∧ 0 ≤ c.cdcUsed ∧
  c.cgcUsed * c.dtMax < 1 ∧ c.cc0 ≤ c.ccx * (1 - c.cgcUsed * c.dtMax)

/-- **harvest index**
1. `CropType ∈ {1,2,3}`          — `HiCrop.BuildUp.type123`
2. `0 < HIini`                   — `HiCrop.BuildUp.ini_pos`  (hence `ResetCropOK.hiIni : -0.004 ≤ HIini`)
3. `HIini < HI0`                 — `HiCrop.BuildUp.ini_lt`   (hence `ResetCropOK.hi0 : 0 ≤ HI0`, `h0` of `hiref_*`)
4. `0 < b_HI → 1 ≤ b_HI`         — `HiCrop.PostOK.bHI`, `postDwn_nonneg`
5. `0 ≤ 1 + dHI0/100`            — `HiPre.cap`, `hiMult_nonneg`
6. `CalendarType = 1 → 0 ≤ YldFormCD` — `HiCrop.PostOK.tmax2` for a calendar-day crop (raw there) -/
def CropFull.HiOK (c : CropFull) : Prop :=
  (c.cropType = 1 ∨ c.cropType = 2 ∨ c.cropType = 3) ∧ 0 < c.hiIni ∧ c.hiIni < c.hi0 ∧
  (0 < c.bHI → 1 ≤ c.bHI) ∧ 0 ≤ 1 + c.dHI0 / 100 ∧ (c.calendarType = 1 → 0 ≤ c.yldFormCD)

/-- **water-stress thresholds**
1. `p_up i ≤ p_lo i`             — `wsOrdered_of_raw_noEtAdj`, `ResponseOK`/`RealPremises.thr_ord`
2. `p_lo i ≤ 1`                  — `ResponseOK`/`RealPremises.thr_le_one`
3. `0 ≤ p_up i`                  — `wsOrdered_of_raw_noEtAdj` (`hp2`, for `i = 2`)
4. `fshape_w i ≠ 0` (`i < 3`)    — `HiPre.fsh`, `waterStress_range` (`hf`), `ResponseOK`
5. `0 ≤ beta`, 6. `beta ≤ 100`   — `wsOrdered_of_raw_noEtAdj` (`hb0`), `ResponseOK` -/
def CropFull.StressOK (c : CropFull) : Prop :=
  (∀ i : Fin 4, c.pUp i ≤ c.pLo i) ∧ (∀ i : Fin 4, c.pLo i ≤ 1) ∧ (∀ i : Fin 4, 0 ≤ c.pUp i) ∧
  (∀ i : Fin 4, i.val < 3 → c.fshapeW i ≠ 0) ∧ 0 ≤ c.beta ∧ c.beta ≤ 100

/-- **pollination temperature stress and option switches**
1. `0 ≤ fshape_b`                — `polH_antitone_in_tmax`, `polC_monotone_in_tmin` (`hb`), `ResponseOK`
2. `Tmax_up ≤ Tmax_lo`           — `polH_step_of_up_le_lo`
3. `Tmin_lo < Tmin_up`           — the premise of `polC_step_of_up_le_lo` fails, as its docstring says
4. `PolHeatStress ∈ {0,1}`, 5. `PolColdStress ∈ {0,1}` — `temperature_stress_defined_iff` (C16)
6. `GDDmethod ∈ {1,2,3}`         — `growing_degree_day_defined_iff` (C16), `gdd_isSome_iff`
7. `TrColdStress ∈ {0,1}`        — `trKsCold` is defined (otherwise `KsCold` is unbound) -/
def CropFull.SwitchOK (c : CropFull) : Prop :=
  0 ≤ c.fshapeB ∧ c.tmaxUp ≤ c.tmaxLo ∧ c.tminLo < c.tminUp ∧
  (c.polHeatStress = 0 ∨ c.polHeatStress = 1) ∧ (c.polColdStress = 0 ∨ c.polColdStress = 1) ∧
  (c.gddMethod = 1 ∨ c.gddMethod = 2 ∨ c.gddMethod = 3) ∧
  (c.trColdStress = 0 ∨ c.trColdStress = 1)

/-- **aeration lag**: `LagAer` is a natural number — `LagAerIntegral` (`Proofs/WaterDay.lean`,
`waterDay_pond`), the hypothesis `hint` of `transp_inv`/`transp_pond_le` (C04). -/
def CropFull.LagOK (c : CropFull) : Prop := c.lagAer.den = 1 ∧ 0 ≤ c.lagAer

/-- **biomass**: `0 ≤ WPy`, `WPy ≤ 100` — `DayCropOK.wpy0/wpy1`, `fullDay_bioInv`, `bioWPadj_bounds`
(C05, C06 `hy0 hy1`); `0 ≤ WP` — with `0 ≤ fCO2` gives `DayCropOK.wp : 0 ≤ WP·fCO2` (`hw`). -/
def CropFull.BioOK (c : CropFull) : Prop := 0 ≤ c.wpy ∧ c.wpy ≤ 100 ∧ 0 ≤ c.wp

/-- **CO2**: `CO2Params` (`Proofs/Response.lean`) at the reference concentration 369.41 ppm:
`0 < ref < 550`, `0 ≤ bsted ≤ g`, `ref·g + 550·(g − bsted) < 1`. -/
def CropFull.CO2OK (c : CropFull) : Prop :=
  0 < co2RefDefault ∧ co2RefDefault < 550 ∧ 0 ≤ c.bsted ∧ c.bsted ≤ c.co2g ∧
  co2RefDefault * c.co2g + 550 * (c.co2g - c.bsted) < 1

/-- all raw-parameter premises that every catalogue crop satisfies -/
def CropFullOK (c : CropFull) : Prop :=
  c.RootOK ∧ c.TempOK ∧ c.CanopyOK ∧ c.HiOK ∧ c.StressOK ∧ c.SwitchOK ∧ c.LagOK ∧ c.BioOK ∧ c.CO2OK

/-! ### premises that some catalogue crops violate (the exceptions are listed, by name, in
`Proofs/CropFull.lean`) -/

/-- `CropType = 1 → 0 ≤ dHI0` — `HiPre.leafy`, `hleafy` of the harvest-index theorems (C05) -/
def CropFull.LeafyOK (c : CropFull) : Prop := c.cropType = 1 → 0 ≤ c.dHI0

/-- `LagAer ≤ 3` — `aerationStress_range_of_lag_le_three` (the code divides the day counter by the
literal 3, not by `LagAer`) -/
def CropFull.LagLe3 (c : CropFull) : Prop := c.lagAer ≤ 3

/-- `YldWC ≠ 0` — `yieldStep_fresh_mul`; `FreshYield = DryYield / (YldWC / 100)` divides by zero
otherwise -/
def CropFull.YldWCOK (c : CropFull) : Prop := c.yldWC ≠ 0

instance (c : CropFull) : Decidable (CropFull.RootOK c) := by unfold CropFull.RootOK; infer_instance
instance (c : CropFull) : Decidable (CropFull.TempOK c) := by unfold CropFull.TempOK; infer_instance
instance (c : CropFull) : Decidable (CropFull.CanopyOK c) := by unfold CropFull.CanopyOK; infer_instance
instance (c : CropFull) : Decidable (CropFull.HiOK c) := by unfold CropFull.HiOK; infer_instance
instance (c : CropFull) : Decidable (CropFull.StressOK c) := by unfold CropFull.StressOK; infer_instance
instance (c : CropFull) : Decidable (CropFull.SwitchOK c) := by unfold CropFull.SwitchOK; infer_instance
instance (c : CropFull) : Decidable (CropFull.LagOK c) := by unfold CropFull.LagOK; infer_instance
instance (c : CropFull) : Decidable (CropFull.BioOK c) := by unfold CropFull.BioOK; infer_instance
instance (c : CropFull) : Decidable (CropFull.CO2OK c) := by unfold CropFull.CO2OK; infer_instance
instance (c : CropFull) : Decidable (CropFullOK c) := by unfold CropFullOK; infer_instance
instance (c : CropFull) : Decidable (CropFull.LeafyOK c) := by unfold CropFull.LeafyOK; infer_instance
instance (c : CropFull) : Decidable (CropFull.LagLe3 c) := by unfold CropFull.LagLe3; infer_instance
instance (c : CropFull) : Decidable (CropFull.YldWCOK c) := by unfold CropFull.YldWCOK; infer_instance

/-! A catalogue entry written out by hand (numbers of `crop_params.py`, "Wheat"). -/

def wheatFull : CropFull :=
  { name := "Wheat", fshapeB := 13.8135, pctZmin := 70, fshapeEx := -6, et0dorm := 0, aer := 5,
    lagAer := 3, beta := 12, aTr := 1, germThr := 0.2, ccMin := 0.05,
    maxFlowPct := 33.333333333333336, hiIni := 0.01, bsted := 0.000138, bface := 0.001165,
    emergenceCD := 13, maxRootingCD := 93, senescenceCD := 158, maturityCD := 197,
    hiStartCD := 127, floweringCD := 15, yldFormCD := 67, emergence := -9, maxRooting := -9,
    senescence := -9, maturity := -9, hiStart := -9, flowering := -9, yldForm := -9, yldWC := 90,
    tbase := 0, tupp := 26, tmaxUp := 35, tmaxLo := 40, tminUp := 5, tminLo := 0, gddUp := 14,
    gddLo := 0, zmin := 0.3, zmax := 1.5, fshapeR := 1.5, sxTopQ := 0.048, sxBotQ := 0.012,
    seedSize := 1.5, plantPop := 4500000, ccx := 0.96, cdc := -9, cgc := -9, cdcCD := 0.07179,
    cgcCD := 0.04901, kcb := 1.1, fage := 0.15, wp := 15, wpy := 100, fsink := 0.5, hi0 := 0.48,
    dHIpre := 5, aHI := 10, bHI := 7, dHI0 := 15, exc := 100, etAdj := 1, cropType := 3,
    plantMethod := 1, calendarType := 1, switchGDD := 0, gddMethod := 3, polHeatStress := 1,
    polColdStress := 1, trColdStress := 1, determinant := 1,
    pUp := vec4 0.2 0.65 0.7 0.85, pLo := vec4 0.65 1 1 1, fshapeW := vec4 5 2.5 2.5 1 }

example : wheatFull.cc0 = 0.0675 ∧ wheatFull.sxTop = 0.054 ∧ wheatFull.sxBot = 0.006 := by
  decide +kernel

example : CropFullOK wheatFull ∧ wheatFull.LeafyOK ∧ wheatFull.LagLe3 ∧ wheatFull.YldWCOK := by
  decide +kernel

end Aqua
