import AquaVerif.Model.Profile
/-
Model of `aquacrop/solution/rainfall_partition.py` (SCS curve-number split of the day's rain
into surface runoff and infiltration).  Operation order follows the Python expression by
expression so that the `Float` instance reproduces it bit for bit (up to libm `exp/log/pow`).

The Python clamps `prof.dzsum[ii]` *in place* to `z_cn` (a write into the soil profile — see
property C12); the model uses the clamped value locally, which is the intended computation.
-/

namespace Aqua
section
variable {α : Type} [Add α] [Sub α] [Mul α] [Div α] [Neg α] [LT α] [LE α]
  [DecidableLT α] [DecidableLE α] [OfScientific α] [OfNat α 0] [OfNat α 1]
  [OfNat α 2] [OfNat α 3] [OfNat α 5] [OfNat α 10] [OfNat α 14] [OfNat α 100] [OfNat α 254]
  [OfNat α 1000] [OfNat α 25400]

/-- antecedent-moisture bounds of the curve number: `(CNbot, CNtop)`. -/
def cnBounds (F : Fn α) (cn : α) : α × α :=
  let e14 := F.exp (-14 * F.log 10)
  ( F.round0 (1.4 * e14 + 0.507 * cn - 0.00374 * F.pow cn 2 + 0.0000867 * F.pow cn 3),
    F.round0 (5.6 * e14 + 2.33 * cn - 0.0209 * F.pow cn 2 + 0.000076 * F.pow cn 3) )

/-- relative wetness of the top soil: the two Python loops over `range(comp_sto)` fused.
`none` = the loop indexes past the last compartment (`IndexError` in Python). -/
def wetTopLoop (F : Fn α) (zCN : α) : Nat → List (Cell α) → α → α → Option α
  | 0, _, _, acc => some acc
  | _+1, [], _, _ => none
  | n+1, x :: xs, xx, acc =>
    let dzs := if zCN < x.c.dzsum then zCN else x.c.dzsum
    let wx := 1.016 * (1 - F.exp (-4.16 * (dzs / zCN)))
    let w0 := wx - xx
    let w := if w0 < 0 then 0 else if 1 < w0 then 1 else w0
    let th := pmax x.c.thWP x.th
    wetTopLoop F zCN n xs wx (acc + w * ((th - x.c.thWP) / (x.c.thFC - x.c.thWP)))

/-- the SCS split for a given curve number: `(Runoff, Infl)`.
`Runoff = (term ** 2) / (…)`: `**` on a float scalar is C `pow(term, 2.0)` → `F.pow term 2`. -/
def scsSplit (F : Fn α) (p cn : α) : α × α :=
  let s := 25400 / cn - 254
  let term := p - (5 / 100) * s
  if term ≤ 0 then (0, p)
  else
    let r := (F.pow term 2) / (p + (1 - 5 / 100) * s)
    (r, p - r)

structure RainOut (α : Type) where
  runoff : α
  infl   : α
  daySub : Nat
  cn     : α        -- effective curve number used (ghost output; 0 when the split is bypassed)

/-- `rainfall_partition`.  -/
def rainPartition (F : Fn α) (p : α) (cells : List (Cell α)) (daySub : Nat)
    (srInhb bunds : Bool) (zBund cnAdjPct soilCN : α) (adjCN : Bool) (zCN : α) :
    Option (RainOut α) :=
  if srInhb = false ∧ (bunds = false ∨ zBund < 0.001) then
    let cn0 := soilCN * (1 + cnAdjPct / 100)
    let cn? : Option α :=
      if adjCN then
        let (cnBot, cnTop) := cnBounds F cn0
        let compSto := countBelow zCN cells + 1
        match wetTopLoop F zCN compSto cells 0 0 with
        | none => none
        | some wt0 =>
          let wt := if 1 < wt0 then 1 else if wt0 < 0 then 0 else wt0
          some (F.round0 (cnBot + (cnTop - cnBot) * wt))
      else some cn0
    match cn? with
    | none => none
    | some cn =>
      let (r, i) := scsSplit F p cn
      some { runoff := r, infl := i, daySub := 0, cn := cn }
  else
    some { runoff := 0, infl := p, daySub := daySub, cn := 0 }

end
end Aqua
