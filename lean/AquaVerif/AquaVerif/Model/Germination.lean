import AquaVerif.Model.Profile
/-
Model of `aquacrop/solution/germination.py`.

Python partiality that is modelled: `np.argwhere(prof.dzsum >= Soil_zGerm).flatten()[0]` raises
`IndexError` when the germination depth lies below the profile → `E:index`.
(The divisions are between numpy scalars: a zero denominator gives `inf`/`nan`, no exception.)
-/

namespace Aqua
section
variable {α : Type} [Add α] [Sub α] [Mul α] [Div α] [Neg α] [LT α] [LE α]
  [DecidableLT α] [DecidableLE α] [OfScientific α] [OfNat α 0] [OfNat α 1] [OfNat α 1000]

/-- accumulators `(Wr, WrFC, WrWP)` -/
structure GermAcc (α : Type) where
  wr : α
  fc : α
  wp : α

/-- one iteration of `for ii in range(comp_sto + 1)` -/
def germAdd (F : Fn α) (zGerm : α) (x : Cell α) (a : GermAcc α) : GermAcc α :=
  let factor := if zGerm < x.c.dzsum then 1 - ((x.c.dzsum - zGerm) / x.c.dz) else 1
  { wr := a.wr + F.round3 (factor * 1000 * x.th * x.c.dz)
    fc := a.fc + F.round3 (factor * 1000 * x.c.thFC * x.c.dz)
    wp := a.wp + F.round3 (factor * 1000 * x.c.thWP * x.c.dz) }

/-- the loop over the compartments `0 … comp_sto`, `comp_sto` the first compartment with
`dzsum >= zGerm`; `none` when there is none (`IndexError`, raised before the loop). -/
def germLoop (F : Fn α) (zGerm : α) : List (Cell α) → GermAcc α → Option (GermAcc α)
  | [], _ => none
  | x :: xs, a =>
    if zGerm ≤ x.c.dzsum then some (germAdd F zGerm x a) else germLoop F zGerm xs (germAdd F zGerm x a)

/-- proportional water content of the germination layer, from the accumulators -/
def germWcProp (a : GermAcc α) : α :=
  let wr := if a.wr < 0 then 0 else a.wr
  1 - ((a.fc - wr) / (a.fc - a.wp))

structure GermState (α : Type) where
  germination : Bool
  protectedSeed : Bool
  delayedCds : α
  delayedGdds : α

structure GermOut (α : Type) where
  s : GermState α
  -- ghost outputs
  wcProp : α      -- 0 when not evaluated
  br : Nat        -- 0 off-season, 1 already germinated, 2 germinates today, 3 germination delayed

/-- `germination`; `sown` is `Crop_PlantMethod == True` -/
def germination (F : Fn α) (s : GermState α) (zGerm : α) (cells : List (Cell α)) (germThr : α)
    (sown : Bool) (gdd : α) (gs : Bool) : Except String (GermOut α) :=
  if gs then
    if s.germination then .ok { s := s, wcProp := 0, br := 1 }
    else
      match germLoop F zGerm cells { wr := 0, fc := 0, wp := 0 } with
      | none => .error "E:index"
      | some a =>
        let wc := germWcProp a
        if germThr ≤ wc then
          .ok { s := { s with germination := true, protectedSeed := sown }, wcProp := wc, br := 2 }
        else
          .ok { s := { s with delayedCds := s.delayedCds + 1, delayedGdds := s.delayedGdds + gdd,
                              protectedSeed := false }, wcProp := wc, br := 3 }
  else
    .ok { s := { germination := false, protectedSeed := false, delayedCds := 0, delayedGdds := 0 },
          wcProp := 0, br := 0 }

end
end Aqua
