import AquaVerif.Model.RunShape
/-
The implementation's own weather handling, as executed (work package T):

  * `formatCheck`        — `AquaCropModel.weather_df` setter (`core.py`): the five required names
                           must be column labels (`ValueError("Error in weather_df format …")`);
  * `readWeatherInputs`  — `initialize/read_weather_inputs.py`: the two `ValueError`s on the
                           *positional* first / last date (`Date.iloc[0]`, `Date.iloc[-1]` — not
                           min / max), then the two boolean date masks applied one after the other;
  * `matrixOf`           — `core._initialize`:
                           `weather_df[["MinTemp","MaxTemp","Precipitation","ReferenceET","Date"]].values`;
  * `dayRow`             — `core._weather_data_current_timestep`: `_weather[time_step_counter]`;
  * `dayVars`            — `run_single_timestep.solution_single_time_step`: positions 0..3 of the row
                           (`temp_min = weather_step[0]`, `temp_max = [1]`, `precipitation = [2]`,
                           `et0 = [3]`).

A table is column-major, as in pandas: a list of named columns (`Aqua.RunShape.Table`), each a list
of cells, plus an index (any labels; never consulted).  Column labels need not be distinct: pandas
selection by label returns *all* columns with that label, and so does `sel` here.  Python's
partiality is explicit (`E:attr`, `E:index`, `E:type`, `E:ambiguous`, `E:key`, `E:format` besides the two
`ValueError`s of `read_weather_inputs`).  Core Lean only; no numbers are computed.
-/

namespace Aqua.WeatherBind
open Aqua.RunShape

/-- a cell of a weather table -/
inductive WCell (κ : Type) where
  /-- a number (float / int column) -/
  | num (x : κ)
  /-- a `Timestamp`, as a day number -/
  | date (d : Int)
  /-- pandas `NaT`: every ordering comparison with a `Timestamp` is `False` -/
  | nat
  /-- a missing value that is not a date (`NaN` / `None` in a column labelled `Date`): the scalar
  comparison `cell > Timestamp` raises `TypeError`, the vectorised comparison of an object column
  (or of a frame row) treats it as missing and yields `False` -/
  | null
  /-- anything else (strings, …); content not modelled -/
  | other
  deriving Repr, DecidableEq

variable {κ ι γ : Type}

/-- cells that can be compared with a `Timestamp` as scalars without `TypeError` -/
def WCell.isDateLike : WCell κ → Bool
  | .date _ => true
  | .nat => true
  | _ => false

/-- cells that a vectorised comparison with a `Timestamp` accepts (missing values give `False`) -/
def WCell.maskable : WCell κ → Bool
  | .date _ => true
  | .nat => true
  | .null => true
  | _ => false

/-- truth value of `cell <op> Timestamp` for a comparable cell (`NaT`: `False`) -/
def WCell.test (p : Int → Bool) : WCell κ → Bool
  | .date d => p d
  | _ => false

/-- a weather table: named columns (column-major) and an index -/
structure WTable (κ ι : Type) extends Table (WCell κ) where
  index : List ι

/-- boolean-mask selection `xs[mask]` -/
def keep : List Bool → List γ → List γ
  | b :: bs, x :: xs => if b then x :: keep bs xs else keep bs xs
  | _, _ => []

/-- `df[mask]`: every column and the index are masked -/
def WTable.filterRows (t : WTable κ ι) (m : List Bool) : WTable κ ι :=
  { cols := t.cols.map (fun c => (c.1, keep m c.2)), index := keep m t.index }

/-- all columns labelled `name`, in table order (pandas label selection with possibly repeated
labels) -/
def sel (name : String) (cols : List (String × List γ)) : List (List γ) :=
  (cols.filter (fun c => c.1 == name)).map (·.2)

/-- `cell <op> Timestamp` for a scalar: `TypeError` unless the cell is a date or `NaT` -/
def cmpCell (p : Int → Bool) (x : WCell κ) : Except String Bool :=
  if x.isDateLike then .ok (x.test p) else .error "E:type"

/-- `column <op> Timestamp` as a boolean mask -/
def maskOf (p : Int → Bool) (xs : List (WCell κ)) : Except String (List Bool) :=
  if xs.all (·.maskable) then .ok (xs.map (·.test p)) else .error "E:type"

/-- `.iloc[0]` (`last = false`) / `.iloc[-1]` (`last = true`) -/
def edge (last : Bool) (c : List γ) : Option γ := if last then c.getLast? else c.head?

/-- the truth value of `weather_df.Date.iloc[0] > start_date` (resp. `….iloc[-1] < end_date`) inside
`if`, given what `weather_df.Date` selects.  No `Date` label: `AttributeError`.  Empty table:
`IndexError`.  Several columns labelled `Date`: `weather_df.Date` is a frame, `.iloc[k]` a row, the
comparison a Series and its truth value ambiguous (`ValueError`) — unless the comparison itself
raises `TypeError` first. -/
def edgeTestOn (last : Bool) (p : Int → Bool) (dcols : List (List (WCell κ))) : Except String Bool :=
  match dcols with
  | [] => .error "E:attr"
  | [c] =>
    match edge last c with
    | none => .error "E:index"
    | some x => cmpCell p x
  | c :: c' :: cs =>
    match edge last c with
    | none => .error "E:index"
    | some _ =>
      if (c :: c' :: cs).all (fun d => match edge last d with
                                       | some x => x.maskable
                                       | none => true)
      then .error "E:ambiguous" else .error "E:type"

def dateEdgeTest (last : Bool) (p : Int → Bool) (t : WTable κ ι) : Except String Bool :=
  edgeTestOn last p (sel "Date" t.cols)

/-- `weather_df.Date <op> date` as a row mask (with several `Date` columns the edge tests have
raised before; the branch is unreachable from `readWeatherInputs`, see
`Proofs/WeatherBind.lean: readWeatherInputs_ne_frameMask`) -/
def maskOn (p : Int → Bool) (dcols : List (List (WCell κ))) : Except String (List Bool) :=
  match dcols with
  | [] => .error "E:attr"
  | [c] => maskOf p c
  | _ :: _ :: _ => .error "E:frame-mask"

def dateMask (p : Int → Bool) (t : WTable κ ι) : Except String (List Bool) :=
  maskOn p (sel "Date" t.cols)

/-- `read_weather_inputs(clock_struct, weather_df)` with `s = simulation_start_date`,
`e = simulation_end_date` -/
def readWeatherInputs (s e : Int) (t : WTable κ ι) : Except String (WTable κ ι) :=
  match dateEdgeTest false (fun d => decide (s < d)) t with
  | .error err => .error err
  | .ok true => .error "E:first-date"
  | .ok false =>
    match dateEdgeTest true (fun d => decide (d < e)) t with
    | .error err => .error err
    | .ok true => .error "E:last-date"
    | .ok false =>
      match dateMask (fun d => decide (s ≤ d)) t with
      | .error err => .error err
      | .ok m1 =>
        match dateMask (fun d => decide (d ≤ e)) (t.filterRows m1) with
        | .error err => .error err
        | .ok m2 => .ok ((t.filterRows m1).filterRows m2)

/-- `df[[names…]]`: for every name, in the order asked, all the columns with that label;
`KeyError` if a name is no label -/
def selectCols (names : List String) (cols : List (String × List γ)) :
    Except String (List (List γ)) :=
  match names with
  | [] => .ok []
  | n :: ns =>
    match sel n cols with
    | [] => .error "E:key"
    | c :: cs =>
      match selectCols ns cols with
      | .error err => .error err
      | .ok rest => .ok ((c :: cs) ++ rest)

/-- `.values` of a frame given by its columns: the list of rows -/
def rowsOf : List (List γ) → List (List γ)
  | [] => []
  | [c] => c.map (fun x => [x])
  | c :: c' :: cs => List.zipWith List.cons c (rowsOf (c' :: cs))

/-- `weather_df[["MinTemp", "MaxTemp", "Precipitation", "ReferenceET", "Date"]].values`
(`Aqua.RunShape.required` is that list of names) -/
def matrixOf (t : WTable κ ι) : Except String (List (List (WCell κ))) :=
  match selectCols required t.cols with
  | .error err => .error err
  | .ok cs => .ok (rowsOf cs)

/-- the pieces without the setter: `read_weather_inputs` then the matrix line of `_initialize` -/
def weatherMatrix (s e : Int) (t : WTable κ ι) : Except String (List (List (WCell κ))) :=
  match readWeatherInputs s e t with
  | .error err => .error err
  | .ok t' => matrixOf t'

/-- the `weather_df` setter of `AquaCropModel` -/
def formatCheck (t : WTable κ ι) : Except String Unit :=
  if ["Date", "MinTemp", "MaxTemp", "Precipitation", "ReferenceET"].all
      (fun n => t.cols.any (fun c => c.1 == n))
  then .ok () else .error "E:format"

/-- as the model object does it: setter in `__init__`, `read_weather_inputs`, setter again on the
clipped frame, matrix line -/
def modelWeather (s e : Int) (t : WTable κ ι) : Except String (List (List (WCell κ))) :=
  match formatCheck t with
  | .error err => .error err
  | .ok () =>
    match readWeatherInputs s e t with
    | .error err => .error err
    | .ok t' =>
      match formatCheck t' with
      | .error err => .error err
      | .ok () => matrixOf t'

/-- `_weather[time_step_counter]` (`time_step_counter ≥ 0`) -/
def dayRow (m : List (List γ)) (t : Nat) : Except String (List γ) :=
  match m[t]? with
  | some r => .ok r
  | none => .error "E:index"

/-- what the time step reads of the day's row -/
structure DayWeather (γ : Type) where
  tmin : γ
  tmax : γ
  precip : γ
  et0 : γ
  deriving Repr, DecidableEq

/-- `temp_min = weather_step[0]`, `temp_max = weather_step[1]`, `precipitation = weather_step[2]`,
`et0 = weather_step[3]` -/
def dayVars (r : List γ) : Except String (DayWeather γ) :=
  match r with
  | a :: b :: c :: d :: _ => .ok { tmin := a, tmax := b, precip := c, et0 := d }
  | _ => .error "E:index"

end Aqua.WeatherBind
