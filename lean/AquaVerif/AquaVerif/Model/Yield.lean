import AquaVerif.Model.Num
/-
Models of

* `aquacrop/solution/biomass_accumulation.py`                       → `biomassAccumulation`
* steps 18–19 of `aquacrop/timestep/run_single_timestep.py` (yield potential, dry and fresh
  yield; lines 409–428)                                             → `yieldStep`
* step 21 and the irrigation columns of the output block (lines 444–466) → `irrReport`

Both mirror the Python expression by expression and in the same operation order.

`np.isnan(dB)` is modelled by the reflexivity test `dB ≤ dB` (false exactly for NaN at `Float`,
always true in an ordered field — there the `dB = 0` replacement never fires).

`NewCond_DAP`, `NewCond_DelayedCDs`, `Crop.HIstartCD` are Python ints; they are passed as numbers
(exact at `Float`), `HIt / (YldFormCD / 3)` is Python true division.

The maturity test inside step 19 (`crop_mature = True`) belongs to the clock model
(`Model/Clock.lean`, the oracle `ev`).
-/

namespace Aqua
section
variable {α : Type} [Add α] [Sub α] [Mul α] [Div α] [Neg α] [LT α] [LE α]
  [DecidableLT α] [DecidableLE α] [OfScientific α] [OfNat α 0] [OfNat α 1] [OfNat α 3]
  [OfNat α 100]

/-- the crop parameters `biomass_accumulation` reads -/
structure BioCrop (α : Type) where
  cropType : Nat        -- Crop.CropType
  determinant : Nat     -- Crop.Determinant
  hiStartCD : α         -- Crop.HIstartCD
  yldFormCD : α         -- Crop.YldFormCD
  wp : α                -- Crop.WP
  wpy : α               -- Crop.WPy
  fco2 : α              -- Crop.fCO2

/-- `HIt = NewCond_DAP - NewCond_DelayedCDs - Crop.HIstartCD - 1` -/
def bioHIt (crop : BioCrop α) (dap delayedCDs : α) : α :=
  dap - delayedCDs - crop.hiStartCD - 1

/-- `fswitch` (only evaluated for crop types 2, 3 once `HIref > 0`) -/
def bioFswitch (crop : BioCrop α) (hit pctLag : α) : α :=
  if crop.determinant = 1 then pctLag / 100
  else if hit < crop.yldFormCD / 3 then hit / (crop.yldFormCD / 3)
  else 1

/-- `WPadj` before the CO2 adjustment -/
def bioWPadj0 (crop : BioCrop α) (dap delayedCDs hiRef pctLag : α) : α :=
  if (crop.cropType = 2 ∨ crop.cropType = 3) ∧ 0 < hiRef then
    crop.wp * (1 - (1 - crop.wpy / 100) * bioFswitch crop (bioHIt crop dap delayedCDs) pctLag)
  else crop.wp

/-- `WPadj` after `WPadj = WPadj * Crop.fCO2` -/
def bioWPadj (crop : BioCrop α) (dap delayedCDs hiRef pctLag : α) : α :=
  bioWPadj0 crop dap delayedCDs hiRef pctLag * crop.fco2

/-- `biomass_accumulation(Crop, DAP, DelayedCDs, HIref, PctLagPhase, B, B_NS, Tr, TrPot, et0,
growing_season)` → `(B, B_NS)` -/
def biomassAccumulation (crop : BioCrop α) (dap delayedCDs hiRef pctLag b bNS tr trPot et0 : α)
    (gs : Bool) : α × α :=
  if gs then
    let wpAdj := bioWPadj crop dap delayedCDs hiRef pctLag
    let dBNS := wpAdj * (trPot / et0)
    let dB0 := wpAdj * (tr / et0)
    let dB := if dB0 ≤ dB0 then dB0 else 0        -- `if np.isnan(dB): dB = 0`
    (b + dB, bNS + dBNS)
  else (0, 0)

/-- result of steps 18–19 -/
structure YieldOut (α : Type) where
  yieldPot : α
  dryYield : α
  freshYield : α

/-- steps 18–19 of the day: `YieldPot = (B_NS / 100) * HI` (always), and in the growing season
`DryYield = (B / 100) * HIadj`, `FreshYield = DryYield / (YldWC / 100)`, else both 0. -/
def yieldStep (bNS b hi hiAdj yldWC : α) (gs : Bool) : YieldOut α :=
  let yp := (bNS / 100) * hi
  if gs then
    let dry := (b / 100) * hiAdj
    { yieldPot := yp, dryYield := dry, freshYield := dry / (yldWC / 100) }
  else
    { yieldPot := yp, dryYield := 0, freshYield := 0 }

/-- step 21 and the "Irrigation" block of the output section of `run_single_timestep.py`:
`IrrNet = IrrNet + PreIrr`, `irr_net_cum = irr_net_cum + PreIrr`, then the daily irrigation
column `IrrDay` and the seasonal total `IrrTot` reported in the summary row:
net irrigation (method 4) reports `(IrrNet, irr_net_cum)`, every other method `(Irr, irr_cum)`,
and off season both are 0.  Returns `(IrrDay, IrrTot, irr_net_cum')`. -/
def irrReport (irrMethod : Nat) (irr irrCum irrNet irrNetCum preIrr : α) (gs : Bool) : α × α × α :=
  let irrNet' := irrNet + preIrr
  let irrNetCum' := irrNetCum + preIrr
  if gs then
    if irrMethod = 4 then (irrNet', irrNetCum', irrNetCum')
    else (irr, irrCum, irrNetCum')
  else (0, 0, irrNetCum')

end
end Aqua
