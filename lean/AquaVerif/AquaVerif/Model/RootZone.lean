import AquaVerif.Model.Profile
/-
Model of `aquacrop/solution/root_zone_water.py`: water stored in the root zone and in the top
soil, total available water and depletion, root-zone averages of the characteristic water
contents.  Used by `irrigation`, `transpiration`, `canopy_cover`, `harvest_index` and step 20 of
the day.
-/

namespace Aqua
section
variable {α : Type} [Add α] [Sub α] [Mul α] [Div α] [Neg α] [LT α] [LE α]
  [DecidableLT α] [DecidableLE α] [OfScientific α] [OfNat α 0] [OfNat α 1] [OfNat α 100]
  [OfNat α 1000]

structure RZ (α : Type) where
  wrAct : α
  drZt : α
  drRz : α
  tawZt : α
  tawRz : α
  thAct : α
  thS : α
  thFC : α
  thWP : α
  thDry : α
  thAer : α

/-- accumulators of the root-zone loop: `(WrAct, WrS, WrFC, WrWP, WrDry, WrAer)` -/
structure RZAcc (α : Type) where
  act : α
  s : α
  fc : α
  wp : α
  dry : α
  aer : α

/-- the loop `for ii in range(comp_sto + 1)` — `n` counts the remaining iterations.
`none` when it would index past the profile. -/
def rzLoop (F : Fn α) (rootdepth aer : α) : Nat → List (Cell α) → RZAcc α → Option (RZAcc α)
  | 0, _, a => some a
  | _+1, [], _ => none
  | n+1, x :: xs, a =>
    let factor := if rootdepth < x.c.dzsum then 1 - ((x.c.dzsum - rootdepth) / x.c.dz) else 1
    rzLoop F rootdepth aer n xs
      { act := a.act + F.round2 (factor * 1000 * x.th * x.c.dz)
        s   := a.s + F.round2 (factor * 1000 * x.c.thS * x.c.dz)
        fc  := a.fc + F.round2 (factor * 1000 * x.c.thFC * x.c.dz)
        wp  := a.wp + F.round2 (factor * 1000 * x.c.thWP * x.c.dz)
        dry := a.dry + F.round2 (factor * 1000 * x.c.thDry * x.c.dz)
        aer := a.aer + F.round2 (factor * 1000 * (x.c.thS - (aer / 100)) * x.c.dz) }

/-- `np.sum(dzsum <= z)` -/
def countLE (z : α) : List (Cell α) → Nat
  | [] => 0
  | x :: xs => (if x.c.dzsum ≤ z then 1 else 0) + countLE z xs

/-- top-soil loop `for ii in range(comp_sto)`: `(WrAct_Zt, WrFC_Zt, WrWP_Zt)` (no rounding). -/
def ztLoop (ztop : α) : Nat → List (Cell α) → α × α × α → Option (α × α × α)
  | 0, _, a => some a
  | _+1, [], _ => none
  | n+1, x :: xs, (act, fc, wp) =>
    let factor := if ztop < x.c.dzsum then 1 - ((x.c.dzsum - ztop) / x.c.dz) else 1
    ztLoop ztop n xs
      (act + (factor * 1000 * x.th * x.c.dz), fc + (factor * 1000 * x.c.thFC * x.c.dz),
       wp + (factor * 1000 * x.c.thWP * x.c.dz))

/-- `root_zone_water(prof, z_root, th, z_top, Zmin, Aer)`; `none` = Python raises
(`IndexError` when the rooting depth is below the profile, or the `comp_sto > 0` assertion). -/
def rootZoneWater (F : Fn α) (cells : List (Cell α)) (zRoot zTop zMin aer : α) : Option (RZ α) :=
  let rootdepth := F.round2 (pmax zRoot zMin)
  match firstGE rootdepth cells with
  | none => none
  | some compSto =>
    match rzLoop F rootdepth aer (compSto + 1) cells ⟨0, 0, 0, 0, 0, 0⟩ with
    | none => none
    | some a =>
      let wrAct := if a.act < 0 then 0 else a.act
      let tawRz := pmax (a.fc - a.wp) 0
      let drRz := pmin (a.fc - wrAct) tawRz
      let d := rootdepth * 1000
      if zTop < rootdepth then
        let ztop := F.pyRound2 zTop
        let n := countLE ztop cells
        if n = 0 then none else
        match ztLoop ztop n cells (0, 0, 0) with
        | none => none
        | some (actZt, fcZt, wpZt) =>
          let actZt := if actZt < 0 then 0 else actZt
          let tawZt := pmax (fcZt - wpZt) 0
          let drZt := pmin (fcZt - actZt) tawZt
          some { wrAct := wrAct, drZt := drZt, drRz := drRz, tawZt := tawZt, tawRz := tawRz,
                 thAct := wrAct / d, thS := a.s / d, thFC := a.fc / d, thWP := a.wp / d,
                 thDry := a.dry / d, thAer := a.aer / d }
      else
        some { wrAct := wrAct, drZt := drRz, drRz := drRz, tawZt := tawRz, tawRz := tawRz,
               thAct := wrAct / d, thS := a.s / d, thFC := a.fc / d, thWP := a.wp / d,
               thDry := a.dry / d, thAer := a.aer / d }

end
end Aqua
