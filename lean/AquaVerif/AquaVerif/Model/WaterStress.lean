import AquaVerif.Model.Num
/-
Models of `aquacrop/solution/water_stress.py` and `aquacrop/solution/aeration_stress.py`.
-/

namespace Aqua
section
variable {α : Type} [Add α] [Sub α] [Mul α] [Div α] [Neg α] [LT α] [LE α]
  [DecidableLT α] [DecidableLE α] [OfScientific α] [OfNat α 0] [OfNat α 1] [OfNat α 3] [OfNat α 5]
  [OfNat α 9] [OfNat α 10] [OfNat α 100]

/-- ET0 adjustment of a depletion threshold: `p + (0.04 * (5 - et0)) * log10(10 - 9 * p)` -/
def etAdjust (F : Fn α) (p et0 : α) : α :=
  p + (0.04 * (5 - et0)) * (F.log10 (10 - 9 * p))

/-- clip to `[0,1]` as `np.minimum(np.maximum(p, 0), 1)` -/
def clip01 (p : α) : α :=
  let a := if p < 0 then 0 else p      -- np.maximum(p, 0)
  if 1 < a then 1 else a               -- np.minimum(a, 1)

/-- relative depletion for one threshold pair -/
def drel (pUp pLo dr taw : α) : α :=
  if dr ≤ pUp * taw then 0
  else if dr < pLo * taw then 1 - ((pLo - (dr / taw)) / (pLo - pUp))
  else 1

/-- `1 - (exp(d·f) - 1)/(exp(f) - 1)` -/
def ksShape (F : Fn α) (d f : α) : α :=
  1 - ((F.exp (d * f) - 1) / (F.exp f - 1))

structure Ksw (α : Type) where
  exp : α
  sto : α
  sen : α
  pol : α
  stoLin : α

/-- `water_stress(p_up[4], p_lo[4], ETadj, beta, fshape_w[4], tEarlySen, Dr, taw, et0, beta_flag)`.
`pUp i`, `pLo i`, `fsh i` for `i = 0..3`. -/
def waterStress (F : Fn α) (pUp pLo fsh : Fin 4 → α) (etAdj : Bool) (betaPct : α)
    (tEarlySen dr taw et0 : α) (betaFlag : Bool) : Ksw α :=
  -- ET0 adjustment applies to the first three thresholds only
  let up (i : Fin 4) : α := if etAdj ∧ i.val < 3 then etAdjust F (pUp i) et0 else pUp i
  let lo (i : Fin 4) : α := if etAdj ∧ i.val < 3 then etAdjust F (pLo i) et0 else pLo i
  let up2 : α := if betaFlag ∧ 0 < tEarlySen then up 2 * (1 - betaPct / 100) else up 2
  let upC (i : Fin 4) : α := clip01 (if i.val = 2 then up2 else up i)
  let loC (i : Fin 4) : α := clip01 (lo i)
  let d (i : Fin 4) : α := drel (upC i) (loC i) dr taw
  { exp := ksShape F (d 0) (fsh 0)
    sto := ksShape F (d 1) (fsh 1)
    sen := ksShape F (d 2) (fsh 2)
    pol := 1 - d 3
    stoLin := 1 - d 1 }

/-- `aeration_stress(aer_days, LagAer, thRZ)` → `(Ksa_Aer, aer_days')`.
`none`: neither branch of the Python `if/elif` assigns `Ksa_Aer` — impossible for ordered
numbers (kept for faithfulness with NaN-free inputs: the two tests are complementary). -/
def aerationStress (aerDays lagAer thAct thS thAer : α) : α × α :=
  if thAer < thAct then
    let ksa :=
      if aerDays < lagAer then
        let stress := 1 - ((thS - thAct) / (thS - thAer))
        1 - ((aerDays / 3) * stress)
      else (thS - thAct) / (thS - thAer)
    let a := aerDays + 1
    (ksa, if lagAer < a then lagAer else a)
  else (1, 0)

end
end Aqua
