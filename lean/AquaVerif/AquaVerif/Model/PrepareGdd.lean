import AquaVerif.Model.CropCalendar
import AquaVerif.Model.RootDevelopment
/-
Model of the `if crop.SwitchGDD == 1:` block of `compute_crop_calendar`, Mode 1
(`aquacrop/initialize/compute_crop_calendar.py`) and of `aquacrop/utils/prepare_gdd.py`
(`prepare_gdd`): conversion of a calendar-day crop calendar to thermal time.

Inputs that the Python derives with pandas date arithmetic and that the encoder *records from the
real call* (it never recomputes them): one record per row of the window
`weather_df.loc[pd.date_range(pl_date, time_span[-1])]`, holding
  * the season label that `prepare_gdd` wrote into `weather_df['season']` (`none` = NaN: a row no
    season of the labelling loop covers), and
  * `(MinTemp, MaxTemp)`;
and `hasCol`: whether the column `season` exists after the labelling loop (it does not when the
loop body never ran: first planting date after the end of the simulation → `KeyError`).

What the Python does and the model mirrors:
  * `seasons = weather_df['season'].unique()` — labels in order of first appearance, all NaN
    collapsed into one entry (`uniqLabels`);
  * `weather_df[weather_df['season'] == season]` — for a NaN label this is EMPTY (`NaN == NaN` is
    false), so `gdd_cum.iloc[int(crop.EmergenceCD)]` raises `IndexError` (`E:index`);
  * `np.cumsum` = sequential addition (`cumsum` of `Model/CropCalendar.lean`);
  * `.iloc[int(x)]`: `int` truncates towards zero (parameter `toInt`), negative positions count from
    the end, out of range → `IndexError` (`iloc`);
  * `np.mean(list)`: `0 + pairwise_sum(a)` divided by the count; `pairwise_sum` of fewer than 8
    terms is `0. + a[0] + a[1] + …` left to right, from 8 terms on numpy's eight-lane blocked
    summation (`npSum` of `Model/RootDevelopment.lean`, reused);
  * `np.median(list)`: sort, `np.mean` of the middle element / of the two middle elements;
    both give `0/0` (NaN) on an empty list (no row in the window);
  * the attributes set are exactly `Emergence Canopy10Pct MaxRooting MaxCanopy CanopyDevEnd
    Senescence Maturity HIstart HIend YieldFormation` (+ `FloweringEnd FloweringDuration` for
    `CropType == 3`).  **`crop.YldForm` and `crop.Flowering` are not converted**; the values
    collected for `YieldFormation` are `crop.HIend - crop.HIstart` evaluated while both still hold
    the calendar-day values, and `FloweringDuration` is `flowering_end(GDD) - crop.HIstart(days)`;
  * a `sum_fun` other than `'mean'` / `'median'` sets nothing.

Errors: `E:unbound` (GDDmethod not 1, 2, 3), `E:key` (no `season` column), `E:index`.
-/

namespace Aqua
section
variable {α : Type} [Add α] [Sub α] [Mul α] [Div α] [Neg α] [LT α] [LE α]
  [DecidableLT α] [DecidableLE α] [OfScientific α] [IntCast α] [OfNat α 0] [OfNat α 1] [OfNat α 2]
  [OfNat α 5] [OfNat α 100] [OfNat α 999]

/-! ### labels -/

/-- `Series.unique()`: values in order of first appearance (all NaN are one value) -/
def uniqLabels : List (Option Nat) → List (Option Nat)
  | [] => []
  | x :: xs => x :: (uniqLabels xs).filter (fun y => decide (y ≠ x))

/-- `season_data['gdd']` for `weather_df[weather_df['season'] == season]`: comparison with NaN is
false for every row -/
def seasonGdd (rows : List (Option Nat × α)) : Option Nat → List α
  | none => []
  | some k => (rows.filter (fun r => decide (r.1 = some k))).map (·.2)

/-- `s.iloc[i]` for a Python int `i` -/
def iloc (l : List α) (i : Int) : Option α :=
  if 0 ≤ i then l[i.toNat]?
  else if i.natAbs ≤ l.length then l[l.length - i.natAbs]? else none

/-! ### summarising -/

/-- `np.mean` of a list of floats: `np.add.reduce` (numpy's pairwise summation, `npSum` of
`Model/RootDevelopment.lean`: plain left-to-right addition for fewer than 8 terms, eight lanes
from 8 terms on) divided by the count -/
def gddNpMean (l : List α) : α := npSum l / ((l.length : Int) : α)

/-- insertion into an ascending list -/
def insertAsc (x : α) : List α → List α
  | [] => [x]
  | y :: ys => if x ≤ y then x :: y :: ys else y :: insertAsc x ys

/-- ascending sort -/
def sortAsc : List α → List α
  | [] => []
  | x :: xs => insertAsc x (sortAsc xs)

/-- `np.median` of a list of floats (no NaN among them): mean of the middle element (odd length)
or of the two middle elements (even length) of the sorted list; NaN (`0/0`) when empty -/
def gddNpMedian (l : List α) : α :=
  let s := sortAsc l
  let n := s.length
  if n = 0 then gddNpMean []
  else if n % 2 = 1 then gddNpMean ((s.drop (n / 2)).take 1)
  else gddNpMean ((s.drop (n / 2 - 1)).take 2)

/-- `sum_fun`: 0 = `'mean'`, 1 = `'median'`, anything else: no attribute is set -/
def summarise (sumFun : Nat) (old : α) (l : List α) : α :=
  if sumFun = 0 then gddNpMean l else if sumFun = 1 then gddNpMedian l else old

/-! ### prepare_gdd -/

/-- the crop attributes `prepare_gdd` reads -/
structure GddStagesIn (α : Type) where
  emergenceCD : α
  canopy10PctCD : α
  maxRootingCD : α
  maxCanopyCD : α
  canopyDevEndCD : α
  senescenceCD : α
  maturityCD : α
  hiStartCD : α
  hiEndCD : α
  floweringEndCD : α    -- read only when CropType == 3
  hiStart : α           -- crop.HIstart (calendar days at the time of the call)
  hiEnd : α             -- crop.HIend

/-- one season's entries of `gdd_lists` (also the summarised values) -/
structure GddStages (α : Type) where
  emergence : α
  canopy10Pct : α
  maxRooting : α
  maxCanopy : α
  canopyDevEnd : α
  senescence : α
  maturity : α
  hiStart : α
  hiEnd : α
  yieldFormation : α
  floweringEnd : α        -- CropType == 3 only (else a copy of the previous value)
  floweringDuration : α   -- CropType == 3 only

/-- the body of `for season in seasons:` for one season's cumulative sums (`none` = `IndexError`) -/
def seasonStages (toInt : α → Int) (cropType : Nat) (s : GddStagesIn α) (cum : List α) :
    Option (GddStages α) :=
  (iloc cum (toInt s.emergenceCD)).bind fun e =>
  (iloc cum (toInt s.canopy10PctCD)).bind fun c10 =>
  (iloc cum (toInt s.maxRootingCD)).bind fun mr =>
  (iloc cum (toInt s.maxCanopyCD)).bind fun mc =>
  (iloc cum (toInt s.canopyDevEndCD)).bind fun cde =>
  (iloc cum (toInt s.senescenceCD)).bind fun sen =>
  (iloc cum (toInt s.maturityCD)).bind fun mat =>
  (iloc cum (toInt s.hiStartCD)).bind fun his =>
  (iloc cum (toInt s.hiEndCD)).bind fun hie =>
  let yf := s.hiEnd - s.hiStart
  if cropType = 3 then
    (iloc cum (toInt s.floweringEndCD)).bind fun fe =>
      some { emergence := e, canopy10Pct := c10, maxRooting := mr, maxCanopy := mc,
             canopyDevEnd := cde, senescence := sen, maturity := mat, hiStart := his,
             hiEnd := hie, yieldFormation := yf, floweringEnd := fe,
             floweringDuration := fe - s.hiStart }
  else
    some { emergence := e, canopy10Pct := c10, maxRooting := mr, maxCanopy := mc,
           canopyDevEnd := cde, senescence := sen, maturity := mat, hiStart := his,
           hiEnd := hie, yieldFormation := yf, floweringEnd := 0, floweringDuration := 0 }

/-- the season loop: one `GddStages` per label, `none` = `IndexError` -/
def allSeasons (toInt : α → Int) (cropType : Nat) (s : GddStagesIn α)
    (rows : List (Option Nat × α)) : List (Option Nat) → Option (List (GddStages α))
  | [] => some []
  | k :: ks =>
    match seasonStages toInt cropType s (cumsum (seasonGdd rows k)) with
    | none => none
    | some v =>
      match allSeasons toInt cropType s rows ks with
      | none => none
      | some vs => some (v :: vs)

/-- `prepare_gdd(weather_df, sim_start, sim_end, gdd, crop, sum_fun)`.  `rows` = (season label,
gdd) per row of `weather_df`; `old` = the values the twelve attributes have before the call (kept
when `sum_fun` is neither `'mean'` nor `'median'`; `floweringEnd`/`floweringDuration` kept when
`CropType != 3`). -/
def prepareGdd (toInt : α → Int) (cropType : Nat) (hasCol : Bool) (sumFun : Nat)
    (s : GddStagesIn α) (old : GddStages α) (rows : List (Option Nat × α)) :
    Except String (GddStages α) :=
  if !hasCol then .error "E:key"
  else
    match allSeasons toInt cropType s rows (uniqLabels (rows.map (·.1))) with
    | none => .error "E:index"
    | some vs =>
        let f := summarise sumFun
        .ok { emergence := f old.emergence (vs.map (·.emergence)),
              canopy10Pct := f old.canopy10Pct (vs.map (·.canopy10Pct)),
              maxRooting := f old.maxRooting (vs.map (·.maxRooting)),
              maxCanopy := f old.maxCanopy (vs.map (·.maxCanopy)),
              canopyDevEnd := f old.canopyDevEnd (vs.map (·.canopyDevEnd)),
              senescence := f old.senescence (vs.map (·.senescence)),
              maturity := f old.maturity (vs.map (·.maturity)),
              hiStart := f old.hiStart (vs.map (·.hiStart)),
              hiEnd := f old.hiEnd (vs.map (·.hiEnd)),
              yieldFormation := f old.yieldFormation (vs.map (·.yieldFormation)),
              floweringEnd :=
                if cropType = 3 then f old.floweringEnd (vs.map (·.floweringEnd))
                else old.floweringEnd,
              floweringDuration :=
                if cropType = 3 then f old.floweringDuration (vs.map (·.floweringDuration))
                else old.floweringDuration }

/-! ### compute_crop_calendar, Mode == 1, SwitchGDD == 1 -/

/-- what the `SwitchGDD` branch writes: the mode-1 record with the converted attributes, and the
attributes only this branch creates -/
structure CalSwitchOut (α : Type) where
  cal : CalCDOut α
  yieldFormation : α      -- crop.YieldFormation
  floweringDuration : α   -- crop.FloweringDuration (meaningful when CropType == 3)
  calendarType : Nat      -- crop.CalendarType := 2

/-- `compute_crop_calendar` for `CalendarType == 1` and `SwitchGDD == 1`.
`oldYF`, `oldFD`: previous values of `crop.YieldFormation` / `crop.FloweringDuration` (only
visible when nothing sets them). `rows` = (season label, MinTemp, MaxTemp). -/
def calendarInitCDSwitch (F : Fn α) (toInt : α → Int) (c : CalCDIn α) (gddMethod : Nat)
    (tbase tupp : α) (hasCol : Bool) (sumFun : Nat) (oldYF oldFD : α)
    (rows : List (Option Nat × α × α)) : Except String (CalSwitchOut α) :=
  match calendarInitCD F { c with switchGDD := false } with
  | .error e => .error e
  | .ok o =>
    match GddMethod.ofNat? gddMethod with
    | none => .error "E:unbound"
    | some m =>
      let grow := rows.map (fun r => (r.1, gddDayInit m tbase tupp r.2.1 r.2.2))
      let sIn : GddStagesIn α :=
        { emergenceCD := c.emergenceCD, canopy10PctCD := o.canopy10PctCD,
          maxRootingCD := c.maxRootingCD, maxCanopyCD := o.maxCanopyCD,
          canopyDevEndCD := o.canopyDevEndCD, senescenceCD := c.senescenceCD,
          maturityCD := c.maturityCD, hiStartCD := c.hiStartCD, hiEndCD := o.hiEndCD,
          floweringEndCD := o.floweringEndCD, hiStart := o.hiStart, hiEnd := o.hiEnd }
      let old : GddStages α :=
        { emergence := o.emergence, canopy10Pct := o.canopy10Pct, maxRooting := o.maxRooting,
          maxCanopy := o.maxCanopy, canopyDevEnd := o.canopyDevEnd, senescence := o.senescence,
          maturity := o.maturity, hiStart := o.hiStart, hiEnd := o.hiEnd,
          yieldFormation := oldYF, floweringEnd := o.floweringEnd, floweringDuration := oldFD }
      match prepareGdd toInt c.cropType hasCol sumFun sIn old grow with
      | .error e => .error e
      | .ok g =>
        let cgc := F.log (((0.98 * c.ccx - c.ccx) * c.cc0) / (-0.25 * F.pow c.ccx 2)) /
                   (-(g.maxCanopy - g.emergence))
        let tCD := c.maturityCD - c.senescenceCD
        let tCD := if tCD ≤ 0 then 1 else tCD
        let cci := c.ccx * (1 - 0.05 * (F.exp (((3.33 * c.cdcCD) / (c.ccx + 2.29)) * tCD) - 1))
        let cci := if cci < 0 then 0 else cci
        let tGDD := g.maturity - g.senescence
        let tGDD := if tGDD ≤ 0 then 5 else tGDD
        let cdc := ((c.ccx + 2.29) * F.log ((((cci / c.ccx) - 1) / (-0.05)) + 1)) / (3.33 * tGDD)
        .ok { cal := { o with emergence := g.emergence, canopy10Pct := g.canopy10Pct,
                              maxRooting := g.maxRooting, maxCanopy := g.maxCanopy,
                              canopyDevEnd := g.canopyDevEnd, senescence := g.senescence,
                              maturity := g.maturity, hiStart := g.hiStart, hiEnd := g.hiEnd,
                              floweringEnd := g.floweringEnd, cdc := cdc, cgc := cgc },
              yieldFormation := g.yieldFormation, floweringDuration := g.floweringDuration,
              calendarType := 2 }

end
end Aqua
