import AquaVerif.Model.Response
import AquaVerif.Model.HIinit
/-
Model of the crop phenological calendar, which the repository computes at two hand-duplicated
sites:

* `aquacrop/initialize/compute_crop_calendar.py` (`compute_crop_calendar`, called from
  `read_model_parameters` when no harvest date is configured and again from `compute_variables`)
    - `Mode == 1` (calendar days)        → `calendarInitCD`
    - `Mode == 2` (growing degree days)  → `calendarInit`
  followed in `compute_variables` by the harvest-index block (`calculate_HIGC`,
  `calculate_HI_linear`)               → `hiBlock`, `calendarInitHI`
* the `if crop.CalendarType == 2:` block at the end of
  `aquacrop/timestep/reset_initial_conditions.py` (start of every season after the first)
                                         → `calendarReset`

Inputs that are *derived* by the Python before the modelled part (and by the encoders in the same
way): the list `temps` of `(MinTemp, MaxTemp)` records from the season's planting date to the end
of the simulation (init: `weather_df.loc[pd.date_range(pl_date, time_span[-1])]`; reset:
`weather[weather[:, 4] >= planting_dates[season_counter]]`).

The two sites differ in how they clip:
* init uses `pandas.Series.clip(lower=Tbase, upper=Tupp)`, which (pandas "GH 2747") first
  *swaps* the bounds when `lower > upper`, then applies the lower bound, then the upper bound;
  the one-sided clips of method 3 do not swap;
* reset uses numpy in-place assignment: first `x[x > Tupp] = Tupp`, then `x[x < Tbase] = Tbase`
  (exactly the daily `growing_degree_day`, `growingDegreeDay` of `Model/Response.lean`).
They coincide when `Tbase ≤ Tupp` (`Proofs/CropCalendar.lean`, with a counterexample otherwise).

Errors (`Except String`): `E:unbound` (a `GDDmethod` other than 1, 2, 3 leaves `gdd` unbound),
`E:index` (no weather record from the planting date on: `gdd_cum[-1]` on an empty array),
`E:assert:maturity` / `E:assert:year` (the two `assert`s), `E:fuel` (the `while` loops of
`calculate_HIGC` / `calculate_HI_linear`; the Python loop of `calculate_HIGC` does not terminate
for `YldFormCD ≤ 0`), `E:unsupported` (`SwitchGDD == 1` in mode 1: `prepare_gdd` is not modelled).

Day numbers are `Nat`, their differences `Int` (`YldFormCD`, `FloweringCD`; `NO_VALUE = -999`).
-/

namespace Aqua
section
variable {α : Type} [Add α] [Sub α] [Mul α] [Div α] [Neg α] [LT α] [LE α]
  [DecidableLT α] [DecidableLE α] [OfScientific α] [IntCast α] [OfNat α 0] [OfNat α 1] [OfNat α 2]
  [OfNat α 100] [OfNat α 999]

/-! ### daily growing degrees, the two clipping variants -/

/-- `GDDmethod` (1, 2, 3) -/
inductive GddMethod where
  | m1
  | m2
  | m3
  deriving DecidableEq, Repr

def GddMethod.ofNat? (n : Nat) : Option GddMethod :=
  if n = 1 then some .m1 else if n = 2 then some .m2 else if n = 3 then some .m3 else none

def GddMethod.toNat : GddMethod → Nat
  | .m1 => 1
  | .m2 => 2
  | .m3 => 3

/-- `s.clip(lower=lo)` on one element: `where(isna | s >= lo, lo)` -/
@[inline] def clipLower (x lo : α) : α := pmax x lo
/-- `s.clip(upper=hi)` on one element: `where(isna | s <= hi, hi)` -/
@[inline] def clipUpper (x hi : α) : α := pmin x hi

/-- `s.clip(lower=lo, upper=hi)` of pandas on one element: the scalar bounds are reordered
(`lower, upper = min(lower, upper), max(lower, upper)`), then the lower bound is applied, then the
upper bound. -/
def pdClip (x lo hi : α) : α :=
  let lo' := pmin lo hi
  let hi' := pmax lo hi
  clipUpper (clipLower x lo') hi'

/-- one day's growing degrees in `compute_crop_calendar` (pandas clipping) -/
def gddDayInit (m : GddMethod) (tbase tupp tmin tmax : α) : α :=
  match m with
  | .m1 =>
    let tmean := (tmax + tmin) / 2
    let tmean := pdClip tmean tbase tupp
    tmean - tbase
  | .m2 =>
    let tmax := pdClip tmax tbase tupp
    let tmin := pdClip tmin tbase tupp
    let tmean := (tmax + tmin) / 2
    tmean - tbase
  | .m3 =>
    let tmax := pdClip tmax tbase tupp
    let tmin := clipUpper tmin tupp
    let tmean := (tmax + tmin) / 2
    let tmean := clipLower tmean tbase
    tmean - tbase

/-- one day's growing degrees in `reset_initial_conditions` (numpy in-place clipping: upper bound
first, then lower bound) -/
def gddDayReset (m : GddMethod) (tbase tupp tmin tmax : α) : α :=
  match m with
  | .m1 =>
    let tmean := (tmax + tmin) / 2
    let tmean := pmin tmean tupp
    let tmean := pmax tmean tbase
    tmean - tbase
  | .m2 =>
    let tmax := pmin tmax tupp
    let tmax := pmax tmax tbase
    let tmin := pmin tmin tupp
    let tmin := pmax tmin tbase
    let tmean := (tmax + tmin) / 2
    tmean - tbase
  | .m3 =>
    let tmax := pmin tmax tupp
    let tmax := pmax tmax tbase
    let tmin := pmin tmin tupp
    let tmean := (tmax + tmin) / 2
    let tmean := pmax tmean tbase
    tmean - tbase

/-- the `gdd` vector of `compute_crop_calendar`; `temps` are `(MinTemp, MaxTemp)` records -/
def gddSeriesInit (m : GddMethod) (tbase tupp : α) (temps : List (α × α)) : List α :=
  temps.map (fun t => gddDayInit m tbase tupp t.1 t.2)

/-- the `gdd` vector of `reset_initial_conditions` -/
def gddSeriesReset (m : GddMethod) (tbase tupp : α) (temps : List (α × α)) : List α :=
  temps.map (fun t => gddDayReset m tbase tupp t.1 t.2)

/-! ### cumulative sum and threshold look-up -/

/-- running sums continuing from `acc` -/
def cumsumFrom (acc : α) : List α → List α
  | [] => []
  | x :: xs => (acc + x) :: cumsumFrom (acc + x) xs

/-- `np.cumsum`: plain left-to-right summation, the first element is the first term itself -/
def cumsum : List α → List α
  | [] => []
  | x :: xs => x :: cumsumFrom x xs

/-- position of the first element exceeding `x` -/
def findAbove (x : α) : List α → Option Nat
  | [] => none
  | c :: cs => if x < c then some 0 else (findAbove x cs).map (· + 1)

/-- `(cum > x).idxmax()` on a default-indexed Series / `(cum > x).argmax()`: the position of the
first element exceeding `x`, and **0 when there is none**. -/
def firstAbove (cum : List α) (x : α) : Nat := (findAbove x cum).getD 0

/-! ### the look-ups shared by the two sites -/

/-- growing-degree thresholds the look-ups read -/
structure CalThresh (α : Type) where
  maturity : α       -- crop.Maturity
  maxCanopy : α      -- crop.MaxCanopy
  canopyDevEnd : α   -- crop.CanopyDevEnd
  hiStart : α        -- crop.HIstart
  hiEnd : α          -- crop.HIend
  floweringEnd : α   -- crop.FloweringEnd (read only when CropType == 3)

/-- calendar-day fields written by the look-ups -/
structure CalDays where
  maturityCD : Nat
  maxCanopyCD : Nat
  canopyDevEndCD : Nat
  hiStartCD : Nat
  hiEndCD : Nat
  yldFormCD : Int
  floweringCD : Int    -- `NO_VALUE` (-999) unless CropType == 3
  deriving DecidableEq, Repr

/-- `ModelConstants.NO_VALUE` -/
def noValue : Int := -999

/-- from `assert gdd_cum[-1] > crop.Maturity` to the assignment of `crop.FloweringCD`
(the same statements at both sites; `idxmax` of a default-indexed Series = `argmax`). -/
def calendarDays (cropType : Nat) (th : CalThresh α) (cum : List α) : Except String CalDays :=
  match cum.getLast? with
  | none => .error "E:index"
  | some last =>
    if th.maturity < last then
      let maturityCD := firstAbove cum th.maturity + 1
      if maturityCD < 365 then
        let maxCanopyCD := firstAbove cum th.maxCanopy + 1
        let canopyDevEndCD := firstAbove cum th.canopyDevEnd + 1
        let hiStartCD := firstAbove cum th.hiStart + 1
        let hiEndCD := firstAbove cum th.hiEnd + 1
        let yldFormCD : Int := (hiEndCD : Int) - (hiStartCD : Int)
        let floweringCD : Int :=
          if cropType = 3 then ((firstAbove cum th.floweringEnd + 1 : Nat) : Int) - (hiStartCD : Int)
          else noValue
        .ok { maturityCD := maturityCD, maxCanopyCD := maxCanopyCD,
              canopyDevEndCD := canopyDevEndCD, hiStartCD := hiStartCD, hiEndCD := hiEndCD,
              yldFormCD := yldFormCD, floweringCD := floweringCD }
      else .error "E:assert:year"
    else .error "E:assert:maturity"

/-! ### harvest-index block (`compute_variables` lines after the calendar call; reset, end) -/

/-- `crop.HIGC = calculate_HIGC(YldFormCD, HI0, HIini)`; for `CropType == 3`
`tLinSwitch, dHILinear = calculate_HI_linear(YldFormCD, HIini, HI0, HIGC)`, else `0`, `0.0`.
Returns `(HIGC, tLinSwitch, dHILinear)`. -/
def hiBlock (F : Fn α) (fuel : Nat) (cropType : Nat) (yldFormCD : Int) (hi0 hiIni : α) :
    Except String (α × α × α) :=
  match calculateHIGC F fuel (yldFormCD : α) hi0 hiIni with
  | none => .error "E:fuel"
  | some g =>
    if cropType = 3 then
      match calculateHILinear F fuel (yldFormCD : α) hiIni hi0 g with
      | none => .error "E:fuel"
      | some (t, d) => .ok (g, t, d)
    else .ok (g, 0, 0)

/-! ### compute_crop_calendar, Mode == 2 -/

/-- crop fields `compute_crop_calendar` reads in mode 2 -/
structure CalGDDIn (α : Type) where
  determinant : Bool   -- crop.Determinant == 1
  cropType : Nat       -- crop.CropType
  gddMethod : Nat      -- crop.GDDmethod
  tbase : α
  tupp : α
  emergence : α
  maturity : α
  hiStart : α
  flowering : α
  yldForm : α
  senescence : α
  cc0 : α
  ccx : α
  cgc : α
  floweringEnd : α     -- previous value of crop.FloweringEnd (kept unless CropType == 3)

/-- crop fields `compute_crop_calendar` writes in mode 2 -/
structure CalGDDOut (α : Type) where
  canopyDevEnd : α
  canopy10Pct : α
  maxCanopy : α
  hiEnd : α
  floweringEnd : α
  days : CalDays

/-- the growing-degree thresholds after the first part of mode 2 -/
def initThresh (F : Fn α) (c : CalGDDIn α) : CalThresh α × α :=
  let canopyDevEnd :=
    if c.determinant then F.round0 (c.hiStart + c.flowering / 2) else c.senescence
  let canopy10Pct := F.round0 (c.emergence + F.log (0.1 / c.cc0) / c.cgc)
  let maxCanopy := F.round0 (c.emergence +
    F.log ((0.25 * c.ccx * c.ccx / c.cc0) / (c.ccx - 0.98 * c.ccx)) / c.cgc)
  let hiEnd := c.hiStart + c.yldForm
  let floweringEnd := if c.cropType = 3 then c.hiStart + c.flowering else c.floweringEnd
  ({ maturity := c.maturity, maxCanopy := maxCanopy, canopyDevEnd := canopyDevEnd,
     hiStart := c.hiStart, hiEnd := hiEnd, floweringEnd := floweringEnd }, canopy10Pct)

/-- `compute_crop_calendar` for `crop.CalendarType == 2` -/
def calendarInit (F : Fn α) (c : CalGDDIn α) (temps : List (α × α)) :
    Except String (CalGDDOut α) :=
  let (th, canopy10Pct) := initThresh F c
  match GddMethod.ofNat? c.gddMethod with
  | none => .error "E:unbound"
  | some m =>
    match calendarDays c.cropType th (cumsum (gddSeriesInit m c.tbase c.tupp temps)) with
    | .error e => .error e
    | .ok d =>
      .ok { canopyDevEnd := th.canopyDevEnd, canopy10Pct := canopy10Pct,
            maxCanopy := th.maxCanopy, hiEnd := th.hiEnd, floweringEnd := th.floweringEnd,
            days := d }

/-- mode 2 of `compute_crop_calendar` followed by the harvest-index block of
`compute_variables`: `(calendar, HIGC, tLinSwitch, dHILinear)` -/
def calendarInitHI (F : Fn α) (fuel : Nat) (c : CalGDDIn α) (hi0 hiIni : α)
    (temps : List (α × α)) : Except String (CalGDDOut α × α × α × α) :=
  match calendarInit F c temps with
  | .error e => .error e
  | .ok o =>
    match hiBlock F fuel c.cropType o.days.yldFormCD hi0 hiIni with
    | .error e => .error e
    | .ok (g, t, d) => .ok (o, g, t, d)

/-! ### reset_initial_conditions, thermal-calendar block -/

/-- crop fields the reset block reads -/
structure CalResetIn (α : Type) where
  cropType : Nat
  gddMethod : Nat
  tbase : α
  tupp : α
  th : CalThresh α
  hi0 : α
  hiIni : α

/-- crop fields the reset block writes -/
structure CalResetOut (α : Type) where
  days : CalDays
  higc : α
  tLinSwitch : α
  dHILinear : α

/-- the calendar-day part of the reset block (up to `crop.FloweringCD = …`) -/
def calendarResetDays (c : CalResetIn α) (temps : List (α × α)) : Except String CalDays :=
  match GddMethod.ofNat? c.gddMethod with
  | none => .error "E:unbound"
  | some m => calendarDays c.cropType c.th (cumsum (gddSeriesReset m c.tbase c.tupp temps))

/-- the `if crop.CalendarType == 2:` block of `reset_initial_conditions` -/
def calendarReset (F : Fn α) (fuel : Nat) (c : CalResetIn α) (temps : List (α × α)) :
    Except String (CalResetOut α) :=
  match calendarResetDays c temps with
  | .error e => .error e
  | .ok d =>
    match hiBlock F fuel c.cropType d.yldFormCD c.hi0 c.hiIni with
    | .error e => .error e
    | .ok (g, t, dl) => .ok { days := d, higc := g, tLinSwitch := t, dHILinear := dl }

/-! ### compute_crop_calendar, Mode == 1 -/

/-- crop fields `compute_crop_calendar` reads in mode 1 -/
structure CalCDIn (α : Type) where
  determinant : Bool   -- crop.Determinant == 1
  cropType : Nat
  switchGDD : Bool     -- crop.SwitchGDD == 1
  hiStartCD : α
  floweringCD : α
  senescenceCD : α
  emergenceCD : α
  maxRootingCD : α
  maturityCD : α
  yldFormCD : α
  cc0 : α
  ccx : α
  cgcCD : α
  cdcCD : α
  floweringEnd : α     -- previous value of crop.FloweringEnd (kept when CropType == 3)

/-- crop fields `compute_crop_calendar` writes in mode 1 (without `SwitchGDD`) -/
structure CalCDOut (α : Type) where
  canopyDevEndCD : α
  canopy10PctCD : α
  maxCanopyCD : α
  hiEndCD : α
  emergence : α
  canopy10Pct : α
  maxRooting : α
  senescence : α
  maturity : α
  maxCanopy : α
  canopyDevEnd : α
  hiStart : α
  hiEnd : α
  yldForm : α
  floweringEndCD : α
  floweringEnd : α
  floweringCD : α
  cdc : α
  cgc : α

/-- `compute_crop_calendar` for `crop.CalendarType == 1`.  `SwitchGDD == 1` (conversion to thermal
time through `prepare_gdd`) is not modelled: `E:unsupported`. -/
def calendarInitCD (F : Fn α) (c : CalCDIn α) : Except String (CalCDOut α) :=
  let canopyDevEndCD :=
    if c.determinant then F.round0 (c.hiStartCD + c.floweringCD / 2) else c.senescenceCD
  let canopy10PctCD := F.round0 (c.emergenceCD + F.log (0.1 / c.cc0) / c.cgcCD)
  let maxCanopyCD := F.round0 (c.emergenceCD +
    F.log ((0.25 * c.ccx * c.ccx / c.cc0) / (c.ccx - 0.98 * c.ccx)) / c.cgcCD)
  let hiEndCD := c.hiStartCD + c.yldFormCD
  let fl : α × α × α :=
    if c.cropType = 3 then (c.hiStartCD + c.floweringCD, c.floweringEnd, c.floweringCD)
    else (-999, -999, c.floweringCD)   -- `FloweringCD` (an input, read above) is left as given
  if c.switchGDD then .error "E:unsupported"
  else
    .ok { canopyDevEndCD := canopyDevEndCD, canopy10PctCD := canopy10PctCD,
          maxCanopyCD := maxCanopyCD, hiEndCD := hiEndCD,
          emergence := c.emergenceCD, canopy10Pct := canopy10PctCD, maxRooting := c.maxRootingCD,
          senescence := c.senescenceCD, maturity := c.maturityCD, maxCanopy := maxCanopyCD,
          canopyDevEnd := canopyDevEndCD, hiStart := c.hiStartCD, hiEnd := hiEndCD,
          yldForm := c.yldFormCD, floweringEndCD := fl.1, floweringEnd := fl.2.1,
          floweringCD := fl.2.2, cdc := c.cdcCD, cgc := c.cgcCD }

end
end Aqua
