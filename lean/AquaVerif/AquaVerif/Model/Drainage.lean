import AquaVerif.Model.Profile
/-
Model of `aquacrop/solution/drainage.py` (`drainage(prof, th_init, th_fc_Adj_init)`):
redistribution of stored soil water down the profile, limited by the drainage ability `dthdt` of
each compartment and its saturated hydraulic conductivity; water that cannot pass is stored and,
if that over-saturates a compartment, pushed back up the profile.

The model follows the Python branch by branch and in the same operation order.

* `dthdtOf` is the "drainage ability" block.  The Python inlines it six times (for `th_init[ii]`,
  for `thX`, and four times for `thnew[ii]`); all six copies are the same expression
  `tau*(th_s-th_fc)*((exp(x-th_fc)-1)/(exp(th_s-th_fc)-1))` with the same guards and the same cap.
* The `if a <= b: … elif a > b: …` pairs of the Python have *no* `else`: when the tested value is
  NaN neither arm runs.  The model keeps these dead arms (`br = 80`, `br = 90`) so that the
  `Float` run is faithful for NaN as well; in a linear order they are unreachable.
* `prethick = dzsum - dz` is `0` for the top compartment and the Python divides by
  `1000 * prethick` in the "storage needed" arm.  All operands are numpy `float64`, so this is an
  IEEE division (`inf`/`nan` + RuntimeWarning), never a `ZeroDivisionError`; `Float` division has
  the same semantics, so no error case is needed.  (The arm is only reachable for the top
  compartment when `drainmax` is NaN or negative, since `drainsum = 0` there.)
* Water pushed above the top compartment is silently dropped by the Python; here it is the ghost
  output `lost`.  A (never occurring) non-positive `excess`, which the Python also just forgets,
  is accounted in `lost` too, so that the balance is an exact identity.
* `br` is a ghost branch identifier per compartment (statistics only).
-/

namespace Aqua
section
variable {α : Type} [Add α] [Sub α] [Mul α] [Div α] [Neg α] [LT α] [LE α]
  [DecidableLT α] [DecidableLE α] [OfScientific α] [OfNat α 0] [OfNat α 1] [OfNat α 1000]

/-- drainage ability (m3/m3/day) of a compartment at water content `th`. -/
def dthdtOf (F : Fn α) (c : Comp α) (th fcAdj : α) : α :=
  if th ≤ fcAdj then 0
  else if c.thS ≤ th then
    let d := c.tau * (c.thS - c.thFC)
    if th - d < fcAdj then th - fcAdj else d
  else
    let d := c.tau * (c.thS - c.thFC)
      * ((F.exp (th - c.thFC) - 1) / (F.exp (c.thS - c.thFC) - 1))
    if th - d < fcAdj then th - fcAdj else d

/-- `thX`: the water content whose drainage ability equals `dthdt`. -/
def thXOf (F : Fn α) (c : Comp α) (fcAdj dthdt : α) : α :=
  if dthdt ≤ 0 then fcAdj
  else if 0 < c.tau then
    let a := 1 + (dthdt * (F.exp (c.thS - c.thFC) - 1)) / (c.tau * (c.thS - c.thFC))
    let t := c.thFC + F.log a
    if t < fcAdj then fcAdj else t
  else c.thS + 0.01

/-- result of processing one compartment: new water content, new cumulative drainage,
excess to be pushed back up, branch id (ghost). -/
structure DrainStep (α : Type) where
  th : α
  ds : α
  ex : α
  br : Nat

/-- "Restrict cumulative drainage to saturated hydraulic conductivity and adjust excess". -/
def capK (ksat thn ds ex : α) (br : Nat) : DrainStep α :=
  if ksat < ds then ⟨thn, ksat, ex + ds - ksat, br + 1⟩ else ⟨thn, ds, ex, br⟩

/-- "Calculate drainage ability for updated water content; update water content and cumulative
drainage" (three identical copies in the Python). -/
def drainFromNew (F : Fn α) (c : Comp α) (thn fcAdj : α) (br : Nat) : DrainStep α :=
  let d := dthdtOf F c thn fcAdj
  capK c.ksat (thn - d) (d * 1000 * c.dz) 0 br

/-- body of the `for ii` loop up to (not including) the redistribution of `excess`. -/
def drainStep (F : Fn α) (x : Cell α) (ds : α) : DrainStep α :=
  let c := x.c
  let prethick := c.dzsum - c.dz
  let dthdt := dthdtOf F c x.th x.fcAdj
  let draincomp := dthdt * c.dz * 1000
  let drainmax := dthdt * 1000 * prethick
  if ds ≤ drainmax then
    capK c.ksat (x.th - dthdt) (ds + draincomp) 0 10
  else
    let dthdt2 := ds / (1000 * prethick)
    let thX := thXOf F c x.fcAdj dthdt2
    if thX ≤ c.thS then
      let thn := x.th + ds / (1000 * c.dz)
      if thX < thn then
        let d := dthdtOf F c thX x.fcAdj
        capK c.ksat (thX - d) ((thn - thX) * 1000 * c.dz + d * 1000 * c.dz) 0 20
      else if x.fcAdj < thn then drainFromNew F c thn x.fcAdj 30
      else ⟨thn, 0, 0, 40⟩
    else if c.thS < thX then
      let thn := x.th + ds / (1000 * c.dz)
      if thn ≤ c.thS then
        if x.fcAdj < thn then drainFromNew F c thn x.fcAdj 50
        else ⟨thn, 0, 0, 60⟩
      else if c.thS < thn then
        let ex0 := (thn - c.thS) * 1000 * c.dz
        let d := dthdtOf F c thn x.fcAdj
        let dc := d * 1000 * c.dz
        let dm := d * 1000 * prethick
        let dm' := pmin dm ex0           -- `if drainmax > excess: drainmax = excess`
        capK c.ksat (c.thS - d) (dc + dm') (ex0 - dm') 70
      else ⟨thn, ds, 0, 80⟩          -- `thn` is NaN: neither arm of the Python runs
    else ⟨0, ds, 0, 90⟩              -- `thX` is NaN: `thnew[ii]` keeps its initial `0`

/-- the `while (excess > 0) and (precomp != 0)` loop for the compartments *above* `ii`
(nearest first): their `FluxOut` is reduced by the excess that passes back through them.
Returns the updated cells and the leftover excess that reaches the soil surface. -/
def pushUpAbove : List (Cell α) → α → List (Cell α) × α
  | [], e => ([], e)
  | x :: xs, e =>
    if 0 < e then
      let fl := x.flux - e
      let th1 := x.th + e / (1000 * x.c.dz)
      if x.c.thS < th1 then
        let r := pushUpAbove xs ((th1 - x.c.thS) * 1000 * x.c.dz)
        ({ x with th := x.c.thS, flux := fl } :: r.1, r.2)
      else ({ x with th := th1, flux := fl } :: xs, 0)
    else (x :: xs, e)

/-- the whole redistribution loop: the head of the list is the current compartment `ii`
(its `FluxOut` is not reduced), the tail the compartments above it, nearest first. -/
def pushUpDrain : List (Cell α) → α → List (Cell α) × α
  | [], e => ([], e)
  | x :: xs, e =>
    if 0 < e then
      let th1 := x.th + e / (1000 * x.c.dz)
      if x.c.thS < th1 then
        let r := pushUpAbove xs ((th1 - x.c.thS) * 1000 * x.c.dz)
        ({ x with th := x.c.thS } :: r.1, r.2)
      else ({ x with th := th1 } :: xs, 0)
    else (x :: xs, e)

structure DrainOut (α : Type) where
  /-- `th` = `thnew`, `flux` = `FluxOut`; `c`, `fcAdj`, `aer` untouched -/
  cells    : List (Cell α)
  deepPerc : α
  /-- ghost: sum of the excess dropped at the soil surface -/
  lost     : α
  /-- ghost: branch id per compartment -/
  brs      : List Nat

/-- main loop: `vis` = compartments already processed, reversed (nearest first). -/
def drainLoop (F : Fn α) : List (Cell α) → List (Cell α) → α → α → List Nat → DrainOut α
  | vis, [], ds, lost, brs =>
    { cells := vis.reverse, deepPerc := ds, lost := lost, brs := brs.reverse }
  | vis, x :: xs, ds, lost, brs =>
    let s := drainStep F x ds
    let r := pushUpDrain ({ x with th := s.th, flux := s.ds } :: vis) s.ex
    drainLoop F r.1 xs s.ds (lost + r.2) (s.br :: brs)

/-- `drainage(prof, th_init, th_fc_Adj_init)`. -/
def drainage (F : Fn α) (cells : List (Cell α)) : DrainOut α :=
  drainLoop F [] cells 0 0 []

end
end Aqua
