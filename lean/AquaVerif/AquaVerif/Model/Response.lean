import AquaVerif.Model.Num
/-
Models of the *response functions* (property C17):

* `aquacrop/solution/temperature_stress.py`   → `polHeat`, `polCold`, `temperatureStress`
* `aquacrop/solution/growing_degree_day.py`    → `growingDegreeDay`
* `aquacrop/solution/cc_development.py`        → `ccGrowth`, `ccDecline`, `ccDevelopment`
* `aquacrop/solution/cc_required_time.py`      → `ccRequiredTime`
* the CO2 adjustment of the water productivity, which the repository contains twice:
  `aquacrop/initialize/compute_variables.py` (`CO2ref = …` … `crop.fCO2 = …`)  → `fco2Init`
  `aquacrop/timestep/reset_initial_conditions.py` (same block, written differently) → `fco2Reset`

(`water_stress` and `aeration_stress` are in `Model/WaterStress.lean`.)

Every function mirrors the Python expression by expression and in the same operation order.
`none` = the Python raises `UnboundLocalError` (a variable that no branch assigned is read).
Division by zero is *not* an error in the model: it follows IEEE semantics at `Float` (which is
what numpy scalars do); for plain Python floats the interpreter would raise `ZeroDivisionError`
instead — the type of the operands is not visible to the model, see the report.
-/

namespace Aqua
section
variable {α : Type} [Add α] [Sub α] [Mul α] [Div α] [Neg α] [LT α] [LE α]
  [DecidableLT α] [DecidableLE α] [OfScientific α] [OfNat α 0] [OfNat α 1] [OfNat α 2]
  [OfNat α 20] [OfNat α 40] [OfNat α 550] [OfNat α 2000]

/-! ### temperature_stress -/

/-- the logistic pollination curve
`(KsPol_up * KsPol_lo) / (KsPol_lo + (KsPol_up - KsPol_lo) * np.exp(-fshape_b * (1 - Trel)))`
with `KsPol_up = 1`, `KsPol_lo = 0.001`. -/
def polLogistic (F : Fn α) (fshapeB trel : α) : α :=
  (1 * 0.001) / (0.001 + (1 - 0.001) * F.exp ((-fshapeB) * (1 - trel)))

/-- heat-stress coefficient when `PolHeatStress == 1`.  NB the code tests `Tmax_lo` *first*. -/
def polHeat (F : Fn α) (tmaxUp tmaxLo fshapeB tmax : α) : α :=
  if tmax ≤ tmaxLo then 1
  else if tmaxUp ≤ tmax then 0
  else polLogistic F fshapeB ((tmax - tmaxLo) / (tmaxUp - tmaxLo))

/-- cold-stress coefficient when `PolColdStress == 1`. -/
def polCold (F : Fn α) (tminUp tminLo fshapeB tmin : α) : α :=
  if tminUp ≤ tmin then 1
  else if tmin ≤ tminLo then 0
  else polLogistic F fshapeB ((tminUp - tmin) / (tminUp - tminLo))

/-- `temperature_stress(Crop, temp_max, temp_min)` → `(Kst_PolH, Kst_PolC)`.
The flags are compared with `0` and `1`; any other value leaves the coefficient unbound and the
final `return` raises `UnboundLocalError` (`none`). -/
def temperatureStress (F : Fn α) (polHeatFlag polColdFlag : Nat)
    (tmaxUp tmaxLo tminUp tminLo fshapeB tmax tmin : α) : Option (α × α) :=
  let h? : Option α :=
    if polHeatFlag = 0 then some 1
    else if polHeatFlag = 1 then some (polHeat F tmaxUp tmaxLo fshapeB tmax)
    else none
  let c? : Option α :=
    if polColdFlag = 0 then some 1
    else if polColdFlag = 1 then some (polCold F tminUp tminLo fshapeB tmin)
    else none
  match h?, c? with
  | some h, some c => some (h, c)
  | _, _ => none

/-! ### growing_degree_day -/

/-- `growing_degree_day(GDDmethod, Tupp, Tbase, temp_max, temp_min)`.
A method other than 1, 2, 3 leaves `gdd` unbound (`none`). -/
def growingDegreeDay (method : Nat) (tupp tbase tmax tmin : α) : Option α :=
  if method = 1 then
    let tmean := (tmax + tmin) / 2
    let tmean := pmin tmean tupp
    let tmean := pmax tmean tbase
    some (tmean - tbase)
  else if method = 2 then
    let tmax := pmin tmax tupp
    let tmax := pmax tmax tbase
    let tmin := pmin tmin tupp
    let tmin := pmax tmin tbase
    let tmean := (tmax + tmin) / 2
    some (tmean - tbase)
  else if method = 3 then
    let tmax := pmin tmax tupp
    let tmax := pmax tmax tbase
    let tmin := pmin tmin tupp
    let tmean := (tmax + tmin) / 2
    let tmean := pmax tmean tbase
    some (tmean - tbase)
  else none

/-! ### cc_development -/

/-- `Mode == "Growth"` / `Mode == "Decline"` (any other string leaves `canopy_cover` unbound;
the driver answers `E:unbound` for it without calling the model). -/
inductive CCMode where
  | growth
  | decline
  deriving DecidableEq, Repr

/-- the `Mode == "Growth"` block (before the final clipping to `[0,1]`). -/
def ccGrowth (F : Fn α) (cco ccx cgc dt : α) : α :=
  let cc := cco * F.exp (cgc * dt)
  let cc :=
    if ccx / 2 < cc then ccx - 0.25 * (ccx / cco) * ccx * F.exp ((-cgc) * dt)
    else cc
  if ccx < cc then ccx else cc

/-- the `Mode == "Decline"` block (before the final clipping to `[0,1]`). -/
def ccDecline (F : Fn α) (ccx cdc dt ccx0 : α) : α :=
  if ccx < 0.001 then 0
  else
    ccx * (1 - 0.05 *
      (F.exp (dt * cdc * 3.33 * ((ccx + 2.29) / (ccx0 + 2.29)) / (ccx + 2.29)) - 1))

/-- `if cc > 1: 1 elif cc < 0: 0` -/
def clipCC (cc : α) : α :=
  if 1 < cc then 1 else if cc < 0 then 0 else cc

/-- `cc_development(CCo, CCx, CGC, CDC, dt, Mode, CCx0)` -/
def ccDevelopment (F : Fn α) (cco ccx cgc cdc dt : α) (mode : CCMode) (ccx0 : α) : α :=
  clipCC (match mode with
    | .growth => ccGrowth F cco ccx cgc dt
    | .decline => ccDecline F ccx cdc dt ccx0)

/-! ### cc_required_time -/

/-- `Mode == "CGC"` / `Mode == "CDC"` (any other string leaves `tReq` unbound). -/
inductive ReqMode where
  | cgc
  | cdc
  deriving DecidableEq, Repr

/-- `cc_required_time(cc_prev, CCo, CCx, CGC, CDC, Mode)` -/
def ccRequiredTime (F : Fn α) (ccPrev cco ccx cgc cdc : α) (mode : ReqMode) : α :=
  match mode with
  | .cgc =>
    let cgcx :=
      if ccPrev ≤ ccx / 2 then F.log (ccPrev / cco)
      else F.log ((0.25 * ccx * ccx / cco) / (ccx - ccPrev))
    cgcx / cgc
  | .cdc => (F.log (1 + (1 - ccPrev / ccx) / 0.05)) / (cdc / ccx)

/-! ### CO2 adjustment of the water productivity (two copies) -/

/-- weighting factor `fw`.  (`if c <= ref: 0 else: (if c >= 550: 1 else: …)`; the reset copy
writes the same decision as `if / elif / else`.) -/
def fco2Weight (c ref : α) : α :=
  if c ≤ ref then 0
  else if 550 ≤ c then 1
  else 1 - ((550 - c) / (550 - ref))

/-- `fCO2old` -/
def fco2Old (c ref fw bsted bface fsink : α) : α :=
  (c / ref) /
    (1 + (c - ref) * ((1 - fw) * bsted + fw * ((bsted * fsink) + (bface * (1 - fsink)))))

/-- `fshape = -4.61824 - 3.43831*fsink - 5.32587*fsink*fsink` -/
def fco2Shape (fsink : α) : α :=
  -4.61824 - 3.43831 * fsink - 5.32587 * fsink * fsink

/-- `fCO2new` (the body of `if CO2conc > CO2ref:`) -/
def fco2New (F : Fn α) (c ref fsink : α) : α :=
  let fshape := fco2Shape fsink
  if 2000 ≤ c then 1.58
  else
    let rel := (c - ref) / (2000 - ref)
    1 + 0.58 * ((F.exp (rel * fshape) - 1) / (F.exp fshape - 1))

/-- crop-type weight `ftype` from the water productivity -/
def fco2Type (wp : α) : α :=
  if 40 ≤ wp then 0
  else if wp ≤ 20 then 1
  else (40 - wp) / (40 - 20)

/-- the selected coefficient `fCO2` of `compute_variables` (for the one crop of the run). -/
def fco2InitSel (F : Fn α) (c ref bsted bface fsink : α) : Option α :=
  let fw := fco2Weight c ref
  let old := fco2Old c ref fw bsted bface fsink          -- always computed
  let new? : Option α := if ref < c then some (fco2New F c ref fsink) else none
  if c ≤ ref then some old
  else
    match new? with
    | none => none      -- `fCO2new` unbound: impossible for ordered numbers (NaN only)
    | some new => if c ≤ 550 ∧ old < new then some old else some new

/-- `crop.fCO2` as computed in `compute_variables`. -/
def fco2Init (F : Fn α) (c ref bsted bface fsink wp : α) : Option α :=
  (fco2InitSel F c ref bsted bface fsink).map (fun f => 1 + fco2Type wp * (f - 1))

/-- the selected coefficient `fCO2` of `reset_initial_conditions`: `fCO2old` is assigned only
inside `if CO2conc <= 550:` but read whenever `CO2conc <= CO2ref`. -/
def fco2ResetSel (F : Fn α) (c ref bsted bface fsink : α) : Option α :=
  let old? : Option α :=
    if c ≤ 550 then some (fco2Old c ref (fco2Weight c ref) bsted bface fsink) else none
  let new? : Option α := if ref < c then some (fco2New F c ref fsink) else none
  if c ≤ ref then old?            -- `none`: UnboundLocalError (needs 550 < c ≤ ref)
  else
    match new? with
    | none => none
    | some new =>
      if c ≤ 550 then
        match old? with           -- bound here, same test as above
        | none => none
        | some old => if old < new then some old else some new
      else some new

/-- `crop.fCO2` as computed in `reset_initial_conditions`. -/
def fco2Reset (F : Fn α) (c ref bsted bface fsink wp : α) : Option α :=
  (fco2ResetSel F c ref bsted bface fsink).map (fun f => 1 + fco2Type wp * (f - 1))

end
end Aqua
