import AquaVerif.Model.Profile
/-
Model of `aquacrop/solution/capillary_rise.py`: upward flow from a shallow water table into the
compartments, walking from the bottom compartment up until the available rise `MaxCR` is used
up, the surface is reached, or a compartment that drained today (`FluxOut ≠ 0`) is met.

The loop walks bottom-up: the model recurses over the **reversed** cell list and reverses back.

Partiality (Python raises → `Except.error`):
* `water_table_presence ∉ {0, 1}`: `CrTot` never assigned → `UnboundLocalError` (`unbound`);
* empty profile: `prof.dzsum[-1]` → `IndexError` (`index`);
* `assert layeri == Soil_nLayer` with `layeri = prof.Layer[-1]` (`assert`).
The `while (zTopLayer < z_gw) and (layeri < Soil_nLayer)` loop that follows the assertion can
never run (`layeri == Soil_nLayer` there) — dead code, and it would raise if it ran
(`prof.Layer[layeri]` is an integer, `compdf.Ksat` an `AttributeError`).  Not modelled beyond the
assertion.

Ghost outputs: `crAdded` (the water really added to the profile; `CrTot` uses the *rounded* room
`dth = round(th_fc_Adj − th, 4)` while `th` is set to `th_fc_Adj` exactly), `dzFill`
(Σ `dz` of the compartments filled to `th_fc_Adj`, bounds `|CrTot − crAdded|`), and the branch
counters `nIter`, `nCap`, `nFill`.
-/

namespace Aqua
section
variable {α : Type} [Add α] [Sub α] [Mul α] [Div α] [Neg α] [LT α] [LE α]
  [DecidableLT α] [DecidableLE α] [OfScientific α] [OfNat α 0] [OfNat α 1] [OfNat α 2]
  [OfNat α 4] [OfNat α 99] [OfNat α 1000]

inductive CRErr where
  | index | unbound | assert
deriving Repr, DecidableEq

/-- `MaxCR` / `LimCR` of a compartment whose mid-point is at `zBotMid`. -/
def crLimit (F : Fn α) (zGW zBotMid : α) (c : Comp α) : α :=
  if 0 < c.ksat ∧ 0 < zGW ∧ zGW - zBotMid < 4 then
    if zGW ≤ zBotMid then 99
    else
      let m := F.exp ((F.log (zGW - zBotMid) - c.bCR) / c.aCR)
      if 99 < m then 99 else m
  else 0

/-- driving force `Df` -/
def crDf (F : Fn α) (fshape : α) (x : Cell α) : α :=
  if x.c.thWP ≤ x.th ∧ 0 < fshape then
    let d := 1 - F.pow ((x.th - x.c.thWP) / (x.fcAdj - x.c.thWP)) fshape
    if 1 < d then 1 else if d < 0 then 0 else d
  else 1

/-- relative hydraulic conductivity `Krel` -/
def crKrel (x : Cell α) : α :=
  let thThr := (x.c.thWP + x.c.thFC) / 2
  if x.th < thThr then
    if x.th ≤ x.c.thWP ∨ thThr ≤ x.c.thWP then 0
    else (x.th - x.c.thWP) / (thThr - x.c.thWP)
  else 1

/-- result of the storage part of one iteration -/
structure CRStep (α : Type) where
  th    : α
  cr    : α      -- `CRcomp` (meaningful when `kind ≠ 0`)
  add   : α      -- ghost: water really added
  maxCR : α
  kind  : Nat    -- 0: no room / below table, 1: `dth >= dthMax`, 2: filled to `th_fc_Adj`

/-- "Check if room is available … Store water if room is available". -/
def crStore (F : Fn α) (fshape zGW maxCR zBot : α) (x : Cell α) : CRStep α :=
  let df := crDf F fshape x
  let krel := crKrel x
  let dth := F.round4 (x.fcAdj - x.th)
  if 0 < dth ∧ zBot - x.c.dz / 2 < zGW then
    let dthMax := krel * df * maxCR / (1000 * x.c.dz)
    if dthMax ≤ dth then
      { th := x.th + dthMax, cr := dthMax * 1000 * x.c.dz, add := dthMax * 1000 * x.c.dz,
        maxCR := 0, kind := 1 }
    else
      { th := x.fcAdj, cr := dth * 1000 * x.c.dz, add := (x.fcAdj - x.th) * 1000 * x.c.dz,
        maxCR := (krel * maxCR) - (dth * 1000 * x.c.dz), kind := 2 }
  else
    { th := x.th, cr := 0, add := 0, maxCR := maxCR, kind := 0 }

/-- loop state -/
structure CRAcc (α : Type) where
  maxCR  : α
  zBot   : α
  wcr    : α
  added  : α    -- ghost
  dzFill : α    -- ghost
  nIter  : Nat  -- ghost
  nCap   : Nat  -- ghost
  nFill  : Nat  -- ghost

/-- state after the storage part and the `zBot`, `MaxCR ≤ LimCR` updates of one iteration;
`next` is the compartment above (`compi - 1`), if any. -/
def crAdvance (F : Fn α) (zGW : α) (x : Cell α) (next : Option (Cell α)) (s : CRAcc α)
    (r : CRStep α) : CRAcc α :=
  let zBot' := s.zBot - x.c.dz
  let m :=
    match next with
    | none => r.maxCR
    | some y =>
      let zBotMid := zBot' - (y.c.dz / 2)
      let lim := crLimit F zGW zBotMid y.c
      if lim < r.maxCR then lim else r.maxCR
  { maxCR := m, zBot := zBot',
    wcr := if r.kind = 0 then s.wcr else s.wcr + r.cr,
    added := if r.kind = 0 then s.added else s.added + r.add,
    dzFill := if r.kind = 2 then s.dzFill + x.c.dz else s.dzFill,
    nIter := s.nIter + 1,
    nCap := if r.kind = 1 then s.nCap + 1 else s.nCap,
    nFill := if r.kind = 2 then s.nFill + 1 else s.nFill }

/-- `while round(MaxCR*1000) > 0 and compi > -1 and round(FluxOut[compi]*1000) == 0`
over the reversed profile. -/
def crLoop (F : Fn α) (fshape zGW : α) : List (Cell α) → CRAcc α → List (Cell α) × CRAcc α
  | [], s => ([], s)
  | x :: xs, s =>
    if 0 < F.round0 (s.maxCR * 1000) ∧
        (F.round0 (x.flux * 1000) ≤ 0 ∧ 0 ≤ F.round0 (x.flux * 1000)) then
      let r := crStore F fshape zGW s.maxCR s.zBot x
      let s' := crAdvance F zGW x xs.head? s r
      let rest := crLoop F fshape zGW xs s'
      ({ x with th := r.th } :: rest.1, rest.2)
    else (x :: xs, s)

structure CROut (α : Type) where
  cells   : List (Cell α)
  crTot   : α
  crAdded : α    -- ghost
  dzFill  : α    -- ghost
  nIter   : Nat  -- ghost
  nCap    : Nat  -- ghost
  nFill   : Nat  -- ghost

/-- `capillary_rise(prof, Soil_nLayer, Soil_fshape_cr, NewCond, FluxOut, water_table_presence)`
reading `NewCond.z_gw`, `.th`, `.th_fc_Adj`. -/
def capillaryRise (F : Fn α) (cells : List (Cell α)) (nLayer : Nat) (fshapeCR zGW : α)
    (waterTable : Nat) : Except CRErr (CROut α) :=
  if waterTable = 0 then
    .ok { cells := cells, crTot := 0, crAdded := 0, dzFill := 0, nIter := 0, nCap := 0,
          nFill := 0 }
  else if waterTable = 1 then
    match cells.reverse with
    | [] => .error .index
    | b :: above =>
      let maxCR := crLimit F zGW b.c.zMid b.c
      if b.c.layer ≠ nLayer then .error .assert
      else
        let r := crLoop F fshapeCR zGW (b :: above)
          { maxCR := maxCR, zBot := b.c.dzsum, wcr := 0, added := 0, dzFill := 0, nIter := 0,
            nCap := 0, nFill := 0 }
        .ok { cells := r.1.reverse, crTot := r.2.wcr, crAdded := r.2.added,
              dzFill := r.2.dzFill, nIter := r.2.nIter, nCap := r.2.nCap, nFill := r.2.nFill }
  else .error .unbound

end
end Aqua
