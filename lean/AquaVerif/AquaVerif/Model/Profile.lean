import AquaVerif.Model.Num
/-
Soil profile representation.

`Comp α`  : the constant (parameter) part of one compartment — one row of `SoilProfile`.
`Cell α`  : a compartment together with the per-compartment *state* the processes update
            (`th`, adjusted field capacity, outgoing flux of the day, aeration-day counter).

A profile is a `List (Cell α)`, top compartment first.  Python loops that walk down the profile
and occasionally walk back up (`precomp` loops) are modelled by structural recursion over the
remaining cells while carrying the already visited cells *reversed* (nearest first) — a zipper.
-/

namespace Aqua

structure Comp (α : Type) where
  dz    : α
  dzsum : α
  zMid  : α
  thS   : α
  thFC  : α
  thWP  : α
  thDry : α
  tau   : α
  ksat  : α
  pen   : α      -- penetrability (%)
  aCR   : α
  bCR   : α
  layer : Nat
deriving Repr

structure Cell (α : Type) where
  c     : Comp α
  th    : α
  fcAdj : α      -- th_fc_Adj
  flux  : α      -- FluxOut of the current day
  aer   : α      -- aer_days_comp
deriving Repr

section
variable {α : Type} [Add α] [Sub α] [Mul α] [Div α] [Neg α] [LT α] [LE α]
  [DecidableLT α] [DecidableLE α] [OfScientific α] [OfNat α 0] [OfNat α 1] [OfNat α 1000]

/-- water stored in one cell, mm (Python: `1000 * th * dz`). -/
def Cell.water (x : Cell α) : α := 1000 * x.th * x.c.dz

/-- profile storage in mm, `Σ 1000·thᵢ·dzᵢ`. -/
def storage : List (Cell α) → α
  | [] => 0
  | x :: xs => x.water + storage xs

/-- `np.sum(dzsum < z)` — number of compartments whose bottom is strictly above `z`
(counted over the whole array, as numpy does). -/
def countBelow (z : α) : List (Cell α) → Nat
  | [] => 0
  | x :: xs => (if x.c.dzsum < z then 1 else 0) + countBelow z xs

/-- `np.argwhere(dzsum >= z).flatten()[0]`, or `none` when the selection is empty
(Python raises `IndexError`). -/
def firstGE (z : α) : List (Cell α) → Option Nat
  | [] => none
  | x :: xs => if z ≤ x.c.dzsum then some 0 else (firstGE z xs).map (· + 1)

end
end Aqua
