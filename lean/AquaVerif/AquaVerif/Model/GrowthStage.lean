import AquaVerif.Model.Num
/-
Model of `aquacrop/solution/growth_stage.py`: growth stage 1…4 from the (delay-adjusted) time
since planting, used only to select the soil-moisture threshold of irrigation method 1.
Off season the stage is the dummy value 0.

`CalendarType` other than 1/2 leaves `tAdj` unbound (`UnboundLocalError`) → `none`.
The last Python branch is `elif tAdj > Senescence` (not `else`): when no comparison holds
(only possible with NaN) the stage keeps its previous value — mirrored by the `old` argument.
-/

namespace Aqua
section
variable {α : Type} [Add α] [Sub α] [Mul α] [Div α] [Neg α] [LT α] [LE α]
  [DecidableLT α] [DecidableLE α]

/-- the four thresholds: `Canopy10Pct`, `MaxCanopy`, `Senescence` -/
def stageOf (tAdj canopy10 maxCanopy senescence : α) (old : Nat) : Nat :=
  if tAdj ≤ canopy10 then 1
  else if tAdj ≤ maxCanopy then 2
  else if tAdj ≤ senescence then 3
  else if senescence < tAdj then 4
  else old

/-- `growth_stage(Crop, NewCond, growing_season)` → new `NewCond.growth_stage`. -/
def growthStage (calType : Nat) (dap delayedCds gddCum delayedGdds : α)
    (canopy10 maxCanopy senescence : α) (gs : Bool) (old : Nat) : Option Nat :=
  if gs then
    if calType = 1 then some (stageOf (dap - delayedCds) canopy10 maxCanopy senescence old)
    else if calType = 2 then some (stageOf (gddCum - delayedGdds) canopy10 maxCanopy senescence old)
    else none
  else some 0

end
end Aqua
