import AquaVerif.Model.Clock
/-
The public API of `AquaCropModel` (`aquacrop/core.py`) as a state machine over *sessions*: one
object, a sequence of public calls

    run_model(num_steps, till_termination, initialize_model, process_outputs)
    get_simulation_results()  get_water_storage()  get_water_flux()  get_crop_growth()
    get_additional_information()

Each operation maps the object state to a new state and an *observation* (the class of the value
returned, or the exception raised).  The clock / season machine of one day is `Aqua.Clock`
(`Model/Clock.lean`): the biophysics of a day is the oracle `ev : Nat → Bool × Bool`.

Mirrors, branch by branch:
  * the three private class attributes `__steps_are_finished`, `__has_model_executed`,
    `__has_model_finished`; `_initialize` clears `__steps_are_finished` as its first statement
    (repo commit 4f049e5) and does **not** touch the other two, which only `run_model` sets;
  * the rest of `_initialize` as an opaque atomic step: `Clock.init c` either raises (clock,
    conditions, tables untouched) or replaces them by fresh ones;
  * `run_model`: `_initialize` first, then either the `while` loop or — **after** the optional
    `_initialize` — the `num_steps < 1` test and the `for` loop, in which `__steps_are_finished`
    is set *before* the last `_perform_timestep` when `process_outputs` is true and stays set until
    the next `_initialize`;
  * `_perform_timestep` *with its partial effects when it raises*: the object stays in use after an
    exception, so the model returns the state the exception leaves behind
      - `solution_single_time_step` works on `NewCond = init_cond` **in place**: when the daily table
        write raises (the tables have been turned into DataFrames) `dap`, `crop_mature`, `crop_dead`
        have already been updated, the rows / summary / `harvest_flag` / clock have not;
      - `update_time` increments `season_counter` before `time_span.get_loc` can raise;
  * `outputs_when_model_is_finished`: the three daily tables become DataFrames after a step that
    leaves `model_is_finished` true **or** while `__steps_are_finished` is true;
  * the five getters.

Core Lean only.
-/

namespace Aqua.Session
open Aqua.Clock

/-- exception classes (what the caller of the public method sees) -/
inductive Exc where
  /-- `ValueError("num_steps must be equal to or greater than 1.")` -/
  | numSteps
  /-- `ValueError("You cannot get results without running the model. …")` (getter, nothing run yet) -/
  | noRun
  /-- `AttributeError` (`'AquaCropModel' object has no attribute '_clock_struct'` / `'_weather'`):
      `run_model(initialize_model=False)` on an object on which `_initialize` never succeeded -/
  | attr
  /-- `ValueError("Length of values (3) does not match length of index (n)")`: the table write of
      `solution_single_time_step` on tables that are DataFrames -/
  | tableWrite
  /-- `pandas.errors.InvalidIndexError`: the same write when `n_steps = 3` (the length test passes
      by accident) -/
  | tableKey
  /-- `IndexError` (`time_span[i]`, `planting_dates[i]`, `harvest_dates[i]`) -/
  | index
  /-- `KeyError` (`time_span.get_loc(planting_date)`) -/
  | key
  /-- model artefact: fuel of the `while` loop exhausted (never for a well-formed clock) -/
  | fuel
  /-- model artefact: an `IndexError` inside `update_time` left `step_end_time` behind
      `time_step_counter`; the model does not follow such an object until the next `_initialize` -/
  | desync
  deriving DecidableEq, Repr, Inhabited

def Exc.toString : Exc → String
  | .numSteps => "E:numsteps"
  | .noRun => "E:norun"
  | .attr => "E:attr"
  | .tableWrite => "E:tablewrite"
  | .tableKey => "E:tablekey"
  | .index => "E:index"
  | .key => "E:key"
  | .fuel => "E:fuel"
  | .desync => "E:desync"

def Exc.ofClock : Clock.Err → Exc
  | .index => .index
  | .key => .key
  | .finished => .tableWrite
  | .numSteps => .numSteps
  | .fuel => .fuel

/-- which daily table a getter returns -/
inductive Table where
  | storage | flux | growth
  deriving DecidableEq, Repr, Inhabited

/-- What the caller observes. -/
inductive Obs where
  /-- `run_model` returned (it returns `True` on every non-raising path) -/
  | retTrue
  /-- `get_simulation_results()` returned `False` (run, but not finished) -/
  | retFalse
  /-- `get_simulation_results()` returned `final_stats`: rows (season label, harvest step) -/
  | summary (rows : List (Int × Nat))
  /-- a daily table: `df` = it is a `DataFrame` (else a numpy array); `n` = number of rows of the
      table (`len(time_span)`); `rows` = the rows written so far, by row index, last write wins -/
  | table (k : Table) (df : Bool) (n : Nat) (rows : List Row)
  /-- `get_additional_information()["has_model_finished"]` -/
  | info (finished : Bool)
  | raised (e : Exc)
  deriving DecidableEq, Repr, Inhabited

/-- What `_initialize` creates: clock + conditions + `Output`. -/
structure Obj where
  /-- `_clock_struct`, the flags of `_init_cond`, the rows of `_outputs` -/
  clock : St
  /-- the three daily tables of `_outputs` are DataFrames -/
  converted : Bool
  /-- model artefact, see `Exc.desync` -/
  desync : Bool
  deriving Repr

/-- The API object. -/
structure SSt where
  /-- `__steps_are_finished` -/
  stepsAreFinished : Bool
  /-- `__has_model_executed` -/
  executed : Bool
  /-- `__has_model_finished` -/
  hasFinished : Bool
  /-- `none`: `_initialize` has never succeeded on this object (no `_clock_struct`, `_weather`,
      `_outputs` attributes) -/
  obj : Option Obj
  deriving Repr

/-- a newly constructed `AquaCropModel` (class attributes `False`, nothing initialised) -/
def fresh : SSt := { stepsAreFinished := false, executed := false, hasFinished := false, obj := none }

/-- `update_time` with the state it leaves behind when it raises:
(clock, lock-step lost, exception). -/
def updateTimeP (c : Cfg) (s : St) : St × Bool × Option Exc :=
  if s.finished then (s, false, none) else
  if s.harvestFlag && !c.offSeason then
    if s.season < c.nSeasons - 1 then
      -- `season_counter = season_counter + 1` comes first
      let season' := s.season + 1
      let s1 := { s with season := season' }
      match pyGet c.planting season' with
      | .error e => (s1, false, some (Exc.ofClock e))
      | .ok p =>
        -- `time_span.get_loc(planting_date)`
        if p ≥ c.n then (s1, false, some .key) else
        -- `time_step_counter`, `step_start_time` assigned; `time_span[time_step_counter + 1]`
        if p + 1 ≥ c.n then ({ s1 with t := p }, true, some .index) else
        (resetSeason { s1 with t := p }, false, none)
    else (s, false, none)
  else
    let t' := s.t + 1
    let s1 := { s with t := t' }
    if t' ≥ c.n then (s1, true, some .index) else
    if t' + 1 ≥ c.n then (s1, true, some .index) else
    if s.season < c.nSeasons - 1 then
      match pyGet c.planting (s.season + 1) with
      | .error e => (s1, false, some (Exc.ofClock e))
      | .ok p => if t' = p then (resetSeason { s1 with season := s.season + 1 }, false, none)
                 else (s1, false, none)
    else (s1, false, none)

/-- `_perform_timestep` (`saf` = the current `__steps_are_finished`): new object and the exception
raised, if any. -/
def performP (c : Cfg) (ev : Ev) (saf : Bool) (o : Obj) : Obj × Option Exc :=
  if o.desync then (o, some .desync) else
  -- `planting_dates[season_counter]`, `harvest_dates[season_counter]` : before any mutation
  match seasonInfo c o.clock.season with
  | .error e => (o, some (Exc.ofClock e))
  | .ok ph =>
    let s1 := solCore ev o.clock ph
    if o.converted then
      -- `outputs.water_storage[row_day, :3] = …` on a DataFrame raises; `NewCond` *is* `init_cond`
      ({ o with clock := { o.clock with dap := s1.dap, mature := s1.mature, dead := s1.dead } },
       some (if c.n = 3 then .tableKey else .tableWrite))
    else
      match updateTimeP c (checkFinished c s1) with
      | (s3, d, some e) => ({ clock := s3, converted := false, desync := d }, some e)
      | (s3, _, none) =>
        -- `outputs_when_model_is_finished(model_is_finished, …, __steps_are_finished)`
        ({ clock := s3, converted := s3.finished || saf, desync := false }, none)

/-- `while self._clock_struct.model_is_finished is False: self._perform_timestep()` -/
def tillLoop (c : Cfg) (ev : Ev) (saf : Bool) : Nat → Obj → Obj × Option Exc
  | 0, o => if o.clock.finished then (o, none) else (o, some .fuel)
  | f + 1, o =>
    if o.clock.finished then (o, none) else
    match performP c ev saf o with
    | (o', none) => tillLoop c ev saf f o'
    | r => r

/-- enough fuel for every configuration: the season counter increases at every jump and the day
counter at every other step -/
def fuel (c : Cfg) : Nat := c.n * (c.planting.length + 2) + 2

/-- how the `for` loop of `run_model` ends -/
inductive LoopEnd where
  | raised (e : Exc)
  /-- `if self._clock_struct.model_is_finished: … return True` -/
  | finished
  /-- the `for` loop ran out -/
  | exhausted
  deriving DecidableEq, Repr

/-- `for i in range(num_steps): …` with `k` iterations left; returns `__steps_are_finished`,
the object and how the loop ended. -/
def stepsLoop (c : Cfg) (ev : Ev) (po : Bool) : Nat → Bool → Option Obj → Bool × Option Obj × LoopEnd
  | 0, saf, o => (saf, o, .exhausted)
  | k + 1, saf, o =>
    -- `if (i == range(num_steps)[-1]) and (process_outputs is True): self.__steps_are_finished = True`
    let saf' := saf || (po && decide (k = 0))
    match o with
    | none => (saf', none, .raised .attr)      -- `self._weather`
    | some ob =>
      match performP c ev saf' ob with
      | (ob', some e) => (saf', some ob', .raised e)
      | (ob', none) =>
        if ob'.clock.finished then (saf', some ob', .finished)
        else stepsLoop c ev po k saf' (some ob')

/-- `if initialize_model: self._initialize()`.  Its first statement clears
`__steps_are_finished` (before anything can raise); the rest is atomic: `Clock.init c` either
raises (clock, conditions, tables untouched) or replaces them by fresh ones.  The other two
private flags are left alone.  Returns the object and the exception raised, if any. -/
def initObj (c : Cfg) (s : SSt) : SSt × Option Exc :=
  let s1 := { s with stepsAreFinished := false }
  match Clock.init c with
  | .error e => (s1, some (Exc.ofClock e))
  | .ok s0 => ({ s1 with obj := some { clock := s0, converted := false, desync := false } }, none)

/-- `run_model` after the optional `_initialize`: the `while` loop, or the `num_steps` test and
the `for` loop; the private flags are assigned only on the non-raising paths. -/
def runBody (c : Cfg) (ev : Ev) (numSteps : Int) (till po : Bool) (s0 : SSt) : SSt × Obs :=
  if till then
    match s0.obj with
    | none => (s0, .raised .attr)           -- `self._clock_struct`
    | some o =>
      match tillLoop c ev s0.stepsAreFinished (fuel c) o with
      | (o', some e) => ({ s0 with obj := some o' }, .raised e)
      | (o', none) => ({ s0 with obj := some o', executed := true, hasFinished := true }, .retTrue)
  else if numSteps < 1 then (s0, .raised .numSteps)
  else
    match stepsLoop c ev po numSteps.toNat s0.stepsAreFinished s0.obj with
    | (saf, o, .raised e) => ({ s0 with stepsAreFinished := saf, obj := o }, .raised e)
    | (saf, o, .finished) =>
      ({ stepsAreFinished := saf, obj := o, executed := true, hasFinished := true }, .retTrue)
    | (saf, o, .exhausted) =>
      ({ stepsAreFinished := saf, obj := o, executed := true, hasFinished := false }, .retTrue)

/-- `run_model(num_steps, till_termination, initialize_model, process_outputs)` -/
def run (c : Cfg) (ev : Ev) (numSteps : Int) (till ini po : Bool) (s : SSt) : SSt × Obs :=
  if ini then
    match initObj c s with
    | (s1, some e) => (s1, .raised e)
    | (s0, none) => runBody c ev numSteps till po s0
  else runBody c ev numSteps till po s

/-- the rows of a daily table of `n` rows: for every row index the last write -/
def tableRows (n : Nat) (rowsRev : List Row) : List Row :=
  (List.range n).filterMap (fun t => rowsRev.find? (fun r => r.t == t))

/-- `get_water_storage` / `get_water_flux` / `get_crop_growth` -/
def getTable (c : Cfg) (k : Table) (s : SSt) : Obs :=
  if s.executed then
    match s.obj with
    | none => .raised .attr                    -- `self._outputs` (unreachable, `executed_has_obj`)
    | some o => .table k o.converted c.n (tableRows c.n o.clock.rowsRev)
  else .raised .noRun

/-- `get_simulation_results` -/
def getResults (s : SSt) : Obs :=
  if s.executed then
    if s.hasFinished then
      match s.obj with
      | none => .raised .attr
      | some o => .summary (finalStats o.clock.summary)
    else .retFalse
  else .raised .noRun

/-- `get_additional_information` (the execution time is not modelled) -/
def getInfo (s : SSt) : Obs :=
  if s.executed then .info s.hasFinished else .raised .noRun

/-- one public call -/
inductive Op where
  | run (numSteps : Int) (tillTermination init processOutputs : Bool)
  | getResults
  | getStorage
  | getFlux
  | getGrowth
  | getInfo
  deriving DecidableEq, Repr, Inhabited

def Op.isGetter : Op → Bool
  | .run .. => false
  | _ => true

def step (c : Cfg) (ev : Ev) : Op → SSt → SSt × Obs
  | .run k till ini po, s => run c ev k till ini po s
  | .getResults, s => (s, getResults s)
  | .getStorage, s => (s, getTable c .storage s)
  | .getFlux, s => (s, getTable c .flux s)
  | .getGrowth, s => (s, getTable c .growth s)
  | .getInfo, s => (s, getInfo s)

/-- a session: the observations in call order and the final state -/
def runOps (c : Cfg) (ev : Ev) : List Op → SSt → SSt × List Obs
  | [], s => (s, [])
  | op :: ops, s =>
    let r := step c ev op s
    let r' := runOps c ev ops r.1
    (r'.1, r.2 :: r'.2)

/-- a session on a newly constructed object -/
def session (c : Cfg) (ev : Ev) (ops : List Op) : SSt × List Obs := runOps c ev ops fresh

end Aqua.Session
