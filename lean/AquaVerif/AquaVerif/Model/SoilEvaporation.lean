import AquaVerif.Model.EvapLayer
/-
Model of `aquacrop/solution/soil_evaporation.py` (daily soil evaporation: potential rate, evaporation
of ponded water, stage 1 from the readily evaporable surface layer, stage 2 in `EvapTimeSteps`
sub-daily steps with an expanding evaporation layer).

Mirrors the Python branch by branch, including
  * the stage-1/stage-2 extraction loops that pre-increment `comp` and therefore may visit index
    `comp_sto` (one compartment *beyond* the counted ones, where `factor ≤ 0`),
  * the clamp `AvW < 0 → 0` in stage 1 and (since repo fix 9c2fed8) in stage 2,
  * `Kr` clamped at 1 but not at 0,
  * `tAdj` unbound when `CalendarType ∉ {1,2}` in the growing season (`E:unbound`),
  * `IndexError` when a loop indexes past the profile (`E:index`).
`EvapTimeSteps = 0` is answered with `E:zerodiv` (what Python does for Python-float `ToExtract`;
for numpy scalars it would produce `inf` and continue — not modelled, never generated).

Ghost outputs: `negTake` (some extraction step took a negative amount — possible in stage 2 before
repo fix 9c2fed8, now provably `false`, lemma `soilEvap_negTake_false`; kept so that the reply format
is stable and the harness keeps checking it), `branch` (bit mask of the branches taken, for coverage
statistics).
-/

namespace Aqua
section
variable {α : Type} [Add α] [Sub α] [Mul α] [Div α] [Neg α] [LT α] [LE α]
  [DecidableLT α] [DecidableLE α] [OfScientific α] [OfNat α 0] [OfNat α 1] [OfNat α 2] [OfNat α 3]
  [OfNat α 100] [OfNat α 1000]

/-- the integer `n` as a number (`ToExtract / ClockStruct_EvapTimeSteps` divides by a Python int). -/
def natNum : Nat → α
  | 0 => 0
  | n+1 => natNum n + 1

/-- parameters, in the order of the Python argument list (clock, soil, crop, irrigation and field
management). -/
structure EvapParams (α : Type) where
  steps : Nat             -- ClockStruct_EvapTimeSteps
  simOffSeason : Bool     -- ClockStruct_SimOffSeason
  zMin : α                -- Soil_EvapZmin
  zMax : α                -- Soil_EvapZmax
  rew : α                 -- Soil_REW
  kex : α                 -- Soil_Kex
  fwcc : α                -- Soil_fwcc
  fWrelExp : α            -- Soil_fWrelExp
  fevap : α               -- Soil_fevap
  calendarType : Nat      -- Crop_CalendarType
  senescence : α          -- Crop_Senescence
  irrMethod : Nat         -- IrrMngt_IrrMethod
  wetSurf : α             -- IrrMngt_WetSurf
  mulches : Bool          -- FieldMngt_Mulches
  fMulch : α              -- FieldMngt_fMulch
  mulchPct : α            -- FieldMngt_MulchPct

/-- the `NewCond_*` scalars, in argument order (`th` travels in the cells). -/
structure EvapState (α : Type) where
  dap : α                 -- NewCond_DAP (integer valued)
  wSurf : α
  evapZ : α
  stage2 : Bool
  delayedCDs : α
  gddCum : α
  delayedGDDs : α
  ccxW : α
  ccAdj : α
  ccxAct : α
  cc : α
  prematSenes : Bool
  pond : α                -- NewCond_SurfaceStorage
  wStage2 : α
  epot : α                -- NewCond_Epot (overwritten, never read)

/-- the day's forcing, in argument order, plus the time-step counter. -/
structure EvapDay (α : Type) where
  tsc : Nat               -- ClockStruct_TimeStepCounter
  et0 : α
  infl : α
  rain : α
  irr : α
  growingSeason : Bool

structure EvapOut (α : Type) where
  cells : List (Cell α)
  epot : α
  stage2 : Bool
  wStage2 : α
  wSurf : α
  pond : α
  evapZ : α
  esAct : α
  esPot : α
  negTake : Bool          -- ghost
  branch : Nat            -- ghost

/-- the surface-layer bookkeeping the function rewrites several times -/
structure EvapSurf (α : Type) where
  wSurf : α
  evapZ : α
  stage2 : Bool
  wStage2 : α

/-- `round((Act - (Fc - REW)) / (Sat - (Fc - REW)), 2)` clamped at 0 -/
def relWStage2 (F : Fn α) (rew : α) (w : EvapW α) : α :=
  let r := F.round2 ((w.act - (w.fc - rew)) / (w.sat - (w.fc - rew)))
  if r < 0 then 0 else r

/-! ### preparation -/

/-- first day of the simulation / of the season: reset the surface layer, go to stage 2 -/
def evapReinit (F : Fn α) (P : EvapParams α) (cells : List (Cell α)) (tsc : Nat) (dap : α)
    (s : EvapSurf α) : Except String (EvapSurf α × Nat) :=
  if tsc = 0 ∨ ((dap ≤ 1 ∧ 1 ≤ dap) ∧ P.simOffSeason = false) then
    match evapLayerWater cells P.zMin with
    | .error e => .error e
    | .ok w => .ok ({ wSurf := 0, evapZ := P.zMin, stage2 := true, wStage2 := relWStage2 F P.rew w }, 1)
  else .ok (s, 0)

/-- rain or (non-net) irrigation with infiltration refills the surface layer: back to stage 1 -/
def evapRefresh (P : EvapParams α) (D : EvapDay α) (s : EvapSurf α) : EvapSurf α × Nat :=
  if 0 < D.rain ∨ (0 < D.irr ∧ P.irrMethod ≠ 4) then
    if 0 < D.infl then
      ({ wSurf := if P.rew < D.infl then P.rew else D.infl, wStage2 := 0, evapZ := P.zMin,
         stage2 := false }, 2)
    else (s, 0)
  else (s, 0)

/-! ### potential evaporation -/

/-- growing-season potential soil evaporation for a given adjusted time `tAdj`
(canopy shading, withered canopy after senescence, premature-senescence cap) -/
def esPotGrow (F : Fn α) (P : EvapParams α) (S : EvapState α) (D : EvapDay α) (tAdj : α) : α × Nat :=
  let esPotMax := P.kex * D.et0 * (1 - S.ccxW * (P.fwcc / 100))
  let esPot0 := P.kex * (1 - S.ccAdj) * D.et0
  let sen : Bool := decide (P.senescence < tAdj ∧ 0 < S.ccxAct)
  let esPot1 :=
    if sen then
      let mult :=
        if S.ccxAct / 2 < S.cc then
          if S.ccxAct < S.cc then 0 else (S.ccxAct - S.cc) / (S.ccxAct / 2)
        else 1
      let e := esPot0 * (1 - S.ccxAct * (P.fwcc / 100) * mult)
      let ccxActAdj := (1.72 * S.ccxAct) - (F.pow S.ccxAct 2) + 0.3 * (F.pow S.ccxAct 3)
      let esPotMin0 := P.kex * (1 - ccxActAdj) * D.et0
      let esPotMin := if esPotMin0 < 0 then 0 else esPotMin0
      if e < esPotMin then esPotMin else if esPotMax < e then esPotMax else e
    else esPot0
  let esPot2 :=
    if S.prematSenes then (if esPotMax < esPot1 then esPotMax else esPot1) else esPot1
  (esPot2, (if sen then 4 else 0) + (if S.prematSenes then 8 else 0))

/-- potential soil evaporation before the mulch / partial-wetting adjustments;
`tAdj` is unbound in Python when `CalendarType ∉ {1,2}` -/
def esPotBase (F : Fn α) (P : EvapParams α) (S : EvapState α) (D : EvapDay α) :
    Except String (α × Nat) :=
  if D.growingSeason then
    if P.calendarType = 1 then .ok (esPotGrow F P S D (S.dap - S.delayedCDs))
    else if P.calendarType = 2 then .ok (esPotGrow F P S D (S.gddCum - S.delayedGDDs))
    else .error "E:unbound"
  else .ok (P.kex * D.et0, 16)

/-- mulch and partial-wetting adjustments: `min(EsPotIrr, EsPotMul)` -/
def esPotAdjust (P : EvapParams α) (S : EvapState α) (D : EvapDay α) (esPot : α) : α × Nat :=
  let mul : Bool := decide (S.pond < 0.000001) && P.mulches
  let esPotMul := if mul then esPot * (1 - P.fMulch * (P.mulchPct / 100)) else esPot
  let wet : Bool := decide (0 < D.irr ∧ P.irrMethod ≠ 4) && !decide (1 < D.rain ∨ 0 < S.pond)
  let esPotIrr := if wet then esPot * (P.wetSurf / 100) else esPot
  (pmin esPotIrr esPotMul, (if mul then 32 else 0) + (if wet then 64 else 0))

def esPotential (F : Fn α) (P : EvapParams α) (S : EvapState α) (D : EvapDay α) :
    Except String (α × Nat) :=
  match esPotBase F P S D with
  | .error e => .error e
  | .ok (e, b) => let (e', b') := esPotAdjust P S D e; .ok (e', b + b')

/-! ### extraction -/

/-- evaporation from ponded water: `(EsAct, SurfaceStorage, surface layer)` -/
def pondEvap (P : EvapParams α) (esPot pond : α) (s : EvapSurf α) : α × α × EvapSurf α × Nat :=
  if 0 < pond then
    if esPot < pond then (esPot, pond - esPot, s, 128)
    else (pond, 0, { wSurf := P.rew, wStage2 := 0, evapZ := P.zMin, stage2 := false }, 256)
  else (0, pond, s, 0)

/-- result of taking water from one compartment -/
structure Take (α : Type) where
  cell : Cell α
  taken : α     -- added to `EsAct`, removed from `W`, `ToExtract`
  dem : α       -- remaining demand

/-- body of the extraction loops of stage 1 and stage 2 (both clamp `if AvW < 0: AvW = 0`;
the stage-2 clamp was added by repo fix 9c2fed8). -/
def takeCell (z : α) (x : Cell α) (dem : α) : Take α :=
  let factor := evapFactor z x.c
  let wdry := 1000 * x.c.thDry * x.c.dz
  let w := 1000 * x.th * x.c.dz
  let avw0 := (w - wdry) * factor
  let avw := if avw0 < 0 then 0 else avw0
  if dem ≤ avw then
    { cell := { x with th := (w - dem) / (1000 * x.c.dz) }, taken := dem, dem := 0 }
  else
    { cell := { x with th := (w - avw) / (1000 * x.c.dz) }, taken := avw, dem := dem - avw }

structure ExtAcc (α : Type) where
  dem : α       -- ExtractPotStg1 / ToExtractStg2
  esAct : α
  toExt : α     -- ToExtract
  neg : Bool    -- ghost: some step took a negative amount (provably never, `extractLoop_noNeg`)

/-- `while (dem > 0) and (comp < comp_sto): comp += 1; …` — `n` = remaining admissible iterations
(`comp_sto + 1` at entry because `comp` starts at −1 and is incremented before use). -/
def extractLoop (z : α) :
    Nat → List (Cell α) → ExtAcc α → Except String (List (Cell α) × ExtAcc α)
  | 0, cs, a => .ok (cs, a)
  | n+1, cs, a =>
    if 0 < a.dem then
      match cs with
      | [] => .error "E:index"
      | x :: xs =>
        let t := takeCell z x a.dem
        match extractLoop z n xs
            { dem := t.dem, esAct := a.esAct + t.taken, toExt := a.toExt - t.taken,
              neg := a.neg || decide (t.taken < 0) } with
        | .error e => .error e
        | .ok (cs', a') => .ok (t.cell :: cs', a')
    else .ok (cs, a)

structure Stg (α : Type) where
  cells : List (Cell α)
  surf : EvapSurf α
  esAct : α
  toExt : α
  neg : Bool
  branch : Nat

/-- stage 1: extraction limited by the water in the surface layer -/
def evapStage1 (F : Fn α) (P : EvapParams α) (cells : List (Cell α)) (s : EvapSurf α)
    (esPot esAct : α) : Except String (Stg α) :=
  let toExt := esPot - esAct
  let e1 := pmin toExt s.wSurf
  if 0 < e1 then
    match extractLoop P.zMin (countBelow P.zMin cells + 1 + 1) cells
        { dem := e1, esAct := esAct, toExt := toExt, neg := false } with
    | .error e => .error e
    | .ok (cells', a) =>
      let ws0 := s.wSurf - a.esAct
      let ws := if ws0 < 0 ∨ 0.0001 < a.dem then 0 else ws0
      if ws < 0.0001 then
        match evapLayerWater cells' s.evapZ with
        | .error e => .error e
        | .ok w =>
          .ok { cells := cells', surf := { s with wSurf := ws, wStage2 := relWStage2 F P.rew w },
                esAct := a.esAct, toExt := a.toExt, neg := a.neg, branch := 512 + 1024 }
      else
        .ok { cells := cells', surf := { s with wSurf := ws }, esAct := a.esAct, toExt := a.toExt,
              neg := a.neg, branch := 512 }
  else .ok { cells := cells, surf := s, esAct := esAct, toExt := toExt, neg := false, branch := 0 }

/-- relative depletion of the evaporation layer in stage 2 -/
def wRelOf (P : EvapParams α) (wStage2 : α) (w : EvapW α) : α :=
  let wupper := wStage2 * (w.sat - (w.fc - P.rew)) + (w.fc - P.rew)
  let wlower := w.dry
  (w.act - wlower) / (wupper - wlower)

def wCheckOf (P : EvapParams α) (evapZ : α) : α :=
  P.fWrelExp * ((P.zMax - evapZ) / (P.zMax - P.zMin))

/-- `while (Wrel < Wcheck) and (EvapZ < EvapZmax)`: expand the layer in 1-mm steps;
returns `(EvapZ, Wrel)`. -/
def expandLoop (P : EvapParams α) (wStage2 : α) (cells : List (Cell α)) :
    Nat → α → α → α → Except String (α × α)
  | 0, evapZ, wrel, wcheck =>
    if wrel < wcheck ∧ evapZ < P.zMax then .error "E:fuel" else .ok (evapZ, wrel)
  | fuel+1, evapZ, wrel, wcheck =>
    if wrel < wcheck ∧ evapZ < P.zMax then
      let z' := evapZ + 0.001
      match evapLayerWater cells z' with
      | .error e => .error e
      | .ok w => expandLoop P wStage2 cells fuel z' (wRelOf P wStage2 w) (wCheckOf P z')
    else .ok (evapZ, wrel)

def expandFuel : Nat := 100000

/-- `Kr = (exp(fevap·Wrel) − 1)/(exp(fevap) − 1)`, clamped at 1 (not at 0) -/
def krOf (F : Fn α) (P : EvapParams α) (wrel : α) : α :=
  let kr := (F.exp (P.fevap * wrel) - 1) / (F.exp P.fevap - 1)
  if 1 < kr then 1 else kr

structure SubSt (α : Type) where
  cells : List (Cell α)
  evapZ : α
  esAct : α
  toExt : α
  neg : Bool

/-- one sub-daily step of stage 2 -/
def stage2Step (F : Fn α) (P : EvapParams α) (wStage2 edt : α) (st : SubSt α) :
    Except String (SubSt α) :=
  match evapLayerWater st.cells st.evapZ with
  | .error e => .error e
  | .ok w =>
    let wrel0 := wRelOf P wStage2 w
    let ex : Except String (α × α) :=
      if P.zMin < P.zMax then
        expandLoop P wStage2 st.cells expandFuel st.evapZ wrel0 (wCheckOf P st.evapZ)
      else .ok (st.evapZ, wrel0)
    match ex with
    | .error e => .error e
    | .ok (evapZ, wrel) =>
      let dem := krOf F P wrel * edt
      match extractLoop evapZ (countBelow evapZ st.cells + 1 + 1) st.cells
          { dem := dem, esAct := st.esAct, toExt := st.toExt, neg := st.neg } with
      | .error e => .error e
      | .ok (cells', a) =>
        .ok { cells := cells', evapZ := evapZ, esAct := a.esAct, toExt := a.toExt, neg := a.neg }

/-- `for jj in range(EvapTimeSteps)` -/
def stage2Loop (F : Fn α) (P : EvapParams α) (wStage2 edt : α) : Nat → SubSt α → Except String (SubSt α)
  | 0, st => .ok st
  | n+1, st =>
    match stage2Step F P wStage2 edt st with
    | .error e => .error e
    | .ok st' => stage2Loop F P wStage2 edt n st'

/-- stage 2 -/
def evapStage2 (F : Fn α) (P : EvapParams α) (g : Stg α) : Except String (Stg α) :=
  if 0 < g.toExt then
    if P.steps = 0 then .error "E:zerodiv" else
    let edt := g.toExt / natNum P.steps
    match stage2Loop F P g.surf.wStage2 edt P.steps
        { cells := g.cells, evapZ := g.surf.evapZ, esAct := g.esAct, toExt := g.toExt,
          neg := g.neg } with
    | .error e => .error e
    | .ok st =>
      .ok { cells := st.cells, surf := { g.surf with stage2 := true, evapZ := st.evapZ },
            esAct := st.esAct, toExt := st.toExt, neg := st.neg,
            branch := g.branch + 2048 + (if g.surf.evapZ < st.evapZ then 4096 else 0) }
  else .ok g

/-! ### entry point -/

/-- `soil_evaporation(...)` -/
def soilEvaporation (F : Fn α) (P : EvapParams α) (S : EvapState α) (cells : List (Cell α))
    (D : EvapDay α) : Except String (EvapOut α) :=
  match evapReinit F P cells D.tsc S.dap
      { wSurf := S.wSurf, evapZ := S.evapZ, stage2 := S.stage2, wStage2 := S.wStage2 } with
  | .error e => .error e
  | .ok (s0, b0) =>
    let (s1, b1) := evapRefresh P D s0
    match esPotential F P S D with
    | .error e => .error e
    | .ok (esPot, b2) =>
      let (esAct0, pond, s2, b3) := pondEvap P esPot S.pond s1
      match evapStage1 F P cells s2 esPot esAct0 with
      | .error e => .error e
      | .ok g1 =>
        match evapStage2 F P g1 with
        | .error e => .error e
        | .ok g2 =>
          .ok { cells := g2.cells, epot := esPot, stage2 := g2.surf.stage2,
                wStage2 := g2.surf.wStage2, wSurf := g2.surf.wSurf, pond := pond,
                evapZ := g2.surf.evapZ, esAct := g2.esAct, esPot := esPot,
                negTake := g2.neg,
                branch := b0 + b1 + b2 + b3 + g2.branch + (if g2.neg then 8192 else 0) }

end
end Aqua
