import AquaVerif.Model.WaterDay
import AquaVerif.Model.RootDevelopment
import AquaVerif.Model.Germination
import AquaVerif.Model.GrowthStage
import AquaVerif.Model.CanopyCover
import AquaVerif.Model.HIref
import AquaVerif.Model.HarvestIndex
import AquaVerif.Model.Yield
import AquaVerif.Model.Response
/-
The **full simulated day**: `solution_single_time_step`
(`aquacrop/timestep/run_single_timestep.py`) from the line "Increment time counters" to the
"Final output" block, every process being the existing model of it, in the order and with the data
flow of the Python:

      time counters   dap, gdd (growing_degree_day), gdd_cum           (off season: 0, 0.3, 0)
   1  check_groundwater_table   th_fc_Adj, wt_in_soil, z_gw
   2  root_development          z_root, r_cor          (reads yesterday's canopy, tr_ratio, t_pot)
   3  pre_irrigation            th, PreIrr             (reads today's dap, z_root)
   4  drainage                  th, DeepPerc, FluxOut
   5  rainfall_partition        Runoff, Infl, day_submerged
   6  irrigation                depletion, taw, irr_cum, Irr (reads *yesterday's* growth_stage)
   7  infiltration              th, surface_storage, DeepPerc, Runoff, Infl, FluxOut
   8  capillary_rise            th, CR
   9  germination               germination, protected_seed, delayed_cds, delayed_gdds (th of 8)
  10  growth_stage              growth_stage
  11  canopy_cover              the canopy state, crop_dead (th of 8, z_root of 2, delays of 9)
  12  soil_evaporation          (reads the canopy of 11)
  13  transpiration             (reads the canopy of 11; may set canopy_cover back to cc_prev)
  14  groundwater_inflow
  15  HIref_current_day         hi_ref, yield_form, pct_lag_phase  (canopy_cover of 13)
  16  biomass_accumulation      biomass, biomass_ns                (Tr, TrPot_NS of 13)
  17  harvest_index             (th of 14)
  18  YieldPot;  19  DryYield, FreshYield, crop_mature
  20  root_zone_water           Wr; off season depletion/taw := Dr.Rz/TAW.Rz
  21  IrrNet + PreIrr, irr_net_cum + PreIrr; the three table rows; the "Final output" block
      (summary row + harvest_flag).

Inputs that the *caller* (the clock, `Model/Run.lean`) decides: the growing-season flag `gs`, which
crop / irrigation / field management records apply (season crop vs. the fallow filler crop with
`Aer = 5`, `Zmin = 0.3`; `FieldMngt` vs. `FallowFieldMngt`; `IrrMngt` vs. `FallowIrrMngt`), the
season counter and whether the day ends on the season's harvest date.

The water steps are *the lines of `waterDayRest`* (`Model/WaterDay.lean`) with the `CropDay`
argument computed: `Proofs/Day.lean` shows that a successful `fullDay` is a successful
`waterDay` for the `CropDay` it reports (`DayResult.crop`), so that every theorem about `waterDay`
(quantified over all `CropDay`) applies.

State: `DayState'` has every attribute of `InitialCondition` that some process reads or that is
reported.  Omitted attributes of `Model/Reset.lean`'s `allFields` (nothing modelled reads them):
`stage`, `h1_cor_asum`, `h1_cor_bsum`, `sumET0EarlySen` (never read anywhere in the package),
`growing_season`, `time_step_counter`, `precipitation`, `temp_max`, `temp_min`, `et0`, `gdd`
(copies of the day's inputs, written at the top of the function; of these only
`time_step_counter` is read, by `irrigation`, on the same day — `DayIn.tsc`), `thini` (read by
`reset_initial_conditions` only: `Model/Run.lean`).

Errors: the first process that raises makes the day raise, with the driver's error kinds.
-/

namespace Aqua

/-- crop parameters read by the crop-side processes and the glue (the water processes read
`WaterParams.crop`).  Several Python attributes appear in more than one record (`Zmin`, `Aer`,
`CalendarType`, `p_up`, …): the records are those of the process models; the driver and
`Model/Run.lean` fill them from one crop. -/
structure CropX (α : Type) where
  /-- `Crop.Zmin` is a numpy scalar (decides the rounding of `max(z_root, Zmin)` in
  `pre_irrigation`; a Python float for every crop built by the package) -/
  zMinNp : Bool
  gddMethod : Nat
  tupp : α
  tbase : α
  rd : RdCrop α
  germThr : α
  /-- `Crop.PlantMethod == True` -/
  sown : Bool
  /-- `Canopy10Pct`, `MaxCanopy` (`Senescence` is `WaterParams.crop.senescence`) -/
  canopy10 : α
  maxCanopy : α
  cc : CcCrop α
  hi : HiCrop α
  hik : HiStressCrop α
  bio : BioCrop α
  yldWC : α

/-- all parameters of one day -/
structure DayParams (α : Type) where
  W : WaterParams α
  fm : FieldMngt α
  /-- `Soil.z_germ` -/
  zGerm : α
  cx : CropX α

/-- forcing and calendar position of the day -/
structure DayIn' (α : Type) where
  gs : Bool
  tsc : Nat
  /-- `clock_struct.season_counter` -/
  season : Int
  rain : α
  et0 : α
  tmax : α
  tmin : α
  /-- `GroundWater` -/
  zGW : α
  sched : Option α
  /-- `harvest_dates[season_counter] == step_end_time` (read only when `season_counter > -1`) -/
  lastDay : Bool

def DayIn'.water {α : Type} (D : DayIn' α) : DayIn α :=
  { gs := D.gs, tsc := D.tsc, rain := D.rain, et0 := D.et0, zGW := D.zGW, sched := D.sched }

/-- `InitialCondition` (see the header for the omitted attributes) -/
structure DayState' (α : Type) where
  /-- `th`, `th_fc_Adj`, `aer_days_comp` -/
  cells : List (Cell α)
  -- water scalars
  pond : α              -- surface_storage
  daySubmerged : Nat
  irrCum : α
  ePot : α
  tPot : α
  wSurf : α
  evapZ : α
  stage2 : Bool
  wStage2 : α
  ageDaysNS : α
  ageDays : α
  aerDays : α
  irrNetCum : α
  trRatio : α
  -- counters
  dap : Nat
  gddCum : α
  -- roots, germination, growth stage
  zRoot : α
  rCor : α
  growthStage : Nat
  germination : Bool
  protectedSeed : Bool
  delayedCds : α
  delayedGdds : α
  -- canopy
  cc : α
  ccNS : α
  cc0Adj : α
  ccxAct : α
  ccxActNS : α
  ccxW : α
  ccxWNS : α
  ccxEarlySen : α
  ccPrev : α
  tEarlySen : α
  ccAdj : α
  ccAdjNS : α
  prematSenes : Bool
  cropDead : Bool
  -- harvest index, biomass
  hiRef : α
  hiFinal : α           -- HIfinal (never written by the day)
  yieldForm : Bool
  pctLagPhase : α
  biomass : α
  biomassNS : α
  preAdj : Bool
  fPre : α
  fPol : α
  sCor1 : α
  sCor2 : α
  fpostUpp : α
  fpostDwn : α
  fPost : α
  hi : α                -- harvest_index
  hiAdj : α             -- harvest_index_adj
  -- flags of the season
  cropMature : Bool
  harvestFlag : Bool
  -- written, never read by a process
  depletion : α
  taw : α
  zGW : α
  wtInSoil : Bool
  yieldPot : α
  dryYield : α
  freshYield : α

/-- the part of the state `waterDay` reads -/
def DayState'.water {α : Type} (s : DayState' α) : DayState α :=
  { pond := s.pond, daySubmerged := s.daySubmerged, irrCum := s.irrCum, ePot := s.ePot,
    tPot := s.tPot, wSurf := s.wSurf, evapZ := s.evapZ, stage2 := s.stage2, wStage2 := s.wStage2,
    ageDaysNS := s.ageDaysNS, ageDays := s.ageDays, aerDays := s.aerDays,
    irrNetCum := s.irrNetCum, trRatio := s.trRatio }

def DayState'.germ {α : Type} (s : DayState' α) : GermState α :=
  { germination := s.germination, protectedSeed := s.protectedSeed, delayedCds := s.delayedCds,
    delayedGdds := s.delayedGdds }

/-- `water_storage` row: `[time_step_counter, growing_season, dap, th…]` -/
structure StorageRow (α : Type) where
  tsc : Nat
  gs : Bool
  dap : Nat
  th : List α

/-- `water_flux` row -/
structure FluxRow (α : Type) where
  tsc : Nat
  season : Int
  dap : Nat
  wr : α
  zGW : α
  pond : α
  irrDay : α
  infl : α
  runoff : α
  deepPerc : α
  cr : α
  gwIn : α
  es : α
  esPot : α
  tr : α
  trPot : α

/-- `crop_growth` row -/
structure GrowthRow (α : Type) where
  tsc : Nat
  season : Int
  dap : Nat
  gdd : α
  gddCum : α
  zRoot : α
  cc : α
  ccNS : α
  biomass : α
  biomassNS : α
  hi : α
  hiAdj : α
  dryYield : α
  freshYield : α
  yieldPot : α

/-- `final_stats.loc[season] = [season, crop name, step_end_time, time_step_counter, DryYield,
FreshYield, YieldPot, IrrTot]` (name and date are the clock's) -/
structure SummaryRow (α : Type) where
  season : Int
  tsc : Nat
  dryYield : α
  freshYield : α
  yieldPot : α
  irrTot : α

/-- the time counters of the day -/
structure DayCounters (α : Type) where
  dap : Nat
  gdd : α
  gddCum : α

/-- the outputs of every process call of one day -/
structure FullTrace (α : Type) where
  tc : DayCounters α
  g : GwtOut α
  rd : RdOut α
  p : List (Cell α) × α
  d : DrainOut α
  r : RainOut α
  i : IrrOut α
  f : InfOut α
  c : CROut α
  ge : GermOut α
  gst : Nat
  cc : CcState α
  e : EvapOut α
  t : TrOut α
  w : List (Cell α) × α
  hr : HiRefOut α
  bio : α × α
  hi : HiState α
  y : YieldOut α
  rz : RZ α

structure DayResult (α : Type) where
  state : DayState' α
  storage : StorageRow α
  flux : FluxRow α
  growth : GrowthRow α
  /-- the summary row, when the "Final output" block writes one -/
  summary : Option (SummaryRow α)
  -- ghosts
  /-- what root development, germination, growth stage and canopy cover handed to the water
  processes -/
  crop : CropDay α
  /-- the result of `waterDay` for that `CropDay` (`Proofs/Day.lean`: `fullDay_water`) -/
  water : DayOut α
  /-- `IrrTot` of the output block (seasonal irrigation so far) -/
  irrTot : α
  /-- the end-of-season condition of the "Final output" block -/
  endc : Bool
  trace : FullTrace α

section
variable {α : Type} [Add α] [Sub α] [Mul α] [Div α] [Neg α] [LT α] [LE α]
  [DecidableLT α] [DecidableLE α] [OfScientific α] [OfNat α 0] [OfNat α 1] [OfNat α 2] [OfNat α 3]
  [OfNat α 4] [OfNat α 5] [OfNat α 8] [OfNat α 9] [OfNat α 10] [OfNat α 14] [OfNat α 20]
  [OfNat α 40] [OfNat α 99] [OfNat α 100] [OfNat α 254] [OfNat α 550] [OfNat α 1000]
  [OfNat α 2000] [OfNat α 25400]

/-- "Increment time counters": in season `dap + 1`, `growing_degree_day(...)`, `gdd_cum + gdd`;
off season `0`, `0.3`, `0` -/
def dayCounters (X : CropX α) (st : DayState' α) (D : DayIn' α) : Except String (DayCounters α) :=
  if D.gs then
    match growingDegreeDay X.gddMethod X.tupp X.tbase D.tmax D.tmin with
    | none => .error "E:unbound"
    | some g => .ok { dap := st.dap + 1, gdd := g, gddCum := st.gddCum + g }
  else .ok { dap := 0, gdd := 0.3, gddCum := 0 }

/-- `max(z_root, Zmin)` returns `Zmin` (and is then a numpy scalar iff `Zmin` is) exactly when
`Zmin > z_root` -/
def zRootNpOf (zMinNp : Bool) (zRoot zMin : α) : Bool := zMinNp && decide (zRoot < zMin)

/-- `NewCond` as `canopy_cover` finds it: today's counters, the rooting depth of step 2, the
delays and the protected-seed flag of step 9, yesterday's canopy -/
def ccStateOf (st : DayState' α) (tc : DayCounters α) (rd : RdOut α) (ge : GermOut α) :
    CcState α :=
  { dap := natNum tc.dap, delayedCds := ge.s.delayedCds, gddCum := tc.gddCum,
    delayedGdds := ge.s.delayedGdds, zRoot := rd.zRoot, cc := st.cc, ccNS := st.ccNS,
    cc0Adj := st.cc0Adj, ccxAct := st.ccxAct, ccxActNS := st.ccxActNS, ccxW := st.ccxW,
    ccxWNS := st.ccxWNS, ccxEarlySen := st.ccxEarlySen, ccPrev := st.ccPrev,
    tEarlySen := st.tEarlySen, ccAdj := st.ccAdj, ccAdjNS := st.ccAdjNS,
    prematSenes := st.prematSenes, cropDead := st.cropDead, protectedSeed := ge.s.protectedSeed }

/-- the `CropDay` of the day.  Steps 3–8 read only `dap`, `zRoot`, `zRootNp`, `growthStage`
(yesterday's stage: step 10 runs after `irrigation`); steps 12–13 read the rest, which is the
state after steps 9–11. -/
def cropDayOf (P : DayParams α) (st : DayState' α) (tc : DayCounters α) (rd : RdOut α)
    (ge : GermOut α) (cc : CcState α) : CropDay α :=
  { dap := tc.dap, gdd := tc.gdd, gddCum := tc.gddCum, zRoot := rd.zRoot,
    zRootNp := zRootNpOf P.cx.zMinNp rd.zRoot P.W.crop.tr.zMin, rCor := rd.rCor,
    growthStage := st.growthStage, delayedCds := ge.s.delayedCds,
    delayedGdds := ge.s.delayedGdds, ccxW := cc.ccxW, ccAdj := cc.ccAdj, ccxAct := cc.ccxAct,
    cc := cc.cc, prematSenes := cc.prematSenes, ccxWNS := cc.ccxWNS, ccAdjNS := cc.ccAdjNS,
    ccNS := cc.ccNS, ccPrev := cc.ccPrev, tEarlySen := cc.tEarlySen }

/-- the arguments of `HIref_current_day` (step 15) -/
def hiRefInOf (st : DayState' α) (tc : DayCounters α) (ge : GermOut α) (cc : CcState α)
    (t : TrOut α) : HiRefIn α :=
  { hiRef := st.hiRef, hiFinal := st.hiFinal, dap := natNum tc.dap,
    delayedCDs := ge.s.delayedCds, yieldForm := st.yieldForm, pctLagPhase := st.pctLagPhase,
    cc := t.st.cc, ccxW := cc.ccxW }

/-- `NewCond` as `harvest_index` finds it (step 17) -/
def hiStateOf (st : DayState' α) (tc : DayCounters α) (rd : RdOut α) (ge : GermOut α)
    (cc : CcState α) (t : TrOut α) (hr : HiRefOut α) (bio : α × α) : HiState α :=
  { zRoot := rd.zRoot, tEarlySen := cc.tEarlySen, hiRef := hr.hiRef, dap := natNum tc.dap,
    delayedCDs := ge.s.delayedCds, yieldForm := hr.yieldForm, biomass := bio.1,
    biomassNS := bio.2, cc := t.st.cc, preAdj := st.preAdj, fPre := st.fPre, fPol := st.fPol,
    sCor1 := st.sCor1, sCor2 := st.sCor2, fpostUpp := st.fpostUpp, fpostDwn := st.fpostDwn,
    fPost := st.fPost, hi := st.hi, hiAdj := st.hiAdj }

/-- the maturity test of step 19: `(CalendarType == 1 and dap >= Maturity) or
(CalendarType == 2 and gdd_cum >= Maturity)` -/
def matureTest (P : DayParams α) (tc : DayCounters α) : Bool :=
  decide ((P.W.crop.calendarType = 1 ∧ P.cx.cc.maturity ≤ natNum tc.dap) ∨
          (P.W.crop.calendarType = 2 ∧ P.cx.cc.maturity ≤ tc.gddCum))

/-- `day_submerged` after transpiration as a natural number (`trSurface` increments it when water
is ponded and the counter is below `LagAer`; `Proofs/Day.lean`: `daySubNext_eq`) -/
def daySubNext (lagAer : α) (gs : Bool) (pond : α) (ds : Nat) : Nat :=
  if gs then (if 0 < pond ∧ natNum ds < lagAer then ds + 1 else ds) else ds

def hiErr {β : Type} : Except String β → Except String β
  | .error e => .error ("E:" ++ e)
  | .ok b => .ok b

/-- every process of the day in the order of the Python; all outputs are kept -/
def fullDayTrace (F : Fn α) (T : TrigFn α) (P : DayParams α) (st : DayState' α) (D : DayIn' α) :
    Except String (FullTrace α) := do
  let W := P.W
  let fm := P.fm
  let S := st.water
  -- time counters
  let tc ← dayCounters P.cx st D
  -- 1. groundwater table
  let g ← optErr "E:unbound" (checkGroundwaterTable F st.cells W.waterTable D.zGW)
  -- 2. root development
  let rd ← rootDevelopment F P.cx.rd g.cells (natNum tc.dap) st.zRoot st.delayedCds tc.gddCum
            st.delayedGdds st.trRatio st.cc st.ccNS st.germination st.rCor st.tPot g.zGW tc.gdd
            D.gs W.waterTable
  -- 3. pre-irrigation
  let p ← optErr "E:index" (preIrrigationT F (zRootNpOf P.cx.zMinNp rd.zRoot W.crop.tr.zMin)
            g.cells D.gs W.irr.method (Int.ofNat tc.dap) rd.zRoot W.crop.tr.zMin W.netIrrSMT)
  -- 4. drainage
  let d := drainage F p.1
  -- 5. surface runoff
  let r ← optErr "E:index" (rainPartition F D.rain d.cells S.daySubmerged fm.srInhb fm.bunds
            fm.zBund (if fm.cnAdj then fm.cnAdjPct else 0) W.soil.cn W.soil.adjCN W.soil.zCN)
  -- 6. irrigation
  let i ← mapErr irrErrStr (irrigation F W.irr d.cells st.growthStage S.irrCum S.ePot S.tPot
            rd.zRoot tc.dap D.sched W.crop.tr.zMin W.crop.tr.aer W.soil.zTop D.gs D.rain r.runoff)
  -- 7. infiltration
  let f ← infiltration F d.cells S.pond r.infl i.irr W.irr.appEff fm.bunds fm.zBund d.deepPerc
            r.runoff D.gs
  -- 8. capillary rise
  let c ← mapErr crErrStr (capillaryRise F f.cells W.soil.nLayer W.soil.fshapeCR g.zGW W.waterTable)
  -- 9. germination
  let ge ← germination F st.germ P.zGerm c.cells P.cx.germThr P.cx.sown tc.gdd D.gs
  -- 10. growth stage
  let gst ← optErr "E:unbound" (growthStage W.crop.calendarType (natNum tc.dap) ge.s.delayedCds
              tc.gddCum ge.s.delayedGdds P.cx.canopy10 P.cx.maxCanopy W.crop.senescence D.gs
              st.growthStage)
  -- 11. canopy cover
  let cc ← canopyCover F P.cx.cc c.cells W.soil.zTop (ccStateOf st tc rd ge) tc.gdd D.et0 D.gs
  let C := cropDayOf P st tc rd ge cc
  -- 12. soil evaporation
  let e ← soilEvaporation F (dayEvapParams W fm) (dayEvapState C S f.pond) c.cells
            (dayEvapDay D.water f.infl i.irr)
  -- 13. transpiration
  let t ← transpiration F e.cells W.soil.nComp W.soil.zTop W.crop.tr W.irr.method W.netIrrSMT
            (dayTrState C S e.pond r.daySub i.depletion i.taw) D.et0 W.co2Cur W.co2Ref D.gs tc.gdd
  -- 14. groundwater inflow
  let w ← optErr "E:index" (groundwaterInflow t.cells g.wtInSoil g.zGW)
  -- 15. reference harvest index
  let hr := hiRefCurrentDay F P.cx.hi (hiRefInOf st tc ge cc t) D.gs
  -- 16. biomass accumulation
  let bio := biomassAccumulation P.cx.bio (natNum tc.dap) ge.s.delayedCds hr.hiRef hr.pctLagPhase
              st.biomass st.biomassNS t.trAct t.trPotNS D.et0 D.gs
  -- 17. harvest index
  let hi ← hiErr (harvestIndex F T w.1 W.soil.zTop P.cx.hi P.cx.hik
              (hiStateOf st tc rd ge cc t hr bio) D.et0 D.tmax D.tmin D.gs)
  -- 18, 19. yields
  let y := yieldStep bio.2 bio.1 hi.hi hi.hiAdj P.cx.yldWC D.gs
  -- 20. root zone water
  let rz ← optErr "E:index" (rootZoneWater F w.1 rd.zRoot W.soil.zTop W.crop.tr.zMin W.crop.tr.aer)
  pure { tc := tc, g := g, rd := rd, p := p, d := d, r := r, i := i, f := f, c := c, ge := ge,
         gst := gst, cc := cc, e := e, t := t, w := w, hr := hr, bio := bio, hi := hi, y := y,
         rz := rz }

/-- the water processes of the trace -/
def FullTrace.water (X : FullTrace α) : DayTrace α :=
  { g := X.g, p := X.p, d := X.d, r := X.r, i := X.i, f := X.f, c := X.c, e := X.e, t := X.t,
    w := X.w, rz := X.rz }

/-- the `CropDay` of the trace -/
def FullTrace.cropDay (P : DayParams α) (st : DayState' α) (X : FullTrace α) : CropDay α :=
  cropDayOf P st X.tc X.rd X.ge X.cc

/-- `crop_mature` after step 19 -/
def matureAfter (P : DayParams α) (st : DayState' α) (D : DayIn' α) (X : FullTrace α) : Bool :=
  st.cropMature || (D.gs && matureTest P X.tc)

/-- step 21 / the "Irrigation" block of the output section: `(IrrDay, IrrTot, irr_net_cum)` -/
def irrReportOf (P : DayParams α) (D : DayIn' α) (X : FullTrace α) : α × α × α :=
  irrReport P.W.irr.method X.i.irr X.i.irrCum X.t.irrNet X.t.st.irrNetCum X.p.2 D.gs

/-- `NewCond` at the end of the function -/
def stateAfter (P : DayParams α) (st : DayState' α) (D : DayIn' α) (X : FullTrace α) :
    DayState' α :=
  let mature := matureAfter P st D X
  let endc : Bool := decide (0 ≤ D.season) && (mature || X.cc.cropDead || D.lastDay)
  { cells := X.w.1,
    pond := X.t.st.pond,
    daySubmerged := daySubNext P.W.crop.tr.lagAer D.gs X.e.pond X.r.daySub,
    irrCum := X.i.irrCum, ePot := X.e.epot, tPot := X.t.st.tPot, wSurf := X.e.wSurf,
    evapZ := X.e.evapZ, stage2 := X.e.stage2, wStage2 := X.e.wStage2,
    ageDaysNS := X.t.st.ageDaysNS, ageDays := X.t.st.ageDays, aerDays := X.t.st.aerDays,
    irrNetCum := (irrReportOf P D X).2.2, trRatio := X.t.st.trRatio,
    dap := X.tc.dap, gddCum := X.tc.gddCum,
    zRoot := X.rd.zRoot, rCor := X.rd.rCor, growthStage := X.gst,
    germination := X.ge.s.germination, protectedSeed := X.cc.protectedSeed,
    delayedCds := X.ge.s.delayedCds, delayedGdds := X.ge.s.delayedGdds,
    cc := X.t.st.cc, ccNS := X.cc.ccNS, cc0Adj := X.cc.cc0Adj, ccxAct := X.cc.ccxAct,
    ccxActNS := X.cc.ccxActNS, ccxW := X.cc.ccxW, ccxWNS := X.cc.ccxWNS,
    ccxEarlySen := X.cc.ccxEarlySen, ccPrev := X.cc.ccPrev, tEarlySen := X.cc.tEarlySen,
    ccAdj := X.cc.ccAdj, ccAdjNS := X.cc.ccAdjNS, prematSenes := X.cc.prematSenes,
    cropDead := X.cc.cropDead,
    hiRef := X.hr.hiRef, hiFinal := st.hiFinal, yieldForm := X.hr.yieldForm,
    pctLagPhase := X.hr.pctLagPhase, biomass := X.bio.1, biomassNS := X.bio.2,
    preAdj := X.hi.preAdj, fPre := X.hi.fPre, fPol := X.hi.fPol, sCor1 := X.hi.sCor1,
    sCor2 := X.hi.sCor2, fpostUpp := X.hi.fpostUpp, fpostDwn := X.hi.fpostDwn,
    fPost := X.hi.fPost, hi := X.hi.hi, hiAdj := X.hi.hiAdj,
    cropMature := mature,
    harvestFlag := st.harvestFlag || endc,
    depletion := if D.gs then X.t.st.depletion else X.rz.drRz,
    taw := if D.gs then X.t.st.taw else X.rz.tawRz,
    zGW := X.g.zGW, wtInSoil := X.g.wtInSoil,
    yieldPot := X.y.yieldPot, dryYield := X.y.dryYield, freshYield := X.y.freshYield }

/-- rows, summary and final state from the process outputs -/
def dayResultOf (P : DayParams α) (st : DayState' α) (D : DayIn' α) (X : FullTrace α) :
    DayResult α :=
  let o := dayOutOf P.W D.water X.water
  let s' := stateAfter P st D X
  let rep := irrReportOf P D X
  let endc : Bool := decide (0 ≤ D.season) && (s'.cropMature || s'.cropDead || D.lastDay)
  { state := s',
    storage := { tsc := D.tsc, gs := D.gs, dap := X.tc.dap, th := X.w.1.map (·.th) },
    flux := { tsc := D.tsc, season := D.season, dap := X.tc.dap, wr := X.rz.wrAct,
              zGW := X.g.zGW, pond := X.t.st.pond, irrDay := rep.1, infl := X.f.infl,
              runoff := X.f.runoffTot, deepPerc := X.f.deepPerc, cr := X.c.crTot, gwIn := X.w.2,
              es := X.e.esAct, esPot := X.e.esPot, tr := X.t.trAct, trPot := X.t.trPot0 },
    growth := { tsc := D.tsc, season := D.season, dap := X.tc.dap, gdd := X.tc.gdd,
                gddCum := X.tc.gddCum, zRoot := X.rd.zRoot, cc := X.t.st.cc, ccNS := X.cc.ccNS,
                biomass := X.bio.1, biomassNS := X.bio.2, hi := X.hi.hi, hiAdj := X.hi.hiAdj,
                dryYield := X.y.dryYield, freshYield := X.y.freshYield,
                yieldPot := X.y.yieldPot },
    summary :=
      if endc && !st.harvestFlag then
        some { season := D.season, tsc := D.tsc, dryYield := X.y.dryYield,
               freshYield := X.y.freshYield, yieldPot := X.y.yieldPot, irrTot := rep.2.1 }
      else none,
    crop := X.cropDay P st, water := o, irrTot := rep.2.1, endc := endc, trace := X }

/-- **`solution_single_time_step`** for one day -/
def fullDay (F : Fn α) (T : TrigFn α) (P : DayParams α) (st : DayState' α) (D : DayIn' α) :
    Except String (DayResult α) :=
  match fullDayTrace F T P st D with
  | .error e => .error e
  | .ok X => .ok (dayResultOf P st D X)

end
end Aqua
