import AquaVerif.Model.Day
import AquaVerif.Model.Clock
/-
The **whole run**: the clock / season state machine of `Model/Clock.lean` driving `fullDay`
(`Model/Day.lean`) — `AquaCropModel._perform_timestep` (`aquacrop/core.py`) =
`solution_single_time_step` → `check_model_is_finished` → `update_time`
(+ `reset_initial_conditions` at a season start), and `run_model(num_steps = k)`.

Compared with `Model/Clock.lean` the oracle is gone: `crop_mature` / `crop_dead` are the flags
`fullDay` produces.  The clock arithmetic itself is *reused*: `update_time` is
`Clock.updateTime` on the clock projection of the state (`clockOf`), and a season start — the
only place where `reset_initial_conditions` is called — is recognised by the season counter
having changed.

`reset_initial_conditions` is mirrored for the state fields (`resetState`; the list is
`Model/Reset.lean`'s `resetFields`).  Its CO2 / thermal-calendar part, which rewrites the season's
crop object (`fCO2`, the calendar-day equivalents of a GDD crop, `HIGC`, `tLinSwitch`, …) and
`CO2.current_concentration`, enters as the parameter functions `seasonCrop`, `co2Cur`:
`seasonCrop k` is the crop of season `k` *as the reset leaves it* (for season 0 of a run that
starts on the planting date: as `compute_variables` leaves it — no reset is called then).

Which records the day uses (`solution_single_time_step`, lines 93–129): from the first season on
the season's crop and `IrrMngt`, before it the fallow filler crop (`Aer = 5`, `Zmin = 0.3`) and
`FallowIrrMngt`; `FieldMngt` in the growing season, `FallowFieldMngt` otherwise.
-/

namespace Aqua

/-- the crop of a season: what the water processes read and what the crop processes read -/
structure CropParams (α : Type) where
  cw : CropW α
  cx : CropX α

/-- `IrrMngt` / `FallowIrrMngt` -/
structure IrrSet (α : Type) where
  irr : IrrParams α
  netIrrSMT : α
  wetSurf : α
  /-- `Schedule[time_step_counter]` -/
  sched : Nat → Option α

/-- one line of the weather table -/
structure Weather (α : Type) where
  tmin : α
  tmax : α
  rain : α
  et0 : α

structure RunCfg (α : Type) where
  clock : Clock.Cfg
  /-- soil, clock flags, water-table flag, reference CO2 (`crop`, `irr`, `netIrrSMT`, `wetSurf`,
  `co2Cur` of this record are overwritten per day) -/
  W0 : WaterParams α
  zGerm : α
  irr : IrrSet α
  fallowIrr : IrrSet α
  fm : FieldMngt α
  fallowFm : FieldMngt α
  /-- `FieldMngt.bund_water` -/
  bundWater : α
  fallowCrop : CropParams α
  seasonCrop : Nat → CropParams α
  /-- `CO2.current_concentration` while the season counter has the given value -/
  co2Cur : Int → α
  weather : Nat → Weather α
  /-- `param_struct.z_gw[t]` -/
  zgw : Nat → α
  /-- `InitCond.thini` -/
  thini : List α
  /-- the state object `_initialize` leaves -/
  init : DayState' α

/-- everything about one simulated day (ghost record: inputs and result) -/
structure DayRec (α : Type) where
  P : DayParams α
  st : DayState' α
  D : DayIn' α
  r : DayResult α

structure RunState (α : Type) where
  /-- `time_step_counter` -/
  t : Nat
  /-- `season_counter` -/
  season : Int
  /-- `model_is_finished` -/
  finished : Bool
  /-- `InitialCondition` -/
  day : DayState' α
  /-- the simulated days so far, newest first (the three daily tables and the summary are
  projections of it: `storageTable`, `fluxTable`, `growthTable`, `summaryTable`) -/
  daysRev : List (DayRec α)

namespace DayRec
variable {α : Type}
/-- the row of `Model/Clock.lean` for this day -/
def clockRow (d : DayRec α) : Clock.Row :=
  { t := d.D.tsc, season := d.D.season, dap := d.r.state.dap, gs := d.D.gs,
    mature := d.r.state.cropMature, dead := d.r.state.cropDead, endc := d.r.endc }
def clockSummary (d : DayRec α) : Option (Int × Nat) := d.r.summary.map (fun x => (x.season, x.tsc))
end DayRec

namespace RunState
variable {α : Type}
def storageTable (s : RunState α) : List (StorageRow α) := s.daysRev.reverse.map (·.r.storage)
def fluxTable (s : RunState α) : List (FluxRow α) := s.daysRev.reverse.map (·.r.flux)
def growthTable (s : RunState α) : List (GrowthRow α) := s.daysRev.reverse.map (·.r.growth)
def summaryTable (s : RunState α) : List (SummaryRow α) := s.daysRev.reverse.filterMap (·.r.summary)

/-- the clock state of `Model/Clock.lean` this state projects to -/
def clockOf (s : RunState α) : Clock.St :=
  { t := s.t, season := s.season, dap := s.day.dap, mature := s.day.cropMature,
    dead := s.day.cropDead, harvestFlag := s.day.harvestFlag, finished := s.finished,
    rowsRev := s.daysRev.map DayRec.clockRow,
    summaryRev := s.daysRev.filterMap DayRec.clockSummary }
end RunState

section
variable {α : Type} [Add α] [Sub α] [Mul α] [Div α] [Neg α] [LT α] [LE α]
  [DecidableLT α] [DecidableLE α] [OfScientific α] [OfNat α 0] [OfNat α 1] [OfNat α 2] [OfNat α 3]
  [OfNat α 4] [OfNat α 5] [OfNat α 8] [OfNat α 9] [OfNat α 10] [OfNat α 14] [OfNat α 20]
  [OfNat α 40] [OfNat α 99] [OfNat α 100] [OfNat α 254] [OfNat α 550] [OfNat α 1000]
  [OfNat α 2000] [OfNat α 25400]

/-- `Crop_.Aer = 5; Crop_.Zmin = 0.3` on the fallow filler crop (the water processes read both
through `CropW.tr`; no crop process reads them off season) -/
def fallowAdjust (c : CropParams α) : CropParams α :=
  { c with cw := { c.cw with tr := { c.cw.tr with aer := 5, zMin := 0.3 } } }

/-- the crop the day uses -/
def cropOf (cfg : RunCfg α) (season : Int) : CropParams α :=
  if 0 ≤ season then cfg.seasonCrop season.toNat else fallowAdjust cfg.fallowCrop

/-- the parameter record of a day (lines 93–129 of `run_single_timestep.py`) -/
def paramsOf (cfg : RunCfg α) (season : Int) (gs : Bool) : DayParams α :=
  let c := cropOf cfg season
  let i := if 0 ≤ season then cfg.irr else cfg.fallowIrr
  { W := { cfg.W0 with crop := c.cw, irr := i.irr, netIrrSMT := i.netIrrSMT,
                        wetSurf := i.wetSurf, co2Cur := cfg.co2Cur season },
    fm := if gs then cfg.fm else cfg.fallowFm,
    zGerm := cfg.zGerm, cx := c.cx }

/-- "Check if growing season is active on current time step":
`planting_date <= CurrentDate and harvest_date > CurrentDate and not crop_mature and not crop_dead` -/
def gsOfDay (ph : Option (Nat × Int)) (t : Nat) (mature dead : Bool) : Bool :=
  match ph with
  | some (p, h) => decide ((p : Int) ≤ t) && decide ((t : Int) < h) && !mature && !dead
  | none => false

/-- `harvest_dates[season_counter] == step_end_time` -/
def lastDayOf (ph : Option (Nat × Int)) (t : Nat) : Bool :=
  match ph with
  | some (_, h) => decide (h = (t : Int) + 1)
  | none => false

/-- forcing and calendar position of the day about to be simulated -/
def dayInOf (cfg : RunCfg α) (s : RunState α) (ph : Option (Nat × Int)) : DayIn' α :=
  let w := cfg.weather s.t
  let i := if 0 ≤ s.season then cfg.irr else cfg.fallowIrr
  { gs := gsOfDay ph s.t s.day.cropMature s.day.cropDead, tsc := s.t, season := s.season,
    rain := w.rain, et0 := w.et0, tmax := w.tmax, tmin := w.tmin,
    zGW := if cfg.W0.waterTable = 1 then cfg.zgw s.t else 0,
    sched := i.sched s.t, lastDay := lastDayOf ph s.t }

/-- `solution_single_time_step` on the run state -/
def solution (F : Fn α) (T : TrigFn α) (cfg : RunCfg α) (s : RunState α)
    (ph : Option (Nat × Int)) : Except String (RunState α) :=
  let D := dayInOf cfg s ph
  let P := paramsOf cfg s.season D.gs
  match fullDay F T P s.day D with
  | .error e => .error e
  | .ok r => .ok { s with day := r.state,
                          daysRev := { P := P, st := s.day, D := D, r := r } :: s.daysRev }

/-- `check_model_is_finished` -/
def checkFinishedR (cfg : RunCfg α) (s : RunState α) : RunState α :=
  { s with finished := (Clock.checkFinished cfg.clock s.clockOf).finished }

/-- surface storage at a season start when the off-season is not simulated:
`min(bund_water, z_bund)` with bunds higher than 1 mm, else 0 -/
def resetPondOf (bunds : Bool) (zBund bundWater : α) : α :=
  if bunds = true ∧ 0.001 < zBund then pmin bundWater zBund else 0

def resetPond (cfg : RunCfg α) : α := resetPondOf cfg.fm.bunds cfg.fm.zBund cfg.bundWater

/-- `th = np.copy(thini)` -/
def setTh : List (Cell α) → List α → List (Cell α)
  | x :: xs, v :: vs => { x with th := v } :: setTh xs vs
  | xs, _ => xs

/-- the state part of `reset_initial_conditions`, from what it reads: `sim_off_season`, `thini`,
the surface storage to restore, `crop.CC0`, `crop.HI0` of the season that starts.  `th` and
`surface_storage` are restored only when the off-season is skipped.
Untouched: `hi_ref`, `yield_form`, `stage2`, `w_surf`, `evap_z`, `w_stage_2`, `z_root`,
`th_fc_Adj`, `z_gw`, `wt_in_soil`, `depletion`, `taw`, `YieldPot` (`Model/Reset.lean` says why
none of them can leak into the new season).  `aer_days_comp = np.zeros(int(Soil.nComp))` is
modelled as zeroing the counter of every compartment (`nComp` = number of compartments). -/
def resetStateCore (offSeason : Bool) (thini : List α) (pond0 cc0 hi0 : α) (st : DayState' α) :
    DayState' α :=
  let cells0 := st.cells.map (fun x => { x with aer := 0 })
  { st with
    cells := if offSeason then cells0 else setTh cells0 thini,
    pond := if offSeason then st.pond else pond0,
    ageDays := 0, ageDaysNS := 0, aerDays := 0, irrCum := 0, delayedGdds := 0, delayedCds := 0,
    pctLagPhase := 0, tEarlySen := 0, gddCum := 0, daySubmerged := 0, irrNetCum := 0, dap := 0,
    ePot := 0, tPot := 0,
    preAdj := false, cropMature := false, cropDead := false, germination := false,
    prematSenes := false, harvestFlag := false,
    fPre := 1, fPost := 1, fpostDwn := 1, fpostUpp := 1, fPol := 0, sCor1 := 0, sCor2 := 0,
    growthStage := 0, trRatio := 1, rCor := 1,
    cc := 0, ccAdj := 0, ccNS := 0, ccAdjNS := 0, biomass := 0, biomassNS := 0, hi := 0,
    hiAdj := 0, ccxAct := 0, ccxActNS := 0, ccxW := 0, ccxWNS := 0, ccxEarlySen := 0,
    ccPrev := 0, protectedSeed := false, cc0Adj := cc0, hiFinal := hi0,
    dryYield := 0, freshYield := 0 }

/-- `reset_initial_conditions` (state part) for the crop of the season that starts -/
def resetState (cfg : RunCfg α) (crop : CropParams α) (st : DayState' α) : DayState' α :=
  resetStateCore cfg.clock.offSeason cfg.thini (resetPond cfg) crop.cx.cc.cc0 crop.cx.hi.hi0 st

/-- `update_time`: the clock arithmetic of `Clock.updateTime`; `reset_initial_conditions` exactly
when the season counter advanced -/
def updateTimeR (cfg : RunCfg α) (s : RunState α) : Except String (RunState α) :=
  match Clock.updateTime cfg.clock s.clockOf with
  | .error e => .error e.toString
  | .ok c' =>
    if c'.season = s.season then .ok { s with t := c'.t }
    else .ok { s with t := c'.t, season := c'.season,
                      day := resetState cfg (cfg.seasonCrop c'.season.toNat) s.day }

/-- `_perform_timestep` -/
def performR (F : Fn α) (T : TrigFn α) (cfg : RunCfg α) (s : RunState α) :
    Except String (RunState α) :=
  if s.finished then .error "E:finished" else
  match Clock.seasonInfo cfg.clock s.season with
  | .error e => .error e.toString
  | .ok ph =>
    match solution F T cfg s ph with
    | .error e => .error e
    | .ok s1 => updateTimeR cfg (checkFinishedR cfg s1)

/-- the state after `_initialize` -/
def runInit (cfg : RunCfg α) : Except String (RunState α) :=
  match Clock.init cfg.clock with
  | .error e => .error e.toString
  | .ok c => .ok { t := c.t, season := c.season, finished := c.finished, day := cfg.init,
                   daysRev := [] }

/-- `for i in range(k): _perform_timestep(); if model_is_finished: return` -/
def runStepsR (F : Fn α) (T : TrigFn α) (cfg : RunCfg α) : Nat → RunState α →
    Except String (RunState α)
  | 0, s => .ok s
  | k + 1, s =>
    match performR F T cfg s with
    | .error e => .error e
    | .ok s' => if s'.finished then .ok s' else runStepsR F T cfg k s'

/-- **`run_model(num_steps = k, initialize_model = False)`**; the weather is `cfg.weather` -/
def runModel (F : Fn α) (T : TrigFn α) (cfg : RunCfg α) (k : Nat) (s : RunState α) :
    Except String (RunState α) :=
  if k < 1 then .error "E:numsteps" else runStepsR F T cfg k s

end
end Aqua
