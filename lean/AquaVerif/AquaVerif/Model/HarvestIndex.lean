import AquaVerif.Model.HIref
import AquaVerif.Model.RootZone
import AquaVerif.Model.WaterStress
import AquaVerif.Model.Response
/-
Model of `aquacrop/solution/harvest_index.py` and its helpers
`HIadj_pre_anthesis.py`, `HIadj_pollination.py`, `HIadj_post_anthesis.py`.

`np.sin` and `np.pi` are not part of the shared `Fn` (which must not be edited), they are the
fields of `TrigFn` below.

Partiality (`Except` with the driver's error kinds):
* `index`   — `root_zone_water` raises (`IndexError` / its `assert`);
* `unbound` — `temperature_stress` reads an unassigned coefficient (flags other than 0/1),
              `harvest_index_adj` is unassigned for a `CropType` other than 1, 2, 3 inside the
              yield-formation period, `FracFlow` is unassigned in `HIadj_pollination` for `HIt < 0`
              (unreachable from `harvest_index`, which calls it with `HIt > 0` only).
Division by zero follows IEEE (numpy scalars); see the remark in `Model/Response.lean`.

Python evaluates root-zone water, water stress and temperature stress on *every* in-season day,
also outside the yield-formation period — their exceptions are mirrored there too.
-/

namespace Aqua
section
variable {α : Type} [Add α] [Sub α] [Mul α] [Div α] [Neg α] [LT α] [LE α]
  [DecidableLT α] [DecidableLE α] [OfScientific α] [OfNat α 0] [OfNat α 1] [OfNat α 2] [OfNat α 3]
  [OfNat α 5] [OfNat α 9] [OfNat α 10] [OfNat α 100] [OfNat α 1000]

/-- `np.sin`, `np.pi` -/
structure TrigFn (α : Type) where
  sin : α → α
  pi : α

/-- the crop parameters `harvest_index` hands to `root_zone_water`, `water_stress` and
`temperature_stress`. -/
structure HiStressCrop (α : Type) where
  zMin : α                -- Zmin
  aer : α                 -- Aer
  pUp : Fin 4 → α         -- p_up
  pLo : Fin 4 → α         -- p_lo
  etAdj : Bool            -- ETadj == 1
  beta : α                -- beta
  fshapeW : Fin 4 → α     -- fshape_w
  polHeatStress : Nat     -- PolHeatStress
  polColdStress : Nat     -- PolColdStress
  tmaxUp : α
  tmaxLo : α
  tminUp : α
  tminLo : α
  fshapeB : α

/-- the fields of `InitCond` that `harvest_index` reads (besides `th`, which travels with the
cells) and writes. -/
structure HiState (α : Type) where
  -- read only
  zRoot : α          -- z_root
  tEarlySen : α      -- t_early_sen
  hiRef : α          -- hi_ref
  dap : α            -- dap
  delayedCDs : α     -- delayed_cds
  yieldForm : Bool   -- yield_form
  biomass : α        -- biomass
  biomassNS : α      -- biomass_ns
  cc : α             -- canopy_cover
  -- read and written
  preAdj : Bool      -- pre_adj
  fPre : α           -- f_pre
  fPol : α           -- f_pol
  sCor1 : α          -- s_cor1
  sCor2 : α          -- s_cor2
  fpostUpp : α       -- fpost_upp
  fpostDwn : α       -- fpost_dwn
  fPost : α          -- f_post
  hi : α             -- harvest_index
  hiAdj : α          -- harvest_index_adj

/-! ### HIadj_pre_anthesis -/

/-- `HIadj_pre_anthesis(B, B_NS, CC, dHI_pre)` -/
def hiAdjPreAnthesis (F : Fn α) (T : TrigFn α) (b bNS cc dHIpre : α) : α :=
  let fpre :=
    if 0 < dHIpre then
      let br := b / bNS
      let brRange := F.log dHIpre / 5.62
      let brUpp : α := 1
      let brLow := 1 - brRange
      let brTop := brUpp - (brRange / 3)
      let ratioLow := (br - brLow) / (brTop - brLow)
      let ratioUpp := (br - brTop) / (brUpp - brTop)
      if brLow ≤ br ∧ br < brTop then
        1 + (((1 + T.sin ((1.5 - ratioLow) * T.pi)) / 2) * (dHIpre / 100))
      else if brTop < br ∧ br ≤ brUpp then
        1 + (((1 + T.sin ((0.5 + ratioUpp) * T.pi)) / 2) * (dHIpre / 100))
      else 1
    else 1
  if cc ≤ 0.01 then 0 else fpre

/-! ### HIadj_pollination -/

/-- fractional flowering at time `t` (`F1`/`F2` of the code, after the `< 0` clamp) -/
def fracFlowAt (F : Fn α) (floweringCD t : α) : α :=
  let f :=
    if t ≤ 0 ∧ 0 ≤ t then 0
    else
      let pct := 100 * (t / floweringCD)
      let pct := if 100 < pct then 100 else pct
      0.00558 * F.exp (0.63 * F.log pct) - (0.000969 * pct) - 0.00383
  if f < 0 then 0 else f

/-- `FracFlow`; `none` when no branch assigns it (`HIt < 0`) -/
def fracFlow (F : Fn α) (floweringCD hit : α) : Option α :=
  if hit ≤ 0 ∧ 0 ≤ hit then some 0
  else if 0 < hit then
    let f1 := fracFlowAt F floweringCD (hit - 1)
    let f2 := fracFlowAt F floweringCD hit
    let d := f1 - f2
    let a := if d < 0 then -d else d
    if a < 0.0000001 then some 0
    else some (100 * ((f1 + f2) / 2) / floweringCD)
  else none

/-- `HIadj_pollination(CC, Fpol, FloweringCD, CCmin, exc, Ksw, Kst, HIt)`;
`none` = `UnboundLocalError` (`FracFlow`). -/
def hiAdjPollination (F : Fn α) (cc fPol floweringCD ccMin exc kswPol kstPolC kstPolH hit : α) :
    Option α :=
  let ff := fracFlow F floweringCD hit
  let d? : Option α :=
    if cc < ccMin then some 0
    else
      match ff with
      | none => none
      | some ff =>
        let ks := pmin (pmin kswPol kstPolC) kstPolH
        some (ks * ff * (1 + (exc / 100)))
  match d? with
  | none => none
  | some d =>
    let fp := fPol + d
    some (if 1 < fp then 1 else fp)

/-! ### HIadj_post_anthesis -/

/-- `x == 0` -/
def hiIsZero (x : α) : Prop := x ≤ 0 ∧ 0 ≤ x

instance (x : α) : Decidable (hiIsZero x) := by unfold hiIsZero; exact inferInstance

structure PostOut (α : Type) where
  sCor1 : α
  sCor2 : α
  fpostUpp : α
  fpostDwn : α
  fPost : α

/-- "1. Adjustment for leaf expansion": new `(sCor1, fpost_upp)`; `d = dap - delayed_cds`,
`dayCor = d - 1 - HIstartCD` -/
def postUpp (c : HiCrop α) (d dayCor sCor1 fPre cc fpostUpp kswExp : α) : α × α :=
  let tmax1 := c.canopyDevEndCD - c.hiStartCD
  if d ≤ c.canopyDevEndCD + 1 ∧ 0 < tmax1 ∧ 0.99 < fPre ∧ 0.001 < cc ∧ 0 < c.aHI then
    let dCor := 1 + (1 - kswExp) / c.aHI
    let s1 := sCor1 + (dCor / tmax1)
    (s1, (tmax1 / dayCor) * s1)
  else (sCor1, fpostUpp)

/-- "2. Adjustment for stomatal closure": new `(sCor2, fpost_dwn)` -/
def postDwn (F : Fn α) (c : HiCrop α) (d dayCor sCor2 fPre cc fpostDwn kswSto : α) : α × α :=
  let tmax2 := c.yldFormCD
  if d ≤ c.hiEndCD + 1 ∧ 0 < tmax2 ∧ 0.99 < fPre ∧ 0.001 < cc ∧ 0 < c.bHI then
    let dCor := F.pow kswSto 0.1 * (1 - (1 - kswSto) / c.bHI)
    let s2 := sCor2 + (dCor / tmax2)
    (s2, (tmax2 / dayCor) * s2)
  else (sCor2, fpostDwn)

/-- "Determine total multiplier" -/
def postTotal (tmax1 tmax2 up dwn : α) : α :=
  if hiIsZero tmax1 ∧ hiIsZero tmax2 then 1
  else if hiIsZero tmax2 then up
  else if hiIsZero tmax1 then dwn
  else if tmax1 ≤ tmax2 then dwn * (((tmax1 * up) + (tmax2 - tmax1)) / tmax2)
  else up * (((tmax2 * dwn) + (tmax1 - tmax2)) / tmax1)

/-- `HIadj_post_anthesis(delayed_cds, sCor1, sCor2, dap, Fpre, CC, fpost_upp, fpost_dwn, Crop, Ksw)` -/
def hiAdjPostAnthesis (F : Fn α) (c : HiCrop α) (delayedCDs sCor1 sCor2 dap fPre cc fpostUpp
    fpostDwn kswExp kswSto : α) : PostOut α :=
  let tmax1 := c.canopyDevEndCD - c.hiStartCD
  let d := dap - delayedCDs
  let dayCor := d - 1 - c.hiStartCD
  let u := postUpp c d dayCor sCor1 fPre cc fpostUpp kswExp
  let tmax2 := c.yldFormCD
  let w := postDwn F c d dayCor sCor2 fPre cc fpostDwn kswSto
  { sCor1 := u.1, sCor2 := w.1, fpostUpp := u.2, fpostDwn := w.2,
    fPost := postTotal tmax1 tmax2 u.2 w.2 }

/-! ### harvest_index -/

/-- `HImult = f_pre * f_post` capped at `1 + dHI0/100` -/
def hiMult (c : HiCrop α) (fPre fPost : α) : α :=
  let m := fPre * fPost
  if 1 + (c.dHI0 / 100) < m then 1 + (c.dHI0 / 100) else m

/-- "Determine adjustment for water stress before anthesis" (once per season) -/
def hiPreStep (F : Fn α) (T : TrigFn α) (c : HiCrop α) (s : HiState α) : HiState α :=
  if s.preAdj then s
  else { s with preAdj := true,
                fPre := hiAdjPreAnthesis F T s.biomass s.biomassNS s.cc c.dHIpre }

/-- "Determine adjustment for crop pollination failure": new state and `HImax` -/
def hiPolStep (F : Fn α) (c : HiCrop α) (s : HiState α) (hit kswPol polH polC : α) :
    Except String (HiState α × α) :=
  if c.cropType = 3 then
    if 0 < hit ∧ hit ≤ c.floweringCD then
      match hiAdjPollination F s.cc s.fPol c.floweringCD c.ccMin c.exc kswPol polC polH hit with
      | none => .error "unbound"
      | some fp => .ok ({ s with fPol := fp }, fp * c.hi0)
    else .ok (s, s.fPol * c.hi0)
  else .ok (s, c.hi0)

/-- "Determine adjustments for post-anthesis water stress" -/
def hiPostStep (F : Fn α) (c : HiCrop α) (s : HiState α) (hit kswExp kswSto : α) : HiState α :=
  if 0 < hit then
    let p := hiAdjPostAnthesis F c s.delayedCDs s.sCor1 s.sCor2 s.dap s.fPre s.cc s.fpostUpp
      s.fpostDwn kswExp kswSto
    { s with sCor1 := p.sCor1, sCor2 := p.sCor2, fpostUpp := p.fpostUpp,
             fpostDwn := p.fpostDwn, fPost := p.fPost }
  else s

/-- the yield-formation block of `harvest_index` for root/tuber and fruit/grain crops
(`CropType` 2, 3): new state (with `hi`, `hiAdj` set) -/
def hiYieldFormation (F : Fn α) (T : TrigFn α) (c : HiCrop α) (s : HiState α) (hit : α)
    (kw : Ksw α) (polH polC : α) : Except String (HiState α) :=
  let hii := s.hiRef
  let s := hiPreStep F T c s
  match hiPolStep F c s hit kw.pol polH polC with
  | .error e => .error e
  | .ok (s, hiMax) =>
    let s := hiPostStep F c s hit kw.exp kw.sto
    let m := hiMult c s.fPre s.fPost
    let adj := if hii ≤ hiMax then m * hii else m * hiMax
    .ok { s with hi := hii, hiAdj := adj }

/-- the part of `harvest_index` after the stress coefficients are known. -/
def hiCore (F : Fn α) (T : TrigFn α) (c : HiCrop α) (s : HiState α) (kw : Ksw α) (polH polC : α) :
    Except String (HiState α) :=
  let hit := hiTime c s.dap s.delayedCDs
  if s.yieldForm ∧ 0 ≤ hit then
    if c.cropType = 2 ∨ c.cropType = 3 then hiYieldFormation F T c s hit kw polH polC
    else if c.cropType = 1 then .ok { s with hi := s.hiRef, hiAdj := s.hiRef }
    else .error "unbound"
  else .ok s      -- hi := InitCond_HI, hiAdj := InitCond_HIadj

/-- water-stress coefficients as `harvest_index` obtains them: root-zone or top-soil depletion,
whichever is relatively smaller; `beta = True`. -/
def hiWaterStress (F : Fn α) (k : HiStressCrop α) (r : RZ α) (tEarlySen et0 : α) : Ksw α :=
  let (dr, taw) :=
    if r.drRz / r.tawRz ≤ r.drZt / r.tawZt then (r.drRz, r.tawRz) else (r.drZt, r.tawZt)
  waterStress F k.pUp k.pLo k.fshapeW k.etAdj k.beta tEarlySen dr taw et0 true

/-- `harvest_index(prof, Soil_zTop, Crop, InitCond, et0, temp_max, temp_min, growing_season)`;
returns the written fields of `NewCond` (as a whole `HiState`). -/
def harvestIndex (F : Fn α) (T : TrigFn α) (cells : List (Cell α)) (zTop : α) (c : HiCrop α)
    (k : HiStressCrop α) (s : HiState α) (et0 tmax tmin : α) (gs : Bool) :
    Except String (HiState α) :=
  if gs then
    match rootZoneWater F cells s.zRoot zTop k.zMin k.aer with
    | none => .error "index"
    | some r =>
      let kw := hiWaterStress F k r s.tEarlySen et0
      match temperatureStress F k.polHeatStress k.polColdStress k.tmaxUp k.tmaxLo k.tminUp
          k.tminLo k.fshapeB tmax tmin with
      | none => .error "unbound"
      | some (polH, polC) => hiCore F T c s kw polH polC
  else .ok { s with hi := 0, hiAdj := 0 }

end
end Aqua
