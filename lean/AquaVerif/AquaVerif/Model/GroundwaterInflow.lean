import AquaVerif.Model.Profile
/-
Model of `aquacrop/solution/groundwater_inflow.py`: when the water table is inside the profile,
every compartment from the first one whose mid-point is at or below the table down to the bottom
is filled to saturation; the water added is the groundwater inflow `GwIn`.

`idx = np.argwhere(zMid >= z_gw).flatten()[0]` raises `IndexError` when no mid-point is at or
below the table (`wt_in_soil` stale w.r.t. `z_gw`) → `none`.
-/

namespace Aqua
section
variable {α : Type} [Add α] [Sub α] [Mul α] [Div α] [Neg α] [LT α] [LE α]
  [DecidableLT α] [DecidableLE α] [OfScientific α] [OfNat α 0] [OfNat α 1] [OfNat α 1000]

/-- `for ii in range(idx, n)`: fill to saturation, accumulating `GwIn` (left to right). -/
def gwFill : List (Cell α) → α → List (Cell α) × α
  | [], g => ([], g)
  | x :: xs, g =>
    if x.th < x.c.thS then
      let dth := x.c.thS - x.th
      let r := gwFill xs (g + (dth * 1000 * x.c.dz))
      ({ x with th := x.c.thS } :: r.1, r.2)
    else
      let r := gwFill xs g
      (x :: r.1, r.2)

/-- find `idx` (first `zMid >= zGW`), then fill from there; `none` = `IndexError`. -/
def gwSeek (zGW : α) : List (Cell α) → Option (List (Cell α) × α)
  | [] => none
  | x :: xs =>
    if zGW ≤ x.c.zMid then some (gwFill (x :: xs) 0)
    else match gwSeek zGW xs with
      | none => none
      | some r => some (x :: r.1, r.2)

/-- `groundwater_inflow(prof, NewCond)` reading `NewCond.wt_in_soil`, `.z_gw`, `.th`;
returns `(cells, GwIn)`. -/
def groundwaterInflow (cells : List (Cell α)) (wtInSoil : Bool) (zGW : α) :
    Option (List (Cell α) × α) :=
  if wtInSoil then gwSeek zGW cells else some (cells, 0)

end
end Aqua
