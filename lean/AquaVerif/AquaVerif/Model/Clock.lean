/-
Clock / season state machine of AquaCrop-OSPy (properties C07, C09, summary part of C06).

Mirrors, branch by branch, the *control skeleton* of
  * `aquacrop/core.py`                      : `run_model`, `_perform_timestep`
  * `aquacrop/timestep/run_single_timestep.py` : growing-season test, `dap` update, maturity flag,
                                               daily table rows, "Final output" block
  * `aquacrop/timestep/check_if_model_is_finished.py`
  * `aquacrop/timestep/update_time.py` (+ the part of `reset_initial_conditions` that resets
    `dap`, `crop_mature`, `crop_dead`, `harvest_flag`)
  * `aquacrop/initialize/read_clocks_parameters.py` (initial clock).

Dates are step indices into the simulation window: `time_span[i]`, `0 ≤ i < n`.
`step_start_time = time_span[t]`, `step_end_time = time_span[t+1]` and
`simulation_end_date = time_span[n-1]` throughout (the Python keeps the three in lock-step).

The biophysics is abstracted by an oracle `ev : Nat → Bool × Bool`: for step index `t`,
whether the crop model sets `crop_mature` resp. `crop_dead` on that day *if the day is in a
growing season* (both flags are only ever set under `growing_season`).

Core Lean only (no Mathlib, no Float).
-/

namespace Aqua.Clock

/-- Where the Python raises. -/
inductive Err where
  /-- `IndexError` (`time_span[i]`, `planting_dates[i]`, `harvest_dates[i]` out of range) -/
  | index
  /-- `KeyError` (`time_span.get_loc(planting_date)` for a planting date outside the window) -/
  | key
  /-- a `_perform_timestep` on a model that already finished: the daily tables have been turned
      into DataFrames, the table write of `solution_single_time_step` raises `ValueError` -/
  | finished
  /-- `run_model(num_steps < 1)` : `ValueError` -/
  | numSteps
  /-- model artefact: fuel of `runTill` exhausted (never happens for valid configurations) -/
  | fuel
  deriving DecidableEq, Repr, Inhabited

def Err.toString : Err → String
  | .index => "E:index"
  | .key => "E:key"
  | .finished => "E:finished"
  | .numSteps => "E:numsteps"
  | .fuel => "E:fuel"

/-- Clock configuration (what `_initialize` leaves in the `ClockStruct`). -/
structure Cfg where
  /-- `n_steps = len(time_span)` -/
  n : Nat
  /-- index of each planting date in `time_span` (an index `≥ n` stands for a date outside the
      window) -/
  planting : List Nat
  /-- day number (relative to the start date) of each *latest* harvest date; may lie beyond the
      window -/
  harvest : List Int
  /-- `sim_off_season` -/
  offSeason : Bool
  /-- initial `season_counter` (0 if the first day is the first planting date, else −1) -/
  season0 : Int
  deriving Repr

/-- `n_seasons = len(planting_dates)` -/
def Cfg.nSeasons (c : Cfg) : Int := c.planting.length

/-- oracle: `ev t = (crop model declares maturity on day t, declares death on day t)`. -/
abbrev Ev := Nat → Bool × Bool

/-- One row of the daily tables (columns `time_step_counter`, `season_counter`, `dap` of the flux
table, `growing_season` of the storage table) plus ghost columns. -/
structure Row where
  t : Nat
  season : Int
  dap : Nat
  gs : Bool
  /-- ghost: `crop_mature` after the solution step -/
  mature : Bool
  /-- ghost: `crop_dead` after the solution step -/
  dead : Bool
  /-- ghost: the end-of-season condition of the "Final output" block held at this step:
      `season > -1 ∧ (crop_mature ∨ crop_dead ∨ harvest_dates[season] = step_end_time)` -/
  endc : Bool
  deriving DecidableEq, Repr

/-- State: clock + per-season flags + the outputs written so far (newest first). -/
structure St where
  /-- `time_step_counter` -/
  t : Nat
  /-- `season_counter` -/
  season : Int
  dap : Nat
  mature : Bool
  dead : Bool
  harvestFlag : Bool
  /-- `model_is_finished` -/
  finished : Bool
  /-- table writes so far, newest first -/
  rowsRev : List Row
  /-- `final_stats.loc[season] = …` writes so far, newest first: (season, harvest step) -/
  summaryRev : List (Int × Nat)
  deriving Repr

/-- daily table writes in chronological order -/
def St.rows (s : St) : List Row := s.rowsRev.reverse
/-- summary writes in chronological order -/
def St.summary (s : St) : List (Int × Nat) := s.summaryRev.reverse

/-- Python sequence indexing `l[i]` (negative indices count from the end; out of range raises). -/
def pyGet {α : Type} (l : List α) (i : Int) : Except Err α :=
  let j : Int := if i < 0 then i + l.length else i
  if j < 0 then .error .index else
  match l[j.toNat]? with
  | some x => .ok x
  | none => .error .index

/-- `read_clock_parameters` + end of `read_model_parameters`:
`time_span[1]` needs two days in the window; `planting_dates[0]` needs a season. -/
def init (c : Cfg) : Except Err St :=
  if c.n < 2 then .error .index
  else if c.planting.isEmpty then .error .index
  else .ok { t := 0, season := c.season0, dap := 0, mature := false, dead := false,
             harvestFlag := false, finished := false, rowsRev := [], summaryRev := [] }

/-- `planting_dates[season_counter]`, `harvest_dates[season_counter]` — only evaluated when
`season_counter >= 0` (equivalently `> -1`; the "Final output" block re-evaluates
`harvest_dates[season_counter]` under that same guard). -/
def seasonInfo (c : Cfg) (season : Int) : Except Err (Option (Nat × Int)) :=
  if season ≥ 0 then do
    let p ← pyGet c.planting season
    let h ← pyGet c.harvest season
    pure (some (p, h))
  else pure none

/-- Control skeleton of `solution_single_time_step`, given the dates of the current season
(`none`: "Not yet reached start of first growing season"). -/
def solCore (ev : Ev) (s : St) (ph : Option (Nat × Int)) : St :=
  -- "Check if growing season is active on current time step":
  -- `planting_date <= CurrentDate and harvest_date > CurrentDate and not mature and not dead`
  -- (the latest harvest date itself is not a growing day; repository commit d260679)
  let gs : Bool :=
    match ph with
    | some (p, h) =>
      decide ((p : Int) ≤ s.t) && decide ((s.t : Int) < h) && !s.mature && !s.dead
    | none => false
  -- "Increment time counters"
  let dap := if gs then s.dap + 1 else 0
  -- steps 11 (canopy cover: death) and 19 (maturity), both only `if growing_season`
  let o := ev s.t
  let mature := s.mature || (gs && o.1)
  let dead := s.dead || (gs && o.2)
  -- "Final output (if at end of growing season)": `season_counter > -1` and
  -- (crop_mature or crop_dead or harvest_dates[season] == step_end_time)
  let endc : Bool :=
    match ph with
    | some (_, h) => mature || dead || decide (h = (s.t : Int) + 1)
    | none => false
  let row : Row := { t := s.t, season := s.season, dap := dap, gs := gs, mature := mature,
                     dead := dead, endc := endc }
  -- `... and (NewCond.harvest_flag is False)`
  let write := endc && !s.harvestFlag
  { s with dap := dap, mature := mature, dead := dead,
           rowsRev := row :: s.rowsRev,
           summaryRev := if write then (s.season, s.t) :: s.summaryRev else s.summaryRev,
           harvestFlag := if write then true else s.harvestFlag }

def solution (c : Cfg) (ev : Ev) (s : St) : Except Err St := do
  let ph ← seasonInfo c s.season
  pure (solCore ev s ph)

/-- `check_model_is_finished` (called with `step_end_time = time_span[t+1]`,
`simulation_end_date = time_span[n-1]`). -/
def checkFinished (c : Cfg) (s : St) : St :=
  let fin : Bool := if (s.t : Int) + 1 < (c.n : Int) - 1 then false else true
  let fin := if s.harvestFlag && decide (s.season = c.nSeasons - 1) then true else fin
  { s with finished := fin }

/-- the part of `reset_initial_conditions` that concerns the clock -/
def resetSeason (s : St) : St :=
  { s with dap := 0, mature := false, dead := false, harvestFlag := false }

/-- `update_time`. -/
def updateTime (c : Cfg) (s : St) : Except Err St :=
  if s.finished then .ok s else
  if s.harvestFlag && !c.offSeason then
    -- jump to the start of the next growing season
    if s.season < c.nSeasons - 1 then do
      let season' := s.season + 1
      let p ← pyGet c.planting season'
      -- `time_span.get_loc(planting_date)`
      if p ≥ c.n then .error .key else
      -- `time_span[time_step_counter + 1]`
      if p + 1 ≥ c.n then .error .index else
      pure (resetSeason { s with season := season', t := p })
    else
      -- no next season: nothing is updated (the clock would stand still; this branch is dead
      -- because `check_model_is_finished` has declared the model finished in that case)
      pure s
  else
    let t' := s.t + 1
    -- `time_span[t']`, `time_span[t' + 1]`
    if t' ≥ c.n then .error .index else
    if t' + 1 ≥ c.n then .error .index else
    let s1 := { s with t := t' }
    if s.season < c.nSeasons - 1 then do
      let p ← pyGet c.planting (s.season + 1)
      if t' = p then pure (resetSeason { s1 with season := s.season + 1 })
      else pure s1
    else pure s1

/-- `_perform_timestep`.  On a model that has finished the daily tables are DataFrames and the
table write inside `solution_single_time_step` raises. -/
def perform (c : Cfg) (ev : Ev) (s : St) : Except Err St :=
  if s.finished then .error .finished else do
    let s1 ← solution c ev s
    updateTime c (checkFinished c s1)

/-- `while model_is_finished is False: _perform_timestep()` with explicit fuel. -/
def runTillF (c : Cfg) (ev : Ev) : Nat → St → Except Err St
  | 0, s => if s.finished then .ok s else .error .fuel
  | f + 1, s => if s.finished then .ok s else do
      let s' ← perform c ev s
      runTillF c ev f s'

/-- `run_model(till_termination=True, initialize_model=False)`; fuel `n` suffices for valid
configurations (`Proofs/Clock.lean`, `runTill_ok`). -/
def runTill (c : Cfg) (ev : Ev) (s : St) : Except Err St := runTillF c ev c.n s

/-- `for i in range(k): _perform_timestep(); if model_is_finished: return` -/
def runSteps (c : Cfg) (ev : Ev) : Nat → St → Except Err St
  | 0, s => .ok s
  | k + 1, s => do
      let s' ← perform c ev s
      if s'.finished then pure s' else runSteps c ev k s'

/-- `run_model(num_steps=k, initialize_model=False)` -/
def runModel (c : Cfg) (ev : Ev) (k : Nat) (s : St) : Except Err St :=
  if k < 1 then .error .numSteps else runSteps c ev k s

/-- a sequence of `run_model(num_steps=k)` calls -/
def runCalls (c : Cfg) (ev : Ev) : List Nat → St → Except Err St
  | [], s => .ok s
  | k :: ks, s => do
      let s' ← runModel c ev k s
      runCalls c ev ks s'

/-- `final_stats.loc[season] = row`: overwrite the row labelled `season` or append a new one. -/
def upsert (tbl : List (Int × Nat)) (e : Int × Nat) : List (Int × Nat) :=
  match tbl with
  | [] => [e]
  | x :: xs => if x.1 = e.1 then e :: xs else x :: upsert xs e

/-- the `final_stats` table produced by the summary writes -/
def finalStats (writes : List (Int × Nat)) : List (Int × Nat) := writes.foldl upsert []

end Aqua.Clock
