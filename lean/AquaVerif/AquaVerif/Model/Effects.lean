/-
Write effects (engine C): location classes, the shape of the generated effect table, a tiny heap
semantics and the frame theorems used by properties C10, C11, C12.

Core Lean only.  The table itself (`Generated/EffectTable.lean`) is produced by
`harness/translate/effects.py` from the Python sources; the theorems here are generic in the table.

Semantics.  The heap is abstracted to one version counter per location class
(`Heap := LocClass → Nat`): a store into a location of class `c` may change `heap c` arbitrarily,
and changes nothing else.  A program fragment is abstracted to the list of stores it performs
(`List (LocClass × Nat)`: class written, new version).  This is all that is needed to state "a
fragment whose stores avoid class `c` leaves class `c` unchanged", for any number of fragments.
-/

namespace Aqua.Effects

/-- The three code regions whose stores are tabulated. -/
inductive Region where
  /-- entity constructors and `AquaCropModel.__init__` -/
  | construct
  /-- `AquaCropModel._initialize` and everything reachable from it -/
  | init
  /-- `AquaCropModel._perform_timestep` and everything reachable, and `run_model` itself -/
  | step
  deriving DecidableEq, Repr

/-- Location classes: where (relative to the `AquaCropModel` object) a store lands. -/
inductive LocClass where
  /-- `self._init_cond.…` -/
  | state
  /-- `self._outputs.…` -/
  | outputs
  /-- `self._clock_struct.…` -/
  | clock
  /-- `self._param_struct.Soil.Profile.…` (per-compartment arrays) -/
  | paramSoilProfile
  /-- other `self._param_struct.Soil.…` (this object IS the user's `self.soil`) -/
  | paramSoil
  /-- `self._param_struct.IrrMngt.…` -/
  | paramIrr
  /-- `self._param_struct.FallowIrrMngt.…` -/
  | paramFallowIrr
  /-- `self._param_struct.FieldMngt.…` -/
  | paramField
  /-- `self._param_struct.FallowFieldMngt.…` -/
  | paramFallowField
  /-- `self._param_struct.{z_gw, zGW_dates, WTMethod, water_table}` -/
  | paramGw
  /-- `self._param_struct.Seasonal_Crop_List[…].…` -/
  | paramSeasonCrop
  /-- `self._param_struct.Fallow_Crop.…` (internal filler crop) -/
  | paramFallowCrop
  /-- `self._param_struct.CropList[…].…` (these ARE the user's crop objects) -/
  | paramCropList
  /-- `self._param_struct.CO2.…` (this object IS the user's `self.co2_concentration`) -/
  | paramCo2
  /-- any other field of `self._param_struct` -/
  | paramOther
  /-- `self._weather`, `self.weather_df`, `self._weather_df` -/
  | weather
  /-- stores into the object the user passed as `soil` -/
  | userSoil
  /-- … as `crop` -/
  | userCrop
  /-- … as `irrigation_management` -/
  | userIrr
  /-- … as `field_management` / `fallow_field_management` -/
  | userField
  /-- … as `groundwater` -/
  | userGw
  /-- … as `initial_water_content` -/
  | userIwc
  /-- … as `co2_concentration` -/
  | userCo2
  /-- other attributes of the model object itself (rebinding `self._clock_struct = …` etc.) -/
  | model
  /-- module-level objects, class attributes, mutable default arguments, closure variables -/
  | global
  /-- anything the extractor could not resolve (fail closed) -/
  | unknown
  deriving DecidableEq, Repr

/-- One row of the generated table: in region `region`, function `fn` stores into location `path`
(a `self`-rooted access path of the model) of class `cls`; `site` is `file:line` of the store. -/
structure Effect where
  region : Region
  fn : String
  cls : LocClass
  path : String
  site : String
  deriving DecidableEq, Repr

/-- Abstract heap: one version counter per location class. -/
abbrev Heap := LocClass → Nat

/-- A single store: class written and the new version it gets. -/
abbrev Write := LocClass × Nat

/-- Perform one store. -/
def write (h : Heap) (w : Write) : Heap := fun c => if c = w.1 then w.2 else h c

/-- Perform a list of stores, in order. -/
def exec : List Write → Heap → Heap
  | [], h => h
  | w :: ws, h => exec ws (write h w)

/-- Perform a sequence of fragments (each a list of stores), in order. -/
def execAll : List (List Write) → Heap → Heap
  | [], h => h
  | ws :: rest, h => execAll rest (exec ws h)

theorem write_other (h : Heap) (w : Write) (c : LocClass) (hne : w.1 ≠ c) : write h w c = h c := by
  unfold write
  have : ¬ c = w.1 := fun e => hne e.symm
  simp [this]

theorem write_same (h : Heap) (w : Write) : write h w w.1 = w.2 := by
  unfold write
  simp

/-- **Frame theorem.**  Stores that all avoid class `c` leave class `c` unchanged. -/
theorem frame (ws : List Write) (c : LocClass) (h : ∀ w ∈ ws, w.1 ≠ c) (hp : Heap) :
    exec ws hp c = hp c := by
  induction ws generalizing hp with
  | nil => rfl
  | cons w ws ih =>
    have hw : w.1 ≠ c := h w (List.mem_cons_self ..)
    have hrest : ∀ w' ∈ ws, w'.1 ≠ c := fun w' hw' => h w' (List.mem_cons_of_mem _ hw')
    show exec ws (write hp w) c = hp c
    rw [ih hrest (write hp w), write_other hp w c hw]

/-- The frame theorem is not vacuous: a store into `c` can change `c`. -/
theorem write_changes (hp : Heap) (c : LocClass) : exec [(c, hp c + 1)] hp c ≠ hp c := by
  show write hp (c, hp c + 1) c ≠ hp c
  rw [show write hp (c, hp c + 1) c = hp c + 1 from write_same hp (c, hp c + 1)]
  exact Nat.succ_ne_self _

/-- Frame theorem for a sequence of fragments. -/
theorem frame_all (steps : List (List Write)) (c : LocClass)
    (h : ∀ ws ∈ steps, ∀ w ∈ ws, w.1 ≠ c) (hp : Heap) : execAll steps hp c = hp c := by
  induction steps generalizing hp with
  | nil => rfl
  | cons ws rest ih =>
    have h1 : ∀ w ∈ ws, w.1 ≠ c := h ws (List.mem_cons_self ..)
    have h2 : ∀ ws' ∈ rest, ∀ w ∈ ws', w.1 ≠ c := fun ws' hws' => h ws' (List.mem_cons_of_mem _ hws')
    show execAll rest (exec ws hp) c = hp c
    rw [ih h2 (exec ws hp), frame ws c h1 hp]

/-- The stores of a fragment are *drawn from* the rows of region `r` of table `tbl`: every class it
writes is the class of some row of that region. -/
def DrawnFrom (tbl : List Effect) (r : Region) (ws : List Write) : Prop :=
  ∀ w ∈ ws, ∃ e ∈ tbl, e.region = r ∧ e.cls = w.1

/-- The same, for fragments of any region. -/
def DrawnFromAny (tbl : List Effect) (ws : List Write) : Prop :=
  ∀ w ∈ ws, ∃ e ∈ tbl, e.cls = w.1

/-- **Frame theorem for runs.**  If no row of region `r` writes class `c`, then any number of
fragments, each of whose stores is drawn from region `r` of the table, leaves `c` unchanged. -/
theorem frame_runs (tbl : List Effect) (r : Region) (c : LocClass)
    (htbl : ∀ e ∈ tbl, e.region = r → e.cls ≠ c)
    (steps : List (List Write)) (hdrawn : ∀ ws ∈ steps, DrawnFrom tbl r ws) (hp : Heap) :
    execAll steps hp c = hp c := by
  apply frame_all
  intro ws hws w hw
  obtain ⟨e, he, hr, hc⟩ := hdrawn ws hws w hw
  rw [← hc]
  exact htbl e he hr

/-- Variant over all regions of the table. -/
theorem frame_runs_any (tbl : List Effect) (c : LocClass)
    (htbl : ∀ e ∈ tbl, e.cls ≠ c)
    (steps : List (List Write)) (hdrawn : ∀ ws ∈ steps, DrawnFromAny tbl ws) (hp : Heap) :
    execAll steps hp c = hp c := by
  apply frame_all
  intro ws hws w hw
  obtain ⟨e, he, hc⟩ := hdrawn ws hws w hw
  rw [← hc]
  exact htbl e he

/-- `n` steps, step `i` performing the stores `writesOf i`. -/
def runSteps (writesOf : Nat → List Write) : Nat → Heap → Heap
  | 0, h => h
  | n + 1, h => exec (writesOf n) (runSteps writesOf n h)

/-- Frame theorem for `n` consecutive steps (indexed form of `frame_runs`). -/
theorem frame_steps (tbl : List Effect) (r : Region) (c : LocClass)
    (htbl : ∀ e ∈ tbl, e.region = r → e.cls ≠ c)
    (writesOf : Nat → List Write) (hdrawn : ∀ i, DrawnFrom tbl r (writesOf i)) (n : Nat) (hp : Heap) :
    runSteps writesOf n hp c = hp c := by
  induction n with
  | zero => rfl
  | succ n ih =>
    show exec (writesOf n) (runSteps writesOf n hp) c = hp c
    rw [frame (writesOf n) c _ (runSteps writesOf n hp), ih]
    intro w hw
    obtain ⟨e, he, hr, hc⟩ := hdrawn n w hw
    rw [← hc]
    exact htbl e he hr

/-- Boolean form of "every row of region `r` has its class in `allowed`" (for `decide`). -/
def regionWithin (tbl : List Effect) (r : Region) (allowed : List LocClass) : Bool :=
  tbl.all fun e => e.region != r || allowed.contains e.cls

theorem regionWithin_spec {tbl : List Effect} {r : Region} {allowed : List LocClass}
    (h : regionWithin tbl r allowed = true) : ∀ e ∈ tbl, e.region = r → e.cls ∈ allowed := by
  intro e he hr
  have h1 := (List.all_eq_true.mp h) e he
  simp only [Bool.or_eq_true, bne_iff_ne, ne_eq] at h1
  cases h1 with
  | inl h2 => exact absurd hr h2
  | inr h2 => exact List.contains_iff_mem.mp h2 |> fun x => x

/-- Generic bridge from a Boolean scan of a table (evaluated by `decide +kernel`) to the
quantified statement. -/
theorem all_of_check {tbl : List Effect} {P : Effect → Prop} [DecidablePred P]
    (h : (tbl.all fun e => decide (P e)) = true) : ∀ e ∈ tbl, P e := by
  intro e he
  exact of_decide_eq_true ((List.all_eq_true.mp h) e he)

end Aqua.Effects
