import AquaVerif.Model.RootZone
import AquaVerif.Model.WaterStress
/-
Model of `aquacrop/solution/transpiration.py` (`transpiration`): potential transpiration with
canopy ageing / CO2 / dying-canopy / cold-stress corrections, uptake from ponded water, root-zone
water stress, the per-compartment extraction loop, the net-irrigation refill (irrigation method 4),
canopy feedback and transpiration ratio.

Integers of the Python (`dap`, `delayed_cds`, `MaxCanopyCD`, `age_days*`, `day_submerged`,
`LagAer`, …) are carried in the number type `α` (all operations on them are `+`, `-`, comparisons,
and mixed float arithmetic, exact for small integers in `Float`).

Python partiality that is modelled (`Except.error`):
* `E:zerodiv`  `(cur - ref) / (550 - ref)` with `ref = 550` (Python floats; a numpy-typed
               concentration would give `inf` instead — see report), and
               `day_submerged / LagAer` with `LagAer = 0`;
* `E:unbound`  `KsCold` when `TrColdStress ∉ {0,1}` (since repo commit 1d7b670 `p_up_sto` is bound
               for every `ETadj`: the ET0 adjustment applies iff `ETadj == 1`);
* `E:index`    `aer_days_comp[ii]` for `ii ≥ len` when `nComp > len`; `dzsum[ii]` in the `RootFact`
               loop when `comp_sto > len`; every failure of `root_zone_water`.
-/

namespace Aqua
section
variable {α : Type} [Add α] [Sub α] [Mul α] [Div α] [Neg α] [LT α] [LE α]
  [DecidableLT α] [DecidableLE α] [OfScientific α] [OfNat α 0] [OfNat α 1] [OfNat α 2] [OfNat α 3]
  [OfNat α 5] [OfNat α 9] [OfNat α 10] [OfNat α 100] [OfNat α 550] [OfNat α 1000]

/-- the crop parameters `transpiration` reads -/
structure TrCrop (α : Type) where
  maxCanopyCD : α
  kcb : α
  fage : α
  aTr : α
  /-- `Crop.TrColdStress`: `0`, `1`, anything else (→ `KsCold` unbound) -/
  trColdStress : Nat
  gddUp : α
  gddLo : α
  lagAer : α
  zMin : α
  aer : α
  pUp : Fin 4 → α
  pLo : Fin 4 → α
  fshW : Fin 4 → α
  /-- `Crop.ETadj == 1` -/
  etAdj : Bool
  beta : α
  sxTop : α
  sxBot : α

/-- the `NewCond` scalars `transpiration` reads and/or writes (`th`, `aer_days_comp` live in the
cells).  Written: `ageDaysNS ageDays daySubmerged pond aerDays depletion taw irrNetCum cc trRatio
tPot`. -/
structure TrState (α : Type) where
  dap : α
  delayedCds : α
  ageDaysNS : α
  ageDays : α
  ccxWNS : α
  ccxW : α
  ccAdjNS : α
  ccNS : α
  ccAdj : α
  cc : α
  ccPrev : α
  /-- `surface_storage` -/
  pond : α
  daySubmerged : α
  zRoot : α
  tEarlySen : α
  aerDays : α
  rCor : α
  irrNetCum : α
  trRatio : α
  tPot : α
  depletion : α
  taw : α

structure TrOut (α : Type) where
  trAct : α
  trPotNS : α
  trPot0 : α
  irrNet : α
  cells : List (Cell α)
  st : TrState α
  /-- ghost: transpiration taken from the ponded water (`TrAct0`) -/
  trAct0 : α
  /-- ghost: potential root-zone transpiration handed to the extraction loop (`TrPot`) -/
  trPotRz : α
  /-- ghost: `comp_sto` -/
  compSto : Nat

/-! ### 1. potential transpiration -/

/-- crop coefficient with canopy ageing -/
def trKcbAged (kcb fage age ccxw : α) : α :=
  if 5 < age then kcb - ((age - 5) * (fage / 100)) * ccxw else kcb

/-- CO2 correction of the crop coefficient; `none` = `ZeroDivisionError` -/
def trCo2Adj (k cur ref : α) : Option α :=
  if ref < cur then
    if 550 - ref ≤ 0 ∧ 0 ≤ 550 - ref then none
    else some (k * (1 - 0.05 * ((cur - ref) / (550 - ref))))
  else some k

/-- correction for the dying green canopy -/
def trDyingAdj (F : Fn α) (tr cc ccxw aTr : α) : α :=
  if cc < ccxw then
    if 0.001 < ccxw ∧ 0.001 < cc then tr * (F.pow (cc / ccxw) aTr) else tr
  else tr

/-- cold-stress coefficient; `none` = `KsCold` unbound -/
def trKsCold (F : Fn α) (trColdStress : Nat) (gddUp gddLo gdd : α) : Option α :=
  match trColdStress with
  | 0 => some 1
  | 1 =>
    if gddUp ≤ gdd then some 1
    else if gdd ≤ gddLo then some 0
    else
      let fshapeb := (-1) * (F.log (((0.02 * 1) - 0.98 * 0.02) / (0.98 * (1 - 0.02))))
      let gddRel := (gdd - gddLo) / (gddUp - gddLo)
      let k := (1 * 0.02) / (0.02 + (1 - 0.02) * F.exp (-fshapeb * gddRel))
      some (k - 0.02 * (1 - gddRel))
  | _ => none

structure TrPotR (α : Type) where
  ageNS : α
  age : α
  trPotNS : α
  trPot0 : α

/-- steps 1–3 of the growing-season branch -/
def trPotential (F : Fn α) (crop : TrCrop α) (st : TrState α) (et0 cur ref gdd : α) :
    Except String (TrPotR α) :=
  let dapAdj := st.dap - st.delayedCds
  let ageNS := if crop.maxCanopyCD < dapAdj then dapAdj - crop.maxCanopyCD else st.ageDaysNS
  match trCo2Adj (trKcbAged crop.kcb crop.fage ageNS st.ccxWNS) cur ref with
  | none => .error "E:zerodiv"
  | some kcbNS =>
    let trNS := trDyingAdj F (kcbNS * st.ccAdjNS * et0) st.ccNS st.ccxWNS crop.aTr
    let age := if crop.maxCanopyCD < dapAdj then dapAdj - crop.maxCanopyCD else st.ageDays
    match trCo2Adj (trKcbAged crop.kcb crop.fage age st.ccxW) cur ref with
    | none => .error "E:zerodiv"
    | some kcb =>
      let tr0 := trDyingAdj F (kcb * st.ccAdj * et0) st.cc st.ccxW crop.aTr
      match trKsCold F crop.trColdStress crop.gddUp crop.gddLo gdd with
      | none => .error "E:unbound"
      | some kc => .ok { ageNS := ageNS, age := age, trPotNS := trNS * kc, trPot0 := tr0 * kc }

/-! ### 2. uptake from ponded water -/

/-- `for ii in range(nComp): aer_days_comp[ii] = min(aer_days_comp[ii] + 1, LagAer)`;
`none` = `IndexError` (`nComp > len`). -/
def trIncAer (lagAer : α) : Nat → List (Cell α) → Option (List (Cell α))
  | 0, cs => some cs
  | _+1, [] => none
  | n+1, x :: xs =>
    let a := x.aer + 1
    match trIncAer lagAer n xs with
    | none => none
    | some r => some ({ x with aer := if lagAer < a then lagAer else a } :: r)

structure TrSurfR (α : Type) where
  cells : List (Cell α)
  pond : α
  daySub : α
  trAct0 : α
  trPot : α

def trSurface (lagAer : α) (nComp : Nat) (cells : List (Cell α)) (pond daySub trPot0 : α) :
    Except String (TrSurfR α) :=
  if 0 < pond ∧ daySub < lagAer then
    let daySub' := daySub + 1
    match trIncAer lagAer nComp cells with
    | none => .error "E:index"
    | some cells' =>
      if lagAer ≤ 0 ∧ 0 ≤ lagAer then .error "E:zerodiv" else
      let fSub := 1 - (daySub' / lagAer)
      let pond' := if fSub * trPot0 < pond then pond - (fSub * trPot0) else pond
      let trAct0 := if fSub * trPot0 < pond then fSub * trPot0 else 0
      let trPot := if trAct0 < fSub * trPot0 then (fSub * trPot0) - trAct0 else 0
      .ok { cells := cells', pond := pond', daySub := daySub', trAct0 := trAct0, trPot := trPot }
  else .ok { cells := cells, pond := pond, daySub := daySub, trAct0 := 0, trPot := trPot0 }

/-! ### 3. per-compartment quantities -/

/-- `RootFact[ii]` -/
def trRootFact (rootdepth : α) (x : Cell α) : α :=
  if rootdepth < x.c.dzsum then 1 - ((x.c.dzsum - rootdepth) / x.c.dz) else 1

/-- `SxCompBot` after visiting compartment `x` (irrigation method ≠ 4) -/
def trSxBotOf (sxTop sxBot rCor rootdepth : α) (x : Cell α) : α :=
  if x.c.dzsum ≤ rootdepth then
    sxBot * rCor + ((sxTop - sxBot * rCor) * ((rootdepth - x.c.dzsum) / rootdepth))
  else sxBot * rCor

/-- stomatal stress factor `KsComp` of one compartment -/
def trKsComp (F : Fn α) (pUp1 pLo1 fsh1 pUpSto : α) (x : Cell α) : α :=
  let thTAW := x.c.thFC - x.c.thWP
  let thCrit := x.c.thFC - (thTAW * pUpSto)
  if thCrit ≤ x.th then 1
  else if x.c.thWP < x.th then
    let wrel := (x.c.thFC - x.th) / (x.c.thFC - x.c.thWP)
    let pRel := (wrel - pUp1) / (pLo1 - pUp1)
    let k := if pRel ≤ 0 then 1 else if 1 ≤ pRel then 0
             else 1 - ((F.exp (pRel * fsh1) - 1) / (F.exp fsh1 - 1))
    if 1 < k then 1 else if k < 0 then 0 else k
  else 0

/-- aeration factor `AerComp` of one compartment and its updated `aer_days_comp` -/
def trAerComp (lagAer aer daySub : α) (x : Cell α) : α × α :=
  if lagAer ≤ daySub then (0, x.aer)
  else if x.c.thS - (aer / 100) < x.th then
    let a1 := x.aer + 1
    let a2 := if lagAer ≤ a1 then lagAer else a1
    let fAer : α := if lagAer ≤ a1 then 0 else 1
    let ac := (x.c.thS - x.th) / (x.c.thS - (x.c.thS - (aer / 100)))
    let ac := if ac < 0 then 0 else ac
    ((fAer + (a2 - 1) * ac) / (fAer + a2 - 1), a2)
  else (1, 0)

/-- the final `Sink` of one compartment: stress-reduced maximum sink, limited to the demand and
to the air-dry water content -/
def trSink (stress sx rf toExtract : α) (x : Cell α) : α :=
  let thToExtract := (toExtract / 1000) / x.c.dz
  let sink := stress * sx * rf
  let sink := if thToExtract < sink then thToExtract else sink
  if (x.th - sink) < x.c.thDry then
    let s := x.th - x.c.thDry
    if s < 0 then 0 else s
  else sink

/-- parameters of the extraction loop that do not change between compartments -/
structure TrLoopP (α : Type) where
  net : Bool          -- IrrMethod == 4
  rootdepth : α
  sxTop : α
  sxBot : α
  rCor : α
  pUp1 : α
  pLo1 : α
  fsh1 : α
  pUpSto : α
  lagAer : α
  aer : α
  daySub : α

/-- `while (ToExtract > 0) and (comp < comp_sto - 1)`; `n` = compartments of the root zone not
yet visited, `sxPrev` = `SxCompBot` of the previous compartment.  Returns the cells, `TrAct`. -/
def trExtractLoop (F : Fn α) (p : TrLoopP α) :
    Nat → List (Cell α) → (toExtract trAct sxPrev : α) → List (Cell α) × α
  | 0, cs, _, trAct, _ => (cs, trAct)
  | _+1, [], _, trAct, _ => ([], trAct)
  | n+1, x :: xs, toExtract, trAct, sxPrev =>
    if 0 < toExtract then
      let sxB := trSxBotOf p.sxTop p.sxBot p.rCor p.rootdepth x
      let sx := if p.net then (p.sxTop + p.sxBot) / 2 else (sxPrev + sxB) / 2
      let ks := trKsComp F p.pUp1 p.pLo1 p.fsh1 p.pUpSto x
      let ac := trAerComp p.lagAer p.aer p.daySub x
      let stress := if p.net then ac.1 else pmin ks ac.1
      let sink := trSink stress sx (trRootFact p.rootdepth x) toExtract x
      let r := trExtractLoop F p n xs (toExtract - (sink * 1000 * x.c.dz))
                 (trAct + (sink * 1000 * x.c.dz)) sxB
      ({ x with th := x.th - sink, aer := ac.2 } :: r.1, r.2)
    else (x :: xs, trAct)

/-- net-irrigation refill `for ii in range(comp_sto)`; returns the cells and `IrrNet` -/
def trNetIrrLoop (smt rootdepth : α) :
    Nat → List (Cell α) → (prelayer : Nat) → (thCrit irrNet : α) → List (Cell α) × α
  | 0, cs, _, _, irrNet => (cs, irrNet)
  | _+1, [], _, _, irrNet => ([], irrNet)
  | n+1, x :: xs, prelayer, thCrit, irrNet =>
    let thCrit' := if prelayer < x.c.layer then
                     x.c.thWP + ((smt / 100) * (x.c.thFC - x.c.thWP)) else thCrit
    let prelayer' := if prelayer < x.c.layer then x.c.layer else prelayer
    let dWC := trRootFact rootdepth x * (thCrit' - x.th) * 1000 * x.c.dz
    let r := trNetIrrLoop smt rootdepth n xs prelayer' thCrit' (irrNet + dWC)
    ({ x with th := x.th + (dWC / (1000 * x.c.dz)) } :: r.1, r.2)

structure TrNetR (α : Type) where
  cells : List (Cell α)
  irrNet : α
  irrNetCum : α
  depletion : α
  taw : α

/-- the `## Add net irrigation water requirement` block -/
def trNetIrr (F : Fn α) (crop : TrCrop α) (irrMethod : Nat) (smt zTop rootdepth : α)
    (compSto : Nat) (cells : List (Cell α)) (st : TrState α) (trPot : α) :
    Except String (TrNetR α) :=
  if irrMethod = 4 ∧ 0 < trPot then
    match rootZoneWater F cells st.zRoot zTop crop.zMin crop.aer with
    | none => .error "E:index"
    | some rz =>
      let thCrit := rz.thWP + ((smt / 100) * (rz.thFC - rz.thWP))
      let r := if rz.thAct < thCrit then trNetIrrLoop smt rootdepth compSto cells 0 thCrit 0
               else (cells, 0)
      .ok { cells := r.1, irrNet := r.2, irrNetCum := st.irrNetCum + r.2,
            depletion := rz.drRz, taw := rz.tawRz }
  else if irrMethod = 4 ∧ trPot ≤ 0 then
    .ok { cells := cells, irrNet := 0, irrNetCum := st.irrNetCum,
          depletion := st.depletion, taw := st.taw }
  else
    .ok { cells := cells, irrNet := 0, irrNetCum := 0, depletion := st.depletion, taw := st.taw }

/-- `Ks` and the new `aer_days` from the root-zone state -/
def trKs (F : Fn α) (crop : TrCrop α) (rz : RZ α) (tEarlySen aerDays et0 : α) : α × α :=
  let useRz : Bool := decide ((rz.drRz / rz.tawRz) ≤ (rz.drZt / rz.tawZt))
  let dr := if useRz then rz.drRz else rz.drZt
  let taw := if useRz then rz.tawRz else rz.tawZt
  let ksw := waterStress F crop.pUp crop.pLo crop.fshW crop.etAdj crop.beta tEarlySen dr taw et0 true
  let a := aerationStress aerDays crop.lagAer rz.thAct rz.thS rz.thAer
  (pmin ksw.stoLin a.1, a.2)

/-- canopy feedback, transpiration ratio -/
def trRatioOf (trAct trPot0 : α) : α :=
  let r := if 0 < trPot0 then (if trAct < trPot0 then trAct / trPot0 else 1) else 1
  if r < 0 then 0 else if 1 < r then 1 else r

/-- `rootdepth = round(max(float(z_root), float(Zmin)), 2)` (Python floats) -/
def trRootdepth (F : Fn α) (crop : TrCrop α) (st : TrState α) : α :=
  F.pyRound2 (pmax st.zRoot crop.zMin)

/-- `comp_sto = min(np.sum(dzsum < rootdepth) + 1, int(nComp))` -/
def trCompSto (rootdepth : α) (cells : List (Cell α)) (nComp : Nat) : Nat :=
  min (countBelow rootdepth cells + 1) nComp

/-- `TrPot` handed to the extraction loop: `Ks` applies unless in net-irrigation mode -/
def trPotRzOf (irrMethod : Nat) (trPot ks : α) : α :=
  if irrMethod ≠ 4 then trPot * ks else trPot

def trLoopPOf (F : Fn α) (crop : TrCrop α) (irrMethod : Nat) (st : TrState α) (et0 daySub : α) :
    TrLoopP α :=
  { net := decide (irrMethod = 4), rootdepth := trRootdepth F crop st, sxTop := crop.sxTop,
    sxBot := crop.sxBot, rCor := st.rCor, pUp1 := crop.pUp 1, pLo1 := crop.pLo 1,
    fsh1 := crop.fshW 1,
    pUpSto := if crop.etAdj then etAdjust F (crop.pUp 1) et0 else crop.pUp 1,
    lagAer := crop.lagAer,
    aer := crop.aer, daySub := daySub }

/-- final bookkeeping: total transpiration, canopy feedback, transpiration ratio, state -/
def trFinish (st : TrState α) (pot : TrPotR α) (sf : TrSurfR α) (aerDays' : α) (ni : TrNetR α)
    (trActRz trPot : α) (compSto : Nat) : TrOut α :=
  let trAct := trActRz + sf.trAct0
  let cc' := if 0.005 < (st.cc - st.ccPrev) ∧ (trAct ≤ 0 ∧ 0 ≤ trAct) then st.ccPrev else st.cc
  { trAct := trAct, trPotNS := pot.trPotNS, trPot0 := pot.trPot0, irrNet := ni.irrNet,
    cells := ni.cells,
    st := { st with ageDaysNS := pot.ageNS, ageDays := pot.age,
                    daySubmerged := sf.daySub, pond := sf.pond, aerDays := aerDays',
                    depletion := ni.depletion, taw := ni.taw,
                    irrNetCum := ni.irrNetCum, cc := cc',
                    trRatio := trRatioOf trAct pot.trPot0, tPot := pot.trPot0 },
    trAct0 := sf.trAct0, trPotRz := trPot, compSto := compSto }

/-- the growing-season branch after potential transpiration, ponded uptake and the first
`root_zone_water` call succeeded -/
def trCore (F : Fn α) (nComp : Nat) (zTop : α) (crop : TrCrop α) (irrMethod : Nat) (smt : α)
    (st : TrState α) (et0 : α) (pot : TrPotR α) (sf : TrSurfR α) (rz : RZ α) :
    Except String (TrOut α) :=
  let k := trKs F crop rz st.tEarlySen st.aerDays et0
  let trPot := trPotRzOf irrMethod sf.trPot k.1
  let rootdepth := trRootdepth F crop st
  let compSto := trCompSto rootdepth sf.cells nComp
  if sf.cells.length < compSto then .error "E:index" else
  let ex := trExtractLoop F (trLoopPOf F crop irrMethod st et0 sf.daySub) compSto sf.cells trPot 0
              crop.sxTop
  match trNetIrr F crop irrMethod smt zTop rootdepth compSto ex.1 st trPot with
  | .error e => .error e
  | .ok ni => .ok (trFinish st pot sf k.2 ni ex.2 trPot compSto)

/-- `transpiration(Soil_Profile, nComp, zTop, Crop, IrrMethod, NetIrrSMT, InitCond, et0, CO2,
growing_season, gdd)`; `cells` carry `th` and `aer_days_comp`. -/
def transpiration (F : Fn α) (cells : List (Cell α)) (nComp : Nat) (zTop : α) (crop : TrCrop α)
    (irrMethod : Nat) (smt : α) (st : TrState α) (et0 cur ref : α) (gs : Bool) (gdd : α) :
    Except String (TrOut α) :=
  if gs then
    match trPotential F crop st et0 cur ref gdd with
    | .error e => .error e
    | .ok pot =>
    match trSurface crop.lagAer nComp cells st.pond st.daySubmerged pot.trPot0 with
    | .error e => .error e
    | .ok sf =>
    match rootZoneWater F sf.cells st.zRoot zTop crop.zMin crop.aer with
    | none => .error "E:index"
    | some rz => trCore F nComp zTop crop irrMethod smt st et0 pot sf rz
  else
    .ok { trAct := 0, trPotNS := 0, trPot0 := 0, irrNet := 0, cells := cells,
          st := { st with irrNetCum := 0, tPot := 0 },
          trAct0 := 0, trPotRz := 0, compSto := 0 }

end
end Aqua
