import AquaVerif.Model.Num
/-
Model of `aquacrop/solution/HIref_current_day.py`: reference (stress-free) harvest index of the
current day, the yield-formation flag and the percentage of the lag phase.

Day counts (`dap`, `delayed_cds`, `HIstartCD`, `tLinSwitch`, `YldFormCD`, …) are Python ints or
floats depending on the calendar type; every arithmetic operation and comparison the code applies
to them is exact in binary64 for |n| < 2^53, so they are modelled as values of the number type `α`
(the driver receives them as floats).

Behaviour mirrored although it looks wrong:
* the "inadequate photosynthesis" block assigns the *local* `NewCond_HIfinal`, which the function
  does not return (the fourth return value is commented out, and so is the receiving variable at
  the call site) — the model returns it as the ghost output `hiFinal`;
* a `CropType` other than 1, 2, 3 leaves `hi_ref` / `pct_lag_phase` at their previous values
  (then limited like a computed value).
-/

namespace Aqua
section
variable {α : Type} [Add α] [Sub α] [Mul α] [Div α] [Neg α] [LT α] [LE α]
  [DecidableLT α] [DecidableLE α] [OfScientific α] [OfNat α 0] [OfNat α 1] [OfNat α 100]

/-- the harvest-index parameters of a crop that `HIref_current_day`, `harvest_index` and the
`HIadj_*` helpers read (exactly these; the water/temperature-stress parameters `harvest_index`
passes on to `root_zone_water`, `water_stress`, `temperature_stress` are in `HiStressCrop`). -/
structure HiCrop (α : Type) where
  cropType : Nat      -- CropType
  hiStartCD : α       -- HIstartCD
  hiEndCD : α         -- HIendCD
  yldFormCD : α       -- YldFormCD
  floweringCD : α     -- FloweringCD
  canopyDevEndCD : α  -- CanopyDevEndCD
  hi0 : α             -- HI0
  hiIni : α           -- HIini
  hiGC : α            -- HIGC
  tLinSwitch : α      -- tLinSwitch
  dHILinear : α       -- dHILinear
  dHIpre : α          -- dHI_pre
  aHI : α             -- a_HI
  bHI : α             -- b_HI
  dHI0 : α            -- dHI0
  exc : α             -- exc
  ccMin : α           -- CCmin

/-- the arguments of `HIref_current_day` taken from `NewCond` (`cc_prev` is passed but never
read, it is not part of the model). -/
structure HiRefIn (α : Type) where
  hiRef : α          -- NewCond.hi_ref
  hiFinal : α        -- NewCond.HIfinal
  dap : α            -- NewCond.dap
  delayedCDs : α     -- NewCond.delayed_cds
  yieldForm : Bool   -- NewCond.yield_form
  pctLagPhase : α    -- NewCond.pct_lag_phase
  cc : α             -- NewCond.canopy_cover
  ccxW : α           -- NewCond.ccx_w

structure HiRefOut (α : Type) where
  hiRef : α
  yieldForm : Bool
  pctLagPhase : α
  /-- ghost: the local `NewCond_HIfinal` at the end of the call (Python drops it). -/
  hiFinal : α

/-- `(HIini * HI0) / (HIini + (HI0 - HIini) * np.exp(-HIGC * t))` -/
def hiLogistic (F : Fn α) (hiIni hi0 hiGC t : α) : α :=
  (hiIni * hi0) / (hiIni + (hi0 - hiIni) * F.exp ((-hiGC) * t))

/-- the crop-type block: `(hi_ref, pct_lag_phase)` before limiting, for `HIt > 0`.
`old` are the incoming values (kept by an unknown crop type). -/
def hiRefRaw (F : Fn α) (c : HiCrop α) (hit : α) (old : α × α) : α × α :=
  if c.cropType = 1 ∨ c.cropType = 2 then
    let h := hiLogistic F c.hiIni c.hi0 c.hiGC hit
    (if 0.9799 * c.hi0 ≤ h then c.hi0 else h, 100)
  else if c.cropType = 3 then
    if hit < c.tLinSwitch then
      (hiLogistic F c.hiIni c.hi0 c.hiGC hit, 100 * (hit / c.tLinSwitch))
    else
      let h := hiLogistic F c.hiIni c.hi0 c.hiGC c.tLinSwitch
      (h + (c.dHILinear * (hit - c.tLinSwitch)), 100)
  else old

/-- "Limit hi_ref and round off computed value" -/
def hiRefLimit (c : HiCrop α) (h : α) : α :=
  if c.hi0 < h then c.hi0
  else if h ≤ c.hiIni + 0.004 then 0
  else if c.hi0 - h < 0.004 then c.hi0
  else h

/-- condition of the "inadequate photosynthesis" block -/
def hiFinalAdjCond (c : HiCrop α) (hiFinal hit cc ccxW : α) : Prop :=
  (hiFinal ≤ c.hi0 ∧ c.hi0 ≤ hiFinal) ∧ hit ≤ c.yldFormCD ∧ cc ≤ 0.05 ∧ 0 < ccxW ∧ cc < ccxW ∧
    (c.cropType = 2 ∨ c.cropType = 3)

instance (c : HiCrop α) (hiFinal hit cc ccxW : α) : Decidable (hiFinalAdjCond c hiFinal hit cc ccxW) := by
  unfold hiFinalAdjCond; exact inferInstance

/-- `HIt = dap - delayed_cds - HIstartCD - 1` -/
def hiTime (c : HiCrop α) (dap delayedCDs : α) : α := dap - delayedCDs - c.hiStartCD - 1

/-- `HIref_current_day(hi_ref, HIfinal, dap, delayed_cds, yield_form, pct_lag_phase,
canopy_cover, cc_prev, ccx_w, Crop, growing_season)` -/
def hiRefCurrentDay (F : Fn α) (c : HiCrop α) (s : HiRefIn α) (gs : Bool) : HiRefOut α :=
  if gs then
    let tAdj := s.dap - s.delayedCDs
    let yf : Bool := decide (c.hiStartCD < tAdj)
    let hit := hiTime c s.dap s.delayedCDs
    if hit ≤ 0 then
      { hiRef := 0, yieldForm := yf, pctLagPhase := 0, hiFinal := s.hiFinal }
    else
      let (h, lag) := hiRefRaw F c hit (s.hiRef, s.pctLagPhase)
      let h := hiRefLimit c h
      let hf := if hiFinalAdjCond c s.hiFinal hit s.cc s.ccxW then h else s.hiFinal
      let h := if hf < h then hf else h
      { hiRef := h, yieldForm := yf, pctLagPhase := lag, hiFinal := hf }
  else
    { hiRef := 0, yieldForm := s.yieldForm, pctLagPhase := s.pctLagPhase, hiFinal := s.hiFinal }

end
end Aqua
