import AquaVerif.Model.GroundwaterTable
import AquaVerif.Model.PreIrrigation
import AquaVerif.Model.Drainage
import AquaVerif.Model.RainPartition
import AquaVerif.Model.Irrigation
import AquaVerif.Model.Infiltration
import AquaVerif.Model.CapillaryRise
import AquaVerif.Model.SoilEvaporation
import AquaVerif.Model.Transpiration
import AquaVerif.Model.GroundwaterInflow
/-
The **water part of one simulated day**: the process models composed in the order and with the
data flow of `aquacrop/timestep/run_single_timestep.py` (`solution_single_time_step`):

   1  check_groundwater_table   th_fc_Adj, wt_in_soil, z_gw
   3  pre_irrigation            th, PreIrr
   4  drainage                  th, DeepPerc, FluxOut
   5  rainfall_partition        Runoff, Infl, day_submerged
   6  irrigation                depletion, taw, irr_cum, Irr            (reads Runoff of 5)
   7  infiltration              th, surface_storage, DeepPerc, Runoff, Infl, FluxOut
                                (reads Infl, Runoff of 5; Irr of 6; DeepPerc, FluxOut of 4)
   8  capillary_rise            th, CR                                  (reads FluxOut of 7)
  12  soil_evaporation          e_pot, th, stage2, w_stage_2, w_surf, surface_storage, evap_z,
                                Es, EsPot                               (reads Infl of 7, Irr of 6)
  13  transpiration             Tr, TrPot_NS, TrPot, NewCond, IrrNet
  14  groundwater_inflow        th, GwIn
  20  root_zone_water           Wr (row only)
  21  IrrNet := IrrNet + PreIrr; the `water_flux` row

NOT modelled: the time counters at the top of the function, step 2 (root development), steps 9–11
(germination, growth stage, canopy cover) and steps 15–19 (the crop part).  Everything those steps
produce and a water process reads enters `waterDay` as the explicit argument `CropDay α`: every
statement about `waterDay` is for **all** values of it.  (Steps 9–11 run between capillary rise and
soil evaporation and read the water contents of that moment; they write none of the quantities the
water processes write.)

Which management sets apply (`FieldMngt` vs. `FallowFieldMngt`, `IrrMngt` vs. `FallowIrrMngt`, the
crop vs. the fallow filler crop with `Aer = 5`, `Zmin = 0.3`) is the caller's choice: they are
arguments.

Errors: a process that raises makes the day raise; the reply names the Python exception kind
(`E:unbound`, `E:index`, `E:assert`, `E:zerodiv`, `E:rz` = `root_zone_water` raised inside
`irrigation`).
-/

namespace Aqua

/-- the `FieldMngt` fields the water processes read -/
structure FieldMngt (α : Type) where
  srInhb : Bool         -- sr_inhb
  bunds : Bool
  zBund : α
  cnAdj : Bool          -- curve_number_adj
  cnAdjPct : α          -- curve_number_adj_pct
  mulches : Bool
  fMulch : α
  mulchPct : α

/-- soil-level (not per-compartment) parameters -/
structure SoilW (α : Type) where
  cn : α
  adjCN : Bool
  zCN : α
  nComp : Nat
  nLayer : Nat
  fshapeCR : α
  zTop : α
  evapZMin : α
  evapZMax : α
  rew : α
  kex : α
  fwcc : α
  fWrelExp : α
  fevap : α

/-- crop parameters the water processes read (`tr.zMin`, `tr.aer` are `Crop.Zmin`, `Crop.Aer`) -/
structure CropW (α : Type) where
  tr : TrCrop α
  calendarType : Nat
  senescence : α

/-- everything constant over the day that is not per-compartment -/
structure WaterParams (α : Type) where
  /-- `param_struct.water_table` -/
  waterTable : Nat
  soil : SoilW α
  crop : CropW α
  /-- `IrrMngt`: method, SMT, AppEff, MaxIrr, IrrInterval, depth, MaxIrrSeason … -/
  irr : IrrParams α
  netIrrSMT : α
  wetSurf : α
  /-- `clock_struct.evap_time_steps`, `.sim_off_season` -/
  evapTimeSteps : Nat
  simOffSeason : Bool
  /-- `CO2.current_concentration`, `CO2.ref_concentration` -/
  co2Cur : α
  co2Ref : α

/-- the day's forcing and calendar position -/
structure DayIn (α : Type) where
  /-- `growing_season` -/
  gs : Bool
  /-- `clock_struct.time_step_counter` -/
  tsc : Nat
  rain : α
  et0 : α
  /-- `GroundWater`: `param_struct.z_gw[time_step_counter]` with a water table, else `0` -/
  zGW : α
  /-- `IrrMngt.Schedule[time_step_counter]` (`none`: out of range) -/
  sched : Option α

/-- what the unmodelled steps (time counters, root development, germination, growth stage,
canopy cover) hand to the water processes -/
structure CropDay (α : Type) where
  dap : Nat
  gdd : α
  gddCum : α
  zRoot : α
  /-- `max(z_root, Zmin)` is a numpy scalar (see `Model/PreIrrigation.lean`) -/
  zRootNp : Bool
  rCor : α
  /-- `NewCond.growth_stage` as `irrigation` reads it (step 10 runs later) -/
  growthStage : Nat
  delayedCds : α
  delayedGdds : α
  ccxW : α
  ccAdj : α
  ccxAct : α
  cc : α
  prematSenes : Bool
  ccxWNS : α
  ccAdjNS : α
  ccNS : α
  ccPrev : α
  tEarlySen : α

/-- the persistent `NewCond` scalars the water processes read and write
(`th`, `th_fc_Adj`, `aer_days_comp` travel in the cells) -/
structure DayState (α : Type) where
  pond : α              -- surface_storage
  daySubmerged : Nat
  irrCum : α
  ePot : α
  tPot : α
  wSurf : α
  evapZ : α
  stage2 : Bool
  wStage2 : α
  ageDaysNS : α
  ageDays : α
  aerDays : α
  irrNetCum : α
  trRatio : α

structure DayOut (α : Type) where
  /-- final `th`, `th_fc_Adj`, `aer_days_comp` (and the day's `FluxOut`) -/
  cells : List (Cell α)
  /-- final `surface_storage` (also a row field) -/
  pond : α
  -- the `water_flux` row
  wr : α
  zGW : α
  irrDay : α
  infl : α
  runoff : α
  deepPerc : α
  cr : α
  gwIn : α
  es : α
  esPot : α
  tr : α
  trPot : α
  -- ghosts
  /-- `Irr` of step 6 -/
  irr : α
  /-- `PreIrr` of step 3 -/
  preIrr : α
  /-- `IrrNet` of step 13 (the row reports `irrNet + preIrr` in net-irrigation mode) -/
  irrNet : α
  /-- water really added by capillary rise, and the thickness of the compartments filled -/
  crAdded : α
  dzFill : α
  /-- water the code drops in drainage / infiltration -/
  drainLost : α
  inflLost : α
  /-- effective curve number used by step 5 (`0` when the split is bypassed) -/
  cn : α
  wtInSoil : Bool
  /-- the profile right after step 8 (capillary rise) -/
  crCells : List (Cell α)
  /-- `comp_sto` of transpiration -/
  compSto : Nat
  -- state for the next day
  /-- scalars written by transpiration (`day_submerged`, `aer_days`, `irr_net_cum`, `tr_ratio`,
  `t_pot`, `depletion`, `taw`, canopy feedback …) -/
  trSt : TrState α
  irrCum : α
  ePot : α
  wSurf : α
  evapZ : α
  stage2 : Bool
  wStage2 : α
  trPotNS : α

/-- the outputs of the individual processes of one day -/
structure DayTrace (α : Type) where
  g : GwtOut α
  p : List (Cell α) × α
  d : DrainOut α
  r : RainOut α
  i : IrrOut α
  f : InfOut α
  c : CROut α
  e : EvapOut α
  t : TrOut α
  w : List (Cell α) × α
  rz : RZ α

def optErr {β : Type} (msg : String) : Option β → Except String β
  | none => .error msg
  | some b => .ok b

def irrErrStr : IrrErr → String
  | .rootZone => "E:rz"
  | .index => "E:index"
  | .assert => "E:assert"
  | .zerodiv => "E:zerodiv"
  | .unbound => "E:unbound"

def crErrStr : CRErr → String
  | .index => "E:index"
  | .assert => "E:assert"
  | .unbound => "E:unbound"

def mapErr {ε β : Type} (f : ε → String) : Except ε β → Except String β
  | .error e => .error (f e)
  | .ok b => .ok b

section
variable {α : Type} [Add α] [Sub α] [Mul α] [Div α] [Neg α] [LT α] [LE α]
  [DecidableLT α] [DecidableLE α] [OfScientific α] [OfNat α 0] [OfNat α 1] [OfNat α 2] [OfNat α 3]
  [OfNat α 4] [OfNat α 5] [OfNat α 9] [OfNat α 10] [OfNat α 14] [OfNat α 99] [OfNat α 100]
  [OfNat α 254] [OfNat α 550] [OfNat α 1000] [OfNat α 25400]

/-- the argument list of `soil_evaporation` as the day assembles it -/
def dayEvapParams (W : WaterParams α) (fm : FieldMngt α) : EvapParams α :=
  { steps := W.evapTimeSteps, simOffSeason := W.simOffSeason, zMin := W.soil.evapZMin,
    zMax := W.soil.evapZMax, rew := W.soil.rew, kex := W.soil.kex, fwcc := W.soil.fwcc,
    fWrelExp := W.soil.fWrelExp, fevap := W.soil.fevap, calendarType := W.crop.calendarType,
    senescence := W.crop.senescence, irrMethod := W.irr.method, wetSurf := W.wetSurf,
    mulches := fm.mulches, fMulch := fm.fMulch, mulchPct := fm.mulchPct }

def dayEvapState (C : CropDay α) (S : DayState α) (pond : α) : EvapState α :=
  { dap := natNum C.dap, wSurf := S.wSurf, evapZ := S.evapZ, stage2 := S.stage2,
    delayedCDs := C.delayedCds, gddCum := C.gddCum, delayedGDDs := C.delayedGdds, ccxW := C.ccxW,
    ccAdj := C.ccAdj, ccxAct := C.ccxAct, cc := C.cc, prematSenes := C.prematSenes, pond := pond,
    wStage2 := S.wStage2, epot := S.ePot }

def dayEvapDay (D : DayIn α) (infl irr : α) : EvapDay α :=
  { tsc := D.tsc, et0 := D.et0, infl := infl, rain := D.rain, irr := irr, growingSeason := D.gs }

/-- `NewCond` as `transpiration` finds it -/
def dayTrState (C : CropDay α) (S : DayState α) (pond : α) (daySub : Nat) (depletion taw : α) :
    TrState α :=
  { dap := natNum C.dap, delayedCds := C.delayedCds, ageDaysNS := S.ageDaysNS, ageDays := S.ageDays,
    ccxWNS := C.ccxWNS, ccxW := C.ccxW, ccAdjNS := C.ccAdjNS, ccNS := C.ccNS, ccAdj := C.ccAdj,
    cc := C.cc, ccPrev := C.ccPrev, pond := pond, daySubmerged := natNum daySub, zRoot := C.zRoot,
    tEarlySen := C.tEarlySen, aerDays := S.aerDays, rCor := C.rCor, irrNetCum := S.irrNetCum,
    trRatio := S.trRatio, tPot := S.tPot, depletion := depletion, taw := taw }

/-- steps 3–8, 12–14 and 20 in order, given the result `g` of step 1; every process output is
kept -/
def waterDayRest (F : Fn α) (W : WaterParams α) (fm : FieldMngt α) (C : CropDay α)
    (S : DayState α) (D : DayIn α) (g : GwtOut α) : Except String (DayTrace α) := do
  -- 3. pre-irrigation
  let p ← optErr "E:index" (preIrrigationT F C.zRootNp g.cells D.gs W.irr.method (Int.ofNat C.dap)
            C.zRoot W.crop.tr.zMin W.netIrrSMT)
  -- 4. drainage
  let d := drainage F p.1
  -- 5. surface runoff
  let r ← optErr "E:index" (rainPartition F D.rain d.cells S.daySubmerged fm.srInhb fm.bunds
            fm.zBund (if fm.cnAdj then fm.cnAdjPct else 0) W.soil.cn W.soil.adjCN W.soil.zCN)
  -- 6. irrigation
  let i ← mapErr irrErrStr (irrigation F W.irr d.cells C.growthStage S.irrCum S.ePot S.tPot C.zRoot
            C.dap D.sched W.crop.tr.zMin W.crop.tr.aer W.soil.zTop D.gs D.rain r.runoff)
  -- 7. infiltration
  let f ← infiltration F d.cells S.pond r.infl i.irr W.irr.appEff fm.bunds fm.zBund d.deepPerc
            r.runoff D.gs
  -- 8. capillary rise
  let c ← mapErr crErrStr (capillaryRise F f.cells W.soil.nLayer W.soil.fshapeCR g.zGW W.waterTable)
  -- 12. soil evaporation
  let e ← soilEvaporation F (dayEvapParams W fm) (dayEvapState C S f.pond) c.cells
            (dayEvapDay D f.infl i.irr)
  -- 13. crop transpiration
  let t ← transpiration F e.cells W.soil.nComp W.soil.zTop W.crop.tr W.irr.method W.netIrrSMT
            (dayTrState C S e.pond r.daySub i.depletion i.taw) D.et0 W.co2Cur W.co2Ref D.gs C.gdd
  -- 14. groundwater inflow
  let w ← optErr "E:index" (groundwaterInflow t.cells g.wtInSoil g.zGW)
  -- 20. root zone water
  let rz ← optErr "E:index" (rootZoneWater F w.1 C.zRoot W.soil.zTop W.crop.tr.zMin W.crop.tr.aer)
  pure { g := g, p := p, d := d, r := r, i := i, f := f, c := c, e := e, t := t, w := w, rz := rz }

/-- step 1 (check for the groundwater table), then the rest -/
def waterDayTrace (F : Fn α) (W : WaterParams α) (fm : FieldMngt α) (C : CropDay α)
    (cells : List (Cell α)) (S : DayState α) (D : DayIn α) : Except String (DayTrace α) := do
  let g ← optErr "E:unbound" (checkGroundwaterTable F cells W.waterTable D.zGW)
  waterDayRest F W fm C S D g

/-- step 21 and the `water_flux` row -/
def dayOutOf (W : WaterParams α) (D : DayIn α) (T : DayTrace α) : DayOut α :=
  { cells := T.w.1, pond := T.t.st.pond,
    wr := T.rz.wrAct, zGW := T.g.zGW,
    irrDay := if D.gs then (if W.irr.method = 4 then T.t.irrNet + T.p.2 else T.i.irr) else 0,
    infl := T.f.infl, runoff := T.f.runoffTot, deepPerc := T.f.deepPerc, cr := T.c.crTot,
    gwIn := T.w.2, es := T.e.esAct, esPot := T.e.esPot, tr := T.t.trAct, trPot := T.t.trPot0,
    irr := T.i.irr, preIrr := T.p.2, irrNet := T.t.irrNet, crAdded := T.c.crAdded,
    dzFill := T.c.dzFill, drainLost := T.d.lost, inflLost := T.f.lost, cn := T.r.cn,
    wtInSoil := T.g.wtInSoil, crCells := T.c.cells, compSto := T.t.compSto,
    trSt := T.t.st, irrCum := T.i.irrCum, ePot := T.e.epot, wSurf := T.e.wSurf,
    evapZ := T.e.evapZ, stage2 := T.e.stage2, wStage2 := T.e.wStage2, trPotNS := T.t.trPotNS }

/-- the water part of `solution_single_time_step` -/
def waterDay (F : Fn α) (W : WaterParams α) (fm : FieldMngt α) (C : CropDay α)
    (cells : List (Cell α)) (S : DayState α) (D : DayIn α) : Except String (DayOut α) :=
  match waterDayTrace F W fm C cells S D with
  | .error e => .error e
  | .ok T => .ok (dayOutOf W D T)

end
end Aqua
