import AquaVerif.Model.Profile
/-
Model of `aquacrop/solution/evap_layer_water_content.py`: water stored in the soil evaporation
layer (depth `evapZ`) at saturation, field capacity, wilting point, air dryness and actually.

The Python loops over `comp_sto = np.sum(dzsum < EvapZ) + 1` compartments.  When that exceeds the
number of compartments (evaporation layer at or below the bottom of the profile) the Python raises
`IndexError`; the model returns `Except.error "E:index"`.
-/

namespace Aqua
section
variable {α : Type} [Add α] [Sub α] [Mul α] [Div α] [Neg α] [LT α] [LE α]
  [DecidableLT α] [DecidableLE α] [OfScientific α] [OfNat α 0] [OfNat α 1] [OfNat α 1000]

/-- `(Wevap_Sat, Wevap_Fc, Wevap_Wp, Wevap_Dry, Wevap_Act)` -/
structure EvapW (α : Type) where
  sat : α
  fc  : α
  wp  : α
  dry : α
  act : α

/-- fraction of a compartment inside a layer of depth `z`:
`1 - ((dzsum - z) / dz)` if `dzsum > z` else `1` -/
def evapFactor (z : α) (c : Comp α) : α :=
  if z < c.dzsum then 1 - ((c.dzsum - z) / c.dz) else 1

/-- `for ii in range(comp_sto)`; `n` = remaining iterations; `none` = `IndexError`. -/
def evapLayerLoop (z : α) : Nat → List (Cell α) → EvapW α → Option (EvapW α)
  | 0, _, a => some a
  | _+1, [], _ => none
  | n+1, x :: xs, a =>
    let factor := evapFactor z x.c
    evapLayerLoop z n xs
      { act := a.act + factor * 1000 * x.th * x.c.dz
        sat := a.sat + factor * 1000 * x.c.thS * x.c.dz
        fc  := a.fc + factor * 1000 * x.c.thFC * x.c.dz
        wp  := a.wp + factor * 1000 * x.c.thWP * x.c.dz
        dry := a.dry + factor * 1000 * x.c.thDry * x.c.dz }

/-- `evap_layer_water_content(th, EvapZ, prof)` -/
def evapLayerWater (cells : List (Cell α)) (evapZ : α) : Except String (EvapW α) :=
  match evapLayerLoop evapZ (countBelow evapZ cells + 1) cells ⟨0, 0, 0, 0, 0⟩ with
  | none => .error "E:index"
  | some a => .ok { a with act := if a.act < 0 then 0 else a.act }

end
end Aqua
