/-
`reset_initial_conditions` (aquacrop/timestep/reset_initial_conditions.py) as *data*: which
attributes of the state object `InitialCondition` (aquacrop/entities/initParamVariables.py) are
assigned at the start of a growing season, and — for those that are not — why the first in-season
day (`growing_season` true, `dap` becomes 1, `sim_off_season = False`) cannot see what the previous
season left in them.  Field names are the Python attribute names.  Line numbers refer to the
repository at commit 0e36d37; "rst" = aquacrop/timestep/run_single_timestep.py.

These lists are hand-transcribed (checked once against the two files by an AST scan: 77 attributes
in `__init__`, 55 distinct `InitCond.<x> = …` targets in the reset, no dynamically created
attribute anywhere in `solution/*.py`, `timestep/*.py`, `core.py`); the write-effect translator is
expected to regenerate `allFields` / `resetFields` and compare.

Core Lean only.
-/

namespace Aqua.Reset

/-- every attribute assigned in `InitialCondition.__init__`, in source order -/
def allFields : List String := [
  "age_days", "age_days_ns", "aer_days", "aer_days_comp", "irr_cum", "delayed_gdds",
  "delayed_cds", "pct_lag_phase", "t_early_sen", "gdd_cum", "day_submerged", "irr_net_cum",
  "dap", "e_pot", "t_pot", "pre_adj", "crop_mature", "crop_dead", "germination", "premat_senes",
  "harvest_flag", "growing_season", "yield_form", "stage2", "wt_in_soil", "stage", "f_pre",
  "f_post", "fpost_dwn", "fpost_upp", "h1_cor_asum", "h1_cor_bsum", "f_pol", "s_cor1", "s_cor2",
  "hi_ref", "HIfinal", "growth_stage", "tr_ratio", "r_cor", "canopy_cover", "canopy_cover_adj",
  "canopy_cover_ns", "canopy_cover_adj_ns", "biomass", "biomass_ns", "YieldPot", "harvest_index",
  "harvest_index_adj", "ccx_act", "ccx_act_ns", "ccx_w", "ccx_w_ns", "ccx_early_sen", "cc_prev",
  "protected_seed", "DryYield", "FreshYield", "z_root", "cc0_adj", "surface_storage", "z_gw",
  "th_fc_Adj", "th", "thini", "time_step_counter", "precipitation", "temp_max", "temp_min",
  "et0", "sumET0EarlySen", "gdd", "w_surf", "evap_z", "w_stage_2", "depletion", "taw"]

/-- the attributes `reset_initial_conditions` assigns (to a constant, to a crop parameter
(`HIfinal = crop.HI0`) or to the stored initial value), in source order.
`e_pot`, `t_pot` are reset since repo commit 0e36d37 (before it they leaked into the first
irrigation decision of the next season: finding recorded as fixed).
`th` (`np.copy(thini)`) and `surface_storage` (`min(bund_water, z_bund)` or 0) are assigned only
under `sim_off_season is False` — the case of property C08. -/
def resetFields : List String := [
  "age_days", "age_days_ns", "aer_days", "irr_cum", "delayed_gdds", "delayed_cds",
  "pct_lag_phase", "t_early_sen", "gdd_cum", "day_submerged", "irr_net_cum", "dap", "e_pot",
  "t_pot", "aer_days_comp", "pre_adj", "crop_mature", "crop_dead", "germination", "premat_senes",
  "harvest_flag", "stage", "f_pre", "f_post", "fpost_dwn", "fpost_upp", "h1_cor_asum",
  "h1_cor_bsum", "f_pol", "s_cor1", "s_cor2", "growth_stage", "tr_ratio", "r_cor",
  "canopy_cover", "canopy_cover_adj", "canopy_cover_ns", "canopy_cover_adj_ns", "biomass",
  "biomass_ns", "harvest_index", "harvest_index_adj", "ccx_act", "ccx_act_ns", "ccx_w",
  "ccx_w_ns", "ccx_early_sen", "cc_prev", "protected_seed", "cc0_adj", "sumET0EarlySen", "HIfinal",
  "DryYield", "FreshYield", "th", "surface_storage"]

/-- the two fields whose reset is conditional on `sim_off_season is False` -/
def resetOnlyWhenOffSeasonSkipped : List String := ["th", "surface_storage"]

/-- fields that need no reset because on the first in-season day every read is preceded, on that
same day, by a write whose value does not depend on the old content.  One justification each
(write that precedes all reads → first read). -/
def rewrittenBeforeRead : List String := [
  -- rst:144 `NewCond.growing_season = True`; never read inside the package (the solution
  -- functions receive the local `growing_season`)
  "growing_season",
  -- HIref_current_day.py:83/85 (step 15, from `dap`, `delayed_cds`, `Crop.HIstartCD`) before its
  -- only read harvest_index.py:139; the value passed in at rst:380 is overwritten before any use
  "yield_form",
  -- soil_evaporation.py:183 (`dap == 1 and SimOffSeason == False`); `NewCond_Stage2` is only ever
  -- assigned (183, 212, 313, 392), never read
  "stage2",
  -- soil_evaporation.py:179 (`= 0`) → first read :320; nothing reads it before step 12
  "w_surf",
  -- soil_evaporation.py:181 (`= Soil_EvapZmin`) → first read :187
  "evap_z",
  -- soil_evaporation.py:190–194 (from today's `th`, REW, profile) → first read :404
  "w_stage_2",
  -- rst:165 (step 1, `check_groundwater_table`): with a water table :66/:68, without `None`
  -- (:114; falsy like the initial `False`) → first read groundwater_inflow.py:46
  "wt_in_soil",
  -- rst:165: `z_gw[time_step_counter]` (:58) with a water table, `None` without; the old value
  -- passed at rst:167 is unused → reads root_development.py:256, capillary_rise.py:57, rst:483
  "z_gw",
  -- with a water table: check_groundwater_table.py:110 builds a new array, every element assigned,
  -- before the first read drainage.py:71; without a water table the array is returned unchanged
  -- and is never written anywhere (no element store on it in the package): constant = `th_fc`
  "th_fc_Adj",
  -- HIref_current_day.py:92 (step 15, rst:375): on day 1 `HIt = 1 − delayed_cds − HIstartCD − 1 ≤ 0`
  -- gives 0, otherwise a function of crop parameters, `HIt` and `HIfinal` (reset) only; the copy
  -- `InitCond_HIref` made at :73 is dead → reads biomass_accumulation.py:65 (step 16, after the
  -- write), harvest_index.py:133 (step 17)
  "hi_ref",
  -- rst:410 (step 18) → reads rst:513/535 (output, summary)
  "YieldPot",
  -- root_development.py:94–95 (`dap == 1`: `Zroot = Zroot_init = Crop.Zmin`, step 2); the stale
  -- value read at :87 into `Zroot_init` is overwritten at :95 before use → reads :237,
  -- pre_irrigation.py:62 (step 3)
  "z_root",
  -- rst:155 → read rst:242 (irrigation.py:203)
  "time_step_counter",
  -- rst:156–159; never read inside the package
  "precipitation", "temp_max", "temp_min", "et0",
  -- rst:141; `NewCond.gdd` is never read
  "gdd",
  -- irrigation.py:154–155 via rst:226 (also transpiration.py:474–475, rst:467–468); never read
  -- inside the package, in no output table
  "depletion", "taw"]

/-- never written after initialisation, so nothing of an earlier season can be in it:
`thini` is assigned once (read_model_initial_conditions.py:313, `np.copy(InitCond.th)`, a separate
array since repo commit 2fac2e8) and only read (reset_initial_conditions.py, `th = copy(thini)`). -/
def neverWrittenAfterInit : List String := ["thini"]

/-- **the finding** (now repaired in /repo, the list is empty): fields for which a read on the first
in-season day could see the previous season's value.  Historical entry:

* `cc0_adj` — written by canopy_cover.py:182 (`= Crop.CC0`) only in the branch
  `tCCadj < Emergence or round(tCCadj) > Maturity`; when the crop germinates on day 1 with
  `tCCadj ≥ Emergence` (possible for GDD crops whose `Emergence` does not exceed one day's degree
  days, e.g. CottonGDD `Emergence = 12`, SugarBeetGDD 23) the branch :184 reads the stale value
  (`InitCond_CC <= NewCond.cc0_adj`, :185/:196/:202).  It differs from `CC0` when the previous
  season ended with `cc0_adj = canopy_cover < CC0` (:268, :393, e.g. a crop killed by drought).
  A fresh run is itself inconsistent: `cc0_adj` starts at `CC0` when the window starts on the
  planting date and at 0 otherwise (read_model_initial_conditions.py:54/58). -/
def knownLeaks : List String := []   -- `cc0_adj` is reset since the repo fix "reset the adjusted initial canopy cover"

end Aqua.Reset
