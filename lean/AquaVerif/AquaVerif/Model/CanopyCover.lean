import AquaVerif.Model.RootZone
import AquaVerif.Model.WaterStress
import AquaVerif.Model.Response
/-
Model of `aquacrop/solution/canopy_cover.py` (`canopy_cover`) with its helpers
`aquacrop/solution/adjust_CCx.py` (`adjust_CCx`) and `aquacrop/solution/update_CCx_CDC.py`
(`update_CCx_CDC`).

The Python mutates `InitCond` in place (`NewCond = InitCond` is an alias) after having saved the
seven values `InitCond_CC_NS, InitCond_CC, InitCond_ProtectedSeed, InitCond_CCxAct,
InitCond_CropDead, InitCond_tEarlySen, InitCond_CCxW`.  The model threads two states: `s0` (the
state at entry — the saved values) and `s` (the state being updated); where the Python reads
`NewCond.x` the model reads `s.x`, where it reads `InitCond_X` the model reads `s0.x`.

The function is the sequential composition of five blocks, each a function here:

  `ccPotential`   "## Canopy development (potential) ##"
  `ccActual`      "## Canopy development (actual) ##"   (pieces: `ccSmall`, `ccGrowing`, `ccRaiseAct`,
                  `ccLate`, `ccDie`)
  `ccSenescence`  "## Canopy senescence due to water stress (actual) ##"   (pieces: `ccSenStress` →
                  `ccEarlySen`, `ccSenNoStress` → `ccRewater`, `ccRaiseW`)
  `ccFixup`       "# Check to ensure potential canopy_cover is not slightly lower than actual"
  `ccMicroAdv`    "## Calculate canopy size adjusted for micro-advective effects ##" (with the cap at 1)

Time (`tCCadj`, `dtCC`) is calendar-day valued (`CalendarType == 1`: `dtCC = 1`,
`tCCadj = dap - delayed_cds`) or degree-day valued (`CalendarType == 2`: `dtCC = gdd`,
`tCCadj = gdd_cum - delayed_gdds`).  Integers of the Python (`dap`, `delayed_cds`, the calendar-day
crop stages, `t_early_sen`) are carried in the number type `α`.

Python partiality that is modelled (`Except.error`):
* `E:index`    every failure of `root_zone_water` (rooting depth below the profile, `comp_sto > 0`
               assertion);
* `E:unbound`  `dtCC` when `CalendarType ∉ {1, 2}`.
Division by zero follows IEEE semantics (numpy scalars), as in `Model/Response.lean` and
`Model/Transpiration.lean`.

`x ** 2`, `x ** 3` and `x ** 8` all go through `F.pow` (C `pow`, not correctly rounded: `x ** 2` can
differ from `x * x` by one unit in the last place; the proofs use the law `PowSqLaw`).

Ghost output: `CcState.br`, a branch code (never read by the model, not part of the Python
state), see `brPot/brAct/brSen` below.
-/

namespace Aqua
section
variable {α : Type} [Add α] [Sub α] [Mul α] [Div α] [Neg α] [LT α] [LE α]
  [DecidableLT α] [DecidableLE α] [OfScientific α] [OfNat α 0] [OfNat α 1] [OfNat α 2] [OfNat α 3]
  [OfNat α 5] [OfNat α 8] [OfNat α 9] [OfNat α 10] [OfNat α 100] [OfNat α 1000]

/-- the crop parameters `canopy_cover` reads -/
structure CcCrop (α : Type) where
  /-- `Crop.CalendarType`: 1 = calendar days, 2 = growing degree days, other → `dtCC` unbound -/
  calendarType : Nat
  emergence : α
  maturity : α
  canopyDevEnd : α
  senescence : α
  cc0 : α
  ccx : α
  cgc : α
  cdc : α
  zMin : α
  aer : α
  pUp : Fin 4 → α
  pLo : Fin 4 → α
  fshW : Fin 4 → α
  /-- `Crop.ETadj == 1` -/
  etAdj : Bool
  beta : α

/-- the `NewCond` scalars `canopy_cover` reads and/or writes (`th` lives in the cells).
Read only: `dap delayedCds gddCum delayedGdds zRoot`.
Written: `ccPrev ccNS ccxActNS ccxWNS cc cc0Adj ccxAct ccxEarlySen tEarlySen ccxW ccAdj ccAdjNS
prematSenes cropDead protectedSeed`. -/
structure CcState (α : Type) where
  dap : α
  delayedCds : α
  gddCum : α
  delayedGdds : α
  zRoot : α
  /-- `canopy_cover` -/
  cc : α
  /-- `canopy_cover_ns` -/
  ccNS : α
  cc0Adj : α
  ccxAct : α
  ccxActNS : α
  ccxW : α
  ccxWNS : α
  ccxEarlySen : α
  ccPrev : α
  tEarlySen : α
  /-- `canopy_cover_adj` -/
  ccAdj : α
  /-- `canopy_cover_adj_ns` -/
  ccAdjNS : α
  prematSenes : Bool
  cropDead : Bool
  protectedSeed : Bool
  /-- ghost: branch code `brPot + 10 * brAct + 1000 * brSen` (0 outside the growing season) -/
  br : Nat := 0

/-! ### helpers -/

/-- `adjust_CCx(cc_prev, CCo, CCx, CGC, CDC, dt, tSum, Crop_CanopyDevEnd, Crop_CCx)` -/
def adjustCCx (F : Fn α) (ccPrev cco ccx cgc cdc dt tSum canopyDevEnd cropCCx : α) : α :=
  let tCCtmp := ccRequiredTime F ccPrev cco ccx cgc cdc .cgc
  if 0 < tCCtmp then
    let tCCtmp := tCCtmp + (canopyDevEnd - tSum) + dt
    ccDevelopment F cco ccx cgc cdc tCCtmp .growth cropCCx
  else 0

/-- `update_CCx_CDC(cc_prev, CDC, CCx, dt)` → `(CCXadj, CDCadj)` -/
def updateCCxCDC (F : Fn α) (ccPrev cdc ccx dt : α) : α × α :=
  let ccxAdj := ccPrev / (1 - 0.05 * (F.exp (dt * ((cdc * 3.33) / (ccx + 2.29))) - 1))
  let cdcAdj := cdc * ((ccxAdj + 2.29) / (ccx + 2.29))
  (ccxAdj, cdcAdj)

/-- Python `abs` -/
def pabs (x : α) : α := if x < 0 then -x else x

/-- `(tCCadj < Crop.Emergence) or (round(tCCadj) > Crop.Maturity)` -/
def ccOutside (F : Fn α) (crop : CcCrop α) (t : α) : Prop :=
  t < crop.emergence ∨ crop.maturity < F.round0 t

instance (F : Fn α) (crop : CcCrop α) (t : α) : Decidable (ccOutside F crop t) := by
  unfold ccOutside; infer_instance

/-- `(dtCC, tCCadj)`; `none` = `CalendarType ∉ {1,2}` (`UnboundLocalError`) -/
def ccTime (crop : CcCrop α) (s : CcState α) (gdd : α) : Option (α × α) :=
  if crop.calendarType = 1 then some (1, s.dap - s.delayedCds)
  else if crop.calendarType = 2 then some (gdd, s.gddCum - s.delayedGdds)
  else none

/-- the depletion / total available water pair used for the water stress: root zone when it is
the wetter of the two (relative depletion), top soil otherwise -/
def ccDrTaw (rz : RZ α) : α × α :=
  if (rz.drRz / rz.tawRz) ≤ (rz.drZt / rz.tawZt) then (rz.drRz, rz.tawRz) else (rz.drZt, rz.tawZt)

/-- the "crop has died" test used three times: `(cc < 0.001) and (InitCond_CropDead == False)` -/
def ccDie (s0 s : CcState α) : CcState α :=
  if s.cc < 0.001 ∧ s0.cropDead = false then { s with cc := 0, cropDead := true } else s

/-! ### potential (no-stress) canopy -/

/-- branch id of `ccPotential`: 1 outside, 2 growth/tiny, 3 growth/curve, 4 mid-season,
5 decline, 6 `tCCadj == CanopyDevEnd` (nothing assigned) -/
def brPot (F : Fn α) (crop : CcCrop α) (s0 : CcState α) (t : α) : Nat :=
  if ccOutside F crop t then 1
  else if t < crop.canopyDevEnd then (if s0.ccNS ≤ crop.cc0 then 2 else 3)
  else if crop.canopyDevEnd < t then (if t < crop.senescence then 4 else 5)
  else 6

def ccPotential (F : Fn α) (crop : CcCrop α) (s0 s : CcState α) (dt t : α) : CcState α :=
  if ccOutside F crop t then
    { s with ccNS := 0 }
  else if t < crop.canopyDevEnd then
    let ccNS :=
      if s0.ccNS ≤ crop.cc0 then crop.cc0 * F.exp (crop.cgc * dt)
      else ccDevelopment F crop.cc0 (0.98 * crop.ccx) crop.cgc crop.cdc (t - crop.emergence)
             .growth crop.ccx
    { s with ccNS := ccNS, ccxActNS := ccNS }
  else if crop.canopyDevEnd < t then
    let s := { s with ccxWNS := s.ccxActNS }
    if t < crop.senescence then
      { s with ccNS := s0.ccNS, ccxActNS := s0.ccNS }
    else
      { s with ccNS := ccDevelopment F crop.cc0 s.ccxActNS crop.cgc crop.cdc (t - crop.senescence)
                         .decline s.ccxActNS }
  else s

/-! ### actual canopy -/

/-- the `else` of "Very small initial canopy_cover …" inside `tCCadj < CanopyDevEnd`:
water-stress adjusted growth.  Returns the updated state and a sub-branch id. -/
def ccGrowing (F : Fn α) (crop : CcCrop α) (s0 s : CcState α) (kswExp dt t : α) :
    CcState α × Nat :=
  if s0.cc < 0.9799 * crop.ccx then
    let cgcAdj := crop.cgc * kswExp
    if 0 < cgcAdj then
      let ccxAdj := adjustCCx F s0.cc s.cc0Adj crop.ccx cgcAdj crop.cdc dt t crop.canopyDevEnd
                      crop.ccx
      if ccxAdj < 0 then ({ s with cc := s0.cc }, 4)
      else if pabs (s0.cc - (0.9799 * crop.ccx)) < 0.001 then
        ({ s with cc := ccDevelopment F crop.cc0 crop.ccx crop.cgc crop.cdc (t - crop.emergence)
                          .growth crop.ccx }, 5)
      else
        let tReq := ccRequiredTime F s0.cc s.cc0Adj ccxAdj cgcAdj crop.cdc .cgc
        if 0 < tReq then
          ({ s with cc := ccDevelopment F s.cc0Adj ccxAdj cgcAdj crop.cdc (tReq + dt) .growth
                            crop.ccx }, 6)
        else ({ s with cc := s0.cc }, 7)
    else
      -- no canopy growth; update CC0
      ({ s with cc := s0.cc, cc0Adj := if s.cc0Adj < s0.cc then crop.cc0 else s0.cc }, 8)
  else
    ({ s with cc := ccDevelopment F crop.cc0 crop.ccx crop.cgc crop.cdc (t - crop.emergence)
                      .growth crop.ccx,
              cc0Adj := crop.cc0 }, 9)

/-- "Very small initial canopy_cover or seedling in protected phase of growth": no leaf
expansion stress.  Returns the updated state and a sub-branch id. -/
def ccSmall (F : Fn α) (crop : CcCrop α) (s0 s : CcState α) (dt t : α) : CcState α × Nat :=
  if s0.protectedSeed = true then
    let cc := ccDevelopment F crop.cc0 crop.ccx crop.cgc crop.cdc (t - crop.emergence)
                .growth crop.ccx
    ({ s with cc := cc,
              protectedSeed := if 1.25 * s.cc0Adj < cc then false else s.protectedSeed }, 2)
  else
    ({ s with cc := s.cc0Adj * F.exp (crop.cgc * dt) }, 3)

/-- `if NewCond.canopy_cover > InitCond_CCxAct: NewCond.ccx_act = NewCond.canopy_cover` -/
def ccRaiseAct (s0 s : CcState α) : CcState α :=
  if s0.ccxAct < s.cc then { s with ccxAct := s.cc } else s

/-- "Late-season stage - canopy decline" with `CDCadj` for the actual maximum canopy -/
def ccLate (F : Fn α) (crop : CcCrop α) (s : CcState α) (t : α) : CcState α :=
  let cdcAdj := crop.cdc * ((s.ccxAct + 2.29) / (crop.ccx + 2.29))
  { s with cc := ccDevelopment F s.cc0Adj s.ccxAct crop.cgc cdcAdj (t - crop.senescence)
                    .decline s.ccxAct }

/-- `(state, branch id)`: 1 outside, 2 protected seed, 3 tiny canopy, 4–9 `ccGrowing`,
10 mid-season, 11 late-season decline, 12 `tCCadj == CanopyDevEnd`; `+ 50` when the crop dies here -/
def ccActualB (F : Fn α) (crop : CcCrop α) (s0 s : CcState α) (kswExp dt t : α) :
    CcState α × Nat :=
  if ccOutside F crop t then
    ({ s with cc := 0, cc0Adj := crop.cc0 }, 1)
  else if t < crop.canopyDevEnd then
    let r : CcState α × Nat :=
      if s0.cc ≤ s.cc0Adj ∨ (s0.protectedSeed = true ∧ s0.cc ≤ 1.25 * s.cc0Adj) then
        ccSmall F crop s0 s dt t
      else ccGrowing F crop s0 s kswExp dt t
    (ccRaiseAct s0 r.1, r.2)
  else if crop.canopyDevEnd < t then
    let r : CcState α × Nat :=
      if t < crop.senescence then (ccRaiseAct s0 { s with cc := s0.cc }, 10)
      else (ccLate F crop s t, 11)
    (ccDie s0 r.1, if r.1.cc < 0.001 ∧ s0.cropDead = false then r.2 + 50 else r.2)
  else (s, 12)

def ccActual (F : Fn α) (crop : CcCrop α) (s0 s : CcState α) (kswExp dt t : α) : CcState α :=
  (ccActualB F crop s0 s kswExp dt t).1

/-! ### early senescence -/

/-- `CDCadj` of the early-senescence block -/
def ccSenCdc (F : Fn α) (crop : CcCrop α) (sen : α) : α :=
  if 0.99999 < sen then 0.0001 else (1 - (F.pow sen 8)) * crop.cdc

/-- `CCsen` (before the cap at `CCx`) -/
def ccSenValue (F : Fn α) (ccPrev ccxEarlySen cdcAdj dt : α) : α :=
  if ccxEarlySen < 0.001 then 0
  else
    let tReq := (F.log (1 + (1 - ccPrev / ccxEarlySen) / 0.05)) /
                  ((cdcAdj * 3.33) / (ccxEarlySen + 2.29))
    let tmp := tReq + dt
    let c := ccxEarlySen *
      (1 - 0.05 * (F.exp (tmp * ((cdcAdj * 3.33) / (ccxEarlySen + 2.29))) - 1))
    if c < 0 then 0 else c

/-- the branch `(water_stress_coef.sen < 1) and (InitCond_ProtectedSeed == False)`.
`sen2` is the senescence coefficient recomputed with `beta = False`. -/
def ccEarlySen (F : Fn α) (crop : CcCrop α) (s0 s : CcState α) (sen2 dt t : α) : CcState α :=
  let cdcAdj := ccSenCdc F crop sen2
  let ccSen := ccSenValue F s0.cc s.ccxEarlySen cdcAdj dt
  let s :=
    if t < crop.senescence then
      let ccSen := if crop.ccx < ccSen then crop.ccx else ccSen
      let cc := if s0.cc < ccSen then s0.cc else ccSen
      { s with cc := cc, ccxAct := cc, cc0Adj := if cc < crop.cc0 then cc else crop.cc0 }
    else
      if ccSen < s.cc then { s with cc := ccSen } else s
  ccDie s0 s

/-- "Rewatering of canopy in late season" -/
def ccRewater (F : Fn α) (crop : CcCrop α) (s0 s : CcState α) (dt t : α) : CcState α :=
  let r := updateCCxCDC F s0.cc crop.cdc crop.ccx (t - dt - crop.senescence)
  let s := { s with ccxAct := r.1,
                    cc := ccDevelopment F s.cc0Adj r.1 crop.cgc r.2 (t - crop.senescence) .decline r.1 }
  ccDie s0 s

/-- branch id of `ccSenescence`: 0 before emergence, 1 block skipped (late season without early
senescence), 2 early senescence before `Senescence`, 3 early senescence in the late season,
4 no stress, 5 no stress + rewatering -/
def brSen (crop : CcCrop α) (s0 : CcState α) (kswSen t : α) : Nat :=
  if crop.emergence ≤ t then
    if t < crop.senescence ∨ 0 < s0.tEarlySen then
      if kswSen < 1 ∧ s0.protectedSeed = false then (if t < crop.senescence then 2 else 3)
      else if crop.senescence < t ∧ 0 < s0.tEarlySen then 5 else 4
    else 1
  else 0

/-- the branch `(water_stress_coef.sen < 1) and (InitCond_ProtectedSeed == False)` with its
bookkeeping: flag, `ccx_early_sen` on the first day, counter, then `ccEarlySen` -/
def ccSenStress (F : Fn α) (crop : CcCrop α) (s0 s : CcState α) (sen2 : α → α) (dt t : α) :
    CcState α :=
  let s := { s with prematSenes := true }
  let s := if s0.tEarlySen ≤ 0 ∧ 0 ≤ s0.tEarlySen then { s with ccxEarlySen := s0.cc } else s
  let s := { s with tEarlySen := s0.tEarlySen + dt }
  ccEarlySen F crop s0 s (sen2 s.tEarlySen) dt t

/-- the "No water stress" branch: flag off, rewatering in the late season, counter reset -/
def ccSenNoStress (F : Fn α) (crop : CcCrop α) (s0 s : CcState α) (dt t : α) : CcState α :=
  let s := { s with prematSenes := false }
  let s := if crop.senescence < t ∧ 0 < s0.tEarlySen then ccRewater F crop s0 s dt t else s
  { s with tEarlySen := 0 }

/-- `if NewCond.canopy_cover > InitCond_CCxW: NewCond.ccx_w = NewCond.canopy_cover` -/
def ccRaiseW (s0 s : CcState α) : CcState α :=
  if s0.ccxW < s.cc then { s with ccxW := s.cc } else s

/-- `kswSen` is `Ksw.sen` from the first `water_stress` call (`beta = True`); `sen2 tes` is
`Ksw.sen` of the second call (`beta = False`) for the incremented early-senescence counter. -/
def ccSenescence (F : Fn α) (crop : CcCrop α) (s0 s : CcState α) (kswSen : α) (sen2 : α → α)
    (dt t : α) : CcState α :=
  if crop.emergence ≤ t then
    if t < crop.senescence ∨ 0 < s0.tEarlySen then
      ccRaiseW s0
        (if kswSen < 1 ∧ s0.protectedSeed = false then ccSenStress F crop s0 s sen2 dt t
         else ccSenNoStress F crop s0 s dt t)
    else s
  else s

/-! ### final fix-ups -/

/-- potential canopy raised to the actual when lower -/
def ccFixup (crop : CcCrop α) (s : CcState α) (t : α) : CcState α :=
  if s.ccNS < s.cc then
    let s := { s with ccNS := s.cc }
    if t < crop.canopyDevEnd then { s with ccxActNS := s.ccNS } else s
  else s

/-- `(1.72 * c) - (c ** 2) + (0.3 * (c ** 3))` -/
def microAdvPoly (F : Fn α) (c : α) : α := (1.72 * c) - (F.pow c 2) + (0.3 * (F.pow c 3))

/-- the polynomial capped at 1 -/
def microAdv (F : Fn α) (c : α) : α :=
  let a := microAdvPoly F c
  if 1 < a then 1 else a

def ccMicroAdv (F : Fn α) (s : CcState α) : CcState α :=
  { s with ccAdj := microAdv F s.cc, ccAdjNS := microAdv F s.ccNS }

/-- the `else` of `if growing_season == True` -/
def ccOffSeason (s : CcState α) : CcState α :=
  { s with cc := 0, ccAdj := 0, ccNS := 0, ccAdjNS := 0, ccxW := 0, ccxAct := 0, ccxWNS := 0,
           ccxActNS := 0, br := 0 }

/-- the in-season body once the water status (`dr`, `taw`) and the time pair are known -/
def ccSeason (F : Fn α) (crop : CcCrop α) (s0 : CcState α) (dr taw et0 dt t : α) : CcState α :=
  let ws (tes : α) (betaFlag : Bool) : Ksw α :=
    waterStress F crop.pUp crop.pLo crop.fshW crop.etAdj crop.beta tes dr taw et0 betaFlag
  let ksw := ws s0.tEarlySen true
  let s := { s0 with ccPrev := s0.cc }
  let s := ccPotential F crop s0 s dt t
  let a := ccActualB F crop s0 s ksw.exp dt t
  let s := a.1
  let s := ccSenescence F crop s0 s ksw.sen (fun tes => (ws tes false).sen) dt t
  let s := ccFixup crop s t
  let s := ccMicroAdv F s
  { s with br := brPot F crop s0 t + 10 * a.2 + 1000 * brSen crop s0 ksw.sen t }

/-- `canopy_cover(Crop, prof, Soil_zTop, InitCond, gdd, et0, growing_season)` -/
def canopyCover (F : Fn α) (crop : CcCrop α) (cells : List (Cell α)) (zTop : α) (s0 : CcState α)
    (gdd et0 : α) (gs : Bool) : Except String (CcState α) :=
  if gs then
    match rootZoneWater F cells s0.zRoot zTop crop.zMin crop.aer with
    | none => .error "E:index"
    | some rz =>
      let d := ccDrTaw rz
      match ccTime crop s0 gdd with
      | none => .error "E:unbound"
      | some (dt, t) => .ok (ccSeason F crop s0 d.1 d.2 et0 dt t)
  else .ok (ccOffSeason { s0 with ccPrev := s0.cc })

end
end Aqua
