/-
The *shape* of a whole run as `core.py` drives it, abstracted from the biophysics:

  * `runDays`  — the day loop: a state is threaded through a day function that receives the
                 weather record of that day only (`_weather_data_current_timestep`);
  * `bindRow` / `bindTable` — how a weather table is bound to the five variables the time-step
                 code reads: by column *name*, row by *date*.

Everything is polymorphic; no numbers are involved.  Properties C14 (no look-ahead) and C15
(binding by date and by column name) are theorems about these shapes; the correspondence of the
shapes with the implementation is what the perturbation / transformed-table differential runs
check (`harness/aqv/diffs.py`, `c14`, `c15`).
-/

namespace Aqua.RunShape

/-- the day loop: one output row per day, the state threaded from day to day -/
def runDays {σ ω ρ : Type} (step : σ → ω → σ × ρ) : σ → List ω → List ρ
  | _, [] => []
  | s, w :: ws => (step s w).2 :: runDays step (step s w).1 ws

/-- the state after the loop -/
def finalState {σ ω ρ : Type} (step : σ → ω → σ × ρ) : σ → List ω → σ
  | s, [] => s
  | s, w :: ws => finalState step (step s w).1 ws

/-- clip a dated weather series to the simulation window `[lo, hi]` (read_weather_inputs) -/
def clip {ω : Type} (lo hi : Int) (ws : List (Int × ω)) : List (Int × ω) :=
  ws.filter (fun p => decide (lo ≤ p.1) && decide (p.1 ≤ hi))

/-- a weather table: named columns, each a list of cells (row-major access by index) -/
structure Table (κ : Type) where
  cols : List (String × List κ)

/-- look a column up by name (first match, as pandas column selection with unique names) -/
def Table.col {κ : Type} (t : Table κ) (name : String) : Option (List κ) :=
  (t.cols.find? (fun c => c.1 == name)).map (·.2)

/-- the five variables of one day, bound by column name, in the order the time-step code reads
them (`core._initialize`: `weather_df[["MinTemp","MaxTemp","Precipitation","ReferenceET","Date"]]`) -/
def required : List String := ["MinTemp", "MaxTemp", "Precipitation", "ReferenceET", "Date"]

def bindTable {κ : Type} (t : Table κ) : Option (List (List κ)) := do
  let a ← t.col "MinTemp"
  let b ← t.col "MaxTemp"
  let c ← t.col "Precipitation"
  let d ← t.col "ReferenceET"
  let e ← t.col "Date"
  pure [a, b, c, d, e]

/-- re-indexing: a table whose rows are addressed through an arbitrary index (a permutation of
row labels) denotes the same dated records; binding never consults the index -/
def reindex {κ ι : Type} (t : Table κ) (_index : List ι) : Table κ := t

end Aqua.RunShape
