import AquaVerif.Model.SoilBuild
/-
Model of the texture-based soil constructor (work package U, property C18):

  * `aquacrop/entities/soil.py` : `Soil.calculate_soil_hydraulic_properties(Sand, Clay, OrgMat, DF=1)`
                                  (pedotransfer functions of Saxton & Rawls 2006),
                                  `Soil.add_layer_from_texture`,
                                  and — for a direct tie and a branch id — the class selection of
                                  `Soil.add_capillary_rise_params`.

`tau` (`tauOf`) and the capillary-rise parameters (`crParams`) are modelled in `Model/SoilBuild.lean`
and are REUSED here, not duplicated: `layerFromTexture` produces the `LayerSpec` that `soilProfile`
consumes, `capRiseParams` is `crParams` on the layer means, `crBranch` is a ghost (which leaf of the
`if` tree was taken) and `crParams_eq_branch` (Proofs) ties it to `crParams`.

Operation order follows the Python expression by expression (`a + b - c` is left-associated in both
languages); `np.power(x, 2)` is exact squaring (`x * x`, checked bit for bit by the tie).

Partiality.  The Python has no guard at all.  When `th_wp ≤ 0` or `th_fc ≤ 0` the logarithm is
`nan`/`-inf`, when `th_s − th_fc < 0` the power of a negative base with a non-integer exponent is `nan`,
when `th_s − th_fc = 0` and the exponent is negative the power is `inf`; `Ksat` is then `nan`/`inf` and
`round(10 * Ksat)` raises `ValueError: cannot convert float NaN to integer` (resp. `OverflowError`).
The model returns `E:value` in these cases.  Deviations on null sets that an ordered field cannot
express (documented, never met by the tie): `th_wp = 0` or `th_fc = 0` *exactly* with
`|th_s − th_fc| ≥ 1`, and `th_fc = 0` exactly (then `lmbda = −inf`, `Ksat = 0`, no exception);
a negative base whose exponent `3 − lmbda` happens to be an exact integer; overflow of the power for
`th_wp` of the order of 1e-300.
`log(th_fc) = log(th_wp)` (division by zero) needs no case: numpy gives `c/0 = inf`, `1/inf = 0`, and a
field gives `c/0 = 0`, `1/0 = 0` — `lmbda = 0` both ways.

`th_dry = round(10000 * th_wp/2)/10000` is computed by the Python but not returned (`add_layer`
recomputes `th_dry = thWP/2` from the rounded `thWP`); it cannot raise and is not modelled.
-/

namespace Aqua
section
variable {α : Type} [Add α] [Sub α] [Mul α] [Div α] [Neg α] [LT α] [LE α]
  [DecidableLT α] [DecidableLE α] [OfScientific α] [OfNat α 0] [OfNat α 1] [OfNat α 3]
  [OfNat α 10] [OfNat α 24] [OfNat α 33] [OfNat α 100] [OfNat α 1000] [OfNat α 1500]
  [OfNat α 1930]

/-- `Pred_thWP` -/
def predThWP (sand clay om : α) : α :=
  -(0.024 * sand) + 0.487 * clay + 0.006 * om + 0.005 * sand * om - 0.013 * clay * om
    + 0.068 * sand * clay + 0.031

/-- `Pred_thFC` -/
def predThFC (sand clay om : α) : α :=
  -(0.251 * sand) + 0.195 * clay + 0.011 * om + 0.006 * sand * om - 0.027 * clay * om
    + 0.452 * sand * clay + 0.299

/-- `Pred_thS33` -/
def predThS33 (sand clay om : α) : α :=
  0.278 * sand + 0.034 * clay + 0.022 * om - 0.018 * sand * om - 0.027 * clay * om
    - 0.584 * sand * clay + 0.078

/-- `PredAdj_thFC` (`np.power(x, 2)` = `x * x`) -/
def predAdjThFC (q : α) : α := q + (1.283 * (q * q) - 0.374 * q - 0.015)

/-- `PredAdj_thS33` -/
def predAdjThS33 (r : α) : α := r + (0.636 * r - 0.107)

/-- the three water contents before the final rounding -/
structure TexRaw (α : Type) where
  thWP : α
  thFC : α
  thS  : α

/-- the polynomial part of `calculate_soil_hydraulic_properties`: `th_wp`, `th_fc`, `th_s` as they
enter the `Ksat` formula (unrounded). -/
def texRaw (sand clay om df : α) : TexRaw α :=
  let p := predThWP sand clay om
  let thwp := p + 0.14 * p - 0.02
  let qa := predAdjThFC (predThFC sand clay om)
  let ra := predAdjThS33 (predThS33 sand clay om)
  let ps := (qa + ra) + (-0.097 * sand + 0.043)
  let pN := (1 - ps) * 2.65
  let pDF := pN * df
  let porosComp := (1 - pDF / 2.65) - (1 - pN / 2.65)
  let porosCompOM := 1 - pDF / 2.65
  { thWP := thwp, thFC := qa + 0.2 * porosComp, thS := porosCompOM }

/-- `lmbda = 1 / ((np.log(1500) - np.log(33)) / (np.log(th_fc) - np.log(th_wp)))` -/
def texLambda (F : Fn α) (thwp thfc : α) : α :=
  1 / ((F.log 1500 - F.log 33) / (F.log thfc - F.log thwp))

/-- `Ksat = (1930 * (th_s - th_fc) ** (3 - lmbda)) * 24` (unrounded, mm/day) -/
def texKsat (F : Fn α) (r : TexRaw α) : α :=
  (1930 * F.pow (r.thS - r.thFC) (3 - texLambda F r.thWP r.thFC)) * 24

/-- `round(1000 * x) / 1000` (Python `round` to an integer, ties to even) -/
def texRound3 (F : Fn α) (x : α) : α := F.round0 (1000 * x) / 1000

/-- `round(10 * x) / 10` -/
def texRound1 (F : Fn α) (x : α) : α := F.round0 (10 * x) / 10

/-- does the Python raise in the final rounding (`Ksat` is `nan` or `inf`)?  See the header. -/
def texRaises (F : Fn α) (r : TexRaw α) : Bool :=
  decide (r.thWP ≤ 0) || decide (r.thFC ≤ 0) || decide (r.thS - r.thFC < 0) ||
    (decide (r.thS - r.thFC ≤ 0) && decide (3 - texLambda F r.thWP r.thFC < 0))

/-- `Soil.calculate_soil_hydraulic_properties(Sand, Clay, OrgMat, DF)`:
`(th_wp, th_fc, th_s, Ksat)`; `Sand`, `Clay` are fractions, `OrgMat` is in per cent. -/
def hydraulicFromTexture (F : Fn α) (sand clay om df : α) : Except String (α × α × α × α) :=
  let r := texRaw sand clay om df
  if texRaises F r then .error "E:value"
  else .ok (texRound3 F r.thWP, texRound3 F r.thFC, texRound3 F r.thS, texRound1 F (texKsat F r))

/-- `Soil.add_layer_from_texture(thickness, Sand, Clay, OrgMat, penetrability)`: the arguments of
the `add_layer` call it makes (`Sand`, `Clay` in per cent; `DF` is left at its default 1). -/
def layerFromTexture {τ : Type} (F : Fn α) (thick : τ) (sandPct clayPct om pen : α) :
    Except String (LayerSpec α τ) :=
  match hydraulicFromTexture F (sandPct / 100) (clayPct / 100) om 1 with
  | .error e => .error e
  | .ok (wp, fc, s, k) => .ok { thick := thick, wp := wp, fc := fc, s := s, ksat := k, pen := pen }

end

/-! ### Capillary-rise parameters: branch ghost for `crParams` (`Model/SoilBuild.lean`) -/

section
variable {α : Type} [Add α] [Sub α] [Mul α] [Div α] [Neg α] [LT α] [LE α]
  [DecidableLT α] [DecidableLE α] [OfScientific α] [NatCast α] [OfNat α 0] [OfNat α 1]
  [OfNat α 4] [OfNat α 8] [OfNat α 9] [OfNat α 100] [OfNat α 750] [OfNat α 10000]
  [OfNat α 100000]

/-- soil classes of the capillary-rise parameters -/
inductive CrClass where
  | sandy | loamy | sandyClayey | siltyClayey
deriving Repr, DecidableEq

/-- the class formulas (`aCR_<class>`, `bCR_<class>`) -/
def crOfClass (F : Fn α) (ksat : α) : CrClass → α × α
  | .sandy => (-0.3112 - ksat / 100000, -1.4936 + 0.2416 * F.log ksat)
  | .loamy => (-0.4986 + 9 * ksat / 100000, -2.1320 + 0.4778 * F.log ksat)
  | .sandyClayey => (-0.5677 - 4 * ksat / 100000, -3.7189 + 0.5922 * F.log ksat)
  | .siltyClayey => (-0.6366 + 8 * ksat / 10000, -1.9165 + 0.7063 * F.log ksat)

/-- which leaf of the V7 `if` tree of `add_capillary_rise_params` is taken (numbered 1–7 in source
order) and the class it assigns.  Every leaf assigns a class: the tree is total. -/
def crBranch (thwp thfc ths ksat : α) : Nat × CrClass :=
  if ths ≤ 0.55 then
    if 0.20 ≤ thwp then
      if 0.49 ≤ ths ∧ 0.40 ≤ thfc then (1, .siltyClayey) else (2, .sandyClayey)
    else
      if thfc < 0.23 then (3, .sandy)
      else if 0.16 < thwp ∧ ksat < 100 then (4, .sandyClayey)
      else if thwp < 0.06 ∧ thfc < 0.28 ∧ 750 < ksat then (5, .sandy)
      else (6, .loamy)
  else (7, .siltyClayey)

/-- `add_capillary_rise_params` for one layer whose `n` compartments all carry the layer's values
(the argument of `crParams` is the `groupby("Layer").mean()` of `n` equal numbers).
Returns `(aCR, bCR, leaf)`; `none` = a failed `assert aCR != 0` / `assert bCR != 0`. -/
def capRiseParams (F : Fn α) (n : Nat) (thwp thfc ths ksat : α) : Option (α × α × Nat) :=
  let m (x : α) : α := kmean (List.replicate n x)
  match crParams F (m thwp) (m thfc) (m ths) (m ksat) with
  | none => none
  | some (a, b) => some (a, b, (crBranch (m thwp) (m thfc) (m ths) (m ksat)).1)

end
end Aqua
