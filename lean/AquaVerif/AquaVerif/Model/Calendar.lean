/-
Civil-date arithmetic (proleptic Gregorian calendar, pure integer) and the planting / harvest
date logic of `aquacrop/initialize/read_model_parameters.py` (lines 100–203) together with the
window set-up of `read_clocks_parameters.py`.

`daysFromCivil y m d` = days since 1970-01-01 (Python: `date(y,m,d).toordinal() - 719163`).

Core Lean only.
-/

namespace Aqua.Calendar

/-- Where the Python raises. -/
inductive Err where
  /-- `IndexError`: `time_span[1]` (window shorter than two days), `plant_years[0]` or
      `planting_dates[0]` (no planting date in the window) -/
  | index
  /-- `ValueError`/`DateParseError` from `pd.to_datetime` on a non-existing date
      (29 February in the mock year 1990 or in a non-leap year, month/day out of range) -/
  | date
  /-- `ValueError`: simulation period longer than 580 years -/
  | value
  deriving DecidableEq, Repr, Inhabited

def Err.toString : Err → String
  | .index => "E:index"
  | .date => "E:date"
  | .value => "E:value"

/-- days since 1970-01-01 of the civil date `y-m-d` (months 1..12). -/
def daysFromCivil (y m d : Int) : Int :=
  let y' := if m ≤ 2 then y - 1 else y
  let era := y' / 400
  let yoe := y' - era * 400
  let mp := if m > 2 then m - 3 else m + 9
  let doy := (153 * mp + 2) / 5 + d - 1
  let doe := yoe * 365 + yoe / 4 - yoe / 100 + doy
  era * 146097 + doe - 719468

/-- inverse of `daysFromCivil`: (year, month, day). -/
def civilFromDays (z : Int) : Int × Int × Int :=
  let z := z + 719468
  let era := z / 146097
  let doe := z - era * 146097
  let yoe := (doe - doe / 1460 + doe / 36524 - doe / 146096) / 365
  let y := yoe + era * 400
  let doy := doe - (365 * yoe + yoe / 4 - yoe / 100)
  let mp := (5 * doy + 2) / 153
  let d := doy - (153 * mp + 2) / 5 + 1
  let m := if mp < 10 then mp + 3 else mp - 9
  (if m ≤ 2 then y + 1 else y, m, d)

def isLeap (y : Int) : Bool := (y % 4 == 0 && y % 100 != 0) || y % 400 == 0

def daysInMonth (y m : Int) : Int :=
  if m = 2 then (if isLeap y then 29 else 28)
  else if m = 4 ∨ m = 6 ∨ m = 9 ∨ m = 11 then 30 else 31

def validDate (y m d : Int) : Bool :=
  decide (1 ≤ m) && decide (m ≤ 12) && decide (1 ≤ d) && decide (d ≤ daysInMonth y m)

/-- `pd.to_datetime("y/m/d")` as a day number; raises on a non-existing date. -/
def toDate (y m d : Int) : Except Err Int :=
  if validDate y m d then .ok (daysFromCivil y m d) else .error .date

/-- Python `list(range(a, b))` over the integers. -/
def pyRange (a b : Int) : List Int := (List.range (b - a).toNat).map (fun (i : Nat) => a + (i : Int))

structure Seasons where
  /-- `n_steps` -/
  n : Nat
  /-- planting dates as day numbers relative to the simulation start date -/
  planting : List Int
  /-- harvest dates, same convention -/
  harvest : List Int
  /-- initial `season_counter` -/
  season0 : Int
  deriving Repr

/-- `plant_years`, `harvest_years` before the correction for a partial first season
(`read_model_parameters` lines 126–161).  `endD` = day number of the end date. -/
def yearLists (sy ey em ed pm pd hm hd endD : Int) : Except Err (List Int × List Int) := do
  -- single_year: planting before harvest in the mock year 1990
  let p90 ← toDate 1990 pm pd
  let h90 ← toDate 1990 hm hd
  if p90 < h90 then
    -- "Check if the simulation in the following year does not exceed planting date."
    let mockEnd ← toDate 1990 em ed
    let mockStart ← toDate 1990 pm pd
    let ey' := if mockEnd ≤ mockStart then ey - 1 else ey
    let py := pyRange sy (ey' + 1)
    pure (py, py)
  else
    let hLate ← toDate (ey + 2) hm hd
    if hLate < endD then
      pure (pyRange sy (ey + 1), pyRange (sy + 1) (ey + 2))
    else
      pure (pyRange sy ey, pyRange (sy + 1) (ey + 1))

/-- lines 163–203: drop a first planting date that lies before the start, build the date lists,
initialise the season counter. `start` = day number of the start date. -/
def finishSeasons (start : Int) (n : Nat) (plantYears harvestYears : List Int) (pm pd hm hd : Int) :
    Except Err Seasons := do
  -- "Correct for partial first growing season": plant_years[0]
  let y0 ← match plantYears with
    | [] => throw Err.index
    | y :: _ => pure y
  let first ← toDate y0 pm pd
  let plantYears := if first < start then plantYears.tail else plantYears
  let harvestYears := if first < start then harvestYears.tail else harvestYears
  -- assert len(plant_years) == len(harvest_years): holds by construction
  let planting ← plantYears.mapM (fun y => toDate y pm pd)
  let harvest ← harvestYears.mapM (fun y => toDate y hm hd)
  -- season counter: planting_dates[0]
  let p0 ← match planting with
    | [] => throw Err.index
    | p :: _ => pure p
  let season0 : Int := if start = p0 then 0 else -1
  pure { n := n, planting := planting.map (· - start), harvest := harvest.map (· - start),
         season0 := season0 }

/-- `read_clock_parameters` (window) followed by `read_model_parameters` lines 100–203.
Arguments: start `sy/sm/sd`, end `ey/em/ed` (existing dates), planting `pm/pd`, harvest `hm/hd`
(the crop's `planting_date`, `harvest_date` as month/day). -/
def seasonDates (sy sm sd ey em ed pm pd hm hd : Int) : Except Err Seasons := do
  -- check_max_simulation_days
  if ey - sy > 580 then throw Err.value
  let start ← toDate sy sm sd
  let endD ← toDate ey em ed
  -- time_span = date_range(start, end); step_end_time = time_span[1]
  let n := (endD - start + 1).toNat
  if n < 2 then throw Err.index
  let (plantYears, harvestYears) ← yearLists sy ey em ed pm pd hm hd endD
  finishSeasons start n plantYears harvestYears pm pd hm hd

end Aqua.Calendar
