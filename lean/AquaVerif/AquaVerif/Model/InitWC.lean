import AquaVerif.Model.SoilBuild
/-
Model of `initialize/read_model_initial_conditions.py` from line 98: adjusted field capacity at
the start (the water-table adjustment, rounded to 3 decimals), the per-layer hydrology table
(`groupby("Layer").mean()`), the initial water content in its 3 types × 2 methods, the
`water_table == 1 ∧ Prop ∧ last == "FC"` override, saturation below the water table.

The implementation uses **two different mid-depths**: `profile.zMid` (stale after deepening,
`Comp.zMid`) for the field-capacity adjustment and `wt_in_soil`, and
`comp_mid = ([0] + dzsum[:-1] + dzsum)/2` (recomputed from `dzsum`) for the depth interpolation
and the saturation below the water table.  Both are mirrored.
-/

namespace Aqua
section
variable {α : Type} [Add α] [Sub α] [Mul α] [Div α] [Neg α] [LT α] [LE α]
  [DecidableLT α] [DecidableLE α] [OfScientific α] [NatCast α] [OfNat α 0] [OfNat α 1]
  [OfNat α 2] [OfNat α 10] [OfNat α 100]

/-! ### `np.interp` -/

/-- `np.interp(x, xp, fp)` for one `x` and `xp` sorted increasingly (the data points as pairs).
numpy locates `j` with `xp[j] ≤ x < xp[j+1]`, returns `fp[0]` left of the first point, `fp[-1]`
right of the last, `fp[j]` when `x = xp[j]`, else `slope*(x − xp[j]) + fp[j]`. `lo` is the point
`(xp[j], fp[j])` found so far. -/
def interpGo (x : α) : (α × α) → List (α × α) → α
  | lo, [] => lo.2
  | lo, p :: ps =>
    if p.1 ≤ x then interpGo x p ps
    else if lo.1 ≤ x ∧ x ≤ lo.1 then lo.2
    else (p.2 - lo.2) / (p.1 - lo.1) * (x - lo.1) + lo.2

def interp (x : α) : List (α × α) → Option α
  | [] => none                                   -- numpy raises `ValueError` on empty `xp`
  | p :: ps => some (if x < p.1 then p.2 else interpGo x p ps)

/-! ### adjusted field capacity at the start -/

def xmaxOf (F : Fn α) (fc : α) : α :=
  if fc ≤ 0.1 then 1
  else if 0.3 ≤ fc then 2
  else F.exp ((2 + 0.3 * (fc - 0.1) / 0.2) * F.log 10) / 100

/-- the `while compi >= 0` loop, from the bottom compartment upwards (argument: the profile
reversed).  `dFC = (dV / (Xmax ** 2)) * ((zMid - (z_gw - Xmax)) ** 2)`: both squares are `**` on
scalars (C `pow(·, 2.0)`) here — unlike `check_groundwater_table`, where the divisor is a product.  Result in the same (reversed) order, before rounding. -/
def fcAdjUp (F : Fn α) (zgw : α) : List (Comp α) → List α
  | [] => []
  | c :: above =>
    let xmax := xmaxOf F c.thFC
    if zgw < 0 ∨ xmax ≤ zgw - c.zMid then
      c.thFC :: above.map (·.thFC)
    else
      (if c.thS ≤ c.thFC then c.thFC
       else if zgw ≤ c.zMid then c.thS
       else c.thFC + (c.thS - c.thFC) / (F.pow xmax 2) *
              (F.pow (c.zMid - (zgw - xmax)) 2)) :: fcAdjUp F zgw above

/-- `InitCond.th_fc_Adj` (before any aliasing) : unrounded `th_fc` without water table,
`round(·,3)` of the adjustment with one. -/
def fcAdjInit (F : Fn α) (waterTable : Bool) (zgw : α) (cs : List (Comp α)) : List α :=
  if waterTable then ((fcAdjUp F zgw cs.reverse).reverse).map F.round3 else cs.map (·.thFC)

/-- `wt_in_soil` -/
def wtInSoil (waterTable : Bool) (zgw : α) (cs : List (Comp α)) : Bool :=
  waterTable && decide (0 ≤ zgw) && cs.any (fun c => decide (zgw ≤ c.zMid))

/-! ### initial water content -/

inductive WcType | num | pct | prop
deriving Repr, DecidableEq
inductive WcMethod | layer | depth
deriving Repr, DecidableEq
/-- the strings of a `Prop` specification; `other` = any string that is none of the three
(the implementation then leaves the value at 0). -/
inductive PropVal | wp | fc | sat | other
deriving Repr, DecidableEq

/-- a data point: for `Layer` the layer number (`lay`), for `Depth` the depth (`depth`);
`num` is the number (m³/m³ or % TAW), `prop` the property name. -/
structure WcPoint (α : Type) where
  lay   : Nat
  depth : α
  num   : α
  prop  : PropVal

/-- `hydf.loc[layer]` → (th_wp, th_fc, th_s) means; `none` = `KeyError`. -/
def hydRow (l : Nat) (cs : List (Comp α)) : Option (α × α × α) :=
  if cs.any (fun c => c.layer == l) then
    some (layerMean l (·.thWP) cs, layerMean l (·.thFC) cs, layerMean l (·.thS) cs)
  else none

/-- layer at a depth: first compartment with `depth < dzsum`, else the last one's layer
(`none` only on an empty profile). -/
def layerAtGo (depth : α) : Nat → List (Comp α) → Nat
  | last, [] => last
  | _, c :: cs => if depth < c.dzsum then c.layer else layerAtGo depth c.layer cs

def layerAt (depth : α) : List (Comp α) → Option Nat
  | [] => none
  | c :: cs => some (layerAtGo depth c.layer (c :: cs))

/-- the value (m³/m³) of one data point -/
def pointValue (ty : WcType) (me : WcMethod) (cs : List (Comp α)) (p : WcPoint α) :
    Except String α :=
  match ty with
  | .num => .ok p.num
  | _ =>
    let lay? : Option Nat := match me with
      | .layer => some p.lay
      | .depth => layerAt p.depth cs
    match lay? with
    | none => .error "E:index"
    | some l =>
      match hydRow l cs with
      | none => .error "E:key"
      | some (wp, fc, s) =>
        match ty with
        | .pct => .ok (wp + p.num / 100 * (fc - wp))
        | _ => .ok (match p.prop with
            | .sat => s
            | .fc => fc
            | .wp => wp
            | .other => 0)

def pointValues (ty : WcType) (me : WcMethod) (cs : List (Comp α)) :
    List (WcPoint α) → Except String (List α)
  | [] => .ok []
  | p :: ps =>
    match pointValue ty me cs p with
    | .error e => .error e
    | .ok v =>
      match pointValues ty me cs ps with
      | .error e => .error e
      | .ok vs => .ok (v :: vs)

/-- `Layer` method: start from zeros, then for each data point in order
`thini[Layer == layer] = value`. -/
def fillLayers (cs : List (Comp α)) : List (Nat × α) → List α → List α
  | [], th => th
  | (l, v) :: rest, th =>
    fillLayers cs rest (List.zipWith (fun c t => if c.layer == l then v else t) cs th)

/-- `comp_mid = (append([0], dzsum[:-1]) + dzsum) / 2` -/
def compMidFrom : α → List (Comp α) → List α
  | _, [] => []
  | top, c :: cs => (top + c.dzsum) / 2 :: compMidFrom c.dzsum cs

def compMid (cs : List (Comp α)) : List α := compMidFrom 0 cs

def lastD : List (α × α) → Option (α × α)
  | [] => none
  | [p] => some p
  | _ :: ps => lastD ps

/-- the padded point list: zero point when `depths[0] > 0`, end point when
`depths[-1] < zSoil`. -/
def padPoints (zSoil : α) (pts : List (α × α)) : Option (List (α × α)) :=
  match pts with
  | [] => none                                    -- `depths[0]` : IndexError
  | p :: _ =>
    let pts1 := if 0 < p.1 then (0, p.2) :: pts else pts
    match lastD pts1 with
    | none => none
    | some q => some (if q.1 < zSoil then pts1 ++ [(zSoil, q.2)] else pts1)

def interpAll (pts : List (α × α)) : List α → Option (List α)
  | [] => some []
  | x :: xs =>
    match interp x pts with
    | none => none
    | some v => (interpAll pts xs).map (v :: ·)

/-- first index with `zgw ≤ mid` (`np.where(comp_mid >= z_gw)[0][0]`) -/
def firstMidGE (zgw : α) : List α → Option Nat
  | [] => none
  | m :: ms => if zgw ≤ m then some 0 else (firstMidGE zgw ms).map (· + 1)

/-- `for ii in range(idx, n): th[ii] = hydf.th_s.loc[Layer[ii]]` -/
def saturateFrom : Nat → List (Comp α) → List (Comp α) → List α → List α
  | 0, all, c :: cs, _ :: ts => layerMean c.layer (·.thS) all :: saturateFrom 0 all cs ts
  | n + 1, all, _ :: cs, t :: ts => t :: saturateFrom n all cs ts
  | _, _, _, _ => []

structure InitOut (α : Type) where
  fcAdjProf : List α      -- `profile["th_fc_Adj"]` → `SoilProfile.th_fc_Adj` (always rounded)
  fcAdjInit : List α      -- `InitCond.th_fc_Adj` (the same array object as `th` when aliased)
  th        : List α      -- `InitCond.th` (= `thini`, same array)
  wtInSoil  : Bool
  aliased   : Bool        -- ghost: `InitCond.th is InitCond.th_fc_Adj`

/-- `read_model_initial_conditions`, water-content part. -/
def initWC (F : Fn α) (cs : List (Comp α)) (waterTable : Bool) (zgw zSoil : α)
    (ty : WcType) (me : WcMethod) (pts : List (WcPoint α)) : Except String (InitOut α) :=
  let fcI := fcAdjInit F waterTable zgw cs
  let fcP := fcI.map F.round3
  let wt := wtInSoil waterTable zgw cs
  match pointValues ty me cs pts with
  | .error e => .error e
  | .ok vals =>
    let th0? : Except String (List α) :=
      match me with
      | .layer => .ok (fillLayers cs ((pts.map (·.lay)).zip vals) (cs.map (fun _ => 0)))
      | .depth =>
        match padPoints zSoil ((pts.map (·.depth)).zip vals) with
        | none => .error "E:index"
        | some padded =>
          match interpAll padded (compMid cs) with
          | none => .error "E:value"
          | some th => .ok th
    match th0? with
    | .error e => .error e
    | .ok th0 =>
      let lastIsFC? : Option Bool :=
        if waterTable && decide (ty = .prop) then
          match pts.getLast? with
          | none => none                           -- `datapoints[-1]` : IndexError
          | some p => some (decide (p.prop = .fc))
        else some false
      match lastIsFC? with
      | none => .error "E:index"
      | some al =>
        let th1 := if al then fcI else th0
        if wt then
          match firstMidGE zgw (compMid cs) with
          | none => .error "E:index"
          | some idx =>
            let th2 := saturateFrom idx cs cs th1
            .ok { fcAdjProf := fcP, fcAdjInit := if al then th2 else fcI, th := th2,
                  wtInSoil := wt, aliased := al }
        else
          .ok { fcAdjProf := fcP, fcAdjInit := fcI, th := th1, wtInSoil := wt, aliased := al }

end
end Aqua
