import AquaVerif.Model.RootZone
/-
Model of `aquacrop/solution/irrigation.py` (irrigation depth of the day for the six irrigation
methods, seasonal cap, cumulative counter) and of the schedule re-indexing done by
`aquacrop/initialize/read_irrigation_management.py` for method 3.

The Python indexes `IrrMngt_Schedule[time_step_counter]`; the model receives that single value
(`sched`, `none` = the index is out of range, Python `IndexError`).

Mirrored oddities:
  * `index = int(GrowthStage) - 1` — growth stage 0 gives index −1 which *wraps* to `SMT[3]`;
    stages above 4 raise `IndexError`;
  * method 2 with `IrrInterval = 0` raises `ZeroDivisionError`; `nDays = DAP − 1` is −1 for
    `DAP = 0` (Python's `%` then gives `interval − 1`, i.e. 0 only for interval 1) — integer
    arithmetic is used for the test;
  * an irrigation method outside 0…5 leaves `Irr` unbound (`UnboundLocalError`);
  * off season `IrrCum` is *reset* to 0 before the seasonal-cap test.
-/

namespace Aqua

/-- irrigation management parameters read by `irrigation` -/
structure IrrParams (α : Type) where
  method : Nat
  smt : Fin 4 → α
  appEff : α
  maxIrr : α
  interval : Nat
  depth : α
  maxSeason : α

/-- how the Python call fails -/
inductive IrrErr where
  | rootZone   -- `root_zone_water` raised (IndexError / AssertionError)
  | index      -- `SMT[index]` or `Schedule[idx]` out of range
  | assert     -- `assert Irr >= 0`
  | zerodiv    -- `nDays % 0`
  | unbound    -- unknown method: `Irr` referenced before assignment
deriving DecidableEq, Repr

structure IrrOut (α : Type) where
  depletion : α
  taw : α
  irrCum : α
  irr : α
  /-- ghost: branch id `1000·cap + 100·abvFc + 10·method + fired` (off season: method digit 9) -/
  branch : Nat

/-- `SMT[int(GrowthStage) - 1]` for a length-4 array: stage 0 wraps to the last entry. -/
def smtIndex : Nat → Option (Fin 4)
  | 0 => some 3
  | 1 => some 0
  | 2 => some 1
  | 3 => some 2
  | 4 => some 3
  | _ => none

section
variable {α : Type} [Add α] [Sub α] [Mul α] [Div α] [Neg α] [LT α] [LE α]
  [DecidableLT α] [DecidableLE α] [OfScientific α] [OfNat α 0] [OfNat α 1] [OfNat α 100]
  [OfNat α 1000]

/-- gross requirement limited to the event maximum:
`min(MaxIrr, max(0, Depletion) * ((100 - AppEff) + 100) / 100)` -/
def irrGross (P : IrrParams α) (depletion : α) : α :=
  pmin P.maxIrr (pmax 0 depletion * ((100 - P.appEff + 100) / 100))

/-- the `if/elif` chain over the irrigation method: `Irr` before `max(0, Irr)`, and whether an
event "fired" (ghost). -/
def irrDemand (P : IrrParams α) (stage : Nat) (depletion taw : α) (dap : Nat)
    (sched : Option α) : Except IrrErr (α × Nat) :=
  if P.method = 0 then .ok (0, 0)
  else if P.method = 1 then
    match smtIndex stage with
    | none => .error .index
    | some i =>
      if 1 - P.smt i / 100 < depletion / taw then .ok (irrGross P depletion, 1)
      else .ok (0, 0)
  else if P.method = 2 then
    if P.interval = 0 then .error .zerodiv
    else if ((dap : Int) - 1) % (P.interval : Int) = 0 then .ok (irrGross P depletion, 1)
    else .ok (0, 0)
  else if P.method = 3 then
    match sched with
    | none => .error .index
    | some s => if 0 ≤ s then .ok (pmin P.maxIrr s, 1) else .error .assert
  else if P.method = 4 then .ok (0, 0)
  else if P.method = 5 then .ok (pmin P.maxIrr P.depth, 1)
  else .error .unbound

/-- seasonal cap: `if IrrCum + Irr > MaxIrrSeason: Irr = max(0, MaxIrrSeason - IrrCum)` -/
def irrCap (maxSeason irrCum x : α) : α :=
  if maxSeason < irrCum + x then pmax 0 (maxSeason - irrCum) else x

/-- the common tail: seasonal cap and `IrrCum += Irr` -/
def irrFinish (P : IrrParams α) (depletion taw irrCum irr : α) (br : Nat) : IrrOut α :=
  let irr' := irrCap P.maxSeason irrCum irr
  { depletion := depletion, taw := taw, irrCum := irrCum + irr', irr := irr',
    branch := (if P.maxSeason < irrCum + irr then 1000 else 0) + br }

/-- water above field capacity in the root zone (`AbvFc`) -/
def abvFc (rz : RZ α) (zRoot zMin : α) : α :=
  if rz.thFC < rz.thAct then (rz.thAct - rz.thFC) * 1000 * pmax zRoot zMin else 0

/-- `Depletion = Dr + (Tpot + Epot - Rain + Runoff - AbvFc)` -/
def irrDepletion (rz : RZ α) (ePot tPot zRoot zMin rain runoff : α) : α :=
  rz.drRz + (tPot + ePot - rain + runoff - abvFc rz zRoot zMin)

/-- `irrigation(...)` → `(Depletion, TAW, IrrCum, Irr)`. -/
def irrigation (F : Fn α) (P : IrrParams α) (cells : List (Cell α)) (growthStage : Nat)
    (irrCum ePot tPot zRoot : α) (dap : Nat) (sched : Option α) (zMin aer zTop : α) (gs : Bool)
    (rain runoff : α) : Except IrrErr (IrrOut α) :=
  if gs then
    match rootZoneWater F cells zRoot zTop zMin aer with
    | none => .error .rootZone
    | some rz =>
      let depletion := irrDepletion rz ePot tPot zRoot zMin rain runoff
      let stage := if dap = 1 then 1 else growthStage
      match irrDemand P stage depletion rz.tawRz dap sched with
      | .error e => .error e
      | .ok (irr0, fired) =>
        .ok (irrFinish P depletion rz.tawRz irrCum (pmax 0 irr0)
              ((if rz.thFC < rz.thAct then 100 else 0) + 10 * P.method + fired))
  else
    .ok (irrFinish P 0 0 0 0 90)

/-! ### schedule re-indexing (`read_irrigation_management`, method 3) -/

/-- does day `d` occur among the schedule dates? -/
def dayMem (d : Int) : List (Int × α) → Bool
  | [] => false
  | (k, _) :: xs => if k = d then true else dayMem d xs

/-- are all schedule dates distinct? (pandas refuses to reindex an axis with duplicate labels) -/
def daysUnique : List (Int × α) → Bool
  | [] => true
  | (k, _) :: xs => if dayMem k xs then false else daysUnique xs

/-- depth scheduled for day `d`, `0` (the `fill_value`) when the day is not in the schedule -/
def depthOn (d : Int) : List (Int × α) → α
  | [] => 0
  | (k, v) :: xs => if k = d then v else depthOn d xs

/-- `df.reindex(time_span, fill_value=0)` for the window `[start, start+n)`;
`none` = pandas raises `ValueError: cannot reindex on an axis with duplicate labels`. -/
def scheduleReindex (sched : List (Int × α)) (start : Int) (n : Nat) : Option (List α) :=
  if daysUnique sched then some ((List.range n).map fun (i : Nat) => depthOn (start + (i : Int)) sched)
  else none

end
end Aqua
