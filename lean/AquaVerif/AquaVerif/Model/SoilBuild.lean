import AquaVerif.Model.Profile
/-
Model of the soil-profile builder (property C18):

  * `aquacrop/entities/soil.py`        : `Soil.__init__`, `create_df`, `add_layer`, `fill_nan`,
                                         `add_capillary_rise_params`
  * `initialize/read_model_parameters` : lines 44–56 (`fill_nan` + the deepening `while` loop)
  * `initialize/create_soil_profile`   : copy of the data-frame columns into `SoilProfile`
  * `initialize/compute_variables`     : lines 47–77 (`rew`, `cn` from `Ksat`)

Geometry is kept in **integer centimetres** (`Nat`): `fill_nan` rounds every `dz` to two decimals
and `dzsum = cumsum(dz).round(2)`, so on inputs that are whole centimetres the float arrays are
exactly `cm/100` (checked bit for bit by the tie).  Conversion to metres (`toMetres`) is the only
place where the number type `α` enters the geometry.

Faithfully reproduced oddities of the implementation (all visible in the output):

  * `create_df` computes `zBot`, `z_top`, `zMid` once; `fill_nan` recomputes only `dzsum`, `zSoil`,
    `nComp`.  After the deepening loop has changed `dz`, the three columns are **stale**.
    `GComp.zMid2` is the stale value the implementation keeps, `GComp.mid2` the geometric one.
  * (fixed in repo commit b09df61) the deepening loop had no exit when no compartment was thinner
    than 25 cm; now the bottom compartment is thickened in that case.
  * comparisons of the later layers (`thickness + last >= dzsum`) are raw float comparisons; the
    model is parametric in the comparison (`ge2`), instantiated with the float comparison in the
    driver and with the exact comparison on centimetres in the proofs.
  * a layer that captures no compartment does not consume a layer number
    (`num_layers = len(profile.dropna().Layer.unique())`).
-/

namespace Aqua

/-! ### Geometry (integer centimetres) -/

/-- geometry of one compartment in cm.  `zBot`, `zTop` are the values `create_df` computed from
the *initial* thicknesses (never refreshed); `dz`, `dzsum` are current. -/
structure GComp where
  dz    : Nat
  dzsum : Nat
  zBot  : Nat
  zTop  : Nat
deriving Repr, DecidableEq

/-- twice the mid-depth **as the implementation stores it** (`zMid = (z_top + zBot)/2`), half-cm. -/
def GComp.zMid2 (g : GComp) : Nat := g.zTop + g.zBot
/-- twice the geometrically correct mid-depth `dzsum − dz/2`, half-cm. -/
def GComp.mid2 (g : GComp) : Nat := 2 * g.dzsum - g.dz

/-- `create_df`: `dzsum = cumsum(dz)`, `zBot = dzsum`, `z_top = zBot − dz`. -/
def buildGeoFrom : Nat → List Nat → List GComp
  | _, [] => []
  | acc, d :: ds =>
    { dz := d, dzsum := acc + d, zBot := acc + d, zTop := acc + d - d } :: buildGeoFrom (acc + d) ds

def buildGeometry (dzCm : List Nat) : List GComp := buildGeoFrom 0 dzCm

/-- `fill_nan` after `dz` changed: new `dz`, `dzsum = cumsum(dz)`; `zBot`, `zTop` untouched. -/
def refreshFrom : Nat → List GComp → List Nat → List GComp
  | acc, g :: gs, d :: ds =>
    { dz := d, dzsum := acc + d, zBot := g.zBot, zTop := g.zTop } :: refreshFrom (acc + d) gs ds
  | _, _, _ => []

def sumNat : List Nat → Nat
  | [] => 0
  | d :: ds => d + sumNat ds

/-! ### Deepening loop -/

/-- one pass of `for i in reversed(index): if dz[i] < 0.25: dz[i] += 0.1; break`:
the **last** entry below 25 cm is raised by 10 cm; `none` when the `for` ends without `break`. -/
def bumpLast : List Nat → Option (List Nat)
  | [] => none
  | d :: ds =>
    match bumpLast ds with
    | some ds' => some (d :: ds')
    | none => if d < 25 then some ((d + 10) :: ds) else none

/-- the `else:` branch of the `for` (no compartment below 25 cm): the **bottom** compartment is
raised by 10 cm.  `none` on an empty profile (`index[-1]` raises `IndexError`). -/
def bumpBottom : List Nat → Option (List Nat)
  | [] => none
  | [d] => some [d + 10]
  | d :: ds => (bumpBottom ds).map (d :: ·)

/-- one iteration of the `while` body. -/
def deepenStep (dz : List Nat) : Option (List Nat) :=
  match bumpLast dz with
  | some dz' => some dz'
  | none => bumpBottom dz

/-- `while zSoil < Zmax + 0.1: …`.  `more zSoil` is the loop condition (a float comparison in the
implementation, see `moreOf`).  Returns the final thicknesses and the number of steps (ghost).
Every step adds 10 cm, so the loop ends as soon as `more` turns false; `E:fuel` is returned when
the fuel runs out first (never with the fuel of lemma `deepen_terminates`).
(Before repo commit b09df61 the `for` had no `else:`: with no compartment below 25 cm the `while`
never ended.) -/
def deepen (more : Nat → Bool) : Nat → List Nat → Nat → Except String (List Nat × Nat)
  | fuel, dz, k =>
    if more (sumNat dz) then
      match fuel with
      | 0 => .error "E:fuel"
      | fuel + 1 =>
        match deepenStep dz with
        | none => .error "E:index"
        | some dz' => deepen more fuel dz' (k + 1)
    else .ok (dz, k)

/-! ### Layer assignment -/

/-- state of one row of the `Layer` column: `none` = NaN, `some (layer number, index of the
`add_layer` call that captured the row)`. -/
abbrev Asg := Option (Nat × Nat)

def dedup : List Nat → List Nat
  | [] => []
  | x :: xs => if (dedup xs).contains x then dedup xs else x :: dedup xs

/-- `len(profile.dropna().Layer.unique())` -/
def numAssigned (col : List Asg) : Nat :=
  (dedup (col.filterMap (fun a => a.map Prod.fst))).length

/-- `profile[profile.Layer == k].dzsum.values[-1]` (`none` = `IndexError`). -/
def lastOf (k : Nat) : List Asg → List Nat → Option Nat
  | a :: as, s :: ss =>
    match lastOf k as ss with
    | some r => some r
    | none => match a with
      | some (l, _) => if l = k then some s else none
      | none => none
  | _, _ => none

def zipAsg (f : Nat → Asg → Asg) : List Nat → List Asg → List Asg
  | s :: ss, a :: as => f s a :: zipAsg f ss as
  | _, _ => []

/-- one `add_layer` call (layer-number column only).  `τ` is the type of thicknesses,
`ge1 t s` is `round(t,2) >= round(s,2)`, `ge2 t last s` is `t + last >= s`. -/
def addLayer {τ : Type} (ge1 : τ → Nat → Bool) (ge2 : τ → Nat → Nat → Bool)
    (dzsum : List Nat) (col : List Asg) (call : Nat) (t : τ) : Except String (List Asg) :=
  let nl := numAssigned col + 1
  if nl = 1 then
    .ok (zipAsg (fun s a => if ge1 t s then some (1, call) else a) dzsum col)
  else
    match lastOf (nl - 1) col dzsum with
    | none => .error "E:index"
    | some last =>
      .ok (zipAsg (fun s a => if ge2 t last s && a.isNone then some (nl, call) else a) dzsum col)

def addLayers {τ : Type} (ge1 : τ → Nat → Bool) (ge2 : τ → Nat → Nat → Bool)
    (dzsum : List Nat) : List Asg → Nat → List τ → Except String (List Asg)
  | col, _, [] => .ok col
  | col, call, t :: ts =>
    match addLayer ge1 ge2 dzsum col call t with
    | .error e => .error e
    | .ok col' => addLayers ge1 ge2 dzsum col' (call + 1) ts

/-- `DataFrame.ffill()` on the layer column. -/
def ffillFrom : Asg → List Asg → List Asg
  | _, [] => []
  | prev, a :: as =>
    match a with
    | some x => some x :: ffillFrom (some x) as
    | none => prev :: ffillFrom prev as

/-- `Layer.astype(int)`: raises when a NaN is left (rows above the first assigned one, or no
layer at all). -/
def allSome : List Asg → Except String (List (Nat × Nat))
  | [] => .ok []
  | none :: _ => .error "E:nanlayer"
  | some x :: as =>
    match allSome as with
    | .error e => .error e
    | .ok r => .ok (x :: r)

/-- all `add_layer` calls followed by `fill_nan`: per compartment (layer number, call index). -/
def assignLayersG {τ : Type} (ge1 : τ → Nat → Bool) (ge2 : τ → Nat → Nat → Bool)
    (dzsum : List Nat) (thick : List τ) : Except String (List (Nat × Nat)) :=
  match addLayers ge1 ge2 dzsum (dzsum.map (fun _ => none)) 0 thick with
  | .error e => .error e
  | .ok col => allSome (ffillFrom none col)

/-- exact comparisons on whole centimetres -/
def natGe1 (t s : Nat) : Bool := decide (s ≤ t)
def natGe2 (t last s : Nat) : Bool := decide (s ≤ t + last)

/-- the layer number of every compartment, thicknesses in whole centimetres. -/
def assignLayers (dzsumCm : List Nat) (thickCm : List Nat) : Except String (List Nat) :=
  match assignLayersG natGe1 natGe2 dzsumCm thickCm with
  | .error e => .error e
  | .ok r => .ok (r.map Prod.fst)

/-! ### Hydraulic values -/

section
variable {α : Type} [Add α] [Sub α] [Mul α] [Div α] [Neg α] [LT α] [LE α]
  [DecidableLT α] [DecidableLE α] [OfScientific α] [NatCast α] [OfNat α 0] [OfNat α 1]
  [OfNat α 2] [OfNat α 4] [OfNat α 8] [OfNat α 9] [OfNat α 46] [OfNat α 61] [OfNat α 72]
  [OfNat α 77] [OfNat α 750] [OfNat α 36] [OfNat α 347] [OfNat α 864] [OfNat α 100] [OfNat α 1000]
  [OfNat α 10000] [OfNat α 100000]

/-- arguments of one `add_layer` call -/
structure LayerSpec (α τ : Type) where
  thick : τ
  wp    : α
  fc    : α
  s     : α
  ksat  : α
  pen   : α

/-- `tau = round(0.0866*Ksat**0.35, 2)` clipped to [0,1] (Python floats: `F.pyRound2`). -/
def tauOf (F : Fn α) (ksat : α) : α :=
  let t := F.pyRound2 (0.0866 * F.pow ksat 0.35)
  if 1 < t then 1 else if t < 0 then 0 else t

/-- cm → m -/
def cmToM (n : Nat) : α := (n : α) / 100

/-- the float columns of one compartment as the implementation computes them:
`z_top = zBot − dz₀` and `zMid = (z_top + zBot)/2` in the number type, where `dz₀` is the
*initial* thickness (`g.zBot − g.zTop` in cm). -/
structure GeoM (α : Type) where
  dz    : α
  dzsum : α
  zBot  : α
  zTop  : α
  zMid  : α

def toMetres (g : GComp) : GeoM α :=
  let zb : α := cmToM g.zBot
  let zt : α := zb - cmToM (g.zBot - g.zTop)
  { dz := cmToM g.dz, dzsum := cmToM g.dzsum, zBot := zb, zTop := zt, zMid := (zt + zb) / 2 }

/-- Kahan-compensated running sum, as `pandas` `group_mean` does (`(sum, compensation)`). -/
def kahan : α → α → List α → α
  | s, _, [] => s
  | s, c, v :: vs =>
    let y := v - c
    let t := s + y
    let c' := t - s - y
    kahan t (if c' ≤ c' then c' else 0) vs

/-- `groupby("Layer").mean()` for one group -/
def kmean (xs : List α) : α := kahan 0 0 xs / (xs.length : α)

/-- the values of column `f` in the group of layer `l` -/
def layerVals (l : Nat) (f : Comp α → α) (cs : List (Comp α)) : List α :=
  (cs.filter (fun c => c.layer == l)).map f

def layerMean (l : Nat) (f : Comp α → α) (cs : List (Comp α)) : α := kmean (layerVals l f cs)

/-- `add_capillary_rise_params` for one layer, from the layer means; `none` = a failed
`assert aCR != 0` / `assert bCR != 0`. -/
def crParams (F : Fn α) (thwp thfc ths ksat : α) : Option (α × α) :=
  let aSandy := -0.3112 - ksat / 100000
  let bSandy := -1.4936 + 0.2416 * F.log ksat
  let aLoamy := -0.4986 + 9 * ksat / 100000
  let bLoamy := -2.1320 + 0.4778 * F.log ksat
  let aSC := -0.5677 - 4 * ksat / 100000
  let bSC := -3.7189 + 0.5922 * F.log ksat
  let aSilt := -0.6366 + 8 * ksat / 10000
  let bSilt := -1.9165 + 0.7063 * F.log ksat
  let ab : α × α :=
    if ths ≤ 0.55 then
      if 0.20 ≤ thwp then
        if 0.49 ≤ ths ∧ 0.40 ≤ thfc then (aSilt, bSilt) else (aSC, bSC)
      else
        if thfc < 0.23 then (aSandy, bSandy)
        else if 0.16 < thwp ∧ ksat < 100 then (aSC, bSC)
        else if thwp < 0.06 ∧ thfc < 0.28 ∧ 750 < ksat then (aSandy, bSandy)
        else (aLoamy, bLoamy)
    else (aSilt, bSilt)
  if (ab.1 ≤ 0 ∧ 0 ≤ ab.1) ∨ (ab.2 ≤ 0 ∧ 0 ≤ ab.2) then none else some ab

/-- write `aCR`, `bCR` of every layer present (`for layer in hydf.index.unique()`); each
compartment receives the parameters of its own layer. -/
def addCR (F : Fn α) (all : List (Comp α)) : List (Comp α) → Option (List (Comp α))
  | [] => some []
  | c :: cs =>
    match crParams F (layerMean c.layer (·.thWP) all) (layerMean c.layer (·.thFC) all)
        (layerMean c.layer (·.thS) all) (layerMean c.layer (·.ksat) all) with
    | none => none
    | some (a, b) =>
      match addCR F all cs with
      | none => none
      | some r => some ({ c with aCR := a, bCR := b } :: r)

/-- `compute_variables`: readily evaporable water. -/
def rewOf (F : Fn α) (adjRew : Bool) (rew fc0 dry0 zSurf : α) : α :=
  if adjRew = false then F.round2 (1000 * (fc0 - dry0) * zSurf) else rew

/-- `compute_variables`: curve number from `Ksat` of the top compartment; `none` = `assert ksat > 0`
fails. -/
def cnOf (calcCN : Bool) (cn ksat : α) : Option α :=
  if calcCN then
    if 864 < ksat then some 46
    else if 347 < ksat then some 61
    else if 36 < ksat then some 72
    else if 0 < ksat then some 77
    else none
  else some cn

/-- everything the builder produces -/
structure SoilOut (α : Type) where
  geo    : List GComp            -- final geometry, cm (with the stale `zBot`/`zTop`)
  geoM   : List (GeoM α)         -- the float columns
  comps  : List (Comp α)         -- profile rows (dz, dzsum, zMid as in `geoM`)
  call   : List Nat              -- which `add_layer` call captured each compartment (ghost)
  zSoil  : Nat                   -- cm
  steps  : Nat                   -- deepening steps (ghost)
  rew    : α
  cn     : α
  zTopS  : α                     -- `Soil.z_top = max(z_top, dz[0])`

def nthSpec {τ : Type} : List (LayerSpec α τ) → Nat → Option (LayerSpec α τ)
  | [], _ => none
  | x :: _, 0 => some x
  | _ :: xs, n + 1 => nthSpec xs n

def mkComps {τ : Type} (F : Fn α) (specs : List (LayerSpec α τ)) :
    List GComp → List (Nat × Nat) → Except String (List (Comp α))
  | g :: gs, (l, k) :: ls =>
    match nthSpec specs k with
    | none => .error "E:index"
    | some sp =>
      match mkComps F specs gs ls with
      | .error e => .error e
      | .ok r =>
        let m : GeoM α := toMetres g
        .ok ({ dz := m.dz, dzsum := m.dzsum, zMid := m.zMid, thS := sp.s, thFC := sp.fc,
               thWP := sp.wp, thDry := sp.wp / 2, tau := tauOf F sp.ksat, ksat := sp.ksat,
               pen := sp.pen, aCR := 0, bCR := 0, layer := l } :: r)
  | _, _ => .ok []

/-- `Soil(...)` + `add_layer…` + `read_model_parameters` (fill_nan, deepening) +
`compute_variables` (capillary-rise parameters, rew, cn) + `create_soil_profile`.
`more` is the deepening loop condition on the soil depth in cm (`moreOf Zmax`), `fuel` bounds the
number of deepening steps (`Zmax[cm]/10 + 5` always suffices, lemma `deepen_terminates_cm`). -/
def soilProfile {τ : Type} (F : Fn α) (ge1 : τ → Nat → Bool) (ge2 : τ → Nat → Nat → Bool)
    (more : Nat → Bool) (fuel : Nat) (dzCm : List Nat) (specs : List (LayerSpec α τ))
    (waterTable adjRew calcCN : Bool) (rew zSurf cn zTopArg : α) : Except String (SoilOut α) :=
  match dzCm with
  | [] => .error "E:index"                       -- `dz[0]` in `Soil.__init__`
  | d0 :: _ =>
    let geo0 := buildGeometry dzCm
    match assignLayersG ge1 ge2 (geo0.map (·.dzsum)) (specs.map (·.thick)) with
    | .error e => .error e
    | .ok lay =>
      match deepen more fuel dzCm 0 with
      | .error e => .error e
      | .ok (dz', k) =>
        let geo := refreshFrom 0 geo0 dz'
        match mkComps F specs geo lay with
        | .error e => .error e
        | .ok comps0 =>
          let comps? : Option (List (Comp α)) :=
            if waterTable then addCR F comps0 comps0 else some comps0
          match comps? with
          | none => .error "E:assert"
          | some comps =>
            match comps with
            | [] => .error "E:index"
            | c0 :: _ =>
              match cnOf calcCN cn c0.ksat with
              | none => .error "E:assert"
              | some cn' =>
                .ok { geo := geo, geoM := geo.map toMetres, comps := comps,
                      call := lay.map Prod.snd, zSoil := sumNat dz', steps := k,
                      rew := rewOf F adjRew rew c0.thFC c0.thDry zSurf, cn := cn',
                      zTopS := pmax zTopArg (cmToM d0) }

/-- the loop condition `zSoil < Zmax + 0.1` on a soil depth in whole centimetres. -/
def moreOf (zmax : α) (zSoilCm : Nat) : Bool := decide (cmToM zSoilCm < zmax + 0.1)

end
end Aqua
