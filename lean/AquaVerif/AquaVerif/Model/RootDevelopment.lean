import AquaVerif.Model.Profile
/-
Model of `aquacrop/solution/root_development.py` (current source: the restrictive-layer
limitation is applied to yesterday's *and* to today's potential depth, `for ZrIn in (ZrOld, Zr)`).

Python partiality that is modelled (`Except.error`):
* `E:unbound`  – `CalendarType ∉ {1,2}` leaves `tAdj` unassigned;
* `E:index`    – `np.argwhere(prof.dzsum >= ZiTmp)[0]` when the new root tip lies below the
                 profile; `l_idx[0]` when a layer number `1..nLayer` has no compartment;
* `E:zerodiv`  – Python-float divisions: `1 / Crop.fshape_r` (only evaluated on the curved part of
                 the potential-depth curve) and, in the `rCor` update, `ZrPot / Zroot`, `… / SxBot`
                 when `ZrPot` is a Python float (i.e. did not come out of `np.power`; numpy scalars
                 divide to `inf`/`nan` like `Float`).
-/

namespace Aqua
section
variable {α : Type} [Add α] [Sub α] [Mul α] [Div α] [Neg α] [LT α] [LE α]
  [DecidableLT α] [DecidableLE α] [OfScientific α] [OfNat α 0] [OfNat α 1] [OfNat α 2]
  [OfNat α 100]

/-! ### `ndarray.sum()` (numpy's pairwise summation, bit-exact) -/

/-- `for x in xs: res += x` -/
def sumFrom (acc : α) : List α → α
  | [] => acc
  | x :: xs => sumFrom (acc + x) xs

/-- the eight running lanes of numpy's unrolled loop: `r[j] += a[i+j]` for every complete
block of eight (`fuel` ≥ number of blocks). -/
def lanes8 : Nat → List α → List α → List α
  | 0, r, _ => r
  | fuel+1, r, xs =>
    if xs.length < 8 then r else lanes8 fuel (List.zipWith (· + ·) r (xs.take 8)) (xs.drop 8)

/-- `pairwise_sum` for `n ≤ 128` -/
def npSumBlock (a : List α) : α :=
  if a.length < 8 then sumFrom 0 a
  else
    let m := a.length - a.length % 8
    match lanes8 a.length (a.take 8) ((a.take m).drop 8) with
    | [r0, r1, r2, r3, r4, r5, r6, r7] =>
      sumFrom (((r0 + r1) + (r2 + r3)) + ((r4 + r5) + (r6 + r7))) (a.drop m)
    | _ => 0     -- unreachable (eight lanes)

/-- `pairwise_sum`: blocks of at most 128 elements, larger arrays split in halves (multiple of 8) -/
def npSumAux : Nat → List α → α
  | 0, a => npSumBlock a
  | fuel+1, a =>
    if a.length ≤ 128 then npSumBlock a
    else
      let n2 := a.length / 2
      let n2 := n2 - n2 % 8
      npSumAux fuel (a.take n2) + npSumAux fuel (a.drop n2)

/-- `arr.sum()` of a contiguous float64 array: `0 + pairwise_sum(arr)` -/
def npSum (a : List α) : α := 0 + npSumAux a.length a

/-! ### soil layers -/

/-- one soil layer as the limitation loop sees it: `prof.dz[l_idx].sum()` and
`prof.Penetrability[l_idx[0]]` (`none` when `l_idx` is empty) -/
abbrev Lay (α : Type) := α × Option α

/-- layer number `i`: the compartments with `prof.Layer == i` -/
def layerOf (i : Nat) (cells : List (Cell α)) : Lay α :=
  let sel := cells.filter (fun x => x.c.layer == i)
  (npSum (sel.map (·.c.dz)), sel.head?.map (·.c.pen))

/-- `Soil_nLayer = np.unique(prof.Layer).shape[0]` -/
def nLayers (cells : List (Cell α)) : Nat := (cells.map (·.c.layer)).eraseDups.length

/-- layers `1 … Soil_nLayer` -/
def layersOf (cells : List (Cell α)) : List (Lay α) :=
  (List.range (nLayers cells)).map (fun k => layerOf (k + 1) cells)

/-! ### limitation of a potential depth by restrictive layers -/

/-- `while (round(Zsoil, 2) <= Zmin) and (layeri < Soil_nLayer)`: returns the current layer,
the layers below it and `Zsoil`. -/
def limSkip (F : Fn α) (zmin : α) : Lay α → List (Lay α) → α → Lay α × List (Lay α) × α
  | cur, [], zs => (cur, [], zs)
  | cur, nxt :: rest, zs =>
    if F.round2 zs ≤ zmin then limSkip F zmin nxt rest (zs + nxt.1) else (cur, nxt :: rest, zs)

/-- `while EndProf == False` — `pen` is the penetrability of the current layer, `rest` the layers
below it (`rest = []` ⇔ `layeri == Soil_nLayer`). -/
def limLoop : α → List (Lay α) → α → α → α → α → Except String α
  | pen, [], zAdj, zRemain, _, _ => .ok (zAdj + (zRemain * (pen / 100)))
  | pen, nxt :: rest, zAdj, zRemain, zSoil, deltaZ =>
    let zTest := zAdj + (zRemain * (pen / 100))
    if (pen ≤ 0 ∧ 0 ≤ pen) ∨ zTest ≤ zSoil then .ok zTest
    else
      match nxt.2 with
      | none => .error "E:index"
      | some p' => limLoop p' rest zSoil (zRemain - (deltaZ / (pen / 100))) (zSoil + nxt.1) nxt.1

/-- body of `for ZrIn in (ZrOld, Zr)`: `ZrIn ↦ ZrOUT` -/
def limit (F : Fn α) (layers : List (Lay α)) (zmin zIn : α) : Except String α :=
  match layers with
  | [] => .error "E:index"
  | l0 :: rest =>
    match limSkip F zmin l0 rest l0.1 with
    | (cur, rest', zs) =>
      match cur.2 with
      | none => .error "E:index"
      | some p => limLoop p rest' zmin (zIn - zmin) zs (zs - zmin)

/-! ### potential rooting depth -/

structure RdCrop (α : Type) where
  calendarType : Nat      -- 1, 2; anything else: 0
  zmin : α
  zmax : α
  pctZmin : α
  emergence : α
  maxRooting : α
  fshapeR : α
  fshapeEx : α
  pUp1 : α                -- p_up[1]
  fshapeW1 : α            -- fshape_w[1]
  sxTop : α
  sxBot : α

def RdCrop.zini (C : RdCrop α) : α := C.zmin * (C.pctZmin / 100)
def RdCrop.t0 (F : Fn α) (C : RdCrop α) : α := F.round0 (C.emergence / 2)

/-- `t` falls on the curved part of the potential-depth curve -/
def RdCrop.mid (F : Fn α) (C : RdCrop α) (t : α) : Bool :=
  if C.maxRooting ≤ t then false else if t ≤ C.t0 F then false else true

/-- potential depth before the `Zmin` floor -/
def RdCrop.zrRaw (F : Fn α) (C : RdCrop α) (t : α) : α :=
  if C.maxRooting ≤ t then C.zmax
  else if t ≤ C.t0 F then C.zini
  else
    let x := (t - C.t0 F) / (C.maxRooting - C.t0 F)
    C.zini + ((C.zmax - C.zini) * F.pow x (1 / C.fshapeR))

/-- potential depth at (adjusted) time `t` -/
def RdCrop.zrPot (F : Fn α) (C : RdCrop α) (t : α) : α :=
  let z := C.zrRaw F t
  if z < C.zmin then C.zmin else z

/-- the potential depth is a numpy scalar (came out of `np.power` and was not floored) -/
def RdCrop.zrIsNp (F : Fn α) (C : RdCrop α) (t : α) : Bool :=
  C.mid F t && !(decide (C.zrRaw F t < C.zmin))

/-- the compartment `np.argwhere(prof.dzsum >= z).flatten()[0]` -/
def firstGECell (z : α) : List (Cell α) → Option (Cell α)
  | [] => none
  | x :: xs => if z ≤ x.c.dzsum then some x else firstGECell z xs

structure RdOut (α : Type) where
  zRoot : α
  rCor : α
  -- ghost outputs
  dZr : α        -- final expansion of the day
  dZr0 : α       -- expansion before the stress reductions
  zrPot : α      -- today's potential depth (before the layer limitation)
  zInit : α      -- `Zroot_init` after the day-1 reset
  br : Nat       -- branch bits, see `rootDevelopment`

/-- rate reduction for stomatal stress -/
def rdStomatal (F : Fn α) (C : RdCrop α) (trRatio dZr : α) : α :=
  if trRatio < 0.9999 then
    if 0 ≤ C.fshapeEx then dZr * trRatio
    else dZr * ((F.exp (trRatio * C.fshapeEx) - 1) / (F.exp C.fshapeEx - 1))
  else dZr

/-- the expansion after the dry-soil check in compartment `x` (the one the new root tip falls in),
with the branch bits 16 (fully inhibited) / 32 (partially inhibited) -/
def rdDryCell (F : Fn α) (C : RdCrop α) (x : Cell α) (dZr : α) : α × Nat :=
  let pZexp := C.pUp1 + ((1 - C.pUp1) / 2)
  let taw := x.c.thFC - x.c.thWP
  let thThr := x.c.thFC - (pZexp * taw)
  if x.th < thThr then
    if x.th ≤ x.c.thWP then (0, 16)
    else
      let wrel := (x.c.thFC - x.th) / taw
      let drel := 1 - ((1 - wrel) / (1 - pZexp))
      let ks := 1 - ((F.exp (drel * C.fshapeW1) - 1) / (F.exp C.fshapeW1 - 1))
      (dZr * ks, 32)
  else (dZr, 0)

/-- rate reduction for a dry expansion front -/
def rdDry (F : Fn α) (C : RdCrop α) (cells : List (Cell α)) (zInit dZr : α) :
    Except String (α × Nat) :=
  if 0.001 < dZr then
    match firstGECell (zInit + dZr) cells with
    | none => .error "E:index"
    | some x => let r := rdDryCell F C x dZr; .ok (r.1, 8 + r.2)
  else .ok (dZr, 0)

/-- `rCor` update (`isNp`: `ZrPot` is a numpy scalar) -/
def rdRCor (C : RdCrop α) (isNp : Bool) (zNew zrPot trRatio tPot : α) : Except String (α × Nat) :=
  if zNew < zrPot then
    if !isNp ∧ ((zNew ≤ 0 ∧ 0 ≤ zNew) ∨ (C.sxBot ≤ 0 ∧ 0 ≤ C.sxBot)) then .error "E:zerodiv"
    else
      let r := ((2 * (zrPot / zNew) * ((C.sxTop + C.sxBot) / 2)) - C.sxTop) / C.sxBot
      if 0 < tPot then
        let r2 := r * trRatio
        .ok (if r2 < 1 then 1 else r2, 256)
      else .ok (r, 256)
  else .ok (1, 0)

/-- water-table cap -/
def rdGwCap (C : RdCrop α) (waterTable : Nat) (zGW zNew : α) : α × Nat :=
  if waterTable = 1 ∧ 0 < zGW then
    if zGW < zNew then
      if zGW < C.zmin then (C.zmin, 512 + 1024) else (zGW, 512)
    else (zNew, 0)
  else (zNew, 0)

/-- expansion of the day before the stress reductions, from the two potential depths -/
def rdDZr0 (F : Fn α) (C : RdCrop α) (layers : List (Lay α)) (zrOld zr : α) :
    Except String (α × Nat) :=
  if C.zmin < zr then
    match limit F layers C.zmin zrOld with
    | .error e => .error e
    | .ok a =>
      match limit F layers C.zmin zr with
      | .error e => .error e
      | .ok b => .ok (b - a, if b < zr then 1 + 2048 else 1)
  else .ok (zr - zrOld, 0)

/-- the in-season part once `tAdj`, `tOld` are known -/
def rdSeason (F : Fn α) (C : RdCrop α) (cells : List (Cell α)) (tAdj tOld zInit trRatio cc ccNS : α)
    (germ : Bool) (tPot zGW : α) (waterTable : Nat) : Except String (RdOut α) :=
  if (C.fshapeR ≤ 0 ∧ 0 ≤ C.fshapeR) ∧ (C.mid F tOld ∨ C.mid F tAdj) then .error "E:zerodiv" else
  let zrOld := C.zrPot F tOld
  let zr := C.zrPot F tAdj
  match rdDZr0 F C (layersOf cells) zrOld zr with
  | .error e => .error e
  | .ok (dZr0, b0) =>
    let dZr1 := rdStomatal F C trRatio dZr0
    let b1 : Nat := if trRatio < 0.9999 then (if 0 ≤ C.fshapeEx then 2 else 4) else 0
    match rdDry F C cells zInit dZr1 with
    | .error e => .error e
    | .ok (dZr2, b2) =>
      let sen : Bool := decide (cc ≤ 0 ∧ 0.5 < ccNS)
      let dZr3 := if sen then 0 else dZr2
      let dZr4 := if germ then dZr3 else 0
      let zNew := zInit + dZr4
      match rdRCor C (C.zrIsNp F tAdj) zNew zr trRatio tPot with
      | .error e => .error e
      | .ok (rc, b3) =>
        let g := rdGwCap C waterTable zGW zNew
        .ok { zRoot := g.1, rCor := rc, dZr := dZr4, dZr0 := dZr0, zrPot := zr, zInit := zInit,
              br := b0 + b1 + b2 + (if sen then 64 else 0) + (if germ then 0 else 128) + b3 + g.2 }

/-- `root_development`.  Branch bits of the ghost `br`: 1 layer limitation evaluated, 2 linear /
4 exponential stomatal reduction, 8 dry-front check, 16 expansion fully / 32 partially inhibited,
64 canopy-death stop, 128 not germinated, 256 `rCor` recomputed, 512 water-table cap,
1024 cap floored at `Zmin`, 2048 today's limited depth is below the potential depth. -/
def rootDevelopment (F : Fn α) (C : RdCrop α) (cells : List (Cell α))
    (dap zRoot delayedCDs gddCum delayedGDDs trRatio cc ccNS : α) (germ : Bool)
    (rCor tPot zGW gdd : α) (gs : Bool) (waterTable : Nat) : Except String (RdOut α) :=
  if gs then
    let zInit := if dap ≤ 1 ∧ 1 ≤ dap then C.zmin else zRoot
    if C.calendarType = 1 then
      let tAdj := dap - delayedCDs
      rdSeason F C cells tAdj (tAdj - 1) zInit trRatio cc ccNS germ tPot zGW waterTable
    else if C.calendarType = 2 then
      let tAdj := gddCum - delayedGDDs
      rdSeason F C cells tAdj (tAdj - gdd) zInit trRatio cc ccNS germ tPot zGW waterTable
    else .error "E:unbound"
  else
    .ok { zRoot := 0, rCor := rCor, dZr := 0, dZr0 := 0, zrPot := 0, zInit := zRoot, br := 0 }

end
end Aqua
