import AquaVerif.Model.Profile
/-
Model of `aquacrop/solution/pre_irrigation.py`: on the first day after planting in net
irrigation mode (`irrigation_method == 4`, `dap == 1`) the compartments of the root zone are
raised to the threshold `thCrit = th_wp + NetIrrSMT/100 · (th_fc − th_wp)`.

`compRz = argwhere(dzsum >= rootdepth)[0]` and the loop is `range(compRz)`: the compartment that
contains the bottom of the root zone is *excluded* (mirrored as written).
`IndexError` when the rounded root depth exceeds the profile depth → `none`.

`rootdepth = round(max(z_root, Zmin), 2)`: the rounding applied depends on the *runtime type* of
the value `max` returns.  `Crop.Zmin` is a Python float; `NewCond.z_root` is a Python float on
some days (in particular on `dap == 1`, where `root_development` has just set it to
`float(Crop.Zmin)`) and a numpy scalar on others.  A numpy scalar is rounded by
scale-rint-unscale (`F.round2`), a Python float by correctly rounded decimal rounding
(`F.pyRound2`); the two differ on some 3-decimal inputs (0.645 → 0.64 resp. 0.65) and then select
different compartments.  The model is therefore parameterised by the rounding function
(`preIrrigationR`); `preIrrigationT` picks it from a flag the encoder derives from the runtime
type, `preIrrigation` is the numpy-scalar instance.  All lemmas hold for any rounding function.
-/

namespace Aqua
section
variable {α : Type} [Add α] [Sub α] [Mul α] [Div α] [Neg α] [LT α] [LE α]
  [DecidableLT α] [DecidableLE α] [OfScientific α] [OfNat α 0] [OfNat α 1] [OfNat α 100]
  [OfNat α 1000]

/-- `thCrit` of one compartment. -/
def preIrrCrit (smt : α) (c : Comp α) : α :=
  c.thWP + ((smt / 100) * (c.thFC - c.thWP))

/-- `for ii in range(compRz)`; accumulator `PreIrr`. -/
def preIrrLoop (smt : α) : Nat → List (Cell α) → α → List (Cell α) × α
  | 0, cs, acc => (cs, acc)
  | _+1, [], acc => ([], acc)
  | n+1, x :: xs, acc =>
    let thCrit := preIrrCrit smt x.c
    if x.th < thCrit then
      let r := preIrrLoop smt n xs (acc + ((thCrit - x.th) * 1000 * x.c.dz))
      ({ x with th := thCrit } :: r.1, r.2)
    else
      let r := preIrrLoop smt n xs acc
      (x :: r.1, r.2)

/-- `pre_irrigation(prof, Crop, InitCond, growing_season, IrrMngt)` reading `irrigation_method`,
`NetIrrSMT`, `InitCond.dap`, `.z_root`, `.th`, `Crop.Zmin`; returns `(cells, PreIrr)`.
`none` = `IndexError`. -/
def preIrrigationR (rnd : α → α) (cells : List (Cell α)) (gs : Bool) (irrMethod : Nat) (dap : Int)
    (zRoot zMin netIrrSMT : α) : Option (List (Cell α) × α) :=
  if gs then
    if irrMethod ≠ 4 ∨ dap ≠ 1 then some (cells, 0)
    else
      let rootdepth := rnd (pmax zRoot zMin)
      match firstGE rootdepth cells with
      | none => none
      | some compRz => some (preIrrLoop netIrrSMT compRz cells 0)
  else some (cells, 0)

/-- `npRound = true`: `max(z_root, Zmin)` is a numpy scalar (numpy rounding);
`false`: a Python float (Python's `round`). -/
def preIrrigationT (F : Fn α) (npRound : Bool) (cells : List (Cell α)) (gs : Bool)
    (irrMethod : Nat) (dap : Int) (zRoot zMin netIrrSMT : α) : Option (List (Cell α) × α) :=
  preIrrigationR (if npRound then F.round2 else F.pyRound2) cells gs irrMethod dap zRoot zMin
    netIrrSMT

/-- the numpy-scalar instance (signature of the work package). -/
def preIrrigation (F : Fn α) (cells : List (Cell α)) (gs : Bool) (irrMethod : Nat) (dap : Int)
    (zRoot zMin netIrrSMT : α) : Option (List (Cell α) × α) :=
  preIrrigationT F true cells gs irrMethod dap zRoot zMin netIrrSMT

end
end Aqua
