/-
Record of the crop parameters the *response functions* (property C17) read, as exact rationals,
and the decidable predicate `ResponseOK` collecting the premises of the C17 theorems.

This file is the interface for the table translator: `AquaVerif/Generated/CropTable.lean`
(generated from `aquacrop/entities/crops/crop_params.py` + the defaults of `entities/crop.py`)
is expected to define `cropTable : List CropResp`, and the obligation
`∀ c ∈ cropTable, ResponseOK c` is then closed by `decide +kernel`.

Values are the ones in force when the response functions are called:
`cgc`/`cdc` are the coefficients of the calendar mode the crop runs in (`CGC_CD`/`CDC_CD` for
calendar-day crops, `CGC`/`CDC` for GDD crops), `cc0 = PlantPop · SeedSize · 1e-8`.

Core Lean only (`Rat` is in core).
-/

namespace Aqua

/-- response-function parameters of one crop -/
structure CropResp where
  name : String
  /-- `p_up1..4` (expansion, stomata, senescence, pollination) -/
  pUp : Fin 4 → Rat
  /-- `p_lo1..4` -/
  pLo : Fin 4 → Rat
  /-- `fshape_w1..4` (the fourth is unused by `water_stress`) -/
  fshapeW : Fin 4 → Rat
  /-- `Tbase`, `Tupp` -/
  tbase : Rat
  tupp : Rat
  /-- `CC0`, `CCx`, `CGC`, `CDC` -/
  cc0 : Rat
  ccx : Rat
  cgc : Rat
  cdc : Rat
  /-- `beta` (early-senescence reduction of `p_up3`, %) -/
  beta : Rat
  /-- `fshape_b` (shape factor of the pollination temperature stress curves) -/
  fshapeB : Rat
  /-- `bsted`, `bface`, `fsink` (CO2 adjustment of the water productivity) -/
  bsted : Rat
  bface : Rat
  fsink : Rat

/-- a four-entry table `i ↦ a,b,c,d` -/
def vec4 (a b c d : Rat) : Fin 4 → Rat := fun i =>
  match i with
  | 0 => a
  | 1 => b
  | 2 => c
  | 3 => d

/-- the repository's reference CO2 concentration `CO2.ref_concentration` -/
def co2RefDefault : Rat := 369.41

/-- the premises of the C17 theorems on the raw parameters of a crop:
thresholds ordered `p_up i ≤ p_lo i ≤ 1`; the three exponential shape factors non-zero;
`Tbase ≤ Tupp`; `0 < CC0`, `0 < CCx ≤ 1`, `0 < CGC`, `0 ≤ CDC`; `0 ≤ beta ≤ 100`;
`0 ≤ fshape_b`; the CO2 premise (`CO2Params` of `Proofs/Response.lean`) at the reference
concentration 369.41 ppm: `0 ≤ bsted ≤ g` and `ref·g + 550·(g − bsted) < 1` for the
FACE-weighted coefficient `g = bsted·fsink + bface·(1 − fsink)`. -/
def ResponseOK (c : CropResp) : Prop :=
  (∀ i : Fin 4, c.pUp i ≤ c.pLo i) ∧ (∀ i : Fin 4, c.pLo i ≤ 1) ∧
  (∀ i : Fin 4, i.val < 3 → c.fshapeW i ≠ 0) ∧
  c.tbase ≤ c.tupp ∧
  0 < c.cc0 ∧ 0 < c.ccx ∧ c.ccx ≤ 1 ∧ 0 < c.cgc ∧ 0 ≤ c.cdc ∧
  0 ≤ c.beta ∧ c.beta ≤ 100 ∧
  0 ≤ c.fshapeB ∧
  (0 < co2RefDefault ∧ co2RefDefault < 550 ∧ 0 ≤ c.bsted ∧
    c.bsted ≤ c.bsted * c.fsink + c.bface * (1 - c.fsink) ∧
    co2RefDefault * (c.bsted * c.fsink + c.bface * (1 - c.fsink)) +
      550 * (c.bsted * c.fsink + c.bface * (1 - c.fsink) - c.bsted) < 1)

instance (c : CropResp) : Decidable (ResponseOK c) := by unfold ResponseOK; infer_instance

/-! Three catalogue entries (numbers from `crop_params.py`; `beta`, `fshape_b`, `bsted`, `bface`
are the defaults of `entities/crop.py`; calendar-day crops, so `cgc = CGC_CD`, `cdc = CDC_CD`). -/

def wheatResp : CropResp :=
  { name := "Wheat", pUp := vec4 0.2 0.65 0.7 0.85, pLo := vec4 0.65 1 1 1,
    fshapeW := vec4 5 2.5 2.5 1, tbase := 0, tupp := 26,
    cc0 := 4500000 * 1.5 / 100000000, ccx := 0.96, cgc := 0.04901, cdc := 0.07179,
    beta := 12, fshapeB := 13.8135, bsted := 0.000138, bface := 0.001165, fsink := 0.5 }

def maizeResp : CropResp :=
  { name := "Maize", pUp := vec4 0.14 0.69 0.69 0.8, pLo := vec4 0.72 1 1 1,
    fshapeW := vec4 2.9 6 2.7 1, tbase := 8, tupp := 30,
    cc0 := 75000 * 6.5 / 100000000, ccx := 0.96, cgc := 0.16312, cdc := 0.11691,
    beta := 12, fshapeB := 13.8135, bsted := 0.000138, bface := 0.001165, fsink := 0.5 }

def cottonResp : CropResp :=
  { name := "Cotton", pUp := vec4 0.2 0.75 0.75 0.85, pLo := vec4 0.7 1 1 1,
    fshapeW := vec4 3 2.5 2.5 1, tbase := 12, tupp := 35,
    cc0 := 120000 * 6 / 100000000, ccx := 0.98, cgc := 0.07611, cdc := 0.02917,
    beta := 12, fshapeB := 13.8135, bsted := 0.000138, bface := 0.001165, fsink := 0.5 }

end Aqua
