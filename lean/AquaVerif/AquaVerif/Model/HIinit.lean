import AquaVerif.Model.HIref
/-
Models of the two initialisation helpers of the harvest-index build-up
(`aquacrop/initialize/calculate_HIGC.py`, `aquacrop/initialize/calculate_HI_linear.py`), called
from `compute_variables` and, for GDD crops, again from `reset_initial_conditions`.

Both are `while` loops with a data-dependent exit: `whileFuel cond step fuel s` runs
`while cond(s): s = step(s)` for at most `fuel` iterations and answers `none` (driver: `E:fuel`)
when the condition still holds after them.  `Proofs/HarvestIndex.lean` characterises the result
(first exit of the iteration) and shows which fuel suffices (`hiLin`: `YldFormCD ≤ fuel`;
`higc`: as soon as the curve exceeds `0.98·HI0` within `fuel` steps, which happens for every
`YldFormCD > 0` — for `YldFormCD ≤ 0` the Python loop does not terminate at all).
-/

namespace Aqua

/-- `while cond(s): s = step(s)` with at most `fuel` iterations. -/
def whileFuel {σ : Type} (cond : σ → Bool) (step : σ → σ) : Nat → σ → Option σ
  | 0, s => if cond s then none else some s
  | n+1, s => if cond s then whileFuel cond step n (step s) else some s

section
variable {α : Type} [Add α] [Sub α] [Mul α] [Div α] [Neg α] [LT α] [LE α]
  [DecidableLT α] [DecidableLE α] [OfScientific α] [OfNat α 0] [OfNat α 1] [OfNat α 100]

/-! ### calculate_HIGC — loop state `(HIGC, HIest)` -/

/-- `HIest <= (0.98 * crop_HI0)` -/
def higcCond (hi0 : α) (s : α × α) : Bool := decide (s.2 ≤ 0.98 * hi0)

/-- `HIGC = HIGC + 0.001; HIest = (HIini*HI0)/(HIini + (HI0-HIini)*np.exp(-HIGC*tHI))` -/
def higcStep (F : Fn α) (tHI hi0 hiIni : α) (s : α × α) : α × α :=
  let g := s.1 + 0.001
  (g, hiLogistic F hiIni hi0 g tHI)

/-- `calculate_HIGC(YldFormCD, HI0, HIini)` -/
def calculateHIGC (F : Fn α) (fuel : Nat) (yldFormCD hi0 hiIni : α) : Option α :=
  match whileFuel (higcCond hi0) (higcStep F yldFormCD hi0 hiIni) fuel (0.001, 0) with
  | none => none
  | some (higc, hiest) => some (if hi0 ≤ hiest then higc - 0.001 else higc)

/-! ### calculate_HI_linear — loop state `(ti, HIest, HIprev)` -/

structure HiLinSt (α : Type) where
  ti : α
  hiEst : α
  hiPrev : α

/-- `(HIest <= crop_HI0) and (ti < tmax)` -/
def hiLinCond (tmax hi0 : α) (s : HiLinSt α) : Bool := decide (s.hiEst ≤ hi0 ∧ s.ti < tmax)

/-- the loop body -/
def hiLinStep (F : Fn α) (tmax hiIni hi0 hiGC : α) (s : HiLinSt α) : HiLinSt α :=
  let ti := s.ti + 1
  let hinew := hiLogistic F hiIni hi0 hiGC ti
  { ti := ti, hiEst := hinew + (tmax - ti) * (hinew - s.hiPrev), hiPrev := hinew }

/-- `calculate_HI_linear(YldFormCD, HIini, HI0, HIGC)` → `(tLinSwitch, dHILinear)` -/
def calculateHILinear (F : Fn α) (fuel : Nat) (yldFormCD hiIni hi0 hiGC : α) : Option (α × α) :=
  match whileFuel (hiLinCond yldFormCD hi0) (hiLinStep F yldFormCD hiIni hi0 hiGC) fuel
      { ti := 0, hiEst := 0, hiPrev := hiIni } with
  | none => none
  | some st =>
    let tSwitch := st.ti - 1
    let hiest := if 0 < tSwitch then hiLogistic F hiIni hi0 hiGC tSwitch else 0
    some (tSwitch, (hi0 - hiest) / (yldFormCD - tSwitch))

end
end Aqua
