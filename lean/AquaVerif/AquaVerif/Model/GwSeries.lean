import AquaVerif.Model.InitWC
/-
Model of `initialize/read_groundwater_table.py`: the daily water-table depth series.

Days are offsets from the first simulation day (`Int`: an observation may be dated before the
start).  `none` is `NaN`.

Faithfully reproduced oddities:
  * no observation at all, or ≥ 2 observations with a method string other than
    "Constant"/"Variable": `z_gw` is never bound → `UnboundLocalError` (`E:unbound`);
  * "Variable": `z_gw.loc[date] = depth` for a date that is **not a simulation day** enlarges the
    series — the observation is appended *after the last day* (whatever its date) and takes part
    in the interpolation there; the result is longer than the simulation;
  * "Variable": days before the first observation stay `NaN` (`Series.interpolate()` only fills
    forward).
-/

namespace Aqua
section
variable {α : Type} [Add α] [Sub α] [Mul α] [Div α] [Neg α] [LT α] [LE α]
  [DecidableLT α] [DecidableLE α] [OfScientific α] [NatCast α] [OfNat α 0] [OfNat α 1]
  [OfNat α 2] [OfNat α 10] [OfNat α 100]

inductive GwMethod | constant | variable | other
deriving Repr, DecidableEq

/-- "Constant": the rows are applied in the given order:
`z[index >= date] = depth`, and for the first row also `z[index <= date] = depth`. -/
def gwConstAt (i : Int) : Bool → List (Int × α) → Option α → Option α
  | _, [], cur => cur
  | first, (d, v) :: rest, cur =>
    gwConstAt i false rest (if d ≤ i ∨ (first = true ∧ i ≤ d) then some v else cur)

def gwConstant (n : Nat) (obs : List (Int × α)) : List (Option α) :=
  (List.range n).map (fun (i : Nat) => gwConstAt (Int.ofNat i) true obs none)

/-- `z_gw.loc[date] = depth` on the day-indexed part -/
def setAt : Nat → α → List (Option α) → List (Option α)
  | _, _, [] => []
  | 0, v, _ :: xs => some v :: xs
  | k + 1, v, x :: xs => x :: setAt k v xs

/-- `z_gw.loc[date] = depth` for a date outside the index: overwrite an earlier appended label
or append a new one. -/
def setExtra (d : Int) (v : α) : List (Int × α) → List (Int × α)
  | [] => [(d, v)]
  | (d', v') :: es => if d' = d then (d', v) :: es else (d', v') :: setExtra d v es

def placeObs (n : Nat) : List (Int × α) → List (Option α) × List (Int × α) →
    List (Option α) × List (Int × α)
  | [], st => st
  | (d, v) :: rest, (base, extra) =>
    if 0 ≤ d ∧ d < (n : Int) then placeObs n rest (setAt d.toNat v base, extra)
    else placeObs n rest (base, setExtra d v extra)

/-- positions and values of the valid entries -/
def validPts : Nat → List (Option α) → List (α × α)
  | _, [] => []
  | k, none :: xs => validPts (k + 1) xs
  | k, some v :: xs => ((k : α), v) :: validPts (k + 1) xs

/-- `Series.interpolate()` : linear in the position between valid entries
(`np.interp(position, validPositions, validValues)`), last value held after the last valid
entry, `NaN` kept before the first. -/
def fillGaps (pts : List (α × α)) : Nat → Bool → List (Option α) → List (Option α)
  | _, _, [] => []
  | k, _, some v :: xs => some v :: fillGaps pts (k + 1) true xs
  | k, seen, none :: xs =>
    (if seen then interp (k : α) pts else none) :: fillGaps pts (k + 1) seen xs

def gwVariable (n : Nat) (obs : List (Int × α)) : List (Option α) :=
  let st := placeObs n obs (List.replicate n none, [])
  let s := st.1 ++ st.2.map (fun e => some e.2)
  fillGaps (validPts 0 s) 0 false s

/-- `read_groundwater_table` with `water_table == "Y"`. -/
def gwSeries (n : Nat) (me : GwMethod) (obs : List (Int × α)) : Except String (List (Option α)) :=
  match obs with
  | [] => .error "E:unbound"
  | [(_, v)] => .ok (List.replicate n (some v))
  | _ =>
    match me with
    | .constant => .ok (gwConstant n obs)
    | .variable => .ok (gwVariable n obs)
    | .other => .error "E:unbound"

end
end Aqua
