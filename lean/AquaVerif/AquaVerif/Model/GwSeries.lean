import AquaVerif.Model.InitWC
/-
Model of `initialize/read_groundwater_table.py`: the daily water-table depth series.

Days are offsets from the first simulation day (`Int`: an observation may be dated before the
start).  `none` is `NaN`.

Faithfully reproduced oddities:
  * no observation at all, or ≥ 2 observations with a method string other than
    "Constant"/"Variable": `z_gw` is never bound → `UnboundLocalError` (`E:unbound`);
  * "Constant": the rows are applied in the order given (not sorted by date);
  * "Variable": days before the first observation stay `NaN` (`Series.interpolate` only fills
    forward).
History: until the repair recorded in `known_findings.txt` (property C19/C14, "Variable"
observations dated outside the simulation period) the "Variable" series was built by label
assignment into the day-indexed series followed by *positional* interpolation: an observation
dated outside the period was appended after the last day, whatever its date.  The model below is
the repaired code: interpolation in time over the date-sorted observations.
-/

namespace Aqua
section
variable {α : Type} [Add α] [Sub α] [Mul α] [Div α] [Neg α] [LT α] [LE α]
  [DecidableLT α] [DecidableLE α] [OfScientific α] [NatCast α] [OfNat α 0] [OfNat α 1]
  [OfNat α 2] [OfNat α 10] [OfNat α 100]

inductive GwMethod | constant | variable | other
deriving Repr, DecidableEq

/-- "Constant": the rows are applied in the given order:
`z[index >= date] = depth`, and for the first row also `z[index <= date] = depth`. -/
def gwConstAt (i : Int) : Bool → List (Int × α) → Option α → Option α
  | _, [], cur => cur
  | first, (d, v) :: rest, cur =>
    gwConstAt i false rest (if d ≤ i ∨ (first = true ∧ i ≤ d) then some v else cur)

def gwConstant (n : Nat) (obs : List (Int × α)) : List (Option α) :=
  (List.range n).map (fun (i : Nat) => gwConstAt (Int.ofNat i) true obs none)

/-- `obs[~obs.index.duplicated(keep="last")]`: a later row overrides an earlier one carrying the
same date. -/
def dedupLast : List (Int × α) → List (Int × α)
  | [] => []
  | (d, v) :: rest =>
    if rest.any (fun q => decide (q.1 = d)) then dedupLast rest else (d, v) :: dedupLast rest

/-- insertion into a date-sorted list (`sort_index()`; dates are distinct after `dedupLast`) -/
def insertByDate (p : Int × α) : List (Int × α) → List (Int × α)
  | [] => [p]
  | q :: qs => if p.1 ≤ q.1 then p :: q :: qs else q :: insertByDate p qs

def sortByDate (l : List (Int × α)) : List (Int × α) := l.foldr insertByDate []

/-- `np.interp` in time over the date-sorted observations, to the right of `lo`: the last depth
after the last observation, else the straight line through `lo` and the next observation. -/
def gwVarGo (i : Int) : (Int × α) → List (Int × α) → α
  | lo, [] => lo.2
  | lo, p :: ps =>
    if p.1 ≤ i then gwVarGo i p ps
    else (p.2 - lo.2) / (((p.1 - lo.1).toNat : Nat) : α) * (((i - lo.1).toNat : Nat) : α) + lo.2

/-- `obs.reindex(obs.index.union(days)).interpolate(method="time")` at day `i`: `NaN` before the
first observation (interpolation only fills forward). -/
def gwVarAt (i : Int) : List (Int × α) → Option α
  | [] => none
  | p :: ps => if i < p.1 then none else some (gwVarGo i p ps)

/-- "Variable": linear interpolation *in time* between the observations, wherever they are dated
(inside the simulation period or not), restricted to the simulation days. -/
def gwVariable (n : Nat) (obs : List (Int × α)) : List (Option α) :=
  let pts := sortByDate (dedupLast obs)
  (List.range n).map (fun (i : Nat) => gwVarAt (Int.ofNat i) pts)

/-- `read_groundwater_table` with `water_table == "Y"`. -/
def gwSeries (n : Nat) (me : GwMethod) (obs : List (Int × α)) : Except String (List (Option α)) :=
  match obs with
  | [] => .error "E:unbound"
  | [(_, v)] => .ok (List.replicate n (some v))
  | _ =>
    match me with
    | .constant => .ok (gwConstant n obs)
    | .variable => .ok (gwVariable n obs)
    | .other => .error "E:unbound"

end
end Aqua
