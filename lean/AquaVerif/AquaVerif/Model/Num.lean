/-
Numeric interface of the model.

Every model file is polymorphic in the number type `α` and uses *only core type classes*,
taken as instance arguments through the `variable` block below (copy it verbatim at the top of
each model file).  The same definitions are then
  * executed at `Float` by the driver (correspondence with the Python implementation), and
  * reasoned about at an arbitrary linearly ordered field in `AquaVerif/Proofs` and
    `AquaVerif/Properties` (the field's own `Add`, `Mul`, … instances are what the elaborator
    finds there, so there is no instance diamond).

Literals: integer constants are written as integer literals and need an `[OfNat α n]` instance
argument each (add the ones a file uses to its `variable` block); non-integer constants are
decimal literals (`0.05`, `1.016`) and need only `[OfScientific α]`.  NEVER write an
integer-valued decimal literal such as `1000.0` or `5.0`: Mathlib's `ring` produces an ill-typed
proof term for those (kernel error `IsNat.of_raw`), while `5` and `5.5` are fine.

Transcendental functions and decimal rounding are parameters (`Fn α`); proofs constrain them
only through explicitly stated laws.
-/

namespace Aqua

/-- The non-algebraic functions the Python code calls. -/
structure Fn (α : Type) where
  exp   : α → α
  log   : α → α
  log10 : α → α
  /-- `x ** y` -/
  pow   : α → α → α
  /-- Python `round(x)` (nearest integer, ties to even), result embedded in `α`. -/
  round0 : α → α
  /-- numpy-scalar `round(x, 2)` = `rint(x*100)/100`. -/
  round2 : α → α
  /-- numpy-scalar `round(x, 3)`. -/
  round3 : α → α
  /-- numpy-scalar `round(x, 4)`. -/
  round4 : α → α
  /-- Python-float `round(x, 2)` (correctly rounded decimal). -/
  pyRound2 : α → α

section
variable {α : Type} [LT α] [DecidableLT α]

/-- Python `max(a, b)`: returns `b` only if `b > a`. -/
@[inline] def pmax (a b : α) : α := if a < b then b else a
/-- Python `min(a, b)`: returns `b` only if `b < a`. -/
@[inline] def pmin (a b : α) : α := if b < a then b else a

end

/-! ### `Float` instance (execution only) -/

/-- round-half-even to an integral `Float` (C `rint` in the default rounding mode). -/
def rintEven (x : Float) : Float :=
  if x.isNaN || x.isInf then x else
  if x.abs ≥ 4503599627370496.0 then x else
  let f := x.floor
  let d := x - f
  if d < 0.5 then f
  else if d > 0.5 then f + 1.0
  else
    -- tie: pick the even neighbour
    let h := f / 2.0
    if h.floor == h then f else f + 1.0

/-- numpy `np.round(x, k)` for scalars: scale, rint, unscale. -/
def npRound (k : Float) (x : Float) : Float := rintEven (x * k) / k

/-- exact value of a finite double as `(sign, mantissa, exponent)` with value `±m·2^e`. -/
def decodeFloat (x : Float) : Bool × Nat × Int :=
  let b := x.toBits.toNat
  let s := b / 2^63 == 1
  let e : Nat := (b / 2^52) % 2048
  let m : Nat := b % 2^52
  if e == 0 then (s, m, -1074) else (s, m + 2^52, Int.ofNat e - 1075)

/-- round-half-even of the rational `n/d` (`d > 0`). -/
def rhe (n d : Nat) : Nat :=
  let q := n / d
  let r := n % d
  if 2 * r < d then q else if 2 * r > d then q + 1 else (if q % 2 == 0 then q else q + 1)

/-- Python `round(x, 2)` on a Python float: the decimal `n/100` nearest to the *exact* binary
value of `x` (ties to even), converted back correctly rounded. -/
def pyRound2F (x : Float) : Float :=
  if x.isNaN || x.isInf then x else
  let (s, m, e) := decodeFloat x
  -- |x|*100 = m*100*2^e
  let n : Nat :=
    if e ≥ 0 then m * 100 * 2 ^ e.toNat
    else rhe (m * 100) (2 ^ (-e).toNat)
  let r := Float.ofScientific n true 2
  if s then -r else r

def Fn.float : Fn Float where
  exp := Float.exp
  log := Float.log
  log10 := Float.log10
  pow := Float.pow
  round0 := rintEven
  round2 := npRound 100.0
  round3 := npRound 1000.0
  round4 := npRound 10000.0
  pyRound2 := pyRound2F

end Aqua
