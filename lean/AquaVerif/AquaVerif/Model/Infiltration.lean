import AquaVerif.Model.Profile
/-
Model of `aquacrop/solution/infiltration.py`.

Structure (mirrors the Python top to bottom):

* `infSurface`  – the bunds / no-bunds split of the day's intake into the amount offered to the
                  soil (`ToStore`), the initial runoff (`RunoffIni`) and the new ponding depth.
                  Bunds with `zBund ≤ 0.001` are treated as no bunds (repo fix 6d1f3fa).
                  `prof.Ksat[0]` on an empty profile → `E:index`.
* `infCell`     – body of the main `while` loop for one compartment up to (and including)
                  `ToStore = ToStore - excess`.
* `backUp`      – the `while (excess > 0) and (precomp != 0)` loop, structural over the visited
                  cells reversed (nearest first; its head is the *current* compartment, whose
                  `FluxOut` is reduced by the excess as well — as in the source).
* `infLoop`     – the main `while (ToStore > 0) and (ii < nComp-1)` loop, structural over the
                  remaining cells.
* `infiltration`– entry point.

Ghost outputs (not part of the Python return value): `inflIn`, `runoffIni`, `toStore0`,
`backup`, `lost`, `branch`.  `lost` is the water the Python drops silently:
  (a) bunds present, `Infl + SurfaceStorage ≤ 0`: the day's intake `Infl` is neither stored nor
      turned into runoff (only possible with a negative ponding depth, or when it is 0);
  (b) `ToStore ≤ 0` after the surface split (only negative when `Ksat[0] < 0`): `ToStore` is
      discarded.
-/

namespace Aqua
section
variable {α : Type} [Add α] [Sub α] [Mul α] [Div α] [Neg α] [LT α] [LE α]
  [DecidableLT α] [DecidableLE α] [OfScientific α] [OfNat α 0] [OfNat α 1] [OfNat α 100]
  [OfNat α 1000]

/-- result of the surface split -/
structure Surf (α : Type) where
  toStore   : α
  runoffIni : α
  pond      : α
  lost      : α     -- ghost: intake dropped (case (a) above)
  branch    : Nat   -- ghost: which branch was taken (1..9)

/-- bunds: overtopping check after the Ksat split (`pond1` = water left ponding). -/
def overtop (toStore pond1 zBund : α) (br : Nat) : Surf α :=
  if zBund < pond1 then
    { toStore := toStore, runoffIni := pond1 - zBund, pond := zBund * 1, lost := 0, branch := br }
  else
    { toStore := toStore, runoffIni := 0, pond := pond1, lost := 0, branch := br + 2 }

/-- the no-bunds branch: `(ToStore, RunoffIni)` from the Ksat split, ponded water released as
runoff; ghost branch id `br` (Ksat-limited) or `br + 1`. -/
def noBunds (ksat0? : Option α) (pond infl : α) (br : Nat) : Except String (Surf α) :=
  match ksat0? with
  | none => .error "E:index"
  | some k =>
    if k < infl then
      .ok { toStore := k, runoffIni := infl - k + pond, pond := 0, lost := 0, branch := br }
    else
      .ok { toStore := infl, runoffIni := 0 + pond, pond := 0, lost := 0, branch := br + 1 }

/-- Surface part: `ksat0? = prof.Ksat[0]` if the profile is non-empty, `pond` the incoming
surface storage, `infl` the (efficiency-adjusted, asserted non-negative) intake.

Python: `if Bunds: if zBund > 0.001: <bund block>` followed by
`if (not Bunds) or (zBund <= 0.001): <no-bunds block>`.  The two guards are mutually exclusive
(also at `Float`), so the two consecutive `if`s are modelled as a chain.  Neither guard holds only
for `Bunds` with `zBund = NaN`; then `ToStore` is unbound at `if ToStore > 0` (`E:unbound`) — in
an ordered field that case does not exist (`infSurface_ne_unbound`). -/
def infSurface (ksat0? : Option α) (pond infl : α) (bunds : Bool) (zBund : α) :
    Except String (Surf α) :=
  if bunds = true ∧ 0.001 < zBund then
    let inflTot := infl + pond
    if 0 < inflTot then
      match ksat0? with
      | none => .error "E:index"
      | some k =>
        if k < inflTot then .ok (overtop k (inflTot - k) zBund 1)
        else .ok (overtop inflTot 0 zBund 2)
    else
      .ok { toStore := 0, runoffIni := 0, pond := pond, lost := infl, branch := 5 }
  else if bunds = false ∨ zBund ≤ 0.001 then
    -- no bunds, or bunds lower than 1 mm (ignored)
    noBunds ksat0? pond infl (if bunds then 8 else 6)
  else
    .error "E:unbound"

/-- `(theta0, dthdt0)` after the "check drainage ability" block, for `ts = ToStore`. -/
def infTheta (F : Fn α) (x : Cell α) (ts : α) : α × α :=
  let c := x.c
  let dthdtS := c.tau * (c.thS - c.thFC)
  let dthdt0 := ts / (1000 * c.dz)
  if dthdt0 < dthdtS then
    let th0 :=
      if dthdt0 ≤ 0 then x.fcAdj
      else
        let a := 1 + ((dthdt0 * (F.exp (c.thS - c.thFC) - 1)) / (c.tau * (c.thS - c.thFC)))
        c.thFC + F.log a
    if c.thS < th0 then (c.thS, dthdt0)
    else if th0 ≤ x.fcAdj then (x.fcAdj, 0)
    else (th0, dthdt0)
  else (c.thS, dthdtS)

/-- `drainmax`: maximum water flow through the compartment, given the (limited) `dthdt0`. -/
def infDrainmax (x : Cell α) (dthdt1 : α) : α :=
  let c := x.c
  let dthdtS := c.tau * (c.thS - c.thFC)
  let factor := c.ksat / (dthdtS * 1000 * c.dz)
  let drainmax0 := factor * dthdt1 * 1000 * c.dz
  let drainage := drainmax0 + x.flux
  if c.ksat < drainage then c.ksat - x.flux else drainmax0

/-- storing in the compartment: new `(th, ToStore)`. -/
def infStore (x : Cell α) (theta0 ts : α) : α × α :=
  let diff := theta0 - x.th
  if 0 < diff then
    let th1 := x.th + (ts / (1000 * x.c.dz))
    if theta0 < th1 then (theta0, (th1 - theta0) * 1000 * x.c.dz) else (th1, 0)
  else (x.th, ts)

/-- One pass of the main loop body for compartment `x` with `ts = ToStore` on entry.
Returns the updated cell (`th`, and `FluxOut + ToStore`), the new `ToStore` (after subtraction of
the excess) and the `excess` to be redistributed upwards. -/
def infCell (F : Fn α) (x : Cell α) (ts : α) : Cell α × α × α :=
  let td := infTheta F x ts
  let drainmax := infDrainmax x td.2
  let st := infStore x td.1 ts
  let excess0 := st.2 - drainmax
  let excess := if excess0 < 0 then 0 else excess0
  ({ x with th := st.1, flux := x.flux + st.2 }, st.2 - excess, excess)

/-- Back-up of `e = excess` into the compartments above: `vis` = current compartment followed by
the ones above it, nearest first.  Returns the updated list and the excess left at the surface. -/
def backUp : List (Cell α) → α → List (Cell α) × α
  | [], e => ([], e)
  | c :: above, e =>
    if 0 < e then
      let flux' := c.flux - e
      let th1 := c.th + (e / (c.c.dz * 1000))
      if c.c.thS < th1 then
        let e' := (th1 - c.c.thS) * 1000 * c.c.dz
        let r := backUp above e'
        ({ c with th := c.c.thS, flux := flux' } :: r.1, r.2)
      else
        ({ c with th := th1, flux := flux' } :: above, 0)
    else (c :: above, e)

/-- Main loop: remaining cells, visited cells reversed, `ToStore`, accumulated `Runoff`.
Returns the whole profile (top first), the final `ToStore` and `Runoff`. -/
def infLoop (F : Fn α) : List (Cell α) → List (Cell α) → α → α → List (Cell α) × α × α
  | [], vis, ts, ro => (vis.reverse, ts, ro)
  | x :: rest, vis, ts, ro =>
    if 0 < ts then
      let r := infCell F x ts
      if 0 < r.2.2 then
        let b := backUp (r.1 :: vis) r.2.2
        let ro' := if 0 < b.2 then ro + b.2 else ro
        infLoop F rest b.1 r.2.1 ro'
      else
        infLoop F rest (r.1 :: vis) r.2.1 ro
    else (vis.reverse ++ x :: rest, ts, ro)

structure InfOut (α : Type) where
  cells     : List (Cell α)   -- `th` and `flux` updated
  pond      : α               -- NewCond_SurfaceStorage
  deepPerc  : α
  runoffTot : α
  infl      : α               -- reported infiltration `Infl - Runoff`
  -- ghost outputs
  inflIn    : α               -- intake after the application-efficiency adjustment
  runoffIni : α
  toStore0  : α               -- `ToStore` after the surface split
  backup    : α               -- runoff produced by the back-up loop (before bund re-storage)
  lost      : α               -- water dropped silently (see header)
  branch    : Nat             -- surface branch + 10·(loop entered) + 20·(back-up reached surface)
                              --   + 40·(bund re-storage) + 80·(re-storage overtopped)

/-- the day's intake: `max(Infl, 0) [+ Irr * (AppEff / 100)]` -/
def infIntake (infl irr appEff : α) (gs : Bool) : α :=
  let infl0 := pmax infl 0
  if gs then infl0 + (irr * (appEff / 100)) else infl0

/-- "Update surface storage (if bunds are present)": `(SurfaceStorage, Runoff)` given the ponding
depth after the surface split, `RunoffIni` and `Runoff = loop runoff + RunoffIni`. -/
def bundRestore (pond1 runoffIni runoff1 : α) (bunds : Bool) (zBund : α) : α × α :=
  if runoffIni < runoff1 ∧ bunds = true ∧ 0.001 < zBund then
    let p := pond1 + (runoff1 - runoffIni)
    if zBund < p then (zBund, runoffIni + (p - zBund)) else (p, runoffIni)
  else (pond1, runoff1)

/-- "Infiltrate incoming water": the main loop if `ToStore > 0`, else nothing;
`(cells, DeepPerc, Runoff)`. -/
def infRun (F : Fn α) (cells : List (Cell α)) (toStore : α) : List (Cell α) × α × α :=
  if 0 < toStore then infLoop F cells [] toStore 0 else (cells, 0, 0)

/-- everything after the surface split -/
def infFinish (F : Fn α) (cells : List (Cell α)) (s : Surf α) (infl1 : α) (bunds : Bool)
    (zBund deepPerc0 runoff0 : α) : InfOut α :=
  let r := infRun F cells s.toStore
  let lost2 : α := if 0 < s.toStore then 0 else s.toStore
  let runoff1 := r.2.2 + s.runoffIni
  let pr := bundRestore s.pond s.runoffIni runoff1 bunds zBund
  { cells := r.1, pond := pr.1, deepPerc := r.2.1 + deepPerc0,
    runoffTot := pr.2 + runoff0, infl := infl1 - pr.2,
    inflIn := infl1, runoffIni := s.runoffIni, toStore0 := s.toStore,
    backup := r.2.2, lost := s.lost + lost2,
    branch := s.branch + (if 0 < s.toStore then 10 else 0)
      + (if 0 < r.2.2 then 20 else 0)
      + (if s.runoffIni < runoff1 ∧ bunds = true ∧ 0.001 < zBund then 40 else 0)
      + (if s.runoffIni < runoff1 ∧ bunds = true ∧ 0.001 < zBund
            ∧ zBund < s.pond + (runoff1 - s.runoffIni) then 80 else 0) }

/-- `infiltration(prof, SurfaceStorage, th_fc_Adj, th, Infl, Irr, AppEff, Bunds, zBund, FluxOut,
DeepPerc0, Runoff0, growing_season)`. -/
def infiltration (F : Fn α) (cells : List (Cell α)) (pond infl irr appEff : α) (bunds : Bool)
    (zBund deepPerc0 runoff0 : α) (gs : Bool) : Except String (InfOut α) :=
  let infl1 := infIntake infl irr appEff gs
  if 0 ≤ infl1 then     -- `assert Infl >= 0`
    match infSurface (cells.head?.map (·.c.ksat)) pond infl1 bunds zBund with
    | .error e => .error e
    | .ok s => .ok (infFinish F cells s infl1 bunds zBund deepPerc0 runoff0)
  else .error "E:assert"

end
end Aqua
