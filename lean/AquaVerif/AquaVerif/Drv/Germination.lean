import AquaVerif.Drv.Proto
import AquaVerif.Model.Germination

namespace Aqua.Drv
open Aqua

/-- Request (tokens after the function name; `F` = float bit pattern, `B` = `0`/`1`):

`germination <cells: profId th[n] fcAdj[n] flux[n] aer[n]> germination:B protectedSeed:B`
`  delayedCds:F delayedGdds:F zGerm:F germThr:F sown:B(Crop_PlantMethod == True) gdd:F gs:B`

Reply: `i<germination> i<protectedSeed> delayedCds delayedGdds` followed by two ghost tokens
`wcProp i<br>`; or `E:index`. -/
def hGermination : Handler := fun ctx => do
  let cells ← rdCells ctx
  let germ ← rdBool
  let prot ← rdBool
  let dcd ← rdF
  let dgdd ← rdF
  let zGerm ← rdF
  let thr ← rdF
  let sown ← rdBool
  let gdd ← rdF
  let gs ← rdBool
  done
  let st : GermState Float :=
    { germination := germ, protectedSeed := prot, delayedCds := dcd, delayedGdds := dgdd }
  match germination Fn.float st zGerm cells thr sown gdd gs with
  | .error e => pure e
  | .ok r => pure (join [outB r.s.germination, outB r.s.protectedSeed,
      outFs [r.s.delayedCds, r.s.delayedGdds, r.wcProp], outN r.br])

end Aqua.Drv
