import AquaVerif.Drv.Proto
import AquaVerif.Model.Yield

/-
Driver handlers for `Model/Yield.lean` (biomass accumulation; yield potential, dry and fresh
yield).  Every number is a float on the wire (the Python ints `DAP`, `DelayedCDs`, `HIstartCD`,
`YldFormCD` are exact as floats); `CropType` and `Determinant` are naturals.
-/
namespace Aqua.Drv
open Aqua

/-- `biomass_accumulation cropType determinant hiStartCD yldFormCD wp wpy fco2 dap delayedCDs hiRef
pctLag b bNS tr trPot et0 gs` → `B B_NS` -/
def hBiomassAccumulation : Handler := fun _ => do
  let cropType ← rdNat
  let determinant ← rdNat
  let hiStartCD ← rdF
  let yldFormCD ← rdF
  let wp ← rdF
  let wpy ← rdF
  let fco2 ← rdF
  let dap ← rdF
  let delayedCDs ← rdF
  let hiRef ← rdF
  let pctLag ← rdF
  let b ← rdF
  let bNS ← rdF
  let tr ← rdF
  let trPot ← rdF
  let et0 ← rdF
  let gs ← rdBool
  done
  let crop : BioCrop Float :=
    { cropType := cropType, determinant := determinant, hiStartCD := hiStartCD,
      yldFormCD := yldFormCD, wp := wp, wpy := wpy, fco2 := fco2 }
  let (b', bNS') := biomassAccumulation crop dap delayedCDs hiRef pctLag b bNS tr trPot et0 gs
  pure (join [outF b', outF bNS'])

/-- `yield_step bNS b hi hiAdj yldWC gs` → `YieldPot DryYield FreshYield`
(steps 18–19 of `run_single_timestep.py`) -/
def hYieldStep : Handler := fun _ => do
  let bNS ← rdF
  let b ← rdF
  let hi ← rdF
  let hiAdj ← rdF
  let yldWC ← rdF
  let gs ← rdBool
  done
  let y := yieldStep bNS b hi hiAdj yldWC gs
  pure (join [outF y.yieldPot, outF y.dryYield, outF y.freshYield])

end Aqua.Drv
