import AquaVerif.Drv.Proto
import AquaVerif.Model.Drainage

namespace Aqua.Drv
open Aqua

/-- `drainage <cells>` (only `th` and `fcAdj` of the cells matter)
→ `th[n] flux[n] deepPerc lost br[n]`  (`lost`, `br` are ghost outputs; `br` as `i<id>`). -/
def hDrainage : Handler := fun ctx => do
  let cells ← rdCells ctx
  done
  let r := drainage Fn.float cells
  pure (join ([outTh r.cells, outFlux r.cells, outF r.deepPerc, outF r.lost] ++ r.brs.map outN))

end Aqua.Drv
