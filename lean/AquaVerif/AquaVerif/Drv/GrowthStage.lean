import AquaVerif.Drv.Proto
import AquaVerif.Model.GrowthStage

namespace Aqua.Drv
open Aqua

/-- `growth_stage calType dap delayedCds gddCum delayedGdds canopy10 maxCanopy senescence gs old`
→ `i<stage>` or `E:unbound` -/
def hGrowthStage : Handler := fun _ => do
  let calType ← rdNat
  let dap ← rdF
  let dCds ← rdF
  let gdd ← rdF
  let dGdd ← rdF
  let c10 ← rdF
  let mx ← rdF
  let sen ← rdF
  let gs ← rdBool
  let old ← rdNat
  done
  match growthStage calType dap dCds gdd dGdd c10 mx sen gs old with
  | none => pure "E:unbound"
  | some s => pure (outN s)

end Aqua.Drv
