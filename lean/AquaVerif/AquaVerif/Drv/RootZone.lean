import AquaVerif.Drv.Proto
import AquaVerif.Model.RootZone

namespace Aqua.Drv
open Aqua

/-- `root_zone_water <cells> zRoot zTop zMin aer` → the 11 outputs -/
def hRootZone : Handler := fun ctx => do
  let cells ← rdCells ctx
  let zRoot ← rdF
  let zTop ← rdF
  let zMin ← rdF
  let aer ← rdF
  done
  match rootZoneWater Fn.float cells zRoot zTop zMin aer with
  | none => pure "E:index"
  | some r => pure (outFs [r.wrAct, r.drZt, r.drRz, r.tawZt, r.tawRz, r.thAct, r.thS, r.thFC,
      r.thWP, r.thDry, r.thAer])

end Aqua.Drv
