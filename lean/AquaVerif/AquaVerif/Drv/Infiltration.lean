import AquaVerif.Drv.Proto
import AquaVerif.Model.Infiltration

namespace Aqua.Drv
open Aqua

/-- `infiltration <cells> pond infl irr appEff bunds zBund deepPerc0 runoff0 gs`
→ `th[n] pond deepPerc runoffTot infl flux[n]` followed by the ghosts
`inflIn runoffIni toStore0 backup lost i<branch>` (or `E:assert` / `E:index`; `E:unbound` only for bunds with `zBund = NaN`). -/
def hInfiltration : Handler := fun ctx => do
  let cells ← rdCells ctx
  let pond ← rdF
  let infl ← rdF
  let irr ← rdF
  let appEff ← rdF
  let bunds ← rdBool
  let zBund ← rdF
  let dp0 ← rdF
  let ro0 ← rdF
  let gs ← rdBool
  done
  match infiltration Fn.float cells pond infl irr appEff bunds zBund dp0 ro0 gs with
  | .error e => pure e
  | .ok r =>
    pure (join [outTh r.cells, outF r.pond, outF r.deepPerc, outF r.runoffTot, outF r.infl,
      outFlux r.cells, outF r.inflIn, outF r.runoffIni, outF r.toStore0, outF r.backup,
      outF r.lost, outN r.branch])

end Aqua.Drv
