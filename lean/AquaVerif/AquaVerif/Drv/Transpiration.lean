import AquaVerif.Drv.Proto
import AquaVerif.Model.Transpiration

namespace Aqua.Drv
open Aqua

def fin4T (xs : List Float) : Fin 4 → Float := fun i => xs.getD i.val 0.0

/-- Request (tokens after the function name; `F` = float bit pattern, `N` = decimal natural,
`B` = `0`/`1`):

`transpiration <cells: profId th[n] fcAdj[n] flux[n] aer[n]> nComp:N zTop:F`
`  maxCanopyCD:F kcb:F fage:F aTr:F trColdStress:N(0,1, other=2) gddUp:F gddLo:F lagAer:F zMin:F aer:F`
`  pUp[4]:F pLo[4]:F fshapeW[4]:F etAdj:B(ETadj==1) beta:F sxTop:F sxBot:F`
`  irrMethod:N netIrrSMT:F`
`  dap:F delayedCds:F ageDaysNS:F ageDays:F ccxWNS:F ccxW:F ccAdjNS:F ccNS:F ccAdj:F cc:F ccPrev:F`
`  surfaceStorage:F daySubmerged:F zRoot:F tEarlySen:F aerDays:F rCor:F irrNetCum:F trRatio:F tPot:F`
`  depletion:F taw:F`
`  et0:F co2cur:F co2ref:F gs:B gdd:F`

Reply: `trAct trPotNS trPot0 irrNet th[n] aer[n] ageDaysNS ageDays daySubmerged surfaceStorage`
`aerDays depletion taw irrNetCum canopyCover trRatio tPot` followed by three ghost tokens
`trAct0 trPotRz i<compSto>`; or `E:index` / `E:unbound` (only `TrColdStress ∉ {0,1}`) /
`E:zerodiv`. -/
def hTranspiration : Handler := fun ctx => do
  let cells ← rdCells ctx
  let nComp ← rdNat
  let zTop ← rdF
  let maxCanopyCD ← rdF
  let kcb ← rdF
  let fage ← rdF
  let aTr ← rdF
  let tcs ← rdNat
  let gddUp ← rdF
  let gddLo ← rdF
  let lagAer ← rdF
  let zMin ← rdF
  let aer ← rdF
  let pUp ← rdFs 4
  let pLo ← rdFs 4
  let fsh ← rdFs 4
  let etAdj ← rdBool
  let beta ← rdF
  let sxTop ← rdF
  let sxBot ← rdF
  let irrMethod ← rdNat
  let smt ← rdF
  let s ← rdFs 22
  let et0 ← rdF
  let cur ← rdF
  let ref ← rdF
  let gs ← rdBool
  let gdd ← rdF
  done
  let crop : TrCrop Float :=
    { maxCanopyCD, kcb, fage, aTr, trColdStress := tcs, gddUp, gddLo, lagAer, zMin, aer,
      pUp := fin4T pUp, pLo := fin4T pLo, fshW := fin4T fsh, etAdj, beta, sxTop, sxBot }
  let g (i : Nat) : Float := s.getD i 0.0
  let st : TrState Float :=
    { dap := g 0, delayedCds := g 1, ageDaysNS := g 2, ageDays := g 3, ccxWNS := g 4, ccxW := g 5,
      ccAdjNS := g 6, ccNS := g 7, ccAdj := g 8, cc := g 9, ccPrev := g 10, pond := g 11,
      daySubmerged := g 12, zRoot := g 13, tEarlySen := g 14, aerDays := g 15, rCor := g 16,
      irrNetCum := g 17, trRatio := g 18, tPot := g 19, depletion := g 20, taw := g 21 }
  match transpiration Fn.float cells nComp zTop crop irrMethod smt st et0 cur ref gs gdd with
  | .error e => pure e
  | .ok o =>
    let t := o.st
    pure (join [outFs [o.trAct, o.trPotNS, o.trPot0, o.irrNet], outTh o.cells, outAer o.cells,
      outFs [t.ageDaysNS, t.ageDays, t.daySubmerged, t.pond, t.aerDays, t.depletion, t.taw,
             t.irrNetCum, t.cc, t.trRatio, t.tPot],
      outFs [o.trAct0, o.trPotRz], outN o.compSto])

end Aqua.Drv
