import AquaVerif.Drv.Day
import AquaVerif.Model.Run

namespace Aqua.Drv
open Aqua

/-- `reset_state` — the state part of `reset_initial_conditions` (`resetStateCore`,
`Model/Run.lean`).

Request: `<cells: profId th[n] fcAdj[n] flux[n] aer[n]>` `<state block of full_day>`
`offSeason:B bunds:B zBund:F bundWater:F cc0:F hi0:F thini[n]:F`
Reply: `th[n] aer[n]` then the state block after the reset (order of the request), then
`dryYield freshYield`. -/
def hResetState : Handler := fun ctx => do
  let cells ← rdCells ctx
  let st ← rdDayState cells
  let offSeason ← rdBool
  let bunds ← rdBool
  let zBund ← rdF
  let bundWater ← rdF
  let cc0 ← rdF
  let hi0 ← rdF
  let thini ← rdFs cells.length
  done
  let s := resetStateCore offSeason thini (resetPondOf bunds zBund bundWater) cc0 hi0
    { st with dryYield := 1, freshYield := 1 }
  pure (join ((if cells.isEmpty then [] else [outTh s.cells, outAer s.cells]) ++ outDayState s ++
    [outFs [s.dryYield, s.freshYield]]))

end Aqua.Drv
