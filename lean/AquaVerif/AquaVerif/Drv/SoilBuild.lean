import AquaVerif.Drv.Proto
import AquaVerif.Model.SoilBuild
import AquaVerif.Model.InitWC
import AquaVerif.Model.GwSeries
/-
Driver handlers of work package I: `soil_profile`, `init_wc`, `gw_series`.
-/

namespace Aqua.Drv
open Aqua

/-- `Float` has no `NatCast` in core; the model needs one for cm → m and for index positions. -/
@[reducible] def natCastFloatSB : NatCast Float := ⟨Float.ofNat⟩
attribute [local instance] natCastFloatSB

def sbRdNats (n : Nat) : Rd (List Nat) := do
  let mut acc : Array Nat := #[]
  for _ in [0:n] do
    acc := acc.push (← rdNat)
  pure acc.toList

/-- float instance of `round(thickness,2) >= round(dzsum,2)` -/
def fGe1 (t : Float) (s : Nat) : Bool :=
  decide (npRound 100.0 (cmToM s : Float) ≤ pyRound2F t)
/-- float instance of `thickness + last >= dzsum` -/
def fGe2 (t : Float) (last s : Nat) : Bool :=
  decide ((cmToM s : Float) ≤ t + (cmToM last : Float))

/-- ghost: was the `else:` branch of the deepening `for` taken within the first `n` steps? -/
def elseTaken : Nat → List Nat → Bool
  | 0, _ => false
  | n + 1, dz =>
    match bumpLast dz with
    | some dz' => elseTaken n dz'
    | none => true

/-- `soil_profile <ndz> dz[cm]… <nlay> (thick wp fc s ksat pen)… zmax wt adjRew rew zSurf calcCN cn
zTopArg`
→ `i<n> dz[n] dzsum[n] zBot[n] z_top[n] zMid[n] layer[n] th_wp[n] th_fc[n] th_s[n] Ksat[n] pen[n]
th_dry[n] tau[n] aCR[n] bCR[n] zSoil rew cn zTopS` then ghosts `i<steps> i<cmAgree> i<stale>
i<thrAgree> i<elseTaken> call[n]`. -/
def hSoilProfile : Handler := fun _ => do
  let ndz ← rdNat
  let dz ← sbRdNats ndz
  let nlay ← rdNat
  let mut specs : Array (LayerSpec Float Float) := #[]
  for _ in [0:nlay] do
    let f ← rdFs 6
    let a := f.toArray
    specs := specs.push { thick := a[0]!, wp := a[1]!, fc := a[2]!, s := a[3]!, ksat := a[4]!,
                          pen := a[5]! }
  let zmax ← rdF
  let wt ← rdBool
  let adjRew ← rdBool
  let rew ← rdF
  let zSurf ← rdF
  let calcCN ← rdBool
  let cn ← rdF
  let zTopArg ← rdF
  done
  -- every step adds 10 cm: `Zmax[cm]/10 + 5` steps always reach `Zmax + 0.1`
  let zmaxCm := (rintEven (zmax * 100.0)).toUInt64.toNat
  let fuel := zmaxCm / 10 + 5
  match soilProfile Fn.float fGe1 fGe2 (moreOf zmax) fuel dz specs.toList wt adjRew calcCN rew zSurf
      cn zTopArg with
  | .error e => pure e
  | .ok o =>
    let cs := o.comps
    -- ghost: would exact comparison on whole centimetres give the same layers?
    let thickCm := specs.toList.map (fun sp => (rintEven (sp.thick * 100.0)).toUInt64.toNat)
    let cmAgree : Bool :=
      match assignLayers ((buildGeometry dz).map (·.dzsum)) thickCm with
      | .ok ls => ls == cs.map (·.layer)
      | .error _ => false
    let stale : Bool := o.geo.any (fun g => g.zMid2 != g.mid2)
    -- ghost: would the exact threshold `zSoil < Zmax[cm] + 10` give the same number of steps?
    let thrAgree : Bool :=
      match deepen (fun c => decide (c < zmaxCm + 10)) fuel dz 0 with
      | .ok (_, k) => k == o.steps
      | .error _ => false
    pure (join [outN cs.length,
      outFs (o.geoM.map (·.dz)), outFs (o.geoM.map (·.dzsum)), outFs (o.geoM.map (·.zBot)),
      outFs (o.geoM.map (·.zTop)), outFs (o.geoM.map (·.zMid)),
      join (cs.map (fun c => outN c.layer)),
      outFs (cs.map (·.thWP)), outFs (cs.map (·.thFC)), outFs (cs.map (·.thS)),
      outFs (cs.map (·.ksat)), outFs (cs.map (·.pen)), outFs (cs.map (·.thDry)),
      outFs (cs.map (·.tau)), outFs (cs.map (·.aCR)), outFs (cs.map (·.bCR)),
      outF (cmToM o.zSoil), outF o.rew, outF o.cn, outF o.zTopS,
      outN o.steps, outB cmAgree, outB stale, outB thrAgree, outB (elseTaken o.steps dz),
      join (o.call.map outN)])

def wcTypeOf : Nat → WcType
  | 0 => .num
  | 1 => .pct
  | _ => .prop

def propOf : Nat → PropVal
  | 0 => .wp
  | 1 => .fc
  | 2 => .sat
  | _ => .other

/-- `init_wc <profId> wt zgw zSoil type(0 Num,1 Pct,2 Prop) method(0 Layer,1 Depth) <k>
(lay depth num prop)…` → `fcAdjProf[n] fcAdjInit[n] th[n] i<wtInSoil>` then ghost `i<aliased>`. -/
def hInitWC : Handler := fun ctx => do
  let id ← rdNat
  let wt ← rdBool
  let zgw ← rdF
  let zSoil ← rdF
  let ty ← rdNat
  let me ← rdNat
  let k ← rdNat
  let mut pts : Array (WcPoint Float) := #[]
  for _ in [0:k] do
    let lay ← rdNat
    let depth ← rdF
    let num ← rdF
    let pr ← rdNat
    pts := pts.push { lay := lay, depth := depth, num := num, prop := propOf pr }
  done
  match ctx.profs[id]? with
  | none => throw s!"E:unknown-prof:{id}"
  | some cs =>
    match initWC Fn.float cs.toList wt zgw zSoil (wcTypeOf ty)
        (if me == 0 then .layer else .depth) pts.toList with
    | .error e => pure e
    | .ok o =>
      pure (join [outFs o.fcAdjProf, outFs o.fcAdjInit, outFs o.th, outB o.wtInSoil,
                  outB o.aliased])

def sbNaN : Float := 0.0 / 0.0

/-- `gw_series <n> method(0 Constant,1 Variable,2 other) <k> (day val)…` → `i<len> z[len]`
(`NaN` for a missing value). -/
def hGwSeries : Handler := fun _ => do
  let n ← rdNat
  let me ← rdNat
  let k ← rdNat
  let mut obs : Array (Int × Float) := #[]
  for _ in [0:k] do
    let d ← rdInt
    let v ← rdF
    obs := obs.push (d, v)
  done
  let m : GwMethod := if me == 0 then .constant else if me == 1 then .variable else .other
  match gwSeries n m obs.toList with
  | .error e => pure e
  | .ok zs =>
    pure (join [outN zs.length, outFs (zs.map (fun z => z.getD sbNaN))])

end Aqua.Drv
