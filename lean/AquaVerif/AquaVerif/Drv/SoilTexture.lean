import AquaVerif.Drv.Proto
import AquaVerif.Model.SoilTexture
/-
Driver handlers of work package U: `soil_texture`, `add_layer_from_texture`, `cap_rise_params`.
-/

namespace Aqua.Drv
open Aqua

@[reducible] def natCastFloatST : NatCast Float := ⟨Float.ofNat⟩
attribute [local instance] natCastFloatST

/-- `soil_texture sand clay om df` (fractions, per cent, factor)
→ `th_wp th_fc th_s Ksat` then ghosts `rawWP rawFC rawS rawKsat i<wp<fc> i<fc<s>` — or `E:value`. -/
def hSoilTexture : Handler := fun _ => do
  let sand ← rdF
  let clay ← rdF
  let om ← rdF
  let df ← rdF
  done
  match hydraulicFromTexture Fn.float sand clay om df with
  | .error e => pure e
  | .ok (wp, fc, s, k) =>
    let r := texRaw sand clay om df
    pure (join [outF wp, outF fc, outF s, outF k,
      outF r.thWP, outF r.thFC, outF r.thS, outF (texKsat Fn.float r),
      outB (decide (r.thWP < r.thFC)), outB (decide (r.thFC < r.thS))])

/-- `add_layer_from_texture sandPct clayPct om pen`
→ the columns `add_layer` writes for the new layer: `th_dry th_wp th_fc th_s Ksat penetrability tau`
— or `E:value`. -/
def hAddLayerFromTexture : Handler := fun _ => do
  let sand ← rdF
  let clay ← rdF
  let om ← rdF
  let pen ← rdF
  done
  match layerFromTexture Fn.float () sand clay om pen with
  | .error e => pure e
  | .ok sp =>
    pure (join [outF (sp.wp / 2), outF sp.wp, outF sp.fc, outF sp.s, outF sp.ksat, outF sp.pen,
      outF (tauOf Fn.float sp.ksat)])

/-- `cap_rise_params <n> thwp thfc ths ksat` (one layer of `n` compartments)
→ `aCR bCR` then ghost `i<leaf 1..7>` — or `E:assert`. -/
def hCapRiseParams : Handler := fun _ => do
  let n ← rdNat
  let wp ← rdF
  let fc ← rdF
  let s ← rdF
  let k ← rdF
  done
  match capRiseParams Fn.float n wp fc s k with
  | none => pure "E:assert"
  | some (a, b, leaf) => pure (join [outF a, outF b, outN leaf])

end Aqua.Drv
