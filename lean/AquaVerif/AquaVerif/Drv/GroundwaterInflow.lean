import AquaVerif.Drv.Proto
import AquaVerif.Model.GroundwaterInflow

namespace Aqua.Drv
open Aqua

/-- `groundwater_inflow <cells> wtInSoil zGW` → `th[n] gwIn`  |  `E:index` -/
def hGroundwaterInflow : Handler := fun ctx => do
  let cells ← rdCells ctx
  let wt ← rdBool
  let zGW ← rdF
  done
  match groundwaterInflow cells wt zGW with
  | none => pure "E:index"
  | some r => pure (join ((if cells.isEmpty then [] else [outTh r.1]) ++ [outF r.2]))

end Aqua.Drv
