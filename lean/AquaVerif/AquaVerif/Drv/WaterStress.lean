import AquaVerif.Drv.Proto
import AquaVerif.Model.WaterStress

namespace Aqua.Drv
open Aqua

def fin4 (xs : List Float) : Fin 4 → Float := fun i => xs.getD i.val 0.0

/-- `water_stress pUp[4] pLo[4] etAdj beta fsh[4] tEarlySen dr taw et0 betaFlag` → 5 floats -/
def hWaterStress : Handler := fun _ => do
  let pUp ← rdFs 4
  let pLo ← rdFs 4
  let etAdj ← rdBool
  let beta ← rdF
  let fsh ← rdFs 4
  let tes ← rdF
  let dr ← rdF
  let taw ← rdF
  let et0 ← rdF
  let bf ← rdBool
  done
  let k := waterStress Fn.float (fin4 pUp) (fin4 pLo) (fin4 fsh) etAdj beta tes dr taw et0 bf
  pure (outFs [k.exp, k.sto, k.sen, k.pol, k.stoLin])

/-- `aeration_stress aerDays lagAer thAct thS thAer` → `ksa aerDays'` -/
def hAerationStress : Handler := fun _ => do
  let a ← rdF
  let l ← rdF
  let act ← rdF
  let s ← rdF
  let aer ← rdF
  done
  let (k, a') := aerationStress a l act s aer
  pure (outFs [k, a'])

end Aqua.Drv
