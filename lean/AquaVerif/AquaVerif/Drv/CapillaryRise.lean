import AquaVerif.Drv.Proto
import AquaVerif.Model.CapillaryRise

namespace Aqua.Drv
open Aqua

/-- `capillary_rise <cells> nLayer fshapeCR zGW waterTable`
→ `th[n] crTot crAdded dzFill i<nIter> i<nCap> i<nFill>`  (the last five are ghost outputs)
|  `E:index` | `E:assert` | `E:unbound` -/
def hCapillaryRise : Handler := fun ctx => do
  let cells ← rdCells ctx
  let nLayer ← rdNat
  let fshape ← rdF
  let zGW ← rdF
  let wt ← rdNat
  done
  match capillaryRise Fn.float cells nLayer fshape zGW wt with
  | .error .index => pure "E:index"
  | .error .assert => pure "E:assert"
  | .error .unbound => pure "E:unbound"
  | .ok r => pure (join ((if cells.isEmpty then [] else [outTh r.cells]) ++
      [outF r.crTot, outF r.crAdded, outF r.dzFill, outN r.nIter, outN r.nCap, outN r.nFill]))

end Aqua.Drv
