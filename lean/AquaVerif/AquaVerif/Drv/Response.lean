import AquaVerif.Drv.Proto
import AquaVerif.Model.Response

/-
Driver handlers for the response functions of `Model/Response.lean`.
Every reply ends with one *ghost* token `i<branch>` (which branch of the Python the inputs
select, recomputed here from the same tests — not part of the model); the Python encoders strip it.
-/
namespace Aqua.Drv
open Aqua

/-- branch of `polHeat`/`polCold`: 0 flag off, 1 no stress, 2 full stress, 3 logistic, 9 unbound -/
def brPol (flag : Nat) (one zero : Bool) : Nat :=
  if flag = 0 then 0 else if flag = 1 then (if one then 1 else if zero then 2 else 3) else 9

/-- `temperature_stress polHeat polCold tmaxUp tmaxLo tminUp tminLo fshapeB tmax tmin`
→ `polH polC i<10*brHeat+brCold>` | `E:unbound i<…>` -/
def hTemperatureStress : Handler := fun _ => do
  let ph ← rdNat
  let pc ← rdNat
  let tmaxUp ← rdF
  let tmaxLo ← rdF
  let tminUp ← rdF
  let tminLo ← rdF
  let b ← rdF
  let tmax ← rdF
  let tmin ← rdF
  done
  let br := 10 * brPol ph (tmax ≤ tmaxLo) (tmaxUp ≤ tmax) + brPol pc (tminUp ≤ tmin) (tmin ≤ tminLo)
  match temperatureStress Fn.float ph pc tmaxUp tmaxLo tminUp tminLo b tmax tmin with
  | none => pure (join ["E:unbound", outN br])
  | some (h, c) => pure (join [outF h, outF c, outN br])

/-- `growing_degree_day method tupp tbase tmax tmin` → `gdd i<method>` | `E:unbound i<method>` -/
def hGrowingDegreeDay : Handler := fun _ => do
  let m ← rdNat
  let tupp ← rdF
  let tbase ← rdF
  let tmax ← rdF
  let tmin ← rdF
  done
  match growingDegreeDay m tupp tbase tmax tmin with
  | none => pure (join ["E:unbound", outN m])
  | some g => pure (join [outF g, outN m])

/-- `cc_development cco ccx cgc cdc dt mode ccx0` (`mode`: 0 = "Growth", 1 = "Decline", other =
any other string) → `cc i<branch>` | `E:unbound i9`.
branch = 10·a + b; a: 1 exponential stage, 2 decay stage, 3 decay stage capped at CCx,
4 exponential stage capped at CCx, 5 decline with CCx < 0.001, 6 decline curve;
b: 0 unclipped, 1 clipped to 1, 2 clipped to 0. -/
def hCcDevelopment : Handler := fun _ => do
  let cco ← rdF
  let ccx ← rdF
  let cgc ← rdF
  let cdc ← rdF
  let dt ← rdF
  let mode ← rdNat
  let ccx0 ← rdF
  done
  if mode > 1 then pure "E:unbound i9" else
  let m : CCMode := if mode = 0 then .growth else .decline
  let raw : Float := match m with
    | .growth => ccGrowth Fn.float cco ccx cgc dt
    | .decline => ccDecline Fn.float ccx cdc dt ccx0
  let a : Nat := match m with
    | .growth =>
      let e := cco * Float.exp (cgc * dt)
      if ccx / 2 < e then
        (if ccx < ccx - 0.25 * (ccx / cco) * ccx * Float.exp ((-cgc) * dt) then 3 else 2)
      else (if ccx < e then 4 else 1)
    | .decline => if ccx < 0.001 then 5 else 6
  let b : Nat := if 1 < raw then 1 else if raw < 0 then 2 else 0
  pure (join [outF (ccDevelopment Fn.float cco ccx cgc cdc dt m ccx0), outN (10 * a + b)])

/-- `cc_required_time ccPrev cco ccx cgc cdc mode` (`mode`: 0 = "CGC", 1 = "CDC", other = any
other string) → `tReq i<branch>` (1 CGC lower half, 2 CGC upper half, 3 CDC) | `E:unbound i9` -/
def hCcRequiredTime : Handler := fun _ => do
  let ccPrev ← rdF
  let cco ← rdF
  let ccx ← rdF
  let cgc ← rdF
  let cdc ← rdF
  let mode ← rdNat
  done
  if mode > 1 then pure "E:unbound i9" else
  let m : ReqMode := if mode = 0 then .cgc else .cdc
  let br : Nat := match m with
    | .cgc => if ccPrev ≤ ccx / 2 then 1 else 2
    | .cdc => 3
  pure (join [outF (ccRequiredTime Fn.float ccPrev cco ccx cgc cdc m), outN br])

/-- branch of the CO2 block —
1: `c ≤ ref` (fCO2old);  11: `550 < c ≤ ref` (the reset copy reads the unassigned fCO2old);
2: `ref < c ≤ 550`, fCO2old selected;  3: `ref < c ≤ 550`, fCO2new selected;
4: `550 < c < 2000` (fCO2new curve);  5: `c ≥ 2000` (fCO2new = 1.58). -/
def brCO2 (F : Fn Float) (c ref bsted bface fsink : Float) : Nat :=
  if c ≤ ref then (if 550 < c then 11 else 1)
  else if c ≤ 550 then
    (if fco2Old c ref (fco2Weight c ref) bsted bface fsink < fco2New F c ref fsink then 2 else 3)
  else if 2000 ≤ c then 5 else 4

def rdCO2 : Rd (Float × Float × Float × Float × Float × Float) := do
  let c ← rdF
  let ref ← rdF
  let bsted ← rdF
  let bface ← rdF
  let fsink ← rdF
  let wp ← rdF
  done
  pure (c, ref, bsted, bface, fsink, wp)

/-- `fco2_init co2conc co2ref bsted bface fsink wp` → `fCO2 i<branch>` | `E:unbound i<branch>` -/
def hFco2Init : Handler := fun _ => do
  let (c, ref, bsted, bface, fsink, wp) ← rdCO2
  let br := brCO2 Fn.float c ref bsted bface fsink
  match fco2Init Fn.float c ref bsted bface fsink wp with
  | none => pure (join ["E:unbound", outN br])
  | some f => pure (join [outF f, outN br])

/-- `fco2_reset co2conc co2ref bsted bface fsink wp` → `fCO2 i<branch>` | `E:unbound i<branch>` -/
def hFco2Reset : Handler := fun _ => do
  let (c, ref, bsted, bface, fsink, wp) ← rdCO2
  let br := brCO2 Fn.float c ref bsted bface fsink
  match fco2Reset Fn.float c ref bsted bface fsink wp with
  | none => pure (join ["E:unbound", outN br])
  | some f => pure (join [outF f, outN br])

end Aqua.Drv
