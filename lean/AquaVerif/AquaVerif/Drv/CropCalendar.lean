import AquaVerif.Drv.Proto
import AquaVerif.Model.CropCalendar

/-
Driver handlers for `Model/CropCalendar.lean`.

`crop_calendar 1 det cropType switchGDD HIstartCD FloweringCD SenescenceCD EmergenceCD MaxRootingCD
    MaturityCD YldFormCD CC0 CCx CGC_CD CDC_CD FloweringEnd`
  → `CanopyDevEndCD Canopy10PctCD MaxCanopyCD HIendCD Emergence Canopy10Pct MaxRooting Senescence
     Maturity MaxCanopy CanopyDevEnd HIstart HIend YldForm FloweringEndCD FloweringEnd FloweringCD
     CDC CGC`                                   (19 floats)   |  `E:unsupported`
`crop_calendar 2 det cropType GDDmethod Tbase Tupp Emergence Maturity HIstart Flowering YldForm
    Senescence CC0 CCx CGC FloweringEnd n (MinTemp MaxTemp)×n`
  → `CanopyDevEnd Canopy10Pct MaxCanopy HIend FloweringEnd i<MaturityCD> i<MaxCanopyCD>
     i<CanopyDevEndCD> i<HIstartCD> i<HIendCD> i<YldFormCD> i<FloweringCD>`
     | `E:unbound` | `E:index` | `E:assert:maturity` | `E:assert:year`
`crop_calendar <other mode>` → `nop` (the Python function changes nothing)

`reset_calendar 2 cropType GDDmethod Tbase Tupp Maturity MaxCanopy CanopyDevEnd HIstart HIend
    FloweringEnd HI0 HIini n (MinTemp MaxTemp)×n`
  → `i<MaturityCD> i<MaxCanopyCD> i<CanopyDevEndCD> i<HIstartCD> i<HIendCD> i<YldFormCD>
     i<FloweringCD> HIGC tLinSwitch dHILinear`
     | `E:unbound` | `E:index` | `E:assert:maturity` | `E:assert:year` | `E:fuel`
`reset_calendar <other calendar type>` → `nop` (the block is skipped)

`det` = `1` iff `crop.Determinant == 1`, `switchGDD` = `1` iff `crop.SwitchGDD == 1`.
-/
namespace Aqua.Drv
open Aqua

/-- `Float` has no `IntCast` in core; the model casts `YldFormCD` for the harvest-index loops. -/
@[reducible] def intCastFloatCC : IntCast Float := ⟨Float.ofInt⟩

/-- loop fuel of the harvest-index block in the driver (as `higcFuel` of `Drv/HarvestIndex`) -/
def calFuel : Nat := 1000000

def rdTemps : Rd (List (Float × Float)) := do
  let n ← rdNat
  let mut acc : Array (Float × Float) := #[]
  for _ in [0:n] do
    let a ← rdF
    let b ← rdF
    acc := acc.push (a, b)
  pure acc.toList

def outDays (d : CalDays) : String :=
  join [outN d.maturityCD, outN d.maxCanopyCD, outN d.canopyDevEndCD, outN d.hiStartCD,
        outN d.hiEndCD, outI d.yldFormCD, outI d.floweringCD]

def hCropCalendar : Handler := fun _ => do
  let mode ← rdNat
  if mode = 1 then
    let det ← rdBool
    let ct ← rdNat
    let sw ← rdBool
    let hiStartCD ← rdF
    let floweringCD ← rdF
    let senescenceCD ← rdF
    let emergenceCD ← rdF
    let maxRootingCD ← rdF
    let maturityCD ← rdF
    let yldFormCD ← rdF
    let cc0 ← rdF
    let ccx ← rdF
    let cgcCD ← rdF
    let cdcCD ← rdF
    let floweringEnd ← rdF
    done
    let c : CalCDIn Float :=
      { determinant := det, cropType := ct, switchGDD := sw, hiStartCD := hiStartCD,
        floweringCD := floweringCD, senescenceCD := senescenceCD, emergenceCD := emergenceCD,
        maxRootingCD := maxRootingCD, maturityCD := maturityCD, yldFormCD := yldFormCD,
        cc0 := cc0, ccx := ccx, cgcCD := cgcCD, cdcCD := cdcCD, floweringEnd := floweringEnd }
    match calendarInitCD Fn.float c with
    | .error e => pure e
    | .ok o =>
      pure (outFs [o.canopyDevEndCD, o.canopy10PctCD, o.maxCanopyCD, o.hiEndCD, o.emergence,
        o.canopy10Pct, o.maxRooting, o.senescence, o.maturity, o.maxCanopy, o.canopyDevEnd,
        o.hiStart, o.hiEnd, o.yldForm, o.floweringEndCD, o.floweringEnd, o.floweringCD,
        o.cdc, o.cgc])
  else if mode = 2 then
    let det ← rdBool
    let ct ← rdNat
    let m ← rdNat
    let tbase ← rdF
    let tupp ← rdF
    let emergence ← rdF
    let maturity ← rdF
    let hiStart ← rdF
    let flowering ← rdF
    let yldForm ← rdF
    let senescence ← rdF
    let cc0 ← rdF
    let ccx ← rdF
    let cgc ← rdF
    let floweringEnd ← rdF
    let temps ← rdTemps
    done
    let c : CalGDDIn Float :=
      { determinant := det, cropType := ct, gddMethod := m, tbase := tbase, tupp := tupp,
        emergence := emergence, maturity := maturity, hiStart := hiStart, flowering := flowering,
        yldForm := yldForm, senescence := senescence, cc0 := cc0, ccx := ccx, cgc := cgc,
        floweringEnd := floweringEnd }
    have : IntCast Float := intCastFloatCC
    match calendarInit Fn.float c temps with
    | .error e => pure e
    | .ok o =>
      pure (join [outFs [o.canopyDevEnd, o.canopy10Pct, o.maxCanopy, o.hiEnd, o.floweringEnd],
                  outDays o.days])
  else pure "nop"

def hResetCalendar : Handler := fun _ => do
  let cal ← rdNat
  if cal = 2 then
    let ct ← rdNat
    let m ← rdNat
    let tbase ← rdF
    let tupp ← rdF
    let maturity ← rdF
    let maxCanopy ← rdF
    let canopyDevEnd ← rdF
    let hiStart ← rdF
    let hiEnd ← rdF
    let floweringEnd ← rdF
    let hi0 ← rdF
    let hiIni ← rdF
    let temps ← rdTemps
    done
    let c : CalResetIn Float :=
      { cropType := ct, gddMethod := m, tbase := tbase, tupp := tupp,
        th := { maturity := maturity, maxCanopy := maxCanopy, canopyDevEnd := canopyDevEnd,
                hiStart := hiStart, hiEnd := hiEnd, floweringEnd := floweringEnd },
        hi0 := hi0, hiIni := hiIni }
    have : IntCast Float := intCastFloatCC
    match calendarReset Fn.float calFuel c temps with
    | .error e => pure e
    | .ok o => pure (join [outDays o.days, outFs [o.higc, o.tLinSwitch, o.dHILinear]])
  else pure "nop"

end Aqua.Drv
