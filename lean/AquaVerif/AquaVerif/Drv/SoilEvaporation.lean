import AquaVerif.Drv.Proto
import AquaVerif.Model.SoilEvaporation

namespace Aqua.Drv
open Aqua

/-- `evap_layer_water_content <cells> evapZ` → `sat fc wp dry act` -/
def hEvapLayer : Handler := fun ctx => do
  let cells ← rdCells ctx
  let z ← rdF
  done
  match evapLayerWater cells z with
  | .error e => pure e
  | .ok w => pure (outFs [w.sat, w.fc, w.wp, w.dry, w.act])

def rdIntF : Rd Float := do
  let n ← rdInt
  pure (Float.ofInt n)

/-- `soil_evaporation <cells> steps simOff tsc zMin zMax rew kex fwcc fWrelExp fevap calType senescence
irrMethod wetSurf mulches fMulch mulchPct dap wSurf evapZ stage2 delayedCDs gddCum delayedGDDs ccxW
ccAdj ccxAct cc prematSenes pond wStage2 epot et0 infl rain irr growingSeason`
(Python argument order with `prof`/`th` moved into `<cells>`; bools 0/1; `steps tsc calType
irrMethod` naturals, `dap` integer, everything else floats as bit patterns)
→ `epot th[n] i<stage2> wStage2 wSurf pond evapZ esAct esPot i<negTake> i<branch>`
(the two last tokens are ghosts; `negTake` is provably `i0` since repo fix 9c2fed8) -/
def hSoilEvaporation : Handler := fun ctx => do
  let cells ← rdCells ctx
  let steps ← rdNat
  let simOff ← rdBool
  let tsc ← rdNat
  let zMin ← rdF
  let zMax ← rdF
  let rew ← rdF
  let kex ← rdF
  let fwcc ← rdF
  let fWrelExp ← rdF
  let fevap ← rdF
  let calType ← rdNat
  let senescence ← rdF
  let irrMethod ← rdNat
  let wetSurf ← rdF
  let mulches ← rdBool
  let fMulch ← rdF
  let mulchPct ← rdF
  let dap ← rdIntF
  let wSurf ← rdF
  let evapZ ← rdF
  let stage2 ← rdBool
  let delayedCDs ← rdF
  let gddCum ← rdF
  let delayedGDDs ← rdF
  let ccxW ← rdF
  let ccAdj ← rdF
  let ccxAct ← rdF
  let cc ← rdF
  let premat ← rdBool
  let pond ← rdF
  let wStage2 ← rdF
  let epot ← rdF
  let et0 ← rdF
  let infl ← rdF
  let rain ← rdF
  let irr ← rdF
  let gs ← rdBool
  done
  let P : EvapParams Float :=
    { steps := steps, simOffSeason := simOff, zMin := zMin, zMax := zMax, rew := rew, kex := kex,
      fwcc := fwcc, fWrelExp := fWrelExp, fevap := fevap, calendarType := calType,
      senescence := senescence, irrMethod := irrMethod, wetSurf := wetSurf, mulches := mulches,
      fMulch := fMulch, mulchPct := mulchPct }
  let S : EvapState Float :=
    { dap := dap, wSurf := wSurf, evapZ := evapZ, stage2 := stage2, delayedCDs := delayedCDs,
      gddCum := gddCum, delayedGDDs := delayedGDDs, ccxW := ccxW, ccAdj := ccAdj, ccxAct := ccxAct,
      cc := cc, prematSenes := premat, pond := pond, wStage2 := wStage2, epot := epot }
  let D : EvapDay Float :=
    { tsc := tsc, et0 := et0, infl := infl, rain := rain, irr := irr, growingSeason := gs }
  match soilEvaporation Fn.float P S cells D with
  | .error e => pure e
  | .ok r => pure (join [outF r.epot, outTh r.cells, outB r.stage2, outF r.wStage2, outF r.wSurf,
      outF r.pond, outF r.evapZ, outF r.esAct, outF r.esPot, outB r.negTake, outN r.branch])

end Aqua.Drv
