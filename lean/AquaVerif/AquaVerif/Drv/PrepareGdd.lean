import AquaVerif.Drv.Proto
import AquaVerif.Drv.CropCalendar
import AquaVerif.Model.PrepareGdd

/-
Driver handler for `Model/PrepareGdd.lean` (`compute_crop_calendar`, Mode 1, `SwitchGDD == 1`,
including `prepare_gdd`).

`prepare_gdd det cropType GDDmethod sumFun hasCol Tbase Tupp HIstartCD FloweringCD SenescenceCD
    EmergenceCD MaxRootingCD MaturityCD YldFormCD CC0 CCx CGC_CD CDC_CD FloweringEnd oldYF oldFD
    n (label MinTemp MaxTemp)×n`
  `det` = 1 iff `crop.Determinant == 1`; `sumFun` = 0 (`'mean'`), 1 (`'median'`), 2 (other);
  `hasCol` = 1 iff the column `season` exists after the labelling loop; `label` = season number
  of the row (1, 2, …), `0` for NaN (no season); `oldYF`, `oldFD` = previous values of
  `crop.YieldFormation`, `crop.FloweringDuration` (0 when the attribute does not exist).
  → `CanopyDevEndCD Canopy10PctCD MaxCanopyCD HIendCD Emergence Canopy10Pct MaxRooting Senescence
     Maturity MaxCanopy CanopyDevEnd HIstart HIend YldForm FloweringEndCD FloweringEnd FloweringCD
     CDC CGC YieldFormation FloweringDuration i<CalendarType>`     (21 floats, 1 int)
     | `E:unbound` | `E:key` | `E:index`
-/
namespace Aqua.Drv
open Aqua

/-- `int(x)` of a finite float: truncation towards zero -/
def floatToInt (x : Float) : Int := x.toInt64.toInt

def rdLabelledTemps : Rd (List (Option Nat × Float × Float)) := do
  let n ← rdNat
  let mut acc : Array (Option Nat × Float × Float) := #[]
  for _ in [0:n] do
    let l ← rdNat
    let a ← rdF
    let b ← rdF
    acc := acc.push (if l = 0 then none else some l, a, b)
  pure acc.toList

def hPrepareGdd : Handler := fun _ => do
  let det ← rdBool
  let ct ← rdNat
  let m ← rdNat
  let sumFun ← rdNat
  let hasCol ← rdBool
  let tbase ← rdF
  let tupp ← rdF
  let hiStartCD ← rdF
  let floweringCD ← rdF
  let senescenceCD ← rdF
  let emergenceCD ← rdF
  let maxRootingCD ← rdF
  let maturityCD ← rdF
  let yldFormCD ← rdF
  let cc0 ← rdF
  let ccx ← rdF
  let cgcCD ← rdF
  let cdcCD ← rdF
  let floweringEnd ← rdF
  let oldYF ← rdF
  let oldFD ← rdF
  let rows ← rdLabelledTemps
  done
  let c : CalCDIn Float :=
    { determinant := det, cropType := ct, switchGDD := true, hiStartCD := hiStartCD,
      floweringCD := floweringCD, senescenceCD := senescenceCD, emergenceCD := emergenceCD,
      maxRootingCD := maxRootingCD, maturityCD := maturityCD, yldFormCD := yldFormCD,
      cc0 := cc0, ccx := ccx, cgcCD := cgcCD, cdcCD := cdcCD, floweringEnd := floweringEnd }
  have : IntCast Float := intCastFloatCC
  match calendarInitCDSwitch Fn.float floatToInt c m tbase tupp hasCol sumFun oldYF oldFD rows with
  | .error e => pure e
  | .ok r =>
    let o := r.cal
    pure (join [outFs [o.canopyDevEndCD, o.canopy10PctCD, o.maxCanopyCD, o.hiEndCD, o.emergence,
      o.canopy10Pct, o.maxRooting, o.senescence, o.maturity, o.maxCanopy, o.canopyDevEnd,
      o.hiStart, o.hiEnd, o.yldForm, o.floweringEndCD, o.floweringEnd, o.floweringCD,
      o.cdc, o.cgc, r.yieldFormation, r.floweringDuration], outN r.calendarType])

end Aqua.Drv
