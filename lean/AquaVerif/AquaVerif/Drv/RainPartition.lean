import AquaVerif.Drv.Proto
import AquaVerif.Model.RainPartition

namespace Aqua.Drv
open Aqua

/-- `rainfall_partition <cells> p daySub srInhb bunds zBund cnAdjPct soilCN adjCN zCN`
→ `runoff infl i<daySub> cn` -/
def hRainPartition : Handler := fun ctx => do
  let cells ← rdCells ctx
  let p ← rdF
  let daySub ← rdNat
  let srInhb ← rdBool
  let bunds ← rdBool
  let zBund ← rdF
  let pct ← rdF
  let cn ← rdF
  let adj ← rdBool
  let zCN ← rdF
  done
  match rainPartition Fn.float p cells daySub srInhb bunds zBund pct cn adj zCN with
  | none => pure "E:index"
  | some r => pure (join [outF r.runoff, outF r.infl, outN r.daySub, outF r.cn])

end Aqua.Drv
