import AquaVerif.Drv.Proto
import AquaVerif.Model.WeatherBind
/-
Handler `weather_bind` (work package T): the implementation's weather handling replayed on the
model `Aqua.WeatherBind`.

request
  weather_bind <mode> <start> <end> <nrows> <ncols> <column>*ncols <index>*nrows <nprobe> <t>*nprobe
    mode    0  the pieces: `read_weather_inputs` + matrix line            (`weatherMatrix`)
            1  as the model object: setter, pieces, setter                (`modelWeather`)
            2  as 1, and every probed day also prints what the time step reads (`dayVars`)
    start, end  day numbers (signed decimal)
    column  <len> <code point>*len <kind> <cells>
            kind `n`: nrows floats (bit patterns)          — numeric column
            kind `o`: no cells                              — non-numeric column, only named
            kind `d`: nrows cells, each `<int>` (a date, day number) | `N` (NaT) | `O` (other)
                      | `F<bits>` (a number) | `U` (NaN / None)                — date / object column
    index   one signed decimal per row (any labels; the encoder sends the row positions)
    t       probed time-step counters
reply
  E:<kind>                                              (first-date, last-date, attr, index, type,
                                                         ambiguous, key, format, frame-mask)
  i<nr> i<nc> <cell>*(nr*nc) <i<index>>*nr <probe>*nprobe
    cell    float bit pattern (a NaN for `U`) | `i<day>` | `iNaT` | `iO`
    probe   `i0` (IndexError)  |  `i1 <cell>*nc`  (mode 2: followed by tmin tmax precip et0)
-/

namespace Aqua.Drv.WB
open Aqua Aqua.Drv Aqua.RunShape Aqua.WeatherBind

def rdCell : Rd (WCell Float) := do
  let t ← tok
  if t == "N" then pure .nat
  else if t == "O" then pure .other
  else if t == "U" then pure .null
  else if t.startsWith "F" then
    match (t.drop 1).toNat? with
    | some n => pure (.num (Float.ofBits n.toUInt64))
    | none => throw s!"E:bad-cell:{t}"
  else
    match t.toInt? with
    | some d => pure (.date d)
    | none => throw s!"E:bad-cell:{t}"

def rdName : Rd String := do
  let n ← rdNat
  let mut cs : Array Char := #[]
  for _ in [0:n] do
    cs := cs.push (Char.ofNat (← rdNat))
  pure (String.ofList cs.toList)

def rdColumn (nrows : Nat) : Rd (String × List (WCell Float)) := do
  let name ← rdName
  let kind ← tok
  let mut acc : Array (WCell Float) := #[]
  if kind == "n" then
    for _ in [0:nrows] do
      acc := acc.push (.num (← rdF))
  else if kind == "o" then
    for _ in [0:nrows] do
      acc := acc.push .other
  else if kind == "d" then
    for _ in [0:nrows] do
      acc := acc.push (← rdCell)
  else throw s!"E:bad-kind:{kind}"
  pure (name, acc.toList)

def outCell : WCell Float → String
  | .num x => outF x
  | .date d => outI d
  | .nat => "iNaT"
  | .null => outF (0.0 / 0.0)
  | .other => "iO"

def outRow (r : List (WCell Float)) : String := join (r.map outCell)

def outProbe (mode : Nat) (m : List (List (WCell Float))) (t : Nat) : String :=
  match dayRow m t with
  | .error _ => "i0"
  | .ok r =>
    if mode == 2 then
      match dayVars r with
      | .ok v => join ["i1", outRow r, outCell v.tmin, outCell v.tmax, outCell v.precip, outCell v.et0]
      | .error e => join ["i1", outRow r, e]
    else join ["i1", outRow r]

end Aqua.Drv.WB

namespace Aqua.Drv
open Aqua Aqua.RunShape Aqua.WeatherBind Aqua.Drv.WB

def hWeatherBind : Handler := fun _ => do
  let mode ← rdNat
  let s ← rdInt
  let e ← rdInt
  let nrows ← rdNat
  let ncols ← rdNat
  let mut cols : Array (String × List (WCell Float)) := #[]
  for _ in [0:ncols] do
    cols := cols.push (← rdColumn nrows)
  let mut idx : Array Int := #[]
  for _ in [0:nrows] do
    idx := idx.push (← rdInt)
  let np ← rdNat
  let mut probes : Array Nat := #[]
  for _ in [0:np] do
    probes := probes.push (← rdNat)
  done
  let t : WTable Float Int := { cols := cols.toList, index := idx.toList }
  let res := if mode == 0 then weatherMatrix s e t else modelWeather s e t
  match res with
  | .error err => pure err
  | .ok m =>
    -- the clipped index (ghost output: which rows were kept)
    let kept : List Int := match readWeatherInputs s e t with
      | .ok t' => t'.index
      | .error _ => []
    let nc := match m with
      | r :: _ => r.length
      | [] => match selectCols required t.cols with   -- width of an empty matrix
        | .ok cs => cs.length
        | .error _ => 0
    pure (join ([outN m.length, outN nc] ++ m.map outRow ++ kept.map outI
                ++ probes.toList.map (outProbe mode m)))

end Aqua.Drv
