import AquaVerif.Drv.Proto
import AquaVerif.Model.GroundwaterTable

namespace Aqua.Drv
open Aqua

/-- `check_groundwater_table <cells> waterTable zGW`
→ `fcAdj[n] i<table> i<wtInSoil> zGW'`  |  `E:unbound`
(`table = 0`: Python returned `(th_fc_Adj, None, None)`; then `wtInSoil = 0`, `zGW' = zGW`). -/
def hCheckGroundwaterTable : Handler := fun ctx => do
  let cells ← rdCells ctx
  let wt ← rdNat
  let zGW ← rdF
  done
  match checkGroundwaterTable Fn.float cells wt zGW with
  | none => pure "E:unbound"
  | some r => pure (join ((if cells.isEmpty then [] else [outFcAdj r.cells]) ++
      [outB r.table, outB r.wtInSoil, outF r.zGW]))

end Aqua.Drv
