import AquaVerif.Drv.Proto
import AquaVerif.Model.Irrigation

namespace Aqua.Drv
open Aqua

def irrErrTok : IrrErr → String
  | .rootZone => "E:rz"
  | .index => "E:index"
  | .assert => "E:assert"
  | .zerodiv => "E:zerodiv"
  | .unbound => "E:unbound"

/-- `irrigation <cells> method smt[4] appEff maxIrr interval schedOk sched depth maxSeason
growthStage irrCum ePot tPot zRoot dap zMin aer zTop gs rain runoff`
→ `depletion taw irrCum irr i<branch>` (`schedOk = 0`: `Schedule[idx]` is out of range) -/
def hIrrigation : Handler := fun ctx => do
  let cells ← rdCells ctx
  let method ← rdNat
  let smt ← rdFs 4
  let appEff ← rdF
  let maxIrr ← rdF
  let interval ← rdNat
  let schedOk ← rdBool
  let sched ← rdF
  let depth ← rdF
  let maxSeason ← rdF
  let stage ← rdNat
  let irrCum ← rdF
  let ePot ← rdF
  let tPot ← rdF
  let zRoot ← rdF
  let dap ← rdNat
  let zMin ← rdF
  let aer ← rdF
  let zTop ← rdF
  let gs ← rdBool
  let rain ← rdF
  let runoff ← rdF
  done
  let smtA := smt.toArray
  let P : IrrParams Float :=
    { method := method, smt := fun i => smtA[i.val]!, appEff := appEff, maxIrr := maxIrr,
      interval := interval, depth := depth, maxSeason := maxSeason }
  match irrigation Fn.float P cells stage irrCum ePot tPot zRoot dap
      (if schedOk then some sched else none) zMin aer zTop gs rain runoff with
  | .error e => pure (irrErrTok e)
  | .ok r => pure (join [outF r.depletion, outF r.taw, outF r.irrCum, outF r.irr, outN r.branch])

/-- `irr_schedule start n k (day depth)*k` → `n` floats, or `E:dup` -/
def hIrrSchedule : Handler := fun _ => do
  let start ← rdInt
  let n ← rdNat
  let k ← rdNat
  let mut acc : Array (Int × Float) := #[]
  for _ in [0:k] do
    let d ← rdInt
    let v ← rdF
    acc := acc.push (d, v)
  done
  match scheduleReindex acc.toList start n with
  | none => pure "E:dup"
  | some xs => pure (outFs xs)

end Aqua.Drv
