import AquaVerif.Drv.Proto
import AquaVerif.Drv.WaterStress
import AquaVerif.Model.HIref
import AquaVerif.Model.HarvestIndex
import AquaVerif.Model.HIinit

/-
Driver handlers of the harvest-index chain:
`HIref_current_day`, `harvest_index`, `calculate_HIGC`, `calculate_HI_linear`.

Wire blocks (floats as bit patterns, `n:` = decimal natural, `b:` = 0/1):

  <HiCrop>       = n:CropType HIstartCD HIendCD YldFormCD FloweringCD CanopyDevEndCD HI0 HIini HIGC
                   tLinSwitch dHILinear dHI_pre a_HI b_HI dHI0 exc CCmin                (1 + 16 tokens)
  <HiStressCrop> = Zmin Aer p_up[4] p_lo[4] b:(ETadj==1) beta fshape_w[4] n:PolHeatStress
                   n:PolColdStress Tmax_up Tmax_lo Tmin_up Tmin_lo fshape_b               (22 tokens)
  <HiState>      = z_root t_early_sen hi_ref dap delayed_cds b:yield_form biomass biomass_ns
                   canopy_cover b:pre_adj f_pre f_pol s_cor1 s_cor2 fpost_upp fpost_dwn f_post
                   harvest_index harvest_index_adj                                        (19 tokens)

Every reply ends with ghost tokens (not part of the Python result; the encoders strip them).
-/
namespace Aqua.Drv
open Aqua

def TrigFn.float : TrigFn Float := { sin := Float.sin, pi := 3.141592653589793 }

def rdHiCrop : Rd (HiCrop Float) := do
  let ct ← rdNat
  let f ← rdFs 16
  let a := f.toArray
  pure { cropType := ct, hiStartCD := a[0]!, hiEndCD := a[1]!, yldFormCD := a[2]!,
         floweringCD := a[3]!, canopyDevEndCD := a[4]!, hi0 := a[5]!, hiIni := a[6]!,
         hiGC := a[7]!, tLinSwitch := a[8]!, dHILinear := a[9]!, dHIpre := a[10]!, aHI := a[11]!,
         bHI := a[12]!, dHI0 := a[13]!, exc := a[14]!, ccMin := a[15]! }

def rdHiStressCrop : Rd (HiStressCrop Float) := do
  let zMin ← rdF
  let aer ← rdF
  let pUp ← rdFs 4
  let pLo ← rdFs 4
  let etAdj ← rdBool
  let beta ← rdF
  let fsh ← rdFs 4
  let ph ← rdNat
  let pc ← rdNat
  let tmaxUp ← rdF
  let tmaxLo ← rdF
  let tminUp ← rdF
  let tminLo ← rdF
  let fb ← rdF
  pure { zMin := zMin, aer := aer, pUp := fin4 pUp, pLo := fin4 pLo, etAdj := etAdj, beta := beta,
         fshapeW := fin4 fsh, polHeatStress := ph, polColdStress := pc, tmaxUp := tmaxUp,
         tmaxLo := tmaxLo, tminUp := tminUp, tminLo := tminLo, fshapeB := fb }

def rdHiState : Rd (HiState Float) := do
  let zRoot ← rdF
  let tes ← rdF
  let hiRef ← rdF
  let dap ← rdF
  let del ← rdF
  let yf ← rdBool
  let b ← rdF
  let bns ← rdF
  let cc ← rdF
  let pre ← rdBool
  let f ← rdFs 9
  let a := f.toArray
  pure { zRoot := zRoot, tEarlySen := tes, hiRef := hiRef, dap := dap, delayedCDs := del,
         yieldForm := yf, biomass := b, biomassNS := bns, cc := cc, preAdj := pre, fPre := a[0]!,
         fPol := a[1]!, sCor1 := a[2]!, sCor2 := a[3]!, fpostUpp := a[4]!, fpostDwn := a[5]!,
         fPost := a[6]!, hi := a[7]!, hiAdj := a[8]! }

/-- branch of `HIref_current_day`:
0 off season; 1 `HIt ≤ 0`; otherwise `100·x + 10·a + b` with
a: 1 type 1/2 logistic, 2 type 1/2 snapped to HI0 (≥ 0.9799·HI0), 3 type 3 lag phase (logistic),
   4 type 3 linear phase, 5 other crop type;
b: limiter — 1 `> HI0`, 2 `≤ HIini + 0.004 → 0`, 3 within 0.004 of HI0, 4 unchanged;
x: +1 "inadequate photosynthesis" condition true, +2 final cap by HIfinal applied. -/
def brHIref (c : HiCrop Float) (s : HiRefIn Float) (gs : Bool) : Nat :=
  if !gs then 0 else
  let hit := hiTime c s.dap s.delayedCDs
  if hit ≤ 0 then 1 else
  let a : Nat :=
    if c.cropType = 1 ∨ c.cropType = 2 then
      (if 0.9799 * c.hi0 ≤ hiLogistic Fn.float c.hiIni c.hi0 c.hiGC hit then 2 else 1)
    else if c.cropType = 3 then (if hit < c.tLinSwitch then 3 else 4)
    else 5
  let raw := (hiRefRaw Fn.float c hit (s.hiRef, s.pctLagPhase)).1
  let b : Nat :=
    if c.hi0 < raw then 1 else if raw ≤ c.hiIni + 0.004 then 2
    else if c.hi0 - raw < 0.004 then 3 else 4
  let h := hiRefLimit c raw
  let adj := decide (hiFinalAdjCond c s.hiFinal hit s.cc s.ccxW)
  let hf := if adj then h else s.hiFinal
  let x : Nat := (if adj then 1 else 0) + (if hf < h then 2 else 0)
  100 * x + 10 * a + b

/-- `HIref_current_day hi_ref HIfinal dap delayed_cds b:yield_form pct_lag_phase canopy_cover
ccx_w <HiCrop> b:growing_season`
→ `hi_ref i<yield_form> pct_lag_phase | HIfinal_local i<branch>` (the last two are ghosts) -/
def hHIrefCurrentDay : Handler := fun _ => do
  let hiRef ← rdF
  let hiFinal ← rdF
  let dap ← rdF
  let del ← rdF
  let yf ← rdBool
  let lag ← rdF
  let cc ← rdF
  let ccxW ← rdF
  let c ← rdHiCrop
  let gs ← rdBool
  done
  let s : HiRefIn Float := { hiRef := hiRef, hiFinal := hiFinal, dap := dap, delayedCDs := del,
                             yieldForm := yf, pctLagPhase := lag, cc := cc, ccxW := ccxW }
  let o := hiRefCurrentDay Fn.float c s gs
  pure (join [outF o.hiRef, outB o.yieldForm, outF o.pctLagPhase, outF o.hiFinal,
              outN (brHIref c s gs)])

def outHiState (o : HiState Float) : String :=
  join [outB o.preAdj, outFs [o.fPre, o.fPol, o.sCor1, o.sCor2, o.fpostUpp, o.fpostDwn, o.fPost,
                              o.hi, o.hiAdj]]

/-- branch of `harvest_index` (from input and output state):
0 off season; 1 in season, outside yield formation; 2 leafy crop (type 1); 9 error;
otherwise `100000 + 10000·d1 + 1000·d2 + 100·d3 + 10·d4 + d5` with
d1: pre-anthesis adjustment — 0 not computed in this call, 1 `dHI_pre ≤ 0`, 2 lower sine branch,
3 upper sine branch, 4 relative biomass outside both ranges, 5 `CC ≤ 0.01` (→ 0);
d2: 0 root/tuber, 1 pollination computed with `CC ≥ CCmin`, 3 computed with `CC < CCmin`,
2 fruit/grain outside the flowering window; d3: post-anthesis adjustment computed (`HIt > 0`);
d4: `HImult` capped at `1 + dHI0/100`; d5: `HImax ≥ HIi`. -/
def brHarvestIndex (c : HiCrop Float) (s o : HiState Float) (gs : Bool) : Nat :=
  if !gs then 0 else
  let hit := hiTime c s.dap s.delayedCDs
  if !(s.yieldForm && decide (0 ≤ hit)) then 1 else
  if c.cropType = 1 then 2 else
  if !(c.cropType = 2 ∨ c.cropType = 3) then 9 else
  let d1 : Nat :=
    if s.preAdj then 0
    else if s.cc ≤ 0.01 then 5
    else if !(decide (0 < c.dHIpre)) then 1
    else
      let br := s.biomass / s.biomassNS
      let rng := Float.log c.dHIpre / 5.62
      let low := 1 - rng
      let top := 1 - (rng / 3)
      if low ≤ br ∧ br < top then 2 else if top < br ∧ br ≤ 1 then 3 else 4
  let d2 : Nat :=
    if c.cropType = 3 then
      (if 0 < hit ∧ hit ≤ c.floweringCD then (if s.cc < c.ccMin then 3 else 1) else 2)
    else 0
  let d3 : Nat := if 0 < hit then 1 else 0
  let d4 : Nat := if 1 + (c.dHI0 / 100) < o.fPre * o.fPost then 1 else 0
  let hiMax := if c.cropType = 3 then o.fPol * c.hi0 else c.hi0
  let d5 : Nat := if s.hiRef ≤ hiMax then 1 else 0
  100000 + 10000 * d1 + 1000 * d2 + 100 * d3 + 10 * d4 + d5

/-- `harvest_index <cells> Soil_zTop <HiCrop> <HiStressCrop> <HiState> et0 temp_max temp_min
b:growing_season`
→ `i<pre_adj> f_pre f_pol s_cor1 s_cor2 fpost_upp fpost_dwn f_post harvest_index
harvest_index_adj | i<branch>`  or  `E:index` / `E:unbound` -/
def hHarvestIndex : Handler := fun ctx => do
  let cells ← rdCells ctx
  let zTop ← rdF
  let c ← rdHiCrop
  let k ← rdHiStressCrop
  let s ← rdHiState
  let et0 ← rdF
  let tmax ← rdF
  let tmin ← rdF
  let gs ← rdBool
  done
  match harvestIndex Fn.float TrigFn.float cells zTop c k s et0 tmax tmin gs with
  | .error e => pure s!"E:{e}"
  | .ok o => pure (join [outHiState o, outN (brHarvestIndex c s o gs)])

/-- fuel of the `calculate_HIGC` loop in the driver: `HIGC` up to 1000. -/
def higcFuel : Nat := 1000000

/-- `calculate_HIGC YldFormCD HI0 HIini` → `HIGC` | `E:fuel` -/
def hCalculateHIGC : Handler := fun _ => do
  let t ← rdF
  let hi0 ← rdF
  let hiIni ← rdF
  done
  match calculateHIGC Fn.float higcFuel t hi0 hiIni with
  | none => pure "E:fuel"
  | some g => pure (outF g)

/-- `calculate_HI_linear YldFormCD HIini HI0 HIGC` → `tLinSwitch dHILinear` | `E:fuel`
(fuel = `⌈YldFormCD⌉ + 1`, which `hiLinLoop_fuel` shows to suffice) -/
def hCalculateHILinear : Handler := fun _ => do
  let t ← rdF
  let hiIni ← rdF
  let hi0 ← rdF
  let g ← rdF
  done
  let fuel : Nat := if t ≤ 0 then 1 else t.ceil.toUInt64.toNat + 1
  match calculateHILinear Fn.float fuel t hiIni hi0 g with
  | none => pure "E:fuel"
  | some (ts, d) => pure (outFs [ts, d])

end Aqua.Drv
