import AquaVerif.Drv.Proto
import AquaVerif.Model.CanopyCover

namespace Aqua.Drv
open Aqua

def fin4C (xs : List Float) : Fin 4 → Float := fun i => xs.getD i.val 0.0

/-- Request (tokens after the function name; `F` = float bit pattern, `N` = decimal natural,
`B` = `0`/`1`):

`canopy_cover <cells: profId th[n] fcAdj[n] flux[n] aer[n]> zTop:F`
`  calendarType:N emergence:F maturity:F canopyDevEnd:F senescence:F cc0:F ccx:F cgc:F cdc:F`
`  zMin:F aer:F pUp[4]:F pLo[4]:F fshapeW[4]:F etAdj:B(ETadj==1) beta:F`
`  dap:F delayedCds:F gddCum:F delayedGdds:F zRoot:F cc:F ccNS:F cc0Adj:F ccxAct:F ccxActNS:F`
`  ccxW:F ccxWNS:F ccxEarlySen:F ccPrev:F tEarlySen:F ccAdj:F ccAdjNS:F`
`  prematSenes:B cropDead:B protectedSeed:B`
`  gdd:F et0:F gs:B`

Reply (every `NewCond` field the function can write, in this order):
`ccPrev ccNS ccxActNS ccxWNS cc cc0Adj ccxAct ccxEarlySen tEarlySen ccxW ccAdj ccAdjNS`
`i<prematSenes> i<cropDead> i<protectedSeed>` followed by one ghost token `i<br>`
(branch code `brPot + 10·brAct + 1000·brSen`, 0 off season);
or `E:index` (any failure of `root_zone_water`) / `E:unbound` (`CalendarType ∉ {1,2}`). -/
def hCanopyCover : Handler := fun ctx => do
  let cells ← rdCells ctx
  let zTop ← rdF
  let calendarType ← rdNat
  let c ← rdFs 10
  let pUp ← rdFs 4
  let pLo ← rdFs 4
  let fsh ← rdFs 4
  let etAdj ← rdBool
  let beta ← rdF
  let s ← rdFs 17
  let prematSenes ← rdBool
  let cropDead ← rdBool
  let protectedSeed ← rdBool
  let gdd ← rdF
  let et0 ← rdF
  let gs ← rdBool
  done
  let k (i : Nat) : Float := c.getD i 0.0
  let crop : CcCrop Float :=
    { calendarType, emergence := k 0, maturity := k 1, canopyDevEnd := k 2, senescence := k 3,
      cc0 := k 4, ccx := k 5, cgc := k 6, cdc := k 7, zMin := k 8, aer := k 9,
      pUp := fin4C pUp, pLo := fin4C pLo, fshW := fin4C fsh, etAdj, beta }
  let g (i : Nat) : Float := s.getD i 0.0
  let st : CcState Float :=
    { dap := g 0, delayedCds := g 1, gddCum := g 2, delayedGdds := g 3, zRoot := g 4, cc := g 5,
      ccNS := g 6, cc0Adj := g 7, ccxAct := g 8, ccxActNS := g 9, ccxW := g 10, ccxWNS := g 11,
      ccxEarlySen := g 12, ccPrev := g 13, tEarlySen := g 14, ccAdj := g 15, ccAdjNS := g 16,
      prematSenes, cropDead, protectedSeed }
  match canopyCover Fn.float crop cells zTop st gdd et0 gs with
  | .error e => pure e
  | .ok t =>
    pure (join [outFs [t.ccPrev, t.ccNS, t.ccxActNS, t.ccxWNS, t.cc, t.cc0Adj, t.ccxAct,
                       t.ccxEarlySen, t.tEarlySen, t.ccxW, t.ccAdj, t.ccAdjNS],
                outB t.prematSenes, outB t.cropDead, outB t.protectedSeed, outN t.br])

end Aqua.Drv
