import AquaVerif.Drv.Clock
import AquaVerif.Model.Session

namespace Aqua.Drv
open Aqua Aqua.Clock Aqua.Session

/-- one operation: `0 numSteps till init processOutputs` (run_model) or `1`…`5`
(get_simulation_results, get_water_storage, get_water_flux, get_crop_growth,
get_additional_information) -/
def rdOp : Rd Op := do
  let k ← rdNat
  match k with
  | 0 =>
    let ns ← rdInt
    let till ← rdBool
    let ini ← rdBool
    let po ← rdBool
    pure (.run ns till ini po)
  | 1 => pure .getResults
  | 2 => pure .getStorage
  | 3 => pure .getFlux
  | 4 => pure .getGrowth
  | 5 => pure .getInfo
  | _ => throw s!"E:bad-op:{k}"

def rdOps : Rd (List Op) := do
  let m ← rdNat
  let mut acc : Array Op := #[]
  for _ in [0:m] do
    acc := acc.push (← rdOp)
  pure acc.toList

def tableCode : Table → Nat
  | .storage => 1
  | .flux => 2
  | .growth => 3

/-- the clock columns of a row of the given table: storage `(time_step_counter, growing_season,
dap)`, flux and growth `(time_step_counter, season_counter, dap)` -/
def outTableRow (k : Table) (r : Row) : String :=
  match k with
  | .storage => join [outN r.t, outB r.gs, outN r.dap]
  | _ => join [outN r.t, outI r.season, outN r.dap]

/-- one observation:
`i10` run_model returned True | `i11` get_simulation_results returned False |
`i12 m (season step)*m` final_stats | `i13 kind df n m (c0 c1 c2)*m` daily table |
`i14 finished` additional information | `E:<kind>` exception -/
def outObs : Obs → String
  | .retTrue => "i10"
  | .retFalse => "i11"
  | .summary rows =>
    join (["i12", outN rows.length] ++ rows.map (fun e => join [outI e.1, outN e.2]))
  | .table k df n rows =>
    join (["i13", outN (tableCode k), outB df, outN n, outN rows.length] ++ rows.map (outTableRow k))
  | .info f => join ["i14", outB f]
  | .raised e => e.toString

/-- ghost: the final object state
`i99 steps_are_finished has_model_executed has_model_finished initialised`
and, when initialised, `t season dap mature dead harvest_flag model_is_finished tables_are_df`. -/
def outFinal (s : SSt) : String :=
  let flags := ["i99", outB s.stepsAreFinished, outB s.executed, outB s.hasFinished,
                outB s.obj.isSome]
  match s.obj with
  | none => join flags
  | some o =>
    let k := o.clock
    join (flags ++ [outN k.t, outI k.season, outN k.dap, outB k.mature, outB k.dead,
                    outB k.harvestFlag, outB k.finished, outB o.converted])

/-- `session n offSeason season0 k planting[k] harvest[k] m (t mature dead)*m j op*j`
→ the `j` observations of the session on a newly constructed object, then the final state. -/
def hSession : Handler := fun _ => do
  let c ← rdClockCfg
  let ev ← rdEvents
  let ops ← rdOps
  done
  let r := session c ev ops
  pure (join (r.2.map outObs ++ [outFinal r.1]))

end Aqua.Drv
