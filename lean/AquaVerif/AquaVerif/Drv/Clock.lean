import AquaVerif.Drv.Proto
import AquaVerif.Model.Clock

namespace Aqua.Drv
open Aqua Aqua.Clock

def rdNats (n : Nat) : Rd (List Nat) := do
  let mut acc : Array Nat := #[]
  for _ in [0:n] do
    acc := acc.push (← rdNat)
  pure acc.toList

def rdInts (n : Nat) : Rd (List Int) := do
  let mut acc : Array Int := #[]
  for _ in [0:n] do
    acc := acc.push (← rdInt)
  pure acc.toList

/-- `n offSeason season0 k planting[k] harvest[k]` -/
def rdClockCfg : Rd Cfg := do
  let n ← rdNat
  let off ← rdBool
  let s0 ← rdInt
  let k ← rdNat
  let pl ← rdNats k
  let hv ← rdInts k
  pure { n := n, planting := pl, harvest := hv, offSeason := off, season0 := s0 }

/-- `m (t mature dead)*m` → oracle: flags observed at step `t` (first occurrence), else none -/
def rdEvents : Rd Ev := do
  let m ← rdNat
  let mut acc : Array (Nat × Bool × Bool) := #[]
  for _ in [0:m] do
    let t ← rdNat
    let a ← rdBool
    let b ← rdBool
    acc := acc.push (t, a, b)
  let l := acc.toList
  pure (fun t => match l.find? (fun e => e.1 == t) with
                 | some e => (e.2.1, e.2.2)
                 | none => (false, false))

def outRow (r : Row) : String :=
  join [outN r.t, outI r.season, outN r.dap, outB r.gs, outB r.mature, outB r.dead]

/-- reply: `nrows (t season dap gs mature dead)* nsummary (season step)* t season finished`;
the summary is printed with the `final_stats.loc[...]` (upsert) semantics. -/
def outSt (s : St) : String :=
  let rows := s.rows
  let sm := finalStats s.summary
  join ([outN rows.length] ++ rows.map outRow ++ [outN sm.length] ++
        sm.map (fun e => join [outI e.1, outN e.2]) ++ [outN s.t, outI s.season, outB s.finished])

def outRes (r : Except Err St) : String :=
  match r with
  | .ok s => outSt s
  | .error e => e.toString

/-- `clock n offSeason season0 k planting[k] harvest[k] m (t mature dead)*m`
→ `_initialize` clock + `run_model(till_termination=True)`. -/
def hClock : Handler := fun _ => do
  let c ← rdClockCfg
  let ev ← rdEvents
  done
  pure (outRes (init c >>= runTill c ev))

/-- `clock_calls n offSeason season0 k planting[k] harvest[k] m (t mature dead)*m j ks[j]`
→ `_initialize` clock + successive `run_model(num_steps=ks[i], initialize_model=False)`. -/
def hClockCalls : Handler := fun _ => do
  let c ← rdClockCfg
  let ev ← rdEvents
  let j ← rdNat
  let ks ← rdNats j
  done
  pure (outRes (init c >>= runCalls c ev ks))

end Aqua.Drv
