import AquaVerif.Drv.Proto
import AquaVerif.Model.PreIrrigation

namespace Aqua.Drv
open Aqua

/-- `pre_irrigation <cells> gs irrMethod dap zRoot zMin netIrrSMT npRound` → `th[n] preIrr`  |  `E:index`
(`npRound = 1`: `max(z_root, Zmin)` is a numpy scalar, `0`: a Python float). -/
def hPreIrrigation : Handler := fun ctx => do
  let cells ← rdCells ctx
  let gs ← rdBool
  let m ← rdNat
  let dap ← rdInt
  let zRoot ← rdF
  let zMin ← rdF
  let smt ← rdF
  let np ← rdBool
  done
  match preIrrigationT Fn.float np cells gs m dap zRoot zMin smt with
  | none => pure "E:index"
  | some r => pure (join ((if cells.isEmpty then [] else [outTh r.1]) ++ [outF r.2]))

end Aqua.Drv
