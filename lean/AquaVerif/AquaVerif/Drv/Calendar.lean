import AquaVerif.Drv.Proto
import AquaVerif.Model.Calendar

namespace Aqua.Drv
open Aqua Aqua.Calendar

/-- `calendar sy sm sd ey em ed pm pd hm hd`
→ `n k planting[k] harvest[k] season0` (day numbers relative to the start date) or `E:<kind>`. -/
def hCalendar : Handler := fun _ => do
  let sy ← rdInt; let sm ← rdInt; let sd ← rdInt
  let ey ← rdInt; let em ← rdInt; let ed ← rdInt
  let pm ← rdInt; let pd ← rdInt; let hm ← rdInt; let hd ← rdInt
  done
  match seasonDates sy sm sd ey em ed pm pd hm hd with
  | .error e => pure e.toString
  | .ok r =>
    pure (join ([outN r.n, outN r.planting.length] ++ r.planting.map outI ++ r.harvest.map outI ++
                [outI r.season0]))

/-- `civil_range y0 y1`: every day of the years `y0..y1` in calendar order.
Reply `count first last cont sum rt`: number of days, day number (Python ordinal =
`daysFromCivil + 719163`) of the first and last day, whether the ordinals are consecutive,
checksum `Σ (i+1)·ordinal_i mod 1000000007`, and whether `civilFromDays` inverts every one. -/
def hCivilRange : Handler := fun _ => do
  let y0 ← rdInt
  let y1 ← rdInt
  done
  let mut count : Nat := 0
  let mut first : Int := 0
  let mut last : Int := 0
  let mut cont := true
  let mut rt := true
  let mut sum : Int := 0
  for yi in [0:(y1 - y0 + 1).toNat] do
    let y : Int := y0 + yi
    for mi in [0:12] do
      let m : Int := mi + 1
      for di in [0:(daysInMonth y m).toNat] do
        let d : Int := di + 1
        let o := daysFromCivil y m d + 719163
        if count == 0 then first := o
        else if o != last + 1 then cont := false
        last := o
        count := count + 1
        sum := (sum + (count : Int) * o) % 1000000007
        if civilFromDays (o - 719163) != (y, m, d) then rt := false
        if !validDate y m d then rt := false
  pure (join [outN count, outI first, outI last, outB cont, outI sum, outB rt])

end Aqua.Drv
