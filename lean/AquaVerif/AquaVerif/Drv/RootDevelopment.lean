import AquaVerif.Drv.Proto
import AquaVerif.Model.RootDevelopment

namespace Aqua.Drv
open Aqua

/-- Request (tokens after the function name; `F` = float bit pattern, `N` = decimal natural,
`B` = `0`/`1`):

`root_development <cells: profId th[n] fcAdj[n] flux[n] aer[n]>`
`  calendarType:N(1,2, other=0) zmin:F zmax:F pctZmin:F emergence:F maxRooting:F fshapeR:F fshapeEx:F`
`  pUp1:F fshapeW1:F sxTop:F sxBot:F`
`  dap:F zRoot:F delayedCDs:F gddCum:F delayedGDDs:F trRatio:F cc:F ccNS:F germ:B rCor:F tPot:F zGW:F`
`  gdd:F gs:B waterTable:N(1 iff water_table_presence == 1)`

Reply: `zRoot rCor` followed by five ghost tokens `dZr dZr0 zrPot zInit i<br>`;
or `E:unbound` / `E:index` / `E:zerodiv`. -/
def hRootDevelopment : Handler := fun ctx => do
  let cells ← rdCells ctx
  let ct ← rdNat
  let c ← rdFs 11
  let s ← rdFs 8
  let germ ← rdBool
  let t ← rdFs 4
  let gs ← rdBool
  let wt ← rdNat
  done
  let g (xs : List Float) (i : Nat) : Float := xs.getD i 0.0
  let crop : RdCrop Float :=
    { calendarType := ct, zmin := g c 0, zmax := g c 1, pctZmin := g c 2, emergence := g c 3,
      maxRooting := g c 4, fshapeR := g c 5, fshapeEx := g c 6, pUp1 := g c 7, fshapeW1 := g c 8,
      sxTop := g c 9, sxBot := g c 10 }
  match rootDevelopment Fn.float crop cells (g s 0) (g s 1) (g s 2) (g s 3) (g s 4) (g s 5) (g s 6)
      (g s 7) germ (g t 0) (g t 1) (g t 2) (g t 3) gs wt with
  | .error e => pure e
  | .ok r => pure (join [outFs [r.zRoot, r.rCor, r.dZr, r.dZr0, r.zrPot, r.zInit], outN r.br])

end Aqua.Drv
