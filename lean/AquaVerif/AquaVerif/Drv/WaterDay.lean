import AquaVerif.Drv.Proto
import AquaVerif.Model.WaterDay

namespace Aqua.Drv
open Aqua

def fin4D (xs : List Float) : Fin 4 → Float := fun i => xs.getD i.val 0.0

/-- `water_day` — replay of the water part of one whole day (`solution_single_time_step`).

Request (tokens after the name; `F` float bit pattern, `N` natural, `B` 0/1):

`<cells: profId th[n] fcAdj[n] flux[n] aer[n]>`
`waterTable:N`
`cn:F adjCN:B zCN:F nComp:N nLayer:N fshapeCR:F zTop:F evapZMin:F evapZMax:F rew:F kex:F fwcc:F fWrelExp:F fevap:F`
`maxCanopyCD:F kcb:F fage:F aTr:F trColdStress:N gddUp:F gddLo:F lagAer:F zMin:F aer:F pUp[4] pLo[4] fshW[4] etAdj:B beta:F sxTop:F sxBot:F calendarType:N senescence:F`
`irrMethod:N smt[4] appEff:F maxIrr:F interval:N depth:F maxSeason:F netIrrSMT:F wetSurf:F`
`evapTimeSteps:N simOffSeason:B co2Cur:F co2Ref:F`
`srInhb:B bunds:B zBund:F cnAdj:B cnAdjPct:F mulches:B fMulch:F mulchPct:F`
`dap:N gdd:F gddCum:F zRoot:F zRootNp:B rCor:F growthStage:N delayedCds:F delayedGdds:F ccxW:F ccAdj:F ccxAct:F cc:F prematSenes:B ccxWNS:F ccAdjNS:F ccNS:F ccPrev:F tEarlySen:F`
`pond:F daySubmerged:N irrCum:F ePot:F tPot:F wSurf:F evapZ:F stage2:B wStage2:F ageDaysNS:F ageDays:F aerDays:F irrNetCum:F trRatio:F`
`gs:B tsc:N rain:F et0:F zGW:F schedOk:B sched:F`

Reply: `th[n] aer[n] pond Wr IrrDay Infl Runoff DeepPerc CR GwIn Es EsPot Tr TrPot`
followed by 8 ghost tokens `irr preIrr irrNet crAdded drainLost inflLost cn i<wtInSoil>`;
or `E:<kind>`. -/
def hWaterDay : Handler := fun ctx => do
  let cells ← rdCells ctx
  let waterTable ← rdNat
  -- soil
  let cn ← rdF
  let adjCN ← rdBool
  let zCN ← rdF
  let nComp ← rdNat
  let nLayer ← rdNat
  let so ← rdFs 9
  -- crop
  let c1 ← rdFs 4
  let tcs ← rdNat
  let c2 ← rdFs 5
  let pUp ← rdFs 4
  let pLo ← rdFs 4
  let fsh ← rdFs 4
  let etAdj ← rdBool
  let c3 ← rdFs 3
  let calendarType ← rdNat
  let senescence ← rdF
  -- irrigation management
  let method ← rdNat
  let smt ← rdFs 4
  let appEff ← rdF
  let maxIrr ← rdF
  let interval ← rdNat
  let depth ← rdF
  let maxSeason ← rdF
  let netIrrSMT ← rdF
  let wetSurf ← rdF
  -- clock, CO2
  let evapTimeSteps ← rdNat
  let simOffSeason ← rdBool
  let co2Cur ← rdF
  let co2Ref ← rdF
  -- field management
  let srInhb ← rdBool
  let bunds ← rdBool
  let zBund ← rdF
  let cnAdj ← rdBool
  let cnAdjPct ← rdF
  let mulches ← rdBool
  let fMulch ← rdF
  let mulchPct ← rdF
  -- crop day
  let dap ← rdNat
  let gdd ← rdF
  let gddCum ← rdF
  let zRoot ← rdF
  let zRootNp ← rdBool
  let rCor ← rdF
  let growthStage ← rdNat
  let d1 ← rdFs 6
  let prematSenes ← rdBool
  let d2 ← rdFs 5
  -- state
  let pond ← rdF
  let daySubmerged ← rdNat
  let s1 ← rdFs 5
  let stage2 ← rdBool
  let s2 ← rdFs 6
  -- day
  let gs ← rdBool
  let tsc ← rdNat
  let rain ← rdF
  let et0 ← rdF
  let zGW ← rdF
  let schedOk ← rdBool
  let sched ← rdF
  done
  let g (xs : List Float) (i : Nat) : Float := xs.getD i 0.0
  let soil : SoilW Float :=
    { cn, adjCN, zCN, nComp, nLayer, fshapeCR := g so 0, zTop := g so 1, evapZMin := g so 2,
      evapZMax := g so 3, rew := g so 4, kex := g so 5, fwcc := g so 6, fWrelExp := g so 7,
      fevap := g so 8 }
  let tr : TrCrop Float :=
    { maxCanopyCD := g c1 0, kcb := g c1 1, fage := g c1 2, aTr := g c1 3, trColdStress := tcs,
      gddUp := g c2 0, gddLo := g c2 1, lagAer := g c2 2, zMin := g c2 3, aer := g c2 4,
      pUp := fin4D pUp, pLo := fin4D pLo, fshW := fin4D fsh, etAdj, beta := g c3 0,
      sxTop := g c3 1, sxBot := g c3 2 }
  let W : WaterParams Float :=
    { waterTable, soil, crop := { tr, calendarType, senescence },
      irr := { method, smt := fin4D smt, appEff, maxIrr, interval, depth, maxSeason },
      netIrrSMT, wetSurf, evapTimeSteps, simOffSeason, co2Cur, co2Ref }
  let fm : FieldMngt Float := { srInhb, bunds, zBund, cnAdj, cnAdjPct, mulches, fMulch, mulchPct }
  let C : CropDay Float :=
    { dap, gdd, gddCum, zRoot, zRootNp, rCor, growthStage, delayedCds := g d1 0,
      delayedGdds := g d1 1, ccxW := g d1 2, ccAdj := g d1 3, ccxAct := g d1 4, cc := g d1 5,
      prematSenes, ccxWNS := g d2 0, ccAdjNS := g d2 1, ccNS := g d2 2, ccPrev := g d2 3,
      tEarlySen := g d2 4 }
  let S : DayState Float :=
    { pond, daySubmerged, irrCum := g s1 0, ePot := g s1 1, tPot := g s1 2, wSurf := g s1 3,
      evapZ := g s1 4, stage2, wStage2 := g s2 0, ageDaysNS := g s2 1, ageDays := g s2 2,
      aerDays := g s2 3, irrNetCum := g s2 4, trRatio := g s2 5 }
  let D : DayIn Float :=
    { gs, tsc, rain, et0, zGW, sched := if schedOk then some sched else none }
  match waterDay Fn.float W fm C cells S D with
  | .error e => pure e
  | .ok o =>
    pure (join ((if cells.isEmpty then [] else [outTh o.cells, outAer o.cells]) ++
      [outFs [o.pond, o.wr, o.irrDay, o.infl, o.runoff, o.deepPerc, o.cr, o.gwIn, o.es, o.esPot,
              o.tr, o.trPot],
       outFs [o.irr, o.preIrr, o.irrNet, o.crAdded, o.drainLost, o.inflLost, o.cn],
       outB o.wtInSoil]))

end Aqua.Drv
