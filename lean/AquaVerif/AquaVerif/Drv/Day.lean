import AquaVerif.Drv.Proto
import AquaVerif.Drv.HarvestIndex
import AquaVerif.Model.Day

namespace Aqua.Drv
open Aqua

def fin4Y (xs : List Float) : Fin 4 → Float := fun i => xs.getD i.val 0.0

/-- the state block of the `full_day` / `reset_state` requests (see `hFullDay`) -/
def rdDayState (cells : List (Cell Float)) : Rd (DayState' Float) := do
  let pond ← rdF
  let daySubmerged ← rdNat
  let s1 ← rdFs 5
  let stage2 ← rdBool
  let s2 ← rdFs 6
  let dap ← rdNat
  let s3 ← rdFs 3
  let growthStage ← rdNat
  let germ ← rdBool
  let protectedSeed ← rdBool
  let s4 ← rdFs 2
  let s5 ← rdFs 12
  let prematSenes ← rdBool
  let cropDead ← rdBool
  let s6 ← rdFs 2
  let yieldForm ← rdBool
  let s7 ← rdFs 3
  let preAdj ← rdBool
  let s8 ← rdFs 9
  let cropMature ← rdBool
  let harvestFlag ← rdBool
  let g (xs : List Float) (i : Nat) : Float := xs.getD i 0.0
  pure
    { cells, pond, daySubmerged, irrCum := g s1 0, ePot := g s1 1, tPot := g s1 2,
      wSurf := g s1 3, evapZ := g s1 4, stage2, wStage2 := g s2 0, ageDaysNS := g s2 1,
      ageDays := g s2 2, aerDays := g s2 3, irrNetCum := g s2 4, trRatio := g s2 5,
      dap, gddCum := g s3 0, zRoot := g s3 1, rCor := g s3 2, growthStage, germination := germ,
      protectedSeed, delayedCds := g s4 0, delayedGdds := g s4 1,
      cc := g s5 0, ccNS := g s5 1, cc0Adj := g s5 2, ccxAct := g s5 3, ccxActNS := g s5 4,
      ccxW := g s5 5, ccxWNS := g s5 6, ccxEarlySen := g s5 7, ccPrev := g s5 8,
      tEarlySen := g s5 9, ccAdj := g s5 10, ccAdjNS := g s5 11, prematSenes, cropDead,
      hiRef := g s6 0, hiFinal := g s6 1, yieldForm, pctLagPhase := g s7 0, biomass := g s7 1,
      biomassNS := g s7 2, preAdj, fPre := g s8 0, fPol := g s8 1, sCor1 := g s8 2,
      sCor2 := g s8 3, fpostUpp := g s8 4, fpostDwn := g s8 5, fPost := g s8 6, hi := g s8 7,
      hiAdj := g s8 8, cropMature, harvestFlag,
      depletion := 0, taw := 0, zGW := 0, wtInSoil := false, yieldPot := 0, dryYield := 0,
      freshYield := 0 }

/-- the state block of the replies, in the order of the request's state block -/
def outDayState (s : DayState' Float) : List String :=
  [outF s.pond, outN s.daySubmerged,
   outFs [s.irrCum, s.ePot, s.tPot, s.wSurf, s.evapZ], outB s.stage2,
   outFs [s.wStage2, s.ageDaysNS, s.ageDays, s.aerDays, s.irrNetCum, s.trRatio],
   outN s.dap, outFs [s.gddCum, s.zRoot, s.rCor], outN s.growthStage, outB s.germination,
   outB s.protectedSeed, outFs [s.delayedCds, s.delayedGdds],
   outFs [s.cc, s.ccNS, s.cc0Adj, s.ccxAct, s.ccxActNS, s.ccxW, s.ccxWNS, s.ccxEarlySen,
          s.ccPrev, s.tEarlySen, s.ccAdj, s.ccAdjNS],
   outB s.prematSenes, outB s.cropDead, outFs [s.hiRef, s.hiFinal], outB s.yieldForm,
   outFs [s.pctLagPhase, s.biomass, s.biomassNS], outB s.preAdj,
   outFs [s.fPre, s.fPol, s.sCor1, s.sCor2, s.fpostUpp, s.fpostDwn, s.fPost, s.hi, s.hiAdj],
   outB s.cropMature, outB s.harvestFlag]

/-- `full_day` — replay of one whole `solution_single_time_step` from the state before the day,
the parameters and the weather of the day.

Request (tokens after the name; `F` float bit pattern, `N` natural, `B` 0/1, `I` integer):

`<cells: profId th[n] fcAdj[n] flux[n] aer[n]>`
`waterTable:N`
soil   `cn:F adjCN:B zCN:F nComp:N nLayer:N fshapeCR:F zTop:F evapZMin:F evapZMax:F rew:F kex:F fwcc:F fWrelExp:F fevap:F zGerm:F`
crop   `calendarType:N(1,2, other 0) zMinNp:B`
       `MaxCanopyCD Kcb fage a_Tr :F  TrColdStress:N(0,1, other 2)  GDD_up GDD_lo LagAer Zmin Aer :F`
       `p_up[4] p_lo[4] fshape_w[4] :F  (ETadj==1):B  beta SxTop SxBot Senescence :F`
       `GDDmethod:N Tupp Tbase :F`
       `Zmax PctZmin Emergence MaxRooting fshape_r fshape_ex :F`
       `GermThr:F (PlantMethod==True):B Canopy10Pct MaxCanopy :F`
       `Maturity CanopyDevEnd CC0 CCx CGC CDC :F`
       `CropType:N HIstartCD HIendCD YldFormCD FloweringCD CanopyDevEndCD HI0 HIini HIGC tLinSwitch dHILinear dHI_pre a_HI b_HI dHI0 exc CCmin :F`
       `PolHeatStress:N PolColdStress:N Tmax_up Tmax_lo Tmin_up Tmin_lo fshape_b :F`
       `Determinant:N WP WPy fCO2 YldWC :F`
irr    `irrMethod:N smt[4] appEff:F maxIrr:F interval:N depth:F maxSeason:F netIrrSMT:F wetSurf:F`
clock  `evapTimeSteps:N simOffSeason:B co2Cur:F co2Ref:F`
field  `srInhb:B bunds:B zBund:F cnAdj:B cnAdjPct:F mulches:B fMulch:F mulchPct:F`
state  `pond:F daySubmerged:N irrCum ePot tPot wSurf evapZ :F stage2:B wStage2 ageDaysNS ageDays aerDays irrNetCum trRatio :F`
       `dap:N gddCum zRoot rCor :F growthStage:N germination:B protectedSeed:B delayedCds delayedGdds :F`
       `cc ccNS cc0Adj ccxAct ccxActNS ccxW ccxWNS ccxEarlySen ccPrev tEarlySen ccAdj ccAdjNS :F prematSenes:B cropDead:B`
       `hiRef hiFinal :F yieldForm:B pctLagPhase biomass biomassNS :F preAdj:B fPre fPol sCor1 sCor2 fpostUpp fpostDwn fPost hi hiAdj :F`
       `cropMature:B harvestFlag:B`
day    `gs:B tsc:N season:I rain et0 tmax tmin zGW :F schedOk:B sched:F lastDay:B`

Reply (all numbers of the three table rows as floats, like the numpy tables):
`tsc gs dap th[n]`                                                       (water_storage row)
`tsc season dap Wr z_gw surface_storage IrrDay Infl Runoff DeepPerc CR GwIn Es EsPot Tr TrPot`
`tsc season dap gdd gdd_cum z_root canopy_cover canopy_cover_ns biomass biomass_ns harvest_index harvest_index_adj DryYield FreshYield YieldPot`
`fcAdj[n] aer[n]` then the state after in the order of the request's state block followed by
`depletion taw zGW i<wtInSoil> yieldPot dryYield freshYield`,
then the summary `i0` | `i1 DryYield FreshYield YieldPot IrrTot`,
then 4 ghost tokens `i<endc> i<rd.br> i<ge.br> i<cc.br>`;  or `E:<kind>`. -/
def hFullDay : Handler := fun ctx => do
  let cells ← rdCells ctx
  let waterTable ← rdNat
  -- soil
  let cn ← rdF
  let adjCN ← rdBool
  let zCN ← rdF
  let nComp ← rdNat
  let nLayer ← rdNat
  let so ← rdFs 10
  -- crop
  let calendarType ← rdNat
  let zMinNp ← rdBool
  let c1 ← rdFs 4
  let tcs ← rdNat
  let c2 ← rdFs 5
  let pUp ← rdFs 4
  let pLo ← rdFs 4
  let fsh ← rdFs 4
  let etAdj ← rdBool
  let c3 ← rdFs 4
  let gddMethod ← rdNat
  let c4 ← rdFs 2
  let c5 ← rdFs 6
  let germThr ← rdF
  let sown ← rdBool
  let c6 ← rdFs 2
  let c7 ← rdFs 6
  let hic ← rdHiCrop
  let polHeat ← rdNat
  let polCold ← rdNat
  let c8 ← rdFs 5
  let determinant ← rdNat
  let c9 ← rdFs 4
  -- irrigation management
  let method ← rdNat
  let smt ← rdFs 4
  let appEff ← rdF
  let maxIrr ← rdF
  let interval ← rdNat
  let depth ← rdF
  let maxSeason ← rdF
  let netIrrSMT ← rdF
  let wetSurf ← rdF
  -- clock, CO2
  let evapTimeSteps ← rdNat
  let simOffSeason ← rdBool
  let co2Cur ← rdF
  let co2Ref ← rdF
  -- field management
  let srInhb ← rdBool
  let bunds ← rdBool
  let zBund ← rdF
  let cnAdj ← rdBool
  let cnAdjPct ← rdF
  let mulches ← rdBool
  let fMulch ← rdF
  let mulchPct ← rdF
  -- state
  let st ← rdDayState cells
  -- day
  let gs ← rdBool
  let tsc ← rdNat
  let season ← rdInt
  let d1 ← rdFs 5
  let schedOk ← rdBool
  let sched ← rdF
  let lastDay ← rdBool
  done
  let g (xs : List Float) (i : Nat) : Float := xs.getD i 0.0
  let soil : SoilW Float :=
    { cn, adjCN, zCN, nComp, nLayer, fshapeCR := g so 0, zTop := g so 1, evapZMin := g so 2,
      evapZMax := g so 3, rew := g so 4, kex := g so 5, fwcc := g so 6, fWrelExp := g so 7,
      fevap := g so 8 }
  let zMin := g c2 3
  let aer := g c2 4
  let beta := g c3 0
  let sxTop := g c3 1
  let sxBot := g c3 2
  let senescence := g c3 3
  let tr : TrCrop Float :=
    { maxCanopyCD := g c1 0, kcb := g c1 1, fage := g c1 2, aTr := g c1 3, trColdStress := tcs,
      gddUp := g c2 0, gddLo := g c2 1, lagAer := g c2 2, zMin, aer,
      pUp := fin4Y pUp, pLo := fin4Y pLo, fshW := fin4Y fsh, etAdj, beta, sxTop, sxBot }
  let W : WaterParams Float :=
    { waterTable, soil, crop := { tr, calendarType, senescence },
      irr := { method, smt := fin4Y smt, appEff, maxIrr, interval, depth, maxSeason },
      netIrrSMT, wetSurf, evapTimeSteps, simOffSeason, co2Cur, co2Ref }
  let fm : FieldMngt Float := { srInhb, bunds, zBund, cnAdj, cnAdjPct, mulches, fMulch, mulchPct }
  let emergence := g c5 2
  let rd : RdCrop Float :=
    { calendarType, zmin := zMin, zmax := g c5 0, pctZmin := g c5 1, emergence,
      maxRooting := g c5 3, fshapeR := g c5 4, fshapeEx := g c5 5, pUp1 := g pUp 1,
      fshapeW1 := g fsh 1, sxTop, sxBot }
  let ccc : CcCrop Float :=
    { calendarType, emergence, maturity := g c7 0, canopyDevEnd := g c7 1, senescence,
      cc0 := g c7 2, ccx := g c7 3, cgc := g c7 4, cdc := g c7 5, zMin, aer, pUp := fin4Y pUp,
      pLo := fin4Y pLo, fshW := fin4Y fsh, etAdj, beta }
  let hik : HiStressCrop Float :=
    { zMin, aer, pUp := fin4Y pUp, pLo := fin4Y pLo, etAdj, beta, fshapeW := fin4Y fsh,
      polHeatStress := polHeat, polColdStress := polCold, tmaxUp := g c8 0, tmaxLo := g c8 1,
      tminUp := g c8 2, tminLo := g c8 3, fshapeB := g c8 4 }
  let bio : BioCrop Float :=
    { cropType := hic.cropType, determinant, hiStartCD := hic.hiStartCD,
      yldFormCD := hic.yldFormCD, wp := g c9 0, wpy := g c9 1, fco2 := g c9 2 }
  let cx : CropX Float :=
    { zMinNp, gddMethod, tupp := g c4 0, tbase := g c4 1, rd, germThr, sown, canopy10 := g c6 0,
      maxCanopy := g c6 1, cc := ccc, hi := hic, hik, bio, yldWC := g c9 3 }
  let P : DayParams Float := { W, fm, zGerm := g so 9, cx }
  let D : DayIn' Float :=
    { gs, tsc, season, rain := g d1 0, et0 := g d1 1, tmax := g d1 2, tmin := g d1 3,
      zGW := g d1 4, sched := if schedOk then some sched else none, lastDay }
  match fullDay Fn.float TrigFn.float P st D with
  | .error e => pure e
  | .ok r =>
    let s := r.state
    let nf (n : Nat) : Float := n.toFloat
    let bf (b : Bool) : Float := if b then 1.0 else 0.0
    let fl := r.flux
    let gr := r.growth
    let sm : List String :=
      match r.summary with
      | none => [outN 0]
      | some x => [outN 1, outFs [x.dryYield, x.freshYield, x.yieldPot, x.irrTot]]
    pure (join (
      [outFs [nf r.storage.tsc, bf r.storage.gs, nf r.storage.dap]] ++
      (if cells.isEmpty then [] else [outFs r.storage.th]) ++
      [outFs [nf fl.tsc, Float.ofInt fl.season, nf fl.dap, fl.wr, fl.zGW, fl.pond, fl.irrDay,
              fl.infl, fl.runoff, fl.deepPerc, fl.cr, fl.gwIn, fl.es, fl.esPot, fl.tr, fl.trPot],
       outFs [nf gr.tsc, Float.ofInt gr.season, nf gr.dap, gr.gdd, gr.gddCum, gr.zRoot, gr.cc,
              gr.ccNS, gr.biomass, gr.biomassNS, gr.hi, gr.hiAdj, gr.dryYield, gr.freshYield,
              gr.yieldPot]] ++
      (if cells.isEmpty then [] else [outFcAdj s.cells, outAer s.cells]) ++
      outDayState s ++
      [outFs [s.depletion, s.taw, s.zGW], outB s.wtInSoil,
       outFs [s.yieldPot, s.dryYield, s.freshYield]] ++ sm ++
      [outB r.endc, outN r.trace.rd.br, outN r.trace.ge.br, outN r.trace.cc.br]))

end Aqua.Drv
