import AquaVerif.Model.Profile
import Std.Data.HashMap
/-
Line protocol helpers for the driver (execution at `Float` only; nothing here is used in proofs).

A request is one line of space-separated tokens: `<fn> <arg> …`.
  * floats cross the pipe as the decimal `UInt64` of their IEEE bit pattern (exact transport);
  * integers as decimal (optionally signed); booleans as `0`/`1`.
A reply is one line: floats as bit patterns, integers/booleans as `i<decimal>`,
errors as `E:<kind>`.

`prof <id> <n> <13 fields × n>` registers a soil profile, later lines refer to it by id.
-/

namespace Aqua.Drv
open Aqua

structure Ctx where
  profs : Std.HashMap Nat (Array (Comp Float)) := {}
  blobs : Std.HashMap String (Array Float) := {}     -- named float vectors (crop tables etc.)

abbrev Rd := StateT (List String) (Except String)

def tok : Rd String := do
  match (← get) with
  | [] => throw "E:short-line"
  | t :: ts => set ts; pure t

def rdNat : Rd Nat := do
  let t ← tok
  match t.toNat? with
  | some n => pure n
  | none => throw s!"E:bad-nat:{t}"

def rdInt : Rd Int := do
  let t ← tok
  match t.toInt? with
  | some n => pure n
  | none => throw s!"E:bad-int:{t}"

def rdBool : Rd Bool := do
  let n ← rdNat
  pure (n != 0)

def rdF : Rd Float := do
  let n ← rdNat
  pure (Float.ofBits n.toUInt64)

def rdFs (n : Nat) : Rd (List Float) := do
  let mut acc : Array Float := #[]
  for _ in [0:n] do
    acc := acc.push (← rdF)
  pure acc.toList

/-- length-prefixed float list -/
def rdFList : Rd (List Float) := do
  let n ← rdNat
  rdFs n

def done : Rd Unit := do
  match (← get) with
  | [] => pure ()
  | _ => throw "E:long-line"

def outF (x : Float) : String := toString x.toBits
def outN (n : Nat) : String := s!"i{n}"
def outI (n : Int) : String := s!"i{n}"
def outB (b : Bool) : String := if b then "i1" else "i0"
def outFs (xs : List Float) : String := " ".intercalate (xs.map outF)
def join (xs : List String) : String := " ".intercalate xs

/-- number of float fields of a `Comp` on the wire (followed by the integer layer). -/
def compFields : Nat := 12

def mkComp (f : Array Float) (layer : Nat) : Comp Float :=
  { dz := f[0]!, dzsum := f[1]!, zMid := f[2]!, thS := f[3]!, thFC := f[4]!, thWP := f[5]!,
    thDry := f[6]!, tau := f[7]!, ksat := f[8]!, pen := f[9]!, aCR := f[10]!, bCR := f[11]!,
    layer := layer }

/-- `prof <id> <n>` then per compartment 12 floats and the layer number. -/
def rdProfDef : Rd (Nat × Array (Comp Float)) := do
  let id ← rdNat
  let n ← rdNat
  let mut cs : Array (Comp Float) := #[]
  for _ in [0:n] do
    let fs ← rdFs compFields
    let l ← rdNat
    cs := cs.push (mkComp fs.toArray l)
  done
  pure (id, cs)

/-- `<profId> th[n] fcAdj[n] flux[n] aer[n]` → cells -/
def rdCells (ctx : Ctx) : Rd (List (Cell Float)) := do
  let id ← rdNat
  match ctx.profs[id]? with
  | none => throw s!"E:unknown-prof:{id}"
  | some cs =>
    let n := cs.size
    let th ← rdFs n
    let fc ← rdFs n
    let fl ← rdFs n
    let ae ← rdFs n
    let rec go : List (Comp Float) → List Float → List Float → List Float → List Float →
        List (Cell Float)
      | c :: cs, a :: as, b :: bs, d :: ds, e :: es =>
        { c := c, th := a, fcAdj := b, flux := d, aer := e } :: go cs as bs ds es
      | _, _, _, _, _ => []
    pure (go cs.toList th fc fl ae)

def outTh (cells : List (Cell Float)) : String := outFs (cells.map (·.th))
def outFlux (cells : List (Cell Float)) : String := outFs (cells.map (·.flux))
def outFcAdj (cells : List (Cell Float)) : String := outFs (cells.map (·.fcAdj))
def outAer (cells : List (Cell Float)) : String := outFs (cells.map (·.aer))

abbrev Handler := Ctx → Rd String

def runHandler (h : Handler) (ctx : Ctx) (toks : List String) : String :=
  match (h ctx).run toks with
  | .ok (s, _) => s
  | .error e => e

end Aqua.Drv
