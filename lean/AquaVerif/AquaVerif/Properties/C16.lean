import AquaVerif.Proofs.RunTotalExample
import AquaVerif.Proofs.RunTotalCatalogue
import AquaVerif.Proofs.RunTotal
import AquaVerif.Proofs.CropCalendar
import AquaVerif.Proofs.PrepareGdd
import AquaVerif.Proofs.PrepareGddTotal
import AquaVerif.Proofs.CropFull
import AquaVerif.Proofs.Clock
import AquaVerif.Proofs.ClockCalendar
import AquaVerif.Proofs.Infiltration
import AquaVerif.Proofs.Totality
import AquaVerif.Proofs.GroundwaterTable
import AquaVerif.Proofs.GroundwaterInflow
import AquaVerif.Proofs.SoilEvaporation
import AquaVerif.Proofs.SoilBuild
import AquaVerif.Proofs.Response
import AquaVerif.Proofs.Transpiration
import AquaVerif.Proofs.GrowthStage
/-
Property C16 — every valid configuration runs to completion (the part a theorem can carry).

The models make every place where the Python can raise explicit (`none` / `Except.error`: failed
index, unbound local, failed `assert`, division of Python numbers by zero, exhausted loop fuel).
The theorems below say, process by process, **exactly when** such a branch is taken, or give
sufficient conditions under which it is not — for **every** profile, state, parameter vector and
day input over an arbitrary linearly ordered field, every `F : Fn α` (no law of `exp/log/round`
is used), every clock configuration and every oracle.

What is covered: the clock / calendar (no exception between initialisation and termination, the
date set-up produces valid configurations or one of its documented rejections), `infiltration`,
`irrigation`, `root_zone_water`, `check_groundwater_table` → `groundwater_inflow`,
`soil_evaporation` (loop fuel), the profile-deepening loop, `growing_degree_day`,
`temperature_stress`, `growth_stage`, `transpiration` off season, the two copies of the CO2 code.
What is not: exceptions below the modelled layer (pandas / numpy), finiteness of IEEE results, and
a single `Valid cfg ⟹ run cfg ≠ error` theorem for the composed day (the day composition is not
modelled); those rest on the catalogue sweep of the tie.  Premises that are conditions on *state*
rather than on configuration (`root_zone_water`: rooting depth inside the profile) are exactly
where the open findings of C16 sit (`raises-AssertionError-root_zone_water`).
Only theorems live here (lemmas in `Proofs/`).
-/

set_option linter.unusedSectionVars false
namespace Aqua.C16
open Aqua Aqua.Clock Aqua.Calendar

/-! ## Clock and calendar -/

/-- From every unfinished reachable state of a well-formed configuration the next
`_perform_timestep` succeeds (no `IndexError` / `KeyError` from the time and season indexing). -/
theorem clock_step_never_raises {c : Cfg} {ev : Ev} {s : St} (hw : WF c) (hr : Reach c ev s)
    (hf : s.finished = false) : ∃ s', perform c ev s = .ok s' := perform_ok hw hr hf

/-- The run to termination of a well-formed configuration never raises, for every oracle, and ends
finished within `n` steps. -/
theorem clock_never_raises {c : Cfg} (hw : WF c) (ev : Ev) {s₀ : St} (hi : init c = .ok s₀) :
    ∃ s, runTill c ev s₀ = .ok s ∧ s.finished = true ∧ Reach c ev s := runTill_ok hw ev hi

/-- Whatever the date set-up of `read_model_parameters` accepts is a valid clock configuration … -/
theorem accepted_dates_give_valid_clock {sy sm sd ey em ed pm pd hm hd : Int} {r : Seasons}
    (off : Bool) (h : seasonDates sy sm sd ey em ed pm pd hm hd = .ok r) : Valid (toCfg r off) :=
  seasonDates_valid off h

/-- … so every run the implementation can start initialises and terminates without raising. -/
theorem accepted_dates_run_to_completion {sy sm sd ey em ed pm pd hm hd : Int} {r : Seasons}
    (off : Bool) (ev : Ev) (h : seasonDates sy sm sd ey em ed pm pd hm hd = .ok r) :
    ∃ s₀ s, init (toCfg r off) = .ok s₀ ∧ runTill (toCfg r off) ev s₀ = .ok s ∧
      s.finished = true := run_terminates_of_seasonDates off ev h

section field
variable {α : Type} [Field α] [LinearOrder α] [IsStrictOrderedRing α]

/-! ## Infiltration -/

/-- On a non-empty profile `infiltration` never raises, provided the efficiency-adjusted irrigation
is non-negative in the growing season (the `assert Infl >= 0`). -/
theorem infiltration_never_raises (F : Fn α) (c : Cell α) (cs : List (Cell α))
    (pond infl irr appEff zBund dp0 ro0 : α) (bunds gs : Bool)
    (hirr : gs = true → 0 ≤ irr * (appEff / 100)) :
    ∃ out, infiltration F (c :: cs) pond infl irr appEff bunds zBund dp0 ro0 gs = .ok out :=
  infiltration_isOk F c cs pond infl irr appEff zBund dp0 ro0 bunds gs hirr

/-- The `UnboundLocalError` of bunds lower than 1 mm is gone: `infiltration` never takes the
"`ToStore` unbound" branch, on any input. -/
theorem infiltration_never_unbound (F : Fn α) (cells : List (Cell α))
    (pond infl irr appEff zBund dp0 ro0 : α) (bunds gs : Bool) :
    infiltration F cells pond infl irr appEff bunds zBund dp0 ro0 gs ≠ .error "E:unbound" :=
  infiltration_ne_unbound F cells pond infl irr appEff zBund dp0 ro0 bunds gs

/-! ## Irrigation and root-zone water -/

/-- Outside the growing season `irrigation` never raises (and returns zeros), whatever the
parameters. -/
theorem irrigation_offseason_ok (F : Fn α) (P : IrrParams α) (cells : List (Cell α)) (st : Nat)
    (irrCum ePot tPot zRoot : α) (dap : Nat) (sched : Option α) (zMin aer zTop rain runoff : α) :
    ∃ out, irrigation F P cells st irrCum ePot tPot zRoot dap sched zMin aer zTop false rain runoff
        = .ok out ∧ out.irr = 0 ∧ out.irrCum = 0 ∧ out.depletion = 0 ∧ out.taw = 0 :=
  irrigation_offseason F P cells st irrCum ePot tPot zRoot dap sched zMin aer zTop rain runoff

/-- The errors of `irrigation` characterised: only in the growing season; `rootZone` iff
`root_zone_water` raises; otherwise `index` iff (threshold strategy and growth stage > 4) or
(schedule strategy and the day is outside the schedule array), `zerodiv` iff interval strategy
with interval 0, `assert` iff schedule strategy with a negative scheduled depth, `unbound` iff the
method number exceeds 5. -/
theorem irrigation_errors_characterised (F : Fn α) (P : IrrParams α) (cells : List (Cell α))
    (st : Nat) (irrCum ePot tPot zRoot : α) (dap : Nat) (sched : Option α) (zMin aer zTop : α)
    (gs : Bool) (rain runoff : α) (e : IrrErr) :
    irrigation F P cells st irrCum ePot tPot zRoot dap sched zMin aer zTop gs rain runoff = .error e ↔
      gs = true ∧
      ((e = .rootZone ∧ rootZoneWater F cells zRoot zTop zMin aer = none) ∨
       (rootZoneWater F cells zRoot zTop zMin aer ≠ none ∧
        ((e = .index ∧ ((P.method = 1 ∧ 4 < (if dap = 1 then 1 else st)) ∨
            (P.method = 3 ∧ sched = none))) ∨
         (e = .zerodiv ∧ P.method = 2 ∧ P.interval = 0) ∨
         (e = .assert ∧ P.method = 3 ∧ ∃ s, sched = some s ∧ s < 0) ∨
         (e = .unbound ∧ 5 < P.method)))) :=
  irrigation_error_iff F P cells st irrCum ePot tPot zRoot dap sched zMin aer zTop gs rain runoff e

/-- Hence the call succeeds for the six documented strategies whenever `root_zone_water` succeeds,
the growth stage is at most 4, the interval at least one day and the scheduled depth of the day
exists and is non-negative. -/
theorem irrigation_succeeds_when (F : Fn α) (P : IrrParams α) (cells : List (Cell α)) (st : Nat)
    (irrCum ePot tPot zRoot : α) (dap : Nat) (sched : Option α) (zMin aer zTop : α) (gs : Bool)
    (rain runoff : α)
    (hrz : gs = true → rootZoneWater F cells zRoot zTop zMin aer ≠ none)
    (hm : P.method ≤ 5)
    (h1 : P.method = 1 → (if dap = 1 then 1 else st) ≤ 4)
    (h2 : P.method = 2 → 1 ≤ P.interval)
    (h3 : P.method = 3 → ∃ s, sched = some s ∧ 0 ≤ s) :
    ∃ out, irrigation F P cells st irrCum ePot tPot zRoot dap sched zMin aer zTop gs rain runoff
      = .ok out :=
  irrigation_ok_of F P cells st irrCum ePot tPot zRoot dap sched zMin aer zTop gs rain runoff hrz hm
    h1 h2 h3

/-- `root_zone_water` succeeds iff the (rounded) rooting depth lies within the profile and — when
the top soil is shallower than the rooting depth — at least one compartment ends within the top
soil (the `assert comp_sto > 0`). -/
theorem root_zone_water_succeeds_iff (F : Fn α) (cells : List (Cell α)) (zRoot zTop zMin aer : α) :
    (rootZoneWater F cells zRoot zTop zMin aer).isSome = true ↔
      (∃ x ∈ cells, F.round2 (pmax zRoot zMin) ≤ x.c.dzsum) ∧
      (zTop < F.round2 (pmax zRoot zMin) → ∃ x ∈ cells, x.c.dzsum ≤ F.pyRound2 zTop) :=
  rootZoneWater_isSome_iff F cells zRoot zTop zMin aer

/-! ## Groundwater -/

/-- `check_groundwater_table` succeeds iff there is no water table or its depth is non-negative. -/
theorem check_groundwater_table_ok_iff (F : Fn α) (cells : List (Cell α)) (wt : Nat) (zGW : α) :
    checkGroundwaterTable F cells wt zGW ≠ none ↔ (wt = 1 → 0 ≤ zGW) := by
  rw [ne_eq, checkGroundwaterTable_error_iff]
  constructor
  · intro h h1; exact not_lt.mp (fun hz => h ⟨h1, hz⟩)
  · rintro h ⟨h1, hz⟩; exact absurd hz (not_lt.mpr (h h1))

/-- With the flags `check_groundwater_table` returned, `groundwater_inflow` does not raise (on any
water contents over the same compartments). -/
theorem groundwater_inflow_ok_after_check (F : Fn α) (cells cells' : List (Cell α)) (wt : Nat)
    (zGW : α) (r : GwtOut α) (h : checkGroundwaterTable F cells wt zGW = some r)
    (hc : List.Forall₂ (fun x y : Cell α => y.c = x.c) cells cells') :
    groundwaterInflow cells' r.wtInSoil r.zGW ≠ none :=
  groundwaterInflow_ok_of_check F cells cells' wt zGW r h hc

/-- In general `groundwater_inflow` raises exactly when told that the table is in the soil while
every mid-point lies above it. -/
theorem groundwater_inflow_raises_iff (cells : List (Cell α)) (wt : Bool) (zGW : α) :
    groundwaterInflow cells wt zGW = none ↔ wt = true ∧ ∀ x ∈ cells, x.c.zMid < zGW :=
  groundwaterInflow_error_iff cells wt zGW

/-! ## Soil evaporation -/

/-- The expansion loop of stage-2 evaporation always has enough fuel (`EvapZmax` within 100 m of the
evaporation depths): `soil_evaporation` can only fail with `E:index`, `E:zerodiv` (zero sub-steps)
or `E:unbound` (unknown calendar type), never with `E:fuel`. -/
theorem soil_evaporation_fuel_suffices (F : Fn α) (P : EvapParams α) (S : EvapState α)
    (cells : List (Cell α)) (D : EvapDay α) (h1 : P.zMax - S.evapZ ≤ 100)
    (h2 : P.zMax - P.zMin ≤ 100) (e : String) (h : soilEvaporation F P S cells D = .error e) :
    e = "E:index" ∨ e = "E:zerodiv" ∨ e = "E:unbound" :=
  soilEvap_fuel_suffices F P S cells D (fuelOk_of_le P _ h1) (fuelOk_of_le P _ h2) e h

/-! ## Profile deepening -/

/-- The deepening loop of `compute_variables` terminates on every non-empty list of compartment
thicknesses (loop condition false from some depth on, fuel covering the distance). -/
theorem deepen_terminates (more : Nat → Bool) (T : Nat) (hT : ∀ c, T ≤ c → more c = false)
    (fuel : Nat) (dz : List Nat) (k : Nat) (hne : dz ≠ []) (hf : T ≤ sumNat dz + 10 * fuel) :
    ∃ dz' k', deepen more fuel dz k = .ok (dz', k') :=
  Aqua.deepen_terminates more T hT fuel dz k hne hf

/-! ## Option switches -/

/-- `growing_degree_day` is defined iff the method is 1, 2 or 3. -/
theorem growing_degree_day_defined_iff (m : Nat) (tupp tbase tmax tmin : α) :
    (growingDegreeDay m tupp tbase tmax tmin).isSome ↔ (m = 1 ∨ m = 2 ∨ m = 3) :=
  gdd_isSome_iff m tupp tbase tmax tmin

/-- `temperature_stress` is defined iff both pollination-stress flags are 0 or 1. -/
theorem temperature_stress_defined_iff (F : Fn α) (ph pc : Nat)
    (tmaxUp tmaxLo tminUp tminLo b tmax tmin : α) :
    (temperatureStress F ph pc tmaxUp tmaxLo tminUp tminLo b tmax tmin).isSome ↔
      (ph = 0 ∨ ph = 1) ∧ (pc = 0 ∨ pc = 1) :=
  temperatureStress_isSome_iff F ph pc tmaxUp tmaxLo tminUp tminLo b tmax tmin

/-- `growth_stage` is defined iff off season or the calendar type is 1 or 2. -/
theorem growth_stage_defined_iff (cal : Nat) (dap dc g dg c10 mx sen : α) (gs : Bool) (old : Nat) :
    (growthStage cal dap dc g dg c10 mx sen gs old).isSome = true ↔
      (gs = false ∨ cal = 1 ∨ cal = 2) :=
  growthStage_isSome_iff cal dap dc g dg c10 mx sen gs old

/-- Outside the growing season `transpiration` never raises. -/
theorem transpiration_offseason_ok (F : Fn α) (cells : List (Cell α)) (nComp : Nat) (zTop : α)
    (crop : TrCrop α) (m : Nat) (smt : α) (st : TrState α) (et0 cur ref gdd : α) :
    ∃ out, transpiration F cells nComp zTop crop m smt st et0 cur ref false gdd = .ok out :=
  transp_offseason_ok F cells nComp zTop crop m smt st et0 cur ref gdd

/-- The CO2 factor: the season-0 code never fails; the copy run at later season starts fails
exactly for `550 < CO2conc ≤ CO2ref` (impossible with the default reference 369.41). -/
theorem co2_factor_defined (F : Fn α) (conc ref bsted bface fsink wp : α) :
    (fco2Init F conc ref bsted bface fsink wp).isSome ∧
      (fco2Reset F conc ref bsted bface fsink wp = none ↔ (550 < conc ∧ conc ≤ ref)) :=
  ⟨fco2Init_isSome F conc ref bsted bface fsink wp,
   fco2Reset_eq_none_iff F conc ref bsted bface fsink wp⟩


/-! ### the crop catalogue (generated from the sources on every run) -/

/-- The option switches of every catalogue crop are ones the code handles: GDD method 1–3, both
pollination-stress flags 0/1, TrColdStress 0/1 (KsCold bound), calendar type 1/2. -/
theorem catalogue_option_switches_defined (F : Fn α) (K : CropDerived α) :
    ∀ c ∈ Aqua.Generated.cropFullTable, ∀ tmax tmin gdd : α,
    (growingDegreeDay (c.cropX K).gddMethod (c.cropX K).tupp (c.cropX K).tbase tmax tmin).isSome ∧
    (temperatureStress F (c.hikCrop (α := α)).polHeatStress (c.hikCrop (α := α)).polColdStress
      (c.hikCrop (α := α)).tmaxUp (c.hikCrop (α := α)).tmaxLo (c.hikCrop (α := α)).tminUp
      (c.hikCrop (α := α)).tminLo (c.hikCrop (α := α)).fshapeB tmax tmin).isSome ∧
    (trKsCold F (c.trCrop K).trColdStress (c.trCrop K).gddUp (c.trCrop K).gddLo gdd).isSome ∧
    (c.calendarType = 1 ∨ c.calendarType = 2) :=
  catalogue_switches_defined K F

theorem catalogue_growth_stage_defined : ∀ c ∈ Aqua.Generated.cropFullTable,
    ∀ (dap dc g dg c10 mx sen : α) (gs : Bool) (old : Nat),
    (growthStage c.calendarType dap dc g dg c10 mx sen gs old).isSome = true :=
  fun c hc => growthStage_defined (catalogue_ok c hc)

/-- `FreshYield = DryYield / (YldWC / 100)` divides by zero exactly for these four crops
(known finding `freshyield-yldwc-unset`). -/
theorem catalogue_fresh_yield_divides_by_zero_iff : ∀ c ∈ Aqua.Generated.cropFullTable,
    (c.yldWC = 0 ↔ c.name ∈ ["PotatoLocalGDD", "localpaddy", "MaizeChampionGDD", "Cassava"]) :=
  catalogue_yldWC_zero_iff


/-! ### thermal crop calendar at initialisation and at season start (`Model/CropCalendar.lean`) -/

/-- `compute_crop_calendar` for a thermal-time crop succeeds exactly when the degree days accumulated
from planting to the end of the record exceed the maturity threshold and maturity is reached within
364 days — the two documented `assert`s — for a known GDD method and a non-empty record. -/
theorem thermal_calendar_init_succeeds_iff (F : Fn α) {c : CalGDDIn α} {m : GddMethod}
    (hm : GddMethod.ofNat? c.gddMethod = some m) (temps : List (α × α)) :
    (∃ o, calendarInit F c temps = .ok o) ↔
      ∃ last, (cumsum (gddSeriesInit m c.tbase c.tupp temps)).getLast? = some last ∧
        c.maturity < last ∧
        firstAbove (cumsum (gddSeriesInit m c.tbase c.tupp temps)) c.maturity + 1 < 365 :=
  calendarInit_ok_iff F hm temps

/-- … and it fails in no other way than: unknown GDD method, empty record, the two asserts. -/
theorem thermal_calendar_init_errors {F : Fn α} {c : CalGDDIn α} {temps : List (α × α)} {e : String}
    (h : calendarInit F c temps = .error e) :
    (e = "E:unbound" ∧ ¬ (c.gddMethod = 1 ∨ c.gddMethod = 2 ∨ c.gddMethod = 3)) ∨
    (e = "E:index" ∧ temps = []) ∨ e = "E:assert:maturity" ∨ e = "E:assert:year" :=
  calendarInit_error h

/-- the season-start recomputation fails only in those ways or by the harvest-index-coefficient
search not terminating (`E:fuel`) -/
theorem thermal_calendar_reset_errors {F : Fn α} {fuel : Nat} {c : CalResetIn α}
    {temps : List (α × α)} {e : String} (h : calendarReset F fuel c temps = .error e) :
    (e = "E:unbound" ∧ ¬ (c.gddMethod = 1 ∨ c.gddMethod = 2 ∨ c.gddMethod = 3)) ∨
    (e = "E:index" ∧ temps = []) ∨ e = "E:assert:maturity" ∨ e = "E:assert:year" ∨
    e = "E:fuel" := calendarReset_error h

/-- **Finding (modelled faithfully).**  When the end of yield formation is never reached in the
record, `argmax` of an all-false vector makes its day 1, the length of yield formation becomes ≤ 0
and the search for the harvest-index growth coefficient (`calculate_HIGC`) never terminates: the
model runs out of fuel for every fuel. -/
theorem yield_formation_never_reached_hangs {F : Fn α} (hF : ExpOrdLaws F) {fuel : Nat}
    {c : CalResetIn α} {temps : List (α × α)} {d : CalDays}
    (hd : calendarResetDays c temps = .ok d) (hy : d.yldFormCD ≤ 0)
    (h1 : 0 < c.hiIni) (h2 : c.hiIni ≤ 0.98 * c.hi0) :
    calendarReset F fuel c temps = .error "E:fuel" :=
  calendarReset_fuel_of_yldForm_nonpos hF hd hy h1 h2

/-- … which cannot happen when yield formation spans at least one day's maximum degree days and ends
before maturity (true of all thermal crops of the catalogue): its length in days is positive. -/
theorem yield_formation_days_positive {F : Fn α} {c : CalGDDIn α} {temps : List (α × α)}
    {o : CalGDDOut α} (h : calendarInit F c temps = .ok o) (hb : c.tbase ≤ c.tupp)
    (h0 : 0 ≤ c.hiStart) (hy : c.tupp - c.tbase ≤ c.yldForm)
    (hm : c.hiStart + c.yldForm ≤ c.maturity) : 0 < o.days.yldFormCD :=
  calendarInit_yldFormCD_pos h hb h0 hy hm

/-- **`SwitchGDD = 1`** (`prepare_gdd`): the conversion of a calendar-day crop to thermal time
returns exactly when the `season` column exists (a planting date inside the window), no row of the
window is left unlabelled and every calendar-day position used is a valid position in *every* season
present — so a window that ends fewer than `MaturityCD + 1` days into its last season makes the whole
initialisation raise `IndexError` (recorded finding `switchgdd-short-last-season`). -/
theorem switchgdd_conversion_succeeds_iff (toInt : α → Int) (cropType : Nat) (hasCol : Bool)
    (sumFun : Nat) (s : GddStagesIn α) (old : GddStages α) (rows : List (Option Nat × α)) :
    (∃ g, prepareGdd toInt cropType hasCol sumFun s old rows = .ok g) ↔
      hasCol = true ∧ (∀ r ∈ rows, r.1 ≠ none) ∧
      (∀ k, some k ∈ rows.map (·.1) → StagesInRange toInt cropType s (seasonLen rows k)) :=
  prepareGdd_ok_iff toInt cropType hasCol sumFun s old rows

/-- **`SwitchGDD = 1`, whole initialisation branch**: `compute_crop_calendar` (Mode 1, SwitchGDD) returns exactly
when `GDDmethod ∈ {1,2,3}`, the `season` column exists, no row of the window is unlabelled and every calendar-day
position handed to `prepare_gdd` (`switchStagesIn`: EmergenceCD, Canopy10PctCD, MaxRootingCD, MaxCanopyCD,
CanopyDevEndCD, SenescenceCD, MaturityCD, HIstartCD, HIendCD, and FloweringEndCD for CropType 3) is a valid
position in every season of the original window; the calendar-day part (`calendarInitCD`) never fails. -/
theorem switchgdd_initialisation_succeeds_iff (F : Fn α) (toInt : α → Int) (c : CalCDIn α) (gddMethod : Nat)
    (tbase tupp : α) (hasCol : Bool) (sumFun : Nat) (oldYF oldFD : α) (rows : List (Option Nat × α × α)) :
    (∃ r, calendarInitCDSwitch F toInt c gddMethod tbase tupp hasCol sumFun oldYF oldFD rows = .ok r) ↔
      (gddMethod = 1 ∨ gddMethod = 2 ∨ gddMethod = 3) ∧ hasCol = true ∧ (∀ r ∈ rows, r.1 ≠ none) ∧
      (∀ k, some k ∈ rows.map (·.1) →
        StagesInRange toInt c.cropType (switchStagesIn F c) (seasonLenT rows k)) :=
  calendarInitCDSwitch_ok_iff F toInt c gddMethod tbase tupp hasCol sumFun oldYF oldFD rows

/-- … and when it raises, it is `UnboundLocalError` (GDDmethod not 1/2/3), else `KeyError` (no `season`
column), else `IndexError` (unlabelled row or a calendar-day position outside a season). -/
theorem switchgdd_initialisation_errors {F : Fn α} {toInt : α → Int} {c : CalCDIn α} {gddMethod : Nat}
    {tbase tupp : α} {hasCol : Bool} {sumFun : Nat} {oldYF oldFD : α} {rows : List (Option Nat × α × α)}
    {e : String}
    (h : calendarInitCDSwitch F toInt c gddMethod tbase tupp hasCol sumFun oldYF oldFD rows = .error e) :
    (e = "E:unbound" ∧ ¬ (gddMethod = 1 ∨ gddMethod = 2 ∨ gddMethod = 3)) ∨
    (e = "E:key" ∧ (gddMethod = 1 ∨ gddMethod = 2 ∨ gddMethod = 3) ∧ hasCol = false) ∨
    (e = "E:index" ∧ (gddMethod = 1 ∨ gddMethod = 2 ∨ gddMethod = 3) ∧ hasCol = true) :=
  calendarInitCDSwitch_error h

/-- **Every run of a catalogue configuration terminates without raising** (over `ℝ`): `CatCfg`
(crops from the generated table, profile and initial water content built by the model of the
initialisation), the geometric / management premises `CatTotOK` and the named exception `TopOK`.
No premise on the weather, none on computed values. -/
theorem catalogue_run_terminates {cfg : RunCfg ℝ} {Zcap Zev : ℝ} (h : CatCfg cfg)
    (hX : CatTotOK cfg Zcap Zev)
    (hTop : TopOK Response.realFn cfg.W0.soil.zTop cfg.init.cells) :
    (∃ s₀ s, runInit cfg = .ok s₀ ∧
      runModel Response.realFn HarvestIndexReal.realTrig cfg cfg.clock.n s₀ = .ok s ∧
      s.finished = true ∧ RunReach Response.realFn HarvestIndexReal.realTrig cfg s) ∧
    ∀ s, RunReach Response.realFn HarvestIndexReal.realTrig cfg s → s.finished = false →
      (∃ s', performR Response.realFn HarvestIndexReal.realTrig cfg s = .ok s') ∧
      ∀ k, 1 ≤ k → ∃ s', runModel Response.realFn HarvestIndexReal.realTrig cfg k s = .ok s' :=
  catalogue_run_total h hX hTop

/-- No catalogue crop has `SxBot = 0` (the Python-float division of `root_development`). -/
theorem catalogue_sx_bot_positive : ∀ c ∈ Aqua.Generated.cropFullTable, 0 < c.sxBot :=
  Aqua.catalogue_sxBot_pos

end field

end Aqua.C16
