import AquaVerif.Proofs.RunLift
import AquaVerif.Proofs.WaterDay
/-
Property C02 — rain and irrigation are fully partitioned at the surface.

What is modelled: `rainfall_partition` (`rainPartition`: the SCS curve-number split, or its bypass
when runoff is inhibited or bunds of at least 1 mm are present), `infiltration` (intake
`max(Infl,0) + Irr·AppEff/100`, Ksat-limited surface split, bund storage and overtopping, back-up
runoff, final `Infl := Infl − Runoff`) and their composition in `waterDay`, where the `Runoff`
and `Infl` of step 5 feed step 7 and the `Irr` of step 6 is the irrigation applied.

What is quantified over: an arbitrary linearly ordered field, every `Fn`, profile, parameter
record, state, day input and `CropDay`; each statement is about a successful call.
One law of `Fn` is used: `PowSqLaw F` (`x ** 2 = x · x`, `Proofs/PowSq.lean`) — the SCS runoff is
`(term ** 2) / (…)` in the Python (C `pow`), so its sign and its bound by the rain need the law;
the sum `Runoff + Infl = P` does not (`rain_partition_sum`).  The law enters explicitly (`hF`), or
as the field `sq` of `DayPre` / `CfgSurfOK`, or through `CfgOK.fn.powSq`.

The property's own bound "effective curve number ≤ 100" appears as the premise
`ScsRuns fm → 0 < out.cn ∧ out.cn ≤ 100`, where `out.cn` is the ghost "curve number the SCS
split used" (after the percentage and antecedent-moisture adjustments) and
`ScsRuns fm := sr_inhb = False ∧ (bunds = False ∨ z_bund < 0.001)` is the guard of the SCS branch.
`irrApplied W D out := if growing season then out.irr · (AppEff/100) else 0`.
`DayPre` (see `Properties/C01.lean`) supplies the invariant on the incoming profile that the upper
bound on runoff needs (`th ≤ th_s`, and `FluxOut ≤ Ksat` after drainage, which is proved).
Only theorems live here; lemmas are in `Proofs/`.
-/

set_option linter.unusedSectionVars false
namespace Aqua.C02
open Aqua
variable {α : Type} [Field α] [LinearOrder α] [IsStrictOrderedRing α]

/-! ### the processes -/

/-- SCS split: for a curve number in `(0, 100]` and non-negative rain, runoff lies between 0 and
the rain, and runoff + infiltration = rain. -/
theorem scs_runoff_within_rain {F : Fn α} (hF : PowSqLaw F) (p cn : α) (hp : 0 ≤ p) (hcn : 0 < cn)
    (hcn' : cn ≤ 100) :
    0 ≤ (scsSplit F p cn).1 ∧ (scsSplit F p cn).1 ≤ p ∧
      (scsSplit F p cn).1 + (scsSplit F p cn).2 = p :=
  scsSplit_bounds hF p cn hp hcn hcn'

/-- `rainfall_partition` returns `Runoff + Infl = P` in both of its branches — no premise. -/
theorem rain_partition_sum {F : Fn α} {p : α} {cells : List (Cell α)} {daySub : Nat}
    {srInhb bunds : Bool} {zBund pct soilCN zCN : α} {adjCN : Bool} {r : RainOut α}
    (h : rainPartition F p cells daySub srInhb bunds zBund pct soilCN adjCN zCN = some r) :
    r.runoff + r.infl = p :=
  rainPartition_sum h

/-- … and with non-negative rain and (where the split runs) an effective curve number in
`(0,100]`, both parts lie between 0 and the rain. -/
theorem rain_partition_bounds {F : Fn α} (hF : PowSqLaw F) {p : α} {cells : List (Cell α)} {daySub : Nat}
    {srInhb bunds : Bool} {zBund pct soilCN zCN : α} {adjCN : Bool} {r : RainOut α}
    (h : rainPartition F p cells daySub srInhb bunds zBund pct soilCN adjCN zCN = some r)
    (hp : 0 ≤ p)
    (hcn : (srInhb = false ∧ (bunds = false ∨ zBund < 0.001)) → 0 < r.cn ∧ r.cn ≤ 100) :
    0 ≤ r.runoff ∧ r.runoff ≤ p ∧ 0 ≤ r.infl ∧ r.infl ≤ p :=
  rainPartition_bounds hF h hp hcn

section infiltration
variable {F : Fn α} {cells : List (Cell α)} {pond infl irr appEff zBund dp0 ro0 : α}
  {bunds gs : Bool} {out : InfOut α}

/-- Infiltration: reported infiltration + the runoff this process adds = the day's intake
`max(Infl,0) + Irr·AppEff/100` (irrigation term only in season). -/
theorem partition_sum
    (h : infiltration F cells pond infl irr appEff bunds zBund dp0 ro0 gs = .ok out) :
    out.infl + (out.runoffTot - ro0) = pmax infl 0 + (if gs then irr * (appEff / 100) else 0) :=
  infiltration_partition h

/-- The runoff added by infiltration is never negative (premises: non-negative incoming ponding,
`Ksat ≥ 0`). -/
theorem runoff_nonneg
    (h : infiltration F cells pond infl irr appEff bunds zBund dp0 ro0 gs = .ok out)
    (hp : 0 ≤ pond) (hk : ∀ c ∈ cells, 0 ≤ c.c.ksat) : 0 ≤ out.runoffTot - ro0 :=
  infiltration_runoff_nonneg h hp hk

/-- … and never exceeds the day's intake plus the water already ponded (premises: cells within
limits, `FluxOut ≤ Ksat` on entry, non-negative ponding). -/
theorem runoff_le_supply
    (h : infiltration F cells pond infl irr appEff bunds zBund dp0 ro0 gs = .ok out)
    (hinv : ∀ c ∈ cells, c.Inv) (hfl : ∀ c ∈ cells, c.flux ≤ c.c.ksat) (hp : 0 ≤ pond) :
    out.runoffTot - ro0 ≤ out.inflIn + pond :=
  infiltration_runoff_le h hinv hfl hp

/-- Reported infiltration is negative only when the no-bunds block runs (no bunds, or bunds not
higher than 1 mm) and releases ponded water as runoff — and then by no more than that water. -/
theorem negative_infiltration_only_on_bund_removal
    (h : infiltration F cells pond infl irr appEff bunds zBund dp0 ro0 gs = .ok out)
    (hinv : ∀ c ∈ cells, c.Inv) (hfl : ∀ c ∈ cells, c.flux ≤ c.c.ksat) (hp : 0 ≤ pond)
    (hpz : bunds = true → 0.001 < zBund → pond ≤ zBund) (hneg : out.infl < 0) :
    (bunds = false ∨ zBund ≤ 0.001) ∧ 0 < pond ∧ -out.infl ≤ pond :=
  infiltration_infl_neg h hinv hfl hp hpz hneg

/-- No intake and nothing ponded: infiltration and added runoff are zero and nothing changes. -/
theorem dry_day
    (h : infiltration F cells pond infl irr appEff bunds zBund dp0 ro0 gs = .ok out)
    (hk : ∀ c ∈ cells, 0 ≤ c.c.ksat)
    (hI0 : pmax infl 0 + (if gs then irr * (appEff / 100) else 0) = 0) (hp0 : pond = 0) :
    out.infl = 0 ∧ out.runoffTot = ro0 ∧ out.cells = cells ∧ out.pond = 0 ∧ out.deepPerc = dp0 :=
  infiltration_dry h hk hI0 hp0

end infiltration

/-! ### the whole day -/

variable {F : Fn α} {W : WaterParams α} {fm : FieldMngt α} {C : CropDay α}
  {cells : List (Cell α)} {S : DayState α} {D : DayIn α} {out : DayOut α}

/-- **Rainfall plus the efficiency-adjusted irrigation application equals reported infiltration
plus reported runoff** — for non-negative rain and an effective curve number in `(0,100]` (needed
so that the infiltration part of the SCS split is not negative, which `infiltration` would clamp). -/
theorem day_partition (hF : PowSqLaw F) (h : waterDay F W fm C cells S D = .ok out)
    (hrain : 0 ≤ D.rain)
    (hcn : ScsRuns fm → 0 < out.cn ∧ out.cn ≤ 100) :
    out.infl + out.runoff = D.rain + irrApplied W D out :=
  waterDay_partition hF h hrain hcn

/-- Reported runoff is never negative and never exceeds the day's rain and applied irrigation
plus the water ponded at the start of the day (premises: `DayPre`, non-negative rain, curve
number in `(0,100]`). -/
theorem day_runoff_bounds (h : waterDay F W fm C cells S D = .ok out) (hP : DayPre F W cells S)
    (hrain : 0 ≤ D.rain) (hcn : ScsRuns fm → 0 < out.cn ∧ out.cn ≤ 100) :
    0 ≤ out.runoff ∧ out.runoff ≤ D.rain + irrApplied W D out + S.pond :=
  waterDay_runoff_bounds h hP hrain hcn

/-- Reported infiltration is negative only on a day without effective bunds on which ponded water
is released, and then by no more than that ponded water (premises: `DayPre`; with bunds the
incoming ponding is below the bund height). -/
theorem day_negative_infiltration_only_on_bund_removal
    (h : waterDay F W fm C cells S D = .ok out) (hP : DayPre F W cells S)
    (hpz : fm.bunds = true → 0.001 < fm.zBund → S.pond ≤ fm.zBund) (hneg : out.infl < 0) :
    (fm.bunds = false ∨ fm.zBund ≤ 0.001) ∧ 0 < S.pond ∧ -out.infl ≤ S.pond :=
  waterDay_infl_neg h hP hpz hneg

/-- With no rain, no irrigation and nothing ponded, infiltration and runoff are both zero
(premises: positive thicknesses, `Ksat ≥ 0`, curve number in `(0,100]`). -/
theorem day_dry (h : waterDay F W fm C cells S D = .ok out)
    (hdz : ∀ x ∈ cells, 0 < x.c.dz) (hk : ∀ x ∈ cells, 0 ≤ x.c.ksat)
    (hcn : ScsRuns fm → 0 < out.cn ∧ out.cn ≤ 100)
    (hrain : D.rain = 0) (hirr : out.irr = 0) (hpond : S.pond = 0) :
    out.infl = 0 ∧ out.runoff = 0 :=
  waterDay_dry h hdz hk hcn hrain hirr hpond

/-! ### non-vacuity -/

/-- the concrete day of `Proofs/WaterDay.lean`: rain 20 mm at curve number 72 and 10 mm of
irrigation at 90 % efficiency are split into positive runoff and positive infiltration that add
up to 29 mm -/
example : ∃ out, waterDay DayExample.Fq DayExample.Wq DayExample.fmq DayExample.Cq
      DayExample.cellsq DayExample.Sq DayExample.Dq = .ok out ∧ 0 < out.runoff ∧ 0 < out.infl ∧
    out.infl + out.runoff = 29 := by
  obtain ⟨out, h, _, _, hinfl, hro, _, _, hirr, hcn, _⟩ := DayExample.runs
  refine ⟨out, h, hro, hinfl, ?_⟩
  have := day_partition DayExample.Fq_sq h (by norm_num [DayExample.Dq]) (fun _ => by rw [hcn]; norm_num)
  rw [this]
  simp only [irrApplied, hirr, DayExample.Dq, DayExample.Wq]
  norm_num

/-! ### every day of every run (`Proofs/RunLift.lean`) -/

/-- **Run level.** On every simulated day of every run reported infiltration plus reported runoff
equals the rain of the weather table for that day plus the efficiency-adjusted irrigation
application (`Irr·AppEff/100` in season, else 0).  Premises: the effective curve number of the
configuration lies in `(0, 100]` (`CfgSurfOK`) and the weather table has no negative rain
(`RainOK`). -/
theorem run_partition {F : Fn α} {T : TrigFn α} {cfg : RunCfg α} {s : RunState α}
    (hS : CfgSurfOK F cfg) (hW : RainOK cfg) (hr : RunReach F T cfg s) :
    ∀ d ∈ s.daysRev,
      d.r.flux.infl + d.r.flux.runoff =
        (cfg.weather d.D.tsc).rain + irrApplied d.P.W d.D.water d.r.water :=
  Aqua.run_partition hS hW hr

/-- **Run level.** Reported runoff is never negative and never exceeds rain + applied irrigation +
the water ponded at the start of the day (`CfgOK`; with a water table the capillary-rise residual
`ResidualW`). -/
theorem run_runoff_bounds {F : Fn α} {T : TrigFn α} {cfg : RunCfg α} {s : RunState α}
    (hC : CfgOK F T cfg) (hS : CfgSurfOK F cfg) (hW : RainOK cfg) (hr : RunReach F T cfg s)
    (hR : ∀ d ∈ s.daysRev, ResidualW d) :
    ∀ d ∈ s.daysRev,
      0 ≤ d.r.flux.runoff ∧
      d.r.flux.runoff ≤
        (cfg.weather d.D.tsc).rain + irrApplied d.P.W d.D.water d.r.water + d.st.pond :=
  Aqua.run_runoff_bounds hC hS hW hr hR

/-- **Run level.** Reported infiltration is negative only on a day without (effective) bunds on
which ponded water is released, and then by no more than the water ponded at the start of the day.
Needs the bund invariant of the run (`run_pondInv`): premises of `C04.run_flux_closed` plus
`BundOK` (equal bund heights in `FieldMngt` and `FallowFieldMngt` when both have bunds). -/
theorem run_negative_infiltration_only_on_bund_removal {F : Fn α} {T : TrigFn α}
    {cfg : RunCfg α} {s : RunState α} {A : α} (hC : CfgOK F T cfg) (hT : CfgTrOK F cfg A)
    (hJ : CfgRwOK F cfg) (hE : CfgEsOK cfg) (hW : WeatherOK F cfg) (hB : BundOK cfg)
    (hr : RunReach F T cfg s) (hR : ∀ d ∈ s.daysRev, ResidualW d) :
    ∀ d ∈ s.daysRev, d.r.flux.infl < 0 →
      (d.P.fm.bunds = false ∨ d.P.fm.zBund ≤ 0.001) ∧ 0 < d.st.pond ∧
        -d.r.flux.infl ≤ d.st.pond :=
  Aqua.run_negative_infiltration hC hT hJ hE hW hB hr hR

/-- **Run level.** On a day without rain, without irrigation and with nothing ponded, infiltration
and runoff are both zero. -/
theorem run_dry_day {F : Fn α} {T : TrigFn α} {cfg : RunCfg α} {s : RunState α}
    (hC : CfgOK F T cfg) (hS : CfgSurfOK F cfg) (hr : RunReach F T cfg s)
    (hR : ∀ d ∈ s.daysRev, ResidualW d) :
    ∀ d ∈ s.daysRev, (cfg.weather d.D.tsc).rain = 0 → d.r.water.irr = 0 → d.st.pond = 0 →
      d.r.flux.infl = 0 ∧ d.r.flux.runoff = 0 :=
  Aqua.run_dry_day hC hS hr hR

end Aqua.C02
