import AquaVerif.Proofs.RunLiftSum
/-
Property C13, run-level companion file: the per-strategy contracts of `Properties/C13.lean` on every day of every
run of the modelled loop (`Proofs/RunLiftIrr.lean`).  A separate file because `Proofs/Summary.lean`, which the run
lemmas depend on, imports `Properties/C13.lean`.
-/
set_option linter.unusedSectionVars false

namespace Aqua.C13
open Aqua Aqua.Clock
variable {α : Type} [Field α] [LinearOrder α] [IsStrictOrderedRing α]

/-! ### every day of every run (`Proofs/RunLiftIrr.lean`) -/

section run
variable {F : Fn α} {T : TrigFn α} {cfg : RunCfg α} {s : RunState α}

/-- **Run level.** Every recorded day is one `day` of the strategy: the recorded `IrrOut` is `day`
applied to what the day read (`DayRec.irrIn`) with yesterday's seasonal counter — so every
per-call theorem of this file applies to every day of every run. -/
theorem run_day_is_strategy_day (hr : RunReach F T cfg s) :
    ∀ d ∈ s.daysRev, day F d.P.W.irr d.st.irrCum d.irrIn = .ok d.r.trace.i ∧
      d.r.water.irr = d.r.trace.i.irr ∧ d.r.state.irrCum = d.r.trace.i.irrCum :=
  run_irr_day hr

/-- **Run level.** No surface irrigation outside a growing season, under the rain-fed strategy or
under net irrigation; a single application is never negative and never exceeds the daily maximum. -/
theorem run_none_and_daily_max (hmax : ∀ season, 0 ≤ (irrSetOf cfg season).irr.maxIrr)
    (hr : RunReach F T cfg s) :
    ∀ d ∈ s.daysRev,
      (d.D.gs = false ∨ (irrSetOf cfg d.D.season).irr.method = 0 ∨
        (irrSetOf cfg d.D.season).irr.method = 4 → d.r.water.irr = 0) ∧
      0 ≤ d.r.water.irr ∧ d.r.water.irr ≤ (irrSetOf cfg d.D.season).irr.maxIrr :=
  fun d hd => ⟨run_irr_none hr d hd, run_irr_daily_max hmax hr d hd⟩

/-- **Run level.** Fixed-interval irrigation occurs only on growing-season days 1, 1+k, 1+2k, …
after planting. -/
theorem run_interval_days (hr : RunReach F T cfg s) :
    ∀ d ∈ s.daysRev, (irrSetOf cfg d.D.season).irr.method = 2 → 0 < d.r.water.irr →
      d.D.gs = true ∧ (irrSetOf cfg d.D.season).irr.interval ≠ 0 ∧
        (d.r.growth.dap - 1) % (irrSetOf cfg d.D.season).irr.interval = 0 ∧
        d.r.growth.dap = d.st.dap + 1 :=
  run_irr_interval hr

/-- **Run level.** Scheduled irrigation applies exactly the depth the configured schedule holds
for that day (capped), and nothing on a day whose scheduled depth is zero. -/
theorem run_schedule_exact (hr : RunReach F T cfg s) :
    ∀ d ∈ s.daysRev, (irrSetOf cfg d.D.season).irr.method = 3 →
      (d.D.gs = true → ∃ v, (irrSetOf cfg d.D.season).sched d.D.tsc = some v ∧ 0 ≤ v ∧
        d.r.water.irr = irrCap (irrSetOf cfg d.D.season).irr.maxSeason d.st.irrCum
          (pmax 0 (pmin (irrSetOf cfg d.D.season).irr.maxIrr v))) ∧
      ((irrSetOf cfg d.D.season).sched d.D.tsc = some 0 → d.r.water.irr = 0) :=
  fun d hd hm => ⟨fun hg => run_irr_schedule hr d hd hg hm, run_irr_schedule_zero hr d hd hm⟩

/-- **Run level.** The threshold rule on every growing-season day. -/
theorem run_threshold_contract (hr : RunReach F T cfg s) :
    ∀ d ∈ s.daysRev, d.D.gs = true → d.P.W.irr.method = 1 →
      ∃ i pre, smtIndex (if d.r.growth.dap = 1 then 1 else d.st.growthStage) = some i ∧
        pre = (if 1 - d.P.W.irr.smt i / 100 < d.r.trace.i.depletion / d.r.trace.i.taw
                then pmax 0 (irrGross d.P.W.irr d.r.trace.i.depletion) else 0) ∧
        d.r.water.irr = irrCap d.P.W.irr.maxSeason d.st.irrCum pre ∧
        (d.P.W.irr.appEff < 200 →
          (0 < pre ↔ (1 - d.P.W.irr.smt i / 100 < d.r.trace.i.depletion / d.r.trace.i.taw ∧
            0 < d.r.trace.i.depletion ∧ 0 < d.P.W.irr.maxIrr))) :=
  run_irr_threshold hr

/-- **Run level.** Constant-depth irrigation on every growing-season day (capped). -/
theorem run_constant_depth (hr : RunReach F T cfg s) :
    ∀ d ∈ s.daysRev, d.D.gs = true → (irrSetOf cfg d.D.season).irr.method = 5 →
      d.r.water.irr = irrCap (irrSetOf cfg d.D.season).irr.maxSeason d.st.irrCum
        (pmax 0 (pmin (irrSetOf cfg d.D.season).irr.maxIrr (irrSetOf cfg d.D.season).irr.depth)) :=
  run_irr_constant hr

/-- **Run level: the seasonal cap is an invariant of the run** (through the counter reset at every
season start): the counter is a running sum in season, 0 off season, at most `MaxIrrSeason` in
every reachable state and at the start and end of every simulated day, and 0 on the first day
after every change of the season counter. -/
theorem run_season_total_le_max (hK : IrrCapOK cfg) (hr : RunReach F T cfg s) :
    s.day.irrCum ≤ (irrSetOf cfg s.season).irr.maxSeason ∧
    (∀ d ∈ s.daysRev, d.st.irrCum ≤ (irrSetOf cfg d.D.season).irr.maxSeason ∧
      d.r.state.irrCum ≤ (irrSetOf cfg d.D.season).irr.maxSeason ∧
      (d.D.gs = true → d.r.state.irrCum = d.st.irrCum + d.r.water.irr) ∧
      (d.D.gs = false → d.r.state.irrCum = 0)) ∧
    (∀ i (h : i + 1 < s.daysRev.length),
      s.daysRev[i].D.season ≠ s.daysRev[i + 1].D.season →
        s.daysRev[i].st.irrCum = 0 ∧ s.daysRev[i].st.irrNetCum = 0) := by
  obtain ⟨a, b⟩ := run_season_cap hK hr
  refine ⟨a, fun d hd => ⟨(b d hd).1, (b d hd).2, (run_irr_running_sum hr d hd).1,
    (run_irr_running_sum hr d hd).2⟩, fun i h hne => ?_⟩
  obtain ⟨_, c1, c2, _⟩ := run_counter_reset hr i h hne
  exact ⟨c1, c2⟩

/-- **Run level.** The seasonal irrigation reported in every summary row is at most the seasonal
maximum (strategies other than net irrigation). -/
theorem run_summary_total_le_max (hv : Valid cfg.clock) (hi : InitOK cfg) (hK : IrrCapOK cfg)
    (hm : cfg.irr.irr.method ≠ 4) (hr : RunReach F T cfg s) :
    ∀ x ∈ s.summaryTable, x.irrTot ≤ cfg.irr.irr.maxSeason :=
  Aqua.run_summary_total_le_max hv hi hK hm hr

end run

end Aqua.C13
