import AquaVerif.Proofs.RunLiftSum
import AquaVerif.Proofs.Day
import AquaVerif.Proofs.Clock
import AquaVerif.Proofs.Summary
import AquaVerif.Proofs.Yield
/-
Property C06 — yields and seasonal totals agree with the daily tables.

What is modelled.
(a) *Which summary rows exist*: the clock / season state machine `Aqua.Clock` (model of
    `_perform_timestep`, the "Final output" block of `solution_single_time_step`,
    `check_model_is_finished`, `update_time`) with the biophysics abstracted to an oracle; the
    summary is the list of `final_stats.loc[season] = …` writes `(season, harvest step)`.
(b) *Seasonal irrigation*: `Aqua.C13.run`, a fold of the model of `irrigation` over a history of
    days threading `IrrCum`; for net irrigation one day of the model of `transpiration` and the
    inline step 21 / output block (`irrReport`).
(c) *Daily identities*: `biomassAccumulation` (model of `solution/biomass_accumulation.py`) and
    `yieldStep` (steps 18–19 of `run_single_timestep.py`), `Model/Yield.lean`.

What is quantified over.  (a) every well-formed clock configuration, every oracle (hence every
day function, crops that die before maturity included), every reachable state; (b) every profile,
parameter vector (every strategy, any seasonal cap — binding or not), initial counter and history
of day inputs; (c) every crop parameter vector and day input at an arbitrary linearly ordered
field, under the stated premises (`0 ≤ WPy ≤ 100`, `0 ≤ WP·fCO2`, `0 ≤ Tr`, `0 < ET0`, and
`BioSwitchOK`: the yield-formation switch lies in [0,1]).

That each summary row *repeats the daily values of its harvest day* is by construction of the
Python (the row is assembled from the same `NewCond` fields in the same call that wrote the daily
row) and is checked by the tie, not stated here.  The property's wording "potential yield = no-stress
biomass × *reference* harvest index" differs from the code, which multiplies by the unadjusted
harvest index `NewCond.harvest_index` (`pot_yield_eq` states what the code does).
Only theorems live here (lemmas: `Proofs/Clock.lean`, `Proofs/Summary.lean`, `Proofs/Yield.lean`).
-/

set_option linter.unusedSectionVars false
namespace Aqua.C06
open Aqua Aqua.Clock

/-! ## (a) summary rows -/

section summary
variable {c : Cfg} {ev : Ev} {s : St}

/-- There is a summary row for season `k` exactly when some simulated day of season `k` met the
end-of-season condition (the season reached harvest). -/
theorem summary_row_iff_season_reached_harvest (hw : WF c) (hr : Reach c ev s) (k : Int) :
    (∃ t, (k, t) ∈ s.summary) ↔ ∃ r ∈ s.rows, r.season = k ∧ r.endc = true :=
  summary_iff_reached_harvest hw hr k

/-- Summary rows are in strictly increasing season order. -/
theorem summary_in_season_order (hw : WF c) (hr : Reach c ev s) :
    s.summary.Pairwise (fun a b => a.1 < b.1) := summary_sorted hw hr

/-- At most one summary row per season. -/
theorem summary_one_row_per_season (hw : WF c) (hr : Reach c ev s) {k : Int} {t1 t2 : Nat}
    (h1 : (k, t1) ∈ s.summary) (h2 : (k, t2) ∈ s.summary) : t1 = t2 := summary_unique hw hr h1 h2

/-- A summary row is never overwritten: the `final_stats` table is exactly the list of writes. -/
theorem summary_never_overwritten (hw : WF c) (hr : Reach c ev s) :
    finalStats s.summary = s.summary := finalStats_eq hw hr

/-- The harvest step recorded in the row of season `k` is the first simulated day of that season on
which the crop is mature or dead or the next day is the latest harvest date. -/
theorem harvest_step_is_first_end_condition_day (hw : WF c) (hr : Reach c ev s) (k : Int) (t : Nat) :
    (k, t) ∈ s.summary ↔ FirstEnd s.rows k t := season_ends_first hw hr k t

/-- Under `Valid` every season that has been left has its summary row (none is missing). -/
theorem every_completed_season_has_a_row (hv : Valid c) (hr : Reach c ev s) (k : Nat)
    (hk : (k : Int) < s.season) : ∃ t, ((k : Int), t) ∈ s.summary := season_harvested hv hr k hk

/-- After the summary row of season `k` has been written no later simulated day of that season is a
growing day (`growing_season = False`, `dap = 0`): the row closes the season. -/
theorem no_growing_day_after_summary_row (hw : WF c) (hr : Reach c ev s) {k : Int} {t : Nat}
    (h : (k, t) ∈ s.summary) :
    ∀ r ∈ s.rows, r.season = k → t < r.t → r.gs = false ∧ r.dap = 0 :=
  no_growing_day_after_summary hw hr h

/-- A growing day lies strictly before its season's latest harvest date (`t + 1 ≤ harvest[season]`),
so the harvest step of a summary row — at the latest the day before that date — is the last
possible growing day. -/
theorem growing_day_before_latest_harvest_date (hw : WF c) (hr : Reach c ev s) :
    ∀ r ∈ s.rows, r.gs = true → (r.t : Int) + 1 ≤ c.hv r.season.toNat := gs_before_harvest hw hr

end summary

/-! ## (b) seasonal irrigation = sum of the daily column -/

section irrigation
open Aqua.C13
variable {α : Type} [Field α] [LinearOrder α] [IsStrictOrderedRing α]

/-- Over the in-season days of a season the seasonal counter reported in the summary row is the
initial counter plus the sum of the daily irrigation depths — for every strategy and whether or not
the seasonal cap binds. -/
theorem season_total_is_sum (F : Fn α) (P : IrrParams α) (ds : List (C13.DayIn α)) (c c' : α)
    (xs : List α) (hg : ∀ d ∈ ds, d.gs = true) (h : run F P c ds = some (c', xs)) :
    c' = c + xs.sum := Aqua.season_total_is_sum F P ds c c' xs hg h

/-- An off-season day applies nothing and resets the seasonal counter to 0. -/
theorem offseason_day_resets_total (F : Fn α) (P : IrrParams α) (c : α) (d : C13.DayIn α)
    (o : IrrOut α) (h : day F P c d = .ok o) (hg : d.gs = false) : o.irr = 0 ∧ o.irrCum = 0 :=
  offseason_day_resets F P c d o h hg

/-- After a non-empty off-season stretch the counter at the end of the following season equals the
sum of that season's daily depths, whatever it was before (and the sum over the whole history,
the off-season depths being 0). -/
theorem season_total_is_sum_after_offseason (F : Fn α) (P : IrrParams α)
    (off ds : List (C13.DayIn α)) (c c' : α) (xs : List α) (hne : off ≠ [])
    (hoff : ∀ d ∈ off, d.gs = false) (hin : ∀ d ∈ ds, d.gs = true)
    (h : run F P c (off ++ ds) = some (c', xs)) :
    c' = (xs.drop off.length).sum ∧ c' = xs.sum :=
  season_total_after_offseason F P off ds c c' xs hne hoff hin h

/-- With the counter reset at the season start (`reset_initial_conditions`: `irr_cum = 0`) the
seasonal total is exactly the sum of the daily column. -/
theorem season_total_is_sum_from_reset (F : Fn α) (P : IrrParams α) (ds : List (C13.DayIn α))
    (c' : α) (xs : List α) (hg : ∀ d ∈ ds, d.gs = true) (h : run F P 0 ds = some (c', xs)) :
    c' = xs.sum := by
  have := Aqua.season_total_is_sum F P ds 0 c' xs hg h
  rwa [zero_add] at this

/-- Net irrigation: one in-season day of `transpiration` advances the cumulative net irrigation by
exactly that day's net irrigation. -/
theorem net_irrigation_counter_step {F : Fn α} {cells : List (Cell α)} {nComp : Nat} {zTop : α}
    {crop : TrCrop α} {smt : α} {st : TrState α} {et0 cur ref gdd : α} {out : TrOut α}
    (h : transpiration F cells nComp zTop crop 4 smt st et0 cur ref true gdd = .ok out) :
    out.st.irrNetCum = st.irrNetCum + out.irrNet := transp_irrNetCum_step h

/-- … and with the pre-irrigation of step 21 added to both, the reported seasonal total advances
by exactly the reported daily value (`IrrDay = IrrNet + PreIrr`). -/
theorem net_irrigation_reported_total_step (irr irrCum irrNet irrNetCum0 irrNetCum preIrr : α)
    (hstep : irrNetCum = irrNetCum0 + irrNet) :
    (irrReport 4 irr irrCum irrNet irrNetCum preIrr true).2.1 =
      irrNetCum0 + (irrReport 4 irr irrCum irrNet irrNetCum preIrr true).1 :=
  irrReport_net irr irrCum irrNet irrNetCum0 irrNetCum preIrr hstep

/-- Under every other strategy the reported pair is `(Irr, IrrCum)` of `irrigation`; off season
`(0, 0)`. -/
theorem reported_irrigation_is_irrigation_output (m : Nat) (hm : m ≠ 4)
    (irr irrCum irrNet irrNetCum preIrr : α) :
    ((irrReport m irr irrCum irrNet irrNetCum preIrr true).1 = irr ∧
      (irrReport m irr irrCum irrNet irrNetCum preIrr true).2.1 = irrCum) ∧
    ((irrReport m irr irrCum irrNet irrNetCum preIrr false).1 = 0 ∧
      (irrReport m irr irrCum irrNet irrNetCum preIrr false).2.1 = 0) :=
  ⟨irrReport_surface m hm irr irrCum irrNet irrNetCum preIrr,
   irrReport_offseason m irr irrCum irrNet irrNetCum preIrr⟩

end irrigation

/-! ## (c) daily identities -/

section daily
variable {α : Type} [Field α] [LinearOrder α] [IsStrictOrderedRing α]

/-- Dry yield equals biomass (t/ha → /100) times the stress-adjusted harvest index on every
in-season day. -/
theorem dry_yield_eq (bNS b hi hiAdj yldWC : α) :
    (yieldStep bNS b hi hiAdj yldWC true).dryYield = (b / 100) * hiAdj :=
  yieldStep_dry bNS b hi hiAdj yldWC

/-- Fresh yield equals dry yield divided by the crop's dry-matter fraction `YldWC/100`. -/
theorem fresh_yield_eq (bNS b hi hiAdj yldWC : α) :
    (yieldStep bNS b hi hiAdj yldWC true).freshYield =
      (yieldStep bNS b hi hiAdj yldWC true).dryYield / (yldWC / 100) :=
  yieldStep_fresh bNS b hi hiAdj yldWC

/-- … so, for a non-zero fraction, fresh yield times the fraction gives back the dry yield. -/
theorem fresh_yield_times_fraction (bNS b hi hiAdj yldWC : α) (h : yldWC ≠ 0) :
    (yieldStep bNS b hi hiAdj yldWC true).freshYield * (yldWC / 100) =
      (yieldStep bNS b hi hiAdj yldWC true).dryYield :=
  yieldStep_fresh_mul bNS b hi hiAdj yldWC h

/-- Potential yield equals no-stress biomass times the (unadjusted) harvest index, on every day. -/
theorem pot_yield_eq (bNS b hi hiAdj yldWC : α) (gs : Bool) :
    (yieldStep bNS b hi hiAdj yldWC gs).yieldPot = (bNS / 100) * hi :=
  yieldStep_pot bNS b hi hiAdj yldWC gs

/-- Outside the growing season dry and fresh yield are zero. -/
theorem yields_zero_offseason (bNS b hi hiAdj yldWC : α) :
    (yieldStep bNS b hi hiAdj yldWC false).dryYield = 0 ∧
      (yieldStep bNS b hi hiAdj yldWC false).freshYield = 0 :=
  yieldStep_offseason bNS b hi hiAdj yldWC

/-- On every in-season day the biomass gain is exactly the adjusted water productivity times
transpiration over reference ET, and the no-stress gain the same with potential transpiration. -/
theorem biomass_step_eq (crop : BioCrop α) (dap delayedCDs hiRef pctLag b bNS tr trPot et0 : α) :
    biomassAccumulation crop dap delayedCDs hiRef pctLag b bNS tr trPot et0 true =
      (b + bioWPadj crop dap delayedCDs hiRef pctLag * (tr / et0),
       bNS + bioWPadj crop dap delayedCDs hiRef pctLag * (trPot / et0)) :=
  biomass_step crop dap delayedCDs hiRef pctLag b bNS tr trPot et0

/-- The adjusted water productivity is the CO2-adjusted one scaled down by no more than the
yield-formation factor: `WP·fCO2·(WPy/100) ≤ WPadj ≤ WP·fCO2`. -/
theorem adjusted_wp_bounds (crop : BioCrop α) (dap delayedCDs hiRef pctLag : α)
    (hy0 : 0 ≤ crop.wpy) (hy1 : crop.wpy ≤ 100) (hw : 0 ≤ crop.wp * crop.fco2)
    (h : BioSwitchOK crop dap delayedCDs pctLag) :
    crop.wp * crop.fco2 * (crop.wpy / 100) ≤ bioWPadj crop dap delayedCDs hiRef pctLag ∧
      bioWPadj crop dap delayedCDs hiRef pctLag ≤ crop.wp * crop.fco2 :=
  bioWPadj_bounds crop dap delayedCDs hiRef pctLag hy0 hy1 hw h

/-- Hence `WP·fCO2·(WPy/100)·Tr/ET0 ≤ ΔB ≤ WP·fCO2·Tr/ET0` on every in-season day. -/
theorem biomass_step_bounds (crop : BioCrop α)
    (dap delayedCDs hiRef pctLag b bNS tr trPot et0 : α)
    (hy0 : 0 ≤ crop.wpy) (hy1 : crop.wpy ≤ 100) (hw : 0 ≤ crop.wp * crop.fco2)
    (h : BioSwitchOK crop dap delayedCDs pctLag) (htr : 0 ≤ tr) (het : 0 < et0) :
    b + crop.wp * crop.fco2 * (crop.wpy / 100) * (tr / et0) ≤
        (biomassAccumulation crop dap delayedCDs hiRef pctLag b bNS tr trPot et0 true).1 ∧
      (biomassAccumulation crop dap delayedCDs hiRef pctLag b bNS tr trPot et0 true).1 ≤
        b + crop.wp * crop.fco2 * (tr / et0) :=
  biomass_gain_bounds crop dap delayedCDs hiRef pctLag b bNS tr trPot et0 hy0 hy1 hw h htr het

/-- Biomass never decreases during the growing season, and more transpiration gives more biomass. -/
theorem biomass_mono (crop : BioCrop α) (dap delayedCDs hiRef pctLag b bNS tr tr' trPot et0 : α)
    (hy0 : 0 ≤ crop.wpy) (hy1 : crop.wpy ≤ 100) (hw : 0 ≤ crop.wp * crop.fco2)
    (h : BioSwitchOK crop dap delayedCDs pctLag) (htr : 0 ≤ tr) (htr' : tr ≤ tr') (het : 0 < et0) :
    b ≤ (biomassAccumulation crop dap delayedCDs hiRef pctLag b bNS tr trPot et0 true).1 ∧
      (biomassAccumulation crop dap delayedCDs hiRef pctLag b bNS tr trPot et0 true).1 ≤
        (biomassAccumulation crop dap delayedCDs hiRef pctLag b bNS tr' trPot et0 true).1 :=
  ⟨biomass_nondecreasing crop dap delayedCDs hiRef pctLag b bNS tr trPot et0 hy0 hy1 hw h htr het,
   biomass_mono_in_tr crop dap delayedCDs hiRef pctLag b bNS tr tr' trPot et0 hy0 hy1 hw h het htr'⟩

/-- Actual biomass stays below no-stress biomass as long as actual transpiration stays below the
potential one. -/
theorem biomass_le_nostress_biomass (crop : BioCrop α)
    (dap delayedCDs hiRef pctLag b bNS tr trPot et0 : α)
    (hy0 : 0 ≤ crop.wpy) (hy1 : crop.wpy ≤ 100) (hw : 0 ≤ crop.wp * crop.fco2)
    (h : BioSwitchOK crop dap delayedCDs pctLag) (het : 0 < et0) (htr : tr ≤ trPot) (hb : b ≤ bNS) :
    (biomassAccumulation crop dap delayedCDs hiRef pctLag b bNS tr trPot et0 true).1 ≤
      (biomassAccumulation crop dap delayedCDs hiRef pctLag b bNS tr trPot et0 true).2 :=
  biomass_le_nostress crop dap delayedCDs hiRef pctLag b bNS tr trPot et0 hy0 hy1 hw h het htr hb

/-- Outside the growing season both biomass counters are reset to zero. -/
theorem biomass_zero_offseason (crop : BioCrop α)
    (dap delayedCDs hiRef pctLag b bNS tr trPot et0 : α) :
    biomassAccumulation crop dap delayedCDs hiRef pctLag b bNS tr trPot et0 false = (0, 0) :=
  biomass_offseason crop dap delayedCDs hiRef pctLag b bNS tr trPot et0

/-- Non-vacuity: a Cotton-like crop (`WPy = 70`) one third into yield formation. -/
example :
    BioSwitchOK (⟨3, 0, 60, 90, 15, 70, 1.05⟩ : BioCrop ℚ) 91 0 0 ∧
      (biomassAccumulation (⟨3, 0, 60, 90, 15, 70, 1.05⟩ : BioCrop ℚ) 91 0 0.3 0 100 120 4 5 5
        true).1 = 100 + 15 * (1 - (1 - 70 / 100) * 1) * 1.05 * (4 / 5) := by
  refine ⟨⟨by decide, fun _ => by norm_num [bioHIt]⟩, ?_⟩
  norm_num [biomassAccumulation, bioWPadj, bioWPadj0, bioFswitch, bioHIt]

end daily

/-! ### the rows the full day emits (`Model/Day.lean`, tied to `solution_single_time_step` by the `full_day` replay) -/

/-- **Full day.** The rows written on a day satisfy the yield identities and the biomass step, and
the state copies the reported values — no premise. -/
theorem full_day_yield_identities {α : Type} [Field α] [LinearOrder α] [IsStrictOrderedRing α]
    {F : Fn α} {T : TrigFn α} {P : DayParams α} {st : DayState' α} {D : DayIn' α} {r : DayResult α}
    (h : fullDay F T P st D = .ok r) :
    r.growth.yieldPot = (r.growth.biomassNS / 100) * r.growth.hi ∧
    (D.gs = true →
      r.growth.dryYield = (r.growth.biomass / 100) * r.growth.hiAdj ∧
      r.growth.freshYield = r.growth.dryYield / (P.cx.yldWC / 100) ∧
      r.growth.biomass = st.biomass +
        bioWPadj P.cx.bio (natNum r.growth.dap) r.state.delayedCds r.state.hiRef
          r.state.pctLagPhase * (r.flux.tr / D.et0) ∧
      r.growth.biomassNS = st.biomassNS +
        bioWPadj P.cx.bio (natNum r.growth.dap) r.state.delayedCds r.state.hiRef
          r.state.pctLagPhase * (r.water.trPotNS / D.et0)) ∧
    (r.state.yieldPot = r.growth.yieldPot ∧ r.state.dryYield = r.growth.dryYield ∧
      r.state.freshYield = r.growth.freshYield ∧ r.state.biomass = r.growth.biomass ∧
      r.state.biomassNS = r.growth.biomassNS ∧ r.state.hi = r.growth.hi ∧
      r.state.hiAdj = r.growth.hiAdj ∧ r.state.cc = r.growth.cc ∧ r.state.ccNS = r.growth.ccNS ∧
      r.state.zRoot = r.growth.zRoot) := fullDay_yields h

/-- **Full day.** A summary row is written exactly on the first day on which the season's end
condition holds (the harvest flag was not yet set), and it repeats the daily values of that day:
dry, fresh and potential yield, the step, and the seasonal irrigation total. -/
theorem full_day_summary_row_repeats_harvest_day {α : Type} [Field α] [LinearOrder α]
    [IsStrictOrderedRing α] {F : Fn α} {T : TrigFn α} {P : DayParams α} {st : DayState' α}
    {D : DayIn' α} {r : DayResult α} (h : fullDay F T P st D = .ok r) :
    (r.summary.isSome = (r.endc && !st.harvestFlag)) ∧
    r.state.harvestFlag = (st.harvestFlag || r.endc) ∧
    r.endc = (decide (0 ≤ D.season) && (r.state.cropMature || r.state.cropDead || D.lastDay)) ∧
    (∀ s, r.summary = some s → s.season = D.season ∧ s.tsc = D.tsc ∧
      s.dryYield = r.growth.dryYield ∧ s.freshYield = r.growth.freshYield ∧
      s.yieldPot = r.growth.yieldPot ∧ s.irrTot = r.irrTot) := fullDay_summary h

/-- **Full day.** The seasonal irrigation total reported is yesterday's counter plus today's
irrigation column (surface irrigation, or net irrigation incl. pre-irrigation under method 4),
and zero outside a season — hence, by induction over the days of a season, the sum of the daily
column. -/
theorem full_day_seasonal_total_step {α : Type} [Field α] [LinearOrder α] [IsStrictOrderedRing α]
    {F : Fn α} {T : TrigFn α} {P : DayParams α} {st : DayState' α} {D : DayIn' α} {r : DayResult α}
    (h : fullDay F T P st D = .ok r) :
    (D.gs = true → P.W.irr.method ≠ 4 →
      r.irrTot = r.state.irrCum ∧ r.irrTot = st.irrCum + r.flux.irrDay) ∧
    (D.gs = true → P.W.irr.method = 4 →
      r.irrTot = r.state.irrNetCum ∧ r.irrTot = st.irrNetCum + r.flux.irrDay) ∧
    (D.gs = false → r.irrTot = 0 ∧ r.flux.irrDay = 0) := fullDay_irrTot h

/-! ### every run (`Proofs/RunLiftSum.lean`) -/

section run
variable {α : Type} [Field α] [LinearOrder α] [IsStrictOrderedRing α]
  {F : Fn α} {T : TrigFn α} {cfg : RunCfg α} {s : RunState α}

/-- **Run level (a).** For every row of the summary table of every reachable state of every run,
the seasonal irrigation `IrrTot` equals the sum of the daily irrigation column of the `water_flux`
table over the rows of that season up to (and including) the row's harvest step.  Premises: a
`Valid` clock, the initial season flags cleared, both initial counters 0.
(Corollary of `run_seasonal_irrigation_is_sum_over_whole_season`: the rows of the same season
*after* the harvest step carry no irrigation, `run_no_growing_day_after_harvest`.) -/
theorem run_seasonal_irrigation_is_sum_of_daily_column (hv : Valid cfg.clock) (hi : InitOK cfg)
    (h0 : InitIrr0 cfg) (hr : RunReach F T cfg s) :
    ∀ x ∈ s.summaryTable,
      x.irrTot = ((s.fluxTable.filter
        (fun f => decide (f.season = x.season) && decide (f.tsc ≤ x.tsc))).map (·.irrDay)).sum :=
  run_summary_irrigation_upto hv hi h0 hr

/-- **Run level (a), whole season.** For every row of the summary table of every reachable state of
every run, the seasonal irrigation `IrrTot` equals the sum of the daily irrigation column of the
`water_flux` table over **all** rows of that season (with the off-season simulated: including the
fallow days between the harvest and the next planting date, which carry the same season counter).
Premises: a `Valid` clock, the initial season flags cleared, both initial counters 0. -/
theorem run_seasonal_irrigation_is_sum_over_whole_season (hv : Valid cfg.clock) (hi : InitOK cfg)
    (h0 : InitIrr0 cfg) (hr : RunReach F T cfg s) :
    ∀ x ∈ s.summaryTable,
      x.irrTot = ((s.fluxTable.filter (fun f => decide (f.season = x.season))).map
        (·.irrDay)).sum :=
  run_summary_irrigation hv hi h0 hr

/-- **Run level (a).** After a season's summary row has been written no later recorded day of that
season is a growing-season day: `growing_season = False`, `IrrDay = 0`, `dap = 0` (both tables),
no transpiration, canopy cover, biomass or yield — nothing that happens after the harvest is
missing from the summary.  Premises: a well-formed clock, the initial season flags cleared. -/
theorem run_no_growing_day_after_harvest (hw : WF cfg.clock) (hi : InitOK cfg)
    (hr : RunReach F T cfg s) :
    ∀ x ∈ s.summaryTable, ∀ d ∈ s.daysRev, d.D.season = x.season → x.tsc < d.D.tsc →
      d.D.gs = false ∧ d.r.flux.irrDay = 0 ∧ d.r.flux.dap = 0 ∧ d.r.growth.dap = 0 ∧
        d.r.flux.tr = 0 ∧ d.r.growth.cc = 0 ∧ d.r.growth.biomass = 0 ∧ d.r.growth.dryYield = 0 ∧
        d.r.growth.freshYield = 0 ∧ d.r.storage.gs = false :=
  Aqua.run_no_growing_day_after_harvest hw hi hr

/-- … in terms of the rows of the `water_flux` table. -/
theorem run_no_irrigation_after_harvest (hw : WF cfg.clock) (hi : InitOK cfg)
    (hr : RunReach F T cfg s) :
    ∀ x ∈ s.summaryTable, ∀ f ∈ s.fluxTable, f.season = x.season → x.tsc < f.tsc →
      f.irrDay = 0 ∧ f.dap = 0 ∧ f.tr = 0 :=
  Aqua.run_no_irrigation_after_harvest hw hi hr

/-- **Run level (b).** Every summary row repeats the yields of the `crop_growth` row of its harvest
step, and that is the only `crop_growth` row with that step. -/
theorem run_summary_row_repeats_harvest_day (hw : WF cfg.clock) (hi : InitOK cfg)
    (hr : RunReach F T cfg s) :
    ∀ x ∈ s.summaryTable,
      (∃ g ∈ s.growthTable, g.season = x.season ∧ g.tsc = x.tsc ∧ x.dryYield = g.dryYield ∧
        x.freshYield = g.freshYield ∧ x.yieldPot = g.yieldPot) ∧
      (∀ g ∈ s.growthTable, g.tsc = x.tsc → g.season = x.season ∧ x.dryYield = g.dryYield ∧
        x.freshYield = g.freshYield ∧ x.yieldPot = g.yieldPot) :=
  fun x hx => ⟨run_summary_yields hr x hx, run_summary_yields_unique hw hi hr x hx⟩

/-- **Run level (c).** The summary rows are in strictly increasing season order (at most one per
season); a season has a row with step `t` exactly when `t` is the first recorded day of that season
on which the end-of-season condition held. -/
theorem run_one_row_per_season_in_order (hw : WF cfg.clock) (hi : InitOK cfg)
    (hr : RunReach F T cfg s) :
    (s.summaryTable.map (·.season)).Pairwise (· < ·) ∧
    ∀ (k : Int) (t : Nat), (∃ x ∈ s.summaryTable, x.season = k ∧ x.tsc = t) ↔
      ∃ d ∈ s.daysRev, d.D.season = k ∧ d.D.tsc = t ∧ d.r.endc = true ∧
        ∀ d' ∈ s.daysRev, d'.D.season = k → d'.r.endc = true → t ≤ d'.D.tsc :=
  ⟨run_summary_rows hw hi hr, run_summary_iff hw hi hr⟩

/-- **Run level (c).** Under a `Valid` clock every season that has been left has its row, written
at the latest on the day before the season's latest harvest date. -/
theorem run_every_completed_season_has_a_row (hv : Valid cfg.clock) (hi : InitOK cfg)
    (hr : RunReach F T cfg s) :
    (∀ k : Nat, (k : Int) < s.season → ∃ x ∈ s.summaryTable, x.season = k) ∧
    (∀ x ∈ s.summaryTable, (x.tsc : Int) + 1 ≤ cfg.clock.hv x.season.toNat) :=
  run_summary_complete hv hi hr

/-- **Run level (d).** The daily identities on every recorded day of every run — no premise. -/
theorem run_daily_yield_identities (hr : RunReach F T cfg s) :
    ∀ d ∈ s.daysRev,
      d.r.growth.yieldPot = (d.r.growth.biomassNS / 100) * d.r.growth.hi ∧
      (d.D.gs = true →
        d.r.growth.dryYield = (d.r.growth.biomass / 100) * d.r.growth.hiAdj ∧
        d.r.growth.freshYield = d.r.growth.dryYield / (d.P.cx.yldWC / 100) ∧
        d.r.growth.biomass = d.st.biomass +
          bioWPadj d.P.cx.bio (natNum d.r.growth.dap) d.r.state.delayedCds d.r.state.hiRef
            d.r.state.pctLagPhase * (d.r.flux.tr / d.D.et0) ∧
        d.r.growth.biomassNS = d.st.biomassNS +
          bioWPadj d.P.cx.bio (natNum d.r.growth.dap) d.r.state.delayedCds d.r.state.hiRef
            d.r.state.pctLagPhase * (d.r.water.trPotNS / d.D.et0)) ∧
      (d.D.gs = false → d.r.growth.dryYield = 0 ∧ d.r.growth.freshYield = 0 ∧
        d.r.growth.yieldPot = 0 ∧ d.r.growth.biomass = 0 ∧ d.r.flux.irrDay = 0) ∧
      (d.r.state.yieldPot = d.r.growth.yieldPot ∧ d.r.state.dryYield = d.r.growth.dryYield ∧
        d.r.state.freshYield = d.r.growth.freshYield ∧ d.r.state.biomass = d.r.growth.biomass ∧
        d.r.state.biomassNS = d.r.growth.biomassNS) :=
  run_daily_identities hr

end run

end Aqua.C06
