import AquaVerif.Model.Effects
import AquaVerif.Generated.EffectTable
/-
Property C10 — runs are deterministic and model instances are isolated.

"Running model A and then model B gives B exactly the results B gives alone … regardless of which
other models were built or run earlier in the same process."

What is proved here is the *static* half: no function reachable from construction, initialisation
or stepping stores into a location of class `global` (module-level objects incl. `crop_params`,
class attributes, mutable default arguments, closure variables), nor into a location the extractor
could not resolve; hence (frame theorem) any sequence of other models leaves `global` unchanged and
a model's result — a function of its own objects and of `global` — does not depend on that sequence.
Hash randomisation, process boundaries and library internals are outside the model; they are covered
by the differential tie (fresh subprocesses / shuffled in-process order).
-/

namespace Aqua.C10
open Aqua.Effects Aqua.Effects.Generated

/-- Global stores that are known and accepted.  The current sources have none, so the statement
below is unconditional.  (Mutable default arguments DO exist — `Soil(dz=[0.1]*12)`,
`GroundWater(dates=[], values=[])`, `InitialWaterContent(depth_layer=[1], value=['FC'])` — and four
of them are retained on instances, see `retainedDefaults`; but nothing ever stores *through* them,
which is what `no_global_writes` and `defaults_not_retained_mutably` establish.) -/
def knownGlobal : List Effect := []

theorem no_global_writes_check :
    (effectTable.all fun e => decide (e.cls ≠ .global ∧ e.cls ≠ .unknown)) = true := by
  decide +kernel

/-- **C10, table form.**  No tabulated store (construction, initialisation, stepping) lands in
process-global state. -/
theorem no_global_writes : ∀ e ∈ effectTable, e.cls ≠ .global :=
  fun e he => (all_of_check no_global_writes_check e he).1

/-- … and none lands in a location the extractor could not resolve (the table is fail-closed:
an unresolved store would appear as `unknown` and break this theorem). -/
theorem no_unresolved_writes : ∀ e ∈ effectTable, e.cls ≠ .unknown :=
  fun e he => (all_of_check no_global_writes_check e he).2

/-- The statement "modulo `knownGlobal`" (trivial while the list is empty; kept so that an accepted
global store can be listed without changing the shape of the proof). -/
theorem no_global_writes_modulo_known :
    ∀ e ∈ effectTable, e.cls = .global → e ∈ knownGlobal :=
  fun e he hg => absurd hg (no_global_writes e he)

/-- A default list that is stored on an instance (`retainedDefaults`: `groundwater.dates`,
`groundwater.values`, `initial_water_content.depth_layer`, `initial_water_content.value`, and —
conservatively — the `dz` column of the soil profile) is never the target of a store: the extractor
maps every store whose access path may reach a default object to that object, lists it in
`storesThroughDefaults` (and, with class `global`, in `effectTable`); the list is empty. -/
theorem defaults_not_retained_mutably : storesThroughDefaults = [] := rfl

/-- Consistency of the two generated lists: a store through a default would be a `global` row. -/
theorem stores_through_defaults_are_global :
    ∀ e ∈ storesThroughDefaults, e ∈ effectTable ∧ e.cls = .global := by
  decide +kernel

/-- **Isolation.**  Let the result of a model be any function `result` of its own objects `own` and
of the global state.  Run any sequence `others` of other models (each a fragment whose stores are
tabulated stores of any region) before it: the result is the one obtained without them. -/
theorem isolated_of_no_global_writes {α β : Type} (result : α → Nat → β) (own : α)
    (others : List (List Write)) (hdrawn : ∀ ws ∈ others, DrawnFromAny effectTable ws) (hp : Heap) :
    result own (execAll others hp .global) = result own (hp .global) := by
  rw [frame_runs_any effectTable .global no_global_writes others hdrawn hp]

/-- The same for the unresolved class: nothing the table cannot account for is touched. -/
theorem unknown_untouched (others : List (List Write))
    (hdrawn : ∀ ws ∈ others, DrawnFromAny effectTable ws) (hp : Heap) :
    execAll others hp .unknown = hp .unknown :=
  frame_runs_any effectTable .unknown no_unresolved_writes others hdrawn hp

/-- Running other models A₁…Aₖ and then B, versus B alone: B's own stores are the same fragment
`b`; the global class seen by B at its start, and after B, is the same in both histories. -/
theorem b_after_a_equals_b_alone (others : List (List Write)) (b : List Write)
    (ho : ∀ ws ∈ others, DrawnFromAny effectTable ws) (hb : DrawnFromAny effectTable b) (hp : Heap) :
    exec b (execAll others hp) .global = exec b hp .global := by
  have h1 : ∀ w ∈ b, w.1 ≠ LocClass.global := by
    intro w hw
    obtain ⟨e, he, hc⟩ := hb w hw
    rw [← hc]; exact no_global_writes e he
  rw [frame b .global h1, frame b .global h1]
  exact frame_runs_any effectTable .global no_global_writes others ho hp

end Aqua.C10
