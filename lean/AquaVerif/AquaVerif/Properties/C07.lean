import AquaVerif.Proofs.Run
import AquaVerif.Proofs.Clock
import AquaVerif.Proofs.RunLiftSum
import AquaVerif.Proofs.ClockCalendar
/-
Property C07 — the simulation calendar is exact.

The clock/season state machine (`Aqua.Clock`, model of `core._perform_timestep`, the control
skeleton of `solution_single_time_step`, `check_model_is_finished`, `update_time` and the
season-start reset) with the biophysics abstracted to an oracle `ev : Nat → Bool × Bool`
(maturity / death declared on a day).  Every theorem is for **every** well-formed configuration
(`WF`, resp. `Valid`), **every** oracle (hence every day function) and **every** reachable state
(hence every way of stepping through the run).  `seasonDates` is the model of the planting /
harvest date set-up of `read_model_parameters`; `seasonDates_valid` shows that whatever it
produces satisfies the premises.
-/

namespace Aqua.C07
open Aqua.Clock Aqua.Calendar

variable {c : Cfg} {ev : Ev} {s : St}

/-- Each calendar day is simulated at most once and in chronological order. -/
theorem each_day_once_in_order (hw : WF c) (hr : Reach c ev s) :
    s.rows.Pairwise (fun a b => a.t < b.t) := rows_increasing hw hr

/-- Days after planting count 1, 2, 3, … without gaps from the season's planting date, and are 0
outside a growing season. -/
theorem dap_counts_from_planting (hw : WF c) (hr : Reach c ev s) :
    ∀ r ∈ s.rows, r.dap = if r.gs then r.t + 1 - c.pl r.season.toNat else 0 := dap_counts hw hr

/-- A growing-season row belongs to a season and lies on or after its planting date. -/
theorem growing_day_in_its_season (hw : WF c) (hr : Reach c ev s) :
    ∀ r ∈ s.rows, r.gs = true → 0 ≤ r.season ∧ c.pl r.season.toNat ≤ r.t := gs_in_season hw hr

/-- Consecutive simulated days are consecutive calendar days, except — only without off-season
simulation — the jump from the day a season's summary row was written to the next planting date. -/
theorem no_skip_except_jump_to_next_planting (hw : WF c) (hr : Reach c ev s) :
    ∀ i (h : i + 1 < s.rows.length), Adj c s.summary s.rows[i] s.rows[i + 1] :=
  offseason_no_skip hw hr

/-- With off-season simulation no day between the start date and the last simulated day is
skipped: the `i`-th row is day `i`. -/
theorem offseason_simulates_every_day (hw : WF c) (hr : Reach c ev s) (hoff : c.offSeason = true) :
    ∀ i (h : i < s.rows.length), s.rows[i].t = i := offseason_all_days hw hr hoff

/-- A season ends (its summary row is written) on the *first* simulated day of that season on
which the crop is mature or dead or the next day is the latest harvest date. -/
theorem season_ends_on_first_end_condition (hw : WF c) (hr : Reach c ev s) (k : Int) (t : Nat) :
    (k, t) ∈ s.summary ↔ FirstEnd s.rows k t := season_ends_first hw hr k t

/-- … where "end condition" means exactly: in a season, and mature ∨ dead ∨ harvest date tomorrow. -/
theorem end_condition_meaning (hw : WF c) (hr : Reach c ev s) :
    ∀ r ∈ s.rows, r.endc = (decide (0 ≤ r.season) && (r.mature || r.dead ||
      decide (c.hv r.season.toNat = (r.t : Int) + 1))) := endc_meaning hw hr

/-- The run always terminates: `n` steps suffice, stepping and running to termination agree. -/
theorem run_terminates (hw : WF c) (ev : Ev) {s₀ : St} (hi : init c = .ok s₀) :
    ∃ s, runSteps c ev c.n s₀ = .ok s ∧ runTill c ev s₀ = .ok s ∧ s.finished = true :=
  terminates hw ev hi

/-- It terminates on the day before the end date or on the harvest day of the last season. -/
theorem terminates_at_end_or_last_harvest (hw : WF c) (hr : Reach c ev s) (hf : s.finished = true) :
    s.t + 2 ≤ c.n ∧ (s.t + 2 = c.n ∨ (c.nSeasons - 1, s.t) ∈ s.summary) ∧
    (∃ r, s.rows.getLast? = some r ∧ r.t = s.t) := finished_state hw hr hf

/-- No Python exception on the way: from every unfinished reachable state the next step succeeds. -/
theorem no_exception_before_termination (hw : WF c) (hr : Reach c ev s) (hf : s.finished = false) :
    ∃ s', perform c ev s = .ok s' := perform_ok hw hr hf

/-- Under the harvest clauses of `Valid`: every season before the current one was harvested, and
never later than its latest harvest date. -/
theorem harvest_not_after_latest_date (hv : Valid c) (hr : Reach c ev s) {k : Int} {t : Nat}
    (h : (k, t) ∈ s.summary) : (t : Int) + 1 ≤ c.hv k.toNat := harvest_by_latest_date hv hr h

/-- A growing day lies strictly before its season's latest harvest date: a row with
`growing_season = True` has `t + 1 ≤ harvest[season]` (the growing-season test is
`planting_date <= day < harvest_date`, repository commit d260679). -/
theorem growing_day_before_latest_harvest_date (hw : WF c) (hr : Reach c ev s) :
    ∀ r ∈ s.rows, r.gs = true → (r.t : Int) + 1 ≤ c.hv r.season.toNat := gs_before_harvest hw hr

/-- No growing day on or after the latest harvest date: a simulated day on or after
`harvest[season]` has `growing_season = False` and `dap = 0`. -/
theorem no_growing_day_on_or_after_latest_harvest_date (hw : WF c) (hr : Reach c ev s) :
    ∀ r ∈ s.rows, c.hv r.season.toNat ≤ (r.t : Int) → r.gs = false ∧ r.dap = 0 :=
  no_growing_day_from_harvest_date hw hr

/-- While the harvest flag of the current season is up, the day about to be simulated is not a
growing day. -/
theorem no_growing_day_while_harvest_flag_up (hw : WF c) (hr : Reach c ev s)
    (hf : s.finished = false) (hfl : s.harvestFlag = true) : gsOf c s = false :=
  no_growing_day_while_flag hw hr hf hfl

/-- After a season has been closed (its summary row `(k, t)` written) no later simulated day of
that season is a growing day — with the off-season simulated, the days from the harvest date to
the next planting date are fallow days (`growing_season = False`, `dap = 0`). -/
theorem no_growing_day_after_season_closed (hw : WF c) (hr : Reach c ev s) {k : Int} {t : Nat}
    (h : (k, t) ∈ s.summary) :
    ∀ r ∈ s.rows, r.season = k → t < r.t → r.gs = false ∧ r.dap = 0 :=
  no_growing_day_after_summary hw hr h

/-- The growing days of a closed season `k` all lie in `[planting k, harvest k)`, at or before the
step of its summary row. -/
theorem growing_days_of_closed_season (hw : WF c) (hr : Reach c ev s) {k : Int} {t : Nat}
    (h : (k, t) ∈ s.summary) :
    ∀ r ∈ s.rows, r.season = k → r.gs = true →
      c.pl k.toNat ≤ r.t ∧ r.t ≤ t ∧ (r.t : Int) + 1 ≤ c.hv k.toNat :=
  growing_days_within_season hw hr h

/-- Whatever the date set-up of `read_model_parameters` produces is a valid clock configuration,
so all of the above holds for every run the implementation can start. -/
theorem date_setup_is_valid {sy sm sd ey em ed pm pd hm hd : Int} {r : Seasons} (off : Bool)
    (h : seasonDates sy sm sd ey em ed pm pd hm hd = .ok r) : Valid (toCfg r off) :=
  seasonDates_valid off h

/-- Seasons begin on the configured planting day of consecutive years, starting with the first
planting date on or after the start date (`SeasonsSpec`). -/
theorem seasons_consecutive_years_from_first_planting {sy sm sd ey em ed pm pd hm hd : Int} {r : Seasons}
    (h : seasonDates sy sm sd ey em ed pm pd hm hd = .ok r) :
    SeasonsSpec sy sm sd ey em ed pm pd hm hd r := seasonDates_spec h


/-! ### real runs refine the clock model -/

/-- **Run level.** Every run of the full model (`Model/Run.lean`: the actual day function
`fullDay` producing the maturity / death flags) is a run of the clock state machine for the
oracle induced by that day function — so every theorem of this file (and of C09, and the summary
part of C06) holds for the full model, not only for the abstract clock. -/
theorem full_model_refines_clock {α : Type} [Field α] [LinearOrder α] [IsStrictOrderedRing α]
    {F : Fn α} {T : TrigFn α} {cfg : RunCfg α} {s : RunState α}
    (hw : WF cfg.clock) (hi : InitOK cfg) (hr : RunReach F T cfg s) :
    ∃ ev : Ev, Reach cfg.clock ev s.clockOf ∧ ∀ d ∈ s.daysRev, ev d.D.tsc = d.events :=
  run_refines_clock hw hi hr

/-- **Run level.** On every run of the full model a recorded growing-season day lies in a season,
on or after its planting date and strictly before its latest harvest date; and after a season's
summary row has been written no later recorded day of that season is a growing-season day
(`growing_season = False`, `dap = 0`, no irrigation, transpiration, canopy, biomass or yield). -/
theorem full_model_no_growing_day_from_harvest_date {α : Type} [Field α] [LinearOrder α]
    [IsStrictOrderedRing α] {F : Fn α} {T : TrigFn α} {cfg : RunCfg α} {s : RunState α}
    (hw : WF cfg.clock) (hi : InitOK cfg) (hr : RunReach F T cfg s) :
    (∀ d ∈ s.daysRev, d.D.gs = true →
      0 ≤ d.D.season ∧ cfg.clock.pl d.D.season.toNat ≤ d.D.tsc ∧
        (d.D.tsc : Int) + 1 ≤ cfg.clock.hv d.D.season.toNat) ∧
    (∀ x ∈ s.summaryTable, ∀ d ∈ s.daysRev, d.D.season = x.season → x.tsc < d.D.tsc →
      FallowDay d) :=
  ⟨run_gs_before_harvest hw hi hr, run_no_growing_day_after_harvest hw hi hr⟩

end Aqua.C07
