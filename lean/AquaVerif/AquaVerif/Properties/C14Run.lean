import AquaVerif.Proofs.RunForcingPrefix
import AquaVerif.Proofs.RunForcingExtend
import AquaVerif.Proofs.RunForcingBind
import AquaVerif.Proofs.RunForcingExample
/-
Property C14, run-level companion file: **no look-ahead on the full run model** (`Model/Run.lean`:
`runModel F T cfg`, the clock driving `fullDay`; `Proofs/RunForcing*.lean`, work package V).
`Properties/C14.lean` states the property for the abstract day loop `runDays` and ties the weather
handling to the code; here the day loop is the modelled `_perform_timestep` itself, the forcing is
everything day-indexed in the configuration (weather rows, water-table depths, irrigation-schedule
entries), and the known exception — thermal-time crops, whose calendar is computed from the whole
season's temperatures — appears as the explicit premise `AgreeBefore.crop`.

For every configuration with a well-formed clock (`WF`) and cleared season flags (`InitOK`), every
`F`, `T`, every number of steps and every day `t₀`.
-/
set_option linter.unusedSectionVars false

namespace Aqua.C14
open Aqua.RunShape

/-! ### the full run model (`Model/Run.lean`, work package V): `runModel` with the biophysics inside -/

section run
open Aqua Aqua.Clock Aqua.WeatherBind
variable {α : Type} [Field α] [LinearOrder α] [IsStrictOrderedRing α]
  {F : Fn α} {T : TrigFn α} {cfg cfg' : RunCfg α} {t₀ : Nat}

/-- **No look-ahead on the full run model.**  `AgreeBefore t₀ cfg cfg'`: same static part and
clock, same forcing (weather row, water-table depth, schedule entries) on every day `t < t₀`, same
crops for the seasons planted before `t₀` — nothing is assumed from day `t₀` on.  The results of
`run_model(num_steps = k)` from the initialised model then have the same day records (parameters,
start state, forcing, complete `DayResult`) for all days before `t₀`, and are the same state while
one of the two clocks is before `t₀`.  Premises: well-formed clock, season flags of the initial
state cleared. -/
theorem run_no_lookahead (hA : AgreeBefore t₀ cfg cfg') (hw : WF cfg.clock) (hi : InitOK cfg)
    {s0 r r' : RunState α} (h0 : runInit cfg = .ok s0) {k : Nat}
    (hrun : runModel F T cfg k s0 = .ok r) (hrun' : runModel F T cfg' k s0 = .ok r') :
    recsBefore t₀ r'.daysRev = recsBefore t₀ r.daysRev ∧ (r.t < t₀ ∨ r'.t < t₀ → r' = r) :=
  run_prefix_determined hA hw hi h0 hrun hrun'

/-- … in terms of the output tables: the rows `time_step_counter < t₀` of `water_storage`,
`water_flux`, `crop_growth` and the summary rows written before `t₀` coincide -/
theorem run_no_lookahead_tables (hA : AgreeBefore t₀ cfg cfg') (hw : WF cfg.clock)
    (hi : InitOK cfg) {s0 r r' : RunState α} (h0 : runInit cfg = .ok s0) {k : Nat}
    (hrun : runModel F T cfg k s0 = .ok r) (hrun' : runModel F T cfg' k s0 = .ok r') :
    r'.storageTable.filter (fun x => decide (x.tsc < t₀)) =
        r.storageTable.filter (fun x => decide (x.tsc < t₀)) ∧
    r'.fluxTable.filter (fun x => decide (x.tsc < t₀)) =
        r.fluxTable.filter (fun x => decide (x.tsc < t₀)) ∧
    r'.growthTable.filter (fun x => decide (x.tsc < t₀)) =
        r.growthTable.filter (fun x => decide (x.tsc < t₀)) ∧
    r'.summaryTable.filter (fun x => decide (x.tsc < t₀)) =
        r.summaryTable.filter (fun x => decide (x.tsc < t₀)) :=
  run_prefix_tables hA hw hi h0 hrun hrun'

/-- **calendar-day crops**: `seasonCrop` is a configuration constant, the only premise on the inputs
is agreement of the forcing before `t₀`.  For thermal-time crops the crop calendar in `seasonCrop k`
is computed at the start of season `k` from the temperatures of the whole season: `AgreeBefore.crop`
(seasons planted before `t₀`) is then a genuine premise, and `thermal_crop_premise_needed` shows
that it cannot be dropped. -/
theorem run_no_lookahead_calendar_crops (hs : StaticEq cfg cfg') (hclk : cfg'.clock = cfg.clock)
    (hd : ∀ t, t < t₀ → DayEq cfg cfg' t) (hc : cfg'.seasonCrop = cfg.seasonCrop)
    (hw : WF cfg.clock) (hi : InitOK cfg) {s0 r r' : RunState α} (h0 : runInit cfg = .ok s0)
    {k : Nat} (hrun : runModel F T cfg k s0 = .ok r) (hrun' : runModel F T cfg' k s0 = .ok r') :
    recsBefore t₀ r'.daysRev = recsBefore t₀ r.daysRev ∧ (r.t < t₀ ∨ r'.t < t₀ → r' = r) :=
  run_prefix_determined_calendar hs hclk hd hc hw hi h0 hrun hrun'

/-- while the first run has not reached day `t₀`, the second run exists and is in the same state -/
theorem run_same_state_before (hA : AgreeBefore t₀ cfg cfg') (hw : WF cfg.clock) (hi : InitOK cfg)
    {s0 r : RunState α} (h0 : runInit cfg = .ok s0) {k : Nat}
    (hrun : runModel F T cfg k s0 = .ok r) (ht : r.t < t₀) : runModel F T cfg' k s0 = .ok r :=
  run_prefix_exists_model hA hw hi h0 hrun ht

/-- the state in which day `t₀` starts is the same too, if the season planted on day `t₀` (if any)
has the same crop -/
theorem run_same_state_at (hA : AgreeBefore t₀ cfg cfg') (hw : WF cfg.clock) (hi : InitOK cfg)
    (hc0 : ∀ n, cfg.clock.pl n = t₀ → cfg'.seasonCrop n = cfg.seasonCrop n)
    {s s' : RunState α} (hr : RunReach F T cfg s) (hr' : RunReach F T cfg' s')
    (hlen : s.daysRev.length = s'.daysRev.length)
    (h : (s.t = t₀ ∧ s.finished = false) ∨ (s'.t = t₀ ∧ s'.finished = false)) : s' = s :=
  reach_state_at hA hw hi hc0 hr hr' hlen h

/-- model-level witness that the crop premise is needed (the look-ahead of thermal-time crops) -/
theorem thermal_crop_premise_needed :
    ∃ (cfg cfg' : RunCfg ℚ), StaticEq cfg cfg' ∧ cfg'.clock = cfg.clock ∧ WF cfg.clock ∧
      InitOK cfg ∧ (∀ t, DayEq cfg cfg' t) ∧ (∀ n, n ≠ 0 → cfg'.seasonCrop n = cfg.seasonCrop n) ∧
      ∃ s0 r r', runInit cfg = .ok s0 ∧
        runModel DayExample.Fq FullDayExample.Tq cfg 2 s0 = .ok r ∧
        runModel DayExample.Fq FullDayExample.Tq cfg' 2 s0 = .ok r' ∧
        r'.growthTable.filter (fun x => decide (x.tsc < 2)) ≠
          r.growthTable.filter (fun x => decide (x.tsc < 2)) :=
  ⟨_, _, RunForcingExample.crop_premise_needed.1, RunForcingExample.crop_premise_needed.2.1,
    RunForcingExample.wf2, RunForcingExample.initOK2, RunForcingExample.crop_premise_needed.2.2.1,
    RunForcingExample.crop_premise_needed.2.2.2.1, RunForcingExample.crop_premise_needed.2.2.2.2⟩

/-- **Weather outside the window is irrelevant** (no premise on the clock): the run reads the
forcing of the days `t < n − 1` only — not even the last row of the window. -/
theorem run_outside_window_irrelevant (h : AgreeInWindow cfg cfg') (k : Nat) (s : RunState α)
    (ht : s.t + 2 ≤ cfg.clock.n) : runModel F T cfg' k s = runModel F T cfg k s :=
  run_weather_outside_window h k s ht

/-- **Extending the end date** (`ExtendEnd`: `n ≤ n'`, planting / harvest lists extended, every
new planting index `≥ n − 1`, same forcing on the days `t < n − 1`, same crops for the old seasons):
the tables of the old run — every day up to its last one, every summary row — are prefixes of the
tables of the new run. -/
theorem run_extension_keeps_completed_days (hX : ExtendEnd cfg cfg') (hw : WF cfg.clock)
    (hi : InitOK cfg) {s0 r r' : RunState α} (h0 : runInit cfg = .ok s0) {k k' : Nat} (hk : k ≤ k')
    (hrun : runModel F T cfg k s0 = .ok r) (hrun' : runModel F T cfg' k' s0 = .ok r') :
    r.storageTable <+: r'.storageTable ∧ r.fluxTable <+: r'.fluxTable ∧
      r.growthTable <+: r'.growthTable ∧ r.summaryTable <+: r'.summaryTable :=
  run_extend_end hX hw hi h0 hk hrun hrun'

/-- … and while the old run is unfinished the two runs are in the same state -/
theorem run_extension_same_state (hX : ExtendEnd cfg cfg') (hw : WF cfg.clock) (hi : InitOK cfg)
    {s0 r : RunState α} (h0 : runInit cfg = .ok s0) {k : Nat}
    (hrun : runModel F T cfg k s0 = .ok r) (hf : r.finished = false) :
    runModel F T cfg' k s0 = .ok r :=
  run_extend_end_unfinished hX hw hi h0 hrun hf

/-- **No look-ahead through the implementation's own weather handling, on the full run model**:
two tables that agree on their first `j` rows, set-up succeeding on both -/
theorem run_no_lookahead_tables_input {ι ι' : Type} (cfg : RunCfg α) (dflt : Weather α)
    (hw : WF cfg.clock) (hi : InitOK cfg) (s e : Int) (j : Nat) {t : WTable α ι} {t' : WTable α ι'}
    {c c' : List (WCell α)} (hd : sel "Date" t.cols = [c]) (hd' : sel "Date" t'.cols = [c'])
    (hview : ∀ n ∈ required, (sel n t.cols).map (List.take j) = (sel n t'.cols).map (List.take j))
    {m m' : List (List (WCell α))} (hm : weatherMatrix s e t = .ok m)
    (hm' : weatherMatrix s e t' = .ok m') {s0 r r' : RunState α}
    (h0 : runInit (cfgOfMatrix cfg dflt m) = .ok s0) {k : Nat}
    (hrun : runModel F T (cfgOfMatrix cfg dflt m) k s0 = .ok r)
    (hrun' : runModel F T (cfgOfMatrix cfg dflt m') k s0 = .ok r') :
    recsBefore (((c.take j).map (inWin s e)).count true) r'.daysRev =
        recsBefore (((c.take j).map (inWin s e)).count true) r.daysRev ∧
      (r.t < ((c.take j).map (inWin s e)).count true ∨
        r'.t < ((c.take j).map (inWin s e)).count true → r' = r) :=
  run_table_prefix cfg dflt hw hi s e j hd hd' hview hm hm' h0 hrun hrun'

end run

end Aqua.C14
