import AquaVerif.Proofs.SoilTexture
import AquaVerif.Generated.SoilTable
import AquaVerif.Proofs.SoilBuild
import AquaVerif.Proofs.InitWC
import AquaVerif.Proofs.GwSeries
/-
Property C18 — soil profile and initial water content built as specified.

What is modelled: `Soil.create_df` / `add_layer` / `fill_nan` and the profile-deepening loop of
`compute_variables` (`Model/SoilBuild.lean`: `buildGeometry`, `assignLayers(G)`, `deepen`,
`refreshFrom`, `soilProfile`), the initial water content of `read_model_initial_conditions`
(`Model/InitWC.lean`: `initWC`, `interp` = `np.interp`), and the water-table series of
`read_groundwater_table` that the initial field-capacity adjustment reads (`Model/GwSeries.lean`).
Geometry is in whole centimetres (`Nat`; every thickness is rounded to 2 decimals by the code);
hydraulic values and water contents live in an arbitrary linearly ordered field `α`.

What is quantified over: **every** list of compartment thicknesses, **every** list of layer
thicknesses / layer specifications, **every** rooting depth (loop condition `more`), every fuel;
**every** initial-water-content type (`Num`/`Pct`/`Prop`) and method (`Layer`/`Depth`) and every
list of data points; the table of the 15 built-in soils (17 layers) row by row.  Premises that the
code does not enforce are explicit (`hydraulic_order_of_spec`: the caller's `0 < wp < fc ≤ s`).

`mid_stale_after_deepen` is a **counter-statement**: the model-level witness of the recorded
defect that `zBot/z_top/zMid` are not recomputed after the profile has been deepened; the clause
"tops and mid-depths consistent" therefore holds *as built* (`mid_consistent_as_built`) but not
after deepening.  Not covered in Lean: the pedotransfer inequalities of texture-based layers (tie
only).

Only theorems live here (lemmas: `Proofs/SoilBuild.lean`, `Proofs/InitWC.lean`,
`Proofs/GwSeries.lean`).
-/

set_option linter.unusedSectionVars false
set_option linter.unusedVariables false
namespace Aqua.C18
open Aqua

/-! ## Geometry -/

/-- Compartment bottoms are the running sum of the thicknesses (as built by `create_df`). -/
theorem dzsum_is_running_sum (dz : List Nat) (i : Nat) (h : i < (buildGeometry dz).length) :
    ((buildGeometry dz)[i]).dzsum = sumNat (dz.take (i + 1)) := dzsum_is_prefix_sum dz i h

/-- … and after `fill_nan` on a deepened profile they are again the running sum of the *current*
thicknesses. -/
theorem dzsum_is_running_sum_after_deepening (acc : Nat) (gs : List GComp) (dz : List Nat)
    (h : gs.length = dz.length) :
    (refreshFrom acc gs dz).map (·.dzsum) = prefixSums acc dz ∧
      (refreshFrom acc gs dz).map (·.dz) = dz := refreshFrom_dzsum acc gs dz h

/-- As built, tops, bottoms and mid-depths are consistent with the running sums:
`zBot = dzsum`, `z_top = dzsum − dz`, `2·zMid = 2·dzsum − dz`. -/
theorem mid_consistent_as_built (dz : List Nat) (g : GComp) (h : g ∈ buildGeometry dz) :
    g.zBot = g.dzsum ∧ g.zTop = g.dzsum - g.dz ∧ g.zMid2 = g.mid2 :=
  Aqua.mid_consistent_as_built dz g h

/-- The same in metres over any ordered field: `zMid = (z_top + zBot)/2 = dzsum − dz/2`. -/
theorem mid_consistent_as_built_metres {α : Type} [Field α] [LinearOrder α]
    [IsStrictOrderedRing α] (dz : List Nat) (g : GComp) (h : g ∈ buildGeometry dz) :
    (toMetres g : GeoM α).zBot = (toMetres g : GeoM α).dzsum ∧
    (toMetres g : GeoM α).zTop = (toMetres g : GeoM α).dzsum - (toMetres g : GeoM α).dz ∧
    (toMetres g : GeoM α).zMid = (toMetres g : GeoM α).dzsum - (toMetres g : GeoM α).dz / 2 :=
  Aqua.mid_consistent_as_built_metres dz g h

/-- COUNTER-STATEMENT (recorded defect): there is a profile and a rooting depth for which, after
deepening, a compartment's stored mid-depth and bottom differ from the ones its thickness and
running sum imply (2 × 10 cm, crop needing 30 cm: stored `zMid` 15 cm, real 20 cm). -/
theorem mid_stale_after_deepen :
    ∃ (dz dz' : List Nat) (k : Nat),
      deepen (fun c => decide (c < 30)) 8 dz 0 = .ok (dz', k) ∧
      ∃ g ∈ refreshFrom 0 (buildGeometry dz) dz', g.zMid2 ≠ g.mid2 ∧ g.zBot ≠ g.dzsum :=
  Aqua.mid_stale_after_deepen

/-- `fill_nan` never touches `zBot`/`z_top`: after deepening they are still those of the initial
geometry (the mechanism behind the counter-statement). -/
theorem tops_and_bottoms_not_recomputed (acc : Nat) (gs : List GComp) (dz : List Nat)
    (h : gs.length = dz.length) :
    (refreshFrom acc gs dz).map (fun g => (g.zBot, g.zTop)) = gs.map (fun g => (g.zBot, g.zTop)) :=
  refreshFrom_stale acc gs dz h

/-! ## Layers -/

/-- Layers are contiguous from the surface and cover all compartments: whenever the layer
assignment succeeds every compartment has a layer and the layer numbers form a staircase
`1,…,1,2,…,2,…,k`. -/
theorem layers_contiguous (dz thick : List Nat) (ls : List Nat)
    (h : assignLayers ((buildGeometry dz).map (·.dzsum)) thick = .ok ls) :
    ls.length = dz.length ∧ ∃ k, Stair 0 k ls := Aqua.layers_contiguous dz thick ls h

/-- Elementwise reading: the first compartment is in layer 1 and going down the layer number
stays or rises by exactly one. -/
theorem layers_contiguous_elementwise (dz thick : List Nat) (ls : List Nat)
    (h : assignLayers ((buildGeometry dz).map (·.dzsum)) thick = .ok ls) :
    ls.length = dz.length ∧ (∀ x ∈ ls.head?, x = 1) ∧
      List.IsChain (fun a b => b = a ∨ b = a + 1) ls :=
  Aqua.layers_contiguous_elementwise dz thick ls h

/-- The same for any pair of depth comparisons antitone in the bottom (covers the floating-point
comparison the implementation actually performs). -/
theorem layers_contiguous_for_any_antitone_comparison {τ : Type} (ge1 : τ → Nat → Bool)
    (ge2 : τ → Nat → Nat → Bool) (h1 : ∀ t, Anti (ge1 t)) (h2 : ∀ t l, Anti (ge2 t l))
    (ss : List Nat) (hs : Mono ss) (ts : List τ) (r : List (Nat × Nat))
    (h : assignLayersG ge1 ge2 ss ts = .ok r) :
    r.length = ss.length ∧ ∃ k, Stair 0 k (r.map Prod.fst) :=
  layers_contiguous_general ge1 ge2 h1 h2 ss hs ts r h

/-! ## Hydraulic values -/

/-- The 17 layers of the 15 built-in soils: air-dry < wilting point < field capacity ≤ saturation
(< 1), drainage coefficient in [0,1], positive conductivity, `th_dry = th_wp/2`. -/
theorem hydraulic_order_builtin : ∀ l ∈ builtinLayers, LayerOK l := hydraulic_order

section field
variable {α : Type} [Field α] [LinearOrder α] [IsStrictOrderedRing α]

/-- A compartment inherits `0 < th_dry < th_wp < th_fc ≤ th_s` and `tau ∈ [0,1]` from the
`add_layer` call that captured it — PROVIDED the call's arguments satisfy `0 < wp < fc ≤ s`
(`add_layer` validates nothing: explicit premise). -/
theorem hydraulic_order_of_spec {τ : Type} (F : Fn α) (specs : List (LayerSpec α τ)) (c : Comp α)
    (lk : Nat × Nat) (h : CompOf F specs c lk)
    (hspec : ∀ k sp, nthSpec specs k = some sp → 0 < sp.wp ∧ sp.wp < sp.fc ∧ sp.fc ≤ sp.s) :
    0 < c.thDry ∧ c.thDry < c.thWP ∧ c.thWP < c.thFC ∧ c.thFC ≤ c.thS ∧ 0 ≤ c.tau ∧ c.tau ≤ 1 :=
  Aqua.hydraulic_order_of_spec F specs c lk h hspec

/-- The drainage coefficient lies in [0,1] whatever `Ksat` and whatever `pow`/`round` do. -/
theorem tau_in_unit_interval (F : Fn α) (ksat : α) : 0 ≤ tauOf F ksat ∧ tauOf F ksat ≤ 1 :=
  tauOf_bounds F ksat

/-! ## Deepening -/

/-- When the profile is deepened every compartment keeps its layer and its layer's hydraulic
properties: in every profile the builder returns, layer numbers and hydraulic values are those
assigned on the *initial* geometry. -/
theorem deepen_keeps_layer_properties {τ : Type} (F : Fn α) (ge1 : τ → Nat → Bool)
    (ge2 : τ → Nat → Nat → Bool) (more : Nat → Bool) (fuel : Nat) (dz : List Nat)
    (specs : List (LayerSpec α τ)) (wt adjRew calcCN : Bool) (rew zSurf cn zTopArg : α)
    (o : SoilOut α)
    (h : soilProfile F ge1 ge2 more fuel dz specs wt adjRew calcCN rew zSurf cn zTopArg = .ok o) :
    ∃ lay, assignLayersG ge1 ge2 ((buildGeometry dz).map (·.dzsum)) (specs.map (·.thick)) = .ok lay ∧
      o.call = lay.map Prod.snd ∧ HydMatch F specs o.comps lay :=
  deepen_keeps_layers F ge1 ge2 more fuel dz specs wt adjRew calcCN rew zSurf cn zTopArg o h

/-- When the deepening succeeds the profile ends at least 10 cm below the crop's maximum rooting
depth (`Zmax` a whole number of centimetres, exact comparison). -/
theorem deepen_reaches_below_zmax (zmaxCm fuel : Nat) (dz dz' : List Nat) (k k' : Nat)
    (h : deepen (moreOf (cmToM zmaxCm : α)) fuel dz k = .ok (dz', k')) :
    zmaxCm + 10 ≤ sumNat dz' := deepen_reaches_cm zmaxCm fuel dz dz' k k' h

/-- General form: on success the loop condition is false at the final depth, the number of
compartments is unchanged, the depth grew by exactly 10 cm per step and did not overshoot. -/
theorem deepen_result (more : Nat → Bool) (fuel : Nat) (dz dz' : List Nat) (k k' : Nat)
    (h : deepen more fuel dz k = .ok (dz', k')) :
    more (sumNat dz') = false ∧ dz'.length = dz.length ∧ k ≤ k' ∧
      sumNat dz' = sumNat dz + 10 * (k' - k) ∧ (k < k' → more (sumNat dz' - 10) = true) :=
  deepen_reaches more fuel dz dz' k k' h

/-- On a non-empty profile the deepening loop always ends (loop condition false from some depth
`T` on, fuel covering the distance) — for every list of thicknesses, incl. all ≥ 25 cm. -/
theorem deepen_terminates (more : Nat → Bool) (T : Nat) (hT : ∀ c, T ≤ c → more c = false)
    (fuel : Nat) (dz : List Nat) (k : Nat) (hne : dz ≠ []) (hf : T ≤ sumNat dz + 10 * fuel) :
    ∃ dz' k', deepen more fuel dz k = .ok (dz', k') :=
  Aqua.deepen_terminates more T hT fuel dz k hne hf

/-- In centimetres: it ends whenever `Zmax + 10 ≤ zSoil + 10·fuel`, at least 10 cm and (if it
had to deepen) less than 20 cm below `Zmax`. -/
theorem deepen_terminates_just_below_zmax (zmaxCm fuel : Nat) (dz : List Nat) (k : Nat)
    (hne : dz ≠ []) (hf : zmaxCm + 10 ≤ sumNat dz + 10 * fuel) :
    ∃ dz' k', deepen (moreOf (cmToM zmaxCm : α)) fuel dz k = .ok (dz', k') ∧
      zmaxCm + 10 ≤ sumNat dz' ∧ (k < k' → sumNat dz' < zmaxCm + 20) :=
  deepen_terminates_cm zmaxCm fuel dz k hne hf

/-- Geometry of a successfully built profile: it ends where the loop condition is false, has as
many compartments as given, `dzsum` is the running sum of the final `dz`, the depth grew by 10 cm
per step — and `zBot`/`z_top` are still those of the initial geometry. -/
theorem built_profile_geometry {τ : Type} (F : Fn α) (ge1 : τ → Nat → Bool)
    (ge2 : τ → Nat → Nat → Bool) (more : Nat → Bool) (fuel : Nat) (dz : List Nat)
    (specs : List (LayerSpec α τ)) (wt adjRew calcCN : Bool) (rew zSurf cn zTopArg : α)
    (o : SoilOut α)
    (h : soilProfile F ge1 ge2 more fuel dz specs wt adjRew calcCN rew zSurf cn zTopArg = .ok o) :
    more o.zSoil = false ∧ o.geo.length = dz.length ∧
      o.geo.map (·.dzsum) = prefixSums 0 (o.geo.map (·.dz)) ∧
      o.zSoil = sumNat (o.geo.map (·.dz)) ∧ o.zSoil = sumNat dz + 10 * o.steps ∧
      o.geo.map (fun g => (g.zBot, g.zTop)) = (buildGeometry dz).map (fun g => (g.zBot, g.zTop)) :=
  soilProfile_geometry F ge1 ge2 more fuel dz specs wt adjRew calcCN rew zSurf cn zTopArg o h

/-! ## Initial water content -/

/-- `Layer` method, no water table: every compartment receives the value of its layer's data
point (the last one naming the layer; 0 when none does). -/
theorem iwc_layer_value (F : Fn α) (cs : List (Comp α)) (zgw zSoil : α) (ty : WcType)
    (pts : List (WcPoint α)) (vals : List α) (o : InitOut α)
    (hv : pointValues ty .layer cs pts = .ok vals)
    (h : initWC F cs false zgw zSoil ty .layer pts = .ok o) :
    o.th = cs.map (fun c => layerValue c.layer ((pts.map (·.lay)).zip vals) 0) ∧
      o.wtInSoil = false ∧ o.fcAdjInit = cs.map (·.thFC) :=
  iwc_layer F cs zgw zSoil ty pts vals o hv h

/-- `Prop` type: a layer named by the data point starts at the requested property (wilting
point, field capacity or saturation of that layer). -/
theorem iwc_layer_property (F : Fn α) (cs : List (Comp α)) (zgw zSoil : α) (p : WcPoint α)
    (wp fc s : α) (o : InitOut α) (hex : ∃ c ∈ cs, c.layer = p.lay)
    (hconst : ∀ c ∈ cs, c.layer = p.lay → c.thWP = wp ∧ c.thFC = fc ∧ c.thS = s)
    (h : initWC F cs false zgw zSoil .prop .layer [p] = .ok o) :
    o.th = cs.map (fun c => if c.layer = p.lay then
      (match p.prop with | .sat => s | .fc => fc | .wp => wp | .other => 0) else 0) :=
  iwc_layer_prop F cs zgw zSoil p wp fc s o hex hconst h

/-- `Pct` type: the layer starts at `th_wp + pct/100·(th_fc − th_wp)`. -/
theorem iwc_layer_percentage (F : Fn α) (cs : List (Comp α)) (zgw zSoil : α) (p : WcPoint α)
    (wp fc s : α) (o : InitOut α) (hex : ∃ c ∈ cs, c.layer = p.lay)
    (hconst : ∀ c ∈ cs, c.layer = p.lay → c.thWP = wp ∧ c.thFC = fc ∧ c.thS = s)
    (h : initWC F cs false zgw zSoil .pct .layer [p] = .ok o) :
    o.th = cs.map (fun c => if c.layer = p.lay then wp + p.num / 100 * (fc - wp) else 0) :=
  iwc_layer_pct F cs zgw zSoil p wp fc s o hex hconst h

/-- `Num` type: the value of a data point is the given number (either method). -/
theorem iwc_numeric_value (me : WcMethod) (cs : List (Comp α)) (p : WcPoint α) :
    pointValue .num me cs p = .ok p.num := pointValue_num me cs p

/-- `Depth` method, no water table: the water content of every compartment is `np.interp` of the
(padded) data points at the compartment mid-depth computed from `dzsum`. -/
theorem iwc_depth_is_interpolation (F : Fn α) (cs : List (Comp α)) (zgw zSoil : α) (ty : WcType)
    (pts : List (WcPoint α)) (o : InitOut α)
    (h : initWC F cs false zgw zSoil ty .depth pts = .ok o) :
    ∃ vals padded, pointValues ty .depth cs pts = .ok vals ∧
      padPoints zSoil ((pts.map (·.depth)).zip vals) = some padded ∧
      o.th.map some = (compMid cs).map (fun x => interp x padded) :=
  iwc_depth_is_interp F cs zgw zSoil ty pts o h

/-- The padding holds the first value up to the surface and the last value down to the bottom. -/
theorem iwc_depth_padding_single_point (zSoil d v : α) (hd : 0 < d) (hz : d < zSoil) :
    padPoints zSoil [(d, v)] = some [(0, v), (d, v), (zSoil, v)] := padPoints_single zSoil d v hd hz

/-- `interp`: left of the first data point the first value is returned. -/
theorem interp_left_of_first (x : α) (p : α × α) (ps : List (α × α)) (h : x < p.1) :
    interp x (p :: ps) = some p.2 := interp_left x p ps h

/-- `interp`: between two consecutive data points the result is the straight line through them
(exactly the left value at the left point). -/
theorem interp_linear_between (x : α) (pre post : List (α × α)) (a b : α × α)
    (hpre : ∀ p ∈ pre, p.1 ≤ x) (ha : a.1 ≤ x) (hb : x < b.1) :
    interp x (pre ++ a :: b :: post) =
      some (if x ≤ a.1 then a.2 else (b.2 - a.2) / (b.1 - a.1) * (x - a.1) + a.2) :=
  interp_between x pre post a b hpre ha hb

/-- `interp`: at a data point the data value is returned. -/
theorem interp_exact_at_points (pre post : List (α × α)) (a b : α × α)
    (hpre : ∀ p ∈ pre, p.1 ≤ a.1) (hb : a.1 < b.1) :
    interp a.1 (pre ++ a :: b :: post) = some a.2 := interp_at_point pre post a b hpre hb

/-- `interp`: right of (or at) the last data point the last value is held. -/
theorem interp_right_of_last (x : α) (pre : List (α × α)) (a : α × α)
    (hpre : ∀ p ∈ pre, p.1 ≤ x) (ha : a.1 ≤ x) : interp x (pre ++ [a]) = some a.2 :=
  interp_right x pre a hpre ha

/-- The interpolated value stays between the two neighbouring data values. -/
theorem interp_within_neighbouring_values (x : α) (a b : α × α) (ha : a.1 ≤ x) (hb : x < b.1) :
    min a.2 b.2 ≤ (b.2 - a.2) / (b.1 - a.1) * (x - a.1) + a.2 ∧
    (b.2 - a.2) / (b.1 - a.1) * (x - a.1) + a.2 ≤ max a.2 b.2 :=
  interp_between_bounds x a b ha hb

/-! ## The water-table series read by the initial adjustment -/

/-- A single observation gives a constant series (either method). -/
theorem gw_single_observation_constant (n : Nat) (me : GwMethod) (d : Int) (v : α) :
    gwSeries n me [(d, v)] = .ok (List.replicate n (some v)) := gw_single n me d v

/-- "Constant" method: on day `i` the depth is that of the last row dated on or before `i`. -/
theorem gw_constant_is_step_function (i : Int) (first : Bool) (pre post : List (Int × α)) (d : Int)
    (v : α) (cur : Option α) (hd : d ≤ i) (hpost : ∀ q ∈ post, i < q.1) :
    gwConstAt i first (pre ++ (d, v) :: post) cur = some v :=
  gw_constant i first pre post d v cur hd hpost

/-- "Variable" method: on an observation day inside the simulation the series has exactly the
observed depth. -/
theorem gw_variable_exact_at_observations (n : Nat) (pre post : List (Int × α)) (d : Nat) (v : α)
    (hd : d < n) (hpost : ∀ q ∈ post, q.1 ≠ Int.ofNat d) :
    (gwVariable n (pre ++ (Int.ofNat d, v) :: post))[d]? = some (some v) :=
  gw_variable_at_obs n pre post d v hd hpost

/-- "Variable" method: between two consecutive observations (each the last row of its date, no row
dated strictly between them) the series is linear in time, wherever the two are dated. -/
theorem gw_variable_linear_in_gaps (n : Nat) (obs pre0 post0 pre1 post1 : List (Int × α))
    (d0 d1 : Int) (v0 v1 : α) (i : Nat) (hi : i < n)
    (e0 : obs = pre0 ++ (d0, v0) :: post0) (hpost0 : ∀ q ∈ post0, q.1 ≠ d0)
    (e1 : obs = pre1 ++ (d1, v1) :: post1) (hpost1 : ∀ q ∈ post1, q.1 ≠ d1)
    (hno : ∀ q ∈ obs, ¬ (d0 < q.1 ∧ q.1 < d1)) (h0 : d0 ≤ Int.ofNat i) (h1 : Int.ofNat i < d1) :
    (gwVariable n obs)[i]? =
      some (some ((v1 - v0) / ((d1 - d0 : Int) : α) * ((Int.ofNat i - d0 : Int) : α) + v0)) :=
  gw_variable_between n obs pre0 post0 pre1 post1 d0 d1 v0 v1 i hi e0 hpost0 e1 hpost1 hno h0 h1

end field

/-! ## Texture-based layers (work package U) -/

section texture
variable {α : Type} [Field α] [LinearOrder α] [IsStrictOrderedRing α]

/-- A layer added with `add_layer_from_texture` satisfies the premise of `hydraulic_order_of_spec`:
for sand and clay percentages in the texture triangle with clay ≤ 50 %, organic matter ≤ 8 % and
(organic matter ≥ 1 % or clay ≥ 3 %) the pedotransfer method does not raise and hands `add_layer` values with
`0 < th_wp < th_fc ≤ th_s < 1`, `0 < Ksat` (laws of `F`: `round` within 1/2 and sign-preserving,
`log` monotone, `x ** y ≥ x³` for `0 < x ≤ 1`, `y ≤ 3`; all three hold for the reals,
`Proofs/SoilTextureReal.lean`). -/
theorem texture_layer_hydraulic_order {τ : Type} {F : Fn α} (hR : TexRoundLaws F)
    (hL : TexLogPowLaws F) (t : τ) {sp cp om : α} (pen : α) (hs : 0 ≤ sp) (hc : 0 ≤ cp)
    (hsc : sp + cp ≤ 100) (hc5 : cp ≤ 50) (ho0 : 0 ≤ om) (ho8 : om ≤ 8) (ho1 : 1 ≤ om ∨ 3 ≤ cp) :
    ∃ L : LayerSpec α τ, layerFromTexture F t sp cp om pen = .ok L ∧
      0 < L.wp ∧ L.wp < L.fc ∧ L.fc ≤ L.s ∧ L.s < 1 ∧ 0 < L.ksat :=
  layerFromTexture_spec_ok hR hL t pen hs hc hsc hc5 ho0 ho8 ho1

/-- The same for the method itself, for every density factor in [0.9, 1]. -/
theorem texture_hydraulic_order {F : Fn α} (hR : TexRoundLaws F) (hL : TexLogPowLaws F)
    {s c om df : α} (h : TexRegion s c om) (hc5 : c ≤ 0.5) (ho1 : 1 ≤ om ∨ 0.03 ≤ c) (hd0 : 0.9 ≤ df)
    (hd1 : df ≤ 1) :
    ∃ wp fc ts k, hydraulicFromTexture F s c om df = .ok (wp, fc, ts, k) ∧
      0 < wp ∧ wp < fc ∧ fc < ts ∧ ts < 1 ∧ 0 < k :=
  texture_order_region_df hR hL h hc5 ho1 hd0 hd1

/-- Up to clay 60 % when organic matter ≤ 3 % (default density factor; `Ksat ≥ 0` only). -/
theorem texture_hydraulic_order_clay60 {F : Fn α} (hR : TexRoundLaws F) (hP : TexPowLaws F)
    {s c om : α} (h : TexRegion s c om) (hc6 : c ≤ 0.6) (ho1 : 1 ≤ om ∨ 0.03 ≤ c) (ho3 : om ≤ 3) :
    ∃ wp fc ts k, hydraulicFromTexture F s c om 1 = .ok (wp, fc, ts, k) ∧
      0 < wp ∧ wp < fc ∧ fc < ts ∧ ts < 1 ∧ 0 ≤ k :=
  texture_order_region_om3 hR hP h hc6 ho1 ho3

/-- COUNTER-STATEMENT: inside the range the pedotransfer functions were calibrated on (clay ≤ 60 %,
organic matter ≤ 8 %) the order fails — sand 40 %, clay 60 %, organic matter 8 % has `th_s < th_fc`,
and `add_layer_from_texture` raises `ValueError` (whatever `log`, `**`, `round` are). -/
theorem texture_order_fails_in_calibrated_range (F : Fn α) :
    (texRaw (0.4 : α) 0.6 8 1).thS < (texRaw (0.4 : α) 0.6 8 1).thFC ∧
      hydraulicFromTexture F (0.4 : α) 0.6 8 1 = .error "E:value" :=
  ⟨order_fails_40_60_8, raises_40_60_8 F⟩

/-- COUNTER-STATEMENT: in the texture triangle the method can return a wilting point ABOVE field
capacity without raising (pure clay, 8 % organic matter: 0.507 > 0.386 on the real method). -/
theorem texture_returns_wp_above_fc {F : Fn α} (hR : TexRoundLaws F) :
    ∃ wp fc ts k, hydraulicFromTexture F (0 : α) 1 8 1 = .ok (wp, fc, ts, k) ∧ fc < wp :=
  returns_disordered_0_100_8 hR

/-- COUNTER-STATEMENT: pure sand without organic matter has `th_wp < 0`; the method raises. -/
theorem texture_raises_on_pure_sand (F : Fn α) :
    hydraulicFromTexture F (1 : α) 0 0 1 = .error "E:value" := raises_pure_sand F

/-- The 12 USDA class centroids (organic matter 2.5 %) are well ordered with positive `Ksat`. -/
theorem usda_centroids_ordered {F : Fn α} (hR : TexRoundLaws F) (hL : TexLogPowLaws F) :
    ∀ c ∈ usdaCentroids, ∃ wp fc ts k,
      hydraulicFromTexture F ((c.1 : α) / 100) ((c.2 : α) / 100) 2.5 1 = .ok (wp, fc, ts, k) ∧
        0 < wp ∧ wp < fc ∧ fc < ts ∧ ts < 1 ∧ 0 < k := centroid_order hR hL

/-- The capillary-rise `if` tree is total: the pair written is always the pair of formulas of the
class the tree selects; the `assert`s fail exactly when a class formula itself evaluates to 0. -/
theorem cap_rise_tree_total (F : Fn α) (w f s k : α) :
    crParams F w f s k =
      if (crOfClass F k (crBranch w f s k).2).1 = 0 ∨ (crOfClass F k (crBranch w f s k).2).2 = 0 then none
      else some (crOfClass F k (crBranch w f s k).2) := crParams_eq_branch F w f s k

/-- `aCR` vanishes (and `assert aCR != 0` aborts the initialisation) only for a loamy layer with
`Ksat = 5540` or a silty-clayey one with `Ksat = 795.75` mm/day. -/
theorem cap_rise_aCR_zero_cases (F : Fn α) (cls : CrClass) {k : α} (hk : 0 ≤ k)
    (h : (crOfClass F k cls).1 = 0) : (cls = .loamy ∧ k = 5540) ∨ (cls = .siltyClayey ∧ k = 795.75) :=
  crA_zero_cases F cls hk h

end texture

/-- By exact computation over ℚ (exact half-even rounding): the polynomial part of the method gives
for the 12 centroids exactly the thousandths the real method returns (table cross-checked against the
implementation by `harness/tests/corr_soil_texture.py`). -/
theorem usda_centroids_exact : centroidTable.all centroidRowOK = true := centroid_table

/-- Tie to the source, re-proved on every run: no layer of a built-in soil, as /repo's `soil.py` builds
them now, can trip `assert aCR != 0` when a water table is present. -/
theorem builtin_soils_aCR_nonzero (F : Fn ℚ) : ∀ l ∈ Aqua.Generated.builtinLayersGen,
    (crOfClass F l.ksat (crBranch l.wp l.fc l.s l.ksat).2).1 ≠ 0 := by
  have hall : (Aqua.Generated.builtinLayersGen.all fun l =>
      decide (0 ≤ l.ksat ∧ l.ksat ≠ 5540 ∧ l.ksat ≠ 795.75)) = true := by decide +kernel
  intro l hl h
  have hh := List.all_eq_true.mp hall l hl
  simp only [decide_eq_true_eq] at hh
  rcases crA_zero_cases F _ hh.1 h with ⟨_, e⟩ | ⟨_, e⟩
  · exact hh.2.1 e
  · exact hh.2.2 e

/-- Tie to the source, re-proved on every run: the layers of the built-in soils as /repo's
`soil.py` builds them now (table regenerated by `harness/translate/tables.py`) all satisfy
air-dry < wilting point < field capacity ≤ saturation, drainage coefficient in [0,1]. -/
theorem hydraulic_order_builtin_from_source : ∀ l ∈ Aqua.Generated.builtinLayersGen, LayerOK l :=
  Aqua.Generated.builtinLayersGen_ok

end Aqua.C18
