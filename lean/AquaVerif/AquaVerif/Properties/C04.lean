import AquaVerif.Proofs.CatalogueCfg
import AquaVerif.Proofs.RunClosedEs
import AquaVerif.Proofs.Day
import AquaVerif.Proofs.WaterDay
/-
Property C04 — fluxes are non-negative and actual never exceeds potential.

What is modelled: the water processes and their composition `waterDay` (see
`Properties/C01.lean`).  What is quantified over: an arbitrary linearly ordered field, every `Fn`,
profile, parameter record, state, day input and `CropDay`; statements are about successful calls.

Premises that cannot be dropped, and why (each is explicit in the statement):

* `EsPot ≥ 0` needs `EsPotPre` / `DayEsPre`: `Kex, ET0 ≥ 0`, mulch reduction `≤ 1`, wetted
  fraction `≥ 0`, and — the substantive one — the micro-advection-adjusted canopy cover
  `CCadj ≤ 1` in season while the withered-canopy branch is off.  `CCadj` is produced by the
  (unmodelled) canopy step, so it is an argument here; the converse
  `espot_negative_when_adjusted_cover_exceeds_one` shows the premise is sharp (`CCadj > 1` is what
  `1.72c − c² + 0.3c³` gives for `c > 0.966`).
* `0 ≤ Es ≤ EsPot` then needs only `0 ≤ EsPot`.
* `Tr ≤ TrPot` needs `0 ≤ TrPot` (no lemma derives the sign of `TrPot` from the crop
  coefficients: `Kcb` after ageing/CO₂ and `CCadj` are arguments); `0 ≤ Tr` needs in addition the
  premises under which every sink is non-negative (`DayTrPre`, see `Properties/C03.lean`) and the
  integrality of `LagAer` (`LagAerIntegral`).
* `IrrNet ≥ −2·ε·comp_sto` where `ε` bounds the 2-decimal rounding inside `root_zone_water`
  (`ε = 0.005` for real rounding, i.e. 0.01 mm per compartment): the refill trigger compares
  rounded sums, the refill adds exact ones.  Needs both roundings of the root depth to agree.
* deep percolation `≥ 0` needs the invariant on the incoming profile (`DayPre`) and `1 ≤ exp x`
  for `x ≥ 0`; capillary rise `≥ 0` needs `0 < exp x`.
Only theorems live here; lemmas are in `Proofs/`.
-/

set_option linter.unusedSectionVars false
namespace Aqua.C04
open Aqua
variable {α : Type} [Field α] [LinearOrder α] [IsStrictOrderedRing α]

/-! ### the processes -/

/-- Irrigation depth is never negative — no premise on the parameters. -/
theorem irr_nonneg {F : Fn α} {P : IrrParams α} {cells : List (Cell α)} {st : Nat}
    {irrCum ePot tPot zRoot : α} {dap : Nat} {sched : Option α} {zMin aer zTop rain runoff : α}
    {gs : Bool} {out : IrrOut α}
    (h : irrigation F P cells st irrCum ePot tPot zRoot dap sched zMin aer zTop gs rain runoff
      = .ok out) : 0 ≤ out.irr :=
  Aqua.irr_nonneg h

/-- Runoff of the rain partition is never negative (non-negative rain; curve number in `(0,100]`
where the SCS split runs; law `x ** 2 = x · x` for the `term ** 2` of the SCS formula), and the
runoff `infiltration` adds is never negative (non-negative ponding, `Ksat ≥ 0`). -/
theorem runoff_nonneg {F : Fn α} (hF : PowSqLaw F) {p : α} {cells : List (Cell α)} {daySub : Nat}
    {srInhb bunds : Bool} {zBund pct soilCN zCN : α} {adjCN : Bool} {r : RainOut α}
    (h : rainPartition F p cells daySub srInhb bunds zBund pct soilCN adjCN zCN = some r)
    (hp : 0 ≤ p)
    (hcn : (srInhb = false ∧ (bunds = false ∨ zBund < 0.001)) → 0 < r.cn ∧ r.cn ≤ 100)
    {cells' : List (Cell α)} {pond irr appEff dp0 : α} {gs : Bool} {out : InfOut α}
    (h' : infiltration F cells' pond r.infl irr appEff bunds zBund dp0 r.runoff gs = .ok out)
    (hpond : 0 ≤ pond) (hk : ∀ c ∈ cells', 0 ≤ c.c.ksat) :
    0 ≤ r.runoff ∧ 0 ≤ out.runoffTot := by
  have h1 := (rainPartition_bounds hF h hp hcn).1
  have h2 := infiltration_runoff_nonneg h' hpond hk
  exact ⟨h1, by linarith⟩

/-- Deep percolation of drainage is never negative (premises: `1 ≤ exp x` for `x ≥ 0`,
`DrainPre`), and infiltration adds a non-negative amount to it when `FluxOut ≤ Ksat` on entry. -/
theorem deepperc_nonneg (F : Fn α) (E : ExpLaws F) (cells : List (Cell α))
    (h : ∀ x ∈ cells, DrainPre x)
    {pond infl irr appEff zBund ro0 : α} {bunds gs : Bool} {out : InfOut α}
    (h' : infiltration F (drainage F cells).cells pond infl irr appEff bunds zBund
      (drainage F cells).deepPerc ro0 gs = .ok out) :
    0 ≤ (drainage F cells).deepPerc ∧ 0 ≤ out.deepPerc := by
  have h1 := drainage_deepPerc_nonneg F E cells h
  have hinv := Aqua.drainage_inv F E cells h
  have hfl := drainage_flux_le_ksat F cells (fun x hx => (h x hx).inv.wf.ksat_nn)
  have h2 := infiltration_deepPerc_nonneg h' (fun c hc => ⟨(hinv c hc).wf, hfl c hc⟩)
  exact ⟨h1, by linarith⟩

/-- Capillary rise is never negative (premises: `0 < exp x`, positive thicknesses). -/
theorem cr_nonneg (F : Fn α) (hE : GwExpLaws F) (cells : List (Cell α)) (nLayer : Nat)
    (fshape zGW : α) (wt : Nat) (r : CROut α) (hdz : ∀ x ∈ cells, 0 < x.c.dz)
    (h : capillaryRise F cells nLayer fshape zGW wt = .ok r) : 0 ≤ r.crTot :=
  (capillaryRise_nonneg F hE cells nLayer fshape zGW wt r hdz h).1

/-- Groundwater inflow is never negative (thicknesses `≥ 0`). -/
theorem gwin_nonneg (cells : List (Cell α)) (wt : Bool) (zGW : α) (r : List (Cell α) × α)
    (hdz : ∀ x ∈ cells, 0 ≤ x.c.dz) (h : groundwaterInflow cells wt zGW = some r) : 0 ≤ r.2 :=
  groundwaterInflow_nonneg cells wt zGW r hdz h

/-- Potential soil evaporation is non-negative **under `EsPotPre`** (in particular `CCadj ≤ 1`
in season while the withered-canopy branch is off). -/
theorem espot_nonneg (F : Fn α) (P : EvapParams α) (S : EvapState α) (cells : List (Cell α))
    (D : EvapDay α) (out : EvapOut α) (h : soilEvaporation F P S cells D = .ok out)
    (hdz : ∀ x ∈ cells, 0 < x.c.dz) (pre : EsPotPre P S D) : 0 ≤ out.esPot :=
  soilEvap_esPot_nonneg F P S cells D out h hdz pre

/-- The premise is sharp: an adjusted canopy cover above 1 (in season, before senescence, no
mulch, no premature senescence, no irrigation, positive `Kex` and `ET0`) makes the potential soil
evaporation strictly negative. -/
theorem espot_negative_when_adjusted_cover_exceeds_one (F : Fn α) (P : EvapParams α)
    (S : EvapState α) (cells : List (Cell α)) (D : EvapDay α) (out : EvapOut α)
    (h : soilEvaporation F P S cells D = .ok out) (hdz : ∀ x ∈ cells, 0 < x.c.dz)
    (hg : D.growingSeason = true) (hsen : ¬ SenActive P S (tAdjOf P S))
    (hpm : S.prematSenes = false) (hmu : P.mulches = false) (hirr : D.irr ≤ 0)
    (hk : 0 < P.kex) (he : 0 < D.et0) (hcc : 1 < S.ccAdj) : out.esPot < 0 :=
  soilEvap_esPot_neg_of_ccAdj_gt_one F P S cells D out h hdz hg hsen hpm hmu hirr hk he hcc

/-- Actual soil evaporation lies between 0 and the potential, given `0 ≤ EsPot`. -/
theorem es_bounds (F : Fn α) (P : EvapParams α) (S : EvapState α) (cells : List (Cell α))
    (D : EvapDay α) (out : EvapOut α) (h : soilEvaporation F P S cells D = .ok out)
    (hdz : ∀ x ∈ cells, 0 < x.c.dz) (hpot : 0 ≤ out.esPot) :
    0 ≤ out.esAct ∧ out.esAct ≤ out.esPot :=
  ⟨soilEvap_esAct_nonneg F P S cells D out h hdz hpot,
   soilEvap_esAct_le_esPot F P S cells D out h hdz hpot⟩

/-- Actual transpiration never exceeds potential transpiration, given `0 ≤ TrPot` (no law about
`exp`, `log`, `pow` or rounding is needed). -/
theorem tr_le_trpot {F : Fn α} {cells : List (Cell α)} {nComp : Nat} {zTop : α}
    {crop : TrCrop α} {m : Nat} {smt : α} {st : TrState α} {et0 cur ref gdd : α} {gs : Bool}
    {out : TrOut α} (hdz : ∀ x ∈ cells, 0 < x.c.dz) (hds : 0 ≤ st.daySubmerged)
    (h : transpiration F cells nComp zTop crop m smt st et0 cur ref gs gdd = .ok out)
    (hp : 0 ≤ out.trPot0) : out.trAct ≤ out.trPot0 :=
  transp_trAct_le_trPot0 hdz hds h hp

/-- Actual transpiration is non-negative, given `0 ≤ TrPot` and the premises under which every
sink is non-negative. -/
theorem tr_nonneg {F : Fn α} {cells : List (Cell α)} {nComp : Nat} {zTop : α}
    {crop : TrCrop α} {m : Nat} {smt : α} {st : TrState α} {et0 cur ref gdd : α} {gs : Bool}
    {out : TrOut α} (hgeo : TrGeom 0 cells) (haer : ∀ x ∈ cells, 0 ≤ x.aer)
    (hsxT : 0 ≤ crop.sxTop) (hsxB : 0 ≤ crop.sxBot) (hrc : 0 ≤ st.rCor)
    (hrd : 0 < trRootdepth F crop st) (hds : 0 ≤ st.daySubmerged)
    (hint : st.daySubmerged < crop.lagAer → st.daySubmerged + 1 ≤ crop.lagAer)
    (h : transpiration F cells nComp zTop crop m smt st et0 cur ref gs gdd = .ok out)
    (hp : 0 ≤ out.trPot0) : 0 ≤ out.trAct :=
  (transp_trAct_nonneg hgeo haer hsxT hsxB hrc hrd hds hint h hp).1

/-- The net-irrigation requirement is at least `−2·ε·comp_sto`, `ε` a bound on the 2-decimal
rounding of the root-zone bookkeeping. -/
theorem irrnet_lower {F : Fn α} {cells : List (Cell α)} {nComp : Nat} {zTop : α}
    {crop : TrCrop α} {m : Nat} {smt : α} {st : TrState α} {et0 cur ref gdd : α} {gs : Bool}
    {out : TrOut α} (wp fc : Nat → α) (ε : α) (hε : ∀ v, |F.round2 v - v| ≤ ε)
    (hround : F.round2 (pmax st.zRoot crop.zMin) = F.pyRound2 (pmax st.zRoot crop.zMin))
    (hgeo : TrGeom 0 cells) (hrd : 0 < trRootdepth F crop st) (hn : cells.length ≤ nComp)
    (hnet : m = 4 → 0 ≤ smt ∧ smt ≤ 100 ∧ TrLayersOK wp fc 0 cells)
    (h : transpiration F cells nComp zTop crop m smt st et0 cur ref gs gdd = .ok out) :
    -(2 * ε * out.compSto) ≤ out.irrNet :=
  transp_irrNet_lower wp fc ε hε hround hgeo hrd hn hnet h

/-- Outside a growing season transpiration, potential transpiration and net irrigation are zero,
and so is the irrigation depth (with the seasonal counter reset). -/
theorem offseason_zero {F : Fn α} {cells : List (Cell α)} {nComp : Nat} {zTop : α}
    {crop : TrCrop α} {m : Nat} {smt : α} {st : TrState α} {et0 cur ref gdd : α} {out : TrOut α}
    (h : transpiration F cells nComp zTop crop m smt st et0 cur ref false gdd = .ok out)
    {P : IrrParams α} {cells' : List (Cell α)} {stage : Nat} {irrCum ePot tPot zRoot : α}
    {dap : Nat} {sched : Option α} {zMin aer rain runoff : α} {io : IrrOut α}
    (h' : irrigation F P cells' stage irrCum ePot tPot zRoot dap sched zMin aer zTop false rain
      runoff = .ok io) :
    out.trAct = 0 ∧ out.trPot0 = 0 ∧ out.irrNet = 0 ∧ io.irr = 0 ∧ io.irrCum = 0 := by
  obtain ⟨t1, t2, _, t4, _, _⟩ := transp_offseason h
  obtain ⟨i1, i2, _, _⟩ := irr_offseason h'
  exact ⟨t1, t2, t4, i1, i2⟩

/-! ### the whole day -/

variable {F : Fn α} {W : WaterParams α} {fm : FieldMngt α} {C : CropDay α}
  {cells : List (Cell α)} {S : DayState α} {D : DayIn α} {out : DayOut α}

/-- The day's irrigation depth is never negative; hence the row's irrigation column is
non-negative whenever it reports it (every mode but net irrigation); rainfed and net-irrigation
modes apply nothing at the surface. -/
theorem day_irr_nonneg (h : waterDay F W fm C cells S D = .ok out) :
    0 ≤ out.irr ∧ (W.irr.method ≠ 4 → 0 ≤ out.irrDay) ∧
      (W.irr.method = 0 ∨ W.irr.method = 4 → out.irr = 0) :=
  waterDay_irr_nonneg h

/-- Reported runoff is never negative (`DayPre`, non-negative rain, curve number in `(0,100]`). -/
theorem day_runoff_nonneg (h : waterDay F W fm C cells S D = .ok out) (hP : DayPre F W cells S)
    (hrain : 0 ≤ D.rain) (hcn : ScsRuns fm → 0 < out.cn ∧ out.cn ≤ 100) : 0 ≤ out.runoff :=
  (waterDay_runoff_bounds h hP hrain hcn).1

/-- Reported deep percolation (drainage + infiltration) is never negative (`DayPre`). -/
theorem day_deepperc_nonneg (h : waterDay F W fm C cells S D = .ok out)
    (hP : DayPre F W cells S) : 0 ≤ out.deepPerc :=
  waterDay_deepPerc_nonneg h hP

/-- Reported capillary rise is never negative (`0 < exp x`, positive thicknesses). -/
theorem day_cr_nonneg (h : waterDay F W fm C cells S D = .ok out) (hE : GwExpLaws F)
    (hdz : ∀ x ∈ cells, 0 < x.c.dz) : 0 ≤ out.cr :=
  waterDay_cr_nonneg h hE hdz

/-- Reported groundwater inflow is never negative (positive thicknesses). -/
theorem day_gwin_nonneg (h : waterDay F W fm C cells S D = .ok out)
    (hdz : ∀ x ∈ cells, 0 < x.c.dz) : 0 ≤ out.gwIn :=
  waterDay_gwIn_nonneg h hdz

/-- Under `DayEsPre` (the day's form of `EsPotPre`, on inputs only) potential soil evaporation is
non-negative and actual soil evaporation lies between 0 and it. -/
theorem day_es_bounds (h : waterDay F W fm C cells S D = .ok out)
    (hdz : ∀ x ∈ cells, 0 < x.c.dz) (hp : DayEsPre W fm C D) :
    0 ≤ out.esPot ∧ 0 ≤ out.es ∧ out.es ≤ out.esPot :=
  waterDay_es_bounds h hdz hp

/-- … and whenever the reported `EsPot` is non-negative, `0 ≤ Es ≤ EsPot` — no other premise. -/
theorem day_es_bounds_of_espot_nonneg (h : waterDay F W fm C cells S D = .ok out)
    (hdz : ∀ x ∈ cells, 0 < x.c.dz) (hp : 0 ≤ out.esPot) : 0 ≤ out.es ∧ out.es ≤ out.esPot :=
  waterDay_es_bounds' h hdz hp

/-- Whenever the reported `TrPot` is non-negative, actual transpiration does not exceed it; and it
is non-negative under `DayTrPre` and an integral `LagAer`. -/
theorem day_tr_bounds (h : waterDay F W fm C cells S D = .ok out)
    (hdz : ∀ x ∈ cells, 0 < x.c.dz) (hp : 0 ≤ out.trPot) :
    out.tr ≤ out.trPot ∧
      (∀ wp fc : Nat → α, DayTrPre F W C cells wp fc → LagAerIntegral W → 0 ≤ out.tr) :=
  ⟨waterDay_tr_le h hdz hp, fun wp fc hT hl => waterDay_tr_nonneg h hdz wp fc hT hl hp⟩

/-- The day's net-irrigation requirement is at least `−2·ε·comp_sto` (see the header). -/
theorem day_irrnet_lower (h : waterDay F W fm C cells S D = .ok out)
    (hdz : ∀ x ∈ cells, 0 < x.c.dz) (wp fc : Nat → α) (hT : DayTrPre F W C cells wp fc)
    (hsmt : W.irr.method = 4 → 0 ≤ W.netIrrSMT ∧ W.netIrrSMT ≤ 100)
    (ε : α) (hε : ∀ v, |F.round2 v - v| ≤ ε)
    (hround : F.round2 (pmax C.zRoot W.crop.tr.zMin) = F.pyRound2 (pmax C.zRoot W.crop.tr.zMin))
    (hn : cells.length ≤ W.soil.nComp) : -(2 * ε * out.compSto) ≤ out.irrNet :=
  waterDay_irrNet_lower h hdz wp fc hT hsmt ε hε hround hn

/-- **Outside a growing season** the day's transpiration, potential transpiration and irrigation
(row column, applied depth, net requirement, pre-irrigation) are all zero — no premise. -/
theorem day_offseason_zero (h : waterDay F W fm C cells S D = .ok out) (hg : D.gs = false) :
    out.tr = 0 ∧ out.trPot = 0 ∧ out.irrDay = 0 ∧ out.irr = 0 ∧ out.irrNet = 0 ∧
      out.preIrr = 0 :=
  waterDay_offseason h hg

/-! ### non-vacuity -/

/-- the concrete day of `Proofs/WaterDay.lean` satisfies `DayEsPre`, `DayTrPre` and the
integrality of `LagAer` (= 3), with strictly positive evaporation and transpiration -/
example : ∃ out, waterDay DayExample.Fq DayExample.Wq DayExample.fmq DayExample.Cq
      DayExample.cellsq DayExample.Sq DayExample.Dq = .ok out ∧
    0 < out.es ∧ out.es ≤ out.esPot ∧ 0 < out.tr ∧ out.tr ≤ out.trPot ∧ 0 ≤ out.cr := by
  obtain ⟨out, h, _, _, _, _, hes, htr, _, _, hpot⟩ := DayExample.runs
  have hdz : ∀ x ∈ DayExample.cellsq, 0 < x.c.dz :=
    fun x hx => (DayExample.cells_pre x hx).inv.wf.dz_pos
  have he := day_es_bounds h hdz DayExample.dayEsPre
  have hp : 0 ≤ out.trPot := hpot.le
  exact ⟨out, h, hes, he.2.2, htr, (day_tr_bounds h hdz hp).1,
    day_cr_nonneg h DayExample.Fq_gw.1 hdz⟩


/-! ### the full day -/

/-- **Full day.** Outside a growing season transpiration, potential transpiration, irrigation and
days-after-planting of the emitted rows are zero, and so are canopy, biomass, harvest indices and
yields (`Model/Day.lean`, tied by the `full_day` replay). -/
theorem full_day_offseason_zero {α : Type} [Field α] [LinearOrder α] [IsStrictOrderedRing α]
    {F : Fn α} {T : TrigFn α} {P : DayParams α} {st : DayState' α} {D : DayIn' α} {r : DayResult α}
    (h : fullDay F T P st D = .ok r) (hg : D.gs = false) :
    (r.flux.tr = 0 ∧ r.flux.trPot = 0 ∧ r.flux.irrDay = 0 ∧ r.flux.dap = 0) ∧
    (r.growth.dap = 0 ∧ r.growth.gdd = 0.3 ∧ r.growth.gddCum = 0 ∧ r.growth.zRoot = 0 ∧
      r.growth.cc = 0 ∧ r.growth.ccNS = 0 ∧ r.growth.biomass = 0 ∧ r.growth.biomassNS = 0 ∧
      r.growth.hi = 0 ∧ r.growth.hiAdj = 0 ∧ r.growth.dryYield = 0 ∧ r.growth.freshYield = 0 ∧
      r.growth.yieldPot = 0) ∧
    (r.state.germination = false ∧ r.state.delayedCds = 0 ∧ r.state.delayedGdds = 0 ∧
      r.state.growthStage = 0 ∧ r.state.hiRef = 0 ∧ r.state.ccAdj = 0 ∧ r.state.ccxAct = 0 ∧
      r.state.ccxW = 0 ∧ r.state.irrNetCum = r.water.preIrr ∧ r.state.rCor = st.rCor) :=
  fullDay_offseason_zero h hg

/-! ### run level, per-day premises discharged (`Proofs/RunClosed*.lean`) -/

section closed
variable {α : Type} [Field α] [LinearOrder α] [IsStrictOrderedRing α]

/-- **Run level, closed.** On every simulated day of every run: `0 ≤ EsPot`, `0 ≤ Es ≤ EsPot`,
`0 ≤ TrPot`, `0 ≤ Tr ≤ TrPot`, deep percolation / capillary rise / groundwater inflow /
irrigation ≥ 0, ponding within the bunds. -/
theorem run_flux_closed {F : Fn α} {T : TrigFn α} {cfg : RunCfg α} {s : RunState α} {A : α}
    (hC : CfgOK F T cfg) (hT : CfgTrOK F cfg A) (hJ : CfgRwOK F cfg) (hE : CfgEsOK cfg)
    (hW : WeatherOK F cfg) (hr : RunReach F T cfg s) (hR : ∀ d ∈ s.daysRev, ResidualW d) :
    ∀ d ∈ s.daysRev,
      (0 ≤ d.r.flux.esPot ∧ 0 ≤ d.r.flux.es ∧ d.r.flux.es ≤ d.r.flux.esPot) ∧
      (0 ≤ d.r.flux.trPot ∧ 0 ≤ d.r.flux.tr ∧ d.r.flux.tr ≤ d.r.flux.trPot) ∧
      (0 ≤ d.r.flux.deepPerc ∧ 0 ≤ d.r.flux.cr ∧ 0 ≤ d.r.flux.gwIn ∧ 0 ≤ d.r.water.irr ∧
        (d.P.W.irr.method ≠ 4 → 0 ≤ d.r.flux.irrDay)) ∧
      (0 ≤ d.r.state.pond ∧
        (d.P.fm.bunds = false ∨ d.P.fm.zBund ≤ 0.001 → d.r.state.pond = 0) ∧
        (d.P.fm.bunds = true → d.st.pond ≤ d.P.fm.zBund → d.r.state.pond ≤ d.P.fm.zBund)) :=
  Aqua.run_flux_closed hC hT hJ hE hW hr hR
end closed

/-! ### run level, catalogue configurations (`Proofs/Catalogue*.lean`): every hypothesis is membership in a table
regenerated from the sources, a fact about initialisation outputs, or a premise on the weather -/

section catalogueRun
open Aqua.Response Aqua.HarvestIndexReal

/-- **Run level, catalogue configurations.** `0 ≤ Es ≤ EsPot`, `0 ≤ Tr ≤ TrPot`, non-negative deep
percolation / capillary rise / groundwater inflow / irrigation, ponding within the bunds, on every
simulated day of every run of every catalogue configuration with `ET0 > 0`. -/
theorem catalogue_run_flux {cfg : RunCfg ℝ} {s : RunState ℝ} (h : CatCfg cfg)
    (het : ∀ t, 0 < (cfg.weather t).et0) (hr : RunReach realFn realTrig cfg s)
    (hR : ∀ d ∈ s.daysRev, ResidualW d) :
    ∀ d ∈ s.daysRev,
      (0 ≤ d.r.flux.esPot ∧ 0 ≤ d.r.flux.es ∧ d.r.flux.es ≤ d.r.flux.esPot) ∧
      (0 ≤ d.r.flux.trPot ∧ 0 ≤ d.r.flux.tr ∧ d.r.flux.tr ≤ d.r.flux.trPot) ∧
      (0 ≤ d.r.flux.deepPerc ∧ 0 ≤ d.r.flux.cr ∧ 0 ≤ d.r.flux.gwIn ∧ 0 ≤ d.r.water.irr ∧
        (d.P.W.irr.method ≠ 4 → 0 ≤ d.r.flux.irrDay)) ∧
      (0 ≤ d.r.state.pond ∧
        (d.P.fm.bunds = false ∨ d.P.fm.zBund ≤ 0.001 → d.r.state.pond = 0) ∧
        (d.P.fm.bunds = true → d.st.pond ≤ d.P.fm.zBund → d.r.state.pond ≤ d.P.fm.zBund)) :=
  Aqua.catalogue_run_flux h het hr hR
end catalogueRun

end Aqua.C04
