import AquaVerif.Proofs.RunForcingBind
/-
Property C15, run-level companion file: **the binding of the weather table, followed through to the
run** (`Proofs/RunForcingBind.lean`, work package V).  `Properties/C15.lean` proves that
`weatherMatrix` (the implementation's `read_weather_inputs` + matrix line, `Model/WeatherBind.lean`)
is invariant under column permutation, extra columns, re-indexing and extra out-of-window rows;
here the matrix is what `RunCfg.weather` is read from (`cfgOfMatrix`: day `t` ↦
`dayVars (dayRow m t)`), so the invariance is an equality of whole runs of `runModel`.
-/
set_option linter.unusedSectionVars false

namespace Aqua.C15
open Aqua.RunShape

/-! ### the full run model (`Model/Run.lean`, work package V): from the table to `runModel` -/

section run
open Aqua Aqua.Clock Aqua.WeatherBind
variable {α : Type} [Field α] [LinearOrder α] [IsStrictOrderedRing α]
  {F : Fn α} {T : TrigFn α} {ι ι' : Type}

/-- **Binding invariance of the whole run.**  `runOfTable` = `weatherMatrix` (`read_weather_inputs`
+ the matrix line of `_initialize`), `runInit`, `run_model(num_steps = k)`, the day `t` reading
`dayVars (dayRow m t)`.  Two tables on which the set-up computes the same thing (`SameBinding`:
obtained from `impl_perm_columns`, `impl_extra_columns`, `impl_reindex`,
`C14.impl_outside_window_irrelevant` and chains of them) give the same outcome: the same set-up
error, the same run error, or the same final state with every day record. -/
theorem run_invariant_under_rebinding (cfg : RunCfg α) (dflt : Weather α) {s e : Int}
    {t : WTable α ι} {t' : WTable α ι'} (h : SameBinding s e t t') (k : Nat) :
    runOfTable F T cfg dflt s e t' k = runOfTable F T cfg dflt s e t k :=
  Aqua.run_binding_invariant cfg dflt h k

theorem run_perm_columns (cfg : RunCfg α) (dflt : Weather α) (s e : Int) (t : WTable α ι)
    (t' : WTable α ι') (hp : t.cols.Perm t'.cols) (hnd : (t.cols.map (·.1)).Nodup) (k : Nat) :
    runOfTable F T cfg dflt s e t' k = runOfTable F T cfg dflt s e t k :=
  Aqua.run_binding_invariant cfg dflt (sameBinding_perm_columns s e t t' hp hnd) k

theorem run_extra_columns (cfg : RunCfg α) (dflt : Weather α) (s e : Int)
    (pre extra post : List (String × List (WCell α))) (idx : List ι) (idx' : List ι')
    (hx : ∀ c ∈ extra, c.1 ∉ required) (k : Nat) :
    runOfTable F T cfg dflt s e ({ cols := pre ++ extra ++ post, index := idx } : WTable α ι) k =
      runOfTable F T cfg dflt s e ({ cols := pre ++ post, index := idx' } : WTable α ι') k :=
  Aqua.run_binding_invariant cfg dflt (sameBinding_extra_columns s e pre extra post idx idx' hx) k

theorem run_reindex (cfg : RunCfg α) (dflt : Weather α) (s e : Int) (t : WTable α ι)
    (idx' : List ι') (k : Nat) :
    runOfTable F T cfg dflt s e ({ cols := t.cols, index := idx' } : WTable α ι') k =
      runOfTable F T cfg dflt s e t k :=
  Aqua.run_binding_invariant cfg dflt (sameBinding_reindex s e t idx') k

theorem run_extra_rows (cfg : RunCfg α) (dflt : Weather α) (s e : Int) (t : WTable α ι)
    (t' : WTable α ι') (m : List Bool)
    (hview : ∀ n ∈ required, sel n t.cols = (sel n t'.cols).map (keep m))
    (hout : ∀ c ∈ sel "Date" t'.cols, Forall2 (fun b x => b = false → Outside s e x) m c)
    (hfirst : dateEdgeTest false (fun d => decide (s < d)) t' =
              dateEdgeTest false (fun d => decide (s < d)) t)
    (hlast : dateEdgeTest true (fun d => decide (d < e)) t' =
             dateEdgeTest true (fun d => decide (d < e)) t) (k : Nat) :
    runOfTable F T cfg dflt s e t' k = runOfTable F T cfg dflt s e t k :=
  Aqua.run_binding_invariant cfg dflt (sameBinding_extra_rows s e t t' m hview hout hfirst hlast) k

/-- the day reads row `t` of the matrix: its first four cells are `MinTemp`, `MaxTemp`,
`Precipitation`, `ReferenceET` of day `t` (that row `t` is the row dated `start + t` is
`impl_rows_by_date`, under its premises) -/
theorem run_reads_row (cfg : RunCfg α) (dflt : Weather α) {m : List (List (WCell α))} {t : Nat} {a b c d : α}
    {rest : List (WCell α)} (h : m[t]? = some (.num a :: .num b :: .num c :: .num d :: rest)) :
    (cfgOfMatrix cfg dflt m).weather t = { tmin := a, tmax := b, rain := c, et0 := d } :=
  weatherOfMatrix_row dflt h

/-- `RunCfg.weather` is total; where the Python would raise (missing row, short row, non-numeric
cell) the model has the value `dflt` — which is never observed when the rows `t < n − 1` are there -/
theorem run_default_never_observed (cfg : RunCfg α) {m : List (List (WCell α))}
    (hm : MatrixOK m cfg.clock.n) (d1 d2 : Weather α) (k : Nat) :
    (runInit (cfgOfMatrix cfg d2 m)).bind (runModel F T (cfgOfMatrix cfg d2 m) k) =
      (runInit (cfgOfMatrix cfg d1 m)).bind (runModel F T (cfgOfMatrix cfg d1 m) k) :=
  run_default_irrelevant cfg hm d1 d2 k

end run

end Aqua.C15
