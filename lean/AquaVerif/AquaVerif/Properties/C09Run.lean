import AquaVerif.Proofs.RunForcingSteps
/-
Property C09, run-level companion file: step-wise execution equals one uninterrupted run on the
**full run model** (`Model/Run.lean`: `runModel F T cfg`, the clock driving `fullDay`), for every
configuration, every `F`, `T` and every list of step counts (`Proofs/RunForcingSteps.lean`, work
package V).  A separate file because inside `Properties/C09.lean` (namespace `Aqua.C09`,
`open Aqua.Clock`) the name `runModel` would become ambiguous between `Aqua.runModel` and
`Aqua.Clock.runModel` once the run model is imported.

The state `RunState` carries the clock, the state object and every day record (hence the three
daily tables and the summary), so equality of states is equality of all observable outputs.
-/
set_option linter.unusedSectionVars false

namespace Aqua.C09

/-! ### the full run model (`Model/Run.lean`, work package V): `runModel F T cfg` with the biophysics inside -/

section run
open Aqua
variable {α : Type} [Field α] [LinearOrder α] [IsStrictOrderedRing α]
  {F : Fn α} {T : TrigFn α} {cfg : RunCfg α}

/-- two calls equal one call with the sum of the step counts, as long as the first did not end the
simulation -/
theorem run_steps_compose {a b : Nat} {s s1 : RunState α}
    (h1 : runStepsR F T cfg a s = .ok s1) (hf : s1.finished = false) :
    runStepsR F T cfg (a + b) s = runStepsR F T cfg b s1 := runStepsR_add' h1 hf

/-- `run_model(num_steps = a + b)` = the call with `a` steps, then — unless it ended the simulation
— the call with `b` steps (all outcomes, errors included) -/
theorem run_two_calls {a b : Nat} (ha : 1 ≤ a) (hb : 1 ≤ b) (s : RunState α) :
    runModel F T cfg (a + b) s =
      (runModel F T cfg a s).bind
        (fun s1 => if s1.finished then .ok s1 else runModel F T cfg b s1) := runModelR_add ha hb s

/-- a step count that overshoots the end stops at termination -/
theorem run_overshoot_stops_at_termination {a : Nat} (b : Nat) {s s1 : RunState α}
    (hs : s.finished = false) (h1 : runStepsR F T cfg a s = .ok s1) (hf : s1.finished = true) :
    runStepsR F T cfg (a + b) s = .ok s1 := overshoot_stopsR b hs h1 hf

/-- a call on a finished model is **not** the identity: it raises -/
theorem run_call_after_end_raises {s : RunState α} (k : Nat) (hs : s.finished = true) :
    runModel F T cfg k s = .error (if k < 1 then "E:numsteps" else "E:finished") :=
  runModelR_finished k hs

/-- **any** successful sequence of calls produces the state — clock, state object, every day
record, summary, completion flag — of one call with the sum of the step counts -/
theorem run_any_partition_equals_one_call (ks : List Nat) {s r : RunState α} (hne : ks ≠ [])
    (h : runCallsR F T cfg ks s = .ok r) : runModel F T cfg ks.sum s = .ok r :=
  runCallsR_eq_one ks hne h

/-- every way of cutting a run that is still unfinished exists and gives the same state -/
theorem run_every_partition_exists (ks : List Nat) {s r : RunState α} (hpos : ∀ k ∈ ks, 1 ≤ k)
    (h : runStepsR F T cfg ks.sum s = .ok r) (hf : r.finished = false) :
    runCallsR F T cfg ks s = .ok r := runCallsR_of_one ks hpos h hf

end run

end Aqua.C09
