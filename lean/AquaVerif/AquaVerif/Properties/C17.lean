import AquaVerif.Proofs.CropFull
import AquaVerif.Generated.CropTable
import AquaVerif.Proofs.Response
import AquaVerif.Proofs.RealInstance
import AquaVerif.Proofs.Catalogue
/-
Property C17 — response functions bounded and monotone.

What is modelled: `water_stress` (`Aqua.waterStress`), `temperature_stress` (`polHeat`, `polCold`,
`temperatureStress`), `growing_degree_day` (`growingDegreeDay`), `cc_development` (`ccDevelopment`,
modes Growth / Decline), `cc_required_time` (`ccRequiredTime`) and the CO2 adjustment of the water
productivity in its two copies (`fco2Init` = `compute_variables`, `fco2Reset` =
`reset_initial_conditions`) — `Model/WaterStress.lean`, `Model/Response.lean`.

What is quantified over.
* Part 1 (abstract): **every** linearly ordered field `α`, **every** `F : Fn α` whose `exp`
  satisfies the order laws `ExpOrdLaws` (positive, `exp 0 = 1`, strictly increasing; plus
  `ExpAddLaw` for the canopy growth curve and `LogExpLaws` for its inverse), and **every** value of
  every argument subject to the stated premises.
* Part 2 (reals): the same with `F = realFn` (`Real.exp`, `Real.log`), where the laws are theorems
  and the ordering premise on the *adjusted* water-stress thresholds is derived from the raw
  parameters (`p_up ≤ p_lo ≤ 1`, `0 ≤ beta ≤ 100`, `0 ≤ ET0`).
* Part 3 (catalogue): for every crop record `c : CropResp` of exact rationals satisfying the
  decidable predicate `ResponseOK c`, all premises of part 2 hold for the crop's parameters;
  `ResponseOK` is closed by `decide +kernel` for Wheat, Maize, Cotton here and is to be closed for
  the generated 37-row `cropTable` by the same tactic.

Only theorems live here (lemmas: `Proofs/Response.lean`, `Proofs/RealInstance.lean`,
`Proofs/Catalogue.lean`).
-/

set_option linter.unusedSectionVars false
set_option linter.unusedVariables false
namespace Aqua.C17
open Aqua Aqua.Response

/-! ## Part 1 — every ordered field, `exp` constrained by its order laws -/

section abstract
variable {α : Type} [Field α] [LinearOrder α] [IsStrictOrderedRing α]

/-- The five water-stress coefficients (expansion, stomata, senescence, pollination, linear
stomata) lie in [0,1] — when the thresholds as used (after ET0 adjustment, early-senescence
reduction, clipping) are ordered and the three exponential shape factors are non-zero. -/
theorem water_stress_in_unit_interval {F : Fn α} (hF : ExpOrdLaws F) (pUp pLo fsh : Fin 4 → α)
    (etAdj : Bool) (betaPct tEarlySen dr taw et0 : α) (betaFlag : Bool)
    (hord : ∀ i, wsUp F pUp etAdj betaPct tEarlySen et0 betaFlag i ≤ wsLo F pLo etAdj et0 i)
    (hf : ∀ i : Fin 4, i.val < 3 → fsh i ≠ 0) :
    let k := waterStress F pUp pLo fsh etAdj betaPct tEarlySen dr taw et0 betaFlag
    (0 ≤ k.exp ∧ k.exp ≤ 1) ∧ (0 ≤ k.sto ∧ k.sto ≤ 1) ∧ (0 ≤ k.sen ∧ k.sen ≤ 1) ∧
      (0 ≤ k.pol ∧ k.pol ≤ 1) ∧ (0 ≤ k.stoLin ∧ k.stoLin ≤ 1) :=
  waterStress_range hF pUp pLo fsh etAdj betaPct tEarlySen dr taw et0 betaFlag hord hf

/-- None of the five water-stress coefficients increases when root-zone depletion increases. -/
theorem water_stress_antitone_in_depletion {F : Fn α} (hF : ExpOrdLaws F)
    (pUp pLo fsh : Fin 4 → α) (etAdj : Bool) (betaPct tEarlySen taw et0 : α) (betaFlag : Bool)
    {dr dr' : α}
    (hord : ∀ i, wsUp F pUp etAdj betaPct tEarlySen et0 betaFlag i ≤ wsLo F pLo etAdj et0 i)
    (hf : ∀ i : Fin 4, i.val < 3 → fsh i ≠ 0) (hdr : dr ≤ dr') :
    let k := waterStress F pUp pLo fsh etAdj betaPct tEarlySen dr taw et0 betaFlag
    let k' := waterStress F pUp pLo fsh etAdj betaPct tEarlySen dr' taw et0 betaFlag
    k'.exp ≤ k.exp ∧ k'.sto ≤ k.sto ∧ k'.sen ≤ k.sen ∧ k'.pol ≤ k.pol ∧ k'.stoLin ≤ k.stoLin :=
  waterStress_antitone_in_dr hF pUp pLo fsh etAdj betaPct tEarlySen taw et0 betaFlag hord hf hdr

/-- Without the ET0 adjustment the ordering premise is the raw one: `p_up i ≤ p_lo i`,
`0 ≤ beta`, `0 ≤ p_up3` (no law of `F` needed). -/
theorem water_stress_premise_from_raw_thresholds (F : Fn α) (pUp pLo : Fin 4 → α)
    (betaPct tEarlySen et0 : α) (betaFlag : Bool) (h : ∀ i, pUp i ≤ pLo i) (hb0 : 0 ≤ betaPct)
    (hp2 : 0 ≤ pUp 2) :
    ∀ i, wsUp F pUp false betaPct tEarlySen et0 betaFlag i ≤ wsLo F pLo false et0 i :=
  wsOrdered_of_raw_noEtAdj F pUp pLo betaPct tEarlySen et0 betaFlag h hb0 hp2

/-- The heat-stress pollination coefficient lies in [0,1] — no premise on thresholds or shape. -/
theorem heat_stress_in_unit_interval {F : Fn α} (hF : ExpOrdLaws F) (tmaxUp tmaxLo b tmax : α) :
    0 ≤ polHeat F tmaxUp tmaxLo b tmax ∧ polHeat F tmaxUp tmaxLo b tmax ≤ 1 :=
  polH_range hF tmaxUp tmaxLo b tmax

/-- The heat-stress coefficient does not increase with the maximum temperature (for either
ordering of the two thresholds; shape factor `≥ 0`). -/
theorem heat_stress_antitone_in_tmax {F : Fn α} (hF : ExpOrdLaws F) (tmaxUp tmaxLo : α)
    {b tmax tmax' : α} (hb : 0 ≤ b) (h : tmax ≤ tmax') :
    polHeat F tmaxUp tmaxLo b tmax' ≤ polHeat F tmaxUp tmaxLo b tmax :=
  polH_antitone_in_tmax hF tmaxUp tmaxLo hb h

/-- The cold-stress pollination coefficient lies in [0,1]. -/
theorem cold_stress_in_unit_interval {F : Fn α} (hF : ExpOrdLaws F) (tminUp tminLo b tmin : α) :
    0 ≤ polCold F tminUp tminLo b tmin ∧ polCold F tminUp tminLo b tmin ≤ 1 :=
  polC_range hF tminUp tminLo b tmin

/-- The cold-stress coefficient does not decrease with the minimum temperature. -/
theorem cold_stress_monotone_in_tmin {F : Fn α} (hF : ExpOrdLaws F) (tminUp tminLo : α)
    {b tmin tmin' : α} (hb : 0 ≤ b) (h : tmin ≤ tmin') :
    polCold F tminUp tminLo b tmin ≤ polCold F tminUp tminLo b tmin' :=
  polC_monotone_in_tmin hF tminUp tminLo hb h

/-- `temperature_stress` as called (flags 0/1): both returned coefficients lie in [0,1]. -/
theorem temperature_stress_in_unit_interval {F : Fn α} (hF : ExpOrdLaws F) {ph pc : Nat}
    {tmaxUp tmaxLo tminUp tminLo b tmax tmin h c : α}
    (hr : temperatureStress F ph pc tmaxUp tmaxLo tminUp tminLo b tmax tmin = some (h, c)) :
    (0 ≤ h ∧ h ≤ 1) ∧ (0 ≤ c ∧ c ≤ 1) := temperatureStress_range hF hr

/-- With `Tmax_up ≤ Tmax_lo` (the ordering of every built-in crop, e.g. 40 < 45) the heat-stress
coefficient is a step at `Tmax_lo`: the logistic branch is unreachable (recorded observation). -/
theorem heat_stress_is_step_for_catalogue_ordering (F : Fn α) {tmaxUp tmaxLo : α} (b tmax : α)
    (h : tmaxUp ≤ tmaxLo) :
    polHeat F tmaxUp tmaxLo b tmax = if tmax ≤ tmaxLo then 1 else 0 :=
  polH_step_of_up_le_lo F b tmax h

/-- Daily growing degree days lie in [0, Tupp − Tbase] for the three methods. -/
theorem gdd_in_range {m : Nat} {tupp tbase tmax tmin g : α} (h : tbase ≤ tupp)
    (hg : growingDegreeDay m tupp tbase tmax tmin = some g) : 0 ≤ g ∧ g ≤ tupp - tbase :=
  gdd_range h hg

/-- Growing degree days do not decrease when the day's temperatures rise (all three methods, no
premise on the thresholds). -/
theorem gdd_monotone_in_temperatures {m : Nat} {tupp tbase tmax tmin tmax' tmin' g g' : α}
    (hx : tmax ≤ tmax') (hn : tmin ≤ tmin')
    (hg : growingDegreeDay m tupp tbase tmax tmin = some g)
    (hg' : growingDegreeDay m tupp tbase tmax' tmin' = some g') : g ≤ g' :=
  gdd_mono hx hn hg hg'

/-- The canopy growth curve is non-decreasing in time (`0 < CC0`, `0 < CCx`, `0 ≤ CGC`). -/
theorem canopy_growth_monotone {F : Fn α} (hF : ExpOrdLaws F) (hA : ExpAddLaw F)
    {cco ccx cgc dt dt' : α} (cdc ccx0 : α) (hcco : 0 < cco) (hccx : 0 < ccx) (hcgc : 0 ≤ cgc)
    (h : dt ≤ dt') :
    ccDevelopment F cco ccx cgc cdc dt .growth ccx0 ≤
      ccDevelopment F cco ccx cgc cdc dt' .growth ccx0 :=
  ccDevelopment_growth_mono hF hA cdc ccx0 hcco hccx hcgc h

/-- The canopy growth curve stays within (0, CCx) (`0 < CC0`, `0 < CCx ≤ 1`). -/
theorem canopy_growth_in_range {F : Fn α} (hF : ExpOrdLaws F) (hA : ExpAddLaw F)
    {cco ccx cgc : α} (cdc dt ccx0 : α) (hcco : 0 < cco) (hccx : 0 < ccx) (hccx1 : ccx ≤ 1) :
    0 < ccDevelopment F cco ccx cgc cdc dt .growth ccx0 ∧
      ccDevelopment F cco ccx cgc cdc dt .growth ccx0 < ccx :=
  ccDevelopment_growth_range hF hA cdc dt ccx0 hcco hccx hccx1

/-- The canopy decline curve is non-increasing in time (`0 ≤ CDC`). -/
theorem canopy_decline_antitone {F : Fn α} (hF : ExpOrdLaws F) {ccx cdc ccx0 dt dt' : α}
    (cco cgc : α) (hcdc : 0 ≤ cdc) (hccx0 : 0 < ccx0 + 2.29) (h : dt ≤ dt') :
    ccDevelopment F cco ccx cgc cdc dt' .decline ccx0 ≤
      ccDevelopment F cco ccx cgc cdc dt .decline ccx0 :=
  ccDevelopment_decline_antitone hF cco cgc hcdc hccx0 h

/-- The canopy decline curve stays within [0, CCx] for non-negative elapsed time. -/
theorem canopy_decline_in_range {F : Fn α} (hF : ExpOrdLaws F) {ccx cdc ccx0 dt : α}
    (cco cgc : α) (hcdc : 0 ≤ cdc) (hccx0 : 0 < ccx0 + 2.29) (hccx : 0 ≤ ccx) (hdt : 0 ≤ dt) :
    0 ≤ ccDevelopment F cco ccx cgc cdc dt .decline ccx0 ∧
      ccDevelopment F cco ccx cgc cdc dt .decline ccx0 ≤ ccx :=
  ccDevelopment_decline_range hF cco cgc hcdc hccx0 hccx hdt

/-- Whatever the arguments and the mode, `cc_development` returns a value in [0,1]. -/
theorem canopy_cover_always_in_unit_interval (F : Fn α) (cco ccx cgc cdc dt : α) (mode : CCMode)
    (ccx0 : α) :
    0 ≤ ccDevelopment F cco ccx cgc cdc dt mode ccx0 ∧
      ccDevelopment F cco ccx cgc cdc dt mode ccx0 ≤ 1 :=
  ccDevelopment_range01 F cco ccx cgc cdc dt mode ccx0

/-- The time-to-reach-cover function inverts the growth curve: for every `dt`,
`cc_required_time(cc_development(…, dt, "Growth"), …, "CGC") = dt`. -/
theorem required_time_inverts_growth {F : Fn α} (hF : ExpOrdLaws F) (hA : ExpAddLaw F)
    (hL : LogExpLaws F) {cco ccx cgc : α} (cdc dt ccx0 : α) (hcco : 0 < cco) (hccx : 0 < ccx)
    (hccx1 : ccx ≤ 1) (hcgc : cgc ≠ 0) :
    ccRequiredTime F (ccDevelopment F cco ccx cgc cdc dt .growth ccx0) cco ccx cgc cdc .cgc = dt :=
  requiredTime_inverts_growth hF hA hL cdc dt ccx0 hcco hccx hccx1 hcgc

/-- The CO2 productivity factor is exactly 1 at the reference concentration (season-0 copy). -/
theorem co2_factor_one_at_reference (F : Fn α) {ref : α} (bsted bface fsink wp : α)
    (href : ref ≠ 0) : fco2Init F ref ref bsted bface fsink wp = some 1 :=
  fco2Init_at_ref F bsted bface fsink wp href

/-- … and in the copy executed at the start of later seasons (needs `ref ≤ 550`, else that copy
raises). -/
theorem co2_factor_one_at_reference_reset (F : Fn α) {ref : α} (bsted bface fsink wp : α)
    (href : ref ≠ 0) (h550 : ref ≤ 550) : fco2Reset F ref ref bsted bface fsink wp = some 1 :=
  fco2Reset_at_ref F bsted bface fsink wp href h550

/-- The CO2 productivity factor is non-decreasing in the concentration over `0 ≤ c ≤ c'` (all
regimes and their junctions), under `CO2Params`. -/
theorem co2_factor_monotone {F : Fn α} (hF : ExpOrdLaws F) {c c' ref bsted bface fsink : α}
    (wp : α) (hp : CO2Params ref bsted bface fsink) (hc : 0 ≤ c) (h : c ≤ c') :
    ∃ v v', fco2Init F c ref bsted bface fsink wp = some v ∧
      fco2Init F c' ref bsted bface fsink wp = some v' ∧ v ≤ v' :=
  fco2Init_mono hF wp hp hc h

/-- … likewise for the copy of later seasons. -/
theorem co2_factor_monotone_reset {F : Fn α} (hF : ExpOrdLaws F)
    {c c' ref bsted bface fsink : α} (wp : α) (hp : CO2Params ref bsted bface fsink) (hc : 0 ≤ c)
    (h : c ≤ c') :
    ∃ v v', fco2Reset F c ref bsted bface fsink wp = some v ∧
      fco2Reset F c' ref bsted bface fsink wp = some v' ∧ v ≤ v' :=
  fco2Reset_mono hF wp hp hc h

end abstract

/-! ## Part 2 — the reals: no law hypotheses, premises on raw parameters -/

/-- Over the reals the three law structures hold (non-vacuity of part 1). -/
theorem real_exp_log_satisfy_the_laws :
    ExpOrdLaws realFn ∧ ExpAddLaw realFn ∧ LogExpLaws realFn :=
  ⟨expOrdLaws_real, expAddLaw_real, logExpLaws_real⟩

/-- All five water-stress coefficients lie in [0,1] and none increases with depletion, for real
parameters with `p_up i ≤ p_lo i ≤ 1`, `0 ≤ ET0`, `0 ≤ beta ≤ 100`, non-zero shape factors — with or
without ET0 adjustment and early-senescence reduction. -/
theorem water_stress_real (pUp pLo fsh : Fin 4 → ℝ) (etAdj : Bool)
    (betaPct tEarlySen taw et0 : ℝ) (betaFlag : Bool) {dr dr' : ℝ}
    (h : ∀ i, pUp i ≤ pLo i) (h1 : ∀ i, pLo i ≤ 1) (het0 : 0 ≤ et0)
    (hb0 : 0 ≤ betaPct) (hb1 : betaPct ≤ 100)
    (hf : ∀ i : Fin 4, i.val < 3 → fsh i ≠ 0) (hdr : dr ≤ dr') :
    let k := waterStress realFn pUp pLo fsh etAdj betaPct tEarlySen dr taw et0 betaFlag
    let k' := waterStress realFn pUp pLo fsh etAdj betaPct tEarlySen dr' taw et0 betaFlag
    ((0 ≤ k.exp ∧ k.exp ≤ 1) ∧ (0 ≤ k.sto ∧ k.sto ≤ 1) ∧ (0 ≤ k.sen ∧ k.sen ≤ 1) ∧
      (0 ≤ k.pol ∧ k.pol ≤ 1) ∧ (0 ≤ k.stoLin ∧ k.stoLin ≤ 1)) ∧
    (k'.exp ≤ k.exp ∧ k'.sto ≤ k.sto ∧ k'.sen ≤ k.sen ∧ k'.pol ≤ k.pol ∧ k'.stoLin ≤ k.stoLin) :=
  waterStress_real pUp pLo fsh etAdj betaPct tEarlySen taw et0 betaFlag h h1 het0 hb0 hb1 hf hdr

/-- Over the reals the ET0 adjustment `p ↦ p + 0.04·(5 − ET0)·log10(10 − 9p)` preserves the order of
two thresholds `p ≤ q ≤ 1` for every `ET0 ≥ 0`. -/
theorem et0_adjustment_preserves_threshold_order {p q et0 : ℝ} (hpq : p ≤ q) (hq : q ≤ 1)
    (het0 : 0 ≤ et0) : etAdjust realFn p et0 ≤ etAdjust realFn q et0 :=
  etAdjust_mono_real hpq hq het0

/-! ## Part 3 — the crop catalogue -/

/-- For a crop record satisfying the decidable rational predicate `ResponseOK`, every premise of
the real-number theorems holds for the crop's parameters. -/
theorem catalogue_premises_imply {c : CropResp} (h : ResponseOK c) : RealPremises c :=
  realPremises_of_responseOK h

/-- Water stress for a catalogue crop: coefficients in [0,1], antitone in depletion — for every
depletion, TAW, `ET0 ≥ 0`, early-senescence time and both settings of the two switches. -/
theorem catalogue_water_stress {c : CropResp} (h : ResponseOK c) (etAdj betaFlag : Bool)
    (tEarlySen taw et0 : ℝ) {dr dr' : ℝ} (het0 : 0 ≤ et0) (hdr : dr ≤ dr') :
    let P : Fin 4 → ℝ := fun i => ((c.pUp i : ℚ) : ℝ)
    let L : Fin 4 → ℝ := fun i => ((c.pLo i : ℚ) : ℝ)
    let S : Fin 4 → ℝ := fun i => ((c.fshapeW i : ℚ) : ℝ)
    let k := waterStress realFn P L S etAdj ((c.beta : ℚ) : ℝ) tEarlySen dr taw et0 betaFlag
    let k' := waterStress realFn P L S etAdj ((c.beta : ℚ) : ℝ) tEarlySen dr' taw et0 betaFlag
    ((0 ≤ k.exp ∧ k.exp ≤ 1) ∧ (0 ≤ k.sto ∧ k.sto ≤ 1) ∧ (0 ≤ k.sen ∧ k.sen ≤ 1) ∧
      (0 ≤ k.pol ∧ k.pol ≤ 1) ∧ (0 ≤ k.stoLin ∧ k.stoLin ≤ 1)) ∧
    (k'.exp ≤ k.exp ∧ k'.sto ≤ k.sto ∧ k'.sen ≤ k.sen ∧ k'.pol ≤ k.pol ∧ k'.stoLin ≤ k.stoLin) :=
  have r := realPremises_of_responseOK h
  waterStress_real _ _ _ etAdj _ tEarlySen taw et0 betaFlag r.thr_ord r.thr_le_one het0 r.beta_nn
    r.beta_le r.shape_ne hdr

/-- Temperature responses for a catalogue crop: heat and cold coefficients in [0,1] and monotone
in the temperature (whatever the crop's temperature thresholds); degree days in
[0, Tupp − Tbase] and monotone. -/
theorem catalogue_temperature_responses {c : CropResp} (h : ResponseOK c)
    (tmaxUp tmaxLo tminUp tminLo : ℝ) :
    (∀ tmax, 0 ≤ polHeat realFn tmaxUp tmaxLo ((c.fshapeB : ℚ) : ℝ) tmax ∧
        polHeat realFn tmaxUp tmaxLo ((c.fshapeB : ℚ) : ℝ) tmax ≤ 1) ∧
    (∀ tmax tmax', tmax ≤ tmax' →
        polHeat realFn tmaxUp tmaxLo ((c.fshapeB : ℚ) : ℝ) tmax' ≤
          polHeat realFn tmaxUp tmaxLo ((c.fshapeB : ℚ) : ℝ) tmax) ∧
    (∀ tmin, 0 ≤ polCold realFn tminUp tminLo ((c.fshapeB : ℚ) : ℝ) tmin ∧
        polCold realFn tminUp tminLo ((c.fshapeB : ℚ) : ℝ) tmin ≤ 1) ∧
    (∀ tmin tmin', tmin ≤ tmin' →
        polCold realFn tminUp tminLo ((c.fshapeB : ℚ) : ℝ) tmin ≤
          polCold realFn tminUp tminLo ((c.fshapeB : ℚ) : ℝ) tmin') ∧
    (∀ m tmax tmin g,
        growingDegreeDay m ((c.tupp : ℚ) : ℝ) ((c.tbase : ℚ) : ℝ) tmax tmin = some g →
        0 ≤ g ∧ g ≤ ((c.tupp : ℚ) : ℝ) - ((c.tbase : ℚ) : ℝ)) ∧
    (∀ m tmax tmin tmax' tmin' g g', tmax ≤ tmax' → tmin ≤ tmin' →
        growingDegreeDay m ((c.tupp : ℚ) : ℝ) ((c.tbase : ℚ) : ℝ) tmax tmin = some g →
        growingDegreeDay m ((c.tupp : ℚ) : ℝ) ((c.tbase : ℚ) : ℝ) tmax' tmin' = some g' →
        g ≤ g') :=
  have r := realPremises_of_responseOK h
  ⟨fun t => polH_range expOrdLaws_real _ _ _ t,
   fun _ _ ht => polH_antitone_in_tmax expOrdLaws_real _ _ r.fshapeB_nn ht,
   fun t => polC_range expOrdLaws_real _ _ _ t,
   fun _ _ ht => polC_monotone_in_tmin expOrdLaws_real _ _ r.fshapeB_nn ht,
   fun _ _ _ _ hg => gdd_range r.tbase_le hg,
   fun _ _ _ _ _ _ _ hx hn hg hg' => gdd_mono hx hn hg hg'⟩

/-- Canopy curves for a catalogue crop: growth non-decreasing within (0, CCx), decline
non-increasing within [0, CCx] (from any `CCx`-start value in [0, ∞)), and the required-time
function inverts the growth curve. -/
theorem catalogue_canopy_curves {c : CropResp} (h : ResponseOK c) :
    let cco : ℝ := ((c.cc0 : ℚ) : ℝ)
    let ccx : ℝ := ((c.ccx : ℚ) : ℝ)
    let cgc : ℝ := ((c.cgc : ℚ) : ℝ)
    let cdc : ℝ := ((c.cdc : ℚ) : ℝ)
    (∀ dt dt' ccx0, dt ≤ dt' → ccDevelopment realFn cco ccx cgc cdc dt .growth ccx0 ≤
        ccDevelopment realFn cco ccx cgc cdc dt' .growth ccx0) ∧
    (∀ dt ccx0, 0 < ccDevelopment realFn cco ccx cgc cdc dt .growth ccx0 ∧
        ccDevelopment realFn cco ccx cgc cdc dt .growth ccx0 < ccx) ∧
    (∀ dt dt' cc, dt ≤ dt' → ccDevelopment realFn cco cc cgc cdc dt' .decline ccx ≤
        ccDevelopment realFn cco cc cgc cdc dt .decline ccx) ∧
    (∀ dt cc, 0 ≤ cc → 0 ≤ dt → 0 ≤ ccDevelopment realFn cco cc cgc cdc dt .decline ccx ∧
        ccDevelopment realFn cco cc cgc cdc dt .decline ccx ≤ cc) ∧
    (∀ dt ccx0, ccRequiredTime realFn (ccDevelopment realFn cco ccx cgc cdc dt .growth ccx0)
        cco ccx cgc cdc .cgc = dt) := by
  have r := realPremises_of_responseOK h
  have hx0 : (0 : ℝ) < ((c.ccx : ℚ) : ℝ) + 2.29 := by have := r.ccx_pos; linarith
  exact ⟨fun _ _ ccx0 hd =>
      ccDevelopment_growth_mono expOrdLaws_real expAddLaw_real _ ccx0 r.cc0_pos r.ccx_pos
        r.cgc_pos.le hd,
    fun dt ccx0 =>
      ccDevelopment_growth_range expOrdLaws_real expAddLaw_real _ dt ccx0 r.cc0_pos r.ccx_pos
        r.ccx_le,
    fun _ _ _ hd => ccDevelopment_decline_antitone expOrdLaws_real _ _ r.cdc_nn hx0 hd,
    fun _ _ hcc hdt => ccDevelopment_decline_range expOrdLaws_real _ _ r.cdc_nn hx0 hcc hdt,
    fun dt ccx0 =>
      requiredTime_inverts_growth_real _ dt ccx0 r.cc0_pos r.ccx_pos r.ccx_le r.cgc_pos.ne'⟩

/-- CO2 factor for a catalogue crop at the reference concentration 369.41 ppm: exactly 1 at the
reference, non-decreasing in the concentration on `[0, ∞)`, and the two copies of the code agree
for every concentration (for every water productivity `wp`). -/
theorem catalogue_co2_factor {c : CropResp} (h : ResponseOK c) (wp : ℝ) :
    let bs : ℝ := ((c.bsted : ℚ) : ℝ)
    let bf : ℝ := ((c.bface : ℚ) : ℝ)
    let fs : ℝ := ((c.fsink : ℚ) : ℝ)
    fco2Init realFn 369.41 369.41 bs bf fs wp = some 1 ∧
    (∀ x x', 0 ≤ x → x ≤ x' → ∃ v v', fco2Init realFn x 369.41 bs bf fs wp = some v ∧
        fco2Init realFn x' 369.41 bs bf fs wp = some v' ∧ v ≤ v') ∧
    (∀ x, fco2Reset realFn x 369.41 bs bf fs wp = fco2Init realFn x 369.41 bs bf fs wp) := by
  have r := realPremises_of_responseOK h
  exact ⟨fco2Init_at_ref realFn _ _ _ wp (by norm_num),
    fun _ _ hx hxx => fco2Init_mono expOrdLaws_real wp r.co2 hx hxx,
    fun x => fco2Init_eq_fco2Reset_of_ref_le realFn x _ _ _ wp (by norm_num)⟩

/-- Wheat, Maize and Cotton (numbers of `crop_params.py`) satisfy `ResponseOK` — by kernel
evaluation, the way the generated 37-row table is to be checked. -/
theorem three_catalogue_crops_ok :
    ∀ c ∈ [wheatResp, maizeResp, cottonResp], ResponseOK c := by decide +kernel

example : ResponseOK wheatResp := by decide +kernel
example : ResponseOK maizeResp := by decide +kernel
example : ResponseOK cottonResp := by decide +kernel
example : RealPremises wheatResp := catalogue_premises_imply (by decide +kernel)


/-- Tie to the source, re-proved on every run: every crop of the catalogue as /repo's
`crop_params.py` defines it now (table regenerated by `harness/translate/croptable.py`, 37
entries) satisfies the premises `ResponseOK`, hence (`catalogue_premises_imply` and the
`catalogue_*` theorems above) all conclusions of this file. -/
theorem all_catalogue_crops_satisfy_premises : ∀ c ∈ Aqua.Generated.cropTable, ResponseOK c :=
  Aqua.Generated.cropTable_responseOK

theorem catalogue_has_37_crops : Aqua.Generated.cropTable.length = 37 := Aqua.Generated.cropTable_count


/-- The response-function table `cropTable` is, entry by entry, the projection of the full crop
table generated from the same sources, and every catalogue crop satisfies `ResponseOK`. -/
theorem response_table_is_projection_of_full_table :
    Aqua.Generated.cropFullTable.length = Aqua.Generated.cropTable.length ∧
    ∀ p ∈ (Aqua.Generated.cropFullTable.map CropFull.toResp).zip Aqua.Generated.cropTable,
      RespAgree p.1 p.2 := catalogue_toResp_agrees

theorem full_catalogue_response_ok :
    ∀ c ∈ Aqua.Generated.cropFullTable, ResponseOK c.toResp := catalogue_responseOK

end Aqua.C17
