import AquaVerif.Proofs.Irrigation
import AquaVerif.Proofs.PreIrrigation
/-
Property C13 — irrigation strategies honour their contracts.

Statements are about the model of `aquacrop/solution/irrigation.py` (`Aqua.irrigation`), of the
schedule re-indexing of `read_irrigation_management` (`Aqua.scheduleReindex`) and of
`pre_irrigation` at an arbitrary linearly ordered field, for **every** profile, state, parameter
vector and day; the run-level statements quantify over **every** sequence of day inputs.
Only theorems live here; lemmas are in `Proofs/`.
-/

set_option linter.unusedSectionVars false
namespace Aqua.C13
open Aqua
variable {α : Type} [Field α] [LinearOrder α] [IsStrictOrderedRing α]

/-- everything the irrigation decision reads on one day besides the strategy parameters and the
running seasonal total -/
structure DayIn (α : Type) where
  cells : List (Cell α)
  stage : Nat
  ePot : α
  tPot : α
  zRoot : α
  dap : Nat
  sched : Option α
  zMin : α
  aer : α
  zTop : α
  gs : Bool
  rain : α
  runoff : α

/-- one day of the strategy -/
def day (F : Fn α) (P : IrrParams α) (irrCum : α) (d : DayIn α) : Except IrrErr (IrrOut α) :=
  irrigation F P d.cells d.stage irrCum d.ePot d.tPot d.zRoot d.dap d.sched d.zMin d.aer d.zTop d.gs
    d.rain d.runoff

/-- a history of days: the seasonal total is threaded from day to day; returns the total after
the last day and the depths applied, oldest first (`none` if some call raised) -/
def run (F : Fn α) (P : IrrParams α) : α → List (DayIn α) → Option (α × List α)
  | c, [] => some (c, [])
  | c, d :: ds =>
    match day F P c d with
    | .error _ => none
    | .ok o => (run F P o.irrCum ds).map (fun (c', xs) => (c', o.irr :: xs))

/-- No irrigation outside a growing season, under the rainfed strategy, or (surface irrigation)
under net irrigation. -/
theorem none_offseason_rainfed_net (F : Fn α) (P : IrrParams α) (c : α) (d : DayIn α) (o : IrrOut α)
    (h : day F P c d = .ok o) (hz : d.gs = false ∨ P.method = 0 ∨ P.method = 4) : o.irr = 0 := by
  unfold day at h
  rcases hz with hg | hm | hm
  · rw [hg] at h; exact (irr_offseason h).1
  · exact irr_rainfed h hm
  · exact irr_net h hm

/-- A single application is never negative and never exceeds the daily maximum. -/
theorem within_daily_max (F : Fn α) (P : IrrParams α) (c : α) (d : DayIn α) (o : IrrOut α)
    (h : day F P c d = .ok o) (hmax : 0 ≤ P.maxIrr) : 0 ≤ o.irr ∧ o.irr ≤ P.maxIrr :=
  ⟨irr_nonneg h, irr_le_max h hmax⟩

/-- The seasonal total never exceeds the seasonal maximum — for every history of days. -/
theorem season_total_le_max (F : Fn α) (P : IrrParams α) (hs : 0 ≤ P.maxSeason) :
    ∀ (ds : List (DayIn α)) (c c' : α) (xs : List α), c ≤ P.maxSeason →
      run F P c ds = some (c', xs) → c' ≤ P.maxSeason ∧ ∀ x ∈ xs, 0 ≤ x := by
  intro ds
  induction ds with
  | nil =>
    intro c c' xs hc h
    simp only [run, Option.some.injEq, Prod.mk.injEq] at h
    obtain ⟨rfl, rfl⟩ := h
    exact ⟨hc, by simp⟩
  | cons d ds ih =>
    intro c c' xs hc h
    simp only [run] at h
    split at h
    · cases h
    · rename_i o ho
      cases hr : run F P o.irrCum ds with
      | none => rw [hr] at h; cases h
      | some p =>
        rw [hr] at h
        simp only [Option.map_some, Option.some.injEq, Prod.mk.injEq] at h
        obtain ⟨rfl, rfl⟩ := h
        have hcap : o.irrCum ≤ P.maxSeason := irr_season_cap (by unfold day at ho; exact ho) hs hc
        obtain ⟨h1, h2⟩ := ih o.irrCum p.1 p.2 hcap (by rw [hr])
        refine ⟨h1, ?_⟩
        intro x hx
        rcases List.mem_cons.mp hx with rfl | hx
        · exact irr_nonneg (by unfold day at ho; exact ho)
        · exact h2 x hx

/-- In season the seasonal counter advances by exactly the applied depth. -/
theorem counter_is_running_sum (F : Fn α) (P : IrrParams α) (c : α) (d : DayIn α) (o : IrrOut α)
    (h : day F P c d = .ok o) (hg : d.gs = true) : o.irrCum = c + o.irr := by
  unfold day at h; rw [hg] at h; exact irr_cum_step h

/-- Fixed-interval irrigation occurs only on days 1, 1+k, 1+2k, … after planting. -/
theorem interval_days (F : Fn α) (P : IrrParams α) (c : α) (d : DayIn α) (o : IrrOut α)
    (h : day F P c d = .ok o) (hm : P.method = 2) (hpos : 0 < o.irr) (hdap : 1 ≤ d.dap) :
    d.gs = true ∧ P.interval ≠ 0 ∧ (d.dap - 1) % P.interval = 0 := by
  unfold day at h
  exact ⟨(irr_interval h hm hpos).1, (irr_interval h hm hpos).2.1, irr_interval_nat h hm hpos hdap⟩

/-- … and on those days it is the gross requirement, limited by the daily and seasonal maxima. -/
theorem interval_amount (F : Fn α) (P : IrrParams α) (c : α) (d : DayIn α) (o : IrrOut α)
    (h : day F P c d = .ok o) (hg : d.gs = true) (hm : P.method = 2)
    (hday : ((d.dap : Int) - 1) % (P.interval : Int) = 0) (hmax : 0 ≤ P.maxIrr) (he : P.appEff ≤ 200) :
    o.irr = irrCap P.maxSeason c
      (pmin P.maxIrr (pmax 0 o.depletion * ((100 - P.appEff + 100) / 100))) := by
  unfold day at h; rw [hg] at h; exact irr_interval_amount' h hm hday hmax he

/-- Scheduled irrigation applies exactly the scheduled depth of the day (capped). -/
theorem schedule_exact (F : Fn α) (P : IrrParams α) (c : α) (d : DayIn α) (o : IrrOut α)
    (h : day F P c d = .ok o) (hg : d.gs = true) (hm : P.method = 3) :
    ∃ s, d.sched = some s ∧ 0 ≤ s ∧ o.irr = irrCap P.maxSeason c (pmax 0 (pmin P.maxIrr s)) := by
  unfold day at h; rw [hg] at h; exact irr_schedule_exact h hm

/-- … and nothing on a day whose scheduled depth is zero. -/
theorem schedule_zero (F : Fn α) (P : IrrParams α) (c : α) (d : DayIn α) (o : IrrOut α)
    (h : day F P c d = .ok o) (hm : P.method = 3) (hs : d.sched = some 0) : o.irr = 0 := by
  unfold day at h; exact irr_schedule_zero h hm hs

/-- The re-indexed schedule carries the scheduled depth on scheduled in-window days and zero on
every other day (dates outside the window are dropped). -/
theorem nothing_off_schedule (s : List (Int × α)) (start : Int) (n : Nat) (arr : List α)
    (h : scheduleReindex s start n = some arr) :
    arr.length = n ∧ ∀ i, i < n → ∀ (hlen : i < arr.length),
      (∀ v, (start + i, v) ∈ s → arr[i] = v) ∧ ((∀ v, (start + i, v) ∉ s) → arr[i] = 0) :=
  Aqua.nothing_off_schedule s start n arr h

/-- Constant-depth irrigation applies the configured depth on every in-season day (capped). -/
theorem constant_depth (F : Fn α) (P : IrrParams α) (c : α) (d : DayIn α) (o : IrrOut α)
    (h : day F P c d = .ok o) (hg : d.gs = true) (hm : P.method = 5) :
    o.irr = irrCap P.maxSeason c (pmax 0 (pmin P.maxIrr P.depth)) := by
  unfold day at h; rw [hg] at h; exact irr_constant h hm

/-- Soil-moisture-threshold irrigation applies water exactly when the estimated relative
depletion exceeds the stage's allowable depletion, in the amount that refills it adjusted for
the application efficiency (then the caps). -/
theorem threshold_contract (F : Fn α) (P : IrrParams α) (c : α) (d : DayIn α) (o : IrrOut α)
    (h : day F P c d = .ok o) (hg : d.gs = true) (hm : P.method = 1) :
    ∃ i pre, smtIndex (if d.dap = 1 then 1 else d.stage) = some i ∧
      pre = (if 1 - P.smt i / 100 < o.depletion / o.taw
              then pmax 0 (irrGross P o.depletion) else 0) ∧
      o.irr = irrCap P.maxSeason c pre ∧
      (P.appEff < 200 →
        (0 < pre ↔ (1 - P.smt i / 100 < o.depletion / o.taw ∧ 0 < o.depletion ∧ 0 < P.maxIrr))) := by
  unfold day at h; rw [hg] at h; exact irr_smt h hm

/-- The pre-irrigation of net-irrigation mode is a non-negative requirement and adds exactly
that amount to the profile. -/
theorem preirrigation_nonneg_and_conserving (rnd : α → α) (cells : List (Cell α)) (gs : Bool) (m : Nat)
    (dap : Int) (zRoot zMin smt : α) (r : List (Cell α) × α) (hdz : ∀ x ∈ cells, 0 ≤ x.c.dz)
    (h : preIrrigationR rnd cells gs m dap zRoot zMin smt = some r) :
    0 ≤ r.2 ∧ storage r.1 = storage cells + r.2 :=
  ⟨preIrrigationR_nonneg rnd cells gs m dap zRoot zMin smt r hdz h,
   preIrrigationR_balance rnd cells gs m dap zRoot zMin smt r h⟩

end Aqua.C13
