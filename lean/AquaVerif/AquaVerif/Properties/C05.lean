import AquaVerif.Proofs.CatalogueCfg
import AquaVerif.Proofs.CropCalendar
import AquaVerif.Proofs.PrepareGdd
import AquaVerif.Proofs.PrepareGddOrder
import AquaVerif.Proofs.PrepareGddTotal
import AquaVerif.Proofs.RunClosedRw
import AquaVerif.Proofs.CropFull
import AquaVerif.Proofs.Run
import AquaVerif.Proofs.CanopyCover
import AquaVerif.Proofs.RootDevelopment
import AquaVerif.Proofs.HarvestIndex
import AquaVerif.Proofs.Response
import AquaVerif.Proofs.Yield
/-
Property C05 — crop state stays inside its configured envelope.

One-day statements about the models of `canopy_cover` (with `adjust_CCx`, `update_CCx_CDC`),
`root_development`, `HIref_current_day`, `harvest_index` (with the three `HIadj_*` helpers),
`biomass_accumulation` and `growing_degree_day`, at an arbitrary linearly ordered field, for every
profile, state and parameter vector satisfying the stated premises.  The premises that are
*invariants* (previous canopy within range, previous harvest index below the reference, …) are the
conclusions of the same theorems for the previous day, so each envelope is preserved day after
day; the premises on crop parameters hold for the whole catalogue (checked by the tie and, for
the response functions, by the generated obligations of C17).  Laws of `exp`, `pow`, `sin` are
hypotheses (`ExpOrdLaws`, `PowLaws`, `PowNonneg`, `PowSqLaw` — the last, `x ** 2 = x · x`, for the
micro-advection polynomial `1.72c − c**2 + 0.3c**3` of the canopy cover —, `SinLaw`; bundled as
`FnOK` at run level), shown satisfiable at ℝ in `Proofs/*Real.lean`.
-/

set_option linter.unusedSectionVars false
namespace Aqua.C05
open Aqua
variable {α : Type} [Field α] [LinearOrder α] [IsStrictOrderedRing α]

/-! ### canopy cover -/

/-- Canopy cover lies between 0 and the no-stress canopy, the no-stress canopy never exceeds the
crop's maximum canopy cover, the micro-advection adjusted covers never exceed 1, and outside a
growing season all of them are zero. -/
theorem canopy_in_envelope {F : Fn α} (hF : ExpOrdLaws F) {crop : CcCrop α} {cells : List (Cell α)}
    {zTop : α} {st out : CcState α} {gdd et0 : α} {gs : Bool} (hccx : 0 ≤ crop.ccx)
    (hp : CcParamsFor F crop st gdd) (hpre : CcPre crop st) (hx : st.ccxAct ≤ crop.ccx)
    (hns : NsRng crop st)
    (h : canopyCover F crop cells zTop st gdd et0 gs = .ok out) :
    0 ≤ out.cc ∧ out.cc ≤ out.ccNS ∧ out.ccNS ≤ crop.ccx ∧ out.ccAdj ≤ 1 ∧ out.ccAdjNS ≤ 1 ∧
      (gs = false → out.cc = 0 ∧ out.ccNS = 0 ∧ out.ccAdj = 0 ∧ out.ccAdjNS = 0) :=
  cc_c05 hF hccx hp hpre hx hns h

/-- The actual canopy never exceeds the no-stress canopy — unconditionally. -/
theorem canopy_le_nostress {F : Fn α} {crop : CcCrop α} {cells : List (Cell α)} {zTop : α}
    {st out : CcState α} {gdd et0 : α}
    (h : canopyCover F crop cells zTop st gdd et0 true = .ok out) : out.cc ≤ out.ccNS :=
  cc_le_ns h

/-- The canopy stays within `[0, CCx]` and the invariant on the adjusted initial cover is kept. -/
theorem canopy_range_preserved {F : Fn α} (hF : ExpOrdLaws F) {crop : CcCrop α} {cells : List (Cell α)}
    {zTop : α} {st out : CcState α} {gdd et0 : α}
    (hp : CcParamsFor F crop st gdd) (hpre : CcPre crop st) (hx : st.ccxAct ≤ crop.ccx)
    (h : canopyCover F crop cells zTop st gdd et0 true = .ok out) :
    0 ≤ out.cc ∧ out.cc ≤ crop.ccx ∧ 0 ≤ out.cc0Adj ∧ out.cc0Adj ≤ crop.cc0 :=
  cc_range hF hp hpre hx h

/-! ### rooting depth -/

/-- Outside a growing season the rooting depth is zero. -/
theorem roots_zero_offseason {F : Fn α} {C : RdCrop α} {cells : List (Cell α)}
    {dap zRoot dcd gddCum dgdd tr cc ccNS rCor tPot zGW gdd : α} {germ : Bool} {wt : Nat}
    {out : RdOut α}
    (h : rootDevelopment F C cells dap zRoot dcd gddCum dgdd tr cc ccNS germ rCor tPot zGW gdd false wt
      = .ok out) : out.zRoot = 0 ∧ out.rCor = rCor := zroot_offseason h

/-- The rooting depth never shrinks, except when a water table above the new root tip forces it
(then it is set to the table depth, but not above the minimum rooting depth). -/
theorem roots_never_shrink_except_for_water_table {F : Fn α} {C : RdCrop α} {cells : List (Cell α)}
    {dap zRoot dcd gddCum dgdd tr cc ccNS rCor tPot zGW gdd : α} {germ : Bool} {wt : Nat}
    {out : RdOut α} (H : RdHyp F C cells tr gdd)
    (h : rootDevelopment F C cells dap zRoot dcd gddCum dgdd tr cc ccNS germ rCor tPot zGW gdd true wt
      = .ok out) :
    out.zInit = zInitOf C dap zRoot ∧
    (¬ (wt = 1 ∧ 0 < zGW ∧ zGW < out.zInit + out.dZr) →
      out.zRoot = out.zInit + out.dZr ∧ out.zInit ≤ out.zRoot) ∧
    ((wt = 1 ∧ 0 < zGW ∧ zGW < out.zInit + out.dZr) → out.zRoot = max zGW C.zmin) :=
  zroot_nonshrinking H h

/-- The daily root increment is non-negative, also below restrictive layers: today's and
yesterday's potential depth are limited alike (this is the repaired defect of `root_development`). -/
theorem root_increment_nonneg {F : Fn α} {C : RdCrop α} {cells : List (Cell α)}
    {dap zRoot dcd gddCum dgdd tr cc ccNS rCor tPot zGW gdd : α} {germ : Bool} {wt : Nat}
    {out : RdOut α} (H : RdHyp F C cells tr gdd)
    (h : rootDevelopment F C cells dap zRoot dcd gddCum dgdd tr cc ccNS germ rCor tPot zGW gdd true wt
      = .ok out) : 0 ≤ out.dZr0 ∧ 0 ≤ out.dZr ∧ out.dZr ≤ out.dZr0 := dZr_nonneg H h

/-- The roots never reach below a present water table (unless the table is shallower than the
minimum rooting depth). -/
theorem roots_not_below_water_table {F : Fn α} {C : RdCrop α} {cells : List (Cell α)}
    {dap zRoot dcd gddCum dgdd tr cc ccNS rCor tPot zGW gdd : α} {germ : Bool} {wt : Nat}
    {out : RdOut α}
    (h : rootDevelopment F C cells dap zRoot dcd gddCum dgdd tr cc ccNS germ rCor tPot zGW gdd true wt
      = .ok out) (hwt : wt = 1) (hgw : 0 < zGW) (hz : C.zmin ≤ zGW) : out.zRoot ≤ zGW :=
  zroot_le_gw h hwt hgw hz

/-- The rooting depth stays at or above the minimum rooting depth … -/
theorem roots_ge_zmin {F : Fn α} {C : RdCrop α} {cells : List (Cell α)}
    {dap zRoot dcd gddCum dgdd tr cc ccNS rCor tPot zGW gdd : α} {germ : Bool} {wt : Nat}
    {out : RdOut α} (H : RdHyp F C cells tr gdd)
    (h : rootDevelopment F C cells dap zRoot dcd gddCum dgdd tr cc ccNS germ rCor tPot zGW gdd true wt
      = .ok out) (hi : C.zmin ≤ zInitOf C dap zRoot) : C.zmin ≤ out.zRoot := zroot_ge_zmin H h hi

/-- … and at or below the maximum rooting depth: the invariant "not deeper than the layer-limited
potential depth" (`RdInv`) is preserved by every day. -/
theorem roots_le_zmax {F : Fn α} {C : RdCrop α} {cells : List (Cell α)}
    {dap zRoot dcd gddCum dgdd tr cc ccNS rCor tPot zGW gdd : α} {germ : Bool} {wt : Nat}
    {out : RdOut α} (H : RdHyp F C cells tr gdd) (hl1 : LaysLe100 (layersOf cells))
    (hs : SkipOK F C.zmin)
    (h : rootDevelopment F C cells dap zRoot dcd gddCum dgdd tr cc ccNS germ rCor tPot zGW gdd true wt
      = .ok out)
    (hi : RdInv F C (layersOf cells) (zInitOf C dap zRoot) (rdTOld C dap dcd gddCum dgdd gdd))
    (hz : C.zmin ≤ zInitOf C dap zRoot) :
    out.zRoot ≤ C.zmax ∧ out.zRoot ≤ out.zrPot ∧
      RdInv F C (layersOf cells) out.zRoot (rdTAdj C dap dcd gddCum dgdd) :=
  zroot_le_zmax H hl1 hs h hi hz

/-- On the first day of a season the rooting depth lies in `[Zmin, Zmax]` whatever it was before. -/
theorem roots_in_range_on_day_one {F : Fn α} {C : RdCrop α} {cells : List (Cell α)}
    {zRoot dcd gddCum dgdd tr cc ccNS rCor tPot zGW gdd : α} {germ : Bool} {wt : Nat}
    {out : RdOut α} (H : RdHyp F C cells tr gdd) (hl1 : LaysLe100 (layersOf cells))
    (hs : SkipOK F C.zmin)
    (h : rootDevelopment F C cells 1 zRoot dcd gddCum dgdd tr cc ccNS germ rCor tPot zGW gdd true wt
      = .ok out) : C.zmin ≤ out.zRoot ∧ out.zRoot ≤ C.zmax := zroot_range_day1 H hl1 hs h

/-! ### harvest index -/

/-- The reference harvest index never exceeds the crop's reference value `HI0` … -/
theorem reference_hi_le_hi0 (F : Fn α) (c : HiCrop α) (s : HiRefIn α) (gs : Bool) (h0 : 0 ≤ c.hi0) :
    (hiRefCurrentDay F c s gs).hiRef ≤ c.hi0 := hiref_le_hi0 F c s gs h0

/-- … and never decreases within a season (time since the start of yield formation does not go
back, the final index is not lowered). -/
theorem reference_hi_never_decreases {F : Fn α} (hF : ExpOrdLaws F) (c : HiCrop α) (hb : c.BuildUp)
    (s s' : HiRefIn α) (ht : s.dap - s.delayedCDs ≤ s'.dap - s'.delayedCDs)
    (hfin : s.hiFinal ≤ s'.hiFinal) (hf0 : 0 ≤ s.hiFinal) :
    (hiRefCurrentDay F c s true).hiRef ≤ (hiRefCurrentDay F c s' true).hiRef :=
  hiref_mono hF c hb s s' ht hfin hf0

/-- One day of the harvest-index chain: the index never decreases, never exceeds the day's
reference index, the crop's `HI0`, or the final index. -/
theorem harvest_index_day {F : Fn α} {T : TrigFn α} (hF : ExpOrdLaws F) (c : HiCrop α) (hb : c.BuildUp)
    (r r' : HiRefIn α) (ht : r.dap - r.delayedCDs ≤ r'.dap - r'.delayedCDs)
    (hfin : r.hiFinal ≤ r'.hiFinal) (hf0 : 0 ≤ r.hiFinal)
    {cells : List (Cell α)} {zTop : α} {k : HiStressCrop α} {s o : HiState α} {et0 tmax tmin : α}
    (hs : s.hiRef = (hiRefCurrentDay F c r' true).hiRef)
    (hprev : s.hi ≤ (hiRefCurrentDay F c r true).hiRef)
    (h : harvestIndex F T cells zTop c k s et0 tmax tmin true = .ok o) :
    s.hi ≤ o.hi ∧ o.hi ≤ (hiRefCurrentDay F c r' true).hiRef ∧ o.hi ≤ c.hi0 ∧ o.hi ≤ r'.hiFinal :=
  c05_day hF c hb r r' ht hfin hf0 hs hprev h

/-- The stress-adjusted index never exceeds the reference by more than the crop's allowed maximum
increase: `HIadj ≤ (1 + dHI0/100)·HI ≤ (1 + dHI0/100)·HI0`; the non-negativity invariant of the
adjustment factors is preserved. -/
theorem adjusted_hi_within_allowed_increase {F : Fn α} {T : TrigFn α} (hF : ExpOrdLaws F)
    (hT : SinLaw T) (hP : PowNonneg F) {cells : List (Cell α)} {zTop : α} {c : HiCrop α}
    (hc : c.PostOK) {k : HiStressCrop α} {s o : HiState α} {et0 tmax tmin : α} {gs : Bool}
    (h : harvestIndex F T cells zTop c k s et0 tmax tmin gs = .ok o)
    (hord : ∀ i, wsUp F k.pUp k.etAdj k.beta s.tEarlySen et0 true i ≤ wsLo F k.pLo k.etAdj et0 i)
    (hf : ∀ i : Fin 4, i.val < 3 → k.fshapeW i ≠ 0)
    (h0 : 0 ≤ c.hi0) (hcap : 0 ≤ 1 + c.dHI0 / 100) (hleafy : c.cropType = 1 → 0 ≤ c.dHI0)
    (href : 0 ≤ s.hiRef) (href' : s.hiRef ≤ c.hi0)
    (hs : s.NN) (hprev : s.hi ≤ c.hi0) (inv : s.hiAdj ≤ (1 + c.dHI0 / 100) * s.hi) :
    o.NN ∧ o.hi ≤ c.hi0 ∧ o.hiAdj ≤ (1 + c.dHI0 / 100) * o.hi ∧
      o.hiAdj ≤ (1 + c.dHI0 / 100) * c.hi0 :=
  harvestIndex_c05 hF hT hP hc h hord hf h0 hcap hleafy href href' hs hprev inv

/-- Outside a growing season both harvest indices are zero. -/
theorem harvest_index_zero_offseason (F : Fn α) (T : TrigFn α) (cells : List (Cell α)) (zTop : α)
    (c : HiCrop α) (k : HiStressCrop α) (s : HiState α) (et0 tmax tmin : α) :
    harvestIndex F T cells zTop c k s et0 tmax tmin false = .ok { s with hi := 0, hiAdj := 0 } :=
  hi_offseason F T cells zTop c k s et0 tmax tmin

/-! ### biomass and degree days -/

/-- Biomass never decreases within a season (the daily gain `WPadj · Tr/ET0` is non-negative) and
is monotone in transpiration. -/
theorem biomass_never_decreases (crop : BioCrop α)
    (dap delayedCDs hiRef pctLag b bNS tr tr' trPot et0 : α)
    (hy0 : 0 ≤ crop.wpy) (hy1 : crop.wpy ≤ 100) (hw : 0 ≤ crop.wp * crop.fco2)
    (h : BioSwitchOK crop dap delayedCDs pctLag) (htr : 0 ≤ tr) (htr' : tr ≤ tr') (het : 0 < et0) :
    b ≤ (biomassAccumulation crop dap delayedCDs hiRef pctLag b bNS tr trPot et0 true).1 ∧
      (biomassAccumulation crop dap delayedCDs hiRef pctLag b bNS tr trPot et0 true).1 ≤
        (biomassAccumulation crop dap delayedCDs hiRef pctLag b bNS tr' trPot et0 true).1 :=
  ⟨biomass_nondecreasing crop dap delayedCDs hiRef pctLag b bNS tr trPot et0 hy0 hy1 hw h htr het,
   biomass_mono_in_tr crop dap delayedCDs hiRef pctLag b bNS tr tr' trPot et0 hy0 hy1 hw h het htr'⟩

/-- Outside a growing season biomass is zero. -/
theorem biomass_zero_offseason (crop : BioCrop α)
    (dap delayedCDs hiRef pctLag b bNS tr trPot et0 : α) :
    biomassAccumulation crop dap delayedCDs hiRef pctLag b bNS tr trPot et0 false = (0, 0) :=
  biomass_offseason crop dap delayedCDs hiRef pctLag b bNS tr trPot et0

/-- Daily growing degree days lie between zero and the crop's upper-minus-base temperature range
(all three methods) … -/
theorem degree_days_in_range {m : Nat} {tupp tbase tmax tmin g : α} (h : tbase ≤ tupp)
    (hg : growingDegreeDay m tupp tbase tmax tmin = some g) : 0 ≤ g ∧ g ≤ tupp - tbase :=
  gdd_range h hg

/-- … hence the cumulative value, which the day adds them to, never decreases. -/
theorem cumulative_degree_days_never_decrease {m : Nat} {tupp tbase tmax tmin g cum : α}
    (h : tbase ≤ tupp) (hg : growingDegreeDay m tupp tbase tmax tmin = some g) : cum ≤ cum + g := by
  have := (gdd_range h hg).1
  linarith


/-! ### every simulated day of every run -/

/-- **Run level.** The crop envelope `CropInv` (0 ≤ CC ≤ CC_ns ≤ CCx, adjusted covers ≤ 1, rooting
depth within [Zmin, Zmax] and below the layer-limited potential, HI ≤ HI0, HIadj ≤ (1+dHI0/100)·HI,
0 ≤ B ≤ B_ns, …) holds on every reachable state and on every simulated day of every run, through
the season-start resets — by induction over the run; the per-day hypotheses that could not be
discharged from the previous day (`DayCropOK`: rewatering cap, yield-formation switch, Tr ≤
TrPot_ns, ET0 > 0) are explicit. -/
theorem run_crop_envelope {F : Fn α} {T : TrigFn α} {cfg : RunCfg α} {s : RunState α}
    (hr : RunReach F T cfg s) (hs0 : -1 ≤ cfg.clock.season0)
    (h0 : CropInv F (paramsOf cfg cfg.clock.season0 false) cfg.init)
    (hreset : ∀ k, ResetCropOK (cfg.seasonCrop k))
    (hOK : ∀ d ∈ s.daysRev, DayCropOK F T d) :
    -1 ≤ s.season ∧ CropInv F (paramsOf cfg s.season false) s.day ∧
      ∀ d ∈ s.daysRev, CropInv F d.P d.st ∧ CropInv F d.P d.r.state :=
  run_cropInv hr hs0 h0 hreset hOK


/-! ### the crop catalogue satisfies the parameter premises (generated from `crop_params.py` + `crop.py` on every run) -/

section catalogue
variable {α : Type} [Field α] [LinearOrder α] [IsStrictOrderedRing α]

/-- Every crop that `crop_params.py` defines now satisfies every raw-parameter premise of the C05
theorems (root parameters well-formed, `0 < CC0`, `0 < CCx ≤ 1`, `0 ≤ CDC`,
`CC0 ≤ CCx·(1 − CGC·dtMax)`, `0 < HIini < HI0`, `b_HI` switched off or ≥ 1, `0 ≤ 1 + dHI0/100`,
ordered thresholds, `0 ≤ WPy ≤ 100`, `0 ≤ WP`, `Tbase ≤ Tupp`, …). -/
theorem catalogue_crops_satisfy_parameter_premises :
    ∀ c ∈ Aqua.Generated.cropFullTable, CropFullOK c := catalogue_ok

/-- The three parameter premises that do NOT hold for the whole catalogue, with the exact list of
crops violating each. -/
theorem catalogue_premise_exceptions : ∀ c ∈ Aqua.Generated.cropFullTable,
    (c.LeafyOK ↔ c.name ∉ ["SugarCane"]) ∧
    (c.LagLe3 ↔ c.name ∉ ["PaddyRice", "PaddyRiceGDD", "localpaddy"]) ∧
    (c.YldWCOK ↔ c.name ∉ ["PotatoLocalGDD", "localpaddy", "MaizeChampionGDD", "Cassava"]) :=
  catalogue_exceptions

theorem catalogue_root_parameters_wellformed (K : CropDerived α) :
    ∀ c ∈ Aqua.Generated.cropFullTable, (c.rdCrop K).WF := catalogue_rdCrop_wf K

theorem catalogue_reset_inside_envelope (K : CropDerived α) :
    ∀ c ∈ Aqua.Generated.cropFullTable, ResetCropOK (c.cropParams K) := catalogue_resetCropOK K

/-- One day (or one day's degree days) of unrestricted growth from CC0 stays below CCx for every
catalogue crop: the premise `CcCropPre` of the canopy envelope, from the laws of exp alone. -/
theorem catalogue_canopy_growth_step_below_ccx {F : Fn α} (hF : ExpOrdLaws F) (hG : ExpGeomLaw F)
    (K : CropDerived α) :
    ∀ c ∈ Aqua.Generated.cropFullTable, ∀ P : DayParams α, P.cx = c.cropX K → CcCropPre F P :=
  catalogue_ccCropPre K hF hG

/-- `run_crop_envelope` with `hreset` discharged: every season's crop is a catalogue crop. -/
theorem run_crop_envelope_catalogue {F : Fn α} {T : TrigFn α} {cfg : RunCfg α} {s : RunState α}
    (hr : RunReach F T cfg s) (hs0 : -1 ≤ cfg.clock.season0)
    (h0 : CropInv F (paramsOf cfg cfg.clock.season0 false) cfg.init)
    (hcrop : ∀ k, ∃ c ∈ Aqua.Generated.cropFullTable, ∃ K : CropDerived α,
      cfg.seasonCrop k = c.cropParams K)
    (hOK : ∀ d ∈ s.daysRev, DayCropOK F T d) :
    -1 ≤ s.season ∧ CropInv F (paramsOf cfg s.season false) s.day ∧
      ∀ d ∈ s.daysRev, CropInv F d.P d.st ∧ CropInv F d.P d.r.state :=
  run_cropInv_catalogue hr hs0 h0 hcrop hOK
end catalogue

/-! ### run level, per-day premises discharged (`Proofs/RunClosed*.lean`) -/

section closed
variable {α : Type} [Field α] [LinearOrder α] [IsStrictOrderedRing α]

/-- **Run level, closed.** The C05 envelope `CropEnv` (canopy, roots, harvest index, `0 ≤ B`) in
every reachable state and at the start/end of every simulated day, `ccx_act ≤ CCx` on every day
(rewatering days included), harvest index and biomass non-decreasing within a season — premises
on configuration and weather only, plus the capillary-rise residual. -/
theorem run_crop_envelope_closed {F : Fn α} {T : TrigFn α} {cfg : RunCfg α} {s : RunState α}
    {A : α} (hC : CfgOK F T cfg) (hT : CfgTrOK F cfg A) (hJ : CfgRwOK F cfg)
    (hW : WeatherOK F cfg) (hr : RunReach F T cfg s) (hR : ∀ d ∈ s.daysRev, ResidualW d) :
    (-1 ≤ s.season ∧ CropEnv F (paramsOf cfg s.season false) s.day ∧ RunInvT cfg A s ∧
        RunInvJ F cfg s) ∧
      ∀ d ∈ s.daysRev, CropEnv F d.P d.st ∧ CropEnv F d.P d.r.state ∧
        d.r.state.ccxAct ≤ d.P.cx.cc.ccx ∧ 0 ≤ d.r.flux.trPot ∧
        (d.D.gs = true → d.st.hi ≤ d.r.state.hi ∧ d.st.biomass ≤ d.r.state.biomass ∧
          0 ≤ d.r.flux.tr ∧ d.r.flux.tr ≤ d.r.flux.trPot) ∧
        (0 ≤ d.st.ccxW ∧ d.st.ccxW ≤ d.P.cx.cc.ccx) :=
  run_crop_closed hC hT hJ hW hr hR

/-- the full `CropInv` (with `B ≤ B_ns`) needs `TrPot ≤ TrPot_ns` in addition — which is false
inside the envelope (`RunClosedExample.trPot_gt_trPotNS`) and stays a hypothesis (`ResidualNS`) -/
theorem run_crop_envelope_full_closed {F : Fn α} {T : TrigFn α} {cfg : RunCfg α}
    {s : RunState α} {A : α} (hC : CfgOK F T cfg) (hT : CfgTrOK F cfg A) (hJ : CfgRwOK F cfg)
    (hW : WeatherOK F cfg) (hr : RunReach F T cfg s) (hR : ∀ d ∈ s.daysRev, ResidualNS d) :
    -1 ≤ s.season ∧ CropInv F (paramsOf cfg s.season false) s.day ∧
      ∀ d ∈ s.daysRev, CropInv F d.P d.st ∧ CropInv F d.P d.r.state :=
  run_cropInv_closed_rw hC hT hJ hW hr hR

/-- same conclusion as `run_crop_envelope`, hypotheses `CfgOK`, `WeatherOK`, `Residual` -/
theorem run_crop_envelope_of_residual {F : Fn α} {T : TrigFn α} {cfg : RunCfg α}
    {s : RunState α} (hC : CfgOK F T cfg) (hW : WeatherOK F cfg) (hr : RunReach F T cfg s)
    (hR : ∀ d ∈ s.daysRev, Residual d) :
    -1 ≤ s.season ∧ CropInv F (paramsOf cfg s.season false) s.day ∧
      ∀ d ∈ s.daysRev, CropInv F d.P d.st ∧ CropInv F d.P d.r.state :=
  run_cropInv_closed hC hW hr hR
end closed


/-! ### degree days counted for the crop calendar -/

section calendarGdd
variable {α : Type} [Field α] [LinearOrder α] [IsStrictOrderedRing α]

/-- the degree-day series from which the thermal calendar is derived (at initialisation and at every
season start) lies in `[0, Tupp − Tbase]` day by day, and its running sum never decreases -/
theorem calendar_degree_days_in_range (m : GddMethod) {tbase tupp : α} (h : tbase ≤ tupp)
    (temps : List (α × α)) :
    (∀ g ∈ gddSeriesInit m tbase tupp temps, 0 ≤ g ∧ g ≤ tupp - tbase) ∧
    (∀ g ∈ gddSeriesReset m tbase tupp temps, 0 ≤ g ∧ g ≤ tupp - tbase) ∧
    (cumsum (gddSeriesReset m tbase tupp temps)).Pairwise (· ≤ ·) :=
  ⟨gddSeriesInit_range m h temps, gddSeriesReset_range m h temps,
    cumsum_pairwise (fun g hg => (gddSeriesReset_range m h temps g hg).1)⟩

/-- the derived calendar is ordered: start of yield formation ≤ its end ≤ maturity < 365 days -/
theorem thermal_calendar_ordered {F : Fn α} {c : CalGDDIn α} {temps : List (α × α)}
    {o : CalGDDOut α} (h : calendarInit F c temps = .ok o) (hy : 0 ≤ c.yldForm)
    (hm : c.hiStart + c.yldForm ≤ c.maturity) :
    1 ≤ o.days.hiStartCD ∧ o.days.hiStartCD ≤ o.days.hiEndCD ∧
    o.days.hiEndCD ≤ o.days.maturityCD ∧ o.days.maturityCD < 365 ∧ 0 ≤ o.days.yldFormCD :=
  calendarInit_order h hy hm

/-- **calendar-day crop converted to thermal time** (`SwitchGDD = 1`, `compute_crop_calendar` +
`prepare_gdd`, summary `'mean'`, fewer than 8 seasons in the window so that numpy's mean is the plain
sum): the converted thresholds keep the order of the calendar-day positions they were read at.
`toInt` is Python's `int(·)`; no law of `F` is used. -/
theorem converted_calendar_ordered {F : Fn α} {toInt : α → Int} {c : CalCDIn α} {m : Nat}
    {tbase tupp oldYF oldFD : α} {hasCol : Bool} {rows : List (Option Nat × α × α)}
    {r : CalSwitchOut α} (htb : tbase ≤ tupp)
    (hn : (uniqLabels (rows.map (·.1))).length < 8)
    (h : calendarInitCDSwitch F toInt c m tbase tupp hasCol 0 oldYF oldFD rows = .ok r)
    (h0 : 0 ≤ toInt c.emergenceCD) (h1 : toInt c.emergenceCD ≤ toInt c.senescenceCD)
    (h2 : toInt c.senescenceCD ≤ toInt c.maturityCD) :
    r.cal.emergence ≤ r.cal.senescence ∧ r.cal.senescence ≤ r.cal.maturity :=
  let o := calendarInitCDSwitch_mean_order htb hn h
  ⟨o.2.2.1 h0 h1, o.2.2.2.1 (le_trans h0 h1) h2⟩

/-- … the same for ANY number of seasons in the window (numpy's pairwise / eight-lane summation
equals the plain sum over a field: `npSum_eq_sum`), summary `'mean'`. -/
theorem converted_calendar_ordered_any_seasons {F : Fn α} {toInt : α → Int} {c : CalCDIn α} {m : Nat}
    {tbase tupp oldYF oldFD : α} {hasCol : Bool} {rows : List (Option Nat × α × α)}
    {r : CalSwitchOut α} (htb : tbase ≤ tupp)
    (h : calendarInitCDSwitch F toInt c m tbase tupp hasCol 0 oldYF oldFD rows = .ok r)
    (h0 : 0 ≤ toInt c.emergenceCD) (h1 : toInt c.emergenceCD ≤ toInt c.senescenceCD)
    (h2 : toInt c.senescenceCD ≤ toInt c.maturityCD) :
    r.cal.emergence ≤ r.cal.senescence ∧ r.cal.senescence ≤ r.cal.maturity :=
  let o := calendarInitCDSwitch_mean_order' htb h
  ⟨o.2.2.1 h0 h1, o.2.2.2.1 (le_trans h0 h1) h2⟩

/-- … and for summary `'median'` (sorting keeps pointwise order, `sortAsc_forall₂`, so `np.median`
is monotone, `gddNpMedian_mono`), any number of seasons. -/
theorem converted_calendar_ordered_median {F : Fn α} {toInt : α → Int} {c : CalCDIn α} {m : Nat}
    {tbase tupp oldYF oldFD : α} {hasCol : Bool} {rows : List (Option Nat × α × α)}
    {r : CalSwitchOut α} (htb : tbase ≤ tupp)
    (h : calendarInitCDSwitch F toInt c m tbase tupp hasCol 1 oldYF oldFD rows = .ok r)
    (h0 : 0 ≤ toInt c.emergenceCD) (h1 : toInt c.emergenceCD ≤ toInt c.senescenceCD)
    (h2 : toInt c.senescenceCD ≤ toInt c.maturityCD) :
    r.cal.emergence ≤ r.cal.senescence ∧ r.cal.senescence ≤ r.cal.maturity :=
  let o := calendarInitCDSwitch_median_order htb h
  ⟨o.2.2.1 h0 h1, o.2.2.2.1 (le_trans h0 h1) h2⟩

/-- the six order relations of the converted calendar (emergence ≤ max canopy ≤ senescence ≤ maturity,
start ≤ end of yield formation ≤ maturity), each under the order of the calendar-day positions it was
read at, for mean and median alike and any number of seasons -/
theorem converted_calendar_order_relations {F : Fn α} {toInt : α → Int} {c : CalCDIn α} {m : Nat}
    {tbase tupp oldYF oldFD : α} {hasCol : Bool} {sumFun : Nat} {rows : List (Option Nat × α × α)}
    {r : CalSwitchOut α} (hsf : sumFun = 0 ∨ sumFun = 1) (htb : tbase ≤ tupp)
    (h : calendarInitCDSwitch F toInt c m tbase tupp hasCol sumFun oldYF oldFD rows = .ok r) :
    (0 ≤ toInt c.emergenceCD → toInt c.emergenceCD ≤ toInt r.cal.maxCanopyCD →
      r.cal.emergence ≤ r.cal.maxCanopy) ∧
    (0 ≤ toInt r.cal.maxCanopyCD → toInt r.cal.maxCanopyCD ≤ toInt c.senescenceCD →
      r.cal.maxCanopy ≤ r.cal.senescence) ∧
    (0 ≤ toInt c.emergenceCD → toInt c.emergenceCD ≤ toInt c.senescenceCD →
      r.cal.emergence ≤ r.cal.senescence) ∧
    (0 ≤ toInt c.senescenceCD → toInt c.senescenceCD ≤ toInt c.maturityCD →
      r.cal.senescence ≤ r.cal.maturity) ∧
    (0 ≤ toInt c.hiStartCD → toInt c.hiStartCD ≤ toInt r.cal.hiEndCD →
      r.cal.hiStart ≤ r.cal.hiEnd) ∧
    (0 ≤ toInt r.cal.hiEndCD → toInt r.cal.hiEndCD ≤ toInt c.maturityCD →
      r.cal.hiEnd ≤ r.cal.maturity) :=
  calendarInitCDSwitch_order' hsf htb h

/-- … with a single season in the window the converted threshold of every stage IS the cumulative
growing degrees at its calendar-day position (mean and median alike). -/
theorem converted_calendar_single_season {toInt : α → Int} {cropType : Nat} {hasCol : Bool}
    {sumFun : Nat} {s : GddStagesIn α} {old g : GddStages α} {rows : List (Option Nat × α)} {k : Option Nat}
    (h : prepareGdd toInt cropType hasCol sumFun s old rows = .ok g)
    (hk : uniqLabels (rows.map (·.1)) = [k]) (hs : sumFun = 0 ∨ sumFun = 1) (a : Stage) :
    iloc (cumsum (seasonGdd rows k)) (toInt (a.cd s)) = some (a.val g) :=
  prepareGdd_single_season h hk hs a

/-- **round trip of a converted threshold** (single season, non-negative daily growing degrees): the thermal
threshold `prepare_gdd` stores for a stage read at calendar-day position `i = int(stageCD) ≥ 0` is, by the Mode-2
search (`firstAbove` = first position with cumulative growing degrees STRICTLY above the threshold), first exceeded at
position `i + 1`, provided day `i + 1` has positive growing degrees: the converted calendar reproduces the calendar
day it came from plus one. -/
theorem converted_threshold_round_trips {toInt : α → Int} {cropType : Nat} {hasCol : Bool} {sumFun : Nat}
    {s : GddStagesIn α} {old g : GddStages α} {rows : List (Option Nat × α)} {k : Option Nat}
    (h : prepareGdd toInt cropType hasCol sumFun s old rows = .ok g)
    (hk : uniqLabels (rows.map (·.1)) = [k]) (hs : sumFun = 0 ∨ sumFun = 1) (a : Stage)
    (hg : ∀ r ∈ rows, 0 ≤ r.2) (ha : 0 ≤ toInt (a.cd s))
    (hi : (toInt (a.cd s)).toNat + 1 < (seasonGdd rows k).length)
    (hpos : 0 < (seasonGdd rows k)[(toInt (a.cd s)).toNat + 1]) :
    firstAbove (cumsum (seasonGdd rows k)) (a.val g) = (toInt (a.cd s)).toNat + 1 :=
  Aqua.converted_threshold_round_trip h hk hs a hg ha hi hpos

/-- **Finding (modelled faithfully, proved of the model).**  After a successful conversion the
calendar type is 2 but `YldForm` and the flowering length still hold their *calendar-day* values
(`prepare_gdd` stores the converted lengths under the attribute names `YieldFormation` /
`FloweringDuration`, which nothing reads). -/
theorem converted_calendar_keeps_day_valued_lengths {F : Fn α} {toInt : α → Int} {c : CalCDIn α}
    {m : Nat} {tbase tupp oldYF oldFD : α} {hasCol : Bool} {sumFun : Nat}
    {rows : List (Option Nat × α × α)} {r : CalSwitchOut α}
    (h : calendarInitCDSwitch F toInt c m tbase tupp hasCol sumFun oldYF oldFD rows = .ok r) :
    r.cal.yldForm = c.yldFormCD ∧ r.cal.floweringCD = c.floweringCD ∧ r.calendarType = 2 ∧
    r.cal.hiEndCD = c.hiStartCD + c.yldFormCD :=
  yldForm_unchanged h
end calendarGdd

/-! ### run level, catalogue configurations (`Proofs/Catalogue*.lean`): every hypothesis is membership in a table
regenerated from the sources, a fact about initialisation outputs, or a premise on the weather -/

section catalogueRun
open Aqua.Response Aqua.HarvestIndexReal Aqua.Generated

/-- **Run level, catalogue configurations.** The C05 envelope in every reachable state and at both
ends of every simulated day, `ccx_act ≤ CCx`, harvest index and biomass non-decreasing within a
season, for every run of every catalogue configuration with `ET0 > 0`. -/
theorem catalogue_run_crop_envelope {cfg : RunCfg ℝ} {s : RunState ℝ} (h : CatCfg cfg)
    (het : ∀ t, 0 < (cfg.weather t).et0) (hr : RunReach realFn realTrig cfg s)
    (hR : ∀ d ∈ s.daysRev, ResidualW d) :
    (-1 ≤ s.season ∧ CropEnv realFn (paramsOf cfg s.season false) s.day ∧
        RunInvT cfg ((ageMax : ℚ) : ℝ) s ∧ RunInvJ realFn cfg s) ∧
      ∀ d ∈ s.daysRev, CropEnv realFn d.P d.st ∧ CropEnv realFn d.P d.r.state ∧
        d.r.state.ccxAct ≤ d.P.cx.cc.ccx ∧ 0 ≤ d.r.flux.trPot ∧
        (d.D.gs = true → d.st.hi ≤ d.r.state.hi ∧ d.st.biomass ≤ d.r.state.biomass ∧
          0 ≤ d.r.flux.tr ∧ d.r.flux.tr ≤ d.r.flux.trPot) ∧
        (0 ≤ d.st.ccxW ∧ d.st.ccxW ≤ d.P.cx.cc.ccx) :=
  Aqua.catalogue_run_crop_envelope h het hr hR

/-- the catalogue crops for which `CanopyDevEnd ≤ Senescence` (premise of the rewatering cap)
fails on raw parameters -/
theorem canopyDevEnd_exceptions : ∀ c ∈ cropFullTable,
    (c.DevEndOK ↔ c.name ∉ ["Barley", "BarleyGDD", "PaddyRice", "PaddyRiceGDD"]) :=
  catalogue_devEnd_exceptions
end catalogueRun

end Aqua.C05
