import AquaVerif.Proofs.SeasonIndep
import AquaVerif.Proofs.CropCalendar
import AquaVerif.Generated.ResetFields
import AquaVerif.Proofs.Seasons
import AquaVerif.Proofs.Response
import AquaVerif.Model.Reset
/-
Property C08 — seasons are independent when the off-season is skipped.

What the existing models carry, and what is proved of them:

1. **Clock / season state machine** (`Aqua.Clock`, biophysics abstracted to an oracle
   `ev : Nat → Bool × Bool`).  For **every** well-formed configuration `c` with the off-season
   skipped, **every** oracle, **every** season `k` and **every** reachable first day `s` of season
   `k` (hence every history of earlier seasons): the clock-level state components are the reset
   ones (`dap = 0`, `crop_mature`, `crop_dead`, `harvest_flag` cleared), and every in-season
   execution path from `s` is matched step for step by the single-season configuration
   `single c k` started on that planting date with the shifted oracle — same
   `(dap, growing-season flag, mature, dead, end-of-season condition)` rows, the summary row
   written on the same relative day, the season ending in both or in neither.  So the rows of
   season `k` depend only on the planting index, the latest harvest date, the window end and the
   oracle restricted to the season — on nothing written before.
   NOT proved at this level: that the *oracle* of season `k` (maturity / death as decided by the
   biophysics) is itself independent of the earlier seasons — that is part 3 plus the tie.
2. **CO2 factor**: the copy of the code executed at the start of seasons `k ≥ 1`
   (`reset_initial_conditions`) computes the same `crop.fCO2` as the copy executed for season 0
   (`compute_variables`) wherever it is defined; it is undefined (Python `UnboundLocalError`)
   exactly for `550 < CO2conc ≤ CO2ref`.
3. **The reset, as data** (`Model/Reset.lean`): every attribute of the state object is either
   assigned by `reset_initial_conditions`, or overwritten on the first in-season day before it is
   read (justification per field in `Model/Reset.lean`, by reading the code), or never written
   after initialisation, or listed in `knownLeaks` — the finding.  The lists are transcribed from
   the Python by hand; `decide` checks the *coverage*, not the justifications.

A functional model cannot see aliasing of `th`/`thini` (repaired in the repository, commit
2fac2e8); that part of C08 rests on the tie and the multi-season differential.
Only theorems live here (lemmas: `Proofs/Seasons.lean`, `Proofs/Response.lean`).
-/

namespace Aqua.C08
open Aqua Aqua.Clock Aqua.Reset

/-! ## 1. Clock level -/

variable {c : Cfg} {ev : Ev}

/-- Whenever a step changes the season counter the clock-level state is reset: `dap = 0`,
`crop_mature`, `crop_dead`, `harvest_flag` cleared, the counter advanced by exactly one and the
clock standing on the new season's planting date. -/
theorem every_season_change_resets {s s' : St} (hw : WF c) (hr : Reach c ev s)
    (hp : perform c ev s = .ok s') (hne : s'.season ≠ s.season) :
    Fresh s' ∧ s'.season = s.season + 1 ∧ s'.t = c.pl s'.season.toNat ∧ s'.finished = false :=
  season_change_resets hw hr hp hne

/-- Every growing season starts from the reset clock state: a reachable unfinished state standing
on the planting date of its season has `dap = 0` and the three flags cleared — whatever happened
in the seasons before. -/
theorem every_season_starts_reset {s : St} (hw : WF c) (hr : Reach c ev s)
    (hf : s.finished = false) (h0 : 0 ≤ s.season) (ht : s.t = c.pl s.season.toNat) : Fresh s :=
  season_start_fresh hw hr hf h0 ht

/-- The single-season configuration started on the planting date of season `k` is well formed and
starts in the fresh state. -/
theorem single_season_run_is_well_formed (hw : WF c) {k : Nat} (hk : k < c.planting.length) :
    WF (single c k) ∧ init (single c k) = .ok freshSt :=
  ⟨wf_single hw hk, init_single hw hk⟩

/-- One day: from related states (same counters and flags, clocks shifted by the planting index)
the multi-season run and the single-season run write the same row, write the summary row on the
same relative day or not at all, and stay related — or the season is over in both. -/
theorem season_day_shift_invariant {k : Nat} {s s1 s' : St} (hw : WF c)
    (hk : k < c.planting.length) (hoff : c.offSeason = false)
    (hnext : k + 1 < c.planting.length → c.hv k ≤ (c.pl (k + 1) : Int))
    (hS : Sim c k s s1) (hp : perform c ev s = .ok s') :
    ∃ s1', perform (single c k) (shiftEv ev (c.pl k)) s1 = .ok s1' ∧
      (∃ r r1, s'.rowsRev = r :: s.rowsRev ∧ s1'.rowsRev = r1 :: s1.rowsRev ∧
        RowSh (c.pl k) k r r1) ∧
      ((s'.summaryRev = s.summaryRev ∧ s1'.summaryRev = s1.summaryRev) ∨
        (s'.summaryRev = ((k : Int), s.t) :: s.summaryRev ∧
          s1'.summaryRev = (0, s1.t) :: s1.summaryRev)) ∧
      ((s'.finished = false ∧ s'.season = (k : Int) ∧ Sim c k s' s1') ∨
        ((s'.finished = true ∨ s'.season = (k : Int) + 1) ∧ s1'.finished = true)) :=
  step_shift hw hk hoff hnext hS hp

/-- **Season `k` of a multi-season run equals a single-season run started on its planting date**
(clock level).  For a valid configuration with the off-season skipped, every reachable first day
`s` of season `k` and every in-season execution path `s ⟶ s'` of the multi-season run, the
single-season run `single c k` with the shifted oracle has a path from its *initial* state whose
daily rows (`rs1`) agree one by one with the rows the multi-season run wrote on the path (`rs`) up
to the shift of the day index and the season label, whose summary rows agree likewise, and which
is finished whenever the multi-season run has finished or left the season. -/
theorem season_rows_shift_invariant {k : Nat} {s s' : St} (hv : Valid c)
    (hoff : c.offSeason = false) (hr : Reach c ev s) (hf : s.finished = false)
    (hs : s.season = (k : Int)) (ht : s.t = c.pl k)
    (hpath : SeasonPath c ev (k : Int) s s') :
    ∃ s1' rs rs1 sm sm1, SeasonPath (single c k) (shiftEv ev (c.pl k)) 0 freshSt s1' ∧
      s'.rowsRev = rs ++ s.rowsRev ∧ s1'.rowsRev = rs1 ∧
      Pairs (RowSh (c.pl k) k) rs rs1 ∧
      s'.summaryRev = sm ++ s.summaryRev ∧ s1'.summaryRev = sm1 ∧
      Pairs (SumSh (c.pl k) k) sm sm1 ∧
      ((s'.finished = false ∧ s'.season = (k : Int) ∧ Sim c k s' s1') ∨
        ((s'.finished = true ∨ s'.season = (k : Int) + 1) ∧ s1'.finished = true)) := by
  have hw := hv.wf
  have hk : k < c.planting.length := by
    have := ((good_of_reach hw hr).live hf).shi
    rw [hs, nSeasons_eq] at this; omega
  have hnext : k + 1 < c.planting.length → c.hv k ≤ (c.pl (k + 1) : Int) :=
    fun h => hv.2.2 k (by omega)
  obtain ⟨s1', rs, rs1, sm, sm1, h1, h2, h3, h4, h5, h6, h7, h8⟩ :=
    season_path_shift hw hk hoff hnext (sim_at_season_start hv hr hf hs ht) hpath
  exact ⟨s1', rs, rs1, sm, sm1, h1, h2, by simpa [freshSt] using h3, h4, h5,
    by simpa [freshSt] using h6, h7, h8⟩

/-! ## 2. The CO2 factor of later seasons -/

section co2
variable {α : Type} [Field α] [LinearOrder α] [IsStrictOrderedRing α]

/-- The two copies of the CO2 code agree wherever the reset copy is defined, i.e. unless
`550 < CO2conc ≤ CO2ref`. -/
theorem fco2_reset_eq_init (F : Fn α) {conc ref : α} (bsted bface fsink wp : α)
    (h : ¬ (550 < conc ∧ conc ≤ ref)) :
    fco2Reset F conc ref bsted bface fsink wp = fco2Init F conc ref bsted bface fsink wp :=
  fco2Init_eq_fco2Reset F bsted bface fsink wp h

/-- … in particular for every concentration when the reference is at most 550 ppm (default
369.41). -/
theorem fco2_reset_eq_init_for_default_reference (F : Fn α) {ref : α}
    (conc bsted bface fsink wp : α) (href : ref ≤ 550) :
    fco2Reset F conc ref bsted bface fsink wp = fco2Init F conc ref bsted bface fsink wp :=
  fco2Init_eq_fco2Reset_of_ref_le F conc bsted bface fsink wp href

/-- The exact exception: the reset copy raises (`UnboundLocalError: fCO2old`) iff
`550 < CO2conc ≤ CO2ref` — while the season-0 copy never fails. -/
theorem fco2_reset_fails_exactly_when (F : Fn α) (conc ref bsted bface fsink wp : α) :
    (fco2Reset F conc ref bsted bface fsink wp = none ↔ (550 < conc ∧ conc ≤ ref)) ∧
      (fco2Init F conc ref bsted bface fsink wp).isSome :=
  ⟨fco2Reset_eq_none_iff F conc ref bsted bface fsink wp,
   fco2Init_isSome F conc ref bsted bface fsink wp⟩

end co2

/-! ## 3. The reset as data -/

/-- Every attribute of the state object is reset at season start, or overwritten before it is read
on the first in-season day, or never written after initialisation, or a recorded leak. -/
theorem reset_covers_all : ∀ f ∈ allFields,
    f ∈ resetFields ∨ f ∈ rewrittenBeforeRead ∨ f ∈ neverWrittenAfterInit ∨ f ∈ knownLeaks := by
  decide

/-- The four classes are pairwise disjoint and contain only declared attributes; the two
conditional resets (`th`, `surface_storage`) are among the reset fields. -/
theorem reset_classes_disjoint_and_declared :
    (∀ f ∈ resetFields, f ∈ allFields ∧ f ∉ rewrittenBeforeRead ∧ f ∉ neverWrittenAfterInit ∧
      f ∉ knownLeaks) ∧
    (∀ f ∈ rewrittenBeforeRead, f ∈ allFields ∧ f ∉ neverWrittenAfterInit ∧ f ∉ knownLeaks) ∧
    (∀ f ∈ neverWrittenAfterInit, f ∈ allFields ∧ f ∉ knownLeaks) ∧
    (∀ f ∈ knownLeaks, f ∈ allFields) ∧
    (∀ f ∈ resetOnlyWhenOffSeasonSkipped, f ∈ resetFields) := by
  decide

/-- No attribute is left unjustified (the former finding `cc0_adj` is repaired in /repo). -/
theorem known_leaks_are : knownLeaks = [] := rfl

/-- `e_pot` and `t_pot` (yesterday's potential evaporation / transpiration, read by `irrigation`
on the first day of the next season) are reset (repository commit 0e36d37). -/
theorem evaporation_and_transpiration_demand_reset : "e_pot" ∈ resetFields ∧ "t_pot" ∈ resetFields := by
  decide

/-- Tie to the source, re-proved on every run: the state object of /repo has exactly the reviewed
fields (table regenerated by `harness/translate/resetfields.py`) … -/
theorem state_fields_match_source :
    (∀ f ∈ Aqua.Generated.allFieldsGen, f ∈ allFields) ∧ (∀ f ∈ allFields, f ∈ Aqua.Generated.allFieldsGen) :=
  Aqua.Generated.allFields_match

/-- … and `reset_initial_conditions` in /repo assigns exactly the reviewed reset fields: a dropped
or added reset, or a new state field, breaks this obligation. -/
theorem reset_fields_match_source :
    (∀ f ∈ Aqua.Generated.resetFieldsGen, f ∈ resetFields) ∧ (∀ f ∈ resetFields, f ∈ Aqua.Generated.resetFieldsGen) :=
  Aqua.Generated.resetFields_match


/-! ### the crop calendar of a later season (`Model/CropCalendar.lean`; both code sites are tied to the Python:
`compute_crop_calendar` by the `crop_calendar` replay, the thermal-calendar block of
`reset_initial_conditions` by the `reset_calendar` replay) -/

section calendar
variable {α : Type} [Field α] [LinearOrder α] [IsStrictOrderedRing α]

/-- **Crop-calendar clause.**  For a thermal-time crop the calendar that the season-start reset
recomputes from the temperature records from that season's planting date on — days to maturity, to
maximum canopy, to the end of canopy development, to the start and end of yield formation, the length
of yield formation and of flowering, and the harvest-index growth coefficients derived from them —
is exactly what the initialisation of a run started on that planting date computes (`calendarInitHI`:
`compute_crop_calendar` followed by the harvest-index block of `compute_variables`), errors included.
Premise: `Tbase ≤ Tupp` or `0 ≤ Maturity` (with `Tupp < Tbase` pandas and numpy clip differently; the
calendars then still agree unless the maturity threshold is negative —
`Aqua.CalExample.reset_ne_init`). -/
theorem later_season_calendar_is_fresh_calendar (F : Fn α) (fuel : Nat) (c : CalGDDIn α)
    (h : c.tbase ≤ c.tupp ∨ 0 ≤ c.maturity) (hi0 hiIni : α) (temps : List (α × α)) :
    calendarReset F fuel (c.toReset F hi0 hiIni) temps
      = (calendarInitHI F fuel c hi0 hiIni temps).map CalResetOut.ofInit :=
  reset_eq_init F fuel c h hi0 hiIni temps

/-- the daily degree days counted by the reset are those of the daily `growing_degree_day` process,
for every method and with no premise — the thermal clock of a later season runs as in a fresh run -/
theorem reset_degree_days_are_the_daily_ones (m : GddMethod) (tbase tupp tmin tmax : α) :
    growingDegreeDay m.toNat tupp tbase tmax tmin = some (gddDayReset m tbase tupp tmin tmax) :=
  gddDayReset_eq_daily m tbase tupp tmin tmax

/-- and so are the ones counted at initialisation when `Tbase ≤ Tupp` -/
theorem init_degree_days_are_the_daily_ones (m : GddMethod) {tbase tupp : α} (h : tbase ≤ tupp)
    (tmin tmax : α) :
    growingDegreeDay m.toNat tupp tbase tmax tmin = some (gddDayInit m tbase tupp tmin tmax) :=
  gddDayInit_eq_daily m h tmin tmax
end calendar

/-! ## 4. Run level: season `k` of a multi-season run is a fresh single-season run -/

section run
variable {α : Type} [Field α] [LinearOrder α] [IsStrictOrderedRing α]
  {F : Fn α} {T : TrigFn α} {cfg : RunCfg α} {k : Nat} {init' : DayState' α}

/-- **On its first day of a season the day function does not read what an earlier season left in
the fields the reset does not assign.**  From any two start states that agree on the live fields
(`StEq`: everything except `FluxOut`, `th_fc_Adj` under a water table, `w_surf`, `evap_z`,
`stage2`, `w_stage_2`, `z_root`, `hi_ref`, `yield_form`, `depletion`, `taw`, `z_gw`, `wt_in_soil`,
`YieldPot`) a successful first day after planting (growing season, `dap` becomes 1, off-season not
simulated, known crop type) gives the same state, rows, summary row and ghost outputs. -/
theorem first_day_ignores_unreset_fields {P : DayParams α} {st st' : DayState' α} {D : DayIn' α}
    {r : DayResult α} (h : fullDay F T P st D = .ok r) (he : StEq P.W.waterTable st st')
    (hfd : FirstDay P st D) :
    ∃ r', fullDay F T P st' D = .ok r' ∧ r'.noFlux = r.noFlux ∧ r'.state = r.state :=
  fullDay_congr_dead h he hfd

/-- **The reset erases the history**: with the off-season skipped, the states
`reset_initial_conditions` makes of two run states (same compartments; without a water table the
same adjusted field capacity) agree on every live field.  Together with the previous theorem:
every attribute of the state object is reset, constant along the run, or not read. -/
theorem reset_erases_history (crop : CropParams α) {X Y : DayState' α}
    (hoff : cfg.clock.offSeason = false) (hX : CellsInv cfg X) (hY : CellsInv cfg Y)
    (hlen : cfg.init.cells.length ≤ cfg.thini.length) :
    StEq cfg.W0.waterTable (resetState cfg crop X) (resetState cfg crop Y) :=
  resetState_stEq crop hoff hX hY hlen

/-- **Season `k` of a multi-season run equals the single-season run started on its planting date**
(run model, every `F`, `T`).  For every reachable state `s` of the multi-season run there is a
reachable state `s1` of the run of the fresh configuration for season `k` whose day records are,
index for index, those of season `k` in `s` — same parameters and inputs, same state after each day,
same `water_storage` / `water_flux` / `crop_growth` rows and summary row up to the
`time_step_counter` and `season_counter` labels; once the multi-season run has left season `k` the
fresh run is finished. -/
theorem season_k_equals_fresh_run {s : RunState α} (hP : SeasonPre cfg k init')
    (hr : RunReach F T cfg s) :
    ∃ s1, RunReach F T (freshCfgI cfg k init') s1 ∧
      List.Forall₂ (RecSh cfg.W0.waterTable (cfg.clock.pl k) k)
        (seasonRecs (k : Int) s.daysRev) s1.daysRev ∧
      (((k : Int) < s.season ∨ (s.season = (k : Int) ∧ s.finished = true)) →
        s1.finished = true) :=
  season_independent hP hr

/-- … in terms of the output tables: the rows of season `k` of the `water_flux` and `crop_growth`
tables and the summary row of season `k` are the rows of the fresh run with the day counter
shifted by the planting index and the season label replaced. -/
theorem season_k_tables_equal_fresh_run {s : RunState α} (hP : SeasonPre cfg k init')
    (hr : RunReach F T cfg s) :
    ∃ s1, RunReach F T (freshCfgI cfg k init') s1 ∧
      s.fluxTable.filter (fun x => decide (x.season = (k : Int))) =
        s1.fluxTable.map (fun x => { x with tsc := x.tsc + cfg.clock.pl k, season := (k : Int) }) ∧
      s.growthTable.filter (fun x => decide (x.season = (k : Int))) =
        s1.growthTable.map (fun x => { x with tsc := x.tsc + cfg.clock.pl k, season := (k : Int) }) ∧
      s.summaryTable.filter (fun x => decide (x.season = (k : Int))) =
        s1.summaryTable.map (fun x => { x with tsc := x.tsc + cfg.clock.pl k, season := (k : Int) }) ∧
      (((k : Int) < s.season ∨ (s.season = (k : Int) ∧ s.finished = true)) →
        s1.finished = true) :=
  season_tables hP hr

/-- **No state of an earlier season leaks into a later one**: two runs whose weather and
water-table records differ only before the planting date of season `k` produce the same day
records in season `k`. -/
theorem no_state_leaks_into_later_season {s s2 : RunState α} {w2 : Nat → Weather α} {z2 : Nat → α}
    (hP : SeasonPre cfg k init')
    (hw2 : ∀ t, cfg.clock.pl k ≤ t → w2 t = cfg.weather t)
    (hz2 : ∀ t, cfg.clock.pl k ≤ t → z2 t = cfg.zgw t)
    (hr : RunReach F T cfg s) (hr2 : RunReach F T (withForcing cfg w2 z2) s2)
    (hlen : (seasonRecs (k : Int) s.daysRev).length = (seasonRecs (k : Int) s2.daysRev).length) :
    List.Forall₂ (RecSame cfg.W0.waterTable) (seasonRecs (k : Int) s.daysRev)
      (seasonRecs (k : Int) s2.daysRev) :=
  no_leak hP hw2 hz2 hr hr2 hlen

/-- the state the first day of season `k` starts from is the configured initial state on every
live field -/
theorem season_starts_from_initial_conditions {s : RunState α} (hP : SeasonPre cfg k init')
    (hr : RunReach F T cfg s) (d : DayRec α)
    (hd : (seasonRecs (k : Int) s.daysRev).getLast? = some d) :
    StEq cfg.W0.waterTable d.st init' :=
  season_start_state hP hr d hd

end run

/-- `hi_ref` is the one attribute that would leak — for a crop type the package never builds -/
theorem hi_ref_leaks_only_for_unknown_crop_type :
    (hiRefCurrentDay DayExample.Fq hiLeakCrop (hiLeakIn 0.2) true).hiRef = 0.2 ∧
      (hiRefCurrentDay DayExample.Fq hiLeakCrop (hiLeakIn 0.3) true).hiRef = 0.3 :=
  hiRef_live_for_unknown_cropType


end Aqua.C08
