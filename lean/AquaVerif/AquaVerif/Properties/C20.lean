import AquaVerif.Proofs.InertRunNeutral
import AquaVerif.Proofs.Inert
import AquaVerif.Proofs.CropCalendar
/-
Property C20 — disabled features and neutral settings are inert.

What is modelled: `soil_evaporation` (`Aqua.soilEvaporation`), `rainfall_partition`
(`rainPartition`), `infiltration`, `irrigation` — the four processes that read the switches and
parameters the property names — plus the one call-site expression that gates the curve-number
adjustment (`cnAdjArg`, line 217 of `run_single_timestep.py`).

What is quantified over: **every** linearly ordered field, **every** `F : Fn α` (no law of
`exp/log/pow/round` is needed), **every** profile, state, day input and parameter record, and every
value of the parameters declared inert.  Each statement compares two calls of the same model
function.  Equalities are between complete results — all outputs *and* the error outcome — except
where a ghost `branch` id necessarily differs; it is then projected away (`EvapOut.noBranch`,
`InfOut.noBranch`, `IrrOut.core`).  Lifting from one process call to whole days and runs is by
congruence of the (functional) day composition and is not restated here; the thermal-calendar /
explicit-default-harvest-date clause of C20 is not covered by these models (tie only).
Only theorems live here (lemmas: `Proofs/Inert.lean`, `Proofs/Infiltration.lean`,
`Proofs/Irrigation.lean`).
-/

set_option linter.unusedSectionVars false
namespace Aqua.C20
open Aqua
variable {α : Type} [Field α] [LinearOrder α] [IsStrictOrderedRing α]

/-! ## Mulches -/

/-- Without mulches, the mulch factor and the mulched-area percentage have no effect on soil
evaporation. -/
theorem mulch_off_ignores_params (F : Fn α) (P : EvapParams α) (S : EvapState α)
    (cells : List (Cell α)) (D : EvapDay α) (f p : α) (hm : P.mulches = false) :
    soilEvaporation F { P with fMulch := f, mulchPct := p } S cells D =
      soilEvaporation F P S cells D :=
  soilEvaporation_withSurf_of_adjust F P P.mulches f p P.wetSurf S cells D
    (fun e => esPotAdjust_mulch_off P S D f p e hm)

/-- Mulches with 0 % cover or a zero mulch factor behave exactly as no mulches. -/
theorem mulch_neutral_is_off (F : Fn α) (P : EvapParams α) (S : EvapState α)
    (cells : List (Cell α)) (D : EvapDay α) (h0 : P.mulchPct = 0 ∨ P.fMulch = 0) :
    (soilEvaporation F P S cells D).map EvapOut.noBranch =
      (soilEvaporation F { P with mulches := false } S cells D).map EvapOut.noBranch :=
  (soilEvaporation_withSurf_of_adjust_value F P false P.fMulch P.mulchPct P.wetSurf S cells D
    (fun e => esPotAdjust_mulch_neutral P S D e h0)).symm

/-! ## Bunds -/

/-- Without bunds the bund height has no effect on the rainfall partition … -/
theorem bunds_off_ignores_height_in_rainfall_partition (F : Fn α) (p : α) (cells : List (Cell α))
    (daySub : Nat) (srInhb : Bool) (zBund zBund' cnAdjPct soilCN : α) (adjCN : Bool) (zCN : α) :
    rainPartition F p cells daySub srInhb false zBund cnAdjPct soilCN adjCN zCN =
      rainPartition F p cells daySub srInhb false zBund' cnAdjPct soilCN adjCN zCN :=
  rainPartition_bunds_off F p cells daySub srInhb zBund zBund' cnAdjPct soilCN adjCN zCN

/-- … nor on infiltration. -/
theorem bunds_off_ignores_height_in_infiltration (F : Fn α) (cells : List (Cell α))
    (pond infl irr appEff zBund zBund' dp0 ro0 : α) (gs : Bool) :
    infiltration F cells pond infl irr appEff false zBund dp0 ro0 gs =
      infiltration F cells pond infl irr appEff false zBund' dp0 ro0 gs :=
  infiltration_bunds_off F cells pond infl irr appEff zBund zBund' dp0 ro0 gs

/-- Bunds lower than 1 mm behave as no bunds, in the rainfall partition and in infiltration. -/
theorem low_bund_is_no_bund (F : Fn α) (p : α) (cells : List (Cell α)) (daySub : Nat)
    (srInhb : Bool) (zBund cnAdjPct soilCN : α) (adjCN : Bool) (zCN : α)
    (pond infl irr appEff dp0 ro0 : α) (gs : Bool) (hz : zBund < 0.001) :
    rainPartition F p cells daySub srInhb true zBund cnAdjPct soilCN adjCN zCN =
        rainPartition F p cells daySub srInhb false zBund cnAdjPct soilCN adjCN zCN ∧
      (infiltration F cells pond infl irr appEff true zBund dp0 ro0 gs).map InfOut.noBranch =
        (infiltration F cells pond infl irr appEff false zBund dp0 ro0 gs).map InfOut.noBranch :=
  ⟨rainPartition_low_bund F p cells daySub srInhb zBund cnAdjPct soilCN adjCN zCN hz,
   infiltration_low_bund F cells pond infl irr appEff zBund dp0 ro0 gs hz.le⟩

/-! ## Curve-number adjustment -/

/-- With the curve-number adjustment switched off, the adjustment percentage has no effect: the
call site passes 0 whatever the percentage. -/
theorem cn_adjust_off (F : Fn α) (p : α) (cells : List (Cell α)) (daySub : Nat)
    (srInhb bunds : Bool) (zBund pct pct' soilCN : α) (adjCN : Bool) (zCN : α) :
    rainPartition F p cells daySub srInhb bunds zBund (cnAdjArg false pct) soilCN adjCN zCN =
      rainPartition F p cells daySub srInhb bunds zBund (cnAdjArg false pct') soilCN adjCN zCN :=
  rainPartition_cnadj_off F p cells daySub srInhb bunds zBund pct pct' soilCN adjCN zCN

/-- … and a percentage of 0 is neutral: the soil's own curve number is used (shown on the branch
without antecedent-moisture adjustment, where the effective curve number is an output). -/
theorem cn_adjust_zero_is_neutral (F : Fn α) (p : α) (cells : List (Cell α)) (daySub : Nat)
    (zBund soilCN zCN : α) :
    rainPartition F p cells daySub false false zBund (cnAdjArg false 0) soilCN false zCN =
      some { runoff := (scsSplit F p soilCN).1, infl := (scsSplit F p soilCN).2, daySub := 0,
             cn := soilCN } :=
  rainPartition_cnadj_zero F p cells daySub zBund soilCN zCN

/-- The percentage and the curve number enter only through the product `CN·(1 + pct/100)`. -/
theorem cn_adjust_enters_only_through_adjusted_cn (F : Fn α) (p : α) (cells : List (Cell α))
    (daySub : Nat) (srInhb bunds : Bool) (zBund pct soilCN : α) (adjCN : Bool) (zCN : α) :
    rainPartition F p cells daySub srInhb bunds zBund pct soilCN adjCN zCN =
      rainPartition F p cells daySub srInhb bunds zBund 0 (soilCN * (1 + pct / 100)) adjCN zCN :=
  rainPartition_cnadj_factors F p cells daySub srInhb bunds zBund pct soilCN adjCN zCN

/-! ## Parameters of the irrigation strategies that are not selected -/

section strategies
variable (F : Fn α) (cells : List (Cell α)) (st : Nat) (irrCum ePot tPot zRoot : α) (dap : Nat)
  (zMin aer zTop : α) (gs : Bool) (rain runoff : α)

/-- Rainfed and net irrigation: thresholds, interval, depth, schedule, application efficiency and
event maximum have no effect (two calls that share method and seasonal maximum agree). -/
theorem other_strategy_params_inert_rainfed_net {P P' : IrrParams α} (sched sched' : Option α)
    (h04 : P.method = 0 ∨ P.method = 4) (hm : P'.method = P.method)
    (hs : P'.maxSeason = P.maxSeason) :
    irrigation F P' cells st irrCum ePot tPot zRoot dap sched' zMin aer zTop gs rain runoff =
      irrigation F P cells st irrCum ePot tPot zRoot dap sched zMin aer zTop gs rain runoff :=
  irrigation_params_inert_rainfed_net F cells st irrCum ePot tPot zRoot dap zMin aer zTop gs rain
    runoff sched sched' h04 hm hs

/-- Soil-moisture thresholds: interval, depth and schedule have no effect. -/
theorem other_strategy_params_inert_threshold {P P' : IrrParams α} (sched sched' : Option α)
    (h1 : P.method = 1) (hm : P'.method = P.method) (hs : P'.maxSeason = P.maxSeason)
    (hsmt : P'.smt = P.smt) (he : P'.appEff = P.appEff) (hx : P'.maxIrr = P.maxIrr) :
    irrigation F P' cells st irrCum ePot tPot zRoot dap sched' zMin aer zTop gs rain runoff =
      irrigation F P cells st irrCum ePot tPot zRoot dap sched zMin aer zTop gs rain runoff :=
  irrigation_params_inert_smt F cells st irrCum ePot tPot zRoot dap zMin aer zTop gs rain runoff
    sched sched' h1 hm hs hsmt he hx

/-- Fixed interval: thresholds, depth and schedule have no effect. -/
theorem other_strategy_params_inert_interval {P P' : IrrParams α} (sched sched' : Option α)
    (h2 : P.method = 2) (hm : P'.method = P.method) (hs : P'.maxSeason = P.maxSeason)
    (hi : P'.interval = P.interval) (he : P'.appEff = P.appEff) (hx : P'.maxIrr = P.maxIrr) :
    irrigation F P' cells st irrCum ePot tPot zRoot dap sched' zMin aer zTop gs rain runoff =
      irrigation F P cells st irrCum ePot tPot zRoot dap sched zMin aer zTop gs rain runoff :=
  irrigation_params_inert_interval F cells st irrCum ePot tPot zRoot dap zMin aer zTop gs rain
    runoff sched sched' h2 hm hs hi he hx

/-- Schedule: thresholds, interval and depth have no effect. -/
theorem other_strategy_params_inert_schedule {P P' : IrrParams α} (sched : Option α)
    (h3 : P.method = 3) (hm : P'.method = P.method) (hs : P'.maxSeason = P.maxSeason)
    (hx : P'.maxIrr = P.maxIrr) :
    irrigation F P' cells st irrCum ePot tPot zRoot dap sched zMin aer zTop gs rain runoff =
      irrigation F P cells st irrCum ePot tPot zRoot dap sched zMin aer zTop gs rain runoff :=
  irrigation_params_inert_schedule F cells st irrCum ePot tPot zRoot dap zMin aer zTop gs rain
    runoff sched h3 hm hs hx

/-- Constant depth: thresholds, interval and schedule have no effect. -/
theorem other_strategy_params_inert_constant_depth {P P' : IrrParams α} (sched sched' : Option α)
    (h5 : P.method = 5) (hm : P'.method = P.method) (hs : P'.maxSeason = P.maxSeason)
    (hx : P'.maxIrr = P.maxIrr) (hd : P'.depth = P.depth) :
    irrigation F P' cells st irrCum ePot tPot zRoot dap sched' zMin aer zTop gs rain runoff =
      irrigation F P cells st irrCum ePot tPot zRoot dap sched zMin aer zTop gs rain runoff :=
  irrigation_params_inert_constant F cells st irrCum ePot tPot zRoot dap zMin aer zTop gs rain
    runoff sched sched' h5 hm hs hx hd

/-! ## Strategies at their neutral value behave as rainfed -/

/-- Constant irrigation depth 0: nothing is applied and the call returns what the rainfed call
returns. -/
theorem depth0_is_rainfed {P : IrrParams α} (sched : Option α) {out : IrrOut α}
    (h : irrigation F P cells st irrCum ePot tPot zRoot dap sched zMin aer zTop gs rain runoff
      = .ok out) (hm : P.method = 5) (hd : P.depth = 0) :
    ∃ o0, irrigation F P.rainfed cells st irrCum ePot tPot zRoot dap sched zMin aer zTop gs rain
        runoff = .ok o0 ∧ o0.core = out.core ∧ out.irr = 0 :=
  irrigation_as_rainfed_of_zero F cells st irrCum ePot tPot zRoot dap zMin aer zTop gs rain runoff
    sched h (fun hg => by subst hg; exact irr_zero_of_depth_zero h hm hd)

/-- Empty irrigation schedule (0 scheduled for the day): as rainfed. -/
theorem empty_schedule_is_rainfed {P : IrrParams α} {out : IrrOut α}
    (h : irrigation F P cells st irrCum ePot tPot zRoot dap (some 0) zMin aer zTop gs rain runoff
      = .ok out) (hm : P.method = 3) :
    ∃ o0, irrigation F P.rainfed cells st irrCum ePot tPot zRoot dap (some 0) zMin aer zTop gs rain
        runoff = .ok o0 ∧ o0.core = out.core ∧ out.irr = 0 :=
  irrigation_as_rainfed_of_zero F cells st irrCum ePot tPot zRoot dap zMin aer zTop gs rain runoff
    (some 0) h (fun _ => irr_schedule_zero h hm rfl)

/-- Daily irrigation maximum 0: as rainfed, whatever the strategy. -/
theorem maxirr0_is_rainfed {P : IrrParams α} (sched : Option α) {out : IrrOut α}
    (h : irrigation F P cells st irrCum ePot tPot zRoot dap sched zMin aer zTop gs rain runoff
      = .ok out) (hx : P.maxIrr = 0) :
    ∃ o0, irrigation F P.rainfed cells st irrCum ePot tPot zRoot dap sched zMin aer zTop gs rain
        runoff = .ok o0 ∧ o0.core = out.core ∧ out.irr = 0 :=
  irrigation_as_rainfed_of_zero F cells st irrCum ePot tPot zRoot dap zMin aer zTop gs rain runoff
    sched h (fun hg => by subst hg; exact irr_zero_of_maxIrr_zero h hx)

/-- Seasonal irrigation maximum 0 (counter non-negative): as rainfed, whatever the strategy. -/
theorem maxseason0_is_rainfed {P : IrrParams α} (sched : Option α) {out : IrrOut α}
    (h : irrigation F P cells st irrCum ePot tPot zRoot dap sched zMin aer zTop gs rain runoff
      = .ok out) (hs : P.maxSeason = 0) (hc : 0 ≤ irrCum) :
    ∃ o0, irrigation F P.rainfed cells st irrCum ePot tPot zRoot dap sched zMin aer zTop gs rain
        runoff = .ok o0 ∧ o0.core = out.core ∧ out.irr = 0 :=
  irrigation_as_rainfed_of_zero F cells st irrCum ePot tPot zRoot dap zMin aer zTop gs rain runoff
    sched h (fun hg => by subst hg; exact irr_zero_of_maxSeason_zero h hs hc)

end strategies

/-! ## Without irrigation: wetted fraction and application efficiency -/

/-- Without an irrigation event (or under net irrigation) the wetted-surface fraction has no effect
on soil evaporation. -/
theorem rainfed_ignores_wetsurf (F : Fn α) (P : EvapParams α) (S : EvapState α)
    (cells : List (Cell α)) (D : EvapDay α) (w : α) (h : D.irr ≤ 0 ∨ P.irrMethod = 4) :
    soilEvaporation F { P with wetSurf := w } S cells D = soilEvaporation F P S cells D :=
  soilEvaporation_withSurf_of_adjust F P P.mulches P.fMulch P.mulchPct w S cells D
    (fun e => esPotAdjust_wetSurf_inert P S D w e h)

/-- Without irrigation the application efficiency has no effect on infiltration. -/
theorem rainfed_ignores_application_efficiency (F : Fn α) (cells : List (Cell α))
    (pond infl appEff appEff' zBund dp0 ro0 : α) (bunds gs : Bool) :
    infiltration F cells pond infl 0 appEff bunds zBund dp0 ro0 gs =
      infiltration F cells pond infl 0 appEff' bunds zBund dp0 ro0 gs :=
  infiltration_appEff_inert F cells pond infl appEff appEff' zBund dp0 ro0 bunds gs

/-! ## Run level: whole runs under two configurations

`RunState.view` = clock position, state object and, per simulated day, the start state, the
forcing and the complete `DayResult` (three table rows, new state, summary row, ghost records,
all process outputs) without the three ghost branch ids.  Equal views have equal tables
(`Aqua.view_tables`). -/

/-- **Parameters of switched-off features have no effect on any output of any run.**  `InertEq`
lists them with their guards (`IrrSetInert`, `FmInert`; the fallow irrigation record, `Aer`/`Zmin`
of the fallow crop and the overwritten fields of `W0` are unconstrained). -/
theorem run_inert {F : Fn α} {T : TrigFn α} {cfg cfg' : RunCfg α} (h : InertEq cfg cfg') (k : Nat)
    (s : RunState α) :
    (runModel F T cfg' k s).map RunState.view = (runModel F T cfg k s).map RunState.view :=
  Aqua.run_inert h k s

/-- … in terms of the output tables, from the same initialised model -/
theorem run_inert_outputs {F : Fn α} {T : TrigFn α} {cfg cfg' : RunCfg α} (h : InertEq cfg cfg')
    {k : Nat} {s0 r : RunState α} (h0 : runInit cfg = .ok s0)
    (hr : runModel F T cfg k s0 = .ok r) :
    runInit cfg' = .ok s0 ∧ ∃ r', runModel F T cfg' k s0 = .ok r' ∧
      r'.storageTable = r.storageTable ∧ r'.fluxTable = r.fluxTable ∧
      r'.growthTable = r.growthTable ∧ r'.summaryTable = r.summaryTable ∧
      r'.day = r.day ∧ r'.t = r.t ∧ r'.season = r.season ∧ r'.finished = r.finished :=
  ⟨by rw [runInit_inert h, h0], run_inert_tables h hr⟩

/-- … and one simulated day (`solution_single_time_step`) -/
theorem day_inert {F : Fn α} {T : TrigFn α} {P P' : DayParams α} {D D' : DayIn' α}
    (h : DayInert P P' D D') (st : DayState' α) :
    (fullDay F T P' st D').map DayResult.noBranch = (fullDay F T P st D).map DayResult.noBranch :=
  fullDay_inert h st

/-- Mulches with 0 % cover or a zero mulch factor: the same run as without mulches. -/
theorem run_mulch_neutral_is_off {F : Fn α} {T : TrigFn α} {cfg : RunCfg α}
    (h0 : cfg.fm.mulchPct = 0 ∨ cfg.fm.fMulch = 0) (k : Nat) (s : RunState α) :
    (runModel F T { cfg with fm := { cfg.fm with mulches := false } } k s).map RunState.view =
      (runModel F T cfg k s).map RunState.view :=
  Aqua.run_mulch_neutral h0 k s

/-- Bunds lower than 1 mm: the same run as without bunds (not at exactly 1 mm:
`InertRunExample.bund_1mm_not_neutral`). -/
theorem run_low_bund_is_no_bund {F : Fn α} {T : TrigFn α} {cfg : RunCfg α}
    (hz : cfg.fm.zBund < 0.001) (k : Nat) (s : RunState α) :
    (runModel F T { cfg with fm := { cfg.fm with bunds := false } } k s).map RunState.view =
      (runModel F T cfg k s).map RunState.view :=
  Aqua.run_low_bund hz k s

/-- A curve-number adjustment of 0 %: the same run as without the adjustment. -/
theorem run_cn_adjust_zero_is_off {F : Fn α} {T : TrigFn α} {cfg : RunCfg α}
    (h0 : cfg.fm.cnAdjPct = 0) (k : Nat) (s : RunState α) :
    (runModel F T { cfg with fm := { cfg.fm with cnAdj := false } } k s).map RunState.view =
      (runModel F T cfg k s).map RunState.view :=
  Aqua.run_cnAdj_zero h0 k s

/-- Constant irrigation depth 0: the same run as rain-fed. -/
theorem run_depth0_is_rainfed {F : Fn α} {T : TrigFn α} {cfg : RunCfg α}
    (hm : cfg.irr.irr.method = 5) (hd : cfg.irr.irr.depth = 0) (k : Nat) (s : RunState α) :
    (runModel F T cfg.rainfed k s).map RunState.view = (runModel F T cfg k s).map RunState.view :=
  Aqua.run_depth0_rainfed hm hd k s

/-- Empty irrigation schedule (0 on every day): the same run as rain-fed. -/
theorem run_empty_schedule_is_rainfed {F : Fn α} {T : TrigFn α} {cfg : RunCfg α}
    (hm : cfg.irr.irr.method = 3) (hs : ∀ t, cfg.irr.sched t = some 0) (k : Nat) (s : RunState α) :
    (runModel F T cfg.rainfed k s).map RunState.view = (runModel F T cfg k s).map RunState.view :=
  Aqua.run_zero_schedule_rainfed hm hs k s

/-- Daily irrigation maximum 0: the same run as rain-fed, provided the strategy itself does not
raise (`CfgNoIrrError`) and the state object starts with `0 ≤ irr_cum`, `growth_stage ≤ 4`. -/
theorem run_maxirr0_is_rainfed {F : Fn α} {T : TrigFn α} {cfg : RunCfg α}
    (he : CfgNoIrrError cfg) (hx : cfg.irr.irr.maxIrr = 0) (k : Nat) {s : RunState α}
    (hI : IrrInv s.day) :
    (runModel F T cfg.rainfed k s).map RunState.view = (runModel F T cfg k s).map RunState.view :=
  Aqua.run_maxIrr0_rainfed he hx k hI

/-- Seasonal irrigation maximum 0: the same run as rain-fed — daily tables, state and the summary
with its seasonal irrigation total. -/
theorem run_maxseason0_is_rainfed {F : Fn α} {T : TrigFn α} {cfg : RunCfg α}
    (he : CfgNoIrrError cfg) (hx : cfg.irr.irr.maxSeason = 0) (k : Nat) {s : RunState α}
    (hI : IrrInv s.day) :
    (runModel F T cfg.rainfed k s).map RunState.view = (runModel F T cfg k s).map RunState.view :=
  Aqua.run_maxSeason0_rainfed he hx k hI

/-! ### stating the model's own latest harvest date explicitly

Without a configured harvest date the package derives the crop calendar twice at initialisation
(once to obtain the default harvest date, once when the variables are computed); with one, once.
The calendar-day derivation returns the same calendar when it is applied again to the crop the first
application left (its inputs are not among the fields it rewrites — after the repair of the
flowering length recorded in `known_findings.txt`), so the number of derivations is immaterial. -/

/-- the calendar-day crop calendar derived a second time from the crop as the first derivation left
it is the same calendar -/
theorem calendar_derived_twice_equals_once {F : Fn α} {c : CalCDIn α} {o : CalCDOut α}
    (h : calendarInitCD F c = .ok o) :
    calendarInitCD F { c with floweringCD := o.floweringCD } = .ok o :=
  calendarInitCD_idempotent h

/-- … in particular the flowering length, which the derivation reads for determinant crops, comes
out as it went in -/
theorem calendar_keeps_flowering_length {F : Fn α} {c : CalCDIn α} {o : CalCDOut α}
    (h : calendarInitCD F c = .ok o) : o.floweringCD = c.floweringCD :=
  calendarInitCD_floweringCD_kept h

end Aqua.C20
