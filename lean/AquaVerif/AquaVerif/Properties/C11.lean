import AquaVerif.Proofs.Session
import AquaVerif.Model.Effects
import AquaVerif.Generated.EffectTable
/-
Property C11 — inputs are not consumed by a run.

"Running a model does not change the meaning of the objects passed to it: re-running the same model
object, or building a new model from the same soil, crop, weather, irrigation, field-management,
groundwater and CO2 objects after a run, reproduces the first run's results exactly."

Engine C enumerates every store that `_initialize` (and everything reachable from it) performs into
an object the user passed in.  `reviewedInitUserWrites` is the hand-reviewed list of those locations,
each with the reason why re-running is idempotent (or the finding that it is not).  The two theorems
`init_writes_to_user_objects` / `reviewed_entries_all_occur` state that the regenerated table and
the reviewed list agree exactly: a NEW store into a user object breaks the first, a stale review
entry breaks the second.  Idempotence itself is decided elsewhere (Init model lemmas + run-twice
differential); this file pins down *what* has to be idempotent.
-/

namespace Aqua.C11
open Aqua.Effects Aqua.Effects.Generated

/-- Classes that are objects handed in by the user (the weather slot included: `_initialize`
rebinds `self.weather_df` to a clipped copy). -/
def userFacing : List LocClass :=
  [.userSoil, .userCrop, .userIrr, .userField, .userGw, .userIwc, .userCo2, .weather]

/-- Locations inside user objects that `_initialize` stores into — reviewed by hand.
`[]` = element / column / `.loc` store; `*` = attribute chosen at run time (`setattr`). -/
def reviewedInitUserWrites : List (LocClass × String) := [
  -- CO2 object (`param_struct.CO2 = self.co2_concentration`)
  (.userCo2, "co2_concentration.co2_data_processed"),
    -- recomputed from `co2_data` and the simulation years on every init: idempotent
  (.userCo2, "co2_concentration.current_concentration"),
    -- non-constant: reset to the first simulation year's value on every init (and overwritten at every
    -- season start while stepping): idempotent.  constant_conc=True with current_concentration=0:
    -- the first init stores the first year's value, which later inits then KEEP (`> 0`): same value
    -- for the same window, but a stale value for a model with another start year — FINDING (sticky).
  -- crop object (`param_struct.CropList[0] is self.crop`)
  (.userCrop, "crop.*"),
    -- `setattr(crop, stage, …)` in prepare_gdd, only when `SwitchGDD == 1`: FINDING, not idempotent —
    -- the conversion also sets `CalendarType = 2`, so a second init takes the thermal branch and
    -- combines GDD-valued stages with day-valued `YldForm`/`Flowering`.  No built-in crop sets SwitchGDD.
  (.userCrop, "crop.CDC"),              -- calendar crops: copy of CDC_CD (idempotent); SwitchGDD: see `crop.*`
  (.userCrop, "crop.CGC"),              -- calendar crops: copy of CGC_CD (idempotent); SwitchGDD: see `crop.*`
  (.userCrop, "crop.CalendarType"),     -- only `SwitchGDD == 1` (1 → 2): FINDING, see `crop.*`
  (.userCrop, "crop.Canopy10Pct"),      -- function of Emergence, CC0, CGC (not written in that mode): idempotent
  (.userCrop, "crop.Canopy10PctCD"),    -- function of EmergenceCD, CC0, CGC_CD: idempotent
  (.userCrop, "crop.CanopyDevEnd"),     -- copy of the CD value / function of HIstart, Flowering: idempotent
  (.userCrop, "crop.CanopyDevEndCD"),   -- function of HIstartCD, FloweringCD / SenescenceCD, or of weather: idempotent
  (.userCrop, "crop.Emergence"),        -- copy of EmergenceCD (calendar crops): idempotent
  (.userCrop, "crop.FloweringCD"),      -- thermal crops: from weather + FloweringEnd; calendar non-fruit crops: NO_VALUE: idempotent
  (.userCrop, "crop.FloweringEnd"),     -- HIstart + Flowering / NO_VALUE: idempotent
  (.userCrop, "crop.FloweringEndCD"),   -- HIstartCD + FloweringCD / NO_VALUE: idempotent
  (.userCrop, "crop.HIGC"),             -- calculate_HIGC(YldFormCD, HI0, HIini): idempotent
  (.userCrop, "crop.HIend"),            -- HIstart + YldForm / copy of HIendCD: idempotent
  (.userCrop, "crop.HIendCD"),          -- HIstartCD + YldFormCD, or from weather: idempotent
  (.userCrop, "crop.HIstart"),          -- copy of HIstartCD (calendar crops): idempotent
  (.userCrop, "crop.HIstartCD"),        -- thermal crops: from weather and HIstart: idempotent for the same window
  (.userCrop, "crop.Maturity"),         -- copy of MaturityCD (calendar crops): idempotent
  (.userCrop, "crop.MaturityCD"),       -- thermal crops: from weather and Maturity: idempotent for the same window
  (.userCrop, "crop.MaxCanopy"),        -- copy of the CD value / function of Emergence, CCx, CC0, CGC: idempotent
  (.userCrop, "crop.MaxCanopyCD"),      -- function of EmergenceCD, CCx, CC0, CGC_CD, or from weather: idempotent
  (.userCrop, "crop.MaxRooting"),       -- copy of MaxRootingCD: idempotent
  (.userCrop, "crop.Senescence"),       -- copy of SenescenceCD: idempotent
  (.userCrop, "crop.YldForm"),          -- copy of YldFormCD: idempotent
  (.userCrop, "crop.YldFormCD"),        -- thermal crops: HIendCD - HIstartCD: idempotent
  (.userCrop, "crop.dHILinear"),        -- calculate_HI_linear(YldFormCD, HIini, HI0, HIGC) / 0: idempotent
  (.userCrop, "crop.fCO2"),             -- function of the CO2 object and crop constants: idempotent
  (.userCrop, "crop.harvest_date"),     -- written once when None, then kept: same value for the same window;
                                        -- stale for a later model with other dates — FINDING (sticky)
  (.userCrop, "crop.tLinSwitch"),       -- see dHILinear
  -- soil object (`param_struct.Soil is self.soil`)
  (.userSoil, "soil.Hydrology"),        -- per-layer means of `profile`, recomputed: idempotent
  (.userSoil, "soil.Hydrology.[]"),     -- its `dz` column, recomputed: idempotent
  (.userSoil, "soil.Profile"),          -- fresh SoilProfile built from `profile`: idempotent
  (.userSoil, "soil.cn"),               -- `calc_cn == 1`: from Ksat of the top compartment: idempotent
  (.userSoil, "soil.nComp"),            -- fill_nan: len(profile): idempotent
  (.userSoil, "soil.profile"),          -- fill_nan: ffill of an already filled frame is the identity: idempotent
  (.userSoil, "soil.profile.Layer"),    -- fill_nan: astype(int): idempotent
  (.userSoil, "soil.profile.[]"),       -- (a) deepening loop `dz += 0.1` until zSoil ≥ Zmax + 0.1: a no-op on an
                                        --     already deepened profile (deepen_idem) — but the soil STAYS deepened for
                                        --     a later, shallower-rooted crop: FINDING (sticky);
                                        -- (b) column th_fc_Adj, (c) columns aCR/bCR: recomputed: idempotent
  (.userSoil, "soil.profile.dz"),       -- fill_nan: round(2) of rounded values: idempotent
  (.userSoil, "soil.profile.dzsum"),    -- fill_nan: cumsum(dz).round(2): idempotent
  (.userSoil, "soil.rew"),              -- `adj_rew == 0`: from th_fc, th_dry, evap_z_surf: idempotent
  (.userSoil, "soil.zSoil"),            -- fill_nan: round(sum(dz), 2): idempotent
  -- weather slot of the model
  (.weather, "_weather"),               -- `.values` of the clipped frame: recomputed
  (.weather, "_weather_df"),            -- property setter behind `weather_df`
  (.weather, "weather_df")              -- rebound to the frame clipped to the window (the user's DataFrame itself is
                                        -- not stored into); clipping a clipped frame to the same window: idempotent
]

/-- The (class, location) pairs of the `init`-region rows that concern user-facing objects. -/
def initUserWrites : List (LocClass × String) :=
  (effectTable.filter fun e => e.region == .init && userFacing.contains e.cls).map
    fun e => (e.cls, e.path)

theorem init_check : (initUserWrites.all fun p => reviewedInitUserWrites.contains p) = true := by
  decide +kernel

theorem reviewed_check : (reviewedInitUserWrites.all fun p => initUserWrites.contains p) = true := by
  decide +kernel

/-- **C11, table form.**  Every store of `_initialize` into a user-facing object is one of the
reviewed locations (a new one breaks this proof). -/
theorem init_writes_to_user_objects :
    ∀ e ∈ effectTable, e.region = .init → e.cls ∈ userFacing →
      (e.cls, e.path) ∈ reviewedInitUserWrites := by
  intro e he hr hc
  have hm : (e.cls, e.path) ∈ initUserWrites := by
    unfold initUserWrites
    apply List.mem_map.mpr
    refine ⟨e, List.mem_filter.mpr ⟨he, ?_⟩, rfl⟩
    simp only [Bool.and_eq_true, beq_iff_eq]
    exact ⟨hr, List.contains_iff_mem.mpr hc⟩
  have := (List.all_eq_true.mp init_check) _ hm
  exact List.contains_iff_mem.mp this

/-- Conversely every reviewed location does occur in the regenerated table (no stale review). -/
theorem reviewed_entries_all_occur :
    ∀ p ∈ reviewedInitUserWrites, ∃ e ∈ effectTable, e.region = .init ∧ (e.cls, e.path) = p := by
  intro p hp
  have h1 : p ∈ initUserWrites := List.contains_iff_mem.mp ((List.all_eq_true.mp reviewed_check) p hp)
  unfold initUserWrites at h1
  obtain ⟨e, he, rfl⟩ := List.mem_map.mp h1
  have h2 := List.mem_filter.mp he
  refine ⟨e, h2.1, ?_, rfl⟩
  have h3 := h2.2
  simp only [Bool.and_eq_true, beq_iff_eq] at h3
  exact h3.1

theorem untouched_check : (effectTable.all fun e => decide
    (e.region = .init → e.cls ≠ .userIrr ∧ e.cls ≠ .userField ∧ e.cls ≠ .userGw ∧ e.cls ≠ .userIwc ∧
      e.cls ≠ .global ∧ e.cls ≠ .unknown)) = true := by
  decide +kernel

/-- `_initialize` never stores into the user's irrigation-management, field-management,
groundwater or initial-water-content objects (the dated schedule and the thresholds are copied into
the model's own struct), nor into global or unresolved state. -/
theorem init_leaves_irrigation_field_groundwater_iwc_untouched :
    ∀ e ∈ effectTable, e.region = .init →
      e.cls ≠ .userIrr ∧ e.cls ≠ .userField ∧ e.cls ≠ .userGw ∧ e.cls ≠ .userIwc ∧
      e.cls ≠ .global ∧ e.cls ≠ .unknown := all_of_check untouched_check

/-- Frame form: any number of `_initialize()` calls leaves those four objects unchanged. -/
theorem reinit_frames_untouched_objects
    (calls : List (List Write)) (hdrawn : ∀ ws ∈ calls, DrawnFrom effectTable .init ws) (hp : Heap) :
    ∀ c ∈ [LocClass.userIrr, .userField, .userGw, .userIwc], execAll calls hp c = hp c := by
  intro c hc
  apply frame_runs effectTable .init c _ calls hdrawn hp
  intro e he hr heq
  have h := init_leaves_irrigation_field_groundwater_iwc_untouched e he hr
  simp only [List.mem_cons, List.mem_nil_iff, or_false] at hc
  rcases hc with rfl | rfl | rfl | rfl
  · exact h.1 heq
  · exact h.2.1 heq
  · exact h.2.2.1 heq
  · exact h.2.2.2.1 heq

theorem step_user_check : (effectTable.all fun e => decide
    (e.region = .step → e.cls ∈ userFacing →
      e.cls = .userCo2 ∧ e.path = "co2_concentration.current_concentration")) = true := by
  decide +kernel

/-- While stepping, the only store into a user-facing object is `current_concentration` of the CO2
object (at a season start); `_initialize` resets it, see the review entry above. -/
theorem step_writes_to_user_objects :
    ∀ e ∈ effectTable, e.region = .step → e.cls ∈ userFacing →
      e.cls = .userCo2 ∧ e.path = "co2_concentration.current_concentration" :=
  all_of_check step_user_check

/-! ### the public API as a state machine (`Model/Session.lean`, replayed by the `session` tie on real `AquaCropModel` objects) -/

section api
open Aqua.Clock Aqua.Session
/-- **API level, modulo the opaque `_initialize`.** After *any* session on the object (including
`process_outputs`, calls that raised, finished or unfinished runs),
`run_model(till_termination=True, initialize_model=True)` and whatever follows behave on the used
object exactly as on a new one (observations and state). -/
theorem api_rerun_equals_first {c : Cfg} (hw : WF c) (ev : Ev) (pre rest : List Op) (k : Int)
    (po : Bool) :
    runOps c ev (.run k true true po :: rest) (session c ev pre).1 =
      session c ev (.run k true true po :: rest) :=
  rerun_equals_first hw ev pre rest k po

/-- any arguments, any configuration: same observation, and the same state when the call returns -/
theorem api_reinit_run_equals_first {c : Cfg} {ev : Ev} (k : Int) (till po : Bool) (s : SSt) :
    (run c ev k till true po s).2 = (run c ev k till true po fresh).2 ∧
    ((run c ev k till true po s).2 = .retTrue →
      (run c ev k till true po s).1 = (run c ev k till true po fresh).1) :=
  rerun_equals_first_general k till po s

/-- regression for repo commit 4f049e5: the re-run after `process_outputs=True` succeeds -/
example : (session small noEv [.run 1 false true true, .run 0 true true false]).2 =
    [.retTrue, .retTrue] := by rfl
end api

end Aqua.C11
