import AquaVerif.Proofs.RunLift
import AquaVerif.Proofs.WaterDay
import AquaVerif.Proofs.GwSeries
/-
Property C19 — shallow groundwater behaves consistently.

What is modelled: `check_groundwater_table` (`checkGroundwaterTable`: presence of the table in
the profile and the parabolic adjustment of field capacity within `Xmax` above it),
`capillary_rise`, `groundwater_inflow`, their place in the day (`waterDay`, steps 1, 8, 14) and
the daily table-depth series of `read_groundwater_table` (`gwSeries`, `Model/GwSeries.lean`).

What is quantified over: an arbitrary linearly ordered field, every `Fn`, every profile, table
depth, parameter record, state, day input and `CropDay`; every list of dated observations.
Statements are about successful calls.

Stated honestly:
* the range of the adjusted field capacity needs the law `PowSqLaw F` (`x ** 2 = x · x`,
  `Proofs/PowSq.lean`): the parabola factor is `(zMid − (zGW − Xmax)) ** 2` in the Python, i.e.
  C `pow(·, 2.0)`, and the model writes `F.pow · 2` there (`fcadj_range`, `day_fcadj_range`; at
  run level the law is the field `powSq` of `CfgOK.fn`);
* capillary rise lifts a compartment to at most `th_fc_adj + 1/20000` (or leaves it where it
  was): the code adds `min(dthMax, round(room, 4))`, and the rounded room can exceed the room
  (`cr_le_fcadj_with_slack`; needs the laws `0 < exp x`, `|round(x,4) − x| ≤ 1/20000`,
  `round(x,4) > 0 → x > 0`);
* "far below" for the field-capacity adjustment is tested **at the bottom compartment only**
  (`fcadj_far`): the loop leaves at the first compartment from the bottom that is `≥ Xmax` above
  the table;
* end-of-day saturation below the table: unconditionally `th ≥ th_s` for every compartment whose
  centre is at or below the table (groundwater inflow is the last process that writes `th`);
  `th = th_s` needs `th ≤ th_s` before the inflow, i.e. the premises of `C03.day_inv`;
* the "Variable" series is linear **in time** between consecutive observations, wherever they are
  dated (before the first simulated day, inside the period, after the last day): the table is
  de-duplicated (the last row of a date wins), sorted by date, and interpolated over dates
  (`gw_series_interpolated`; `gw_series_window_independent`: the length of the simulation does
  not enter); `NaN` before the first observation (`gw_series_before_first_nan`,
  `gw_series_nan_iff`), the last depth from the last observation on (`gw_series_after_last`).
  "Consecutive" is a premise of `gw_series_interpolated`: both rows are the last rows of their
  dates and no row of the table is dated strictly between them.
Only theorems live here; lemmas are in `Proofs/`.
-/

set_option linter.unusedSectionVars false
namespace Aqua.C19
open Aqua
variable {α : Type} [Field α] [LinearOrder α] [IsStrictOrderedRing α]

/-! ### adjusted field capacity -/

/-- With a water table, the adjusted field capacity of every (well-formed) compartment lies
between its field capacity and saturation. -/
theorem fcadj_range {F : Fn α} (hF : PowSqLaw F) (cells : List (Cell α)) (zGW : α) (r : GwtOut α)
    (hwf : ∀ x ∈ cells, x.c.WF) (h : checkGroundwaterTable F cells 1 zGW = some r) :
    ∀ y ∈ r.cells, y.c.WF ∧ y.c.thFC ≤ y.fcAdj ∧ y.fcAdj ≤ y.c.thS :=
  fcAdj_range hF cells zGW r hwf h

/-- … and equals field capacity everywhere when the table is at least `Xmax` below the centre of
the bottom compartment. -/
theorem fcadj_far (F : Fn α) (front : List (Cell α)) (last : Cell α) (zGW : α) (r : GwtOut α)
    (hfar : gwXmax F last.c.thFC ≤ zGW - last.c.zMid)
    (h : checkGroundwaterTable F (front ++ [last]) 1 zGW = some r) :
    ∀ y ∈ r.cells, y.fcAdj = y.c.thFC :=
  fcAdj_far_mem F front last zGW r hfar h

/-- Step 1 reports "table in the profile" exactly when some compartment centre is at or below the
table, and raises exactly for a negative depth. -/
theorem table_in_soil_iff (F : Fn α) (cells : List (Cell α)) (zGW : α) (r : GwtOut α)
    (h : checkGroundwaterTable F cells 1 zGW = some r) :
    r.table = true ∧ r.zGW = zGW ∧ 0 ≤ zGW ∧ (r.wtInSoil = true ↔ ∃ x ∈ cells, zGW ≤ x.c.zMid) :=
  checkGroundwaterTable_wt F cells zGW r h

/-! ### saturation below the table -/

/-- After groundwater inflow every compartment whose centre is at or below the table is exactly
saturated (given `th ≤ th_s` before). -/
theorem below_table_saturated (cells : List (Cell α)) (zGW : α) (r : List (Cell α) × α)
    (hle : ∀ x ∈ cells, x.th ≤ x.c.thS) (h : groundwaterInflow cells true zGW = some r) :
    ∀ y ∈ r.1, zGW ≤ y.c.zMid → y.th = y.c.thS :=
  gwInflow_saturates cells zGW r hle h

/-- In fact every compartment from the first such one downwards is filled, whatever its own
centre. -/
theorem below_table_saturated_downwards (x : Cell α) (xs : List (Cell α)) (zGW : α)
    (hz : zGW ≤ x.c.zMid) :
    groundwaterInflow (x :: xs) true zGW = some (gwFill (x :: xs) 0) ∧
      ∀ y ∈ (gwFill (x :: xs) 0).1, y.c.thS ≤ y.th :=
  gwInflow_saturates_below x xs zGW hz

variable {F : Fn α} {W : WaterParams α} {fm : FieldMngt α} {C : CropDay α}
  {cells : List (Cell α)} {S : DayState α} {D : DayIn α} {out : DayOut α}

/-- **At the end of the day** every compartment whose centre lies at or below the table holds at
least its saturation content — for every `CropDay`, no premise: groundwater inflow is the last
process of the day that writes `th`. -/
theorem day_below_table_saturated (h : waterDay F W fm C cells S D = .ok out)
    (hin : out.wtInSoil = true) : ∀ y ∈ out.cells, out.zGW ≤ y.c.zMid → y.c.thS ≤ y.th :=
  waterDay_below_table_ge h hin

/-- … and exactly its saturation content under the premises of `C03.day_inv`. -/
theorem day_below_table_saturated_exact (h : waterDay F W fm C cells S D = .ok out)
    (hP : DayPre F W cells S) (wp fc : Nat → α) (hT : DayTrPre F W C cells wp fc)
    (hL : W.waterTable = 1 → GwExpLaws F ∧ GwRoundLaws F ∧ GwRoundSign F)
    (hNo : ∀ y ∈ out.crCells, y.th ≤ y.c.thS) (hin : out.wtInSoil = true) :
    ∀ y ∈ out.cells, out.zGW ≤ y.c.zMid → y.th = y.c.thS :=
  waterDay_below_table_eq h hP wp fc hT hL hNo hin

/-- With a water table the day reports the table depth it was given, and "table in the profile"
exactly when some compartment centre is at or below it. -/
theorem day_table (h : waterDay F W fm C cells S D = .ok out) (hwt : W.waterTable = 1) :
    out.zGW = D.zGW ∧ 0 ≤ D.zGW ∧ (out.wtInSoil = true ↔ ∃ x ∈ cells, D.zGW ≤ x.c.zMid) :=
  waterDay_table h hwt

/-- With a water table the adjusted field capacity is within `[th_fc, th_s]` at the end of the day
(it is written by step 1 only). -/
theorem day_fcadj_range (hF : PowSqLaw F) (h : waterDay F W fm C cells S D = .ok out)
    (hwt : W.waterTable = 1) (hwf : ∀ x ∈ cells, x.c.WF) :
    ∀ y ∈ out.cells, y.c.thFC ≤ y.fcAdj ∧ y.fcAdj ≤ y.c.thS :=
  waterDay_fcAdj_range hF h hwt hwf

/-! ### capillary rise -/

/-- Capillary rise never lowers a water content and never lifts a compartment above its adjusted
field capacity **plus 1/20000** (or leaves it where it was). -/
theorem cr_le_fcadj_with_slack (F : Fn α) (hE : GwExpLaws F) (hR : GwRoundLaws F)
    (hS : GwRoundSign F) (cells : List (Cell α)) (nLayer : Nat) (fshape zGW : α) (wt : Nat)
    (r : CROut α) (hdz : ∀ x ∈ cells, 0 < x.c.dz)
    (h : capillaryRise F cells nLayer fshape zGW wt = .ok r) :
    ∀ y ∈ r.cells, ∃ x ∈ cells, y.c = x.c ∧ y.fcAdj = x.fcAdj ∧ x.th ≤ y.th ∧
      y.th ≤ max x.th (x.fcAdj + 1 / 20000) :=
  capillaryRise_bounds F hE hR hS cells nLayer fshape zGW wt r hdz h

/-- A table 4 m or more below the centre of the bottom compartment: no capillary rise, profile
unchanged. -/
theorem far_table_no_rise (F : Fn α) (h0 : GwRound0Laws F) (front : List (Cell α))
    (last : Cell α) (fshape zGW : α) (hfar : 4 ≤ zGW - last.c.zMid) :
    capillaryRise F (front ++ [last]) last.c.layer fshape zGW 1 =
      .ok { cells := front ++ [last], crTot := 0, crAdded := 0, dzFill := 0, nIter := 0,
            nCap := 0, nFill := 0 } :=
  capillaryRise_far_table F h0 front last fshape zGW hfar

/-- … at day level: the reported capillary rise is 0 (and nothing was added). -/
theorem day_far_table_no_rise (h : waterDay F W fm C cells S D = .ok out) (h0 : GwRound0Laws F)
    (front : List (Cell α)) (last : Cell α) (hcells : cells = front ++ [last])
    (hdz : ∀ x ∈ cells, 0 < x.c.dz) (hfar : 4 ≤ D.zGW - last.c.zMid) :
    out.cr = 0 ∧ out.crAdded = 0 ∧ out.dzFill = 0 :=
  waterDay_far_table h h0 front last hcells hdz hfar

/-- A table below every compartment centre gives no groundwater inflow. -/
theorem day_table_below_profile_no_inflow (h : waterDay F W fm C cells S D = .ok out)
    (hlow : ∀ x ∈ cells, x.c.zMid < D.zGW) : out.wtInSoil = false ∧ out.gwIn = 0 :=
  waterDay_table_below_profile h hlow

/-! ### no table -/

/-- Without a water table the three groundwater processes do nothing: the check leaves the cells
alone, capillary rise and groundwater inflow are zero with the profile unchanged. -/
theorem no_table_zero_fluxes (F : Fn α) (cells : List (Cell α)) (nLayer : Nat) (fshape zGW : α) :
    checkGroundwaterTable F cells 0 zGW =
        some { cells := cells, table := false, wtInSoil := false, zGW := zGW } ∧
    capillaryRise F cells nLayer fshape zGW 0 =
        .ok { cells := cells, crTot := 0, crAdded := 0, dzFill := 0, nIter := 0, nCap := 0,
              nFill := 0 } ∧
    groundwaterInflow cells false zGW = some (cells, 0) :=
  ⟨checkGroundwaterTable_no_table F cells 0 zGW (by decide),
   capillaryRise_no_table F cells nLayer fshape zGW, groundwaterInflow_no_table cells zGW⟩

/-- **Without a water table the day's capillary rise and groundwater inflow are zero** and the
adjusted field capacity is left alone — for every `CropDay`. -/
theorem day_no_table_zero_fluxes (h : waterDay F W fm C cells S D = .ok out)
    (hwt : W.waterTable ≠ 1) (hdz : ∀ x ∈ cells, 0 < x.c.dz) :
    out.cr = 0 ∧ out.crAdded = 0 ∧ out.gwIn = 0 ∧ out.wtInSoil = false ∧
      out.cells.map (·.fcAdj) = cells.map (·.fcAdj) :=
  waterDay_no_table h hwt hdz

/-- **A water table far below the profile gives the same day as none**: with the table below every
compartment centre, at least `Xmax` and at least 4 m below the centre of the bottom compartment,
and a profile whose adjusted field capacity equals field capacity (as it does without a table),
`waterDay` with the table equals `waterDay` without one (whatever depth is passed then) in every
output — cells, ponding, all fluxes, all state — except the reported table depth; errors coincide
too.  `hlay` is the layer assertion `capillary_rise` makes only when there is a table. -/
theorem day_far_table_equals_none (F : Fn α) (h0 : GwRound0Laws F) (W : WaterParams α)
    (fm : FieldMngt α) (C : CropDay α) (front : List (Cell α)) (last : Cell α) (S : DayState α)
    (D : DayIn α) (z' : α)
    (hdz : ∀ x ∈ front ++ [last], 0 < x.c.dz)
    (hfc : ∀ x ∈ front ++ [last], x.fcAdj = x.c.thFC)
    (hz : 0 ≤ D.zGW) (hlow : ∀ x ∈ front ++ [last], x.c.zMid < D.zGW)
    (hX : gwXmax F last.c.thFC ≤ D.zGW - last.c.zMid) (h4 : 4 ≤ D.zGW - last.c.zMid)
    (hlay : W.soil.nLayer = last.c.layer) :
    (waterDay F { W with waterTable := 1 } fm C (front ++ [last]) S D).map DayOut.noZGW =
      (waterDay F { W with waterTable := 0 } fm C (front ++ [last]) S { D with zGW := z' }).map
        DayOut.noZGW :=
  waterDay_far_table_eq_none F h0 W fm C front last S D z' hdz hfc hz hlow hX h4 hlay

/-! ### the daily table-depth series -/

/-- "Constant" method: on simulation day `i` the depth is that of the last observation dated on
or before day `i` (all later rows being dated after `i`) — a step function. -/
theorem gw_series_constant (n : Nat) (pre post : List (Int × α)) (d : Int) (v : α) (i : Nat)
    (hi : i < n) (hd : d ≤ Int.ofNat i) (hpost : ∀ q ∈ post, Int.ofNat i < q.1) :
    (gwConstant n (pre ++ (d, v) :: post))[i]? = some (some v) := by
  rw [gwConstant_getElem n _ i hi, gw_constant (Int.ofNat i) true pre post d v none hd hpost]

/-- … and before the first observation's date its depth holds as well. -/
theorem gw_series_constant_before_first (n : Nat) (d0 : Int) (v0 : α) (rest : List (Int × α))
    (i : Nat) (hi : i < n) (hrest : ∀ q ∈ rest, Int.ofNat i < q.1) :
    (gwConstant n ((d0, v0) :: rest))[i]? = some (some v0) := by
  rw [gwConstant_getElem n _ i hi, gw_constant_first (Int.ofNat i) d0 v0 rest none hrest]

/-- A single observation gives a constant series, whatever the method. -/
theorem gw_series_single (n : Nat) (me : GwMethod) (d : Int) (v : α) :
    gwSeries n me [(d, v)] = .ok (List.replicate n (some v)) :=
  gw_single n me d v

/-- "Variable" method: on an observation day inside the simulation the series has exactly the
observed depth. -/
theorem gw_series_at_observation (n : Nat) (pre post : List (Int × α)) (d : Nat) (v : α)
    (hd : d < n) (hpost : ∀ q ∈ post, q.1 ≠ Int.ofNat d) :
    (gwVariable n (pre ++ (Int.ofNat d, v) :: post))[d]? = some (some v) :=
  gw_variable_at_obs n pre post d v hd hpost

/-- "Variable" method: **between two consecutive observations** `(d0, v0)` and `(d1, v1)` — each the
last row of the table carrying its date, no row of the table dated strictly between `d0` and
`d1` — a simulation day `i` with `d0 ≤ i < d1` has the depth on the straight line *in time*
`v0 + (v1 − v0)·(i − d0)/(d1 − d0)`.  Dates are day offsets from the first simulated day; `d0`
may be negative and `d1` may be `≥ n` (observations outside the simulated period). -/
theorem gw_series_interpolated (n : Nat) (obs pre0 post0 pre1 post1 : List (Int × α))
    (d0 d1 : Int) (v0 v1 : α) (i : Nat) (hi : i < n)
    (e0 : obs = pre0 ++ (d0, v0) :: post0) (hpost0 : ∀ q ∈ post0, q.1 ≠ d0)
    (e1 : obs = pre1 ++ (d1, v1) :: post1) (hpost1 : ∀ q ∈ post1, q.1 ≠ d1)
    (hno : ∀ q ∈ obs, ¬ (d0 < q.1 ∧ q.1 < d1)) (h0 : d0 ≤ Int.ofNat i) (h1 : Int.ofNat i < d1) :
    (gwVariable n obs)[i]? =
      some (some ((v1 - v0) / ((d1 - d0 : Int) : α) * ((Int.ofNat i - d0 : Int) : α) + v0)) :=
  gw_variable_between n obs pre0 post0 pre1 post1 d0 d1 v0 v1 i hi e0 hpost0 e1 hpost1 hno h0 h1

/-- … and that depth lies between the two observed depths. -/
theorem gw_series_interpolated_within (n : Nat) (obs pre0 post0 pre1 post1 : List (Int × α))
    (d0 d1 : Int) (v0 v1 : α) (i : Nat) (hi : i < n)
    (e0 : obs = pre0 ++ (d0, v0) :: post0) (hpost0 : ∀ q ∈ post0, q.1 ≠ d0)
    (e1 : obs = pre1 ++ (d1, v1) :: post1) (hpost1 : ∀ q ∈ post1, q.1 ≠ d1)
    (hno : ∀ q ∈ obs, ¬ (d0 < q.1 ∧ q.1 < d1)) (h0 : d0 ≤ Int.ofNat i) (h1 : Int.ofNat i < d1) :
    ∃ z, (gwVariable n obs)[i]? = some (some z) ∧ min v0 v1 ≤ z ∧ z ≤ max v0 v1 :=
  gw_variable_between_bounds n obs pre0 post0 pre1 post1 d0 d1 v0 v1 i hi e0 hpost0 e1 hpost1 hno
    h0 h1

/-- "Variable" method: a simulation day before every observation is `NaN`. -/
theorem gw_series_before_first_nan (n : Nat) (obs : List (Int × α)) (i : Nat) (hi : i < n)
    (h : ∀ q ∈ obs, Int.ofNat i < q.1) : (gwVariable n obs)[i]? = some none :=
  gw_variable_before_first n obs i hi h

/-- … and only those days: day `i` has a depth exactly when some observation is dated on or before
it. -/
theorem gw_series_nan_iff (n : Nat) (obs : List (Int × α)) (i : Nat) (hi : i < n) :
    (∃ z, (gwVariable n obs)[i]? = some (some z)) ↔ ∃ q ∈ obs, q.1 ≤ Int.ofNat i :=
  gw_variable_isSome_iff n obs i hi

/-- "Variable" method: from the latest observation date on (the row being the last one carrying
that date) the series holds that depth. -/
theorem gw_series_after_last (n : Nat) (pre post : List (Int × α)) (d : Int) (v : α) (i : Nat)
    (hi : i < n) (hpost : ∀ q ∈ post, q.1 ≠ d)
    (hlast : ∀ q ∈ pre ++ (d, v) :: post, q.1 ≤ d) (hd : d ≤ Int.ofNat i) :
    (gwVariable n (pre ++ (d, v) :: post))[i]? = some (some v) :=
  gw_variable_after_last n pre post d v i hi hpost hlast hd

/-- "Variable" method: **the length of the simulation does not enter** — a day covered by two
simulations of different length (same start, same table) has the same depth in both. -/
theorem gw_series_window_independent (n m : Nat) (obs : List (Int × α)) (i : Nat) (hn : i < n)
    (hm : i < m) : (gwVariable n obs)[i]? = (gwVariable m obs)[i]? :=
  gw_variable_window_independent n m obs i hn hm

/-- "Variable" method: the order of the rows of a table with distinct dates does not matter. -/
theorem gw_series_row_order_irrelevant (n : Nat) (obs obs' : List (Int × α)) (hp : obs.Perm obs')
    (h : obs.Pairwise (fun a b => a.1 ≠ b.1)) : gwVariable n obs = gwVariable n obs' :=
  gw_variable_perm n obs obs' hp h

/-- "Variable" method: starting the simulation `k` days later (every date offset decreases by `k`)
gives the old series from day `k` on. -/
theorem gw_series_start_shift (n k : Nat) (obs : List (Int × α)) (i : Nat) (hi : i < n) :
    (gwVariable n (shiftDates (-(k : Int)) obs))[i]? = (gwVariable (n + k) obs)[i + k]? :=
  gw_variable_shift n k obs i hi

/-! ### non-vacuity -/

/-- the concrete day of `Proofs/WaterDay.lean` has a water table at 1 m below a 0.4 m profile:
positive capillary rise, no groundwater inflow, adjusted field capacity within limits -/
example : ∃ out, waterDay DayExample.Fq DayExample.Wq DayExample.fmq DayExample.Cq
      DayExample.cellsq DayExample.Sq DayExample.Dq = .ok out ∧ 0 < out.cr ∧ out.gwIn = 0 ∧
    (∀ y ∈ out.cells, y.c.thFC ≤ y.fcAdj ∧ y.fcAdj ≤ y.c.thS) := by
  obtain ⟨out, h, _, hcr, _⟩ := DayExample.runs
  refine ⟨out, h, hcr, ?_, day_fcadj_range DayExample.Fq_sq h rfl
    (fun x hx => (DayExample.cells_pre x hx).inv.wf)⟩
  refine (day_table_below_profile_no_inflow h ?_).2
  intro x hx
  simp only [DayExample.cellsq, List.mem_cons, List.not_mem_nil, or_false] at hx
  rcases hx with rfl | rfl | rfl | rfl <;> norm_num [DayExample.cq, DayExample.Dq]

/-- observations on day 1 (1 m) and day 3 (2 m) of a 5-day run: `NaN` before, linear on day 2, last
value held -/
example : gwVariable 5 [((1 : Int), (1 : ℚ)), (3, 2)] =
    [none, some 1, some (3 / 2), some 2, some 2] := by
  decide +kernel

/-- observations 10 days before the start (1 m), on day 5 (2.5 m) and 9 days after the last day
(4 m) of an 11-day run: straight lines in time through all three -/
example : gwVariable 11 [((-10 : Int), (1 : ℚ)), (5, 5/2), (20, 4)] =
    [some 2, some (21/10), some (11/5), some (23/10), some (12/5), some (5/2), some (13/5),
     some (27/10), some (14/5), some (29/10), some 3] := by
  decide +kernel

/-- `gw_series_interpolated` with both observations outside a 3-day simulation (`d0 = −2`,
`d1 = 7`), rows not in date order: day 1 is at 1 + 3·3/9 = 2 m -/
example : (gwVariable 3 [((7 : Int), (4 : ℚ)), (-2, 1)])[1]? = some (some 2) := by
  rw [gw_series_interpolated 3 [((7 : Int), (4 : ℚ)), (-2, 1)] [((7 : Int), (4 : ℚ))] [] []
    [((-2 : Int), (1 : ℚ))] (-2) 7 1 4 1 (by decide) rfl (by simp) rfl (by simp) (by simp)
    (by decide) (by decide)]
  norm_num

/-! ### every day of every run (`Proofs/RunLift.lean`) -/

/-- **Run level.** With a water table the depth reported on a day (row and state) is the value of
the configured daily series for that day, it is not negative, and the table is reported in the
profile exactly when a compartment centre lies at or below it; without one the reported depth is
0.  No premise. -/
theorem run_reported_depth {F : Fn α} {T : TrigFn α} {cfg : RunCfg α} {s : RunState α}
    (hr : RunReach F T cfg s) :
    ∀ d ∈ s.daysRev,
      (cfg.W0.waterTable = 1 →
        d.r.flux.zGW = cfg.zgw d.D.tsc ∧ d.r.state.zGW = cfg.zgw d.D.tsc ∧
        0 ≤ cfg.zgw d.D.tsc ∧
        (d.r.water.wtInSoil = true ↔ ∃ x ∈ d.st.cells, cfg.zgw d.D.tsc ≤ x.c.zMid)) ∧
      (cfg.W0.waterTable ≠ 1 → d.r.flux.zGW = 0 ∧ d.r.state.zGW = 0) :=
  run_gw_depth hr

/-- **Run level.** With a water table, at the end of every simulated day the adjusted field
capacity lies within `[th_fc, th_s]`. -/
theorem run_fcadj_range {F : Fn α} {T : TrigFn α} {cfg : RunCfg α} {s : RunState α}
    (hC : CfgOK F T cfg) (hr : RunReach F T cfg s) (hR : ∀ d ∈ s.daysRev, ResidualW d)
    (hwt : cfg.W0.waterTable = 1) :
    ∀ d ∈ s.daysRev, ∀ y ∈ d.r.state.cells, y.c.thFC ≤ y.fcAdj ∧ y.fcAdj ≤ y.c.thS :=
  run_gw_fcAdj hC hr hR hwt

/-- **Run level.** With a water table, at the end of every simulated day every compartment whose
centre lies at or below the configured table depth of that day is exactly saturated. -/
theorem run_below_table_saturated {F : Fn α} {T : TrigFn α} {cfg : RunCfg α} {s : RunState α}
    (hC : CfgOK F T cfg) (hr : RunReach F T cfg s) (hR : ∀ d ∈ s.daysRev, ResidualW d)
    (hwt : cfg.W0.waterTable = 1) :
    ∀ d ∈ s.daysRev, ∀ y ∈ d.r.state.cells, cfg.zgw d.D.tsc ≤ y.c.zMid → y.th = y.c.thS :=
  run_gw_saturated hC hr hR hwt

/-- **Run level.** Capillary rise with the explicit slack on every simulated day. -/
theorem run_cr_le_fcadj_with_slack {F : Fn α} {T : TrigFn α} {cfg : RunCfg α} {s : RunState α}
    (hC : CfgOK F T cfg) (hr : RunReach F T cfg s) (hR : ∀ d ∈ s.daysRev, ResidualW d)
    (hwt : cfg.W0.waterTable = 1) :
    ∀ d ∈ s.daysRev,
      (∀ y ∈ d.r.water.crCells, ∃ x ∈ d.r.trace.f.cells, y.c = x.c ∧ y.fcAdj = x.fcAdj ∧
        x.th ≤ y.th ∧ y.th ≤ max x.th (x.fcAdj + 1 / 20000)) ∧
      0 ≤ d.r.flux.cr ∧ 0 ≤ d.r.water.dzFill ∧
      |d.r.flux.cr - d.r.water.crAdded| ≤ d.r.water.dzFill * 1000 * (1 / 20000) :=
  run_gw_capillary_slack hC hr hR hwt

/-- **Run level.** Without a water table capillary rise and groundwater inflow are zero on every
simulated day of every run and the adjusted field capacity is left alone — no hypothesis about
computed values. -/
theorem run_no_table_zero_fluxes {F : Fn α} {T : TrigFn α} {cfg : RunCfg α} {s : RunState α}
    (hC : CfgOK F T cfg) (hr : RunReach F T cfg s) (hwt : cfg.W0.waterTable ≠ 1) :
    ∀ d ∈ s.daysRev,
      d.r.flux.cr = 0 ∧ d.r.water.crAdded = 0 ∧ d.r.flux.gwIn = 0 ∧
      d.r.water.wtInSoil = false ∧
      d.r.state.cells.map (·.fcAdj) = d.st.cells.map (·.fcAdj) :=
  run_gw_none hC hr hwt

end Aqua.C19
