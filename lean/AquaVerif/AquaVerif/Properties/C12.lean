import AquaVerif.Model.Effects
import AquaVerif.Generated.EffectTable
/-
Property C12 — configured parameters and weather stay read-only while stepping.

"During time stepping the model never changes the soil profile's geometry or hydraulic properties,
the management settings, the groundwater series or the weather records it was given; a season's crop
parameters change only at that season's start (thermal-calendar conversion and CO2 adjustment)."

The statements are about `Generated.effectTable`, the table of all in-place stores that
`harness/translate/effects.py` extracts from the Python sources (region `step` =
`AquaCropModel._perform_timestep` and everything reachable from it, plus `run_model` itself).  The
table is regenerated on every check; a new store into a parameter object makes `decide` fail here.
The extractor's completeness is validated dynamically (`harness/translate/validate_effects.py`).
-/

namespace Aqua.C12
open Aqua.Effects Aqua.Effects.Generated

/-- Classes that the stepping code does store into.  Besides the carried state, the outputs and the
clock these are: `model` (`run_model` rebinding `self._clock_struct/_init_cond/_param_struct/_outputs`
to the objects returned by the step, and the private run flags), the season's crop and
`CO2.current_concentration` at a season start (`reset_initial_conditions`), and two constants stored
on the internal fallow filler crop on every day before the first season. `userCo2` is listed because
`param_struct.CO2` IS the user's `co2_concentration` object (see `userIdentities`). -/
def stepAllowed : List LocClass :=
  [.state, .outputs, .clock, .model, .paramSeasonCrop, .paramFallowCrop, .paramCo2, .userCo2]

/-- Classes never stored into while stepping: soil profile arrays, the soil object, irrigation and
field management (season and fallow), the groundwater series, the crop list, other fields of the
parameter struct, the weather, every user-owned object except the CO2 object — and nothing global
or unresolved. -/
def readOnlyWhileStepping : List LocClass :=
  [.paramSoilProfile, .paramSoil, .paramIrr, .paramFallowIrr, .paramField, .paramFallowField,
   .paramGw, .paramCropList, .paramOther, .weather, .userSoil, .userCrop, .userIrr, .userField,
   .userGw, .userIwc, .global, .unknown]

/-- The two lists together cover every location class (nothing is left unclassified). -/
theorem classes_covered : ∀ c : LocClass, c ∈ stepAllowed ∨ c ∈ readOnlyWhileStepping := by
  intro c; cases c <;> decide

/-- The two lists are disjoint. -/
theorem classes_disjoint : ∀ c ∈ stepAllowed, c ∉ readOnlyWhileStepping := by decide

theorem step_writes_only_state_check : regionWithin effectTable .step stepAllowed = true := by
  decide +kernel

/-- **C12, table form.**  Every store performed while stepping lands in the carried state, the
outputs, the clock, the model's own attribute slots, the current season's crop, the fallow filler
crop or the CO2 object. -/
theorem step_writes_only_state : ∀ e ∈ effectTable, e.region = .step → e.cls ∈ stepAllowed :=
  regionWithin_spec step_writes_only_state_check

/-- **C12, negative form.**  No store performed while stepping lands in the soil profile, the soil,
irrigation / field management, the groundwater series, the crop list, the weather or a user object
(other than the CO2 object), nor in global or unresolved state. -/
theorem no_step_writes_to_profile_soil_management_weather :
    ∀ e ∈ effectTable, e.region = .step → ∀ c ∈ readOnlyWhileStepping, e.cls ≠ c := by
  intro e he hr c hc heq
  have h1 := step_writes_only_state e he hr
  rw [heq] at h1
  exact classes_disjoint c h1 hc

/-- **C12 lifted to runs.**  For every number of steps `n`, whatever the individual stores of each
step are (as long as each is one of the tabulated `step`-region stores), every read-only class has
after `n` steps the value it had before the first. -/
theorem params_unchanged_by_any_number_of_steps
    (writesOf : Nat → List Write) (hdrawn : ∀ i, DrawnFrom effectTable .step (writesOf i))
    (n : Nat) (hp : Heap) :
    ∀ c ∈ readOnlyWhileStepping, runSteps writesOf n hp c = hp c := by
  intro c hc
  apply frame_steps effectTable .step c _ writesOf hdrawn n hp
  intro e he hr
  exact no_step_writes_to_profile_soil_management_weather e he hr c hc

/-- The same for any partition of the run into `run_model(num_steps=k)` calls: a list of fragments. -/
theorem params_unchanged_by_any_sequence_of_calls
    (calls : List (List Write)) (hdrawn : ∀ ws ∈ calls, DrawnFrom effectTable .step ws) (hp : Heap) :
    ∀ c ∈ readOnlyWhileStepping, execAll calls hp c = hp c := by
  intro c hc
  apply frame_runs effectTable .step c _ calls hdrawn hp
  intro e he hr
  exact no_step_writes_to_profile_soil_management_weather e he hr c hc

theorem season_crop_check : (effectTable.all fun e => decide
    (e.region = .step → e.cls = .paramSeasonCrop → e.fn = "reset_initial_conditions")) = true := by
  decide +kernel

/-- "A season's crop parameters change only at that season's start": every stepping store into a
season's crop is made by `reset_initial_conditions` (called by `update_time` exactly when the season
counter advances). -/
theorem season_crop_written_only_by_reset :
    ∀ e ∈ effectTable, e.region = .step → e.cls = .paramSeasonCrop →
      e.fn = "reset_initial_conditions" := all_of_check season_crop_check

theorem co2_check : (effectTable.all fun e => decide
    (e.region = .step → (e.cls = .paramCo2 ∨ e.cls = .userCo2) →
      e.fn = "reset_initial_conditions" ∧
      (e.path = "_param_struct.CO2.current_concentration" ∨
       e.path = "co2_concentration.current_concentration"))) = true := by
  decide +kernel

/-- The only stepping store into the CO2 object is `current_concentration`, at a season start. -/
theorem co2_written_only_by_reset :
    ∀ e ∈ effectTable, e.region = .step → (e.cls = .paramCo2 ∨ e.cls = .userCo2) →
      e.fn = "reset_initial_conditions" ∧
      (e.path = "_param_struct.CO2.current_concentration" ∨
       e.path = "co2_concentration.current_concentration") := all_of_check co2_check

theorem fallow_crop_check : (effectTable.all fun e => decide
    (e.region = .step → e.cls = .paramFallowCrop →
      e.fn = "solution_single_time_step" ∧
      (e.path = "_param_struct.Fallow_Crop.Aer" ∨ e.path = "_param_struct.Fallow_Crop.Zmin"))) = true := by
  decide +kernel

/-- The only stepping stores into the internal fallow filler crop are `Aer` and `Zmin`
(`Crop_.Aer = 5`, `Crop_.Zmin = 0.3`: constants, re-stored on every day before the first season). -/
theorem fallow_crop_writes_are_the_two_constants :
    ∀ e ∈ effectTable, e.region = .step → e.cls = .paramFallowCrop →
      e.fn = "solution_single_time_step" ∧
      (e.path = "_param_struct.Fallow_Crop.Aer" ∨ e.path = "_param_struct.Fallow_Crop.Zmin") :=
  all_of_check fallow_crop_check

theorem model_check : (effectTable.all fun e => decide
    (e.region = .step → e.cls = .model → e.fn = "AquaCropModel.run_model")) = true := by
  decide +kernel

/-- Stores into attribute slots of the model object itself happen only in `run_model` (rebinding the
four carried structures to the step's return values; the private run flags and timers). -/
theorem model_slots_written_only_by_run_model :
    ∀ e ∈ effectTable, e.region = .step → e.cls = .model → e.fn = "AquaCropModel.run_model" :=
  all_of_check model_check

/-- Non-vacuity: the step region of the table is not empty and does contain season-crop stores. -/
theorem step_region_nonempty :
    (∃ e ∈ effectTable, e.region = .step ∧ e.cls = .state) ∧
    (∃ e ∈ effectTable, e.region = .step ∧ e.cls = .paramSeasonCrop) := by
  decide +kernel

end Aqua.C12
