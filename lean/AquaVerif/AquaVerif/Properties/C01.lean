import AquaVerif.Proofs.CatalogueCfg
import AquaVerif.Proofs.RunClosed
import AquaVerif.Proofs.Run
import AquaVerif.Proofs.WaterDay
/-
Property C01 — the daily soil-water balance closes (mass conservation).

What is modelled: the nine water processes (`Model/PreIrrigation.lean`, `Drainage`,
`RainPartition`, `Irrigation`, `Infiltration`, `CapillaryRise`, `SoilEvaporation`,
`Transpiration`, `GroundwaterInflow`, plus `GroundwaterTable`) and their composition `waterDay`
(`Model/WaterDay.lean`) in the order and with the data flow of `solution_single_time_step`.
`storage cells = Σ 1000·thᵢ·dzᵢ` (mm).

What is quantified over: an arbitrary linearly ordered field `α`, every `F : Fn α` (exp, log,
pow, roundings — constrained only where a law is named), every profile `cells`, every parameter
record, every state, every day input and — for the day theorems — **every** `CropDay α`, i.e.
whatever root development, germination, growth stage and canopy cover hand to the water
processes.  Each statement is about a *successful* call (where Python raises, the model returns an
error and nothing is claimed).

Water the Python silently drops is the ghost `lost` of drainage / infiltration: every balance is
first stated as an exact identity *with* the ghost, then the ghost is shown to be zero under the
named premises.  `crAdded` is the water capillary rise really adds; the reported `CR` differs
from it by at most the 4-decimal rounding of the room, `dzFill · 1000 / 20000` mm.

Premise records used below (defined in `Proofs/WaterDay.lean`, `Proofs/Drainage.lean`):
`DrainPre x` = `Cell.Inv x` (`th_dry ≤ th ≤ th_s`, `th_fc ≤ th_fc_adj ≤ th_s`, well-formed
compartment) ∧ `0 ≤ dzsum` ∧ `th_fc < th_s`;
`DayPre F W cells S` = `ExpLaws F` (`1 ≤ exp x` for `x ≥ 0`) ∧ `PowSqLaw F` (`x ** 2 = x · x`,
`Proofs/PowSq.lean`: the Python computes the adjusted field capacity above a water table and the
SCS runoff with `** 2`, i.e. C `pow`, and the model writes `F.pow · 2` there) ∧
`∀ x ∈ cells, DrainPre x` ∧ `0 ≤ S.pond` ∧ (net-irrigation mode → `0 ≤ NetIrrSMT ≤ 100`).

Not covered here: carry-over of `th`/ponding between days (`update_time`,
`reset_initial_conditions`) — the day function takes the state as an argument.
Only theorems live here; lemmas are in `Proofs/`.
-/

set_option linter.unusedSectionVars false
namespace Aqua.C01
open Aqua
variable {α : Type} [Field α] [LinearOrder α] [IsStrictOrderedRing α]

/-! ### one balance per process -/

/-- Pre-irrigation: storage afterwards = storage before + `PreIrr` (either rounding of the root
depth). -/
theorem pre_irrigation_closes (F : Fn α) (npRound : Bool) (cells : List (Cell α)) (gs : Bool)
    (m : Nat) (dap : Int) (zRoot zMin smt : α) (r : List (Cell α) × α)
    (h : preIrrigationT F npRound cells gs m dap zRoot zMin smt = some r) :
    storage r.1 = storage cells + r.2 :=
  preIrrigationT_balance F npRound cells gs m dap zRoot zMin smt r h

/-- Drainage, exact: final storage + deep percolation + water dropped at the soil surface =
initial storage (needs only non-zero thicknesses). -/
theorem drainage_closes_with_lost (F : Fn α) (cells : List (Cell α))
    (hdz : ∀ x ∈ cells, x.c.dz ≠ 0) :
    storage (drainage F cells).cells + (drainage F cells).deepPerc + (drainage F cells).lost
      = storage cells :=
  drainage_balance F cells hdz

/-- Drainage under the invariant: nothing is dropped, so final storage + deep percolation =
initial storage.  Premises: `1 ≤ exp x` for `x ≥ 0`, and `DrainPre` for every compartment. -/
theorem drainage_closes (F : Fn α) (E : ExpLaws F) (cells : List (Cell α))
    (h : ∀ x ∈ cells, DrainPre x) :
    storage (drainage F cells).cells + (drainage F cells).deepPerc = storage cells ∧
      (drainage F cells).lost = 0 :=
  ⟨drainage_balance_inv F E cells h, drainage_lost_zero F E cells h⟩

/-- Infiltration, exact: soil water + ponded water change by the reported infiltration minus
this process's deep percolation, minus the ghost `lost`. -/
theorem infiltration_closes_with_lost {F : Fn α} {cells : List (Cell α)}
    {pond infl irr appEff zBund dp0 ro0 : α} {bunds gs : Bool} {out : InfOut α}
    (h : infiltration F cells pond infl irr appEff bunds zBund dp0 ro0 gs = .ok out)
    (hdz : ∀ c ∈ cells, 0 < c.c.dz) :
    storage out.cells + out.pond + (out.deepPerc - dp0)
      = storage cells + pond + out.infl - out.lost :=
  infiltration_balance_lost h hdz

/-- Infiltration with non-negative incoming ponding and `Ksat ≥ 0`: nothing is dropped. -/
theorem infiltration_closes {F : Fn α} {cells : List (Cell α)}
    {pond infl irr appEff zBund dp0 ro0 : α} {bunds gs : Bool} {out : InfOut α}
    (h : infiltration F cells pond infl irr appEff bunds zBund dp0 ro0 gs = .ok out)
    (hdz : ∀ c ∈ cells, 0 < c.c.dz) (hp : 0 ≤ pond) (hk : ∀ c ∈ cells, 0 ≤ c.c.ksat) :
    storage out.cells + out.pond + (out.deepPerc - dp0) = storage cells + pond + out.infl ∧
      out.lost = 0 :=
  ⟨infiltration_balance h hdz hp hk, infiltration_lost_eq_zero h hp hk⟩

/-- Capillary rise: storage afterwards = storage before + the water really added, and the
reported rise differs from it by at most `dzFill·1000/20000` (premise: 4-decimal rounding is
within half a unit of the last place). -/
theorem capillary_rise_closes (F : Fn α) (hR : GwRoundLaws F) (cells : List (Cell α))
    (nLayer : Nat) (fshape zGW : α) (wt : Nat) (r : CROut α) (hdz : ∀ x ∈ cells, 0 ≤ x.c.dz)
    (h : capillaryRise F cells nLayer fshape zGW wt = .ok r) :
    storage r.cells = storage cells + r.crAdded ∧ 0 ≤ r.dzFill ∧
      |r.crTot - r.crAdded| ≤ r.dzFill * 1000 * (1 / 20000) :=
  ⟨capillaryRise_balance F cells nLayer fshape zGW wt r h,
   capillaryRise_err F hR cells nLayer fshape zGW wt r hdz h⟩

/-- Soil evaporation: what leaves the soil and the ponded layer is exactly `EsAct`. -/
theorem evaporation_closes (F : Fn α) (P : EvapParams α) (S : EvapState α) (cells : List (Cell α))
    (D : EvapDay α) (out : EvapOut α) (h : soilEvaporation F P S cells D = .ok out)
    (hdz : ∀ x ∈ cells, 0 < x.c.dz) :
    storage out.cells + out.pond + out.esAct = storage cells + S.pond :=
  soilEvap_balance F P S cells D out h hdz

/-- Transpiration: what leaves the ponded water and the compartments is `TrAct`, what enters the
compartments is the net irrigation `IrrNet`. -/
theorem transpiration_closes {F : Fn α} {cells : List (Cell α)} {nComp : Nat} {zTop : α}
    {crop : TrCrop α} {m : Nat} {smt : α} {st : TrState α} {et0 cur ref gdd : α} {gs : Bool}
    {out : TrOut α} (hdz : ∀ x ∈ cells, 0 < x.c.dz)
    (h : transpiration F cells nComp zTop crop m smt st et0 cur ref gs gdd = .ok out) :
    storage out.cells + out.st.pond + out.trAct = storage cells + st.pond + out.irrNet :=
  transp_balance hdz h

/-- Groundwater inflow: storage afterwards = storage before + `GwIn`. -/
theorem groundwater_inflow_closes (cells : List (Cell α)) (wt : Bool) (zGW : α)
    (r : List (Cell α) × α) (h : groundwaterInflow cells wt zGW = some r) :
    storage r.1 = storage cells + r.2 :=
  groundwaterInflow_balance cells wt zGW r h

/-- The groundwater check (step 1) changes no water content. -/
theorem groundwater_check_keeps_storage (F : Fn α) (cells : List (Cell α)) (wt : Nat) (zGW : α)
    (r : GwtOut α) (h : checkGroundwaterTable F cells wt zGW = some r) :
    storage r.cells = storage cells :=
  storage_eq_of_forall₂ (checkGroundwaterTable_frame F cells wt zGW r h)
    (fun _ _ hxy => ⟨hxy.1, hxy.2.1⟩)

/-! ### the whole day -/

variable {F : Fn α} {W : WaterParams α} {fm : FieldMngt α} {C : CropDay α}
  {cells : List (Cell α)} {S : DayState α} {D : DayIn α} {out : DayOut α}

/-- Day balance, unconditional variant (only positive thicknesses): the change of soil storage
plus ponding equals infiltration + pre-irrigation + net irrigation + capillary rise really added +
groundwater inflow − deep percolation − evaporation − transpiration − the two `lost` ghosts. -/
theorem day_closes_with_lost (h : waterDay F W fm C cells S D = .ok out)
    (hdz : ∀ x ∈ cells, 0 < x.c.dz) :
    storage out.cells + out.pond =
      storage cells + S.pond + out.infl + out.preIrr + out.irrNet + out.crAdded + out.gwIn
        - out.deepPerc - out.es - out.tr - out.drainLost - out.inflLost :=
  waterDay_balance_lost h hdz

/-- Under `DayPre` (incoming cells within limits, non-negative ponding, `1 ≤ exp x` for `x ≥ 0`,
net-irrigation threshold in `[0,100]`) neither drainage nor infiltration drops water. -/
theorem day_nothing_lost (h : waterDay F W fm C cells S D = .ok out) (hP : DayPre F W cells S) :
    out.drainLost = 0 ∧ out.inflLost = 0 :=
  waterDay_lost_zero h hP

/-- **The daily balance closes**: under `DayPre`, for every `CropDay`, the change in stored soil
water plus ponded water equals reported infiltration + pre-irrigation + net irrigation +
capillary rise (as added) + groundwater inflow − reported deep percolation − soil evaporation −
transpiration. -/
theorem day_closes (h : waterDay F W fm C cells S D = .ok out) (hP : DayPre F W cells S) :
    storage out.cells + out.pond =
      storage cells + S.pond + out.infl + out.preIrr + out.irrNet + out.crAdded + out.gwIn
        - out.deepPerc - out.es - out.tr := by
  have hb := waterDay_balance_lost h (fun x hx => (hP.pre x hx).inv.wf.dz_pos)
  obtain ⟨l1, l2⟩ := waterDay_lost_zero h hP
  rw [l1, l2] at hb
  linarith

/-- Only the reported capillary rise may differ from the water actually added, by at most
`dzFill·1000/20000` mm where `dzFill` is the thickness (m) of the compartments filled to their
adjusted field capacity — i.e. at most 0.05 mm per metre of profile (premise: the law of 4-decimal
rounding). -/
theorem day_capillary_rise_reported (h : waterDay F W fm C cells S D = .ok out)
    (hR : GwRoundLaws F) (hdz : ∀ x ∈ cells, 0 < x.c.dz) :
    0 ≤ out.dzFill ∧ |out.cr - out.crAdded| ≤ out.dzFill * 1000 * (1 / 20000) :=
  waterDay_cr_err h hR hdz

/-- In net-irrigation mode the row's irrigation column is `IrrNet + PreIrr`, otherwise (in
season) the applied depth `Irr`; off season it is 0 — so the balance can be read off the row. -/
theorem day_row_irrigation (h : waterDay F W fm C cells S D = .ok out) :
    out.irrDay = if D.gs then (if W.irr.method = 4 then out.irrNet + out.preIrr else out.irr)
      else 0 := by
  obtain ⟨T, _, rfl⟩ := waterDay_ok h
  rfl

/-! ### non-vacuity -/

/-- the concrete day of `Proofs/WaterDay.lean` (rain 20 mm, irrigation 10 mm, water table at 1 m,
all fluxes positive) satisfies `DayPre`, so its balance closes -/
example : ∃ out, waterDay DayExample.Fq DayExample.Wq DayExample.fmq DayExample.Cq
      DayExample.cellsq DayExample.Sq DayExample.Dq = .ok out ∧ 0 < out.infl ∧ 0 < out.cr ∧
    storage out.cells + out.pond =
      storage DayExample.cellsq + DayExample.Sq.pond + out.infl + out.preIrr + out.irrNet
        + out.crAdded + out.gwIn - out.deepPerc - out.es - out.tr := by
  obtain ⟨out, h, _, hcr, hinfl, _⟩ := DayExample.runs
  exact ⟨out, h, hinfl, hcr, day_closes h DayExample.dayPre⟩


/-! ### every simulated day of every run (the whole day incl. the crop side, driven by the clock) -/

/-- **Run level.** On every simulated day of every run of the model (`Model/Run.lean`: the clock
state machine driving the full day `fullDay`, with the season-start reset) the soil-water balance
closes — by induction over the run, under the run premises `RunPre` (initial content within
limits, bund water ≥ 0, …) and the per-day premises `DayOK` (transpiration geometry; with a water
table: capillary rise did not use its rounding slack). -/
theorem run_closes {F : Fn α} {T : TrigFn α} {cfg : RunCfg α} {s : RunState α}
    (hP : RunPre F cfg) (wp fc : Nat → α) (hr : RunReach F T cfg s)
    (hOK : ∀ d ∈ s.daysRev, DayOK F wp fc d) :
    ∀ d ∈ s.daysRev,
      storage d.r.state.cells + d.r.state.pond =
        storage d.st.cells + d.st.pond + d.r.flux.infl + d.r.water.preIrr + d.r.water.irrNet
          + d.r.water.crAdded + d.r.flux.gwIn - d.r.flux.deepPerc - d.r.flux.es - d.r.flux.tr :=
  Aqua.run_closes hP wp fc hr hOK

/-- **Run level, second sentence of the property.** Between consecutive simulated days stored
water and ponding are carried over unchanged, except at a season start with the off-season
skipped, where the water content is reset to the stored initial content and ponding to the
configured bund water — for every reachable run state, no premise. -/
theorem stored_water_carried_over {F : Fn α} {T : TrigFn α} {cfg : RunCfg α} {s : RunState α}
    (hr : RunReach F T cfg s) : CarriedAll cfg s.daysRev := run_stored_water_carried_over hr

/-! ### run level, per-day premises discharged (`Proofs/RunClosed*.lean`) -/

section closed
variable {α : Type} [Field α] [LinearOrder α] [IsStrictOrderedRing α]

/-- **Run level, closed.** The daily soil-water balance closes on every simulated day of every
run: premises on the configuration only (`CfgOK`), plus — with a water table — that capillary rise
did not overshoot saturation on the simulated days (`ResidualW`; vacuous without a water table). -/
theorem run_closes_closed {F : Fn α} {T : TrigFn α} {cfg : RunCfg α} {s : RunState α}
    (hC : CfgOK F T cfg) (hr : RunReach F T cfg s) (hR : ∀ d ∈ s.daysRev, ResidualW d) :
    ∀ d ∈ s.daysRev,
      storage d.r.state.cells + d.r.state.pond =
        storage d.st.cells + d.st.pond + d.r.flux.infl + d.r.water.preIrr + d.r.water.irrNet
          + d.r.water.crAdded + d.r.flux.gwIn - d.r.flux.deepPerc - d.r.flux.es - d.r.flux.tr :=
  Aqua.run_closes_closed hC hr hR
end closed

/-! ### run level, catalogue configurations (`Proofs/Catalogue*.lean`): every hypothesis is membership in a table
regenerated from the sources, a fact about initialisation outputs, or a premise on the weather -/

section catalogueRun
open Aqua.Response Aqua.HarvestIndexReal

/-- **Run level, catalogue configurations.** The daily soil-water balance closes on every simulated
day of every run of every catalogue configuration (`CatCfg`: crops of the generated crop table,
profile and initial water content from the profile builder / `initWC`, parameter ranges) — real
`exp`/`log`/`pow`; with a water table, `ResidualW` (capillary rise did not overshoot saturation). -/
theorem catalogue_run_closes {cfg : RunCfg ℝ} {s : RunState ℝ} (h : CatCfg cfg)
    (hr : RunReach realFn realTrig cfg s) (hR : ∀ d ∈ s.daysRev, ResidualW d) :
    ∀ d ∈ s.daysRev,
      storage d.r.state.cells + d.r.state.pond =
        storage d.st.cells + d.st.pond + d.r.flux.infl + d.r.water.preIrr + d.r.water.irrNet
          + d.r.water.crAdded + d.r.flux.gwIn - d.r.flux.deepPerc - d.r.flux.es - d.r.flux.tr :=
  Aqua.catalogue_run_closes h hr hR
end catalogueRun

end Aqua.C01
