import AquaVerif.Model.RunShape
/-
Property C14 — no look-ahead: past outputs do not depend on future weather.

Stated for the day loop `runDays` over **every** day function `step`, every initial state and
every pair of weather series: a functional day loop that hands day `t` only its own weather
record cannot look ahead.  What makes this a statement about the implementation is (i) the tie of
the loop shape (`core._perform_timestep` passes `weather[time_step_counter]` only; checked by
the perturbation differential runs on calendar-day crops) and (ii) the known exception that the
theorem's hypothesis makes explicit: the *initial state* `s₀` must not depend on the future —
which holds for calendar-day crops and fails by design for thermal-time crops, whose calendar is
derived from season-long degree-day sums at initialisation / season start.
-/

namespace Aqua.C14
open Aqua.RunShape

variable {σ ω ρ : Type}

/-- Changing the weather on day `t` or later never changes any output for a day before `t`. -/
theorem prefix_determined (step : σ → ω → σ × ρ) (s₀ : σ) (t : Nat) :
    ∀ (ws ws' : List ω), ws.take t = ws'.take t →
      (runDays step s₀ ws).take t = (runDays step s₀ ws').take t := by
  induction t generalizing s₀ with
  | zero => intro ws ws' _; simp
  | succ t ih =>
    intro ws ws' h
    cases ws with
    | nil =>
      cases ws' with
      | nil => rfl
      | cons w' ws' => simp at h
    | cons w ws =>
      cases ws' with
      | nil => simp at h
      | cons w' ws' =>
        simp only [List.take_succ_cons, List.cons.injEq] at h
        obtain ⟨rfl, h⟩ := h
        simp only [runDays, List.take_succ_cons, List.cons.injEq, true_and]
        exact ih _ ws ws' h

/-- Weather records outside the simulation window have no effect: a run sees the clipped series
only, and two tables with the same in-window records give the same run. -/
theorem outside_window_irrelevant (step : σ → (Int × ω) → σ × ρ) (s₀ : σ) (lo hi : Int)
    (ws ws' : List (Int × ω)) (h : clip lo hi ws = clip lo hi ws') :
    runDays step s₀ (clip lo hi ws) = runDays step s₀ (clip lo hi ws') := by rw [h]

/-- clipping keeps exactly the in-window records, in order -/
theorem clip_mem (lo hi : Int) (ws : List (Int × ω)) (p : Int × ω) :
    p ∈ clip lo hi ws ↔ p ∈ ws ∧ lo ≤ p.1 ∧ p.1 ≤ hi := by
  simp [clip]

/-- padding before and after the window is clipped away -/
theorem clip_padding (lo hi : Int) (pre mid post : List (Int × ω))
    (hpre : ∀ p ∈ pre, p.1 < lo) (hpost : ∀ p ∈ post, hi < p.1) :
    clip lo hi (pre ++ mid ++ post) = clip lo hi mid := by
  have h1 : clip lo hi pre = [] := by
    simp only [clip, List.filter_eq_nil_iff, Bool.and_eq_true, decide_eq_true_eq, not_and]
    intro p hp h; have := hpre p hp; omega
  have h2 : clip lo hi post = [] := by
    simp only [clip, List.filter_eq_nil_iff, Bool.and_eq_true, decide_eq_true_eq, not_and]
    intro p hp _; have := hpost p hp; omega
  simp only [clip, List.filter_append] at *
  rw [h1, h2]; simp

/-- Extending the end date leaves the results of the days already simulated unchanged: the
rows of a run over a series are a prefix of the rows of the run over any extension. -/
theorem extension_keeps_completed_days (step : σ → ω → σ × ρ) (s₀ : σ) (ws ext : List ω) :
    (runDays step s₀ (ws ++ ext)).take ws.length = runDays step s₀ ws := by
  induction ws generalizing s₀ with
  | nil => simp [runDays]
  | cons w ws ih => simp [runDays, ih]

/-- … and the state reached at the old end is the same, so completed seasons are unaffected. -/
theorem extension_same_state (step : σ → ω → σ × ρ) (s₀ : σ) (ws ext : List ω) :
    finalState step s₀ (ws ++ ext) = finalState step (finalState step s₀ ws) ext := by
  induction ws generalizing s₀ with
  | nil => rfl
  | cons w ws ih => simp [finalState, ih]

/-- non-vacuity: a concrete day function (running sum) on two series that differ from day 2 on -/
example : (runDays (fun (s : Nat) (w : Nat) => (s + w, s + w)) 0 [1, 2, 3, 4]).take 2
        = (runDays (fun (s : Nat) (w : Nat) => (s + w, s + w)) 0 [1, 2, 9, 9]).take 2 := by decide

end Aqua.C14
