import AquaVerif.Proofs.WeatherBind
import AquaVerif.Proofs.GwSeries
import AquaVerif.Proofs.PrepareGddLookahead
import AquaVerif.Model.RunShape
/-
Property C14 — no look-ahead: past outputs do not depend on future weather.

Stated for the day loop `runDays` over **every** day function `step`, every initial state and
every pair of weather series: a functional day loop that hands day `t` only its own weather
record cannot look ahead.  What makes this a statement about the implementation is (i) the tie of
the loop shape (`core._perform_timestep` passes `weather[time_step_counter]` only; checked by
the perturbation differential runs on calendar-day crops) and (ii) the known exception that the
theorem's hypothesis makes explicit: the *initial state* `s₀` must not depend on the future —
which holds for calendar-day crops and fails by design for thermal-time crops, whose calendar is
derived from season-long degree-day sums at initialisation / season start.
-/

namespace Aqua.C14
open Aqua.RunShape

variable {σ ω ρ : Type}

/-- Changing the weather on day `t` or later never changes any output for a day before `t`. -/
theorem prefix_determined (step : σ → ω → σ × ρ) (s₀ : σ) (t : Nat) :
    ∀ (ws ws' : List ω), ws.take t = ws'.take t →
      (runDays step s₀ ws).take t = (runDays step s₀ ws').take t := by
  induction t generalizing s₀ with
  | zero => intro ws ws' _; simp
  | succ t ih =>
    intro ws ws' h
    cases ws with
    | nil =>
      cases ws' with
      | nil => rfl
      | cons w' ws' => simp at h
    | cons w ws =>
      cases ws' with
      | nil => simp at h
      | cons w' ws' =>
        simp only [List.take_succ_cons, List.cons.injEq] at h
        obtain ⟨rfl, h⟩ := h
        simp only [runDays, List.take_succ_cons, List.cons.injEq, true_and]
        exact ih _ ws ws' h

/-- Weather records outside the simulation window have no effect: a run sees the clipped series
only, and two tables with the same in-window records give the same run. -/
theorem outside_window_irrelevant (step : σ → (Int × ω) → σ × ρ) (s₀ : σ) (lo hi : Int)
    (ws ws' : List (Int × ω)) (h : clip lo hi ws = clip lo hi ws') :
    runDays step s₀ (clip lo hi ws) = runDays step s₀ (clip lo hi ws') := by rw [h]

/-- clipping keeps exactly the in-window records, in order -/
theorem clip_mem (lo hi : Int) (ws : List (Int × ω)) (p : Int × ω) :
    p ∈ clip lo hi ws ↔ p ∈ ws ∧ lo ≤ p.1 ∧ p.1 ≤ hi := by
  simp [clip]

/-- padding before and after the window is clipped away -/
theorem clip_padding (lo hi : Int) (pre mid post : List (Int × ω))
    (hpre : ∀ p ∈ pre, p.1 < lo) (hpost : ∀ p ∈ post, hi < p.1) :
    clip lo hi (pre ++ mid ++ post) = clip lo hi mid := by
  have h1 : clip lo hi pre = [] := by
    simp only [clip, List.filter_eq_nil_iff, Bool.and_eq_true, decide_eq_true_eq, not_and]
    intro p hp h; have := hpre p hp; omega
  have h2 : clip lo hi post = [] := by
    simp only [clip, List.filter_eq_nil_iff, Bool.and_eq_true, decide_eq_true_eq, not_and]
    intro p hp _; have := hpost p hp; omega
  simp only [clip, List.filter_append] at *
  rw [h1, h2]; simp

/-- Extending the end date leaves the results of the days already simulated unchanged: the
rows of a run over a series are a prefix of the rows of the run over any extension. -/
theorem extension_keeps_completed_days (step : σ → ω → σ × ρ) (s₀ : σ) (ws ext : List ω) :
    (runDays step s₀ (ws ++ ext)).take ws.length = runDays step s₀ ws := by
  induction ws generalizing s₀ with
  | nil => simp [runDays]
  | cons w ws ih => simp [runDays, ih]

/-- … and the state reached at the old end is the same, so completed seasons are unaffected. -/
theorem extension_same_state (step : σ → ω → σ × ρ) (s₀ : σ) (ws ext : List ω) :
    finalState step s₀ (ws ++ ext) = finalState step (finalState step s₀ ws) ext := by
  induction ws generalizing s₀ with
  | nil => rfl
  | cons w ws ih => simp [finalState, ih]

/-- **Extending the end date keeps the water-table series** ("Variable" method of
`read_groundwater_table`, `Model/GwSeries.lean`): a day covered by a simulation of `n` days and by
one of `n'` days (same start, same table of observations) gets the same table depth in both —
whatever the dates of the observations, inside either period or not.  (The series is built by
interpolation in time over the dated observations; the length of the simulation does not enter.) -/
theorem extending_end_keeps_water_table_series {α : Type} [Field α] [LinearOrder α]
    [IsStrictOrderedRing α] (n n' : Nat) (obs : List (Int × α)) (i : Nat) (hn : i < n)
    (hn' : i < n') : (Aqua.gwVariable n obs)[i]? = (Aqua.gwVariable n' obs)[i]? :=
  Aqua.gw_variable_window_independent n n' obs i hn hn'

/-- … as lists: the series of the shorter simulation is a prefix of the series of the longer one. -/
theorem extending_end_water_table_series_prefix {α : Type} [Field α] [LinearOrder α]
    [IsStrictOrderedRing α] (n n' : Nat) (obs : List (Int × α)) (h : n ≤ n') :
    (Aqua.gwVariable n' obs).take n = Aqua.gwVariable n obs :=
  Aqua.gw_variable_take n n' obs h

/-- non-vacuity: an observation after the end of the short run (day 7 of 4) — the first four days of
the 10-day series are the 4-day series -/
example : (Aqua.gwVariable 10 [((1 : Int), (1 : ℚ)), (7, 4)]).take 4 =
    Aqua.gwVariable 4 [((1 : Int), (1 : ℚ)), (7, 4)] ∧
    Aqua.gwVariable 4 [((1 : Int), (1 : ℚ)), (7, 4)] = [none, some 1, some (3/2), some 2] := by
  decide +kernel

/-- non-vacuity: a concrete day function (running sum) on two series that differ from day 2 on -/
example : (runDays (fun (s : Nat) (w : Nat) => (s + w, s + w)) 0 [1, 2, 3, 4]).take 2
        = (runDays (fun (s : Nat) (w : Nat) => (s + w, s + w)) 0 [1, 2, 9, 9]).take 2 := by decide

/-! ### tie of the shapes to the code (`Model/WeatherBind.lean`, replayed by the `weather_bind` tie) -/

section impl
open Aqua.WeatherBind
/-- **Tie of the shape to the code (work package T).**  No look-ahead through the implementation's
own weather handling: two weather tables that agree on their first `j` rows and on both of which
the set-up succeeds give, for every day function and initial state, the same outputs on the first
`q` simulated days, `q` = number of in-window rows among the first `j` rows. -/
theorem impl_no_lookahead {κ ι ι' σ ρ : Type} (step : σ → List (WCell κ) → σ × ρ) (s₀ : σ)
    (s e : Int) (j : Nat) {t : WTable κ ι} {t' : WTable κ ι'} {c c' : List (WCell κ)}
    (hd : sel "Date" t.cols = [c]) (hd' : sel "Date" t'.cols = [c'])
    (hview : ∀ n ∈ required, (sel n t.cols).map (List.take j) = (sel n t'.cols).map (List.take j))
    {m m' : List (List (WCell κ))} (hm : weatherMatrix s e t = .ok m)
    (hm' : weatherMatrix s e t' = .ok m') :
    (runDays step s₀ m).take (((c.take j).map (inWin s e)).count true) =
      (runDays step s₀ m').take (((c.take j).map (inWin s e)).count true) :=
  prefix_determined step s₀ _ m m' (weatherMatrix_prefix s e j hd hd' hview hm hm')

/-- the implementation's clipping *is* `clip` (so `outside_window_irrelevant`, `clip_mem`,
`clip_padding` speak about `read_weather_inputs`) -/
theorem impl_clip {κ ι : Type} (s e : Int) {t : WTable κ ι} {ds : List Int}
    (h : sel "Date" t.cols = [ds.map .date]) {m : List (List (WCell κ))}
    (hm : weatherMatrix s e t = .ok m) :
    ∃ cs, selectCols required t.cols = .ok cs ∧ m = (clip s e (ds.zip (rowsOf cs))).map (·.2) := by
  rw [weatherMatrix_eq_clip s e h] at hm
  repeat' split at hm
  all_goals first
    | exact ⟨_, ‹_›, (Except.ok.inj hm).symm⟩
    | cases hm

/-- rows outside the window are irrelevant to the implementation, given that the two positional
checks (first row, last row) come out the same -/
theorem impl_outside_window_irrelevant {κ ι ι' : Type} (s e : Int) (t : WTable κ ι) (t' : WTable κ ι')
    (m : List Bool)
    (hview : ∀ n ∈ required, sel n t.cols = (sel n t'.cols).map (keep m))
    (hout : ∀ c ∈ sel "Date" t'.cols, Forall2 (fun b x => b = false → Outside s e x) m c)
    (hfirst : dateEdgeTest false (fun d => decide (s < d)) t' = dateEdgeTest false (fun d => decide (s < d)) t)
    (hlast : dateEdgeTest true (fun d => decide (d < e)) t' = dateEdgeTest true (fun d => decide (d < e)) t) :
    weatherMatrix s e t' = weatherMatrix s e t :=
  weatherMatrix_extra_rows s e t t' m hview hout hfirst hlast
end impl


/-! ## The restriction to calendar-day crops that are not converted (`SwitchGDD = 0`) is necessary -/

/-- The restriction of "no look-ahead" to calendar-day crops is NECESSARY.  For `SwitchGDD == 1`
`prepare_gdd` takes each stage threshold as the mean/median over ALL seasons of the window
`pl_date … time_span[-1]`; appending the rows of a further season (extending the end date) changes
the thresholds used from the first season on.  Witness over ℚ: two seasons of four days, emergence
threshold 1 → 2 degree-days. -/
theorem switchgdd_conversion_looks_ahead_by_design :
    ∃ (rows₁ ext : List (Option Nat × ℚ)) (g₁ g₂ : Aqua.GddStages ℚ),
      Aqua.prepareGdd Rat.floor 2 true 0 Aqua.lookaheadStages Aqua.lookaheadOld rows₁ = .ok g₁ ∧
      Aqua.prepareGdd Rat.floor 2 true 0 Aqua.lookaheadStages Aqua.lookaheadOld (rows₁ ++ ext)
        = .ok g₂ ∧
      g₁.emergence ≠ g₂.emergence :=
  Aqua.switchGdd_extension_changes_thresholds

/-- Positive counterpart: the conversion depends on the weather window only through the distinct
season labels (order of first appearance) and the per-season degree lists — result or error. -/
theorem switchgdd_conversion_depends_on_seasons_only {α : Type} [Field α] [LinearOrder α]
    [IsStrictOrderedRing α] (toInt : α → Int) (cropType : Nat) (hasCol : Bool) (sumFun : Nat)
    (s : Aqua.GddStagesIn α) (old : Aqua.GddStages α) {rows rows' : List (Option Nat × α)}
    (hl : Aqua.uniqLabels (rows.map (·.1)) = Aqua.uniqLabels (rows'.map (·.1)))
    (hs : ∀ k, Aqua.seasonGdd rows k = Aqua.seasonGdd rows' k) :
    Aqua.prepareGdd toInt cropType hasCol sumFun s old rows =
      Aqua.prepareGdd toInt cropType hasCol sumFun s old rows' :=
  Aqua.prepareGdd_congr_seasons toInt cropType hasCol sumFun s old hl hs

/-- Within ONE season: extending the window by rows of the same season leaves every threshold read
at a non-negative calendar-day position unchanged (mean and median). -/
theorem switchgdd_same_season_extension_keeps_thresholds {α : Type} [Field α] [LinearOrder α]
    [IsStrictOrderedRing α] {toInt : α → Int} {cropType : Nat} {hasCol : Bool} {sumFun : Nat}
    {s : Aqua.GddStagesIn α} {old g₁ g₂ : Aqua.GddStages α}
    {rows₁ ext : List (Option Nat × α)} {k : Nat}
    (h₁ : Aqua.prepareGdd toInt cropType hasCol sumFun s old rows₁ = .ok g₁)
    (h₂ : Aqua.prepareGdd toInt cropType hasCol sumFun s old (rows₁ ++ ext) = .ok g₂)
    (hne : rows₁ ≠ [])
    (hk₁ : ∀ r ∈ rows₁, r.1 = some k) (hk₂ : ∀ r ∈ ext, r.1 = some k)
    (hsf : sumFun = 0 ∨ sumFun = 1) (a : Aqua.Stage) (ha : 0 ≤ toInt (a.cd s)) :
    a.val g₂ = a.val g₁ :=
  Aqua.prepareGdd_single_season_prefix h₁ h₂ hne hk₁ hk₂ hsf a ha

end Aqua.C14
