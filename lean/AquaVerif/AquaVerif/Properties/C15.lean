import AquaVerif.Proofs.WeatherBind
import AquaVerif.Model.RunShape
import AquaVerif.Properties.C14
/-
Property C15 — weather is bound by date and by column name.

`bindTable` is the model of `core._initialize`'s selection of the five required columns by name
(since the `fix:` commit "bind weather variables by column name"; before it the matrix was taken
positionally and `bind_perm_columns` was false of the code — the differential oracle exhibited
it).  Rows are bound by date through `clip` (`read_weather_inputs`).  For every table with
distinct column names.
-/

namespace Aqua.C15
open Aqua.RunShape

variable {κ : Type}

/-- looking a name up among distinct column names is invariant under permutation of the columns -/
theorem col_perm {cs cs' : List (String × List κ)} (hp : cs.Perm cs')
    (hnd : (cs.map (·.1)).Nodup) (name : String) :
    (Table.mk cs).col name = (Table.mk cs').col name := by
  unfold Table.col
  simp only
  induction hp with
  | nil => rfl
  | cons x _ ih =>
    simp only [List.map_cons, List.nodup_cons] at hnd
    simp only [List.find?_cons]
    split
    · rfl
    · exact ih hnd.2
  | swap x y l =>
    simp only [List.map_cons, List.nodup_cons, List.mem_cons, not_or] at hnd
    simp only [List.find?_cons]
    by_cases hx : (x.1 == name) = true <;> by_cases hy : (y.1 == name) = true
    · exfalso
      have h1 : x.1 = name := by simpa using hx
      have h2 : y.1 = name := by simpa using hy
      exact hnd.1.1 (by rw [h2, h1])
    · simp [hx, hy]
    · simp [hx, hy]
    · simp [hx, hy]
  | trans h1 _ ih1 ih2 =>
    rw [ih1 hnd]
    exact ih2 ((h1.map _).nodup_iff.mp hnd)

/-- Reordering the columns does not change what is bound. -/
theorem bind_perm_columns (t t' : Table κ) (hp : t.cols.Perm t'.cols)
    (hnd : (t.cols.map (·.1)).Nodup) : bindTable t = bindTable t' := by
  cases t with | mk cs =>
  cases t' with | mk cs' =>
  simp only [bindTable, col_perm hp hnd]

/-- a column whose name is not the one looked for is skipped -/
theorem col_insert (pre extra post : List (String × List κ)) (name : String)
    (hx : ∀ c ∈ extra, c.1 ≠ name) :
    (Table.mk (pre ++ extra ++ post)).col name = (Table.mk (pre ++ post)).col name := by
  unfold Table.col
  simp only [List.append_assoc, List.find?_append]
  have : extra.find? (fun c => c.1 == name) = none := by
    simp only [List.find?_eq_none, beq_iff_eq]
    exact fun c hc => hx c hc
  rw [this]
  simp

/-- Adding unrelated columns (names other than the five required ones), anywhere in the table,
does not change what is bound. -/
theorem bind_extra_columns (pre extra post : List (String × List κ))
    (hx : ∀ c ∈ extra, c.1 ∉ required) :
    bindTable ⟨pre ++ extra ++ post⟩ = bindTable ⟨pre ++ post⟩ := by
  have h (name : String) (hn : name ∈ required) :
      (Table.mk (pre ++ extra ++ post)).col name = (Table.mk (pre ++ post)).col name :=
    col_insert pre extra post name (fun c hc heq => hx c hc (heq ▸ hn))
  simp only [bindTable]
  rw [h "MinTemp" (by simp [required]), h "MaxTemp" (by simp [required]),
    h "Precipitation" (by simp [required]), h "ReferenceET" (by simp [required]),
    h "Date" (by simp [required])]

/-- Re-indexing the table does not change what is bound (the index is never consulted). -/
theorem bind_reindex {ι : Type} (t : Table κ) (index : List ι) :
    bindTable (reindex t index) = bindTable t := rfl

/-- Extra leading or trailing rows (dates outside the window) do not change the records used:
they are clipped away before the run (`C14.clip_padding`). -/
theorem extra_rows_outside_window {ω : Type} (lo hi : Int) (pre mid post : List (Int × ω))
    (hpre : ∀ p ∈ pre, p.1 < lo) (hpost : ∀ p ∈ post, hi < p.1) :
    clip lo hi (pre ++ mid ++ post) = clip lo hi mid :=
  Aqua.C14.clip_padding lo hi pre mid post hpre hpost

/-- The positional binding the code used before the fix is *not* invariant under column
permutation: model-level witness of the repaired defect. -/
theorem positional_binding_is_not_invariant :
    ∃ (t t' : Table Nat), t.cols.Perm t'.cols ∧ (t.cols.map (·.1)).Nodup ∧
      t.cols.map (·.2) ≠ t'.cols.map (·.2) :=
  ⟨⟨[("MinTemp", [1]), ("MaxTemp", [2])]⟩, ⟨[("MaxTemp", [2]), ("MinTemp", [1])]⟩,
    List.Perm.swap _ _ _, by decide, by decide⟩

/-- non-vacuity: a five-column table with an extra column, permuted -/
example : bindTable (κ := Nat) ⟨[("Date", [7]), ("Wind", [0]), ("ReferenceET", [4]), ("Precipitation", [3]),
      ("MaxTemp", [2]), ("MinTemp", [1])]⟩ = some [[1], [2], [3], [4], [7]] := by decide

/-! ### tie of the shapes to the code (`Model/WeatherBind.lean`, replayed by the `weather_bind` tie) -/

section impl
open Aqua.WeatherBind
theorem impl_perm_columns {κ ι ι' : Type} (s e : Int) (t : WTable κ ι) (t' : WTable κ ι')
    (hp : t.cols.Perm t'.cols) (hnd : (t.cols.map (·.1)).Nodup) :
    weatherMatrix s e t = weatherMatrix s e t' := weatherMatrix_perm_columns s e t t' hp hnd

theorem impl_extra_columns {κ ι ι' : Type} (s e : Int) (pre extra post : List (String × List (WCell κ)))
    (idx : List ι) (idx' : List ι') (hx : ∀ c ∈ extra, c.1 ∉ required) :
    weatherMatrix s e ({ cols := pre ++ extra ++ post, index := idx } : WTable κ ι) =
      weatherMatrix s e ({ cols := pre ++ post, index := idx' } : WTable κ ι') :=
  weatherMatrix_extra_columns s e pre extra post idx idx' hx

theorem impl_reindex {κ ι ι' : Type} (s e : Int) (t : WTable κ ι) (idx' : List ι') :
    weatherMatrix s e ({ cols := t.cols, index := idx' } : WTable κ ι') = weatherMatrix s e t :=
  weatherMatrix_reindex s e t idx'

/-- the implementation = positional checks, then `bindTable`, then `clip` -/
theorem impl_eq_bind_clip {κ ι : Type} (s e : Int) {t : WTable κ ι} {ds : List Int}
    (hnd : (t.cols.map (·.1)).Nodup) (h : sel "Date" t.cols = [ds.map .date]) :
    weatherMatrix s e t =
      match ds.head?, ds.getLast? with
      | some d0, some d1 =>
        if s < d0 then .error "E:first-date"
        else if d1 < e then .error "E:last-date"
        else match bindTable t.toTable with
          | none => .error "E:key"
          | some cs => .ok ((clip s e (ds.zip (rowsOf cs))).map (·.2))
      | _, _ => .error "E:index" := weatherMatrix_eq_bind_clip s e hnd h

/-- rows are bound by date when the table is sorted, gap-free, duplicate-free and covers the window
(and only then: counter-examples in `Proofs/WeatherBind.lean` §5 — the implementation binds rows by
position after clipping) -/
theorem impl_rows_by_date {κ ι : Type} (s e d0 : Int) (n : Nat) {t : WTable κ ι}
    (h : sel "Date" t.cols = [(contig d0 n).map .date]) (h0 : d0 ≤ s) (h1 : e < d0 + n)
    {m : List (List (WCell κ))} (hm : weatherMatrix s e t = .ok m) (k : Nat) (r : List (WCell κ))
    (hr : dayRow m k = .ok r) : r.getLast? = some (.date (s + k)) :=
  dayRow_date_of_contiguous s e d0 n h h0 h1 hm k r hr
end impl

end Aqua.C15
