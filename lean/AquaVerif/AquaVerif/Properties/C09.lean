import AquaVerif.Proofs.Clock
import AquaVerif.Proofs.ClockRun
/-
Property C09 — step-wise execution equals one uninterrupted run.

`runModel k` is the model of `run_model(num_steps=k, initialize_model=False)`, `runCalls ks` a
sequence of such calls, `runTill` the model of `run_model(till_termination=True)`; the state
`St` carries the clock, the flags and the complete daily rows and summary written so far, so
equality of states is equality of all observable outputs.  For every configuration, every
oracle (day function) and every list of step counts.
-/

namespace Aqua.C09
open Aqua.Clock

variable {c : Cfg} {ev : Ev}

/-- Two calls equal one call with the sum of the step counts (as long as the first did not end
the simulation). -/
theorem steps_compose {a b : Nat} {s s1 : St} (h1 : runSteps c ev a s = .ok s1)
    (hf : s1.finished = false) : runSteps c ev (a + b) s = runSteps c ev b s1 :=
  runSteps_add' h1 hf

/-- A step count that overshoots the end stops at termination. -/
theorem overshoot_stops_at_termination {a : Nat} (b : Nat) {s s1 : St} (hs : s.finished = false)
    (h1 : runSteps c ev a s = .ok s1) (hf : s1.finished = true) :
    runSteps c ev (a + b) s = .ok s1 := overshoot_stops b hs h1 hf

/-- **Any** sequence of run calls that leaves the model finished produces exactly the state —
daily rows, summary, clock, completion status — of one run to termination. -/
theorem any_partition_equals_one_run (hw : WF c) (ev : Ev) {s₀ s : St} (hi : init c = .ok s₀)
    {ks : List Nat} (h : runCalls c ev ks s₀ = .ok s) (hf : s.finished = true) :
    runTill c ev s₀ = .ok s := calls_eq_till hw ev hi h hf

/-- Every way of cutting the run exists: a call with a positive step count on an unfinished
reachable state never raises. -/
theorem positive_step_calls_never_raise (hw : WF c) (ev : Ev) {s : St} (hr : Reach c ev s)
    (hf : s.finished = false) (k : Nat) (hk : 1 ≤ k) :
    ∃ s', runModel c ev k s = .ok s' ∧ Reach c ev s' :=
  runModel_ok_of_unfinished hw ev hr hf k hk

/-- Until termination the model is unfinished: every intermediate call result of a sequence
that goes on is unfinished. -/
theorem unfinished_until_termination {k k2 : Nat} {ks : List Nat} {s₀ s1 s : St}
    (h1 : runModel c ev k s₀ = .ok s1) (h : runCalls c ev (k2 :: ks) s1 = .ok s) :
    s1.finished = false := runCalls_cons_unfinished h1 h

/-- The rows and summary written so far are never rewritten by later steps: summary rows stay in
strictly increasing season order at every reachable state (monotone history). -/
theorem summary_only_grows_in_order (hw : WF c) {s : St} (hr : Reach c ev s) :
    s.summary.Pairwise (fun a b => a.1 < b.1) := summary_sorted hw hr

end Aqua.C09
