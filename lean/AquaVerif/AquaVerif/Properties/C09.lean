import AquaVerif.Proofs.Session
import AquaVerif.Proofs.Clock
import AquaVerif.Proofs.ClockRun
/-
Property C09 — step-wise execution equals one uninterrupted run.

`runModel k` is the model of `run_model(num_steps=k, initialize_model=False)`, `runCalls ks` a
sequence of such calls, `runTill` the model of `run_model(till_termination=True)`; the state
`St` carries the clock, the flags and the complete daily rows and summary written so far, so
equality of states is equality of all observable outputs.  For every configuration, every
oracle (day function) and every list of step counts.
-/

namespace Aqua.C09
open Aqua.Clock

variable {c : Cfg} {ev : Ev}

/-- Two calls equal one call with the sum of the step counts (as long as the first did not end
the simulation). -/
theorem steps_compose {a b : Nat} {s s1 : St} (h1 : runSteps c ev a s = .ok s1)
    (hf : s1.finished = false) : runSteps c ev (a + b) s = runSteps c ev b s1 :=
  runSteps_add' h1 hf

/-- A step count that overshoots the end stops at termination. -/
theorem overshoot_stops_at_termination {a : Nat} (b : Nat) {s s1 : St} (hs : s.finished = false)
    (h1 : runSteps c ev a s = .ok s1) (hf : s1.finished = true) :
    runSteps c ev (a + b) s = .ok s1 := overshoot_stops b hs h1 hf

/-- **Any** sequence of run calls that leaves the model finished produces exactly the state —
daily rows, summary, clock, completion status — of one run to termination. -/
theorem any_partition_equals_one_run (hw : WF c) (ev : Ev) {s₀ s : St} (hi : init c = .ok s₀)
    {ks : List Nat} (h : runCalls c ev ks s₀ = .ok s) (hf : s.finished = true) :
    runTill c ev s₀ = .ok s := calls_eq_till hw ev hi h hf

/-- Every way of cutting the run exists: a call with a positive step count on an unfinished
reachable state never raises. -/
theorem positive_step_calls_never_raise (hw : WF c) (ev : Ev) {s : St} (hr : Reach c ev s)
    (hf : s.finished = false) (k : Nat) (hk : 1 ≤ k) :
    ∃ s', runModel c ev k s = .ok s' ∧ Reach c ev s' :=
  runModel_ok_of_unfinished hw ev hr hf k hk

/-- Until termination the model is unfinished: every intermediate call result of a sequence
that goes on is unfinished. -/
theorem unfinished_until_termination {k k2 : Nat} {ks : List Nat} {s₀ s1 s : St}
    (h1 : runModel c ev k s₀ = .ok s1) (h : runCalls c ev (k2 :: ks) s1 = .ok s) :
    s1.finished = false := runCalls_cons_unfinished h1 h

/-- The rows and summary written so far are never rewritten by later steps: summary rows stay in
strictly increasing season order at every reachable state (monotone history). -/
theorem summary_only_grows_in_order (hw : WF c) {s : St} (hr : Reach c ev s) :
    s.summary.Pairwise (fun a b => a.1 < b.1) := summary_sorted hw hr

/-! ### the public API as a state machine (`Model/Session.lean`, replayed by the `session` tie on real `AquaCropModel` objects) -/

section api
open Aqua.Clock Aqua.Session
/-- **API level.** A new `AquaCropModel`, first call `run_model(num_steps=k₀)`, then any calls
`run_model(num_steps=kᵢ, initialize_model=False)` (all `kᵢ ≥ 1`, no `process_outputs`) whose step
counts add up to at least the window length: the calls return `True` until the run has ended
(`m + 1` of them), every later call raises the table-write `ValueError` (`p` of them), and the
object ends with the flags, clock, daily rows, summary and table kind of one
`run_model(till_termination=True)` — identical state if no call was made after the end. -/
theorem api_partition_equals_one_run {c : Cfg} (hw : WF c) (ev : Ev) {s₀ : St}
    (hi : Clock.init c = .ok s₀) (k₀ : Nat) (ks : List Nat) (hk₀ : 1 ≤ k₀)
    (hks : ∀ k ∈ ks, 1 ≤ k) (htot : c.n ≤ k₀ + ks.sum) :
    ∃ sT m p, runTill c ev s₀ = .ok sT ∧ sT.finished = true ∧
      session c ev [.run 0 true true false] = (ofClock sT, [.retTrue]) ∧
      (session c ev (.run k₀ false true false :: ks.map stepCall)).2 =
        List.replicate (m + 1) .retTrue ++ List.replicate p (tw c) ∧
      VisOf (session c ev (.run k₀ false true false :: ks.map stepCall)).1 sT ∧
      (p = 0 → (session c ev (.run k₀ false true false :: ks.map stepCall)).1 = ofClock sT) :=
  session_partition hw ev hi k₀ ks hk₀ hks htot

/-- what a call after the end does: raises, changes nothing observable -/
theorem api_call_after_end {c : Cfg} {ev : Ev} (hw : WF c) {st : St} (hr : Reach c ev st)
    (hf : st.finished = true) {s : SSt} (hv : VisOf s st) (k : Nat) (hk : 1 ≤ k) :
    (run c ev k false false false s).2 = tw c ∧ VisOf (run c ev k false false false s).1 st :=
  run_after_termination hw hr hf hv k hk

/-- a `num_steps = k` call performs `min k (days to termination)` days, harvests or not -/
theorem api_steps_performed {c : Cfg} (hw : WF c) (ev : Ev) {st sT : St} (hr : Reach c ev st)
    (hf : st.finished = false) {f : Nat} (hT : runTillF c ev f st = .ok sT) (k : Nat) (hk : 1 ≤ k) :
    ∃ st', step c ev (stepCall k) (ofClock st) = (ofClock st', .retTrue) ∧
      st'.rowsRev.length = st.rowsRev.length + min k (sT.rowsRev.length - st.rowsRev.length) :=
  harvest_does_not_stop_stepping hw ev hr hf hT k hk
end api

end Aqua.C09
