import AquaVerif.Proofs.CatalogueCfg
import AquaVerif.Proofs.RunClosedEs
import AquaVerif.Proofs.Run
import AquaVerif.Proofs.WaterDay
/-
Property C03 — soil water content and ponding stay within physical limits.

What is modelled: the water processes and their composition `waterDay` (see
`Properties/C01.lean`).  The invariant is `Cell.Inv` (`Proofs/Basic.lean`): a well-formed
compartment (`dz > 0`, `0 ≤ th_dry ≤ th_wp < th_fc ≤ th_s`, `0 ≤ tau ≤ 1`, `Ksat ≥ 0`),
`th_dry ≤ th ≤ th_s`, and an adjusted field capacity in `[th_fc, th_s]`.

What is quantified over: an arbitrary linearly ordered field, every `Fn`, every profile, parameter
record, state, day input and `CropDay`; each statement is about a successful call.

**Capillary rise is the one process that does not preserve `th ≤ th_s` exactly**: in its capped
branch it adds `dthMax ≤ round(th_fc_adj − th, 4)`, and the rounded room can exceed the true room
by up to 1/20000 — so only `th ≤ max(th, th_fc_adj + 1/20000)` holds (`capillary_rise_inv_with_slack`).
The remaining steps of the day (evaporation, transpiration, groundwater inflow) are proved to
preserve `Cell.Inv`, not the slackened bound.  The day theorem `day_inv` is therefore stated under
the explicit hypothesis that capillary rise did not overshoot saturation on that day
(`hNo : ∀ y ∈ out.crCells, y.th ≤ y.c.thS`, about the ghost output "profile right after step 8");
`day_after_capillary_rise_with_slack` gives the unconditional `th ≤ th_s + 1/20000` at that point,
and `day_inv_no_table` discharges `hNo` when there is no water table (capillary rise is then the
identity).  Whether the slack is ever used on a real run is a search target of the oracle.

Law of `x ** 2`: the adjusted field capacity above a water table is computed with
`(…) ** 2` (C `pow`), so `th_fc ≤ th_fc_adj ≤ th_s` after the groundwater check needs
`PowSqLaw F` (`x ** 2 = x · x`, `Proofs/PowSq.lean`) — explicit in `groundwater_check_inv`, the
field `sq` of `DayPre`, `RunPre`, and `powSq` of `CfgOK.fn` at run level.

Other premises, all on the day's inputs: `DayPre` (see `Properties/C01.lean`); `DayTrPre` for
transpiration: idealised geometry (`dzsum` = running sum of the positive `dz`), non-negative
`aer_days_comp`, `SxTop`, `SxBot`, `r_cor`, positive rounded rooting depth, and in net-irrigation
mode layer-consistent `th_wp`/`th_fc`; with a water table the laws `0 < exp x`,
`|round(x,4) − x| ≤ 1/20000`, `round(x,4) > 0 → x > 0`.
Only theorems live here; lemmas are in `Proofs/`.
-/

set_option linter.unusedSectionVars false
namespace Aqua.C03
open Aqua
variable {α : Type} [Field α] [LinearOrder α] [IsStrictOrderedRing α]

/-! ### one preservation theorem per process -/

/-- The groundwater check keeps every water content and re-establishes
`th_fc ≤ th_fc_adj ≤ th_s`. -/
theorem groundwater_check_inv {F : Fn α} (hF : PowSqLaw F) (cells : List (Cell α)) (wt : Nat)
    (zGW : α) (r : GwtOut α) (hinv : ∀ x ∈ cells, x.Inv) (h : checkGroundwaterTable F cells wt zGW = some r) :
    ∀ y ∈ r.cells, y.Inv :=
  checkGroundwaterTable_inv_any hF cells wt zGW r hinv h

/-- Pre-irrigation with `0 ≤ NetIrrSMT ≤ 100` preserves the invariant and raises no compartment
above field capacity. -/
theorem pre_irrigation_inv (F : Fn α) (npRound : Bool) (cells : List (Cell α)) (gs : Bool)
    (m : Nat) (dap : Int) (zRoot zMin smt : α) (r : List (Cell α) × α)
    (h0 : 0 ≤ smt) (h100 : smt ≤ 100) (hinv : ∀ x ∈ cells, x.Inv)
    (h : preIrrigationT F npRound cells gs m dap zRoot zMin smt = some r) :
    ∀ y ∈ r.1, y.Inv ∧ ∃ x ∈ cells, y.c = x.c ∧ x.th ≤ y.th ∧ y.th ≤ max x.th x.c.thFC :=
  preIrrigationR_inv _ cells gs m dap zRoot zMin smt r h0 h100 hinv h

/-- Drainage preserves the invariant (premises: `1 ≤ exp x` for `x ≥ 0`; `DrainPre` = invariant
+ `0 ≤ dzsum` + `th_fc < th_s` for every compartment). -/
theorem drainage_inv (F : Fn α) (E : ExpLaws F) (cells : List (Cell α))
    (h : ∀ x ∈ cells, DrainPre x) : ∀ y ∈ (drainage F cells).cells, y.Inv :=
  Aqua.drainage_inv F E cells h

/-- Infiltration preserves the invariant; the ponding depth stays non-negative, stays below the
bund height, and is zero without bunds (or with bunds not higher than 1 mm). -/
theorem infiltration_inv {F : Fn α} {cells : List (Cell α)}
    {pond infl irr appEff zBund dp0 ro0 : α} {bunds gs : Bool} {out : InfOut α}
    (h : infiltration F cells pond infl irr appEff bunds zBund dp0 ro0 gs = .ok out)
    (hinv : ∀ c ∈ cells, c.Inv) (hp : 0 ≤ pond) :
    (∀ c ∈ out.cells, c.Inv) ∧ 0 ≤ out.pond ∧ (bunds = true → pond ≤ zBund → out.pond ≤ zBund) ∧
    (bunds = false ∨ zBund ≤ 0.001 → out.pond = 0) :=
  Aqua.infiltration_inv h hinv hp

/-- Capillary rise, honestly: afterwards `th_dry ≤ th ≤ th_s + 1/20000` (and the rest of the
invariant) — the bound `th ≤ th_s` itself is **not** preserved (premises: the three laws of `exp`
and 4-decimal rounding). -/
theorem capillary_rise_inv_with_slack (F : Fn α) (hE : GwExpLaws F) (hR : GwRoundLaws F)
    (hS : GwRoundSign F) (cells : List (Cell α)) (nLayer : Nat) (fshape zGW : α) (wt : Nat)
    (r : CROut α) (hinv : ∀ x ∈ cells, x.Inv)
    (h : capillaryRise F cells nLayer fshape zGW wt = .ok r) :
    ∀ y ∈ r.cells, y.c.WF ∧ y.c.thDry ≤ y.th ∧ y.th ≤ y.c.thS + 1 / 20000 ∧
      y.c.thFC ≤ y.fcAdj ∧ y.fcAdj ≤ y.c.thS :=
  capillaryRise_inv_slack F hE hR hS cells nLayer fshape zGW wt r hinv h

/-- Soil evaporation preserves the invariant (extraction is limited to the water above
air-dry) — no premise beyond the invariant. -/
theorem evaporation_inv (F : Fn α) (P : EvapParams α) (S : EvapState α) (cells : List (Cell α))
    (D : EvapDay α) (out : EvapOut α) (h : soilEvaporation F P S cells D = .ok out)
    (hinv : ∀ x ∈ cells, x.Inv) : ∀ x ∈ out.cells, x.Inv :=
  soilEvap_inv F P S cells D out h hinv

/-- Evaporation never makes the ponded water negative, and (given `0 ≤ EsPot`) only lowers it;
without ponded water it leaves the surface storage alone. -/
theorem evaporation_pond (F : Fn α) (P : EvapParams α) (S : EvapState α) (cells : List (Cell α))
    (D : EvapDay α) (out : EvapOut α) (h : soilEvaporation F P S cells D = .ok out)
    (hdz : ∀ x ∈ cells, 0 < x.c.dz) :
    (0 ≤ S.pond → 0 ≤ out.pond ∧ (0 ≤ out.esPot → out.pond ≤ S.pond)) ∧
      (S.pond ≤ 0 → out.pond = S.pond) :=
  ⟨fun hp => soilEvap_pond' F P S cells D out h hdz hp,
   soilEvap_pond_of_nonpos F P S cells D out h⟩

/-- Transpiration preserves the invariant (premises: idealised geometry, non-negative aeration
counters, sink terms, root correction and submergence counter, positive rooting depth; in
net-irrigation mode `0 ≤ NetIrrSMT ≤ 100` and layer-consistent `th_wp`, `th_fc`). -/
theorem transpiration_inv {F : Fn α} {cells : List (Cell α)} {nComp : Nat} {zTop : α}
    {crop : TrCrop α} {m : Nat} {smt : α} {st : TrState α} {et0 cur ref gdd : α} {gs : Bool}
    {out : TrOut α} (wp fc : Nat → α) (hgeo : TrGeom 0 cells) (hinv : ∀ x ∈ cells, x.Inv)
    (haer : ∀ x ∈ cells, 0 ≤ x.aer)
    (hsxT : 0 ≤ crop.sxTop) (hsxB : 0 ≤ crop.sxBot) (hrc : 0 ≤ st.rCor)
    (hrd : 0 < trRootdepth F crop st) (hds : 0 ≤ st.daySubmerged)
    (hnet : m = 4 → 0 ≤ smt ∧ smt ≤ 100 ∧ TrLayersOK wp fc 0 cells)
    (h : transpiration F cells nComp zTop crop m smt st et0 cur ref gs gdd = .ok out) :
    ∀ y ∈ out.cells, y.Inv :=
  transp_inv wp fc hgeo hinv haer hsxT hsxB hrc hrd hds hnet h

/-- Transpiration never makes the ponded water negative and leaves an empty surface alone; what
it takes from the pond is the ghost `trAct0`. -/
theorem transpiration_pond {F : Fn α} {cells : List (Cell α)} {nComp : Nat} {zTop : α}
    {crop : TrCrop α} {m : Nat} {smt : α} {st : TrState α} {et0 cur ref gdd : α} {gs : Bool}
    {out : TrOut α}
    (h : transpiration F cells nComp zTop crop m smt st et0 cur ref gs gdd = .ok out) :
    out.st.pond + out.trAct0 = st.pond ∧ (0 ≤ st.pond → 0 ≤ out.st.pond) ∧
      (st.pond ≤ 0 → out.st.pond = st.pond) :=
  transp_pond h

/-- Groundwater inflow preserves the invariant (water content is only ever set to `th_s`). -/
theorem groundwater_inflow_inv (cells : List (Cell α)) (wt : Bool) (zGW : α)
    (r : List (Cell α) × α) (hinv : ∀ x ∈ cells, x.Inv)
    (h : groundwaterInflow cells wt zGW = some r) : ∀ y ∈ r.1, y.Inv :=
  groundwaterInflow_inv cells wt zGW r hinv h

/-- Reported root-zone storage (and the total available water) is never negative; depletion never
exceeds the total available water. -/
theorem wr_nonneg (F : Fn α) (cells : List (Cell α)) (zRoot zTop zMin aer : α)
    (r : RZ α) (h : rootZoneWater F cells zRoot zTop zMin aer = some r) :
    0 ≤ r.wrAct ∧ 0 ≤ r.tawRz ∧ 0 ≤ r.tawZt ∧ r.drRz ≤ r.tawRz ∧ r.drZt ≤ r.tawZt :=
  rootZoneWater_ranges F cells zRoot zTop zMin aer r h

/-! ### the whole day -/

variable {F : Fn α} {W : WaterParams α} {fm : FieldMngt α} {C : CropDay α}
  {cells : List (Cell α)} {S : DayState α} {D : DayIn α} {out : DayOut α}

/-- Right after capillary rise every compartment is within `th_dry ≤ th ≤ th_s + 1/20000`, with
`th_fc ≤ th_fc_adj ≤ th_s` — unconditionally under `DayPre` (and the rounding laws when there is a
water table). -/
theorem day_after_capillary_rise_with_slack (h : waterDay F W fm C cells S D = .ok out)
    (hP : DayPre F W cells S)
    (hL : W.waterTable = 1 → GwExpLaws F ∧ GwRoundLaws F ∧ GwRoundSign F) :
    ∀ y ∈ out.crCells, y.c.WF ∧ y.c.thDry ≤ y.th ∧ y.th ≤ y.c.thS + 1 / 20000 ∧
      y.c.thFC ≤ y.fcAdj ∧ y.fcAdj ≤ y.c.thS :=
  waterDay_cr_slack h hP hL

/-- **Every compartment ends the day between air-dry and saturation** (full `Cell.Inv`), for every
`CropDay` — under `DayPre`, `DayTrPre`, the rounding laws, and the hypothesis `hNo` that capillary
rise did not lift a compartment above saturation that day (it can, by at most 1/20000: see the
header). -/
theorem day_inv (h : waterDay F W fm C cells S D = .ok out) (hP : DayPre F W cells S)
    (wp fc : Nat → α) (hT : DayTrPre F W C cells wp fc)
    (hL : W.waterTable = 1 → GwExpLaws F ∧ GwRoundLaws F ∧ GwRoundSign F)
    (hNo : ∀ y ∈ out.crCells, y.th ≤ y.c.thS) : ∀ y ∈ out.cells, y.Inv :=
  waterDay_inv h hP wp fc hT hL hNo

/-- Without a water table the hypothesis about capillary rise (and the rounding laws) are not
needed. -/
theorem day_inv_no_table (h : waterDay F W fm C cells S D = .ok out) (hP : DayPre F W cells S)
    (wp fc : Nat → α) (hT : DayTrPre F W C cells wp fc) (hwt : W.waterTable ≠ 1) :
    ∀ y ∈ out.cells, y.Inv :=
  waterDay_inv_no_table h hP wp fc hT hwt

/-- **Ponded water** at the end of the day is never negative, is zero whenever no bunds (or bunds
not higher than 1 mm) are configured, and — given non-negative reported `EsPot` and `TrPot`, an
integral `LagAer` and incoming ponding below the bund height — does not exceed the bund height. -/
theorem day_pond (h : waterDay F W fm C cells S D = .ok out) (hP : DayPre F W cells S) :
    0 ≤ out.pond ∧ (fm.bunds = false ∨ fm.zBund ≤ 0.001 → out.pond = 0) ∧
    (fm.bunds = true → S.pond ≤ fm.zBund → 0 ≤ out.esPot → 0 ≤ out.trPot → LagAerIntegral W →
      out.pond ≤ fm.zBund) :=
  waterDay_pond h hP

/-- Reported root-zone storage `Wr` is never negative — no premise. -/
theorem day_wr_nonneg (h : waterDay F W fm C cells S D = .ok out) : 0 ≤ out.wr :=
  waterDay_wr_nonneg h

/-! ### non-vacuity -/

/-- the concrete day of `Proofs/WaterDay.lean` (water table at 1 m, positive capillary rise)
satisfies every hypothesis of `day_inv`, including the no-overshoot premise -/
example : ∃ out, waterDay DayExample.Fq DayExample.Wq DayExample.fmq DayExample.Cq
      DayExample.cellsq DayExample.Sq DayExample.Dq = .ok out ∧ 0 < out.cr ∧
    (∀ y ∈ out.cells, y.Inv) ∧ out.pond = 0 := by
  obtain ⟨out, h, hNo, hcr, _⟩ := DayExample.runs
  refine ⟨out, h, hcr, day_inv h DayExample.dayPre _ _ DayExample.dayTrPre
    (fun _ => ⟨DayExample.Fq_gw.1, DayExample.Fq_gw.2.1, DayExample.Fq_gw.2.2.1⟩) hNo, ?_⟩
  exact (day_pond h DayExample.dayPre).2.1 (Or.inl rfl)


/-! ### every simulated day of every run -/

/-- **Run level.** Starting from an initial water content within limits, on every reachable day of
every run every compartment satisfies `Cell.Inv` (air-dry ≤ θ ≤ saturation, adjusted field
capacity within [FC, SAT]) and ponding is non-negative — by induction over the run (premises as
in `C01.run_closes`). -/
theorem run_inv {F : Fn α} {T : TrigFn α} {cfg : RunCfg α} {s : RunState α}
    (hP : RunPre F cfg) (wp fc : Nat → α) (hr : RunReach F T cfg s)
    (hOK : ∀ d ∈ s.daysRev, DayOK F wp fc d) :
    WaterInv cfg s ∧ ∀ d ∈ s.daysRev, DayPre F d.P.W d.st.cells d.st.water ∧
      (∀ y ∈ d.r.state.cells, y.Inv) ∧ 0 ≤ d.r.state.pond :=
  Aqua.run_inv hP wp fc hr hOK

/-- **Run level.** Ponded water is zero whenever no (effective) bunds are configured and never
exceeds the bund height otherwise. -/
theorem run_pond_bounds {F : Fn α} {T : TrigFn α} {cfg : RunCfg α} {s : RunState α}
    (hP : RunPre F cfg) (wp fc : Nat → α) (hr : RunReach F T cfg s)
    (hOK : ∀ d ∈ s.daysRev, DayOK F wp fc d) :
    ∀ d ∈ s.daysRev, (d.P.fm.bunds = false ∨ d.P.fm.zBund ≤ 0.001 → d.r.state.pond = 0) ∧
      (d.P.fm.bunds = true → d.st.pond ≤ d.P.fm.zBund → 0 ≤ d.r.flux.esPot →
        0 ≤ d.r.flux.trPot → LagAerIntegral d.P.W → d.r.state.pond ≤ d.P.fm.zBund) :=
  Aqua.run_pond_bounds hP wp fc hr hOK

/-! ### run level, per-day premises discharged (`Proofs/RunClosed*.lean`) -/

section closed
variable {α : Type} [Field α] [LinearOrder α] [IsStrictOrderedRing α]

/-- **Run level, closed.** `th_dry ≤ th ≤ th_s`, ponding ≥ 0, unchanged compartments in every
reachable state and on every simulated day — `CfgOK` and the capillary-rise residual only. -/
theorem run_inv_closed {F : Fn α} {T : TrigFn α} {cfg : RunCfg α} {s : RunState α}
    (hC : CfgOK F T cfg) (hr : RunReach F T cfg s) (hR : ∀ d ∈ s.daysRev, ResidualW d) :
    WaterInv cfg s ∧ ∀ d ∈ s.daysRev, DayPre F d.P.W d.st.cells d.st.water ∧
      (∀ y ∈ d.r.state.cells, y.Inv) ∧ 0 ≤ d.r.state.pond :=
  Aqua.run_inv_closed hC hr hR

/-- ponded water: zero without (effective) bunds, never above the bunds — the premises
`0 ≤ EsPot`, `0 ≤ TrPot`, `LagAerIntegral` of `run_pond_bounds` are discharged. -/
theorem run_pond_bounds_closed {F : Fn α} {T : TrigFn α} {cfg : RunCfg α} {s : RunState α} {A : α}
    (hC : CfgOK F T cfg) (hT : CfgTrOK F cfg A) (hJ : CfgRwOK F cfg) (hE : CfgEsOK cfg)
    (hW : WeatherOK F cfg) (hr : RunReach F T cfg s) (hR : ∀ d ∈ s.daysRev, ResidualW d) :
    ∀ d ∈ s.daysRev, 0 ≤ d.r.state.pond ∧
      (d.P.fm.bunds = false ∨ d.P.fm.zBund ≤ 0.001 → d.r.state.pond = 0) ∧
      (d.P.fm.bunds = true → d.st.pond ≤ d.P.fm.zBund → d.r.state.pond ≤ d.P.fm.zBund) :=
  fun d hd => (run_flux_closed hC hT hJ hE hW hr hR d hd).2.2.2

/-- without a water table: no hypothesis about computed values at all -/
theorem run_inv_no_table {F : Fn α} {T : TrigFn α} {cfg : RunCfg α} {s : RunState α}
    (hC : CfgOK F T cfg) (hwt : cfg.W0.waterTable ≠ 1) (hr : RunReach F T cfg s) :
    WaterInv cfg s ∧ (∀ x ∈ s.day.cells, 0 ≤ x.aer) ∧ 0 ≤ s.day.rCor :=
  run_inv_closed_no_table hC hwt hr
end closed

/-! ### run level, catalogue configurations (`Proofs/Catalogue*.lean`): every hypothesis is membership in a table
regenerated from the sources, a fact about initialisation outputs, or a premise on the weather -/

section catalogueRun
open Aqua.Response Aqua.HarvestIndexReal

/-- **Run level, catalogue configurations.** Water contents within `[th_dry, th_s]`, adjusted field
capacity within `[th_fc, th_s]`, ponding ≥ 0, unchanged compartments in every reachable state and
on every simulated day of every run of every catalogue configuration. -/
theorem catalogue_run_inv {cfg : RunCfg ℝ} {s : RunState ℝ} (h : CatCfg cfg)
    (hr : RunReach realFn realTrig cfg s) (hR : ∀ d ∈ s.daysRev, ResidualW d) :
    WaterInv cfg s ∧ ∀ d ∈ s.daysRev, DayPre realFn d.P.W d.st.cells d.st.water ∧
      (∀ y ∈ d.r.state.cells, y.Inv) ∧ 0 ≤ d.r.state.pond :=
  Aqua.catalogue_run_inv h hr hR

/-- the initial profile of a catalogue configuration satisfies every profile premise of `CfgOK` -/
theorem catalogue_initial_profile {cfg : RunCfg ℝ} (h : CatCfg cfg) :
    SoilInitOK cfg.init.cells cfg.thini := h.soil.ok
end catalogueRun

end Aqua.C03
