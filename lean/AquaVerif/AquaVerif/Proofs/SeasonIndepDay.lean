import AquaVerif.Proofs.Day

/-
Season independence, day level (property C08): which fields of the state object are **dead** when a
day starts, proved about `fullDay` (`Model/Day.lean`).

A. the converse of `fullDayTrace_ok` (`fullDayTrace_of_steps`): the equations of the process calls
   make the day succeed with that trace;
B. per-compartment dead fields.  `flux` (`FluxOut`) is rewritten by `drainage` (step 4) before its
   first read — every day; `fcAdj` (`th_fc_Adj`) is rewritten by `check_groundwater_table` (step 1)
   when there is a water table.  `Cell.clrA wt` clears them; steps 1–4 commute with clearing
   (`checkGroundwaterTable_clr`, `rootDevelopment_clr`, `preIrrigationR_clr`, `drainage_clr`);
C. scalar dead fields on the first day of a season (`growing_season`, `dap` becomes 1,
   `sim_off_season = False`): `w_surf`, `evap_z`, `stage2`, `w_stage_2` (`soilEvaporation_reinit`),
   `z_root` (`rootDevelopment_day1`), `hi_ref`, `yield_form` (`hiRefCurrentDay_dead`: `hi_ref` only
   for `CropType ∈ {1,2,3}` — counter-example `hiRef_live_for_unknown_cropType`); never read by the
   day: `depletion`, `taw`, `z_gw`, `wt_in_soil`, `YieldPot`;
D. `DayState'.live`, `StEq` (agreement on the live fields) and **`fullDay_congr_dead`**;
E. `fullDay_relabel`: the day reads `time_step_counter` only through the test `== 0` of
   `soil_evaporation` and the season counter only through `> -1`.
-/

set_option linter.unusedSectionVars false
set_option linter.unusedVariables false
set_option linter.unusedSimpArgs false
namespace Aqua
variable {α : Type} [Field α] [LinearOrder α] [IsStrictOrderedRing α]

/-! ## A. the converse of `fullDayTrace_ok` -/

theorem fullDayTrace_of_steps {F : Fn α} {T : TrigFn α} {P : DayParams α} {st : DayState' α}
    {D : DayIn' α} {X : FullTrace α} (hs : FullSteps F T P st D X) :
    fullDayTrace F T P st D = .ok X := by
  obtain ⟨htc, hrd, hge, hgst, hcc, hhr, hbio, hhi, hy, hg, hp, hd, hr, hi, hf, hc, he, ht, hw,
    hrz⟩ := hs
  simp only [FullTrace.water_g, FullTrace.water_p, FullTrace.water_d, FullTrace.water_r,
    FullTrace.water_i, FullTrace.water_f, FullTrace.water_c, FullTrace.water_e, FullTrace.water_t,
    FullTrace.water_w, FullTrace.water_rz, FullTrace.cropDay, cropDayOf, DayIn'.water] at hg hp hd hr hi hf hc he ht hw hrz
  unfold fullDayTrace
  simp only [DayIn'.water, cropDayOf, optErr, mapErr, hiErr, bind, Except.bind, htc, hg, hrd, hp, ← hd, hr, hi, hf,
    hc, hge, hgst, hcc, he, ht, hw, ← hhr, ← hbio, hhi, ← hy, hrz]
  rfl

/-! ## B. per-compartment dead fields: `flux`, and `fcAdj` under a water table -/

/-- forget `FluxOut` -/
def Cell.clrF (x : Cell α) : Cell α := { x with flux := 0 }
/-- forget `FluxOut` and, with a water table, `th_fc_Adj` -/
def Cell.clrA (wt : Nat) (x : Cell α) : Cell α :=
  { x with flux := 0, fcAdj := if wt = 1 then 0 else x.fcAdj }

theorem clrF_clrA (wt : Nat) (x : Cell α) : (x.clrA wt).clrF = x.clrA wt := rfl
theorem clrA_clrF (wt : Nat) (x : Cell α) : (x.clrF).clrA wt = x.clrA wt := rfl
theorem clrF_clrF (x : Cell α) : (x.clrF).clrF = x.clrF := rfl
theorem clrA_ne (wt : Nat) (h : wt ≠ 1) (x : Cell α) : x.clrA wt = x.clrF := by
  unfold Cell.clrA Cell.clrF; rw [if_neg h]

theorem map_clrF_clrF (xs : List (Cell α)) : (xs.map Cell.clrF).map Cell.clrF = xs.map Cell.clrF := by
  rw [List.map_map]; rfl
theorem map_clrA_clrF (wt : Nat) (xs : List (Cell α)) :
    (xs.map Cell.clrF).map (Cell.clrA wt) = xs.map (Cell.clrA wt) := by
  rw [List.map_map]; rfl

/-- agreement of two profiles on the live per-compartment fields (`c`, `th`, `aer`; `fcAdj` without
a water table) -/
def CellsEq (wt : Nat) (xs ys : List (Cell α)) : Prop := xs.map (Cell.clrA wt) = ys.map (Cell.clrA wt)
/-- agreement up to `FluxOut` -/
def FluxEq (xs ys : List (Cell α)) : Prop := xs.map Cell.clrF = ys.map Cell.clrF

theorem FluxEq.comps {xs ys : List (Cell α)} (h : FluxEq xs ys) : ys.map (·.c) = xs.map (·.c) := by
  have := congrArg (List.map (·.c)) h
  rw [List.map_map, List.map_map] at this
  exact this.symm

/-! ### step 1 -/

theorem gwtLoop_clr (F : Fn α) (zGW : α) : ∀ l : List (Cell α),
    gwtLoop F zGW (l.map (Cell.clrA 1)) = (gwtLoop F zGW l).map Cell.clrF
  | [] => rfl
  | x :: xs => by
    simp only [List.map_cons, gwtLoop]
    have hc : (x.clrA 1).c = x.c := rfl
    rw [hc]
    split_ifs with h
    · simp only [List.map_cons, List.map_map]
      refine congrArg₂ _ rfl ?_
      apply List.map_congr_left
      intro y _
      rfl
    · simp only [List.map_cons]
      refine congrArg₂ _ rfl ?_
      exact gwtLoop_clr F zGW xs

theorem anyMidGE_map_c (zGW : α) : ∀ {xs ys : List (Cell α)}, xs.map (·.c) = ys.map (·.c) →
    anyMidGE zGW xs = anyMidGE zGW ys
  | [], [], _ => rfl
  | [], _ :: _, h => by simp at h
  | _ :: _, [], h => by simp at h
  | x :: xs, y :: ys, h => by
    simp only [List.map_cons, List.cons.injEq] at h
    simp only [anyMidGE, h.1, anyMidGE_map_c zGW h.2]

/-- forget `FluxOut` in the result of step 1 -/
def GwtOut.clrF (g : GwtOut α) : GwtOut α := { g with cells := g.cells.map Cell.clrF }

/-- **step 1 commutes with clearing**: `check_groundwater_table` on the cleared profile gives the
result on the original profile with `FluxOut` cleared — with a water table every `th_fc_Adj` is
reassigned from the compartment's parameters and the table depth -/
theorem checkGroundwaterTable_clr (F : Fn α) (cells : List (Cell α)) (wt : Nat) (zGW : α) :
    checkGroundwaterTable F (cells.map (Cell.clrA wt)) wt zGW =
      (checkGroundwaterTable F cells wt zGW).map GwtOut.clrF := by
  unfold checkGroundwaterTable
  by_cases h : wt = 1
  · subst h
    simp only [if_true]
    split_ifs with h0
    · simp only [Option.map_some, GwtOut.clrF]
      rw [← List.map_reverse, gwtLoop_clr, ← List.map_reverse]
      have : anyMidGE zGW (cells.map (Cell.clrA 1)) = anyMidGE zGW cells :=
        anyMidGE_map_c zGW (by rw [List.map_map]; rfl)
      rw [this]
    · rfl
  · simp only [h, if_false, Option.map_some, GwtOut.clrF]
    congr 2
    apply List.map_congr_left
    intro x _
    exact clrA_ne wt h x

/-- from equal live fields, step 1 gives results equal up to `FluxOut` -/
theorem checkGroundwaterTable_cellsEq {F : Fn α} {xs ys : List (Cell α)} {wt : Nat} {zGW : α}
    {g : GwtOut α} (he : CellsEq wt xs ys) (h : checkGroundwaterTable F xs wt zGW = some g) :
    ∃ g', checkGroundwaterTable F ys wt zGW = some g' ∧ g'.clrF = g.clrF := by
  have h1 := checkGroundwaterTable_clr F xs wt zGW
  have h2 := checkGroundwaterTable_clr F ys wt zGW
  rw [he, h2, h] at h1
  cases hy : checkGroundwaterTable F ys wt zGW with
  | none => rw [hy] at h1; cases h1
  | some g' =>
    rw [hy] at h1
    exact ⟨g', rfl, Option.some.inj h1⟩

/-! ### step 2 reads `c` and `th` only -/

theorem firstGECell_clr (z : α) : ∀ cells : List (Cell α),
    firstGECell z (cells.map Cell.clrF) = (firstGECell z cells).map Cell.clrF
  | [] => rfl
  | x :: xs => by
    simp only [List.map_cons, firstGECell]
    have hc : (x.clrF).c = x.c := rfl
    rw [hc]
    split_ifs
    · rfl
    · exact firstGECell_clr z xs

theorem rdDry_clr (F : Fn α) (C : RdCrop α) (cells : List (Cell α)) (zInit dZr : α) :
    rdDry F C (cells.map Cell.clrF) zInit dZr = rdDry F C cells zInit dZr := by
  unfold rdDry
  rw [firstGECell_clr]
  cases firstGECell (zInit + dZr) cells <;> rfl

theorem layersOf_clr (cells : List (Cell α)) : layersOf (cells.map Cell.clrF) = layersOf cells :=
  layersOf_congr (by rw [List.map_map]; rfl)

theorem rdSeason_clr (F : Fn α) (C : RdCrop α) (cells : List (Cell α)) (tAdj tOld zInit trRatio cc
    ccNS : α) (germ : Bool) (tPot zGW : α) (wt : Nat) :
    rdSeason F C (cells.map Cell.clrF) tAdj tOld zInit trRatio cc ccNS germ tPot zGW wt =
      rdSeason F C cells tAdj tOld zInit trRatio cc ccNS germ tPot zGW wt := by
  unfold rdSeason
  simp only [layersOf_clr, rdDry_clr]

theorem rootDevelopment_clr (F : Fn α) (C : RdCrop α) (cells : List (Cell α))
    (dap zRoot dcd gddCum dgd trRatio cc ccNS : α) (germ : Bool) (rCor tPot zGW gdd : α) (gs : Bool)
    (wt : Nat) :
    rootDevelopment F C (cells.map Cell.clrF) dap zRoot dcd gddCum dgd trRatio cc ccNS germ rCor tPot
        zGW gdd gs wt =
      rootDevelopment F C cells dap zRoot dcd gddCum dgd trRatio cc ccNS germ rCor tPot zGW gdd gs
        wt := by
  unfold rootDevelopment
  simp only [rdSeason_clr]

theorem rootDevelopment_fluxEq {F : Fn α} {C : RdCrop α} {xs ys : List (Cell α)}
    (h : FluxEq xs ys) (dap zRoot dcd gddCum dgd trRatio cc ccNS : α) (germ : Bool)
    (rCor tPot zGW gdd : α) (gs : Bool) (wt : Nat) :
    rootDevelopment F C ys dap zRoot dcd gddCum dgd trRatio cc ccNS germ rCor tPot zGW gdd gs wt =
      rootDevelopment F C xs dap zRoot dcd gddCum dgd trRatio cc ccNS germ rCor tPot zGW gdd gs
        wt := by
  rw [← rootDevelopment_clr F C ys, ← rootDevelopment_clr F C xs, h]

/-! ### step 3 -/

theorem firstGE_clr (z : α) : ∀ cells : List (Cell α),
    firstGE z (cells.map Cell.clrF) = firstGE z cells
  | [] => rfl
  | x :: xs => by
    simp only [List.map_cons, firstGE]
    have hc : (x.clrF).c = x.c := rfl
    rw [hc, firstGE_clr z xs]

theorem preIrrLoop_clr (smt : α) : ∀ (n : Nat) (cells : List (Cell α)) (acc : α),
    preIrrLoop smt n (cells.map Cell.clrF) acc =
      ((preIrrLoop smt n cells acc).1.map Cell.clrF, (preIrrLoop smt n cells acc).2)
  | 0, cs, acc => rfl
  | _+1, [], acc => rfl
  | n+1, x :: xs, acc => by
    simp only [List.map_cons, preIrrLoop]
    have hc : (x.clrF).c = x.c := rfl
    have ht : (x.clrF).th = x.th := rfl
    rw [hc, ht]
    split_ifs
    · simp only [preIrrLoop_clr smt n xs, List.map_cons]
      rfl
    · simp only [preIrrLoop_clr smt n xs, List.map_cons]

theorem preIrrigationR_clr (rnd : α → α) (cells : List (Cell α)) (gs : Bool) (m : Nat) (dap : Int)
    (zRoot zMin smt : α) :
    preIrrigationR rnd (cells.map Cell.clrF) gs m dap zRoot zMin smt =
      (preIrrigationR rnd cells gs m dap zRoot zMin smt).map (fun p => (p.1.map Cell.clrF, p.2)) := by
  unfold preIrrigationR
  cases gs with
  | false => rfl
  | true =>
    simp only [if_true]
    split_ifs
    · rfl
    · rw [firstGE_clr]
      cases firstGE (rnd (pmax zRoot zMin)) cells with
      | none => rfl
      | some n => simp only [Option.map_some, preIrrLoop_clr]

theorem preIrrigationT_fluxEq {F : Fn α} {np : Bool} {xs ys : List (Cell α)} {gs : Bool} {m : Nat}
    {dap : Int} {zRoot zMin smt : α} {p : List (Cell α) × α} (he : FluxEq xs ys)
    (h : preIrrigationT F np xs gs m dap zRoot zMin smt = some p) :
    ∃ p', preIrrigationT F np ys gs m dap zRoot zMin smt = some p' ∧ FluxEq p.1 p'.1 ∧
      p'.2 = p.2 := by
  unfold preIrrigationT at h ⊢
  have h1 := preIrrigationR_clr (if np then F.round2 else F.pyRound2) xs gs m dap zRoot zMin smt
  have h2 := preIrrigationR_clr (if np then F.round2 else F.pyRound2) ys gs m dap zRoot zMin smt
  rw [he, h2, h] at h1
  cases hy : preIrrigationR (if np then F.round2 else F.pyRound2) ys gs m dap zRoot zMin smt with
  | none => rw [hy] at h1; cases h1
  | some p' =>
    rw [hy] at h1
    have := Option.some.inj h1
    simp only [Option.map_some, Prod.mk.injEq] at this
    exact ⟨p', rfl, this.1.symm, this.2⟩

/-! ### step 4 overwrites `FluxOut` before reading it -/

theorem drainStep_clr (F : Fn α) (x : Cell α) (ds : α) : drainStep F x.clrF ds = drainStep F x ds :=
  rfl

theorem drainLoop_clr (F : Fn α) : ∀ (xs vis : List (Cell α)) (ds lost : α) (brs : List Nat),
    drainLoop F vis (xs.map Cell.clrF) ds lost brs = drainLoop F vis xs ds lost brs
  | [], vis, ds, lost, brs => rfl
  | x :: xs, vis, ds, lost, brs => by
    simp only [List.map_cons, drainLoop, drainStep_clr]
    exact drainLoop_clr F xs _ _ _ _

theorem drainage_clr (F : Fn α) (cells : List (Cell α)) :
    drainage F (cells.map Cell.clrF) = drainage F cells := drainLoop_clr F cells [] 0 0 []

theorem drainage_fluxEq {F : Fn α} {xs ys : List (Cell α)} (h : FluxEq xs ys) :
    drainage F ys = drainage F xs := by
  rw [← drainage_clr F ys, ← drainage_clr F xs, h]

/-! ## C. scalar fields that are dead on the first day of a season -/

/-- `w_surf`, `evap_z`, `stage2`, `w_stage_2` are reassigned by `soil_evaporation` before any read
when the surface layer is re-initialised (`time_step_counter == 0`, or `dap == 1` with the
off-season not simulated) -/
theorem soilEvaporation_reinit (F : Fn α) (P : EvapParams α) (S : EvapState α) (cells : List (Cell α))
    (D : EvapDay α) (a b : α) (c : Bool) (d : α)
    (h : D.tsc = 0 ∨ ((S.dap ≤ 1 ∧ 1 ≤ S.dap) ∧ P.simOffSeason = false)) :
    soilEvaporation F P { S with wSurf := a, evapZ := b, stage2 := c, wStage2 := d } cells D =
      soilEvaporation F P S cells D := by
  have e1 : ∀ s s' : EvapSurf α, evapReinit F P cells D.tsc S.dap s = evapReinit F P cells D.tsc S.dap s' := by
    intro s s'
    unfold evapReinit
    rw [if_pos h, if_pos h]
  unfold soilEvaporation
  dsimp only
  rw [e1 _ { wSurf := S.wSurf, evapZ := S.evapZ, stage2 := S.stage2, wStage2 := S.wStage2 }]
  rfl

/-- `soil_evaporation` reads `time_step_counter` only through the re-initialisation test -/
theorem soilEvaporation_tsc (F : Fn α) (P : EvapParams α) (S : EvapState α) (cells : List (Cell α))
    (D : EvapDay α) (t' : Nat)
    (h : (D.tsc = 0 ↔ t' = 0) ∨ ((S.dap ≤ 1 ∧ 1 ≤ S.dap) ∧ P.simOffSeason = false)) :
    soilEvaporation F P S cells { D with tsc := t' } = soilEvaporation F P S cells D := by
  have e1 : ∀ s : EvapSurf α, evapReinit F P cells t' S.dap s = evapReinit F P cells D.tsc S.dap s := by
    intro s
    unfold evapReinit
    rcases h with h | h
    · by_cases h0 : D.tsc = 0
      · rw [if_pos (Or.inl h0), if_pos (Or.inl (h.1 h0))]
      · have h0' : ¬ t' = 0 := fun e => h0 (h.2 e)
        by_cases hc : ((S.dap ≤ 1 ∧ 1 ≤ S.dap) ∧ P.simOffSeason = false)
        · rw [if_pos (Or.inr hc), if_pos (Or.inr hc)]
        · rw [if_neg (by rintro (e | e); exact h0' e; exact hc e),
            if_neg (by rintro (e | e); exact h0 e; exact hc e)]
    · rw [if_pos (Or.inr h), if_pos (Or.inr h)]
  unfold soilEvaporation
  dsimp only
  rw [e1]
  rfl

/-- on `dap == 1` of a growing season `root_development` restarts from `Crop.Zmin`: the stored
`z_root` is not read -/
theorem rootDevelopment_day1 (F : Fn α) (C : RdCrop α) (cells : List (Cell α))
    (dap z z' dcd gddCum dgd trRatio cc ccNS : α) (germ : Bool) (rCor tPot zGW gdd : α) (wt : Nat)
    (h : dap ≤ 1 ∧ 1 ≤ dap) :
    rootDevelopment F C cells dap z' dcd gddCum dgd trRatio cc ccNS germ rCor tPot zGW gdd true wt =
      rootDevelopment F C cells dap z dcd gddCum dgd trRatio cc ccNS germ rCor tPot zGW gdd true
        wt := by
  unfold rootDevelopment
  simp only [if_true, if_pos h]

/-- in the growing season `HIref_current_day` recomputes `yield_form`; it recomputes `hi_ref`
for the crop types 1, 2, 3 (an unknown crop type keeps the stored value) -/
theorem hiRefCurrentDay_dead (F : Fn α) (c : HiCrop α) (s : HiRefIn α) (a : α) (b : Bool)
    (hct : c.cropType = 1 ∨ c.cropType = 2 ∨ c.cropType = 3) :
    hiRefCurrentDay F c { s with hiRef := a, yieldForm := b } true = hiRefCurrentDay F c s true := by
  have e : ∀ hit x y lag, hiRefRaw F c hit (x, lag) = hiRefRaw F c hit (y, lag) := by
    intro hit x y lag
    unfold hiRefRaw
    rcases hct with h | h | h
    · rw [if_pos (Or.inl h), if_pos (Or.inl h)]
    · rw [if_pos (Or.inr h), if_pos (Or.inr h)]
    · have h1 : ¬ (c.cropType = 1 ∨ c.cropType = 2) := by omega
      rw [if_neg h1, if_neg h1, if_pos h, if_pos h]
  unfold hiRefCurrentDay
  simp only [if_true]
  by_cases h0 : hiTime c s.dap s.delayedCDs ≤ 0
  · rw [if_pos h0, if_pos h0]
  · rw [if_neg h0, if_neg h0, e _ a s.hiRef]

def hiLeakCrop : HiCrop ℚ :=
  { cropType := 0, hiStartCD := -2, hiEndCD := 50, yldFormCD := 40, floweringCD := 10,
    canopyDevEndCD := 30, hi0 := 0.5, hiIni := 0.01, hiGC := 0.1, tLinSwitch := 20,
    dHILinear := 0.01, dHIpre := 0, aHI := 1, bHI := 1, dHI0 := 10, exc := 50, ccMin := 0.05 }
def hiLeakIn (h : ℚ) : HiRefIn ℚ :=
  { hiRef := h, hiFinal := 0.5, dap := 1, delayedCDs := 0, yieldForm := false, pctLagPhase := 0,
    cc := 0.1, ccxW := 0.1 }

/-- **`hi_ref` is live for an unknown crop type**: with `CropType = 0` and `HIstartCD = −2` the
reference harvest index reported on `dap = 1` is the stored one (0.2 resp. 0.3 here).  `hi_ref` is
not reset by `reset_initial_conditions`; every crop the package builds has `CropType ∈ {1,2,3}`. -/
theorem hiRef_live_for_unknown_cropType :
    (hiRefCurrentDay DayExample.Fq hiLeakCrop (hiLeakIn 0.2) true).hiRef = 0.2 ∧
      (hiRefCurrentDay DayExample.Fq hiLeakCrop (hiLeakIn 0.3) true).hiRef = 0.3 := by
  decide +kernel

/-! ## D. the live part of the state; `fullDay` does not read the dead part -/

/-- the state with every field that is dead at a season start cleared: `FluxOut` and (with a water
table) `th_fc_Adj` of every compartment; `w_surf`, `evap_z`, `stage2`, `w_stage_2`, `z_root`,
`hi_ref`, `yield_form`; `depletion`, `taw`, `z_gw`, `wt_in_soil`, `YieldPot` -/
def DayState'.live (wt : Nat) (st : DayState' α) : DayState' α :=
  { st with cells := st.cells.map (Cell.clrA wt), wSurf := 0, evapZ := 0, stage2 := false,
            wStage2 := 0, zRoot := 0, hiRef := 0, yieldForm := false, depletion := 0, taw := 0,
            zGW := 0, wtInSoil := false, yieldPot := 0 }

/-- `st` with the dead fields (and the whole profile) taken from `d` -/
def DayState'.patch (st d : DayState' α) : DayState' α :=
  { st with cells := d.cells, wSurf := d.wSurf, evapZ := d.evapZ, stage2 := d.stage2,
            wStage2 := d.wStage2, zRoot := d.zRoot, hiRef := d.hiRef, yieldForm := d.yieldForm,
            depletion := d.depletion, taw := d.taw, zGW := d.zGW, wtInSoil := d.wtInSoil,
            yieldPot := d.yieldPot }

/-- **agreement on the live fields** (`wt` = `water_table`) -/
def StEq (wt : Nat) (st st' : DayState' α) : Prop := st.live wt = st'.live wt

theorem StEq.refl (wt : Nat) (st : DayState' α) : StEq wt st st := rfl
theorem StEq.symm {wt : Nat} {st st' : DayState' α} (h : StEq wt st st') : StEq wt st' st := Eq.symm h
theorem StEq.trans {wt : Nat} {a b c : DayState' α} (h : StEq wt a b) (h' : StEq wt b c) :
    StEq wt a c := Eq.trans h h'

theorem StEq.cells {wt : Nat} {st st' : DayState' α} (h : StEq wt st st') :
    CellsEq wt st.cells st'.cells := congrArg DayState'.cells h

theorem StEq.patch_eq {wt : Nat} {st st' : DayState' α} (h : StEq wt st st') :
    st' = st.patch st' := by
  cases st
  cases st'
  simp only [StEq, DayState'.live, DayState'.mk.injEq] at h
  simp only [DayState'.patch, DayState'.mk.injEq, true_and, and_true]
  simp only [h, and_self]

/-- the trace with `FluxOut` forgotten in the outputs of steps 1 and 3 (the only process outputs
that still carry the stale `FluxOut` a day starts with) -/
def FullTrace.noFlux (X : FullTrace α) : FullTrace α :=
  { X with g := X.g.clrF, p := (X.p.1.map Cell.clrF, X.p.2) }

/-- the day's result with the stale `FluxOut` forgotten in the ghost trace; state, rows, summary
and the other ghosts are untouched -/
def DayResult.noFlux (r : DayResult α) : DayResult α := { r with trace := r.trace.noFlux }

/-- the conditions under which the season-start-dead scalars are dead: a growing-season day that
is the first after planting, the off-season not simulated, a known crop type -/
structure FirstDay (P : DayParams α) (st : DayState' α) (D : DayIn' α) : Prop where
  gs : D.gs = true
  dap : st.dap = 0
  off : P.W.simOffSeason = false
  ct : P.cx.hi.cropType = 1 ∨ P.cx.hi.cropType = 2 ∨ P.cx.hi.cropType = 3

theorem natNum_one_iff : ((natNum (0 + 1) : α) ≤ 1 ∧ 1 ≤ (natNum (0 + 1) : α)) := by
  have : (natNum (0 + 1) : α) = 1 := by show (0 : α) + 1 = 1; rw [zero_add]
  rw [this]; exact ⟨le_refl _, le_refl _⟩

section congr
variable {F : Fn α} {T : TrigFn α} {P : DayParams α} {st d : DayState' α} {D : DayIn' α}
  {r : DayResult α}

/-- the process equations with the dead fields replaced -/
theorem fullSteps_patch {X : FullTrace α} (hs : FullSteps F T P st D X)
    (hc : CellsEq P.W.waterTable st.cells d.cells) (hfd : FirstDay P st D) :
    ∃ g' p', FullSteps F T P (st.patch d) D { X with g := g', p := p' } ∧
      g'.clrF = X.g.clrF ∧ FluxEq X.p.1 p'.1 ∧ p'.2 = X.p.2 := by
  obtain ⟨htc, hrd, hge, hgst, hcc, hhr, hbio, hhi, hy, hw⟩ := hs
  obtain ⟨hg, hp, hd, hr, hi, hf, hcr, he, ht, hgw, hrz⟩ := hw
  obtain ⟨g', hg', eg⟩ := checkGroundwaterTable_cellsEq hc hg
  have egc : FluxEq X.g.cells g'.cells := (congrArg GwtOut.cells eg).symm
  have egz : g'.zGW = X.g.zGW := by
    have := congrArg GwtOut.zGW eg; exact this
  have egw : g'.wtInSoil = X.g.wtInSoil := by
    have := congrArg GwtOut.wtInSoil eg; exact this
  obtain ⟨p', hp', ep1, ep2⟩ := preIrrigationT_fluxEq egc hp
  -- the day counter is 1
  have hdap : X.tc.dap = 0 + 1 := by
    unfold dayCounters at htc
    rw [hfd.gs] at htc
    simp only [if_true] at htc
    split at htc
    · cases htc
    · have := Except.ok.inj htc
      rw [← this]; show st.dap + 1 = 0 + 1; rw [hfd.dap]
  have hone : ((natNum X.tc.dap : α) ≤ 1 ∧ 1 ≤ (natNum X.tc.dap : α)) := by
    rw [hdap]; exact natNum_one_iff
  refine ⟨g', p', ?_, eg, ep1, ep2⟩
  refine { htc := htc, hrd := ?_, hge := hge, hgst := hgst, hcc := hcc, hhr := ?_, hbio := hbio,
           hhi := hhi, hy := hy, water := ⟨hg', hp', ?_, hr, hi, hf, ?_, ?_, ht, ?_, hrz⟩ }
  · show rootDevelopment F P.cx.rd g'.cells (natNum X.tc.dap) d.zRoot st.delayedCds X.tc.gddCum
      st.delayedGdds st.trRatio st.cc st.ccNS st.germination st.rCor st.tPot g'.zGW X.tc.gdd D.gs
      P.W.waterTable = .ok X.rd
    rw [rootDevelopment_fluxEq egc, egz, hfd.gs,
      rootDevelopment_day1 F P.cx.rd X.g.cells _ st.zRoot d.zRoot _ _ _ _ _ _ _ _ _ _ _ _ hone,
      ← hfd.gs]
    exact hrd
  · show X.hr = hiRefCurrentDay F P.cx.hi
      { hiRefInOf st X.tc X.ge X.cc X.t with hiRef := d.hiRef, yieldForm := d.yieldForm } D.gs
    rw [hfd.gs, hiRefCurrentDay_dead F P.cx.hi _ _ _ hfd.ct, ← hfd.gs]
    exact hhr
  · show X.d = drainage F p'.1
    rw [drainage_fluxEq ep1]; exact hd
  · show capillaryRise F X.f.cells P.W.soil.nLayer P.W.soil.fshapeCR g'.zGW P.W.waterTable = .ok X.c
    rw [egz]; exact hcr
  · exact (soilEvaporation_reinit F (dayEvapParams P.W P.fm)
      (dayEvapState (X.cropDay P st) st.water X.f.pond) X.c.cells
      (dayEvapDay D.water X.f.infl X.i.irr) d.wSurf d.evapZ d.stage2 d.wStage2
      (Or.inr ⟨hone, hfd.off⟩)).trans he
  · show groundwaterInflow X.t.cells g'.wtInSoil g'.zGW = some X.w
    rw [egz, egw]; exact hgw

/-- the day counter of a growing-season day -/
theorem fullDay_tc_dap (h : fullDay F T P st D = .ok r) (hg : D.gs = true) :
    r.trace.tc.dap = st.dap + 1 := by
  have htc := (fullDay_ok h).1.htc
  unfold dayCounters at htc
  rw [hg] at htc
  simp only [if_true] at htc
  split at htc
  · cases htc
  · have := Except.ok.inj htc
    rw [← this]

/-- **`fullDay_congr_dead`**: on the first day of a season (`FirstDay`) a successful day gives, from
any state that agrees with `st` on the live fields, the same result — state after the day, the
three table rows, the summary row and every ghost output, except that the outputs of steps 1 and 3
in the ghost trace still carry the stale `FluxOut` (equal after `noFlux`). -/
theorem fullDay_congr_dead {st' : DayState' α} (h : fullDay F T P st D = .ok r)
    (he : StEq P.W.waterTable st st') (hfd : FirstDay P st D) :
    ∃ r', fullDay F T P st' D = .ok r' ∧ r'.noFlux = r.noFlux ∧ r'.state = r.state := by
  obtain ⟨hs, er⟩ := fullDay_ok h
  obtain ⟨g', p', hs', eg, ep1, ep2⟩ := fullSteps_patch (d := st') hs he.cells hfd
  rw [he.patch_eq]
  refine ⟨_, by unfold fullDay; rw [fullDayTrace_of_steps hs'], ?_, ?_⟩
  · rw [er]
    obtain ⟨gc, gt, gw, gz⟩ := g'
    obtain ⟨pc, pa⟩ := p'
    simp only [GwtOut.clrF, GwtOut.mk.injEq] at eg
    obtain ⟨e1, e2, e3, e4⟩ := eg
    simp only at ep2
    subst e2 e3 e4 ep2
    simp only [DayResult.noFlux, dayResultOf, FullTrace.noFlux, GwtOut.clrF]
    rw [e1, ← ep1]
    rfl
  · rw [er]
    obtain ⟨gc, gt, gw, gz⟩ := g'
    obtain ⟨pc, pa⟩ := p'
    simp only [GwtOut.clrF, GwtOut.mk.injEq] at eg
    obtain ⟨e1, e2, e3, e4⟩ := eg
    simp only at ep2
    subst e2 e3 e4 ep2
    rfl

end congr

/-! ## E. the day reads the clock position only through `tsc == 0` and `season > -1` -/

/-- the day's result with the two clock labels of its rows replaced -/
def DayResult.relabel (t : Nat) (k : Int) (r : DayResult α) : DayResult α :=
  { r with storage := { r.storage with tsc := t },
           flux := { r.flux with tsc := t, season := k },
           growth := { r.growth with tsc := t, season := k },
           summary := r.summary.map (fun x => { x with season := k, tsc := t }) }

/-- the day's inputs with the two clock labels replaced -/
def DayIn'.relabel (t : Nat) (k : Int) (D : DayIn' α) : DayIn' α := { D with tsc := t, season := k }

section relabel
variable {F : Fn α} {T : TrigFn α} {P : DayParams α} {st : DayState' α} {D : DayIn' α}
  {r : DayResult α}

theorem fullSteps_relabel {X : FullTrace α} (hs : FullSteps F T P st D X) (t : Nat) (k : Int)
    (ht : (D.tsc = 0 ↔ t = 0) ∨
      (((natNum X.tc.dap : α) ≤ 1 ∧ 1 ≤ (natNum X.tc.dap : α)) ∧ P.W.simOffSeason = false)) :
    FullSteps F T P st (D.relabel t k) X := by
  obtain ⟨htc, hrd, hge, hgst, hcc, hhr, hbio, hhi, hy, hw⟩ := hs
  obtain ⟨hg, hp, hd, hr, hi, hf, hcr, he, htr, hgw, hrz⟩ := hw
  refine { htc := htc, hrd := hrd, hge := hge, hgst := hgst, hcc := hcc, hhr := hhr, hbio := hbio,
           hhi := hhi, hy := hy, water := ⟨hg, hp, hd, hr, hi, hf, hcr, ?_, htr, hgw, hrz⟩ }
  exact (soilEvaporation_tsc F (dayEvapParams P.W P.fm)
    (dayEvapState (X.cropDay P st) st.water X.f.pond) X.c.cells
    (dayEvapDay D.water X.f.infl X.i.irr) t ht).trans he

theorem dayResultOf_relabel (P : DayParams α) (st : DayState' α) (D : DayIn' α) (X : FullTrace α)
    (t : Nat) (k : Int) (hk : (0 ≤ D.season ↔ 0 ≤ k)) :
    dayResultOf P st (D.relabel t k) X = (dayResultOf P st D X).relabel t k := by
  have hd : decide (0 ≤ k) = decide (0 ≤ D.season) := by
    by_cases h0 : 0 ≤ D.season
    · rw [decide_eq_true h0, decide_eq_true (hk.1 h0)]
    · rw [decide_eq_false h0, decide_eq_false (fun h' => h0 (hk.2 h'))]
  unfold dayResultOf DayResult.relabel stateAfter DayIn'.relabel matureAfter irrReportOf
  dsimp only
  rw [hd]
  congr 1
  split_ifs <;> rfl

/-- **`fullDay_relabel`**: a successful day succeeds with the same process outputs, the same state
and the same rows up to the two labels when `time_step_counter` and `season_counter` are replaced —
provided the season counter keeps its sign (`> -1` is all the day asks of it) and the
re-initialisation test of `soil_evaporation` (`time_step_counter == 0 or (dap == 1 and not
sim_off_season)`) keeps its value. -/
theorem fullDay_relabel (h : fullDay F T P st D = .ok r) (t : Nat) (k : Int)
    (hk : (0 ≤ D.season ↔ 0 ≤ k))
    (ht : (D.tsc = 0 ↔ t = 0) ∨
      (((natNum r.trace.tc.dap : α) ≤ 1 ∧ 1 ≤ (natNum r.trace.tc.dap : α)) ∧
        P.W.simOffSeason = false)) :
    fullDay F T P st (D.relabel t k) = .ok (r.relabel t k) := by
  obtain ⟨hs, er⟩ := fullDay_ok h
  have hs' := fullSteps_relabel hs t k ht
  unfold fullDay
  rw [fullDayTrace_of_steps hs', er]
  exact congrArg Except.ok (dayResultOf_relabel P st D r.trace t k hk)

theorem relabel_relabel (t t' : Nat) (k k' : Int) (r : DayResult α) :
    (r.relabel t k).relabel t' k' = r.relabel t' k' := by
  unfold DayResult.relabel
  simp only [Option.map_map]
  rfl

theorem dayIn_relabel_relabel (t t' : Nat) (k k' : Int) (D : DayIn' α) :
    (D.relabel t k).relabel t' k' = D.relabel t' k' := rfl

theorem dayIn_relabel_self (D : DayIn' α) : D.relabel D.tsc D.season = D := rfl

/-- a successful day's rows carry the labels of its inputs -/
theorem fullDay_relabel_self (h : fullDay F T P st D = .ok r) : r.relabel D.tsc D.season = r := by
  obtain ⟨_, er⟩ := fullDay_ok h
  rw [er]
  simp only [dayResultOf, DayResult.relabel]
  congr 1
  split_ifs <;> rfl

theorem noFlux_relabel (t : Nat) (k : Int) (r : DayResult α) :
    (r.relabel t k).noFlux = (r.noFlux).relabel t k := rfl

end relabel

end Aqua

#print axioms Aqua.fullDayTrace_of_steps
#print axioms Aqua.checkGroundwaterTable_clr
#print axioms Aqua.drainage_clr
#print axioms Aqua.soilEvaporation_reinit
#print axioms Aqua.rootDevelopment_day1
#print axioms Aqua.hiRefCurrentDay_dead
#print axioms Aqua.hiRef_live_for_unknown_cropType
#print axioms Aqua.fullDay_congr_dead
#print axioms Aqua.fullDay_relabel
