import AquaVerif.Proofs.RunForcingExtend
import AquaVerif.Proofs.RunForcingBind
import AquaVerif.Proofs.RunForcingSteps
import AquaVerif.Proofs.SeasonIndepExample
/-
Work package V, part 6 — **non-vacuity over `ℚ`** of the theorems of `Proofs/RunForcing*.lean`, on
the configurations of `Proofs/Run.lean` (`RunExample.cfgq`: one season, window of 6 days) and
`Proofs/SeasonIndepExample.lean` (`cfg2`: two seasons planted on days 0 and 4, window of 8 days,
off-season skipped).

* `lookahead`   — `cfg2` against `cfg2` with other rain, ET0 and water-table depth from day 4 on:
                  all premises of `run_prefix_determined` hold, both runs of six steps succeed,
                  the records of days 0–2 coincide (three records) while the later flux rows differ;
* `crop_premise_needed` — the crop premise of `AgreeBefore` cannot be dropped;
* `extend`      — the one-season window of 5 days against `cfg2` (8 days, a second season planted
                  on the old last day): `ExtendEnd` holds, the old run has three days and finishes,
                  the new run has six, the old tables are prefixes of the new ones;
* `binding`     — an eight-row table with an extra column, permuted columns, another index and two
                  out-of-window rows: `weatherMatrix` succeeds, `MatrixOK` holds, the run from the
                  table succeeds, and the permuted table gives the same run;
* `stepping`    — two calls of one step equal one call of two steps on `cfgq`.
-/

set_option linter.unusedSectionVars false
set_option linter.unusedVariables false
namespace Aqua
namespace RunForcingExample
open Aqua.Clock Aqua.WeatherBind Aqua.RunShape DayExample FullDayExample RunExample
  SeasonIndepExample

/-! ## 1. no look-ahead -/

/-- other weather and water-table depths from day 4 (the planting date of season 1) on -/
def w2 : Nat → Weather ℚ :=
  fun t => { tmin := 15, tmax := 25, rain := if t < 4 then 20 else 9, et0 := if t < 4 then 5 else 3 }
def z2 : Nat → ℚ := fun t => if t < 4 then 1 else 2

def cfg2' : RunCfg ℚ := withForcing cfg2 w2 z2

theorem agree4 : AgreeBefore 4 cfg2 cfg2' :=
  AgreeBefore.withForcing cfg2 w2 z2
    (fun t ht => by
      show ({ tmin := 15, tmax := 25, rain := if t < 4 then 20 else 9,
              et0 := if t < 4 then 5 else 3 } : Weather ℚ) =
        { tmin := 15, tmax := 25, rain := if t < 4 then 20 else 2, et0 := 5 }
      simp [ht])
    (fun t ht => by show (if t < 4 then (1 : ℚ) else 2) = 1; simp [ht])

theorem wf2 : WF cfg2.clock := valid2.wf
theorem initOK2 : InitOK cfg2 := ⟨rfl, rfl, rfl, rfl⟩

/-- both runs of six steps succeed; three records lie before day 4; the flux rows from day 4 on
differ -/
theorem lookaheadB :
    (match runInit cfg2 with
     | .error _ => false
     | .ok s0 =>
       match runModel Fq Tq cfg2 6 s0, runModel Fq Tq cfg2' 6 s0 with
       | .ok r, .ok r' =>
         decide ((recsBefore 4 r.daysRev).length = 3 ∧ r.daysRev.length = 6 ∧
           r'.daysRev.length = 6 ∧
           (r.fluxTable.map (fun x => (x.tsc, x.infl, x.es))) ≠
             (r'.fluxTable.map (fun x => (x.tsc, x.infl, x.es))))
       | _, _ => false) = true := by decide +kernel

/-- **`run_prefix_determined` applies and says something**: the two six-step runs exist, differ
after day 4, and have the same three day records before day 4 -/
theorem lookahead : ∃ s0 r r', runInit cfg2 = .ok s0 ∧ runModel Fq Tq cfg2 6 s0 = .ok r ∧
    runModel Fq Tq cfg2' 6 s0 = .ok r' ∧
    recsBefore 4 r'.daysRev = recsBefore 4 r.daysRev ∧ (recsBefore 4 r.daysRev).length = 3 ∧
    r.fluxTable ≠ r'.fluxTable := by
  have h := lookaheadB
  cases h0 : runInit cfg2 with
  | error e => rw [h0] at h; simp at h
  | ok s0 =>
    rw [h0] at h
    simp only at h
    cases h1 : runModel Fq Tq cfg2 6 s0 with
    | error e => rw [h1] at h; simp at h
    | ok r =>
      cases h2 : runModel Fq Tq cfg2' 6 s0 with
      | error e => rw [h1, h2] at h; simp at h
      | ok r' =>
        rw [h1, h2] at h
        simp only [decide_eq_true_eq] at h
        refine ⟨s0, r, r', rfl, h1, h2, (run_prefix_determined agree4 wf2 initOK2 h0 h1 h2).1,
          h.1, ?_⟩
        intro he
        exact h.2.2.2 (by rw [he])

/-- `cfg2` with another base temperature for the crop of season 0 only (what a different thermal
calendar amounts to in the model: another `seasonCrop 0`) -/
def cfg2c : RunCfg ℚ :=
  { cfg2 with seasonCrop := fun n => if n = 0 then { cropq' with cx := { cxq with tbase := 10 } }
                                     else cropq' }

theorem cropB :
    (match runInit cfg2 with
     | .error _ => false
     | .ok s0 =>
       match runModel Fq Tq cfg2 2 s0, runModel Fq Tq cfg2c 2 s0 with
       | .ok r, .ok r' =>
         decide ((r.growthTable.filter (fun x => decide (x.tsc < 2))).map (·.gdd) ≠
           (r'.growthTable.filter (fun x => decide (x.tsc < 2))).map (·.gdd))
       | _, _ => false) = true := by decide +kernel

/-- **the crop premise of `AgreeBefore` cannot be dropped**: same static part, clock and forcing on
every day, same crops for all seasons but season 0 (planted on day 0 `< 2`) — and the rows of the
days before day 2 differ.  This is the shape of the look-ahead of thermal-time crops: their
`seasonCrop` depends on the temperatures of the whole season. -/
theorem crop_premise_needed : StaticEq cfg2 cfg2c ∧ cfg2c.clock = cfg2.clock ∧
    (∀ t, DayEq cfg2 cfg2c t) ∧ (∀ n, n ≠ 0 → cfg2c.seasonCrop n = cfg2.seasonCrop n) ∧
    ∃ s0 r r', runInit cfg2 = .ok s0 ∧ runModel Fq Tq cfg2 2 s0 = .ok r ∧
      runModel Fq Tq cfg2c 2 s0 = .ok r' ∧
      r'.growthTable.filter (fun x => decide (x.tsc < 2)) ≠
        r.growthTable.filter (fun x => decide (x.tsc < 2)) := by
  refine ⟨⟨rfl, rfl, rfl, rfl, rfl, rfl, rfl, rfl, rfl, rfl, rfl, rfl, rfl, rfl, rfl, rfl⟩, rfl,
    fun t => ⟨rfl, fun _ => rfl, rfl, rfl⟩, fun n hn => ?_, ?_⟩
  · show (if n = 0 then _ else cropq') = cropq'
    rw [if_neg hn]
  · have h := cropB
    cases h0 : runInit cfg2 with
    | error e => rw [h0] at h; simp at h
    | ok s0 =>
      rw [h0] at h
      simp only at h
      cases h1 : runModel Fq Tq cfg2 2 s0 with
      | error e => rw [h1] at h; simp at h
      | ok r =>
        cases h2 : runModel Fq Tq cfg2c 2 s0 with
        | error e => rw [h1, h2] at h; simp at h
        | ok r' =>
          rw [h1, h2] at h
          simp only [decide_eq_true_eq] at h
          exact ⟨s0, r, r', rfl, h1, h2, fun he => h (by rw [he])⟩

/-! ## 2. extending the end date -/

/-- `cfg2` cut after its first season: a window of 5 days, one season -/
def cfgA : RunCfg ℚ :=
  { cfg2 with clock := { n := 5, planting := [0], harvest := [3], offSeason := false, season0 := 0 } }

theorem extendA : ExtendEnd cfgA cfg2 :=
  { static := ⟨rfl, rfl, rfl, rfl, rfl, rfl, rfl, rfl, rfl, rfl, rfl, rfl, rfl, rfl, rfl, rfl⟩
    clock :=
      { n := by decide
        planting := ⟨[4], rfl, by decide⟩
        harvest := ⟨[9], rfl⟩
        offSeason := rfl
        season0 := rfl }
    day := fun t _ => ⟨rfl, fun _ => rfl, rfl, rfl⟩
    crop := fun _ _ => rfl }

theorem wfA : WF cfgA.clock := by decide
theorem initOKA : InitOK cfgA := ⟨rfl, rfl, rfl, rfl⟩

theorem extendB :
    (match runInit cfgA with
     | .error _ => false
     | .ok s0 =>
       match runModel Fq Tq cfgA 6 s0, runModel Fq Tq cfg2 6 s0 with
       | .ok r, .ok r' =>
         decide (r.finished = true ∧ r.daysRev.length = 3 ∧ r'.daysRev.length = 6 ∧
           r.summaryTable.length = 1 ∧ r'.summaryTable.length = 1)
       | _, _ => false) = true := by decide +kernel

/-- **`run_extend_end` applies**: the three-day run of the short window finishes; the six-day run
of the long window starts with the same three rows in every table and the same summary row -/
theorem extend : ∃ s0 r r', runInit cfgA = .ok s0 ∧ runModel Fq Tq cfgA 6 s0 = .ok r ∧
    runModel Fq Tq cfg2 6 s0 = .ok r' ∧ r.finished = true ∧
    r.fluxTable.length = 3 ∧ r'.fluxTable.length = 6 ∧
    r.storageTable <+: r'.storageTable ∧ r.fluxTable <+: r'.fluxTable ∧
    r.growthTable <+: r'.growthTable ∧ r.summaryTable <+: r'.summaryTable := by
  have h := extendB
  cases h0 : runInit cfgA with
  | error e => rw [h0] at h; simp at h
  | ok s0 =>
    rw [h0] at h
    simp only at h
    cases h1 : runModel Fq Tq cfgA 6 s0 with
    | error e => rw [h1] at h; simp at h
    | ok r =>
      cases h2 : runModel Fq Tq cfg2 6 s0 with
      | error e => rw [h1, h2] at h; simp at h
      | ok r' =>
        rw [h1, h2] at h
        simp only [decide_eq_true_eq] at h
        obtain ⟨e1, e2, e3, e4⟩ := run_extend_end extendA wfA initOKA h0 (Nat.le_refl 6) h1 h2
        refine ⟨s0, r, r', rfl, h1, h2, h.1, ?_, ?_, e1, e2, e3, e4⟩
        · unfold RunState.fluxTable; simp [h.2.1]
        · unfold RunState.fluxTable; simp [h.2.2.1]

/-! ## 3. binding -/

def num (x : ℚ) : WCell ℚ := .num x

/-- eight rows dated −1 … 6 (the window is 0 … 5), the five required columns among two others,
not in the order of `required` -/
def tbl : WTable ℚ Nat :=
  { cols := [("Wind", List.replicate 8 (num 3)),
             ("ReferenceET", List.replicate 8 (num 5)),
             ("Date", [.date (-1), .date 0, .date 1, .date 2, .date 3, .date 4, .date 5, .date 6]),
             ("MaxTemp", List.replicate 8 (num 25)),
             ("Precipitation", List.replicate 8 (num 20)),
             ("Station", List.replicate 8 .other),
             ("MinTemp", List.replicate 8 (num 15))],
    index := [0, 1, 2, 3, 4, 5, 6, 7] }

/-- the same table with the columns in another order and another index -/
def tblP : WTable ℚ String :=
  { cols := [("MinTemp", List.replicate 8 (num 15)),
             ("Station", List.replicate 8 .other),
             ("Date", [.date (-1), .date 0, .date 1, .date 2, .date 3, .date 4, .date 5, .date 6]),
             ("Wind", List.replicate 8 (num 3)),
             ("Precipitation", List.replicate 8 (num 20)),
             ("ReferenceET", List.replicate 8 (num 5)),
             ("MaxTemp", List.replicate 8 (num 25))],
    index := ["a", "b"] }

def rowq (d : Int) : List (WCell ℚ) := [num 15, num 25, num 20, num 5, .date d]
def exMat : List (List (WCell ℚ)) := [rowq 0, rowq 1, rowq 2, rowq 3, rowq 4, rowq 5]

/-- the set-up succeeds: the six in-window rows, the variables in the order the time step reads -/
theorem tbl_matrix : weatherMatrix 0 5 tbl = .ok exMat := by decide +kernel

theorem exMat_ok : MatrixOK exMat cfgq.clock.n := by
  intro t ht
  have ht' : t ≤ 4 := by
    have : cfgq.clock.n = 6 := rfl
    omega
  obtain rfl | rfl | rfl | rfl | rfl : t = 0 ∨ t = 1 ∨ t = 2 ∨ t = 3 ∨ t = 4 := by omega
  all_goals exact ⟨_, _, _, _, _, rfl⟩

/-- what the matrix binds is the weather of `cfgq` on the days the run reads -/
theorem exMat_weather (dflt : Weather ℚ) (t : Nat) (ht : t + 2 ≤ cfgq.clock.n) :
    weatherOfMatrix dflt exMat t = cfgq.weather t := by
  have ht' : t ≤ 4 := by
    have : cfgq.clock.n = 6 := rfl
    omega
  obtain rfl | rfl | rfl | rfl | rfl : t = 0 ∨ t = 1 ∨ t = 2 ∨ t = 3 ∨ t = 4 := by omega
  all_goals rfl

theorem sameBinding_tbl : SameBinding 0 5 tbl tblP :=
  SameBinding.trans
    (sameBinding_reindex 0 5 tbl (["a", "b"] : List String))
    (sameBinding_perm_columns 0 5 ({ cols := tbl.cols, index := ["a", "b"] } : WTable ℚ String) tblP
      (by decide) (by decide))

def dfltq : Weather ℚ := { tmin := 0, tmax := 0, rain := 0, et0 := 0 }

/-- the run from the table: two steps, two day records -/
theorem bindingB :
    (match runOfTable Fq Tq cfgq dfltq 0 5 tbl 2 with
     | .ok r => decide (r.t = 2 ∧ r.daysRev.length = 2 ∧ r.daysRev.map (·.D.rain) = [20, 20])
     | .error _ => false) = true := by decide +kernel

/-- **`run_binding_invariant` applies**: the permuted, re-indexed table gives the same
(successful, two-day) run -/
theorem binding : ∃ r, runOfTable Fq Tq cfgq dfltq 0 5 tbl 2 = .ok r ∧
    runOfTable Fq Tq cfgq dfltq 0 5 tblP 2 = .ok r ∧ r.daysRev.length = 2 := by
  have h := bindingB
  cases h1 : runOfTable Fq Tq cfgq dfltq 0 5 tbl 2 with
  | error e => rw [h1] at h; simp at h
  | ok r =>
    rw [h1] at h
    simp only [decide_eq_true_eq] at h
    exact ⟨r, rfl, by rw [run_binding_invariant cfgq dfltq sameBinding_tbl 2, h1], h.2.1⟩

/-- … and the default weather record is never observed -/
theorem binding_default (d : Weather ℚ) (k : Nat) :
    (runInit (cfgOfMatrix cfgq d exMat)).bind (runModel Fq Tq (cfgOfMatrix cfgq d exMat) k) =
      (runInit (cfgOfMatrix cfgq dfltq exMat)).bind
        (runModel Fq Tq (cfgOfMatrix cfgq dfltq exMat) k) :=
  run_default_irrelevant cfgq exMat_ok dfltq d k

/-! ## 4. stepping -/

theorem steppingB :
    (match runInit cfgq with
     | .error _ => false
     | .ok s0 =>
       match runCallsR Fq Tq cfgq [1, 1] s0 with
       | .ok r => decide (r.t = 2 ∧ r.finished = false ∧ r.daysRev.length = 2)
       | .error _ => false) = true := by decide +kernel

/-- **`runCallsR_eq_one` applies**: two calls of one step each succeed and equal one call of two -/
theorem stepping : ∃ s0 r, runInit cfgq = .ok s0 ∧ runCallsR Fq Tq cfgq [1, 1] s0 = .ok r ∧
    runModel Fq Tq cfgq 2 s0 = .ok r ∧ r.daysRev.length = 2 := by
  have h := steppingB
  cases h0 : runInit cfgq with
  | error e => rw [h0] at h; simp at h
  | ok s0 =>
    rw [h0] at h
    simp only at h
    cases h1 : runCallsR Fq Tq cfgq [1, 1] s0 with
    | error e => rw [h1] at h; simp at h
    | ok r =>
      rw [h1] at h
      simp only [decide_eq_true_eq] at h
      exact ⟨s0, r, rfl, h1, runCallsR_eq_one [1, 1] (by simp) h1, h.2.2⟩

end RunForcingExample
end Aqua

#print axioms Aqua.RunForcingExample.lookahead
#print axioms Aqua.RunForcingExample.crop_premise_needed
#print axioms Aqua.RunForcingExample.extend
#print axioms Aqua.RunForcingExample.binding
#print axioms Aqua.RunForcingExample.binding_default
#print axioms Aqua.RunForcingExample.stepping
