import AquaVerif.Proofs.RunTotal
import AquaVerif.Proofs.RunClosedExample
import AquaVerif.Model.CropFull
/-
Work package Z, part 5: **non-vacuity over `ℚ`, and the reachable error sites as counter-examples.**

`cfgZ wt zTop zg` is the configuration of `Proofs/RunClosedExample.lean` (`cfgE wt`: four
compartments of 0.1 m, a calendar-day fruit/grain crop planted on day 0, window of 14 days, constant
weather) with the maximum rooting depth lowered to `Zmax = 0.35 m` so that it fits the 0.4 m
profile (with the original `Zmax = 1 m` the roots outgrow the profile: that configuration violates
`ProfOK.tip`), top-soil depth `zTop` and water-table depth `zg`.

* `cfgOK_Z`, `cfgTotOK_Z`: `CfgOK` and `CfgTotOK` (`Zcap = 0.35`, `Zev = 0.2`) hold for
  `wt ∈ {0,1}`, every `zTop` and every `zg ≥ 0`; `topOK_Z`: `TopOK` holds iff `0.1 ≤ zTop`.
* `total_example`: hence (no computation) the 14-day run of `cfgZ wt 0.1 1` terminates without an
  error branch, with and without water table; `total_example_computed` cross-checks the statement by
  kernel evaluation of the run.
* **`top_assert_reachable`** (finding `raises-AssertionError-root_zone_water`): with `zTop = 0.05`
  (top compartment 0.1 m thick, thicker than the top soil) every premise except `TopOK` holds and
  the very first `_perform_timestep` fails: `irrigation` → `root_zone_water` →
  `assert comp_sto > 0` (`E:rz`).
* **`gw_undefined_reachable`** (finding `raises-UnboundLocalError-check_groundwater_table`): with
  a water table whose depth is negative (the order-theoretic stand-in for the NaN of a `Variable`
  series before its first observation: both comparisons of `check_groundwater_table` fail) every
  premise except `CfgTotOK.zgw` holds and the first step fails with `E:unbound`;
  `fullDay_gw_error` is the general statement.
* **`rdRCor_zerodiv_of_sxBot_zero`** (new finding, user-supplied crop parameters only): `SxBot = 0`
  (derived for `SxBotQ < SxTopQ/7`) makes the `rCor` update of `root_development` divide by zero;
  no catalogue crop is affected (`catalogue_sxBot_pos`).
* **`freshYield_yldWC_zero`**: the fresh-yield division is *not* an error site of the model
  (`yieldStep` is total: at `Float` it yields `inf`/`NaN`, in an ordered field `x / 0 = 0`); the
  Python raises `ZeroDivisionError` only when `DryYield` is a Python float — recorded finding
  `freshyield-yldwc-unset`, classified, not hidden: it concerns the finiteness half of C16.
-/

set_option linter.unusedSectionVars false
set_option linter.unusedVariables false
set_option linter.unusedSimpArgs false
namespace Aqua
namespace RunTotalExample
open DayExample FullDayExample RunExample RunClosedExample Aqua.Clock

/-! ## 1. the configuration -/

/-- the example crop with `Zmax = 0.35 m` -/
def cropZ : CropParams ℚ :=
  { cw := Wq.crop, cx := { cxq with rd := { rdq with zmax := 0.35 } } }

/-- `cfgE wt` with the crop `cropZ`, top-soil depth `zTop` and water-table depth `zg` -/
def cfgZ (wt : Nat) (zTop zg : ℚ) : RunCfg ℚ :=
  { cfgE wt with
    W0 := { Wq with waterTable := wt, soil := { Wq.soil with zTop := zTop } },
    fallowCrop := cropZ, seasonCrop := fun _ => cropZ, zgw := fun _ => zg }

theorem cropOK_Z : CropOK Fq2 Tq cropZ :=
  { cropOK_q with
    sxTop := cropOK_q.sxTop
    sxBot := cropOK_q.sxBot
    rdPos := cropOK_q.rdPos
    lagAer := cropOK_q.lagAer
    rdWF := by constructor <;> norm_num [cropZ, cxq, rdq] }

theorem cropOK_Z_fallow : CropOK Fq2 Tq (fallowAdjust cropZ) :=
  { cropOK_Z with
    sxTop := cropOK_Z.sxTop
    sxBot := cropOK_Z.sxBot
    rdPos := fun z hz => by
      have : (0.3 : ℚ) ≤ z := hz
      simp only [Fq2, Fq, id]; linarith
    lagAer := cropOK_Z.lagAer }

theorem cropOf_Z (wt : Nat) (zTop zg : ℚ) (season : Int) :
    CropOK Fq2 Tq (cropOf (cfgZ wt zTop zg) season) := by
  unfold cropOf
  split_ifs
  · exact cropOK_Z
  · exact cropOK_Z_fallow

/-- the initial state is inside the envelope of `cropZ` (the canopy and harvest-index records are
those of `cxq`; the root part is vacuous on day 0) -/
theorem init_Z (P : DayParams ℚ) (hP : P.cx = cropZ.cx) : CropInv Fq2 P cfgq.init := by
  obtain ⟨W, fm, z, cx⟩ := P
  simp only at hP
  subst hP
  have h := init_q ⟨W, fm, z, cxq⟩ rfl
  exact ⟨h.cc, ⟨h.root.tr0, h.root.tr1, fun hd => absurd rfl hd⟩,
    ⟨h.hi.fPre, h.hi.fPost, h.hi.sCor1, h.hi.sCor2, h.hi.upp, h.hi.dwn, h.hi.hi_le, h.hi.adj_le,
     h.hi.fin0, h.hi.fut⟩, h.bio⟩

theorem cfgOK_Z (wt : Nat) (zTop zg : ℚ) : CfgOK Fq2 Tq (cfgZ wt zTop zg) :=
  { cfgOK_E wt with
    gw := fun _ => gw_q
    crop := cropOf_Z wt zTop zg
    init := init_Z _ rfl }

/-! ## 2. the totality premises -/

/-- the bottom and the top compartment of the example profile -/
def botq : Cell ℚ := { c := cq 0.4, th := 0.3, fcAdj := 0.3, flux := 0, aer := 0 }
def topq : Cell ℚ := { c := cq 0.1, th := 0.2, fcAdj := 0.3, flux := 0, aer := 0 }

theorem profOK_Z (wt : Nat) (zTop : ℚ) :
    ProfOK Fq2 { Wq.soil with zTop := zTop } wt 0.3 0.35 0.2 cellsq :=
  { ne := by simp [cellsq]
    dz := fun x hx => by
      simp only [cellsq, List.mem_cons, List.not_mem_nil, or_false] at hx
      rcases hx with rfl | rfl | rfl | rfl <;> norm_num [cq]
    pen := fun x hx => by
      simp only [cellsq, List.mem_cons, List.not_mem_nil, or_false] at hx
      rcases hx with rfl | rfl | rfl | rfl <;> norm_num [cq]
    deep2 := fun z hz => ⟨botq, by simp [cellsq, botq], by
      show z ≤ (cq 0.4).dzsum
      simp only [cq]; linarith⟩
    deepPy := fun z hz => ⟨botq, by simp [cellsq, botq], by
      show z ≤ (cq 0.4).dzsum
      simp only [cq]; linarith⟩
    tip := ⟨botq, by simp [cellsq, botq], by show (0.35 : ℚ) ≤ (cq 0.4).dzsum; norm_num [cq]⟩
    germ := ⟨botq, by simp [cellsq, botq], by show (0.3 : ℚ) ≤ (cq 0.4).dzsum; norm_num [cq]⟩
    cn := fun h => by simp [Wq] at h
    evap := by
      unfold EvapDeep
      have : countBelow (0.2 : ℚ) cellsq = 1 := by decide +kernel
      rw [this]; simp [cellsq]
    lastLayer := fun _ b hb => by
      have : cellsq.getLast? = some ⟨cq 0.4, 0.3, 0.3, 0, 0⟩ := by simp [cellsq]
      rw [this] at hb
      cases hb
      rfl
    layers := by
      have h : (layersOf cellsq).isEmpty = false ∧ (layersOf cellsq).all (fun l => l.2.isSome) = true := by
        decide +kernel
      refine ⟨fun he => by rw [he] at h; simp at h, fun l hl => ?_⟩
      exact Option.isSome_iff_exists.mp (List.all_eq_true.mp h.2 l hl)
    nComp := by simp [cellsq, Wq] }

theorem cropTotOK_Z : CropTotOK cropZ 0.35 :=
  { gdd := Or.inr (Or.inr rfl), calW := Or.inl rfl, calRd := Or.inl rfl, calCc := Or.inl rfl,
    cold := Or.inl rfl, ctype := Or.inr (Or.inr rfl), pol := ⟨Or.inl rfl, Or.inl rfl⟩,
    sxBot := by norm_num [cropZ, cxq, rdq]
    capZmax := by norm_num [cropZ, cxq, rdq]
    capTr := by norm_num [cropZ, Wq, cropq]
    capCc := by norm_num [cropZ, cxq, ccq]
    capHi := by norm_num [cropZ, cxq, hikq] }

theorem cropTotOK_Z_fallow : CropTotOK (fallowAdjust cropZ) 0.35 :=
  { gdd := cropTotOK_Z.gdd, calW := cropTotOK_Z.calW, calRd := cropTotOK_Z.calRd,
    calCc := cropTotOK_Z.calCc, cold := cropTotOK_Z.cold, ctype := cropTotOK_Z.ctype,
    pol := cropTotOK_Z.pol, sxBot := cropTotOK_Z.sxBot, capZmax := cropTotOK_Z.capZmax,
    capTr := by show (0.3 : ℚ) ≤ 0.35; norm_num
    capCc := cropTotOK_Z.capCc, capHi := cropTotOK_Z.capHi }

/-- everything in `CfgTotOK` except the water-table depth -/
theorem cfgTotOK_Z' (wt : Nat) (hwt : wt = 0 ∨ wt = 1) (zTop zg : ℚ)
    (hzg : wt = 1 → 0 ≤ zg) : CfgTotOK Fq2 (cfgZ wt zTop zg) 0.35 0.2 :=
  { wf := by
      show WF { n := 14, planting := [0], harvest := [20], offSeason := false, season0 := 0 }
      decide
    initOK := ⟨rfl, rfl, rfl, rfl⟩
    prof := profOK_Z wt zTop
    crop := fun season => by
      unfold cropOf
      split_ifs
      · exact cropTotOK_Z
      · exact cropTotOK_Z_fallow
    cap0 := by norm_num
    irr := ⟨by show (5 : Nat) ≤ 5; omega, fun h => by simp [cfgZ, cfgE, cfgq, Wq] at h,
      by show (0 : ℚ) ≤ 90; norm_num⟩
    fallowIrr := ⟨by show (0 : Nat) ≤ 5; omega, fun h => by simp [cfgZ, cfgE, cfgq, Wq] at h,
      by show (0 : ℚ) ≤ 90; norm_num⟩
    sched := fun h => by simp [cfgZ, cfgE, cfgq, Wq] at h
    wt := hwt
    zgw := fun h t => hzg h
    steps := by show (2 : Nat) ≠ 0; omega
    evLo := by show (0.15 : ℚ) ≤ 0.2; norm_num
    evHi := by show (0.152 : ℚ) + 0.001 ≤ 0.2; norm_num
    evFuel := by show (0.152 : ℚ) - 0.15 ≤ 100; norm_num
    co2 := by show (369 : ℚ) ≠ 550; norm_num
    stage0 := by show (0 : Nat) ≤ 4; omega
    ev0 := by show (0.152 : ℚ) - 100 ≤ 0.15; norm_num
    ev1 := by show (0.15 : ℚ) ≤ 0.2; norm_num }

theorem cfgTotOK_Z (wt : Nat) (hwt : wt = 0 ∨ wt = 1) (zTop : ℚ) :
    CfgTotOK Fq2 (cfgZ wt zTop 1) 0.35 0.2 :=
  cfgTotOK_Z' wt hwt zTop 1 (fun _ => by norm_num)

/-- the named exception: the 0.1 m top compartment ends inside the top soil iff `zTop ≥ 0.1` -/
theorem topOK_Z (wt : Nat) (zTop zg : ℚ) :
    TopOK Fq2 (cfgZ wt zTop zg).W0.soil.zTop (cfgZ wt zTop zg).init.cells ↔ 0.1 ≤ zTop := by
  show (∃ x ∈ cellsq, x.c.dzsum ≤ zTop) ↔ _
  constructor
  · rintro ⟨x, hx, h⟩
    simp only [cellsq, List.mem_cons, List.not_mem_nil, or_false] at hx
    rcases hx with rfl | rfl | rfl | rfl <;> simp only [cq] at h <;> linarith
  · intro h
    exact ⟨topq, by simp [cellsq, topq], by show (cq 0.1).dzsum ≤ zTop; simpa [cq] using h⟩

/-! ## 3. non-vacuity: the theorems apply -/

/-- **the run of the example configuration terminates without an error branch**, with and without
a water table — by `run_finishes`, no computation -/
theorem total_example (wt : Nat) (hwt : wt = 0 ∨ wt = 1) :
    ∃ s₀ s, runInit (cfgZ wt 0.1 1) = .ok s₀ ∧ runModel Fq2 Tq (cfgZ wt 0.1 1) 14 s₀ = .ok s ∧
      s.finished = true ∧ RunReach Fq2 Tq (cfgZ wt 0.1 1) s :=
  run_finishes (cfgOK_Z wt 0.1 1) (cfgTotOK_Z wt hwt 0.1) ((topOK_Z wt 0.1 1).mpr (le_refl _))

/-- … and from every reachable unfinished state of it the next step succeeds -/
theorem step_example (wt : Nat) (hwt : wt = 0 ∨ wt = 1) {s : RunState ℚ}
    (hr : RunReach Fq2 Tq (cfgZ wt 0.1 1) s) (hf : s.finished = false) :
    ∃ s', performR Fq2 Tq (cfgZ wt 0.1 1) s = .ok s' := by
  obtain ⟨s', h, _⟩ := performR_total (cfgOK_Z wt 0.1 1) (cfgTotOK_Z wt hwt 0.1)
    ((topOK_Z wt 0.1 1).mpr (le_refl _)) hr hf
  exact ⟨s', h⟩

/-- cross-check by kernel evaluation: the 14-day call returns `.ok`, finished, after 13 simulated
days, the last one on day 12 -/
def checkRun (wt : Nat) : Bool :=
  match runInit (cfgZ wt 0.1 1) with
  | .error _ => false
  | .ok s0 =>
    match runModel Fq2 Tq (cfgZ wt 0.1 1) 14 s0 with
    | .ok s => s.finished && decide (s.daysRev.length = 13 ∧ s.t = 12)
    | .error _ => false

theorem total_example_computed : checkRun 0 = true ∧ checkRun 1 = true := by
  constructor <;> decide +kernel

/-! ## 4. the reachable error sites -/

/-- the first step's outcome -/
def firstStep (cfg : RunCfg ℚ) : Except String Bool :=
  match runInit cfg with
  | .error e => .error e
  | .ok s0 =>
    match performR Fq2 Tq cfg s0 with
    | .error e => .error e
    | .ok _ => .ok true

/-- **finding (reachable for a configuration that is valid in every other respect)**: top
compartment (0.1 m) thicker than the top soil (`z_top = 0.05 m`): `CfgOK` and `CfgTotOK` hold,
`TopOK` fails, and the first `_perform_timestep` raises inside `irrigation`'s `root_zone_water`
(`assert comp_sto > 0`) -/
theorem top_assert_reachable :
    CfgOK Fq2 Tq (cfgZ 0 0.05 1) ∧ CfgTotOK Fq2 (cfgZ 0 0.05 1) 0.35 0.2 ∧
      ¬ TopOK Fq2 (cfgZ 0 0.05 1).W0.soil.zTop (cfgZ 0 0.05 1).init.cells ∧
      firstStep (cfgZ 0 0.05 1) = .error "E:rz" :=
  ⟨cfgOK_Z 0 0.05 1, cfgTotOK_Z 0 (Or.inl rfl) 0.05,
    fun h => by have := (topOK_Z 0 0.05 1).mp h; norm_num at this, by decide +kernel⟩

/-- with a water table of negative depth `check_groundwater_table` assigns nothing and the day
raises `UnboundLocalError` (at `Float` the same happens for NaN: both comparisons fail) -/
theorem fullDay_gw_error {α : Type} [Field α] [LinearOrder α] [IsStrictOrderedRing α] (F : Fn α)
    (T : TrigFn α) (P : DayParams α) (st : DayState' α) (D : DayIn' α) {tc : DayCounters α}
    (htc : dayCounters P.cx st D = .ok tc) (hwt : P.W.waterTable = 1) (hz : D.zGW < 0) :
    fullDay F T P st D = .error "E:unbound" := by
  have hg : checkGroundwaterTable F st.cells P.W.waterTable D.zGW = none :=
    (checkGroundwaterTable_error_iff F st.cells _ _).mpr ⟨hwt, hz⟩
  unfold fullDay fullDayTrace
  simp only [htc, hg, optErr, bind, Except.bind]

/-- **finding**: a water table whose depth is undefined on a simulated day — everything else
valid (`CfgOK`; `CfgTotOK` holds for every depth `zg ≥ 0`) — makes the first step raise -/
theorem gw_undefined_reachable :
    CfgOK Fq2 Tq (cfgZ 1 0.1 (-1)) ∧ (∀ zg : ℚ, 0 ≤ zg → CfgTotOK Fq2 (cfgZ 1 0.1 zg) 0.35 0.2) ∧
      TopOK Fq2 (cfgZ 1 0.1 (-1)).W0.soil.zTop (cfgZ 1 0.1 (-1)).init.cells ∧
      firstStep (cfgZ 1 0.1 (-1)) = .error "E:unbound" :=
  ⟨cfgOK_Z 1 0.1 (-1), fun zg h => cfgTotOK_Z' 1 (Or.inr rfl) 0.1 zg (fun _ => h),
    (topOK_Z 1 0.1 (-1)).mpr (le_refl _), by decide +kernel⟩

/-- the roots outgrow a profile shallower than `Zmax`: the original example crop (`Zmax = 1 m` on
the 0.4 m profile) violates `ProfOK.tip`/`capZmax` — and `pre_irrigation`/`root_zone_water` would
raise `IndexError` once `round(z_root, 2) > 0.4` (the Python deepens the profile to
`Zmax + 0.1` in `read_model_parameters`, which is what `ProfOK` records) -/
theorem deep_crop_violates : ¬ CropTotOK cropq' 0.4 := fun h => by
  have := h.capZmax
  norm_num [cropq', cxq, rdq] at this

/-- **finding (user-supplied crop parameters; no catalogue crop: `catalogue_sxBot_pos`)**: when
`Crop.calculate_additional_params` derives `SxBot = 0` (it does for `SxBotQ < SxTopQ / 7`), the
`rCor` update of `root_development` divides a Python float by zero as soon as the roots lag behind
the potential depth: `Crop('Wheat', planting_date='10/01', SxTopQ=0.048, SxBotQ=0.005)` on a dry
profile raises `ZeroDivisionError` -/
theorem rdRCor_zerodiv_of_sxBot_zero {α : Type} [Field α] [LinearOrder α] [IsStrictOrderedRing α]
    (C : RdCrop α) (h : C.sxBot = 0) {zNew zrPot : α} (hlt : zNew < zrPot) (tr tPot : α) :
    rdRCor C false zNew zrPot tr tPot = .error "E:zerodiv" := by
  unfold rdRCor
  rw [if_pos hlt, if_pos]
  exact ⟨by simp, Or.inr ⟨by rw [h], by rw [h]⟩⟩

/-- the premise is exactly what the catalogue formula can violate: `SxTopQ = 0.048`,
`SxBotQ = 0.005` give `SxBot = 0` -/
def wheatSx : CropFull := { wheatFull with sxTopQ := 0.048, sxBotQ := 0.005 }
theorem wheatSx_sxBot : wheatSx.sxBot = 0 := by decide +kernel

/-- the fresh-yield division by `YldWC = 0` is not an error site of the model: in an ordered field
the quotient is `0`, at `Float` `inf`/`NaN` (finiteness, not totality) -/
theorem freshYield_yldWC_zero {α : Type} [Field α] [LinearOrder α] [IsStrictOrderedRing α]
    (bNS b hi hiAdj : α) : (yieldStep bNS b hi hiAdj 0 true).freshYield = 0 := by
  simp [yieldStep]

end RunTotalExample
end Aqua

section AxiomAudit
open Aqua.RunTotalExample
#print axioms cfgOK_Z
#print axioms cfgTotOK_Z
#print axioms total_example
#print axioms total_example_computed
#print axioms top_assert_reachable
#print axioms fullDay_gw_error
#print axioms rdRCor_zerodiv_of_sxBot_zero
#print axioms gw_undefined_reachable
end AxiomAudit
