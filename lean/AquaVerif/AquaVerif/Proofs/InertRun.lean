import AquaVerif.Proofs.InertRunRel
/-
Work package X, part 4 — **property C20 as a relational theorem about `runModel`**.

`RunState.view` is what a run shows: the clock position, the state object and, for every simulated
day, the state it started from, its forcing (without the schedule entry, which is a parameter),
and the complete `DayResult` — the three table rows, the new state, the summary row, the ghost
records and the trace of all process outputs — without the three ghost branch ids.  The parameter
records `DayRec.P` of the two runs necessarily differ and are not part of the view.

* `RunSim F T Inv cfg cfg'`: what two configurations have to share — everything except the two
  irrigation records and the two field-management records, which must be indistinguishable in the
  sense of `IrrSim` / `FmSim` on every state satisfying the run invariant `Inv`
  (the fallow irrigation record is **not constrained at all**: it is used only before the first
  season, where no day is a growing-season day — `irrSim_offseason`);
* `performR_sim`, `runSteps_sim`, **`run_sim`**: the views of the two runs coincide for every
  number of steps, error outcomes included; `reach_sim`: the same for `RunReach`;
* `InertEq cfg cfg'` — the explicit list of inert parameters with their guards — and
  **`run_inert`**; `fullDay_inert` is the day-level statement;
* `view_tables`: equal views have equal `water_storage`, `water_flux`, `crop_growth` tables,
  summary table, final state and clock.
-/

set_option linter.unusedSectionVars false
set_option linter.unusedVariables false
namespace Aqua
open Aqua.Clock
variable {α : Type} [Field α] [LinearOrder α] [IsStrictOrderedRing α]

/-! ## 1. what a run shows -/

/-- one simulated day without the parameter record, the schedule entry and the ghost branch ids -/
def DayRec.view (d : DayRec α) : DayState' α × DayIn' α × DayResult α :=
  (d.st, { d.D with sched := none }, d.r.noBranch)

structure RunView (α : Type) where
  t : Nat
  season : Int
  finished : Bool
  day : DayState' α
  daysRev : List (DayState' α × DayIn' α × DayResult α)

def RunState.view (s : RunState α) : RunView α :=
  { t := s.t, season := s.season, finished := s.finished, day := s.day,
    daysRev := s.daysRev.map DayRec.view }

theorem DayResult.noBranch_state (r : DayResult α) : r.noBranch.state = r.state := rfl

theorem clockRow_view (d : DayRec α) :
    d.clockRow = { t := d.view.2.1.tsc, season := d.view.2.1.season, dap := d.view.2.2.state.dap,
                   gs := d.view.2.1.gs, mature := d.view.2.2.state.cropMature,
                   dead := d.view.2.2.state.cropDead, endc := d.view.2.2.endc } := rfl

theorem clockSummary_view (d : DayRec α) :
    d.clockSummary = d.view.2.2.summary.map (fun x => (x.season, x.tsc)) := rfl

/-- the clock projection is a function of the view -/
theorem clockOf_of_view {s s' : RunState α} (h : s'.view = s.view) : s'.clockOf = s.clockOf := by
  have h1 : s'.t = s.t := congrArg RunView.t h
  have h2 : s'.season = s.season := congrArg RunView.season h
  have h3 : s'.finished = s.finished := congrArg RunView.finished h
  have h4 : s'.day = s.day := congrArg RunView.day h
  have h5 : s'.daysRev.map DayRec.view = s.daysRev.map DayRec.view := congrArg RunView.daysRev h
  have r1 : s'.daysRev.map DayRec.clockRow = s.daysRev.map DayRec.clockRow := by
    have : ∀ l : List (DayRec α), l.map DayRec.clockRow = (l.map DayRec.view).map
        (fun v => ({ t := v.2.1.tsc, season := v.2.1.season, dap := v.2.2.state.dap,
                     gs := v.2.1.gs, mature := v.2.2.state.cropMature,
                     dead := v.2.2.state.cropDead, endc := v.2.2.endc } : Clock.Row)) := by
      intro l; rw [List.map_map]; rfl
    rw [this, this, h5]
  have r2 : s'.daysRev.filterMap DayRec.clockSummary = s.daysRev.filterMap DayRec.clockSummary := by
    have : ∀ l : List (DayRec α), l.filterMap DayRec.clockSummary = (l.map DayRec.view).filterMap
        (fun v => v.2.2.summary.map (fun x => (x.season, x.tsc))) := by
      intro l; rw [List.filterMap_map]; rfl
    rw [this, this, h5]
  unfold RunState.clockOf
  rw [h1, h2, h3, h4, r1, r2]

/-- **equal views show the same tables, final state and clock** -/
theorem view_tables {s s' : RunState α} (h : s'.view = s.view) :
    s'.storageTable = s.storageTable ∧ s'.fluxTable = s.fluxTable ∧
    s'.growthTable = s.growthTable ∧ s'.summaryTable = s.summaryTable ∧
    s'.day = s.day ∧ s'.t = s.t ∧ s'.season = s.season ∧ s'.finished = s.finished := by
  have h5 : s'.daysRev.map DayRec.view = s.daysRev.map DayRec.view := congrArg RunView.daysRev h
  have h6 : s'.daysRev.reverse.map DayRec.view = s.daysRev.reverse.map DayRec.view := by
    rw [List.map_reverse, List.map_reverse, h5]
  refine ⟨?_, ?_, ?_, ?_, congrArg RunView.day h, congrArg RunView.t h, congrArg RunView.season h,
    congrArg RunView.finished h⟩
  · have : ∀ l : List (DayRec α), l.map (·.r.storage) = (l.map DayRec.view).map (·.2.2.storage) := by
      intro l; rw [List.map_map]; rfl
    unfold RunState.storageTable; rw [this, this, h6]
  · have : ∀ l : List (DayRec α), l.map (·.r.flux) = (l.map DayRec.view).map (·.2.2.flux) := by
      intro l; rw [List.map_map]; rfl
    unfold RunState.fluxTable; rw [this, this, h6]
  · have : ∀ l : List (DayRec α), l.map (·.r.growth) = (l.map DayRec.view).map (·.2.2.growth) := by
      intro l; rw [List.map_map]; rfl
    unfold RunState.growthTable; rw [this, this, h6]
  · have : ∀ l : List (DayRec α), l.filterMap (·.r.summary) =
        (l.map DayRec.view).filterMap (·.2.2.summary) := by
      intro l; rw [List.filterMap_map]; rfl
    unfold RunState.summaryTable; rw [this, this, h6]

/-! ## 2. two configurations the run cannot tell apart -/

/-- the irrigation record of the day -/
def irrRecOf (cfg : RunCfg α) (season : Int) : IrrSet α :=
  if 0 ≤ season then cfg.irr else cfg.fallowIrr

/-- what `cfg` and `cfg'` share.  `Inv` is an invariant of the state object along the runs of
`cfg` (trivial for the inert parameters; `0 ≤ irr_cum`, `growth_stage ≤ 4` for the neutral
irrigation settings). -/
structure RunSim (F : Fn α) (T : TrigFn α) (Inv : DayState' α → Prop) (cfg cfg' : RunCfg α) :
    Prop where
  clock : cfg'.clock = cfg.clock
  waterTable : cfg'.W0.waterTable = cfg.W0.waterTable
  soil : cfg'.W0.soil = cfg.W0.soil
  evapTimeSteps : cfg'.W0.evapTimeSteps = cfg.W0.evapTimeSteps
  simOffSeason : cfg'.W0.simOffSeason = cfg.W0.simOffSeason
  co2Ref : cfg'.W0.co2Ref = cfg.W0.co2Ref
  zGerm : cfg'.zGerm = cfg.zGerm
  seasonCrop : ∀ n, cfg'.seasonCrop n = cfg.seasonCrop n
  /-- `Aer`, `Zmin` of the fallow filler crop are overwritten -/
  fallowCrop : fallowAdjust cfg'.fallowCrop = fallowAdjust cfg.fallowCrop
  co2Cur : ∀ k, cfg'.co2Cur k = cfg.co2Cur k
  weather : ∀ t, cfg'.weather t = cfg.weather t
  /-- the water-table series is read only with a water table -/
  zgw : cfg.W0.waterTable = 1 → ∀ t, cfg'.zgw t = cfg.zgw t
  /-- `thini` and the initial bund water are restored only when the off-season is skipped -/
  thini : cfg.clock.offSeason = false → cfg'.thini = cfg.thini
  pond0 : cfg.clock.offSeason = false → resetPond cfg' = resetPond cfg
  irr : ∀ st t gs, Inv st →
    IrrSim F gs st.growthStage st.irrCum cfg.irr.irr cfg.irr.netIrrSMT cfg.irr.wetSurf
      (cfg.irr.sched t) cfg'.irr.irr cfg'.irr.netIrrSMT cfg'.irr.wetSurf (cfg'.irr.sched t)
  fm : FmSim F cfg.fm cfg'.fm
  fallowFm : FmSim F cfg.fallowFm cfg'.fallowFm
  invDay : ∀ season gs st D r, Inv st → fullDay F T (paramsOf cfg season gs) st D = .ok r →
    Inv r.state
  invReset : ∀ crop st, Inv st → Inv (resetState cfg crop st)

section sim
variable {F : Fn α} {T : TrigFn α} {Inv : DayState' α → Prop} {cfg cfg' : RunCfg α}

theorem RunSim.cropOf (h : RunSim F T Inv cfg cfg') (season : Int) :
    cropOf cfg' season = cropOf cfg season := by
  unfold Aqua.cropOf
  rw [h.seasonCrop, h.fallowCrop]

theorem RunSim.paramsOf (h : RunSim F T Inv cfg cfg') (season : Int) (gs : Bool) :
    paramsOf cfg' season gs =
      (paramsOf cfg season gs).withMgmt (irrRecOf cfg' season).irr (irrRecOf cfg' season).netIrrSMT
        (irrRecOf cfg' season).wetSurf (if gs then cfg'.fm else cfg'.fallowFm) := by
  unfold Aqua.paramsOf irrRecOf
  simp only [h.cropOf, h.waterTable, h.soil, h.evapTimeSteps, h.simOffSeason, h.co2Ref, h.zGerm,
    h.co2Cur]

theorem RunSim.dayInOf (h : RunSim F T Inv cfg cfg') {s s' : RunState α} (hv : s'.view = s.view)
    (ph : Option (Nat × Int)) :
    dayInOf cfg' s' ph = { dayInOf cfg s ph with sched := (irrRecOf cfg' s.season).sched s.t } := by
  have h1 : s'.t = s.t := congrArg RunView.t hv
  have h2 : s'.season = s.season := congrArg RunView.season hv
  have h4 : s'.day = s.day := congrArg RunView.day hv
  have hz : (if cfg'.W0.waterTable = 1 then cfg'.zgw s.t else 0) =
      (if cfg.W0.waterTable = 1 then cfg.zgw s.t else 0) := by
    rw [h.waterTable]
    by_cases hw : cfg.W0.waterTable = 1
    · rw [if_pos hw, if_pos hw, h.zgw hw]
    · rw [if_neg hw, if_neg hw]
  unfold Aqua.dayInOf irrRecOf
  simp only [h1, h2, h4, h.weather, hz]

theorem RunSim.resetState (h : RunSim F T Inv cfg cfg') (crop : CropParams α) (st : DayState' α) :
    resetState cfg' crop st = resetState cfg crop st := by
  unfold Aqua.resetState resetStateCore
  rw [h.clock]
  cases ho : cfg.clock.offSeason with
  | true => simp
  | false => simp [h.thini ho, h.pond0 ho]

/-- `check_model_is_finished` and `update_time` on two states with the same view -/
theorem finish_sim (h : RunSim F T Inv cfg cfg') {s s' : RunState α} (hv : s'.view = s.view) :
    (updateTimeR cfg' (checkFinishedR cfg' s')).map RunState.view =
      (updateTimeR cfg (checkFinishedR cfg s)).map RunState.view := by
  have hc : s'.clockOf = s.clockOf := clockOf_of_view hv
  have hv2 : (checkFinishedR cfg' s').view = (checkFinishedR cfg s).view := by
    unfold checkFinishedR RunState.view
    simp only [h.clock, hc]
    have := hv
    unfold RunState.view at this
    simp only [RunView.mk.injEq] at this ⊢
    exact ⟨this.1, this.2.1, trivial, this.2.2.2.1, this.2.2.2.2⟩
  have hc2 : (checkFinishedR cfg' s').clockOf = (checkFinishedR cfg s).clockOf :=
    clockOf_of_view hv2
  generalize checkFinishedR cfg' s' = u' at hv2 hc2 ⊢
  generalize checkFinishedR cfg s = u at hv2 hc2 ⊢
  unfold updateTimeR
  rw [h.clock, hc2]
  have h2 : u'.season = u.season := congrArg RunView.season hv2
  have h3 : u'.finished = u.finished := congrArg RunView.finished hv2
  have h4 : u'.day = u.day := congrArg RunView.day hv2
  have h5 : u'.daysRev.map DayRec.view = u.daysRev.map DayRec.view := congrArg RunView.daysRev hv2
  cases updateTime cfg.clock u.clockOf with
  | error e => rfl
  | ok c' =>
    simp only [h2]
    by_cases hs : c'.season = u.season
    · simp only [if_pos hs, Except.map, RunState.view, h3, h4, h5]
    · simp only [if_neg hs, Except.map, RunState.view, h3, h4, h5, h.resetState, h.seasonCrop]

/-- **one `_perform_timestep`** under the two configurations, from states with the same view -/
theorem performR_sim (h : RunSim F T Inv cfg cfg') {s s' : RunState α} (hv : s'.view = s.view)
    (hI : Inv s.day) :
    (performR F T cfg' s').map RunState.view = (performR F T cfg s).map RunState.view ∧
      ∀ s1, performR F T cfg s = .ok s1 → Inv s1.day := by
  have h1 : s'.t = s.t := congrArg RunView.t hv
  have h2 : s'.season = s.season := congrArg RunView.season hv
  have h3 : s'.finished = s.finished := congrArg RunView.finished hv
  have h4 : s'.day = s.day := congrArg RunView.day hv
  have h5 : s'.daysRev.map DayRec.view = s.daysRev.map DayRec.view := congrArg RunView.daysRev hv
  constructor
  · unfold performR
    rw [h3, h.clock, h2]
    by_cases hf : s.finished = true
    · rw [if_pos hf, if_pos hf]
    rw [if_neg hf, if_neg hf]
    cases hph : seasonInfo cfg.clock s.season with
    | error e => rfl
    | ok ph =>
      simp only []
      -- the day
      have hD := h.dayInOf hv ph
      have hsim : (fullDay F T (paramsOf cfg' s'.season (dayInOf cfg' s' ph).gs) s'.day
            (dayInOf cfg' s' ph)).map DayResult.noBranch =
          (fullDay F T (paramsOf cfg s.season (dayInOf cfg s ph).gs) s.day
            (dayInOf cfg s ph)).map DayResult.noBranch := by
        rw [hD, h2, h4, h.paramsOf]
        apply fullDay_of_sims
        · by_cases h0 : 0 ≤ s.season
          · have e1 : (paramsOf cfg s.season (dayInOf cfg s ph).gs).W.irr = cfg.irr.irr := by
              unfold Aqua.paramsOf; simp [h0]
            have e2 : (paramsOf cfg s.season (dayInOf cfg s ph).gs).W.netIrrSMT =
                cfg.irr.netIrrSMT := by unfold Aqua.paramsOf; simp [h0]
            have e3 : (paramsOf cfg s.season (dayInOf cfg s ph).gs).W.wetSurf =
                cfg.irr.wetSurf := by unfold Aqua.paramsOf; simp [h0]
            have e4 : (dayInOf cfg s ph).sched = cfg.irr.sched s.t := by
              unfold Aqua.dayInOf; simp [h0]
            have e5 : irrRecOf cfg' s.season = cfg'.irr := by unfold irrRecOf; simp [h0]
            rw [e1, e2, e3, e4, e5]
            exact h.irr s.day s.t _ hI
          · have hnone : ph = none := by
              have := seasonInfo_isSome hph
              rw [decide_eq_false h0] at this
              cases ph with
              | none => rfl
              | some q => simp at this
            have hg : (dayInOf cfg s ph).gs = false := by
              unfold Aqua.dayInOf; rw [hnone]; rfl
            rw [hg]
            exact irrSim_offseason F _ _ _ _ _ _ _ _ _ _
        · have e : (paramsOf cfg s.season (dayInOf cfg s ph).gs).fm =
              (if (dayInOf cfg s ph).gs then cfg.fm else cfg.fallowFm) := rfl
          rw [e]
          cases (dayInOf cfg s ph).gs with
          | true => exact h.fm
          | false => exact h.fallowFm
      unfold solution
      simp only []
      cases hr : fullDay F T (paramsOf cfg s.season (dayInOf cfg s ph).gs) s.day (dayInOf cfg s ph) with
      | error e =>
        rw [hr] at hsim
        cases hr' : fullDay F T (paramsOf cfg' s'.season (dayInOf cfg' s' ph).gs) s'.day
            (dayInOf cfg' s' ph) with
        | error e' =>
          rw [hr'] at hsim
          have : e' = e := by simpa [Except.map] using hsim
          subst this; rfl
        | ok r' => rw [hr'] at hsim; simp [Except.map] at hsim
      | ok r =>
        rw [hr] at hsim
        cases hr' : fullDay F T (paramsOf cfg' s'.season (dayInOf cfg' s' ph).gs) s'.day
            (dayInOf cfg' s' ph) with
        | error e' => rw [hr'] at hsim; simp [Except.map] at hsim
        | ok r' =>
          rw [hr'] at hsim
          have hrr : r'.noBranch = r.noBranch := by simpa [Except.map] using hsim
          simp only []
          apply finish_sim h
          have hst : r'.state = r.state := by
            have := congrArg DayResult.state hrr
            simpa [DayResult.noBranch_state] using this
          unfold RunState.view
          simp only [List.map_cons, RunView.mk.injEq, List.cons.injEq, h1, h2, h3, h5, hst,
            and_true, true_and]
          unfold DayRec.view
          simp only [hrr, h4, hD]
  · intro s1 hs1
    obtain ⟨ph, r, s2, hf, hph, hr, hs2, hu⟩ := performR_ok hs1
    have hI2 : Inv r.state := h.invDay _ _ _ _ _ hI hr
    obtain ⟨c', _, _, _, _, hcase⟩ := updateTimeR_ok hu
    have hday : (checkFinishedR cfg s2).day = r.state := by rw [hs2]; rfl
    rcases hcase with ⟨_, e⟩ | ⟨_, e⟩
    · rw [e, hday]; exact hI2
    · rw [e, hday]; exact h.invReset _ _ hI2

/-- `for i in range(k): _perform_timestep()` under the two configurations -/
theorem runSteps_sim (h : RunSim F T Inv cfg cfg') :
    ∀ (k : Nat) {s s' : RunState α}, s'.view = s.view → Inv s.day →
      (runStepsR F T cfg' k s').map RunState.view = (runStepsR F T cfg k s).map RunState.view := by
  intro k
  induction k with
  | zero =>
    intro s s' hv _
    simp only [runStepsR, Except.map, hv]
  | succ k ih =>
    intro s s' hv hI
    obtain ⟨hp, hinv⟩ := performR_sim h hv hI
    simp only [runStepsR]
    cases h1 : performR F T cfg s with
    | error e =>
      rw [h1] at hp
      cases h1' : performR F T cfg' s' with
      | error e' =>
        rw [h1'] at hp
        have : e' = e := by simpa [Except.map] using hp
        subst this; rfl
      | ok u' => rw [h1'] at hp; simp [Except.map] at hp
    | ok u =>
      rw [h1] at hp
      cases h1' : performR F T cfg' s' with
      | error e' => rw [h1'] at hp; simp [Except.map] at hp
      | ok u' =>
        rw [h1'] at hp
        have hvu : u'.view = u.view := by simpa [Except.map] using hp
        have hfin : u'.finished = u.finished := congrArg RunView.finished hvu
        simp only [hfin]
        by_cases hf : u.finished = true
        · simp only [if_pos hf, Except.map, hvu]
        · simp only [if_neg hf]
          exact ih hvu (hinv u h1)

/-- **`run_model(num_steps = k)` under two configurations the run cannot tell apart**: same
outcome — the same error, or final states with the same view — for every number of steps -/
theorem run_sim (h : RunSim F T Inv cfg cfg') (k : Nat) {s : RunState α} (hI : Inv s.day) :
    (runModel F T cfg' k s).map RunState.view = (runModel F T cfg k s).map RunState.view := by
  unfold runModel
  by_cases hk : k < 1
  · rw [if_pos hk, if_pos hk]
  · rw [if_neg hk, if_neg hk]
    exact runSteps_sim h k rfl hI

/-- the initialised model is the same -/
theorem runInit_sim (h : RunSim F T Inv cfg cfg') (hinit : cfg'.init = cfg.init) :
    runInit cfg' = runInit cfg := by
  unfold runInit
  rw [h.clock, hinit]

theorem runInit_ok_day {s : RunState α} (h : runInit cfg = .ok s) : s.day = cfg.init := by
  unfold runInit at h
  split at h
  · cases h
  · cases h; rfl

/-- the same in terms of reachable states (`RunReach`): every state the run of `cfg` reaches has a
counterpart with the same view that the run of `cfg'` reaches -/
theorem reach_sim (h : RunSim F T Inv cfg cfg') (hinit : cfg'.init = cfg.init)
    (hI0 : Inv cfg.init) {s : RunState α} (hr : RunReach F T cfg s) :
    Inv s.day ∧ ∃ s', RunReach F T cfg' s' ∧ s'.view = s.view := by
  induction hr with
  | init h0 =>
    refine ⟨by rw [runInit_ok_day h0]; exact hI0, _, RunReach.init ?_, rfl⟩
    rw [runInit_sim h hinit, h0]
  | step hr0 hp ih =>
    obtain ⟨hI, s0', hr0', hv⟩ := ih
    obtain ⟨hsim, hinv⟩ := performR_sim h hv hI
    rw [hp] at hsim
    refine ⟨hinv _ hp, ?_⟩
    cases hp' : performR F T cfg' s0' with
    | error e => rw [hp'] at hsim; simp [Except.map] at hsim
    | ok s' =>
      rw [hp'] at hsim
      exact ⟨s', RunReach.step hr0' hp', by simpa [Except.map] using hsim⟩

end sim

/-! ## 3. the inert parameters -/

/-- **inert parameters of an irrigation record** (`IrrMngt` with its schedule): the method is
shared; a parameter may differ when the selected strategy does not read it.

| parameter | read only when |
|---|---|
| `SMT` (four thresholds) | method 1 |
| `IrrInterval` | method 2 |
| `Schedule` | method 3 |
| `depth` | method 5 |
| `NetIrrSMT` | method 4 |
| `AppEff`, `MaxIrr`, `MaxIrrSeason`, `WetSurf` | method ∉ {0, 4} | -/
structure IrrSetInert (I I' : IrrSet α) : Prop where
  method : I'.irr.method = I.irr.method
  smt : I.irr.method = 1 → I'.irr.smt = I.irr.smt
  interval : I.irr.method = 2 → I'.irr.interval = I.irr.interval
  sched : I.irr.method = 3 → ∀ t, I'.sched t = I.sched t
  depth : I.irr.method = 5 → I'.irr.depth = I.irr.depth
  netIrrSMT : I.irr.method = 4 → I'.netIrrSMT = I.netIrrSMT
  appEff : I.irr.method ≠ 0 → I.irr.method ≠ 4 → I'.irr.appEff = I.irr.appEff
  maxIrr : I.irr.method ≠ 0 → I.irr.method ≠ 4 → I'.irr.maxIrr = I.irr.maxIrr
  maxSeason : I.irr.method ≠ 0 → I.irr.method ≠ 4 → I'.irr.maxSeason = I.irr.maxSeason
  wetSurf : I.irr.method ≠ 0 → I.irr.method ≠ 4 → I'.wetSurf = I.wetSurf

theorem IrrSetInert.day {I I' : IrrSet α} (h : IrrSetInert I I') (t : Nat) :
    IrrInert I.irr I.netIrrSMT I.wetSurf (I.sched t) I'.irr I'.netIrrSMT I'.wetSurf (I'.sched t) :=
  ⟨h.method, h.smt, h.interval, fun h3 => h.sched h3 t, h.depth, h.netIrrSMT, h.appEff, h.maxIrr,
   h.maxSeason, h.wetSurf⟩

/-- **`InertEq cfg cfg'`: the two configurations agree everywhere except on parameters that are
inert under `cfg`'s own switches.**

Free (not constrained at all): the whole fallow irrigation record `fallowIrr` (used only before
the first season, when no day is a growing-season day); `Aer` and `Zmin` of the fallow filler crop
(overwritten); the fields `crop`, `irr`, `netIrrSMT`, `wetSurf`, `co2Cur` of `W0` (overwritten per
day).  Guarded: see `IrrSetInert`, `FmInert`, and the fields `zgw`, `thini`, `bundWater` below. -/
structure InertEq (cfg cfg' : RunCfg α) : Prop where
  clock : cfg'.clock = cfg.clock
  waterTable : cfg'.W0.waterTable = cfg.W0.waterTable
  soil : cfg'.W0.soil = cfg.W0.soil
  evapTimeSteps : cfg'.W0.evapTimeSteps = cfg.W0.evapTimeSteps
  simOffSeason : cfg'.W0.simOffSeason = cfg.W0.simOffSeason
  co2Ref : cfg'.W0.co2Ref = cfg.W0.co2Ref
  zGerm : cfg'.zGerm = cfg.zGerm
  seasonCrop : ∀ n, cfg'.seasonCrop n = cfg.seasonCrop n
  fallowCrop : fallowAdjust cfg'.fallowCrop = fallowAdjust cfg.fallowCrop
  co2Cur : ∀ k, cfg'.co2Cur k = cfg.co2Cur k
  weather : ∀ t, cfg'.weather t = cfg.weather t
  init : cfg'.init = cfg.init
  /-- the water-table series: only with a water table -/
  zgw : cfg.W0.waterTable = 1 → ∀ t, cfg'.zgw t = cfg.zgw t
  /-- `thini` at a season start: only when the off-season is not simulated -/
  thini : cfg.clock.offSeason = false → cfg'.thini = cfg.thini
  /-- `bund_water`: only when the off-season is not simulated and with bunds higher than 1 mm -/
  bundWater : cfg.clock.offSeason = false → cfg.fm.bunds = true → 0.001 < cfg.fm.zBund →
    cfg'.bundWater = cfg.bundWater
  irr : IrrSetInert cfg.irr cfg'.irr
  fm : FmInert cfg.fm cfg'.fm
  fallowFm : FmInert cfg.fallowFm cfg'.fallowFm

section inert
variable {F : Fn α} {T : TrigFn α} {cfg cfg' : RunCfg α}

theorem resetPond_of_fmSim (hF : FmSim F cfg.fm cfg'.fm)
    (hb : cfg.fm.bunds = true → 0.001 < cfg.fm.zBund → cfg'.bundWater = cfg.bundWater) :
    resetPond cfg' = resetPond cfg := by
  unfold resetPond
  rw [hF.pond0]
  unfold resetPondOf
  by_cases hc : cfg.fm.bunds = true ∧ 0.001 < cfg.fm.zBund
  · rw [if_pos hc, if_pos hc, hb hc.1 hc.2]
  · rw [if_neg hc, if_neg hc]

theorem InertEq.runSim (h : InertEq cfg cfg') : RunSim F T (fun _ => True) cfg cfg' :=
  { clock := h.clock, waterTable := h.waterTable, soil := h.soil,
    evapTimeSteps := h.evapTimeSteps, simOffSeason := h.simOffSeason, co2Ref := h.co2Ref,
    zGerm := h.zGerm, seasonCrop := h.seasonCrop, fallowCrop := h.fallowCrop, co2Cur := h.co2Cur,
    weather := h.weather, zgw := h.zgw, thini := h.thini,
    pond0 := fun ho => resetPond_of_fmSim (F := F) (fmSim_of_inert F h.fm) (h.bundWater ho),
    irr := fun st t gs _ => irrSim_of_inert F gs _ _ (h.irr.day t),
    fm := fmSim_of_inert F h.fm, fallowFm := fmSim_of_inert F h.fallowFm,
    invDay := fun _ _ _ _ _ _ _ => trivial, invReset := fun _ _ _ => trivial }

/-- **C20, inert parameters, at run level**: two configurations that differ only in inert
parameters give the same run — the same error, or final states with the same view (all rows of the
three daily tables, the summary table, the state object, the clock, every intermediate process
output) — for every initial state and every number of steps. -/
theorem run_inert (h : InertEq cfg cfg') (k : Nat) (s : RunState α) :
    (runModel F T cfg' k s).map RunState.view = (runModel F T cfg k s).map RunState.view :=
  run_sim (h.runSim (F := F) (T := T)) k trivial

/-- … starting from the same initialised model -/
theorem runInit_inert (h : InertEq cfg cfg') : runInit cfg' = runInit cfg := by
  unfold runInit
  rw [h.clock, h.init]

/-- every state the run of `cfg` reaches has a counterpart with the same view reached by the run
of `cfg'` -/
theorem reach_inert (h : InertEq cfg cfg') {s : RunState α} (hr : RunReach F T cfg s) :
    ∃ s', RunReach F T cfg' s' ∧ s'.view = s.view :=
  (reach_sim (h.runSim (F := F) (T := T)) h.init trivial hr).2

/-- the run of `cfg'` shows what the run of `cfg` shows -/
theorem run_inert_tables (h : InertEq cfg cfg') {k : Nat} {s r : RunState α}
    (hr : runModel F T cfg k s = .ok r) :
    ∃ r', runModel F T cfg' k s = .ok r' ∧
      r'.storageTable = r.storageTable ∧ r'.fluxTable = r.fluxTable ∧
      r'.growthTable = r.growthTable ∧ r'.summaryTable = r.summaryTable ∧
      r'.day = r.day ∧ r'.t = r.t ∧ r'.season = r.season ∧ r'.finished = r.finished := by
  have := run_inert (F := F) (T := T) h k s
  rw [hr] at this
  cases hr' : runModel F T cfg' k s with
  | error e => rw [hr'] at this; simp [Except.map] at this
  | ok r' =>
    rw [hr'] at this
    exact ⟨r', rfl, view_tables (by simpa [Except.map] using this)⟩

/-- … and fails when the run of `cfg` fails, with the same error -/
theorem run_inert_error (h : InertEq cfg cfg') {k : Nat} {s : RunState α} {e : String}
    (hr : runModel F T cfg k s = .error e) : runModel F T cfg' k s = .error e := by
  have := run_inert (F := F) (T := T) h k s
  rw [hr] at this
  cases hr' : runModel F T cfg' k s with
  | error e' =>
    rw [hr'] at this
    have : e' = e := by simpa [Except.map] using this
    rw [this]
  | ok r' => rw [hr'] at this; simp [Except.map] at this

end inert

/-! ## 4. the day-level statement -/

/-- the day-level version of `InertEq`: everything but the management records is shared; the
irrigation record (with the day's schedule entry) is constrained in the growing season only -/
structure DayInert (P P' : DayParams α) (D D' : DayIn' α) : Prop where
  cx : P'.cx = P.cx
  zGerm : P'.zGerm = P.zGerm
  waterTable : P'.W.waterTable = P.W.waterTable
  soil : P'.W.soil = P.W.soil
  crop : P'.W.crop = P.W.crop
  evapTimeSteps : P'.W.evapTimeSteps = P.W.evapTimeSteps
  simOffSeason : P'.W.simOffSeason = P.W.simOffSeason
  co2Cur : P'.W.co2Cur = P.W.co2Cur
  co2Ref : P'.W.co2Ref = P.W.co2Ref
  day : D' = { D with sched := D'.sched }
  irr : D.gs = true → IrrInert P.W.irr P.W.netIrrSMT P.W.wetSurf D.sched
    P'.W.irr P'.W.netIrrSMT P'.W.wetSurf D'.sched
  fm : FmInert P.fm P'.fm

/-- **`fullDay_inert`**: `solution_single_time_step` returns the same result — rows, state,
summary row, ghost records, error outcome, all process outputs up to the ghost branch ids — under
day parameters that differ only in inert ones -/
theorem fullDay_inert {F : Fn α} {T : TrigFn α} {P P' : DayParams α} {D D' : DayIn' α}
    (h : DayInert P P' D D') (st : DayState' α) :
    (fullDay F T P' st D').map DayResult.noBranch = (fullDay F T P st D).map DayResult.noBranch := by
  have hP : P' = P.withMgmt P'.W.irr P'.W.netIrrSMT P'.W.wetSurf P'.fm := by
    obtain ⟨W', fm', zg', cx'⟩ := P'
    obtain ⟨wt', so', cr', ir', ns', ws', et', so2', cc', cr2'⟩ := W'
    have := h.cx; have := h.zGerm; have := h.waterTable; have := h.soil; have := h.crop
    have := h.evapTimeSteps; have := h.simOffSeason; have := h.co2Cur; have := h.co2Ref
    simp only at *
    subst_vars
    rfl
  rw [hP, h.day]
  apply fullDay_of_sims
  · cases hg : D.gs with
    | false => exact irrSim_offseason F _ _ _ _ _ _ _ _ _ _
    | true => exact irrSim_of_inert F true _ _ (h.irr hg)
  · exact fmSim_of_inert F h.fm

end Aqua
