import AquaVerif.Model.SoilBuild
import AquaVerif.Proofs.Basic
/-
Lemmas about the soil-profile builder (`Model/SoilBuild.lean`), property C18.
-/

set_option linter.unusedSectionVars false
set_option linter.unusedVariables false
namespace Aqua

/-! ## 1. Geometry -/

theorem buildGeoFrom_length (acc : Nat) (dz : List Nat) : (buildGeoFrom acc dz).length = dz.length := by
  induction dz generalizing acc with
  | nil => rfl
  | cons d ds ih => simp [buildGeoFrom, ih]

theorem buildGeoFrom_dz (acc : Nat) (dz : List Nat) : (buildGeoFrom acc dz).map (·.dz) = dz := by
  induction dz generalizing acc with
  | nil => rfl
  | cons d ds ih => simp [buildGeoFrom, ih]

/-- running sums, specification -/
def prefixSums : Nat → List Nat → List Nat
  | _, [] => []
  | acc, d :: ds => (acc + d) :: prefixSums (acc + d) ds

theorem buildGeoFrom_dzsum (acc : Nat) (dz : List Nat) :
    (buildGeoFrom acc dz).map (·.dzsum) = prefixSums acc dz := by
  induction dz generalizing acc with
  | nil => rfl
  | cons d ds ih => simp [buildGeoFrom, prefixSums, ih]

theorem prefixSums_getElem (acc : Nat) (dz : List Nat) (i : Nat) (h : i < (prefixSums acc dz).length) :
    (prefixSums acc dz)[i] = acc + sumNat (dz.take (i + 1)) := by
  induction dz generalizing acc i with
  | nil => simp [prefixSums] at h
  | cons d ds ih =>
    cases i with
    | zero => simp [prefixSums, sumNat]
    | succ i =>
      simp only [prefixSums, List.getElem_cons_succ, List.take_succ_cons, sumNat]
      rw [ih]; omega

/-- **dzsum_is_prefix_sum**: the bottom of compartment `i` is the sum of the thicknesses of
compartments `0..i` (as built by `create_df`). -/
theorem dzsum_is_prefix_sum (dz : List Nat) (i : Nat) (h : i < (buildGeometry dz).length) :
    ((buildGeometry dz)[i]).dzsum = sumNat (dz.take (i + 1)) := by
  have h1 := buildGeoFrom_dzsum 0 dz
  have h2 : i < (prefixSums 0 dz).length := by
    rw [← h1]; simpa [buildGeometry] using h
  have := prefixSums_getElem 0 dz i h2
  simp only [Nat.zero_add] at this
  rw [← this]
  simp only [buildGeometry]
  have : ((buildGeoFrom 0 dz).map (·.dzsum))[i]'(by simpa [buildGeometry] using h) = (prefixSums 0 dz)[i] := by
    simp only [h1]
  simpa using this

theorem refreshFrom_length (acc : Nat) (gs : List GComp) (dz : List Nat) (h : gs.length = dz.length) :
    (refreshFrom acc gs dz).length = dz.length := by
  induction gs generalizing acc dz with
  | nil => cases dz <;> simp_all [refreshFrom]
  | cons g gs ih =>
    cases dz with
    | nil => simp at h
    | cons d ds => simp [refreshFrom, ih (acc + d) ds (by simpa using h)]

/-- after `fill_nan` (also after deepening) `dzsum` is again the running sum of the *current* `dz`. -/
theorem refreshFrom_dzsum (acc : Nat) (gs : List GComp) (dz : List Nat) (h : gs.length = dz.length) :
    (refreshFrom acc gs dz).map (·.dzsum) = prefixSums acc dz ∧
    (refreshFrom acc gs dz).map (·.dz) = dz := by
  induction gs generalizing acc dz with
  | nil => cases dz <;> simp_all [refreshFrom, prefixSums]
  | cons g gs ih =>
    cases dz with
    | nil => simp at h
    | cons d ds =>
      have := ih (acc + d) ds (by simpa using h)
      simp [refreshFrom, prefixSums, this.1, this.2]

/-- `fill_nan` never touches `zBot`, `z_top` (hence `zMid`): they stay those of `create_df`. -/
theorem refreshFrom_stale (acc : Nat) (gs : List GComp) (dz : List Nat) (h : gs.length = dz.length) :
    (refreshFrom acc gs dz).map (fun g => (g.zBot, g.zTop)) = gs.map (fun g => (g.zBot, g.zTop)) := by
  induction gs generalizing acc dz with
  | nil => cases dz <;> simp_all [refreshFrom]
  | cons g gs ih =>
    cases dz with
    | nil => simp at h
    | cons d ds => simp [refreshFrom, ih (acc + d) ds (by simpa using h)]

/-! ## 2. Mid-depths -/

theorem buildGeoFrom_mem (acc : Nat) (dz : List Nat) (g : GComp) (h : g ∈ buildGeoFrom acc dz) :
    g.zBot = g.dzsum ∧ g.zTop + g.dz = g.dzsum ∧ acc ≤ g.zTop := by
  induction dz generalizing acc with
  | nil => simp [buildGeoFrom] at h
  | cons d ds ih =>
    simp only [buildGeoFrom, List.mem_cons] at h
    rcases h with rfl | h
    · simp
    · have := ih (acc + d) h
      omega

/-- **mid_consistent_as_built**: right after `create_df` (before any deepening), tops, bottoms and
mid-depths are consistent with the running sums: `zBot = dzsum`, `z_top = dzsum − dz`,
`2·zMid = 2·dzsum − dz`. -/
theorem mid_consistent_as_built (dz : List Nat) (g : GComp) (h : g ∈ buildGeometry dz) :
    g.zBot = g.dzsum ∧ g.zTop = g.dzsum - g.dz ∧ g.zMid2 = g.mid2 := by
  have := buildGeoFrom_mem 0 dz g h
  simp only [GComp.zMid2, GComp.mid2]
  omega

/-- the same in metres, over an ordered field: the float formula `zMid = (z_top + zBot)/2` with
`z_top = zBot − dz` equals `dzsum − dz/2`. -/
theorem mid_consistent_as_built_metres {α : Type} [Field α] [LinearOrder α] [IsStrictOrderedRing α]
    (dz : List Nat) (g : GComp) (h : g ∈ buildGeometry dz) :
    (toMetres g : GeoM α).zBot = (toMetres g : GeoM α).dzsum ∧
    (toMetres g : GeoM α).zTop = (toMetres g : GeoM α).dzsum - (toMetres g : GeoM α).dz ∧
    (toMetres g : GeoM α).zMid = (toMetres g : GeoM α).dzsum - (toMetres g : GeoM α).dz / 2 := by
  obtain ⟨h1, h2, _⟩ := buildGeoFrom_mem 0 dz g h
  have hd : g.dzsum - g.zTop = g.dz := by omega
  simp only [toMetres, cmToM, h1, hd]
  refine ⟨trivial, trivial, ?_⟩
  ring

/-- **mid_stale_after_deepen** (counter-statement, documents the defect): a two-compartment profile
of 10 cm each, deepened for a crop that needs 30 cm.  The loop raises the bottom compartment to
20 cm; its stored mid-depth stays 15 cm (`zMid2 = 30`) while its real mid-depth is 20 cm
(`mid2 = 40`), and its stored bottom stays 20 cm while `dzsum` is 30 cm. -/
theorem mid_stale_after_deepen :
    ∃ (dz dz' : List Nat) (k : Nat),
      deepen (fun c => decide (c < 30)) 8 dz 0 = .ok (dz', k) ∧
      ∃ g ∈ refreshFrom 0 (buildGeometry dz) dz', g.zMid2 ≠ g.mid2 ∧ g.zBot ≠ g.dzsum :=
  ⟨[10, 10], [10, 20], 1, by rfl, ⟨20, 30, 20, 10⟩, by decide, by decide, by decide⟩

example : (refreshFrom 0 (buildGeometry [10, 10]) [10, 20]).map (fun g => (g.zMid2, g.mid2)) =
    [(10, 10), (30, 40)] := by decide

/-! ## 3. The deepening loop -/

theorem bumpLast_none_iff (dz : List Nat) : bumpLast dz = none ↔ ∀ x ∈ dz, 25 ≤ x := by
  induction dz with
  | nil => simp [bumpLast]
  | cons d ds ih =>
    simp only [bumpLast, List.mem_cons, forall_eq_or_imp]
    cases hb : bumpLast ds with
    | some r =>
      simp only [reduceCtorEq, false_iff, not_and]
      intro _ hall
      rw [ih.mpr hall] at hb; cases hb
    | none =>
      have := ih.mp hb
      by_cases hd : d < 25
      · simp [hd]
      · simp only [hd, if_false, true_iff]
        exact ⟨by omega, this⟩

/-- **one deepening step**: exactly one thickness is raised, by exactly 10 cm; it is below 25 cm
and it is the *lowest* such compartment (everything below it is ≥ 25 cm). -/
theorem bumpLast_spec (dz dz' : List Nat) (h : bumpLast dz = some dz') :
    ∃ pre d post, dz = pre ++ d :: post ∧ dz' = pre ++ (d + 10) :: post ∧ d < 25 ∧
      ∀ x ∈ post, 25 ≤ x := by
  induction dz generalizing dz' with
  | nil => simp [bumpLast] at h
  | cons d ds ih =>
    simp only [bumpLast] at h
    cases hb : bumpLast ds with
    | some r =>
      rw [hb] at h
      simp only [Option.some.injEq] at h
      obtain ⟨pre, e, post, h1, h2, h3, h4⟩ := ih r hb
      exact ⟨d :: pre, e, post, by simp [h1], by simp [← h, h2], h3, h4⟩
    | none =>
      rw [hb] at h
      by_cases hd : d < 25
      · simp only [hd, if_true, Option.some.injEq] at h
        exact ⟨[], d, ds, by simp, by simp [← h], hd, (bumpLast_none_iff ds).mp hb⟩
      · simp [hd] at h

theorem sumNat_append (xs ys : List Nat) : sumNat (xs ++ ys) = sumNat xs + sumNat ys := by
  induction xs with
  | nil => simp [sumNat]
  | cons x xs ih => simp [sumNat, ih]; omega

theorem bumpLast_sum (dz dz' : List Nat) (h : bumpLast dz = some dz') :
    sumNat dz' = sumNat dz + 10 ∧ dz'.length = dz.length := by
  obtain ⟨pre, d, post, rfl, rfl, hd, _⟩ := bumpLast_spec dz dz' h
  refine ⟨?_, by simp⟩
  simp [sumNat_append, sumNat]; omega

/-- the `else:` branch: the bottom compartment, and only it, is raised by 10 cm. -/
theorem bumpBottom_spec (dz dz' : List Nat) (h : bumpBottom dz = some dz') :
    ∃ pre d, dz = pre ++ [d] ∧ dz' = pre ++ [d + 10] := by
  induction dz generalizing dz' with
  | nil => simp [bumpBottom] at h
  | cons d ds ih =>
    cases ds with
    | nil =>
      simp only [bumpBottom, Option.some.injEq] at h
      exact ⟨[], d, rfl, by simp [← h]⟩
    | cons e es =>
      simp only [bumpBottom] at h
      cases hb : bumpBottom (e :: es) with
      | none => simp [hb] at h
      | some r =>
        simp only [hb, Option.map_some, Option.some.injEq] at h
        obtain ⟨pre, x, h1, h2⟩ := ih r hb
        exact ⟨d :: pre, x, by simp [h1], by simp [← h, h2]⟩

theorem bumpBottom_isSome (dz : List Nat) (h : dz ≠ []) : ∃ dz', bumpBottom dz = some dz' := by
  induction dz with
  | nil => exact absurd rfl h
  | cons d ds ih =>
    cases ds with
    | nil => exact ⟨[d + 10], rfl⟩
    | cons e es =>
      obtain ⟨r, hr⟩ := ih (by simp)
      exact ⟨d :: r, by simp only [bumpBottom, hr, Option.map_some]⟩

/-- **one iteration of the `while` body**: exactly one thickness is raised by exactly 10 cm —
the lowest compartment that is below 25 cm, or, when there is none (all ≥ 25 cm), the bottom one. -/
theorem deepenStep_spec (dz dz' : List Nat) (h : deepenStep dz = some dz') :
    (∃ pre d post, dz = pre ++ d :: post ∧ dz' = pre ++ (d + 10) :: post ∧ d < 25 ∧
        ∀ x ∈ post, 25 ≤ x) ∨
    ((∀ x ∈ dz, 25 ≤ x) ∧ ∃ pre d, dz = pre ++ [d] ∧ dz' = pre ++ [d + 10]) := by
  unfold deepenStep at h
  cases hb : bumpLast dz with
  | some r =>
    simp only [hb, Option.some.injEq] at h
    subst h
    exact Or.inl (bumpLast_spec dz r hb)
  | none =>
    simp only [hb] at h
    exact Or.inr ⟨(bumpLast_none_iff dz).mp hb, bumpBottom_spec dz dz' h⟩

theorem deepenStep_sum (dz dz' : List Nat) (h : deepenStep dz = some dz') :
    sumNat dz' = sumNat dz + 10 ∧ dz'.length = dz.length := by
  rcases deepenStep_spec dz dz' h with ⟨pre, d, post, rfl, rfl, _, _⟩ | ⟨_, pre, d, rfl, rfl⟩
  · refine ⟨?_, by simp⟩
    simp [sumNat_append, sumNat]; omega
  · refine ⟨?_, by simp⟩
    simp [sumNat_append, sumNat]; omega

/-- a step is always possible on a non-empty profile (since repo commit b09df61). -/
theorem deepenStep_isSome (dz : List Nat) (h : dz ≠ []) : ∃ dz', deepenStep dz = some dz' := by
  unfold deepenStep
  cases hb : bumpLast dz with
  | some r => exact ⟨r, rfl⟩
  | none => exact bumpBottom_isSome dz h

/-- **deepen_reaches** (general form): on success the loop condition is false for the final depth,
the number of compartments is unchanged, the depth grew by exactly 10 cm per step, and the loop
did not overshoot: if any step was taken, the condition still held 10 cm higher up. -/
theorem deepen_reaches (more : Nat → Bool) (fuel : Nat) (dz dz' : List Nat) (k k' : Nat)
    (h : deepen more fuel dz k = .ok (dz', k')) :
    more (sumNat dz') = false ∧ dz'.length = dz.length ∧ k ≤ k' ∧
      sumNat dz' = sumNat dz + 10 * (k' - k) ∧ (k < k' → more (sumNat dz' - 10) = true) := by
  induction fuel generalizing dz k with
  | zero =>
    unfold deepen at h
    by_cases hm : more (sumNat dz) = true
    · simp [hm] at h
    · simp only [hm] at h
      simp only [Bool.false_eq_true, if_false, Except.ok.injEq, Prod.mk.injEq] at h
      obtain ⟨rfl, rfl⟩ := h
      simp at hm
      simp [hm]
  | succ fuel ih =>
    unfold deepen at h
    by_cases hm : more (sumNat dz) = true
    · simp only [hm, if_true] at h
      cases hb : deepenStep dz with
      | none => simp [hb] at h
      | some dz1 =>
        simp only [hb] at h
        obtain ⟨h1, h2, h3, h4, h5⟩ := ih dz1 (k + 1) h
        obtain ⟨s1, s2⟩ := deepenStep_sum dz dz1 hb
        refine ⟨h1, by omega, by omega, ?_, ?_⟩
        · rw [h4, s1]
          have : k' - k = (k' - (k + 1)) + 1 := by omega
          rw [this]; omega
        · intro _
          by_cases hk : k + 1 < k'
          · exact h5 hk
          · have hk' : k' = k + 1 := by omega
            have : sumNat dz' - 10 = sumNat dz := by rw [h4, s1, hk']; simp
            rw [this]; exact hm
    · simp only [hm] at h
      simp only [Bool.false_eq_true, if_false, Except.ok.injEq, Prod.mk.injEq] at h
      obtain ⟨rfl, rfl⟩ := h
      simp at hm
      simp [hm]

/-- **deepen_terminates** (replaces the former `deepen_terminates_iff`): on a non-empty profile the
loop always ends, provided the loop condition is false from some depth `T` on (true of
`zSoil < Zmax + 0.1` for every finite `Zmax`) and the fuel covers the distance:
`T ≤ zSoil + 10·fuel`.  In particular the model never returns `E:fuel`/`E:index` then. -/
theorem deepen_terminates (more : Nat → Bool) (T : Nat) (hT : ∀ c, T ≤ c → more c = false)
    (fuel : Nat) (dz : List Nat) (k : Nat) (hne : dz ≠ [])
    (hf : T ≤ sumNat dz + 10 * fuel) :
    ∃ dz' k', deepen more fuel dz k = .ok (dz', k') := by
  induction fuel generalizing dz k with
  | zero =>
    unfold deepen
    have : more (sumNat dz) = false := hT _ (by omega)
    simp [this]
  | succ fuel ih =>
    unfold deepen
    by_cases hm : more (sumNat dz) = true
    · simp only [hm, if_true]
      obtain ⟨dz1, h1⟩ := deepenStep_isSome dz hne
      obtain ⟨s1, s2⟩ := deepenStep_sum dz dz1 h1
      simp only [h1]
      apply ih dz1 (k + 1)
      · intro hnil; rw [hnil] at s2; simp at s2; exact hne (List.eq_nil_of_length_eq_zero s2.symm)
      · omega
    · simp [hm]

section
variable {α : Type} [Field α] [LinearOrder α] [IsStrictOrderedRing α]

/-- over an ordered field, with `Zmax` a whole number of centimetres, the loop condition
`zSoil < Zmax + 0.1` is the comparison `zSoil[cm] < Zmax[cm] + 10`.  (In binary floating point
this fails for `Zmax = 1.3` and `1.8`: `1.3 + 0.1 > 1.4`, see the report.) -/
theorem moreOf_exact (zmaxCm c : Nat) :
    moreOf (cmToM zmaxCm : α) c = true ↔ c < zmaxCm + 10 := by
  unfold moreOf cmToM
  simp only [decide_eq_true_eq]
  rw [show ((zmaxCm : α) / 100 + 0.1) = ((zmaxCm + 10 : Nat) : α) / 100 by push_cast; norm_num; ring]
  rw [div_lt_div_iff_of_pos_right (by norm_num : (0 : α) < 100)]
  exact Nat.cast_lt

/-- **deepen_reaches**: when the deepening succeeds the profile ends at least 10 cm below the
crop's maximum rooting depth. -/
theorem deepen_reaches_cm (zmaxCm fuel : Nat) (dz dz' : List Nat) (k k' : Nat)
    (h : deepen (moreOf (cmToM zmaxCm : α)) fuel dz k = .ok (dz', k')) :
    zmaxCm + 10 ≤ sumNat dz' := by
  have := (deepen_reaches _ fuel dz dz' k k' h).1
  have h2 := (moreOf_exact (α := α) zmaxCm (sumNat dz')).not
  simp only [this, Bool.false_eq_true, not_false_eq_true, true_iff] at h2
  omega

/-- **deepen_terminates** in centimetres: for `Zmax` a whole number of centimetres the loop ends
whenever `Zmax + 10 ≤ zSoil + 10·fuel`; the final profile ends at least 10 cm and less than 20 cm
below `Zmax` when it had to be deepened. -/
theorem deepen_terminates_cm (zmaxCm fuel : Nat) (dz : List Nat) (k : Nat) (hne : dz ≠ [])
    (hf : zmaxCm + 10 ≤ sumNat dz + 10 * fuel) :
    ∃ dz' k', deepen (moreOf (cmToM zmaxCm : α)) fuel dz k = .ok (dz', k') ∧
      zmaxCm + 10 ≤ sumNat dz' ∧ (k < k' → sumNat dz' < zmaxCm + 20) := by
  obtain ⟨dz', k', h⟩ := deepen_terminates (moreOf (cmToM zmaxCm : α)) (zmaxCm + 10)
    (fun c hc => by
      have := (moreOf_exact (α := α) zmaxCm c).not
      simp only [Bool.not_eq_true] at this
      exact this.mpr (by omega)) fuel dz k hne hf
  refine ⟨dz', k', h, deepen_reaches_cm zmaxCm fuel dz dz' k k' h, ?_⟩
  intro hk
  have h5 := (deepen_reaches _ fuel dz dz' k k' h).2.2.2.2 hk
  have := (moreOf_exact (α := α) zmaxCm (sumNat dz' - 10)).mp h5
  omega

/-- non-vacuity: the default profile (12 × 10 cm) under a crop rooting to 2.3 m is deepened in 12
steps to 2.4 m. -/
example : deepen (fun c => decide (c < 230 + 10)) 28 (List.replicate 12 10) 0 =
    .ok ([10, 10, 10, 10, 10, 10, 30, 30, 30, 30, 30, 30], 12) := by rfl
/-- the `else:` branch: 4 × 30 cm under the same crop — the bottom compartment grows to 150 cm
(before repo commit b09df61 this input never left the loop). -/
example : deepen (fun c => decide (c < 230 + 10)) 28 [30, 30, 30, 30] 0 =
    .ok ([30, 30, 30, 150], 12) := by rfl

end

/-! ## 4. Layer assignment -/

/-- layer numbers climbing from `j` to `k` in steps of 0 or +1 (`j` itself may be repeated only
when `j ≥ 1`).  `Stair 0 k L`: `L` starts at 1, is non-decreasing, has no gaps and ends at `k`. -/
inductive Stair : Nat → Nat → List Nat → Prop
  | nil (j : Nat) : Stair j j []
  | same {j k : Nat} {L : List Nat} : 1 ≤ j → Stair j k L → Stair j k (j :: L)
  | next {j k : Nat} {L : List Nat} : Stair (j + 1) k L → Stair j k ((j + 1) :: L)

theorem Stair.le {j k : Nat} {L : List Nat} (h : Stair j k L) : j ≤ k := by
  induction h with
  | nil => exact Nat.le_refl _
  | same _ _ ih => exact ih
  | next _ ih => omega

theorem Stair.mem {j k : Nat} {L : List Nat} (h : Stair j k L) : ∀ x ∈ L, j ≤ x ∧ x ≤ k ∧ 1 ≤ x := by
  induction h with
  | nil => simp
  | same h1 h2 ih =>
    intro x hx
    simp only [List.mem_cons] at hx
    rcases hx with rfl | hx
    · exact ⟨Nat.le_refl _, h2.le, h1⟩
    · exact ih x hx
  | next h2 ih =>
    intro x hx
    simp only [List.mem_cons] at hx
    rcases hx with rfl | hx
    · exact ⟨by omega, h2.le, by omega⟩
    · have := ih x hx; omega

/-- what `Stair 0 k L` means elementwise: first element 1, consecutive elements equal or +1,
last element `k`. -/
theorem Stair.head {k : Nat} {x : Nat} {L : List Nat} (h : Stair 0 k (x :: L)) : x = 1 := by
  cases h with
  | same h1 _ => omega
  | next _ => rfl

theorem Stair.chain {j k : Nat} {L : List Nat} (h : Stair j k L) :
    List.IsChain (fun a b => b = a ∨ b = a + 1) (j :: L) := by
  induction h with
  | nil => simp
  | same h1 h2 ih => exact List.IsChain.cons_cons (Or.inl rfl) ih
  | next h2 ih => exact List.IsChain.cons_cons (Or.inr rfl) ih

theorem Stair.getLast {j k : Nat} {L : List Nat} (h : Stair j k L) : (j :: L).getLast (by simp) = k := by
  induction h with
  | nil => simp
  | same h1 h2 ih => simpa using ih
  | next h2 ih => simpa using ih

theorem dedup_cons (y : Nat) (ys : List Nat) :
    dedup (y :: ys) = if y ∈ dedup ys then dedup ys else y :: dedup ys := by
  simp [dedup]

theorem mem_dedup (x : Nat) (L : List Nat) : x ∈ dedup L ↔ x ∈ L := by
  induction L generalizing x with
  | nil => simp [dedup]
  | cons y ys ih =>
    rw [dedup_cons]
    by_cases hc : y ∈ dedup ys
    · simp only [hc, if_true, List.mem_cons, ih]
      have : y ∈ ys := (ih y).mp hc
      constructor
      · intro h; exact Or.inr h
      · rintro (rfl | h)
        · exact this
        · exact h
    · simp only [hc, if_false, List.mem_cons, ih]

theorem Stair.dedup_length {j k : Nat} {L : List Nat} (h : Stair j k L) :
    (dedup L).length = k - j + (if j ∈ L then 1 else 0) := by
  induction h with
  | nil => simp [dedup]
  | @same j k L h1 h2 ih =>
    have hle := h2.le
    rw [dedup_cons]
    simp only [List.mem_cons, true_or, if_true]
    by_cases hj : j ∈ L
    · have hm : j ∈ dedup L := (mem_dedup j L).mpr hj
      simp only [hm, if_true, ih, hj]
    · have hm : ¬ (j ∈ dedup L) := fun h => hj ((mem_dedup j L).mp h)
      simp only [hm, if_false, List.length_cons, ih, hj]
  | @next j k L h2 ih =>
    have hle := h2.le
    have hnot : ¬ (j = j + 1 ∨ j ∈ L) := by
      rintro (h | h)
      · omega
      · have := (h2.mem j h).1; omega
    rw [dedup_cons]
    simp only [List.mem_cons, hnot, if_false]
    by_cases hj : (j + 1) ∈ L
    · have hm : (j + 1) ∈ dedup L := (mem_dedup (j + 1) L).mpr hj
      simp only [hm, if_true, ih, hj]; omega
    · have hm : ¬ ((j + 1) ∈ dedup L) := fun h => hj ((mem_dedup (j + 1) L).mp h)
      simp only [hm, if_false, List.length_cons, ih, hj]; omega

/-- the layer numbers present in the column -/
def nums (col : List Asg) : List Nat := col.filterMap (fun a => a.map Prod.fst)

/-- invariant of the `Layer` column while layers are being added: an assigned prefix whose layer
numbers climb `j+1 … k` without gaps, followed by unassigned (`NaN`) rows only. -/
inductive Good : Nat → Nat → List Asg → Prop
  | nones (j n : Nat) : Good j j (List.replicate n none)
  | same {j k c : Nat} {rest : List Asg} : 1 ≤ j → Good j k rest → Good j k (some (j, c) :: rest)
  | next {j k c : Nat} {rest : List Asg} : Good (j + 1) k rest → Good j k (some (j + 1, c) :: rest)

theorem Good.stair {j k : Nat} {col : List Asg} (h : Good j k col) : Stair j k (nums col) := by
  induction h with
  | nones j n =>
    have : nums (List.replicate n (none : Asg)) = [] := by
      induction n with
      | zero => rfl
      | succ n ih => simp [nums, List.replicate_succ]
    rw [this]; exact Stair.nil j
  | same h1 _ ih => simpa [nums] using Stair.same h1 ih
  | next _ ih => simpa [nums] using Stair.next ih

theorem Good.numAssigned {k : Nat} {col : List Asg} (h : Good 0 k col) : numAssigned col = k := by
  have hs := h.stair
  have := hs.dedup_length
  have h0 : ¬ (0 ∈ nums col) := fun h0 => by have := (hs.mem 0 h0).2.2; omega
  simp only [h0, if_false] at this
  simpa [Aqua.numAssigned, nums] using this

theorem Good.zero_zero {col : List Asg} (h : Good 0 0 col) : col = List.replicate col.length none := by
  cases h with
  | nones j n => simp
  | same h1 _ => omega
  | next h2 => have := h2.stair.le; omega

theorem Good.exists_top {j k : Nat} {col : List Asg} (h : Good j k col) (hjk : j < k) :
    ∃ c, some (k, c) ∈ col := by
  induction h with
  | nones j n => omega
  | same h1 h2 ih => obtain ⟨c, hc⟩ := ih hjk; exact ⟨c, List.mem_cons_of_mem _ hc⟩
  | @next j k c rest h2 ih =>
    by_cases hk : j + 1 = k
    · subst hk; exact ⟨c, by simp⟩
    · obtain ⟨c', hc⟩ := ih (by have := h2.stair.le; omega); exact ⟨c', List.mem_cons_of_mem _ hc⟩

theorem lastOf_isSome (k : Nat) (col : List Asg) (ss : List Nat) (hl : col.length = ss.length)
    (h : ∃ c, some (k, c) ∈ col) : ∃ r, lastOf k col ss = some r := by
  induction col generalizing ss with
  | nil => simp at h
  | cons a as ih =>
    cases ss with
    | nil => simp at hl
    | cons s ss =>
      simp only [lastOf]
      cases hr : lastOf k as ss with
      | some r => exact ⟨r, rfl⟩
      | none =>
        obtain ⟨c, hc⟩ := h
        simp only [List.mem_cons] at hc
        rcases hc with rfl | hc
        · exact ⟨s, by simp⟩
        · obtain ⟨r, hr'⟩ := ih ss (by simpa using hl) ⟨c, hc⟩
          rw [hr] at hr'; cases hr'

/-- non-decreasing list (compartment bottoms) -/
def Mono : List Nat → Prop
  | [] => True
  | [_] => True
  | a :: b :: rest => a ≤ b ∧ Mono (b :: rest)

theorem Mono.tail {a : Nat} {l : List Nat} (h : Mono (a :: l)) : Mono l := by
  cases l with
  | nil => trivial
  | cons b rest => exact h.2

theorem Mono.head_le {a : Nat} {l : List Nat} (h : Mono (a :: l)) : ∀ x ∈ l, a ≤ x := by
  induction l generalizing a with
  | nil => simp
  | cons b rest ih =>
    intro x hx
    simp only [List.mem_cons] at hx
    rcases hx with rfl | hx
    · exact h.1
    · exact Nat.le_trans h.1 (ih h.2 x hx)

theorem prefixSums_mono (acc : Nat) (dz : List Nat) : Mono (prefixSums acc dz) := by
  induction dz generalizing acc with
  | nil => trivial
  | cons d ds ih =>
    cases ds with
    | nil => trivial
    | cons e es => exact ⟨by omega, ih (acc + d)⟩

/-- `p` is antitone: true at a deeper bottom ⇒ true at a shallower one -/
def Anti (p : Nat → Bool) : Prop := ∀ s s', s ≤ s' → p s' = true → p s = true

theorem zip_nones_false (p : Nat → Bool) (x : Nat × Nat) (ss : List Nat)
    (hp : ∀ s ∈ ss, p s = false) (n : Nat) :
    zipAsg (fun s a => if p s && a.isNone then some x else a) ss (List.replicate n none) =
      List.replicate (min ss.length n) none := by
  induction ss generalizing n with
  | nil => simp [zipAsg]
  | cons s ss ih =>
    cases n with
    | zero => simp [zipAsg]
    | succ n =>
      simp only [List.replicate_succ, zipAsg, hp s (by simp)]
      rw [ih (fun s' hs' => hp s' (List.mem_cons_of_mem _ hs'))]
      simp [List.replicate_succ, Nat.succ_min_succ]

/-- filling unassigned rows with an antitone test over non-decreasing bottoms captures a prefix. -/
theorem zip_nones (p : Nat → Bool) (hp : Anti p) (x : Nat × Nat) (ss : List Nat) (hs : Mono ss)
    (n : Nat) (hl : ss.length = n) :
    ∃ a b, a + b = n ∧
      zipAsg (fun s a => if p s && a.isNone then some x else a) ss (List.replicate n none) =
        List.replicate a (some x) ++ List.replicate b none := by
  induction ss generalizing n with
  | nil => subst hl; exact ⟨0, 0, rfl, by simp [zipAsg]⟩
  | cons s ss ih =>
    cases n with
    | zero => simp at hl
    | succ n =>
      have hl' : ss.length = n := by simpa using hl
      by_cases hps : p s = true
      · obtain ⟨a, b, hab, h⟩ := ih hs.tail n hl'
        refine ⟨a + 1, b, by omega, ?_⟩
        simp only [List.replicate_succ, zipAsg, hps, Option.isNone_none, Bool.and_self, if_true, h]
        simp [List.replicate_succ]
      · have hall : ∀ s' ∈ ss, p s' = false := by
          intro s' hs'
          by_contra hc
          exact hps (hp s s' (hs.head_le s' hs') (by simpa using hc))
        refine ⟨0, n + 1, by omega, ?_⟩
        have hps' : p s = false := by simpa using hps
        simp only [List.replicate_succ, zipAsg, hps', Bool.false_and, Bool.false_eq_true, if_false]
        rw [zip_nones_false p x ss hall n]
        simp [hl', List.replicate_succ]

theorem good_block (j : Nat) (c a b : Nat) (hj : 1 ≤ j) :
    Good j j (List.replicate a (some (j, c)) ++ List.replicate b none) := by
  induction a with
  | zero => simpa using Good.nones j b
  | succ a ih => simpa [List.replicate_succ] using Good.same hj ih

theorem zipAsg_length (f : Nat → Asg → Asg) (ss : List Nat) (col : List Asg)
    (hl : col.length = ss.length) : (zipAsg f ss col).length = ss.length := by
  induction ss generalizing col with
  | nil => cases col <;> simp_all [zipAsg]
  | cons s ss ih =>
    cases col with
    | nil => simp at hl
    | cons a as => simp [zipAsg, ih as (by simpa using hl)]

/-- a later `add_layer` call: the assigned prefix is untouched, the test is applied to the
unassigned tail. -/
theorem zip_good (p : Nat → Bool) (hp : Anti p) (k call : Nat) :
    ∀ (j : Nat) (col : List Asg) (ss : List Nat), Mono ss → col.length = ss.length → Good j k col →
      Good j k (zipAsg (fun s a => if p s && a.isNone then some (k + 1, call) else a) ss col) ∨
      Good j (k + 1) (zipAsg (fun s a => if p s && a.isNone then some (k + 1, call) else a) ss col) := by
  intro j col ss hs hl hg
  induction hg generalizing ss with
  | nones j n =>
    have hl' : ss.length = n := by simpa using hl.symm
    obtain ⟨a, b, hab, h⟩ := zip_nones p hp (j + 1, call) ss hs n hl'
    rw [h]
    cases a with
    | zero => left; simpa using Good.nones j b
    | succ a =>
      right
      simpa [List.replicate_succ] using Good.next (c := call) (good_block (j + 1) call a b (by omega))
  | @same j k c rest h1 h2 ih =>
    cases ss with
    | nil => simp at hl
    | cons s ss =>
      simp only [zipAsg, Option.isNone_some, Bool.and_false, Bool.false_eq_true, if_false]
      rcases ih ss hs.tail (by simpa using hl) with h | h
      · exact Or.inl (Good.same h1 h)
      · exact Or.inr (Good.same h1 h)
  | @next j k c rest h2 ih =>
    cases ss with
    | nil => simp at hl
    | cons s ss =>
      simp only [zipAsg, Option.isNone_some, Bool.and_false, Bool.false_eq_true, if_false]
      rcases ih ss hs.tail (by simpa using hl) with h | h
      · exact Or.inl (Good.next h)
      · exact Or.inr (Good.next h)

/-- the first `add_layer` call on an all-`NaN` column. -/
theorem zip_first (p : Nat → Bool) (hp : Anti p) (call : Nat) (ss : List Nat) (hs : Mono ss) (n : Nat)
    (hl : ss.length = n) :
    Good 0 0 (zipAsg (fun s a => if p s then some (1, call) else a) ss (List.replicate n none)) ∨
    Good 0 1 (zipAsg (fun s a => if p s then some (1, call) else a) ss (List.replicate n none)) := by
  have he : zipAsg (fun s a => if p s then some (1, call) else a) ss (List.replicate n none) =
      zipAsg (fun s a => if p s && a.isNone then some (0 + 1, call) else a) ss (List.replicate n none) := by
    clear hs hl
    induction ss generalizing n with
    | nil => simp [zipAsg]
    | cons s ss ih =>
      cases n with
      | zero => simp [zipAsg]
      | succ n => simp [List.replicate_succ, zipAsg, ih n]
  rw [he]
  exact zip_good p hp 0 call 0 _ ss hs (by simp [hl]) (Good.nones 0 n)

/-- one `add_layer` call keeps the invariant and raises the number of layers by at most one. -/
theorem addLayer_good {τ : Type} (ge1 : τ → Nat → Bool) (ge2 : τ → Nat → Nat → Bool)
    (h1 : ∀ t, Anti (ge1 t)) (h2 : ∀ t l, Anti (ge2 t l))
    (ss : List Nat) (hs : Mono ss) (col : List Asg) (hl : col.length = ss.length) (k call : Nat)
    (t : τ) (hg : Good 0 k col) :
    ∃ col', addLayer ge1 ge2 ss col call t = .ok col' ∧ col'.length = ss.length ∧
      (Good 0 k col' ∨ Good 0 (k + 1) col') := by
  unfold addLayer
  simp only [hg.numAssigned]
  by_cases hk : k = 0
  · subst hk
    simp only [Nat.zero_add, if_true]
    refine ⟨_, rfl, zipAsg_length _ ss col hl, ?_⟩
    rw [hg.zero_zero]
    exact zip_first (ge1 t) (h1 t) call ss hs col.length hl.symm
  · have hk' : ¬ (k + 1 = 1) := by omega
    simp only [hk', if_false, Nat.add_sub_cancel]
    obtain ⟨r, hr⟩ := lastOf_isSome k col ss hl (hg.exists_top (by omega))
    simp only [hr]
    exact ⟨_, rfl, zipAsg_length _ ss col hl, zip_good (ge2 t r) (h2 t r) k call 0 col ss hs hl hg⟩

theorem addLayers_good {τ : Type} (ge1 : τ → Nat → Bool) (ge2 : τ → Nat → Nat → Bool)
    (h1 : ∀ t, Anti (ge1 t)) (h2 : ∀ t l, Anti (ge2 t l))
    (ss : List Nat) (hs : Mono ss) (ts : List τ) :
    ∀ (col : List Asg) (k call : Nat), col.length = ss.length → Good 0 k col →
      ∃ col' k', addLayers ge1 ge2 ss col call ts = .ok col' ∧ col'.length = ss.length ∧
        Good 0 k' col' := by
  induction ts with
  | nil => intro col k call hl hg; exact ⟨col, k, rfl, hl, hg⟩
  | cons t ts ih =>
    intro col k call hl hg
    obtain ⟨col1, e1, l1, g1⟩ := addLayer_good ge1 ge2 h1 h2 ss hs col hl k call t hg
    simp only [addLayers, e1]
    rcases g1 with g | g
    · exact ih col1 k (call + 1) l1 g
    · exact ih col1 (k + 1) (call + 1) l1 g

/-- forward fill + `astype(int)` on a good column: the result is a staircase, or the error
`E:nanlayer` when nothing was assigned. -/
theorem ffill_good {j k : Nat} {col : List Asg} (hg : Good j k col) (prev : Nat × Nat)
    (hprev : prev.1 = j) (hj : 1 ≤ j) :
    ∃ r, allSome (ffillFrom (some prev) col) = .ok r ∧ r.length = col.length ∧
      Stair j k (r.map Prod.fst) := by
  induction hg generalizing prev with
  | nones j n =>
    induction n with
    | zero => exact ⟨[], rfl, rfl, Stair.nil j⟩
    | succ n ih =>
      obtain ⟨r, h1, h2, h3⟩ := ih
      refine ⟨prev :: r, ?_, by simp [h2], ?_⟩
      · simp only [List.replicate_succ, ffillFrom, allSome, h1]
      · simpa [hprev] using Stair.same hj h3
  | @same j k c rest h1 h2 ih =>
    obtain ⟨r, e1, e2, e3⟩ := ih (j, c) rfl hj
    exact ⟨(j, c) :: r, by simp only [ffillFrom, allSome, e1], by simp [e2], by simpa using Stair.same h1 e3⟩
  | @next j k c rest h2 ih =>
    obtain ⟨r, e1, e2, e3⟩ := ih (j + 1, c) rfl (by omega)
    exact ⟨(j + 1, c) :: r, by simp only [ffillFrom, allSome, e1], by simp [e2], by simpa using Stair.next e3⟩

theorem ffill_good0 {k : Nat} {col : List Asg} (hg : Good 0 k col) (r : List (Nat × Nat))
    (h : allSome (ffillFrom none col) = .ok r) :
    r.length = col.length ∧ Stair 0 k (r.map Prod.fst) := by
  cases hg with
  | nones j n =>
    cases n with
    | zero => simp [ffillFrom, allSome] at h; subst h; exact ⟨rfl, Stair.nil 0⟩
    | succ n => simp [List.replicate_succ, ffillFrom, allSome] at h
  | same h1 _ => omega
  | @next j k c rest h2 =>
    obtain ⟨r', e1, e2, e3⟩ := ffill_good h2 (1, c) rfl (by omega)
    simp only [ffillFrom, allSome] at h
    rw [e1] at h
    simp only [Except.ok.injEq] at h
    subst h
    exact ⟨by simp [e2], by simpa using Stair.next e3⟩

/-- **layers_contiguous** (general comparisons): for non-decreasing compartment bottoms and
comparisons that are antitone in the bottom (true for the exact comparison and for the float
comparison `t + last ≥ fl(s/100)`), whenever the builder succeeds every compartment carries a
layer number, and the numbers form a staircase `1,…,1,2,…,2,…,k`. -/
theorem layers_contiguous_general {τ : Type} (ge1 : τ → Nat → Bool) (ge2 : τ → Nat → Nat → Bool)
    (h1 : ∀ t, Anti (ge1 t)) (h2 : ∀ t l, Anti (ge2 t l))
    (ss : List Nat) (hs : Mono ss) (ts : List τ) (r : List (Nat × Nat))
    (h : assignLayersG ge1 ge2 ss ts = .ok r) :
    r.length = ss.length ∧ ∃ k, Stair 0 k (r.map Prod.fst) := by
  unfold assignLayersG at h
  have hn : (ss.map (fun _ => (none : Asg))) = List.replicate ss.length none := by
    induction ss with
    | nil => rfl
    | cons s ss ih => simp [List.replicate_succ]
  obtain ⟨col', k', e, l, g⟩ := addLayers_good ge1 ge2 h1 h2 ss hs ts (ss.map (fun _ => none)) 0 0
    (by simp) (by rw [hn]; exact Good.nones 0 _)
  rw [e] at h
  simp only [] at h
  obtain ⟨a, b⟩ := ffill_good0 g r h
  exact ⟨by omega, k', b⟩

theorem natGe1_anti (t : Nat) : Anti (natGe1 t) := by
  intro s s' hss h; simp only [natGe1, decide_eq_true_eq] at *; omega
theorem natGe2_anti (t l : Nat) : Anti (natGe2 t l) := by
  intro s s' hss h; simp only [natGe2, decide_eq_true_eq] at *; omega

/-- **layers_contiguous**: on the geometry built from any list of thicknesses, whenever
`assignLayers` succeeds every compartment has a layer, the first compartment is in layer 1, and
going down the layer number stays or rises by one (no gaps): layers are contiguous from the
surface and cover all compartments. -/
theorem layers_contiguous (dz thick : List Nat) (ls : List Nat)
    (h : assignLayers ((buildGeometry dz).map (·.dzsum)) thick = .ok ls) :
    ls.length = dz.length ∧ ∃ k, Stair 0 k ls := by
  unfold assignLayers at h
  cases hr : assignLayersG natGe1 natGe2 ((buildGeometry dz).map (·.dzsum)) thick with
  | error e => rw [hr] at h; cases h
  | ok r =>
    rw [hr] at h
    simp only [Except.ok.injEq] at h
    subst h
    have hm : Mono ((buildGeometry dz).map (·.dzsum)) := by
      simp only [buildGeometry]; rw [buildGeoFrom_dzsum]; exact prefixSums_mono 0 dz
    obtain ⟨a, k, b⟩ := layers_contiguous_general natGe1 natGe2 natGe1_anti natGe2_anti _ hm thick r hr
    exact ⟨by simpa [buildGeometry, buildGeoFrom_length] using a, k, b⟩

/-- elementwise reading of the staircase -/
theorem layers_contiguous_elementwise (dz thick : List Nat) (ls : List Nat)
    (h : assignLayers ((buildGeometry dz).map (·.dzsum)) thick = .ok ls) :
    ls.length = dz.length ∧ (∀ x ∈ ls.head?, x = 1) ∧
      List.IsChain (fun a b => b = a ∨ b = a + 1) ls := by
  obtain ⟨h1, k, hk⟩ := layers_contiguous dz thick ls h
  refine ⟨h1, ?_, ?_⟩
  · intro x hx
    cases ls with
    | nil => simp at hx
    | cons y ys => simp at hx; subst hx; exact hk.head
  · have := hk.chain
    cases ls with
    | nil => simp
    | cons y ys => exact (List.isChain_cons_cons.mp this).2

/-- non-vacuity: the `ac_TunisLocal` soil (layers of 30 cm and 170 cm on its 12 compartments). -/
example : assignLayers ((buildGeometry [10,10,10,10,10,10,15,15,15,15,15,20]).map (·.dzsum)) [30, 170]
    = .ok [1,1,1,2,2,2,2,2,2,2,2,2] := by rfl
/-- a layer that captures no compartment does not consume a number (second call, 5 cm). -/
example : assignLayers ((buildGeometry [10,10,10,10]).map (·.dzsum)) [20, 5, 100]
    = .ok [1,1,2,2] := by rfl
/-- nothing assigned at the top: `astype(int)` raises. -/
example : assignLayers ((buildGeometry [10,10]).map (·.dzsum)) [5] = .error "E:nanlayer" := by rfl

/-! ## 5. Deepening never changes layers or hydraulic values; the built-in soils -/

section
variable {α : Type} [Field α] [LinearOrder α] [IsStrictOrderedRing α]

/-- compartment `c` carries layer number `lk.1` and exactly the hydraulic values of the
`add_layer` call number `lk.2`. -/
def CompOf {τ : Type} (F : Fn α) (specs : List (LayerSpec α τ)) (c : Comp α) (lk : Nat × Nat) : Prop :=
  c.layer = lk.1 ∧ ∃ sp, nthSpec specs lk.2 = some sp ∧ c.thWP = sp.wp ∧ c.thFC = sp.fc ∧
    c.thS = sp.s ∧ c.ksat = sp.ksat ∧ c.pen = sp.pen ∧ c.thDry = sp.wp / 2 ∧ c.tau = tauOf F sp.ksat

def HydMatch {τ : Type} (F : Fn α) (specs : List (LayerSpec α τ)) :
    List (Comp α) → List (Nat × Nat) → Prop
  | [], _ => True
  | c :: cs, lk :: ls => CompOf F specs c lk ∧ HydMatch F specs cs ls
  | _ :: _, [] => False

theorem mkComps_match {τ : Type} (F : Fn α) (specs : List (LayerSpec α τ)) (geo : List GComp)
    (lay : List (Nat × Nat)) (cs : List (Comp α)) (h : mkComps F specs geo lay = .ok cs) :
    HydMatch F specs cs lay := by
  induction geo generalizing lay cs with
  | nil =>
    simp only [mkComps, Except.ok.injEq] at h
    subst h; trivial
  | cons g gs ih =>
    cases lay with
    | nil => simp only [mkComps, Except.ok.injEq] at h; subst h; trivial
    | cons lk ls =>
      obtain ⟨l, k⟩ := lk
      simp only [mkComps] at h
      cases hs : nthSpec specs k with
      | none => simp [hs] at h
      | some sp =>
        simp only [hs] at h
        cases hr : mkComps F specs gs ls with
        | error e => simp [hr] at h
        | ok r =>
          simp only [hr, Except.ok.injEq] at h
          subst h
          exact ⟨⟨rfl, sp, hs, rfl, rfl, rfl, rfl, rfl, rfl, rfl⟩, ih ls r hr⟩

theorem addCR_match {τ : Type} (F : Fn α) (specs : List (LayerSpec α τ)) (all cs cs' : List (Comp α))
    (lay : List (Nat × Nat)) (h : addCR F all cs = some cs') (hm : HydMatch F specs cs lay) :
    HydMatch F specs cs' lay := by
  induction cs generalizing lay cs' with
  | nil => simp only [addCR, Option.some.injEq] at h; subst h; trivial
  | cons c cs ih =>
    cases lay with
    | nil => exact hm.elim
    | cons lk ls =>
      simp only [addCR] at h
      split at h
      · cases h
      · split at h
        · cases h
        · rename_i r hr
          simp only [Option.some.injEq] at h
          subst h
          exact ⟨hm.1, ih r ls hr hm.2⟩

/-- **deepen_keeps_layers**: in every profile the builder returns, the layer number and the
hydraulic values (θ_wp, θ_fc, θ_s, K_sat, penetrability, θ_dry = θ_wp/2, τ) of each compartment are
those assigned on the **initial** geometry (`buildGeometry dz`) — the deepening loop (`more`, i.e.
the crop's rooting depth) only changes `dz`/`dzsum`. -/
theorem deepen_keeps_layers {τ : Type} (F : Fn α) (ge1 : τ → Nat → Bool) (ge2 : τ → Nat → Nat → Bool)
    (more : Nat → Bool) (fuel : Nat) (dz : List Nat) (specs : List (LayerSpec α τ))
    (wt adjRew calcCN : Bool) (rew zSurf cn zTopArg : α) (o : SoilOut α)
    (h : soilProfile F ge1 ge2 more fuel dz specs wt adjRew calcCN rew zSurf cn zTopArg = .ok o) :
    ∃ lay, assignLayersG ge1 ge2 ((buildGeometry dz).map (·.dzsum)) (specs.map (·.thick)) = .ok lay ∧
      o.call = lay.map Prod.snd ∧ HydMatch F specs o.comps lay := by
  unfold soilProfile at h
  split at h
  · cases h
  · rename_i d0 ds
    simp only [] at h
    split at h
    · cases h
    · rename_i lay hlay
      refine ⟨lay, hlay, ?_⟩
      split at h
      · cases h
      · rename_i dz' k hd
        split at h
        · cases h
        · rename_i comps0 hc0
          have hm0 := mkComps_match F specs _ lay comps0 hc0
          split at h
          · cases h
          · rename_i comps hcomps
            have hm : HydMatch F specs comps lay := by
              by_cases hw : wt = true
              · simp only [hw, if_true] at hcomps
                exact addCR_match F specs comps0 comps0 comps lay hcomps hm0
              · simp only [hw, Bool.false_eq_true, if_false, Option.some.injEq] at hcomps
                subst hcomps; exact hm0
            split at h
            · cases h
            · split at h
              · cases h
              · simp only [Except.ok.injEq] at h
                subst h
                exact ⟨rfl, hm⟩

/-- the geometry part: after a successful build the profile ends below `Zmax + 10 cm`, has as many
compartments as given, `dzsum` is the running sum of the final `dz`, and `zBot`/`z_top` are still
those of the initial geometry. -/
theorem soilProfile_geometry {τ : Type} (F : Fn α) (ge1 : τ → Nat → Bool) (ge2 : τ → Nat → Nat → Bool)
    (more : Nat → Bool) (fuel : Nat) (dz : List Nat) (specs : List (LayerSpec α τ))
    (wt adjRew calcCN : Bool) (rew zSurf cn zTopArg : α) (o : SoilOut α)
    (h : soilProfile F ge1 ge2 more fuel dz specs wt adjRew calcCN rew zSurf cn zTopArg = .ok o) :
    more o.zSoil = false ∧ o.geo.length = dz.length ∧
      o.geo.map (·.dzsum) = prefixSums 0 (o.geo.map (·.dz)) ∧
      o.zSoil = sumNat (o.geo.map (·.dz)) ∧ o.zSoil = sumNat dz + 10 * o.steps ∧
      o.geo.map (fun g => (g.zBot, g.zTop)) = (buildGeometry dz).map (fun g => (g.zBot, g.zTop)) := by
  unfold soilProfile at h
  split at h
  · cases h
  · rename_i d0 ds
    simp only [] at h
    split at h
    · cases h
    · split at h
      · cases h
      · rename_i dz' k hd
        obtain ⟨r1, r2, r3, r4, _⟩ := deepen_reaches more _ _ dz' 0 k hd
        have hlen : (buildGeometry (d0 :: ds)).length = dz'.length := by
          rw [r2]; exact buildGeoFrom_length 0 _
        have hr := refreshFrom_dzsum 0 (buildGeometry (d0 :: ds)) dz' hlen
        split at h
        · cases h
        · split at h
          · cases h
          · split at h
            · cases h
            · split at h
              · cases h
              · simp only [Except.ok.injEq] at h
                subst h
                simp only []
                refine ⟨r1, ?_, ?_, ?_, ?_, ?_⟩
                · rw [refreshFrom_length 0 _ dz' hlen, r2]
                · rw [hr.1, hr.2]
                · rw [hr.2]
                · rw [r4]; simp
                · exact refreshFrom_stale 0 _ dz' hlen

end

/-- one layer of a built-in soil, values as rationals (`tau` is the value the implementation
computes: `round(0.0866·Ksat^0.35, 2)` clipped to [0,1] — `Ksat^0.35` is not algebraic). -/
structure BLayer where
  soil  : String
  layer : Nat
  dry   : ℚ
  wp    : ℚ
  fc    : ℚ
  s     : ℚ
  ksat  : ℚ
  tau   : ℚ

/-- the layers of the 15 built-in soils of `soil.py` (checked against the implementation by
`harness/tests/corr_soil_build.py`, to be regenerated by the table translator). -/
def builtinLayers : List BLayer := [
  ⟨"Clay", 1, 39/200, 39/100, 27/50, 11/20, 35, 3/10⟩,
  ⟨"ClayLoam", 1, 23/200, 23/100, 39/100, 1/2, 125, 47/100⟩,
  ⟨"Default", 1, 1/20, 1/10, 3/10, 1/2, 500, 19/25⟩,
  ⟨"Loam", 1, 3/40, 3/20, 31/100, 23/50, 500, 19/25⟩,
  ⟨"LoamySand", 1, 1/25, 2/25, 4/25, 19/50, 2200, 1⟩,
  ⟨"Sand", 1, 3/100, 3/50, 13/100, 9/25, 3000, 1⟩,
  ⟨"SandyClay", 1, 27/200, 27/100, 39/100, 1/2, 35, 3/10⟩,
  ⟨"SandyClayLoam", 1, 1/10, 1/5, 8/25, 47/100, 225, 29/50⟩,
  ⟨"SandyLoam", 1, 1/20, 1/10, 11/50, 41/100, 1200, 1⟩,
  ⟨"Silt", 1, 9/200, 9/100, 33/100, 43/100, 500, 19/25⟩,
  ⟨"SiltClayLoam", 1, 23/200, 23/100, 11/25, 13/25, 150, 1/2⟩,
  ⟨"SiltLoam", 1, 13/200, 13/100, 33/100, 23/50, 575, 4/5⟩,
  ⟨"SiltClay", 1, 4/25, 8/25, 1/2, 27/50, 100, 43/100⟩,
  ⟨"Paddy", 1, 4/25, 8/25, 1/2, 27/50, 15, 11/50⟩,
  ⟨"Paddy", 2, 39/200, 39/100, 27/50, 11/20, 2, 11/100⟩,
  ⟨"ac_TunisLocal", 1, 3/25, 6/25, 2/5, 1/2, 155, 51/100⟩,
  ⟨"ac_TunisLocal", 2, 11/200, 11/100, 33/100, 23/50, 500, 19/25⟩
]

/-- air-dry < wilting point < field capacity ≤ saturation (< 1), drainage coefficient in [0,1],
positive conductivity, `th_dry = th_wp/2`. -/
def LayerOK (l : BLayer) : Prop :=
  0 < l.dry ∧ l.dry < l.wp ∧ l.wp < l.fc ∧ l.fc ≤ l.s ∧ l.s < 1 ∧ 0 ≤ l.tau ∧ l.tau ≤ 1 ∧
    0 < l.ksat ∧ l.dry = l.wp / 2

instance (l : BLayer) : Decidable (LayerOK l) := by unfold LayerOK; infer_instance

/-- **hydraulic_order** for the 15 built-in soils. -/
theorem hydraulic_order : ∀ l ∈ builtinLayers, LayerOK l := by
  simp only [builtinLayers, List.mem_cons, List.not_mem_nil, or_false, forall_eq_or_imp, forall_eq,
    LayerOK]
  norm_num

/-! ## 6. Hydraulic ordering of custom layers -/

section
variable {α : Type} [Field α] [LinearOrder α] [IsStrictOrderedRing α]

/-- the drainage coefficient always lies in [0,1], whatever `Ksat` and whatever `pow`/`round` do
(no law of `F` is needed: the clipping alone guarantees it). -/
theorem tauOf_bounds (F : Fn α) (ksat : α) : 0 ≤ tauOf F ksat ∧ tauOf F ksat ≤ 1 := by
  unfold tauOf
  simp only []
  split_ifs with h1 h2
  · exact ⟨zero_le_one, le_refl _⟩
  · exact ⟨le_refl _, zero_le_one⟩
  · exact ⟨not_lt.mp h2, not_lt.mp h1⟩

/-- **hydraulic_order_of_spec**: a compartment inherits `θ_dry < θ_wp < θ_fc ≤ θ_s` from the
`add_layer` call that captured it, *provided the call's arguments satisfy `0 < wp < fc ≤ s`* —
`add_layer` itself validates nothing (finding: a custom soil with `wp ≥ fc` is accepted). -/
theorem hydraulic_order_of_spec {τ : Type} (F : Fn α) (specs : List (LayerSpec α τ)) (c : Comp α)
    (lk : Nat × Nat) (h : CompOf F specs c lk)
    (hspec : ∀ k sp, nthSpec specs k = some sp → 0 < sp.wp ∧ sp.wp < sp.fc ∧ sp.fc ≤ sp.s) :
    0 < c.thDry ∧ c.thDry < c.thWP ∧ c.thWP < c.thFC ∧ c.thFC ≤ c.thS ∧ 0 ≤ c.tau ∧ c.tau ≤ 1 := by
  obtain ⟨_, sp, hsp, e1, e2, e3, _, _, e6, e7⟩ := h
  obtain ⟨p1, p2, p3⟩ := hspec lk.2 sp hsp
  have ht := tauOf_bounds F sp.ksat
  rw [e1, e2, e3, e6, e7]
  refine ⟨by linarith, by linarith, p2, p3, ht.1, ht.2⟩

end

/-! ## 7. `create_soil_profile`: no capillary-rise parameters without a water table -/

section
variable {α : Type} [Field α] [LinearOrder α] [IsStrictOrderedRing α]

theorem mkComps_cr_zero {τ : Type} (F : Fn α) (specs : List (LayerSpec α τ)) (geo : List GComp)
    (lay : List (Nat × Nat)) (cs : List (Comp α)) (h : mkComps F specs geo lay = .ok cs) :
    ∀ c ∈ cs, c.aCR = 0 ∧ c.bCR = 0 := by
  induction geo generalizing lay cs with
  | nil => simp only [mkComps, Except.ok.injEq] at h; subst h; simp
  | cons g gs ih =>
    cases lay with
    | nil => simp only [mkComps, Except.ok.injEq] at h; subst h; simp
    | cons lk ls =>
      obtain ⟨l, k⟩ := lk
      simp only [mkComps] at h
      cases hs : nthSpec specs k with
      | none => simp [hs] at h
      | some sp =>
        simp only [hs] at h
        cases hr : mkComps F specs gs ls with
        | error e => simp [hr] at h
        | ok r =>
          simp only [hr, Except.ok.injEq] at h
          subst h
          intro c hc
          simp only [List.mem_cons] at hc
          rcases hc with rfl | hc
          · exact ⟨rfl, rfl⟩
          · exact ih ls r hr c hc

/-- without a water table `aCR = bCR = 0` in every compartment. -/
theorem soilProfile_noWT_cr_zero {τ : Type} (F : Fn α) (ge1 : τ → Nat → Bool)
    (ge2 : τ → Nat → Nat → Bool) (more : Nat → Bool) (fuel : Nat) (dz : List Nat)
    (specs : List (LayerSpec α τ)) (adjRew calcCN : Bool) (rew zSurf cn zTopArg : α) (o : SoilOut α)
    (h : soilProfile F ge1 ge2 more fuel dz specs false adjRew calcCN rew zSurf cn zTopArg = .ok o) :
    ∀ c ∈ o.comps, c.aCR = 0 ∧ c.bCR = 0 := by
  unfold soilProfile at h
  split at h
  · cases h
  · simp only [] at h
    split at h
    · cases h
    · split at h
      · cases h
      · split at h
        · cases h
        · rename_i comps0 hc0
          have h0 := mkComps_cr_zero F specs _ _ comps0 hc0
          simp only [Bool.false_eq_true, if_false] at h
          split at h
          · cases h
          · rename_i c0 rest
            split at h
            · cases h
            · simp only [Except.ok.injEq] at h
              subst h
              exact h0

end

end Aqua
