import AquaVerif.Proofs.CropFull
import AquaVerif.Proofs.RealInstance
import AquaVerif.Proofs.RootDevelopmentReal
import AquaVerif.Proofs.HarvestIndexReal
/-
The catalogue bridge of `Proofs/CropFull.lean` over the reals: the extra law `ExpGeomLaw`
(`exp x · (1 − x) ≤ 1` on `[0,1)`) holds for the real exponential, and the ordering premise
`HiPre.ord` of the water-stress thresholds *as used* (which involves `log10` when `ETadj = 1`)
follows from the raw catalogue premises for `ET0 ≥ 0` (`wsOrdered_real`).  Hence, at `ℝ` with the
real `exp`/`log`/`pow`, the canopy premise `CcCropPre` holds for every catalogue crop with no law
hypothesis left, and `HiPre` needs only the derived calendar values and `ET0 ≥ 0`.
-/

set_option linter.unusedSectionVars false
set_option linter.unusedVariables false
namespace Aqua
open Aqua.Response Aqua.Generated Aqua.HarvestIndexReal

/-- the real exponential satisfies `exp x ≤ 1/(1 − x)` on `[0,1)` -/
theorem expGeomLaw_real : ExpGeomLaw realFn := by
  refine ⟨fun x _ _ => ?_⟩
  show Real.exp x * (1 - x) ≤ 1
  have h1 : 1 - x ≤ Real.exp (-x) := by
    have := Real.add_one_le_exp (-x)
    linarith
  have h2 : Real.exp x * Real.exp (-x) = 1 := by rw [← Real.exp_add]; simp
  calc Real.exp x * (1 - x) ≤ Real.exp x * Real.exp (-x) :=
        mul_le_mul_of_nonneg_left h1 (Real.exp_pos x).le
    _ = 1 := h2

variable {c : CropFull} {K : CropDerived ℝ}

/-- **canopy, over ℝ**: `CC0 · exp(CGC · dt) ≤ CCx` for every time step that can occur, and the
other fields of `CcCropPre`, for every catalogue crop — no hypothesis left -/
theorem catalogue_ccCropPre_real : ∀ c ∈ cropFullTable, ∀ (K : CropDerived ℝ) (P : DayParams ℝ),
    P.cx = c.cropX K → CcCropPre realFn P :=
  fun c hc K P hP => ccCropPre_of_ok hP (catalogue_ok c hc) expOrdLaws_real expGeomLaw_real

/-- `HiPre.ord` over ℝ from the raw thresholds, for `ET0 ≥ 0` -/
theorem hiPre_ord_real (h : CropFullOK c) {et0 : ℝ} (het : 0 ≤ et0) :
    ∀ tes i, wsUp realFn (c.hikCrop (α := ℝ)).pUp (c.hikCrop (α := ℝ)).etAdj
        (c.hikCrop (α := ℝ)).beta tes et0 true i ≤
      wsLo realFn (c.hikCrop (α := ℝ)).pLo (c.hikCrop (α := ℝ)).etAdj et0 i := by
  obtain ⟨s1, s2, _, s4, s5⟩ := hikCrop_thresholds (α := ℝ) h
  intro tes
  exact wsOrdered_real _ _ _ _ tes et0 true s1 s2 het s4 s5

/-- **harvest index, over ℝ**: `HiPre` for a catalogue crop other than SugarCane (`LeafyOK`), from
the derived calendar / build-up values and `ET0 ≥ 0` (real `sin`, `exp`, `pow`) -/
theorem hiPre_real {P : DayParams ℝ} {D : DayIn' ℝ}
    (hP : P.cx = c.cropX K) (h : CropFullOK c) (hl : CropFull.LeafyOK c)
    (hgc : 0 ≤ K.hiGC) (hlin : 0 ≤ K.dHILinear) (h1 : K.hiStartCD ≤ K.canopyDevEndCD)
    (h2 : 0 ≤ K.yldFormCD) (het : 0 ≤ D.et0) : HiPre realFn realTrig P D :=
  hiPre_of_ok hP h hl expOrdLaws_real sinLaw_real powNonneg_real hgc hlin h1 h2 (hiPre_ord_real h het)

/-- **roots, over ℝ**: `RootPre` for every catalogue crop from the soil premises alone -/
theorem rootPre_real {P : DayParams ℝ} {cells : List (Cell ℝ)} (hP : P.cx = c.cropX K)
    (h : CropFullOK c)
    (hcells : ∀ x ∈ cells, 0 < x.c.dz ∧ 0 ≤ x.c.pen ∧ x.c.pen ≤ 100 ∧ x.c.thWP < x.c.thFC) :
    RootPre realFn P cells :=
  rootPre_of_ok hP h powLaws_real expOrdLaws_real (skipOK_real _) hcells

section AxiomAudit
#print axioms expGeomLaw_real
#print axioms catalogue_ccCropPre_real
#print axioms hiPre_ord_real
#print axioms hiPre_real
#print axioms rootPre_real
end AxiomAudit

end Aqua
