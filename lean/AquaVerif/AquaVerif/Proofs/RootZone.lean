import AquaVerif.Model.RootZone
import AquaVerif.Proofs.Basic
/-
Range facts about `rootZoneWater` (`aquacrop/solution/root_zone_water.py`): the clamps at the end
of the function make the stored water and the total available water non-negative and keep the
depletion below the total available water — for *any* profile, water contents and rounding
function (no well-formedness premise is needed).
-/

set_option linter.unusedSectionVars false
namespace Aqua
variable {α : Type} [Field α] [LinearOrder α] [IsStrictOrderedRing α]

private theorem clamp0_nonneg (x : α) : 0 ≤ (if x < 0 then 0 else x) := by
  split_ifs with h
  · exact le_refl _
  · exact not_lt.mp h

private theorem pmax0_nonneg (x : α) : 0 ≤ pmax x 0 := by
  rw [pmax_eq]; exact le_max_right _ _

private theorem pmin_le_right (x y : α) : pmin x y ≤ y := by
  rw [pmin_eq]; exact min_le_right _ _

/-- the five range facts, for every successful call -/
theorem rootZoneWater_ranges (F : Fn α) (cells : List (Cell α)) (zRoot zTop zMin aer : α)
    (r : RZ α) (h : rootZoneWater F cells zRoot zTop zMin aer = some r) :
    0 ≤ r.wrAct ∧ 0 ≤ r.tawRz ∧ 0 ≤ r.tawZt ∧ r.drRz ≤ r.tawRz ∧ r.drZt ≤ r.tawZt := by
  unfold rootZoneWater at h
  simp only [] at h
  split at h
  · cases h
  · split at h
    · cases h
    · split_ifs at h
      all_goals first
        | (cases h; done)
        | (simp only [Option.some.injEq] at h; subst h
           exact ⟨by first | exact le_refl _ | exact not_lt.mp ‹_›, pmax0_nonneg _,
             pmax0_nonneg _, pmin_le_right _ _, pmin_le_right _ _⟩)
        | (split at h
           · cases h
           · split_ifs at h
             all_goals
               simp only [Option.some.injEq] at h; subst h
               exact ⟨by first | exact le_refl _ | exact not_lt.mp ‹_›, pmax0_nonneg _,
                 pmax0_nonneg _, pmin_le_right _ _, pmin_le_right _ _⟩)

theorem rootZoneWater_wrAct_nonneg (F : Fn α) (cells : List (Cell α)) (zRoot zTop zMin aer : α)
    (r : RZ α) (h : rootZoneWater F cells zRoot zTop zMin aer = some r) : 0 ≤ r.wrAct :=
  (rootZoneWater_ranges F cells zRoot zTop zMin aer r h).1

theorem rootZoneWater_tawRz_nonneg (F : Fn α) (cells : List (Cell α)) (zRoot zTop zMin aer : α)
    (r : RZ α) (h : rootZoneWater F cells zRoot zTop zMin aer = some r) : 0 ≤ r.tawRz :=
  (rootZoneWater_ranges F cells zRoot zTop zMin aer r h).2.1

theorem rootZoneWater_tawZt_nonneg (F : Fn α) (cells : List (Cell α)) (zRoot zTop zMin aer : α)
    (r : RZ α) (h : rootZoneWater F cells zRoot zTop zMin aer = some r) : 0 ≤ r.tawZt :=
  (rootZoneWater_ranges F cells zRoot zTop zMin aer r h).2.2.1

theorem rootZoneWater_drRz_le_taw (F : Fn α) (cells : List (Cell α)) (zRoot zTop zMin aer : α)
    (r : RZ α) (h : rootZoneWater F cells zRoot zTop zMin aer = some r) : r.drRz ≤ r.tawRz :=
  (rootZoneWater_ranges F cells zRoot zTop zMin aer r h).2.2.2.1

theorem rootZoneWater_drZt_le_taw (F : Fn α) (cells : List (Cell α)) (zRoot zTop zMin aer : α)
    (r : RZ α) (h : rootZoneWater F cells zRoot zTop zMin aer = some r) : r.drZt ≤ r.tawZt :=
  (rootZoneWater_ranges F cells zRoot zTop zMin aer r h).2.2.2.2

end Aqua
