import AquaVerif.Proofs.RunTotal
import AquaVerif.Proofs.CatalogueCfg
/-
Work package Z, part 4: **`catalogue_run_total`** — the run of a *catalogue configuration*
(`CatCfg`, `Proofs/CatalogueCfg.lean`: every crop record built from the generated crop table, the
profile and initial water content built by `soilProfile`/`initWC`, well-formed clock) over `ℝ`
terminates without taking an error branch.

From the catalogue (no premise left): `CfgOK`; the option switches of every crop record
(`GDDmethod`, `CalendarType`, `TrColdStress`, `CropType`, `PolHeatStress`, `PolColdStress` — the
conjuncts `SwitchOK`, `CanopyOK`, `HiOK` of `CropFullOK`); `SxBot > 0` for every catalogue crop
(`catalogue_sxBot_pos`, by kernel evaluation of the table); `CO2.ref ≠ 550`; well-formed clock and
cleared initial flags.

`CatTotOK cfg Zcap Zev` — what `CatCfg` does not say and stays a premise: the geometry of the built
profile relative to the crops and the evaporation depths (`ProfOK`; `Zmax ≤ Zcap` for every crop,
`0.3 ≤ Zcap` for the fallow filler crop), the irrigation records (`method ≤ 5`, interval ≥ 1,
schedule covering the window, `AppEff ≥ 0`), `water_table ∈ {0,1}` with a defined non-negative
depth, `EvapTimeSteps ≠ 0`, the evaporation depths, the initial `growth_stage`/`evap_z`.
`TopOK` is the named exception.  Neither the weather (`ET0 > 0`) nor the capillary-rise residual
`ResidualW` is needed: no error site reads them.
-/

set_option linter.unusedSectionVars false
set_option linter.unusedVariables false
namespace Aqua
open Aqua.Generated Aqua.Response Aqua.HarvestIndexReal Aqua.Clock

/-- every catalogue crop has a positive bottom sink term (`SxBot`): the Python-float division of
the `rCor` update in `root_development` never divides by zero -/
theorem catalogue_sxBot_pos : ∀ c ∈ cropFullTable, 0 < c.sxBot := by decide +kernel

/-- the part of `CfgTotOK` a catalogue configuration does not determine -/
structure CatTotOK (cfg : RunCfg ℝ) (Zcap Zev : ℝ) : Prop where
  prof : ProfOK realFn cfg.W0.soil cfg.W0.waterTable cfg.zGerm Zcap Zev cfg.init.cells
  /-- the profile is deep enough for every crop: `Zmax ≤ Zcap` -/
  zmax : ∀ k, (cfg.seasonCrop k).cx.rd.zmax ≤ Zcap
  zmaxF : cfg.fallowCrop.cx.rd.zmax ≤ Zcap
  /-- … and for the fallow filler crop's `Zmin = 0.3` -/
  fallowZmin : 0.3 ≤ Zcap
  irr : IrrTotOK cfg.irr
  fallowIrr : IrrTotOK cfg.fallowIrr
  sched : cfg.irr.irr.method = 3 → ∀ t, ∃ v, cfg.irr.sched t = some v ∧ 0 ≤ v
  wt : cfg.W0.waterTable = 0 ∨ cfg.W0.waterTable = 1
  zgw : cfg.W0.waterTable = 1 → ∀ t, 0 ≤ cfg.zgw t
  steps : cfg.W0.evapTimeSteps ≠ 0
  evLo : cfg.W0.soil.evapZMin ≤ Zev
  evHi : cfg.W0.soil.evapZMax + 0.001 ≤ Zev
  evFuel : cfg.W0.soil.evapZMax - cfg.W0.soil.evapZMin ≤ 100
  stage0 : cfg.init.growthStage ≤ 4
  ev0 : cfg.W0.soil.evapZMax - 100 ≤ cfg.init.evapZ
  ev1 : cfg.init.evapZ ≤ Zev

section
variable {cfg : RunCfg ℝ} {Zcap Zev : ℝ}

/-- the switches and depth parameters of a record built from a catalogue crop -/
theorem cropTotOK_of_table {c : CropFull} (hc : c ∈ cropFullTable) (K : CropDerived ℝ)
    (hz : ((c.zmax : ℚ) : ℝ) ≤ Zcap) : CropTotOK (c.cropParams K) Zcap := by
  have hok := catalogue_ok c hc
  obtain ⟨_, _, _, hph, hpc, hgd, htc⟩ := hok.2.2.2.2.2.1
  have hcal : c.calendarType = 1 ∨ c.calendarType = 2 := hok.2.2.1.2.1
  have hzz : ((c.zmin : ℚ) : ℝ) ≤ Zcap := le_trans (hok.1.cast (α := ℝ)).2.1 hz
  exact
    { gdd := hgd, calW := hcal, calRd := hcal, calCc := hcal, cold := htc,
      ctype := hok.2.2.2.1.1, pol := ⟨hph, hpc⟩
      sxBot := by
        have : (0 : ℝ) < ((c.sxBot : ℚ) : ℝ) := by exact_mod_cast catalogue_sxBot_pos c hc
        exact ne_of_gt this
      capZmax := hz, capTr := hzz, capCc := hzz, capHi := hzz }

theorem CatCrop.totOK {p : CropParams ℝ} (h : CatCrop p) (hz : p.cx.rd.zmax ≤ Zcap) :
    CropTotOK p Zcap := by
  obtain ⟨c, hc, _, K, _, rfl⟩ := h
  exact cropTotOK_of_table hc K hz

/-- the fallow filler crop: `Crop_.Aer = 5; Crop_.Zmin = 0.3` touches `cw.tr` only -/
theorem CatCrop.fallowTotOK {p : CropParams ℝ} (h : CatCrop p) (hz : p.cx.rd.zmax ≤ Zcap)
    (h3 : (0.3 : ℝ) ≤ Zcap) : CropTotOK (fallowAdjust p) Zcap := by
  have := h.totOK hz
  exact
    { gdd := this.gdd, calW := this.calW, calRd := this.calRd, calCc := this.calCc,
      cold := this.cold, ctype := this.ctype, pol := this.pol, sxBot := this.sxBot,
      capZmax := this.capZmax, capTr := h3, capCc := this.capCc, capHi := this.capHi }

/-- **`CfgTotOK` of a catalogue configuration** -/
theorem cfgTotOK_of_catalogue (h : CatCfg cfg) (hX : CatTotOK cfg Zcap Zev) :
    CfgTotOK realFn cfg Zcap Zev :=
  { wf := h.clock
    initOK := ⟨h.init.dap, h.init.mature, h.init.dead, h.init.flag⟩
    prof := hX.prof
    crop := fun season => by
      unfold cropOf
      split_ifs
      · exact (h.crops _).totOK (hX.zmax _)
      · exact h.fallow.fallowTotOK hX.zmaxF hX.fallowZmin
    cap0 := le_trans (by norm_num) hX.fallowZmin
    irr := hX.irr
    fallowIrr := hX.fallowIrr
    sched := hX.sched
    wt := hX.wt
    zgw := hX.zgw
    steps := hX.steps
    evLo := hX.evLo
    evHi := hX.evHi
    evFuel := hX.evFuel
    co2 := ne_of_lt h.ranges.co2Ref
    stage0 := hX.stage0
    ev0 := hX.ev0
    ev1 := hX.ev1 }

/-- **`catalogue_run_total`**: the run of a catalogue configuration whose profile satisfies the
geometric premises terminates without taking an error branch — `run_model(num_steps = n)` returns
`.ok` with `finished = true`; from every reachable unfinished state `_perform_timestep` and every
`run_model(num_steps = k)`, `k ≥ 1`, return `.ok`.  No premise on the weather, none on computed
values. -/
theorem catalogue_run_total (h : CatCfg cfg) (hX : CatTotOK cfg Zcap Zev)
    (hTop : TopOK realFn cfg.W0.soil.zTop cfg.init.cells) :
    (∃ s₀ s, runInit cfg = .ok s₀ ∧ runModel realFn realTrig cfg cfg.clock.n s₀ = .ok s ∧
      s.finished = true ∧ RunReach realFn realTrig cfg s) ∧
    ∀ s, RunReach realFn realTrig cfg s → s.finished = false →
      (∃ s', performR realFn realTrig cfg s = .ok s') ∧
      ∀ k, 1 ≤ k → ∃ s', runModel realFn realTrig cfg k s = .ok s' := by
  have hC := cfgOK_of_catalogue h
  have hZ := cfgTotOK_of_catalogue h hX
  refine ⟨run_finishes hC hZ hTop, fun s hr hf => ⟨?_, fun k hk => ?_⟩⟩
  · obtain ⟨s', hp, _⟩ := performR_total hC hZ hTop hr hf
    exact ⟨s', hp⟩
  · obtain ⟨s', hp, _⟩ := run_total hC hZ hTop hr hf k hk
    exact ⟨s', hp⟩

/-- the invariants of C01/C03/C05 (`catalogue_run_no_table`) and totality together: without a water
table and with `ET0 > 0`, every day of the (complete) run of a catalogue configuration is
simulated, closes its water balance and stays inside the envelopes -/
theorem catalogue_run_total_no_table (h : CatCfg cfg) (hX : CatTotOK cfg Zcap Zev)
    (hTop : TopOK realFn cfg.W0.soil.zTop cfg.init.cells)
    (het : ∀ t, 0 < (cfg.weather t).et0) (hwt : cfg.W0.waterTable ≠ 1) :
    ∃ s₀ s, runInit cfg = .ok s₀ ∧ runModel realFn realTrig cfg cfg.clock.n s₀ = .ok s ∧
      s.finished = true ∧ WaterInv cfg s ∧ CropEnv realFn (paramsOf cfg s.season false) s.day := by
  obtain ⟨⟨s₀, s, h0, h1, h2, hr⟩, _⟩ := catalogue_run_total h hX hTop
  exact ⟨s₀, s, h0, h1, h2, (catalogue_run_no_table h het hwt hr).1⟩

end
end Aqua

#print axioms Aqua.catalogue_sxBot_pos
#print axioms Aqua.cfgTotOK_of_catalogue
#print axioms Aqua.catalogue_run_total
#print axioms Aqua.catalogue_run_total_no_table
