import AquaVerif.Model.Run
import AquaVerif.Proofs.Day
import AquaVerif.Proofs.Clock

/-
Lemmas about the whole run (`Model/Run.lean`): `RunReach` = the states reachable from the
initialised model by successful `_perform_timestep`s (`performR`).

A. `update_time` / `seasonInfo` of the clock model in the form the run needs;
B. one step of the run is one step of `Clock.perform` (`performR_refines`), for every oracle that
   reports what the biophysics decided on that day;
C. **`run_refines_clock`**: the clock projection of every reachable run state is reachable in the
   clock model, for the oracle induced by the run — all theorems of `Properties/C07`, `C09` and
   the summary part of `C06` transfer (example: `run_days_increasing`);
D. **`run_inv`**, **`run_closes`**, `run_pond_bounds`: C03 and C01 on every simulated day of every
   run, from the initial-condition premise (`RunPre`), given `DayOK` on each simulated day;
E. **`run_stored_water_carried_over`**: `th` and ponding between consecutive simulated days;
F. **`run_cropInv`**: the crop envelope `CropInv` (C05) on every reachable state, through the
   season-start reset (`resetState_cropInv`).
-/

set_option linter.unusedSectionVars false
set_option linter.unusedVariables false
set_option linter.unusedSimpArgs false
namespace Aqua
open Aqua.Clock
variable {α : Type} [Field α] [LinearOrder α] [IsStrictOrderedRing α]

/-! ## A. the clock part: `update_time`, `seasonInfo` -/

/-- `update_time` changes the clock and, exactly when the season counter advances, resets the
per-season flags; everything else is left alone -/
theorem updateTime_cases {c : Cfg} {s c' : St} (h : updateTime c s = .ok c') :
    (c'.season = s.season ∧ c' = { s with t := c'.t }) ∨
    (c'.season ≠ s.season ∧ c'.season = s.season + 1 ∧
      c' = resetSeason { s with season := c'.season, t := c'.t }) := by
  unfold updateTime at h
  by_cases hf : s.finished = true
  · rw [if_pos hf] at h; cases h; exact Or.inl ⟨rfl, rfl⟩
  · rw [if_neg hf] at h
    by_cases hj : (s.harvestFlag && !c.offSeason) = true
    · rw [if_pos hj] at h
      by_cases hn : s.season < c.nSeasons - 1
      · rw [if_pos hn] at h
        simp only [bind, Except.bind] at h
        split at h
        · cases h
        · rename_i p hp
          split_ifs at h
          cases h
          exact Or.inr ⟨by show s.season + 1 ≠ s.season; omega, rfl, rfl⟩
      · rw [if_neg hn] at h; cases h; exact Or.inl ⟨rfl, rfl⟩
    · rw [if_neg hj] at h
      simp only at h
      split_ifs at h with h1 h2 hn
      · simp only [bind, Except.bind] at h
        split at h
        · cases h
        · rename_i p hp
          split_ifs at h with hp'
          · cases h
            exact Or.inr ⟨by show s.season + 1 ≠ s.season; omega, rfl, rfl⟩
          · cases h; exact Or.inl ⟨rfl, rfl⟩
      · cases h; exact Or.inl ⟨rfl, rfl⟩

theorem seasonInfo_isSome {c : Cfg} {season : Int} {ph : Option (Nat × Int)}
    (h : seasonInfo c season = .ok ph) : ph.isSome = decide (0 ≤ season) := by
  unfold seasonInfo at h
  by_cases h0 : season ≥ 0
  · rw [if_pos h0] at h
    simp only [bind, Except.bind] at h
    split at h
    · cases h
    · split at h
      · cases h
      · cases h
        simp [h0]
  · rw [if_neg h0] at h
    cases h
    simp [h0]

/-- `solCore` in closed form, with names for the five quantities it computes -/
theorem solCore_eq_of (ev : Ev) (s : St) (ph : Option (Nat × Int)) (gs mat dead endc : Bool)
    (dap : Nat)
    (hgs : gsOfDay ph s.t s.mature s.dead = gs)
    (hdap : (if gs then s.dap + 1 else 0) = dap)
    (hmat : (s.mature || (gs && (ev s.t).1)) = mat)
    (hdead : (s.dead || (gs && (ev s.t).2)) = dead)
    (hendc : (ph.isSome && (mat || dead || lastDayOf ph s.t)) = endc) :
    solCore ev s ph =
      { s with dap := dap, mature := mat, dead := dead,
               rowsRev := { t := s.t, season := s.season, dap := dap, gs := gs, mature := mat,
                            dead := dead, endc := endc } :: s.rowsRev,
               summaryRev := if endc && !s.harvestFlag then (s.season, s.t) :: s.summaryRev
                             else s.summaryRev,
               harvestFlag := if endc && !s.harvestFlag then true else s.harvestFlag } := by
  subst hgs; subst hdap; subst hmat; subst hdead; subst hendc
  rcases ph with _ | ⟨p, h⟩
  · simp [solCore, gsOfDay, lastDayOf]
  · simp [solCore, gsOfDay, lastDayOf]

/-! ## B. one `_perform_timestep` of the run is one of the clock model -/

/-- what the biophysics decided on a day: the maturity test of step 19 and the death flag -/
def DayRec.events (d : DayRec α) : Bool × Bool :=
  (matureTest d.P d.r.trace.tc, d.r.state.cropDead)

section step
variable {F : Fn α} {T : TrigFn α} {cfg : RunCfg α} {s s' : RunState α}

/-- inversion of a successful `_perform_timestep` -/
theorem performR_ok (h : performR F T cfg s = .ok s') :
    ∃ ph r s1, s.finished = false ∧ seasonInfo cfg.clock s.season = .ok ph ∧
      fullDay F T (paramsOf cfg s.season (dayInOf cfg s ph).gs) s.day (dayInOf cfg s ph) = .ok r ∧
      s1 = { s with day := r.state,
                    daysRev := { P := paramsOf cfg s.season (dayInOf cfg s ph).gs, st := s.day,
                                 D := dayInOf cfg s ph, r := r } :: s.daysRev } ∧
      updateTimeR cfg (checkFinishedR cfg s1) = .ok s' := by
  unfold performR at h
  by_cases hf : s.finished = true
  · rw [if_pos hf] at h; cases h
  · rw [if_neg hf] at h
    split at h
    · cases h
    · rename_i ph hph
      split at h
      · cases h
      · rename_i s1 hs1
        unfold solution at hs1
        simp only at hs1
        split at hs1
        · cases hs1
        · rename_i r hr
          refine ⟨ph, r, s1, by simpa using hf, hph, hr, (Except.ok.inj hs1).symm, h⟩

/-- inversion of `update_time` on the run state -/
theorem updateTimeR_ok {s2 : RunState α} (h : updateTimeR cfg s2 = .ok s') :
    ∃ c', updateTime cfg.clock s2.clockOf = .ok c' ∧ s'.clockOf = c' ∧
      s'.daysRev = s2.daysRev ∧ s'.finished = s2.finished ∧
      ((s'.season = s2.season ∧ s'.day = s2.day) ∨
       (s'.season = s2.season + 1 ∧
          s'.day = resetState cfg (cfg.seasonCrop s'.season.toNat) s2.day)) := by
  unfold updateTimeR at h
  split at h
  · cases h
  · rename_i c' hc
    refine ⟨c', hc, ?_⟩
    rcases updateTime_cases hc with ⟨e1, e2⟩ | ⟨e1, e1', e2⟩
    · have e1s : c'.season = s2.season := e1
      rw [if_pos e1s] at h
      cases h
      refine ⟨?_, rfl, rfl, Or.inl ⟨rfl, rfl⟩⟩
      rw [e2]; rfl
    · have e1s : ¬ c'.season = s2.season := e1
      rw [if_neg e1s] at h
      cases h
      refine ⟨?_, rfl, rfl, Or.inr ⟨e1', rfl⟩⟩
      rw [e2]; rfl

/-- **one step of the run is one step of the clock model** for every oracle that says, for this
day, what the biophysics decided -/
theorem performR_refines (h : performR F T cfg s = .ok s') :
    ∃ d, s'.daysRev = d :: s.daysRev ∧ d.st = s.day ∧ d.D.tsc = s.t ∧ d.D.season = s.season ∧
      fullDay F T d.P d.st d.D = .ok d.r ∧
      ∀ ev : Ev, ev s.t = d.events → perform cfg.clock ev s.clockOf = .ok s'.clockOf := by
  obtain ⟨ph, r, s1, hf, hph, hr, hs1, hu⟩ := performR_ok h
  obtain ⟨c', hc, hcl, hdays, _, _⟩ := updateTimeR_ok hu
  set D := dayInOf cfg s ph with hD
  set P := paramsOf cfg s.season D.gs with hP
  refine ⟨{ P := P, st := s.day, D := D, r := r }, ?_, rfl, rfl, rfl, hr, fun ev hev => ?_⟩
  · rw [hdays, hs1]; rfl
  · unfold perform Clock.solution
    have hf' : s.clockOf.finished = false := hf
    rw [hf']
    simp only [Bool.false_eq_true, if_false]
    have hph' : seasonInfo cfg.clock s.clockOf.season = .ok ph := hph
    rw [hph']
    simp only [bind, Except.bind, pure, Except.pure]
    -- the solution step
    have hsol : solCore ev s.clockOf ph = s1.clockOf := by
      obtain ⟨_, _, c3, _, c5, c6⟩ := fullDay_counters hr
      obtain ⟨f1, f2⟩ := fullDay_flags hr
      obtain ⟨m1, m2, m3, m4⟩ := fullDay_summary hr
      have hsome := seasonInfo_isSome hph
      have hgsD : D.gs = gsOfDay ph s.t s.day.cropMature s.day.cropDead := rfl
      have hevs : ev s.clockOf.t = (matureTest P r.trace.tc, r.state.cropDead) := hev
      have hgs : gsOfDay ph s.clockOf.t s.clockOf.mature s.clockOf.dead = D.gs := rfl
      have hdap : (if D.gs then s.day.dap + 1 else 0) = r.state.dap := by
        cases hg : D.gs with
        | true => simp only [if_true]; rw [c3]; exact ((c5 hg).1).symm
        | false => simp only [Bool.false_eq_true, if_false]; rw [c3]; exact ((c6 hg).1).symm
      have hmat : (s.day.cropMature || (D.gs && matureTest P r.trace.tc)) = r.state.cropMature :=
        f1.symm
      have hdead : (s.day.cropDead || (D.gs && r.state.cropDead)) = r.state.cropDead := by
        cases hg : D.gs with
        | false => rw [f2 hg]; simp
        | true =>
          have : s.day.cropDead = false := by
            rw [hgsD] at hg
            unfold gsOfDay at hg
            cases ph with
            | none => cases hg
            | some q => simp only [Bool.and_eq_true, Bool.not_eq_eq_eq_not, Bool.not_true] at hg
                        exact hg.2
          rw [this]; simp
      have hendc : (ph.isSome && (r.state.cropMature || r.state.cropDead ||
          lastDayOf ph s.clockOf.t)) = r.endc := by
        rw [m3, hsome]; rfl
      rw [solCore_eq_of ev s.clockOf ph D.gs r.state.cropMature r.state.cropDead r.endc r.state.dap
        hgs hdap (by rw [hevs]; exact hmat) (by rw [hevs]; exact hdead) hendc]
      rw [hs1]
      unfold RunState.clockOf
      simp only [List.map_cons, List.filterMap_cons]
      have hsum : DayRec.clockSummary { P := P, st := s.day, D := D, r := r } =
          if (r.endc && !s.day.harvestFlag) = true then some (s.season, s.t) else none := by
        unfold DayRec.clockSummary
        by_cases hw : (r.endc && !s.day.harvestFlag) = true
        · rw [if_pos hw]
          have : r.summary.isSome = true := by rw [m1]; exact hw
          obtain ⟨x, hx⟩ := Option.isSome_iff_exists.mp this
          obtain ⟨x1, x2, _⟩ := m4 x hx
          simp only [hx, Option.map_some]
          rw [x1, x2]
          rfl
        · rw [if_neg hw]
          have : r.summary.isSome = false := by rw [m1]; simpa using hw
          rw [Option.isSome_eq_false_iff, Option.isNone_iff_eq_none] at this
          simp only [this, Option.map_none]
      rw [hsum, m2]
      have hDt : D.tsc = s.t := rfl
      have hDs : D.season = s.season := rfl
      cases he : r.endc <;> cases hh : s.day.harvestFlag <;>
        simp [DayRec.clockRow, he, hh, hDt, hDs]
    rw [hsol]
    have hcf : checkFinished cfg.clock s1.clockOf = (checkFinishedR cfg s1).clockOf := rfl
    rw [hcf, hc, hcl]

end step

/-! ## C. reachable run states; the run refines the clock model -/

/-- states reachable from the initialised model by successful `_perform_timestep`s -/
inductive RunReach (F : Fn α) (T : TrigFn α) (cfg : RunCfg α) : RunState α → Prop
  | init {s : RunState α} : runInit cfg = .ok s → RunReach F T cfg s
  | step {s s' : RunState α} : RunReach F T cfg s → performR F T cfg s = .ok s' →
      RunReach F T cfg s'

/-- the state object `_initialize` leaves has its season flags cleared -/
structure InitOK (cfg : RunCfg α) : Prop where
  dap : cfg.init.dap = 0
  mature : cfg.init.cropMature = false
  dead : cfg.init.cropDead = false
  flag : cfg.init.harvestFlag = false

section reach
variable {F : Fn α} {T : TrigFn α} {cfg : RunCfg α} {s s' : RunState α}

theorem runReach_runSteps : ∀ (k : Nat) {s s' : RunState α}, RunReach F T cfg s →
    runStepsR F T cfg k s = .ok s' → RunReach F T cfg s' := by
  intro k
  induction k with
  | zero => intro s s' hr h; simp only [runStepsR] at h; cases h; exact hr
  | succ k ih =>
    intro s s' hr h
    simp only [runStepsR] at h
    split at h
    · cases h
    · rename_i s1 hp
      split_ifs at h
      · cases h; exact RunReach.step hr hp
      · exact ih (RunReach.step hr hp) h

theorem runReach_runModel {k : Nat} (hr : RunReach F T cfg s)
    (h : runModel F T cfg k s = .ok s') : RunReach F T cfg s' := by
  unfold runModel at h
  split_ifs at h
  exact runReach_runSteps k hr h

/-- for every oracle that agrees with what the biophysics decided on the days simulated so far,
the clock projection of a reachable run state is reachable in the clock model -/
theorem runReach_clock (hi : InitOK cfg) (hr : RunReach F T cfg s) :
    ∀ ev : Ev, (∀ d ∈ s.daysRev, ev d.D.tsc = d.events) → Reach cfg.clock ev s.clockOf := by
  induction hr with
  | init h0 =>
    intro ev _
    unfold runInit at h0
    split at h0
    · cases h0
    · rename_i c hc
      cases h0
      apply Reach.init
      rw [hc]
      unfold Clock.init at hc
      split_ifs at hc
      cases hc
      simp only [RunState.clockOf, hi.dap, hi.mature, hi.dead, hi.flag, List.map_nil,
        List.filterMap_nil]
  | step hr hp ih =>
    intro ev hev
    obtain ⟨d, hd, _, ht, _, _, hstep⟩ := performR_refines hp
    rw [hd] at hev
    have h1 := ih ev (fun d' hd' => hev d' (List.mem_cons_of_mem _ hd'))
    have h2 := hev d (List.mem_cons_self)
    rw [ht] at h2
    exact Reach.step h1 (hstep ev h2)

/-- **`run_refines_clock`**: the sequence of `(t, season, dap, growing season, mature, dead,
end-of-season)` rows and of summary writes of a real run is a run of `Clock.perform` — for the
oracle `ev` that reports, for each simulated day, the maturity test and the death flag `fullDay`
produced.  Hence every theorem of `Properties/C07.lean`, `C09.lean` and the summary part of
`C06.lean` (all stated for `Reach c ev s`, for every `ev`) holds for `s.clockOf`. -/
theorem run_refines_clock (hw : WF cfg.clock) (hi : InitOK cfg) (hr : RunReach F T cfg s) :
    ∃ ev : Ev, Reach cfg.clock ev s.clockOf ∧ ∀ d ∈ s.daysRev, ev d.D.tsc = d.events := by
  induction hr with
  | init h0 =>
    refine ⟨fun _ => (false, false), ?_, ?_⟩
    · exact runReach_clock hi (RunReach.init (F := F) (T := T) h0) _ (by
        unfold runInit at h0
        split at h0
        · cases h0
        · cases h0; intro d hd; cases hd)
    · unfold runInit at h0
      split at h0
      · cases h0
      · cases h0; intro d hd; cases hd
  | @step s s' hr hp ih =>
    obtain ⟨ev, hre, hev⟩ := ih
    obtain ⟨d, hd, _, ht, _, _, _⟩ := performR_refines hp
    obtain ⟨_, _, _, hf, _⟩ := performR_ok hp
    have hL := (good_of_reach hw hre).live hf
    have hlt : ∀ d' ∈ s.daysRev, d'.D.tsc < s.t := by
      intro d' hd'
      have := (hL.rowsB (DayRec.clockRow d') (List.mem_map_of_mem hd')).1
      exact this
    let ev' : Ev := fun t => if t = s.t then d.events else ev t
    have hev' : ∀ d' ∈ s'.daysRev, ev' d'.D.tsc = d'.events := by
      intro d' hd'
      rw [hd] at hd'
      rcases List.mem_cons.mp hd' with rfl | hd'
      · show (if d'.D.tsc = s.t then _ else _) = _
        rw [if_pos ht]
      · show (if d'.D.tsc = s.t then _ else _) = _
        rw [if_neg (by have := hlt d' hd'; omega)]
        exact hev d' hd'
    exact ⟨ev', runReach_clock hi (RunReach.step hr hp) ev' hev', hev'⟩

/-- e.g. each calendar day is simulated at most once and in chronological order
(`C07.each_day_once_in_order` transferred to real runs) -/
theorem run_days_increasing (hw : WF cfg.clock) (hi : InitOK cfg) (hr : RunReach F T cfg s) :
    (s.daysRev.reverse.map (·.D.tsc)).Pairwise (· < ·) := by
  obtain ⟨ev, hre, _⟩ := run_refines_clock hw hi hr
  have := rows_increasing hw hre
  unfold St.rows at this
  have e : s.clockOf.rowsRev = s.daysRev.map DayRec.clockRow := rfl
  rw [e, ← List.map_reverse, List.pairwise_map] at this
  rw [List.pairwise_map]
  exact this

end reach

/-! ## D. water content and ponding along a run (C01, C03) -/

/-- `thini` within the limits of the compartments it is copied into -/
def ThiniOK : List (Comp α) → List α → Prop
  | c :: cs, v :: vs => c.thDry ≤ v ∧ v ≤ c.thS ∧ ThiniOK cs vs
  | _, _ => True

theorem setTh_comps : ∀ (cells : List (Cell α)) (vs : List α),
    (setTh cells vs).map (·.c) = cells.map (·.c)
  | [], _ => by simp [setTh]
  | x :: xs, [] => by simp [setTh]
  | x :: xs, v :: vs => by simp [setTh, setTh_comps xs vs]

theorem setTh_pre : ∀ (cells : List (Cell α)) (vs : List α), (∀ x ∈ cells, DrainPre x) →
    ThiniOK (cells.map (·.c)) vs → ∀ y ∈ setTh cells vs, DrainPre y
  | [], _, _, _ => by simp [setTh]
  | x :: xs, [], h, _ => by simpa [setTh] using h
  | x :: xs, v :: vs, h, hv => by
    obtain ⟨v1, v2, hvs⟩ := hv
    intro y hy
    simp only [setTh, List.mem_cons] at hy
    have hx := h x (by simp)
    rcases hy with rfl | hy
    · exact ⟨⟨hx.inv.wf, v1, v2, hx.inv.fc_lo, hx.inv.fc_hi⟩, hx.dzsum_nn, hx.fc_lt_s⟩
    · exact setTh_pre xs vs (fun z hz => h z (by simp [hz])) hvs y hy

/-- the values `setTh` writes -/
theorem setTh_th : ∀ (cells : List (Cell α)) (vs : List α), cells.length = vs.length →
    (setTh cells vs).map (·.th) = vs
  | [], [], _ => rfl
  | [], _ :: _, h => by simp at h
  | _ :: _, [], h => by simp at h
  | x :: xs, v :: vs, h => by
    simp only [setTh, List.map_cons, List.cons.injEq, true_and]
    exact setTh_th xs vs (by simpa using h)

/-- premises on the configuration for the water invariant of a run -/
structure RunPre (F : Fn α) (cfg : RunCfg α) : Prop where
  exp : ExpLaws F
  /-- `x ** 2 = x · x` (adjusted field capacity above a water table, SCS runoff) -/
  sq : PowSqLaw F
  /-- the initial profile: every compartment well-formed, `th_dry ≤ th ≤ th_s` (in particular
  when `th_wp ≤ th ≤ th_s`), `th_fc ≤ th_fc_Adj ≤ th_s`, `0 ≤ dzsum`, `th_fc < th_s` -/
  cells0 : ∀ x ∈ cfg.init.cells, DrainPre x
  pond0 : 0 ≤ cfg.init.pond
  smt : cfg.irr.irr.method = 4 → 0 ≤ cfg.irr.netIrrSMT ∧ cfg.irr.netIrrSMT ≤ 100
  smtF : cfg.fallowIrr.irr.method = 4 →
    0 ≤ cfg.fallowIrr.netIrrSMT ∧ cfg.fallowIrr.netIrrSMT ≤ 100
  /-- the water content restored at a season start lies within the limits -/
  thini : ThiniOK (cfg.init.cells.map (·.c)) cfg.thini
  bundWater : 0 ≤ cfg.bundWater

/-- what has to hold on a simulated day beyond what the run establishes itself: the premises of
the transpiration invariant on the day's computed rooting depth and root-correction factor
(`DayTrPre`), and — with a water table — the rounding laws and that capillary rise did not lift a
compartment above saturation that day (the known ≤ 1/20000 overshoot, `Properties/C03.lean`) -/
structure DayOK (F : Fn α) (wp fc : Nat → α) (d : DayRec α) : Prop where
  tr : DayTrPre F d.P.W d.r.crop d.st.cells wp fc
  gw : d.P.W.waterTable = 1 → (GwExpLaws F ∧ GwRoundLaws F ∧ GwRoundSign F) ∧
    ∀ y ∈ d.r.water.crCells, y.th ≤ y.c.thS

/-- the water invariant of a run state -/
structure WaterInv (cfg : RunCfg α) (s : RunState α) : Prop where
  comps : s.day.cells.map (·.c) = cfg.init.cells.map (·.c)
  pre : ∀ x ∈ s.day.cells, DrainPre x
  pond : 0 ≤ s.day.pond

section water
variable {F : Fn α} {T : TrigFn α} {cfg : RunCfg α} {s s' : RunState α}

theorem paramsOf_smt (hP : RunPre F cfg) (season : Int) (gs : Bool) :
    (paramsOf cfg season gs).W.irr.method = 4 →
      0 ≤ (paramsOf cfg season gs).W.netIrrSMT ∧ (paramsOf cfg season gs).W.netIrrSMT ≤ 100 := by
  unfold paramsOf
  by_cases h0 : 0 ≤ season
  · simp only [h0, if_true]; exact hP.smt
  · simp only [h0, if_false]; exact hP.smtF

theorem resetPond_nonneg (hP : RunPre F cfg) : 0 ≤ resetPond cfg := by
  unfold resetPond resetPondOf
  split_ifs with h
  · rw [pmin_eq]; exact le_min hP.bundWater (by linarith [h.2])
  · exact le_refl _

theorem resetState_inv (hP : RunPre F cfg) (crop : CropParams α) {st : DayState' α}
    (hc : st.cells.map (·.c) = cfg.init.cells.map (·.c)) (hpre : ∀ x ∈ st.cells, DrainPre x)
    (hpond : 0 ≤ st.pond) :
    (resetState cfg crop st).cells.map (·.c) = cfg.init.cells.map (·.c) ∧
    (∀ x ∈ (resetState cfg crop st).cells, DrainPre x) ∧ 0 ≤ (resetState cfg crop st).pond := by
  have hc0 : (st.cells.map (fun x => { x with aer := 0 })).map (·.c) = st.cells.map (·.c) := by
    rw [List.map_map]; rfl
  have hpre0 : ∀ x ∈ st.cells.map (fun x => { x with aer := 0 }), DrainPre x := by
    intro y hy
    obtain ⟨x, hx, rfl⟩ := List.mem_map.mp hy
    have := hpre x hx
    exact ⟨⟨this.inv.wf, this.inv.th_lo, this.inv.th_hi, this.inv.fc_lo, this.inv.fc_hi⟩,
      this.dzsum_nn, this.fc_lt_s⟩
  unfold resetState resetStateCore
  simp only
  cases cfg.clock.offSeason with
  | true => exact ⟨by simp only [if_true]; rw [hc0, hc], hpre0, hpond⟩
  | false =>
    simp only [Bool.false_eq_true, if_false]
    refine ⟨by rw [setTh_comps, hc0, hc], ?_, resetPond_nonneg hP⟩
    apply setTh_pre _ _ hpre0
    rw [hc0, hc]; exact hP.thini

/-- one `_perform_timestep` preserves the water invariant; the day itself satisfies `DayPre`,
ends within `Cell.Inv` and with non-negative ponding -/
theorem performR_waterInv (hP : RunPre F cfg) (wp fc : Nat → α) (hW : WaterInv cfg s)
    (h : performR F T cfg s = .ok s')
    (hOK : ∀ d, s'.daysRev = d :: s.daysRev → DayOK F wp fc d) :
    WaterInv cfg s' ∧ ∃ d, s'.daysRev = d :: s.daysRev ∧ DayPre F d.P.W d.st.cells d.st.water ∧
      (∀ y ∈ d.r.state.cells, y.Inv) ∧ 0 ≤ d.r.state.pond := by
  obtain ⟨d, hd, hst, _, _, hday, _⟩ := performR_refines h
  obtain ⟨ph, r, s1, _, _, hr, hs1, hu⟩ := performR_ok h
  obtain ⟨c', _, _, hdays, _, hcase⟩ := updateTimeR_ok hu
  have hd1 : s1.daysRev = d :: s.daysRev := by
    have : (checkFinishedR cfg s1).daysRev = s1.daysRev := rfl
    rw [← this, ← hdays]; exact hd
  have hdr : d.r = r ∧ d.P = paramsOf cfg s.season (dayInOf cfg s ph).gs := by
    rw [hs1] at hd1
    have := (List.cons.inj hd1).1
    rw [← this]; exact ⟨rfl, rfl⟩
  have ok := hOK d hd
  have hpre : DayPre F d.P.W d.st.cells d.st.water := by
    rw [hst]
    refine ⟨hP.exp, hP.sq, hW.pre, hW.pond, ?_⟩
    rw [hdr.2]; exact paramsOf_smt hP _ _
  have hinv : ∀ y ∈ d.r.state.cells, y.Inv := by
    by_cases hwt : d.P.W.waterTable = 1
    · obtain ⟨hL, hNo⟩ := ok.gw hwt
      exact fullDay_inv hday hpre wp fc ok.tr (fun _ => hL) hNo
    · exact fullDay_inv_no_table hday hpre wp fc ok.tr hwt
  have hpond := (fullDay_pond hday hpre).1
  have hdp := fullDay_drainPre hday (by rw [hst]; exact hW.pre) hinv
  have hcomps : d.r.state.cells.map (·.c) = cfg.init.cells.map (·.c) := by
    rw [fullDay_comps hday (by rw [hst]; exact fun x hx => (hW.pre x hx).inv.wf.dz_pos), hst]
    exact hW.comps
  have hs1day : (checkFinishedR cfg s1).day = d.r.state := by
    rw [hdr.1, hs1]; rfl
  refine ⟨?_, d, hd, hpre, hinv, hpond⟩
  rcases hcase with ⟨_, e⟩ | ⟨_, e⟩
  · rw [hs1day] at e
    exact ⟨by rw [e]; exact hcomps, by rw [e]; exact hdp, by rw [e]; exact hpond⟩
  · rw [hs1day] at e
    obtain ⟨a, b, c⟩ := resetState_inv hP (cfg.seasonCrop s'.season.toNat) hcomps hdp hpond
    exact ⟨by rw [e]; exact a, by rw [e]; exact b, by rw [e]; exact c⟩

/-- **`run_inv` (C03 along a run)**: from an initial profile within the limits, on every
reachable day of every run — provided each simulated day satisfies `DayOK` — the state carried to
the next day is within the limits (`DrainPre` ⊇ `Cell.Inv`: `th_dry ≤ th ≤ th_s`) with
non-negative ponding and unchanged compartments, and every simulated day started from `DayPre`,
ended within `Cell.Inv` and with non-negative ponding. -/
theorem run_inv (hP : RunPre F cfg) (wp fc : Nat → α) (hr : RunReach F T cfg s)
    (hOK : ∀ d ∈ s.daysRev, DayOK F wp fc d) :
    WaterInv cfg s ∧ ∀ d ∈ s.daysRev, DayPre F d.P.W d.st.cells d.st.water ∧
      (∀ y ∈ d.r.state.cells, y.Inv) ∧ 0 ≤ d.r.state.pond := by
  induction hr with
  | init h0 =>
    unfold runInit at h0
    split at h0
    · cases h0
    · cases h0
      exact ⟨⟨rfl, hP.cells0, hP.pond0⟩, fun d hd => by cases hd⟩
  | @step s s' hr hp ih =>
    obtain ⟨d0, hd0, _⟩ := performR_refines hp
    obtain ⟨hW, hdays⟩ := ih (fun d hd => hOK d (by rw [hd0]; exact List.mem_cons_of_mem _ hd))
    obtain ⟨hW', d, hd, h1, h2, h3⟩ := performR_waterInv hP wp fc hW hp
      (fun d hd => hOK d (by rw [hd]; exact List.mem_cons_self))
    refine ⟨hW', fun d' hd' => ?_⟩
    rw [hd] at hd'
    rcases List.mem_cons.mp hd' with rfl | hd'
    · exact ⟨h1, h2, h3⟩
    · exact hdays d' hd'

/-- every recorded day of a reachable state is a successful `fullDay` -/
theorem run_days (hr : RunReach F T cfg s) :
    ∀ d ∈ s.daysRev, fullDay F T d.P d.st d.D = .ok d.r := by
  induction hr with
  | init h0 =>
    unfold runInit at h0
    split at h0
    · cases h0
    · cases h0; intro d hd; cases hd
  | @step s s' hr hp ih =>
    obtain ⟨d0, hd0, _, _, _, hday0, _⟩ := performR_refines hp
    intro d hd
    rw [hd0] at hd
    rcases List.mem_cons.mp hd with rfl | hd
    · exact hday0
    · exact ih d hd

/-- the bund-height part of C03 on a day of a run: zero ponding without (effective) bunds, and
ponding below the bund height given non-negative reported potentials and an integral `LagAer` -/
theorem run_pond_bounds (hP : RunPre F cfg) (wp fc : Nat → α) (hr : RunReach F T cfg s)
    (hOK : ∀ d ∈ s.daysRev, DayOK F wp fc d) :
    ∀ d ∈ s.daysRev, (d.P.fm.bunds = false ∨ d.P.fm.zBund ≤ 0.001 → d.r.state.pond = 0) ∧
      (d.P.fm.bunds = true → d.st.pond ≤ d.P.fm.zBund → 0 ≤ d.r.flux.esPot →
        0 ≤ d.r.flux.trPot → LagAerIntegral d.P.W → d.r.state.pond ≤ d.P.fm.zBund) := by
  intro d hd
  obtain ⟨_, hdays⟩ := run_inv hP wp fc hr hOK
  have hday := run_days hr d hd
  exact (fullDay_pond hday (hdays d hd).1).2

/-- **`run_closes` (C01 along a run)**: the daily soil-water balance closes on every simulated
day of every run (under the premises of `run_inv`) -/
theorem run_closes (hP : RunPre F cfg) (wp fc : Nat → α) (hr : RunReach F T cfg s)
    (hOK : ∀ d ∈ s.daysRev, DayOK F wp fc d) :
    ∀ d ∈ s.daysRev,
      storage d.r.state.cells + d.r.state.pond =
        storage d.st.cells + d.st.pond + d.r.flux.infl + d.r.water.preIrr + d.r.water.irrNet
          + d.r.water.crAdded + d.r.flux.gwIn - d.r.flux.deepPerc - d.r.flux.es - d.r.flux.tr := by
  intro d hd
  exact fullDay_closes (run_days hr d hd) ((run_inv hP wp fc hr hOK).2 d hd).1

end water

/-! ## E. stored water is carried over between simulated days (C01, second sentence) -/

/-- `th` and ponding of the state `st2` (in season `season2`) a day starts from, relative to the
state `prev` the previous simulated day (in season `prevSeason`) ended with: unchanged — or, at a
season start with the off-season not simulated, `th` = the configured initial water content and
ponding = `min(bund_water, z_bund)` with bunds higher than 1 mm, else 0 -/
def Carried (cfg : RunCfg α) (prev : DayState' α) (prevSeason : Int) (st2 : DayState' α)
    (season2 : Int) : Prop :=
  (st2.cells.map (·.th) = prev.cells.map (·.th) ∧ st2.pond = prev.pond) ∨
  (season2 = prevSeason + 1 ∧ cfg.clock.offSeason = false ∧
    st2.cells.map (·.th) = (setTh prev.cells cfg.thini).map (·.th) ∧ st2.pond = resetPond cfg)

/-- `Carried` between every two consecutive simulated days (newest first) -/
def CarriedAll (cfg : RunCfg α) : List (DayRec α) → Prop
  | d2 :: d1 :: rest =>
    Carried cfg d1.r.state d1.D.season d2.st d2.D.season ∧ CarriedAll cfg (d1 :: rest)
  | _ => True

theorem setTh_th_congr : ∀ (xs ys : List (Cell α)) (vs : List α),
    ys.map (·.th) = xs.map (·.th) → (setTh ys vs).map (·.th) = (setTh xs vs).map (·.th)
  | [], [], _, _ => rfl
  | [], _ :: _, _, h => by simp at h
  | _ :: _, [], _, h => by simp at h
  | x :: xs, y :: ys, [], h => by simpa [setTh] using h
  | x :: xs, y :: ys, v :: vs, h => by
    simp only [List.map_cons, List.cons.injEq] at h
    simp only [setTh, List.map_cons, List.cons.injEq, true_and]
    exact setTh_th_congr xs ys vs h.2

theorem resetState_carried (cfg : RunCfg α) (crop : CropParams α) (st : DayState' α)
    (season : Int) : Carried cfg st season (resetState cfg crop st) (season + 1) := by
  have h0 : (st.cells.map (fun x => { x with aer := 0 })).map (·.th) = st.cells.map (·.th) := by
    rw [List.map_map]; rfl
  unfold resetState resetStateCore Carried
  simp only
  cases ho : cfg.clock.offSeason with
  | true => left; exact ⟨by simp only [if_true]; exact h0, by simp⟩
  | false =>
    right
    simp only [Bool.false_eq_true, if_false]
    exact ⟨by first | rfl | trivial, by first | rfl | trivial, setTh_th_congr _ _ _ h0,
      by first | rfl | trivial⟩

section carry
variable {F : Fn α} {T : TrigFn α} {cfg : RunCfg α} {s s' : RunState α}

/-- the state a reachable run state holds, relative to the last simulated day -/
def CarryHead (cfg : RunCfg α) (s : RunState α) : Prop :=
  match s.daysRev with
  | d :: _ => Carried cfg d.r.state d.D.season s.day s.season
  | [] => s.day = cfg.init

theorem run_carried_aux (hr : RunReach F T cfg s) : CarryHead cfg s ∧ CarriedAll cfg s.daysRev := by
  induction hr with
  | init h0 =>
    unfold runInit at h0
    split at h0
    · cases h0
    · cases h0; exact ⟨rfl, trivial⟩
  | @step s s' hr hp ih =>
    obtain ⟨ih1, ih2⟩ := ih
    obtain ⟨d, hd, hst, _, hse, _, _⟩ := performR_refines hp
    obtain ⟨ph, r, s1, _, _, hr', hs1, hu⟩ := performR_ok hp
    obtain ⟨c', _, _, hdays, _, hcase⟩ := updateTimeR_ok hu
    have hd1 : s1.daysRev = d :: s.daysRev := by
      have : (checkFinishedR cfg s1).daysRev = s1.daysRev := rfl
      rw [← this, ← hdays]; exact hd
    have hdr : d.r = r := by
      rw [hs1] at hd1
      have := (List.cons.inj hd1).1
      rw [← this]
    have hs1day : (checkFinishedR cfg s1).day = d.r.state := by rw [hdr, hs1]; rfl
    have hs1se : (checkFinishedR cfg s1).season = d.D.season := by rw [hse, hs1]; rfl
    constructor
    · unfold CarryHead
      rw [hd]
      simp only
      rcases hcase with ⟨e1, e2⟩ | ⟨e1, e2⟩
      · left; rw [e2, hs1day]; exact ⟨rfl, rfl⟩
      · rw [e2, hs1day, e1, hs1se]
        exact resetState_carried cfg _ _ _
    · rw [hd]
      cases hds : s.daysRev with
      | nil => trivial
      | cons d1 rest =>
        unfold CarriedAll
        refine ⟨?_, by rw [← hds]; exact ih2⟩
        unfold CarryHead at ih1
        rw [hds] at ih1
        rw [hst, hse]
        exact ih1

/-- **`run_stored_water_carried_over`**: on every reachable state of every run, between any two
consecutive simulated days the water content of every compartment and the ponded water are
carried over unchanged — except at a season start when the off-season is not simulated, where the
water content is the stored initial one (`thini`, copied compartment by compartment) and the ponded
water is `min(bund_water, z_bund)` with bunds higher than 1 mm and 0 otherwise.  No premise. -/
theorem run_stored_water_carried_over (hr : RunReach F T cfg s) : CarriedAll cfg s.daysRev :=
  (run_carried_aux hr).2

/-- … and the state the next day will start from relates in the same way to the last simulated
day -/
theorem run_state_carried (hr : RunReach F T cfg s) : CarryHead cfg s := (run_carried_aux hr).1

/-- with as many `thini` values as compartments, `setTh` writes exactly `thini` -/
theorem carried_thini {prev st2 : DayState' α} {ps s2 : Int}
    (hlen : prev.cells.length = cfg.thini.length) (h : Carried cfg prev ps st2 s2) :
    (st2.cells.map (·.th) = prev.cells.map (·.th) ∧ st2.pond = prev.pond) ∨
    (s2 = ps + 1 ∧ cfg.clock.offSeason = false ∧ st2.cells.map (·.th) = cfg.thini ∧
      st2.pond = resetPond cfg) := by
  rcases h with h | ⟨a, b, c, d⟩
  · exact Or.inl h
  · exact Or.inr ⟨a, b, by rw [c, setTh_th _ _ hlen], d⟩

end carry


/-! ## F. the crop envelope along a run (C05) -/

/-- `CropInv` reads the parameters only through the crop record -/
theorem cropInv_of_cx_eq {F : Fn α} {P P' : DayParams α} {st : DayState' α} (h : P.cx = P'.cx)
    (hi : CropInv F P st) : CropInv F P' st := by
  obtain ⟨W, fm, z, cx⟩ := P
  obtain ⟨W', fm', z', cx'⟩ := P'
  simp only at h
  subst h
  exact ⟨hi.cc, ⟨hi.root.tr0, hi.root.tr1, hi.root.season⟩,
    ⟨hi.hi.fPre, hi.hi.fPost, hi.hi.sCor1, hi.hi.sCor2, hi.hi.upp, hi.hi.dwn, hi.hi.hi_le,
     hi.hi.adj_le, hi.hi.fin0, hi.hi.fut⟩, hi.bio⟩

/-- what a season's crop must satisfy for the reset state to be inside its envelope -/
structure ResetCropOK (c : CropParams α) : Prop where
  cc0 : 0 ≤ c.cx.cc.cc0
  ccx : 0 ≤ c.cx.cc.ccx
  hi0 : 0 ≤ c.cx.hi.hi0
  hiIni : -0.004 ≤ c.cx.hi.hiIni

/-- the state `reset_initial_conditions` leaves is inside the envelope of the new season's crop -/
theorem resetState_cropInv {F : Fn α} (cfg : RunCfg α) (crop : CropParams α) (st : DayState' α)
    (P : DayParams α) (hP : P.cx = crop.cx) (hc : ResetCropOK crop) :
    CropInv F P (resetState cfg crop st) := by
  obtain ⟨W, fm, z, cx⟩ := P
  simp only at hP
  subst hP
  refine ⟨⟨?_, ?_, ?_, ?_, ?_, ?_, ?_, ?_, ?_⟩, ⟨?_, ?_, ?_⟩, ⟨?_, ?_, ?_, ?_, ?_, ?_, ?_, ?_, ?_, ?_⟩,
    ⟨?_, ?_⟩⟩
  all_goals simp only [resetState, resetStateCore]
  · exact le_refl _
  · exact le_refl _
  · exact hc.ccx
  · exact hc.cc0
  · exact le_refl _
  · exact hc.ccx
  · exact hc.ccx
  · exact zero_le_one
  · exact zero_le_one
  · exact zero_le_one
  · exact le_refl _
  · intro h; exact absurd rfl h
  · exact zero_le_one
  · exact zero_le_one
  · exact le_refl _
  · exact le_refl _
  · exact zero_le_one
  · exact zero_le_one
  · exact hc.hi0
  · rw [mul_zero]
  · exact hc.hi0
  · intro q _ hq
    exact hiref_nonneg F _ q true hc.hi0 hc.hiIni (le_trans hc.hi0 hq)
  · exact le_refl _
  · exact le_refl _

/-- the premises of `fullDay_cropInv` for one simulated day -/
structure DayCropOK (F : Fn α) (T : TrigFn α) (d : DayRec α) : Prop where
  cc : CcCropPre F d.P
  root : RootPre F d.P d.st.cells
  hi : HiPre F T d.P d.D
  wpy0 : 0 ≤ d.P.cx.bio.wpy
  wpy1 : d.P.cx.bio.wpy ≤ 100
  wp : 0 ≤ d.P.cx.bio.wp * d.P.cx.bio.fco2
  rw : Rewatering d.P d.st d.D d.r.trace → d.r.state.ccxAct ≤ d.P.cx.cc.ccx
  sw : d.D.gs = true → 0 < d.r.state.hiRef →
    BioSwitchOK d.P.cx.bio (natNum d.r.growth.dap) d.r.state.delayedCds d.r.state.pctLagPhase
  tr : d.D.gs = true → 0 ≤ d.r.flux.tr ∧ d.r.flux.tr ≤ d.r.water.trPotNS
  et : d.D.gs = true → 0 < d.D.et0

section cropRun
variable {F : Fn α} {T : TrigFn α} {cfg : RunCfg α} {s s' : RunState α}

theorem paramsOf_cx (cfg : RunCfg α) (season : Int) (gs gs' : Bool) :
    (paramsOf cfg season gs).cx = (paramsOf cfg season gs').cx := rfl

/-- **`run_cropInv` (C05 along a run)**: the crop envelope `CropInv` — for the crop the day
function uses while the season counter has its current value — holds in every reachable state of
every run, provided it holds initially, every season's crop satisfies `ResetCropOK`, and every
simulated day satisfies `DayCropOK`; moreover every simulated day started inside the envelope. -/
theorem run_cropInv (hr : RunReach F T cfg s) (hs0 : -1 ≤ cfg.clock.season0)
    (h0 : CropInv F (paramsOf cfg cfg.clock.season0 false) cfg.init)
    (hreset : ∀ k, ResetCropOK (cfg.seasonCrop k))
    (hOK : ∀ d ∈ s.daysRev, DayCropOK F T d) :
    -1 ≤ s.season ∧ CropInv F (paramsOf cfg s.season false) s.day ∧
      ∀ d ∈ s.daysRev, CropInv F d.P d.st ∧ CropInv F d.P d.r.state := by
  induction hr with
  | init hi =>
    unfold runInit at hi
    split at hi
    · cases hi
    · rename_i c hc
      cases hi
      unfold Clock.init at hc
      split_ifs at hc
      cases hc
      exact ⟨hs0, h0, fun d hd => by cases hd⟩
  | @step s s' hr hp ih =>
    obtain ⟨d, hd, hst, _, hse, hday, _⟩ := performR_refines hp
    obtain ⟨hlo, hinv, hdays⟩ :=
      ih (fun d' hd' => hOK d' (by rw [hd]; exact List.mem_cons_of_mem _ hd'))
    obtain ⟨ph, r, s1, _, _, hr', hs1, hu⟩ := performR_ok hp
    obtain ⟨c', _, _, hdays', _, hcase⟩ := updateTimeR_ok hu
    have hd1 : s1.daysRev = d :: s.daysRev := by
      have : (checkFinishedR cfg s1).daysRev = s1.daysRev := rfl
      rw [← this, ← hdays']; exact hd
    have hdP : d.P = paramsOf cfg s.season (dayInOf cfg s ph).gs ∧ d.r = r := by
      rw [hs1] at hd1
      have := (List.cons.inj hd1).1
      rw [← this]; exact ⟨rfl, rfl⟩
    have ok := hOK d (by rw [hd]; exact List.mem_cons_self)
    have hin : CropInv F d.P d.st := by
      rw [hst]
      exact cropInv_of_cx_eq (by rw [hdP.1]; rfl) hinv
    have hout : CropInv F d.P d.r.state :=
      fullDay_cropInv hday hin ok.cc ok.root ok.hi ok.wpy0 ok.wpy1 ok.wp ok.rw ok.sw ok.tr ok.et
    have hs1day : (checkFinishedR cfg s1).day = d.r.state := by rw [hdP.2, hs1]; rfl
    have hs1se : (checkFinishedR cfg s1).season = s.season := by rw [hs1]; rfl
    refine ⟨?_, ?_, ?_⟩
    · rcases hcase with ⟨e, _⟩ | ⟨e, _⟩ <;> rw [e, hs1se] <;> omega
    · rcases hcase with ⟨e1, e2⟩ | ⟨e1, e2⟩
      · rw [e2, hs1day, e1, hs1se]
        exact cropInv_of_cx_eq (by rw [hdP.1]; rfl) hout
      · rw [e2]
        have hpos : 0 ≤ s'.season := by rw [e1, hs1se]; omega
        apply resetState_cropInv cfg _ _ _ _ (hreset _)
        show (cropOf cfg s'.season).cx = _
        unfold cropOf
        rw [if_pos hpos]
    · intro d' hd'
      rw [hd] at hd'
      rcases List.mem_cons.mp hd' with rfl | hd'
      · exact ⟨hin, hout⟩
      · exact hdays d' hd'

end cropRun


/-! ## Non-vacuity: a concrete run over `ℚ`

The day of `FullDayExample` (same soil, crop, weather every day) started as a fresh season on the
planting date, window of 6 days, harvest date after the window: two `_perform_timestep`s succeed,
both days are growing-season days 1 and 2 after planting, and the state is reachable. -/

namespace RunExample
open DayExample FullDayExample

def cropq' : CropParams ℚ := { cw := Wq.crop, cx := cxq }
def cfgq : RunCfg ℚ :=
  { clock := { n := 6, planting := [0], harvest := [9], offSeason := false, season0 := 0 },
    W0 := Wq, zGerm := 0.3,
    irr := { irr := Wq.irr, netIrrSMT := 80, wetSurf := 100, sched := fun _ => none },
    fallowIrr := { irr := { Wq.irr with method := 0 }, netIrrSMT := 80, wetSurf := 100,
                   sched := fun _ => none },
    fm := fmq, fallowFm := fmq, bundWater := 0, fallowCrop := cropq', seasonCrop := fun _ => cropq',
    co2Cur := fun _ => 369, weather := fun _ => { tmin := 15, tmax := 25, rain := 20, et0 := 5 },
    zgw := fun _ => 1, thini := [0.2, 0.25, 0.35, 0.3],
    init := { stq with dap := 0, gddCum := 0, zRoot := 0, germination := false, cc := 0,
                       ccNS := 0, ccxAct := 0, ccxActNS := 0, ccxW := 0, ccxWNS := 0, ccPrev := 0,
                       ccAdj := 0, ccAdjNS := 0, growthStage := 0, biomass := 0, biomassNS := 0,
                       hi := 0, hiAdj := 0, hiRef := 0, yieldForm := false, pctLagPhase := 0,
                       preAdj := false, fPol := 0 } }

theorem runsB :
    (match runInit cfgq with
     | .error _ => false
     | .ok s0 =>
       match runStepsR Fq Tq cfgq 2 s0 with
       | .ok s => decide (s.t = 2 ∧ s.season = 0 ∧ s.finished = false ∧ s.day.dap = 2 ∧
           (s.daysRev.map (·.D.gs)) = [true, true] ∧ (s.daysRev.map (·.D.tsc)) = [1, 0] ∧
           s.day.zRoot = 0.2 ∧ s.summaryTable.length = 0)
       | .error _ => false) = true := by decide +kernel

/-- a reachable run state with two simulated growing-season days -/
theorem reach : ∃ s, RunReach Fq Tq cfgq s ∧ s.t = 2 ∧ s.day.dap = 2 ∧ s.daysRev.length = 2 := by
  have h := runsB
  cases h0 : runInit cfgq with
  | error e => rw [h0] at h; simp at h
  | ok s0 =>
    rw [h0] at h
    simp only at h
    cases h1 : runStepsR Fq Tq cfgq 2 s0 with
    | error e => rw [h1] at h; simp at h
    | ok s =>
      rw [h1] at h
      simp only [decide_eq_true_eq] at h
      refine ⟨s, runReach_runSteps 2 (RunReach.init h0) h1, h.1, h.2.2.2.1, ?_⟩
      have := congrArg List.length h.2.2.2.2.1
      simpa using this

end RunExample

end Aqua

#print axioms Aqua.performR_refines
#print axioms Aqua.run_refines_clock
#print axioms Aqua.run_days_increasing
#print axioms Aqua.run_inv
#print axioms Aqua.run_pond_bounds
#print axioms Aqua.run_closes
#print axioms Aqua.run_stored_water_carried_over
#print axioms Aqua.run_state_carried
#print axioms Aqua.run_cropInv
#print axioms Aqua.RunExample.reach
