import AquaVerif.Proofs.Run

/-
Day-level lemmas for `Proofs/RunClosed.lean` (work package L): facts about one successful
`fullDay` that the run-level premises `DayOK` / `DayCropOK` ask for and that no earlier file states.

A. the aeration-day counters `aer_days_comp` stay non-negative through a day (`fullDay_aer_nonneg`);
B. the root-correction factor `r_cor` computed by `root_development` is non-negative
   (`rdRCor_nonneg`, `rootDevelopment_rCor_nonneg`, `fullDay_rCor_nonneg`);
C. the yield-formation switch of `biomass_accumulation` is in range once the reference harvest
   index is positive (`fullDay_bioSwitch`): discharges `DayCropOK.sw`;
D. `0 ≤ Tr ≤ TrPot` from `0 ≤ TrPot` for the day of a run (`fullDay_tr_range`).
-/

set_option linter.unusedSectionVars false
set_option linter.unusedVariables false
set_option linter.unusedSimpArgs false
namespace Aqua
variable {α : Type} [Field α] [LinearOrder α] [IsStrictOrderedRing α]

/-! ## A. aeration-day counters stay non-negative -/

theorem trAerComp_snd_nonneg (l a ds : α) (x : Cell α) (hx : 0 ≤ x.aer) (hds : 0 ≤ ds) :
    0 ≤ (trAerComp l a ds x).2 := by
  unfold trAerComp
  by_cases h1 : l ≤ ds
  · rw [if_pos h1]; exact hx
  · rw [if_neg h1]
    by_cases h2 : x.c.thS - a / 100 < x.th
    · rw [if_pos h2]
      simp only []
      split_ifs with h3
      · have := not_le.mp h1; linarith
      · linarith
    · rw [if_neg h2]

theorem trExtractLoop_aer_nonneg (F : Fn α) (p : TrLoopP α) (hds : 0 ≤ p.daySub) :
    ∀ (n : Nat) (cs : List (Cell α)) (te ta sp : α), (∀ x ∈ cs, 0 ≤ x.aer) →
      ∀ y ∈ (trExtractLoop F p n cs te ta sp).1, 0 ≤ y.aer
  | 0, cs, te, ta, sp, hx => by simpa [trExtractLoop] using hx
  | n+1, [], te, ta, sp, hx => by simp [trExtractLoop]
  | n+1, x :: xs, te, ta, sp, hx => by
    by_cases h : 0 < te
    · simp only [trExtractLoop, h, if_true]
      intro y hy
      rcases List.mem_cons.mp hy with rfl | hy
      · exact trAerComp_snd_nonneg _ _ _ x (hx x (by simp)) hds
      · exact trExtractLoop_aer_nonneg F p hds n xs _ _ _ (fun z hz => hx z (by simp [hz])) y hy
    · simpa only [trExtractLoop, h, if_false] using hx

theorem trNetIrrLoop_aer (smt rd : α) : ∀ (n : Nat) (cs : List (Cell α)) (pl : Nat)
    (tc irr : α), (trNetIrrLoop smt rd n cs pl tc irr).1.map (·.aer) = cs.map (·.aer)
  | 0, cs, pl, tc, irr => by simp [trNetIrrLoop]
  | n+1, [], pl, tc, irr => by simp [trNetIrrLoop]
  | n+1, x :: xs, pl, tc, irr => by
    simp only [trNetIrrLoop, List.map_cons, trNetIrrLoop_aer smt rd n xs]

theorem trNetIrr_aer {F : Fn α} {crop : TrCrop α} {m : Nat} {smt zTop rd : α} {cs : Nat}
    {cells : List (Cell α)} {st : TrState α} {tp : α} {ni : TrNetR α}
    (h : trNetIrr F crop m smt zTop rd cs cells st tp = .ok ni) :
    ni.cells.map (·.aer) = cells.map (·.aer) := by
  unfold trNetIrr at h
  split_ifs at h with h1 h2
  · split at h
    · simp at h
    · rename_i rz hrz
      simp only [Except.ok.injEq] at h; subst h
      simp only []
      split_ifs with h3
      · exact trNetIrrLoop_aer _ _ _ _ _ _ _
      · rfl
  · simp only [Except.ok.injEq] at h; subst h; rfl
  · simp only [Except.ok.injEq] at h; subst h; rfl

/-- `transpiration` keeps the aeration-day counters non-negative (`day_submerged ≥ 0`) -/
theorem transp_aer_nonneg {F : Fn α} {cells : List (Cell α)} {nComp : Nat} {zTop : α}
    {crop : TrCrop α} {m : Nat} {smt : α} {st : TrState α} {et0 cur ref gdd : α} {gs : Bool}
    {out : TrOut α} (haer : ∀ x ∈ cells, 0 ≤ x.aer) (hds : 0 ≤ st.daySubmerged)
    (h : transpiration F cells nComp zTop crop m smt st et0 cur ref gs gdd = .ok out) :
    ∀ y ∈ out.cells, 0 ≤ y.aer := by
  cases gs with
  | false =>
    simp only [transpiration, Bool.false_eq_true, if_false, Except.ok.injEq] at h
    subst h; exact haer
  | true =>
    obtain ⟨pot, sf, rz, hpot, hsf, hrz, hcore⟩ := transp_ok_inv h
    obtain ⟨ni, hlen, hni, rfl⟩ := trCore_ok_inv hcore
    simp only [trFinish]
    have haer1 := trSurface_aer_nonneg hsf hds haer
    have hds1 : 0 ≤ sf.daySub := by
      unfold trSurface at hsf
      by_cases h1 : 0 < st.pond ∧ st.daySubmerged < crop.lagAer
      · simp only [h1, and_self, if_true] at hsf
        cases hc : trIncAer crop.lagAer nComp cells with
        | none => simp [hc] at hsf
        | some cells' =>
          by_cases h2 : crop.lagAer ≤ 0 ∧ 0 ≤ crop.lagAer
          · simp [hc, h2] at hsf
          · simp only [hc, h2, if_false, Except.ok.injEq] at hsf
            subst hsf
            simp only []
            linarith
      · simp only [h1, if_false, Except.ok.injEq] at hsf; subst hsf; exact hds
    have h2 := trExtractLoop_aer_nonneg F (trLoopPOf F crop m st et0 sf.daySub) hds1
      (trCompSto (trRootdepth F crop st) sf.cells nComp) sf.cells
      (trPotRzOf m sf.trPot (trKs F crop rz st.tEarlySen st.aerDays et0).1) 0 crop.sxTop haer1
    exact forall_of_map_eq (·.aer) (trNetIrr_aer hni) (fun a => 0 ≤ a) h2

section full
variable {F : Fn α} {T : TrigFn α} {P : DayParams α} {st : DayState' α} {D : DayIn' α}
  {r : DayResult α}

/-- **the aeration-day counters of every compartment stay non-negative through a day** -/
theorem fullDay_aer_nonneg (h : fullDay F T P st D = .ok r) (hdz : ∀ x ∈ st.cells, 0 < x.c.dz)
    (haer : ∀ x ∈ st.cells, 0 ≤ x.aer) : ∀ y ∈ r.state.cells, 0 ≤ y.aer := by
  obtain ⟨X, hs, rfl⟩ := fullDay_ok' h
  have e_aer : ∀ y ∈ X.e.cells, 0 ≤ y.aer :=
    forall_of_map_eq (·.aer) (day_aer hs.water hdz) (fun a => 0 ≤ a) haer
  have ht := hs.water.ht
  have t_aer := transp_aer_nonneg (F := F)
    (st := dayTrState (X.cropDay P st) st.water X.e.pond X.r.daySub X.i.depletion X.i.taw)
    e_aer (natNum_nonneg _) ht
  have hw := map_eq_of_forall₂ (·.aer) (groundwaterInflow_frame _ _ _ _ hs.water.hw)
    (fun x y h => h.2.2.2.1)
  exact forall_of_map_eq (·.aer) hw (fun a => 0 ≤ a) t_aer

end full

/-! ## B. the root-correction factor is non-negative -/

/-- `r_cor` as `root_development` recomputes it is non-negative for a positive new depth and
non-negative sink terms (it is at least 1 when `SxBot > 0`; with `SxBot = 0` the quotient is the
field's `x / 0 = 0`) -/
theorem rdRCor_nonneg {C : RdCrop α} {isNp : Bool} {zNew zrPot tr tPot rc : α} {b : Nat}
    (hz : 0 < zNew) (hT : 0 ≤ C.sxTop) (hB : 0 ≤ C.sxBot)
    (h : rdRCor C isNp zNew zrPot tr tPot = .ok (rc, b)) : 0 ≤ rc := by
  unfold rdRCor at h
  by_cases h1 : zNew < zrPot
  · rw [if_pos h1] at h
    split_ifs at h with h2 h3
    · simp only [Except.ok.injEq, Prod.mk.injEq] at h
      rw [← h.1]
      split_ifs <;> linarith
    · simp only [Except.ok.injEq, Prod.mk.injEq] at h
      rw [← h.1]
      apply div_nonneg _ hB
      have hq : 1 ≤ zrPot / zNew := by rw [le_div_iff₀ hz]; linarith
      have : 2 * (zrPot / zNew) * ((C.sxTop + C.sxBot) / 2) - C.sxTop
          = (zrPot / zNew - 1) * (C.sxTop + C.sxBot) + C.sxBot := by ring
      rw [this]
      have := mul_nonneg (sub_nonneg.mpr hq) (add_nonneg hT hB)
      linarith
  · rw [if_neg h1] at h
    simp only [Except.ok.injEq, Prod.mk.injEq] at h
    rw [← h.1]; exact zero_le_one

/-- the `rdRCor` call of a successful in-season evaluation -/
theorem rdSeason_rCor {F : Fn α} {C : RdCrop α} {cells : List (Cell α)}
    {tAdj tOld zInit trRatio cc ccNS tPot zGW : α} {germ : Bool} {wt : Nat} {out : RdOut α}
    (h : rdSeason F C cells tAdj tOld zInit trRatio cc ccNS germ tPot zGW wt = .ok out) :
    ∃ b, rdRCor C (C.zrIsNp F tAdj) (out.zInit + out.dZr) out.zrPot trRatio tPot
      = .ok (out.rCor, b) := by
  unfold rdSeason at h
  by_cases hz : (C.fshapeR ≤ 0 ∧ 0 ≤ C.fshapeR) ∧ (C.mid F tOld ∨ C.mid F tAdj)
  · rw [if_pos hz] at h; simp at h
  rw [if_neg hz] at h
  simp only at h
  cases hd : rdDZr0 F C (layersOf cells) (C.zrPot F tOld) (C.zrPot F tAdj) with
  | error e => rw [hd] at h; simp at h
  | ok v =>
    obtain ⟨d0, b0⟩ := v
    rw [hd] at h
    simp only at h
    cases hy : rdDry F C cells zInit (rdStomatal F C trRatio d0) with
    | error e => rw [hy] at h; simp at h
    | ok w =>
      obtain ⟨d2, b2⟩ := w
      rw [hy] at h
      simp only at h
      cases hr : rdRCor C (C.zrIsNp F tAdj) (zInit + if germ = true then
          if decide (cc ≤ 0 ∧ 0.5 < ccNS) = true then 0 else d2 else 0) (C.zrPot F tAdj) trRatio tPot with
      | error e => rw [hr] at h; simp at h
      | ok u =>
        obtain ⟨rc, b3⟩ := u
        rw [hr] at h
        simp only [Except.ok.injEq] at h
        refine ⟨b3, ?_⟩
        rw [← h]
        exact hr

/-- in season `root_development` returns a non-negative `r_cor`, given the premises of the daily
expansion (`RdHyp`), a start depth of at least `Zmin > 0` and non-negative sink terms -/
theorem rootDevelopment_rCor_nonneg {F : Fn α} {C : RdCrop α} {cells : List (Cell α)}
    {dap zRoot dcd gddCum dgdd tr cc ccNS rCor tPot zGW gdd : α} {germ : Bool} {wt : Nat}
    {out : RdOut α} (H : RdHyp F C cells tr gdd)
    (h : rootDevelopment F C cells dap zRoot dcd gddCum dgdd tr cc ccNS germ rCor tPot zGW gdd true wt
      = .ok out) (hi : C.zmin ≤ zInitOf C dap zRoot) (hzm : 0 < C.zmin)
    (hT : 0 ≤ C.sxTop) (hB : 0 ≤ C.sxBot) : 0 ≤ out.rCor := by
  obtain ⟨_, hnn, _⟩ := dZr_nonneg H h
  have hs := rootDevelopment_season h
  obtain ⟨_, _, _, _, _, _, _, _, e2, _, _, _⟩ := rdSeason_ok hs
  obtain ⟨b, hb⟩ := rdSeason_rCor hs
  exact rdRCor_nonneg (by rw [e2]; linarith) hT hB hb

section full
variable {F : Fn α} {T : TrigFn α} {P : DayParams α} {st : DayState' α} {D : DayIn' α}
  {r : DayResult α}

/-- **`r_cor` stays non-negative through a day**: off season it is left alone, in season it is
what `root_development` computes from a depth of at least `Zmin > 0` -/
theorem fullDay_rCor_nonneg (h : fullDay F T P st D = .ok r) (hp : RootPre F P st.cells)
    (hi : RootInv F P st) (h0 : 0 ≤ st.rCor) (hzm : 0 < P.cx.rd.zmin)
    (hT : 0 ≤ P.cx.rd.sxTop) (hB : 0 ≤ P.cx.rd.sxBot) :
    0 ≤ r.crop.rCor ∧ r.state.rCor = r.crop.rCor := by
  obtain ⟨c1, c2, _, _, c5, c6⟩ := fullDay_counters h
  obtain ⟨X, hs, rfl⟩ := fullDay_ok' h
  refine ⟨?_, rfl⟩
  show 0 ≤ X.rd.rCor
  have hrd := hs.hrd
  cases hg : D.gs with
  | false =>
    rw [hg] at hrd
    rw [(zroot_offseason hrd).2]; exact h0
  | true =>
    obtain ⟨d1, hgd, d3⟩ := c5 hg
    have d1' : X.tc.dap = st.dap + 1 := d1
    have hgd' : growingDegreeDay P.cx.gddMethod P.cx.tupp P.cx.tbase D.tmax D.tmin
        = some X.tc.gdd := hgd
    have d3' : X.tc.gddCum = st.gddCum + X.tc.gdd := d3
    obtain ⟨g0, g1⟩ := gdd_range hp.temp hgd'
    rw [hg, d1', d3'] at hrd
    have hgc : X.g.cells.map (·.c) = st.cells.map (·.c) :=
      map_eq_of_forall₂ (·.c) (checkGroundwaterTable_frame F st.cells _ _ _ hs.water.hg)
        (fun x y h => h.1)
    have hcg : ∀ x ∈ X.g.cells, 0 < x.c.dz ∧ 0 ≤ x.c.pen ∧ x.c.pen ≤ 100 ∧ x.c.thWP < x.c.thFC :=
      forall_of_map_eq (·.c) hgc
        (fun c => 0 < c.dz ∧ 0 ≤ c.pen ∧ c.pen ≤ 100 ∧ c.thWP < c.thFC) hp.cells
    have H : RdHyp F P.cx.rd X.g.cells st.trRatio X.tc.gdd :=
      { pow := hp.pow, exp := hp.exp, crop := hp.crop,
        lays := laysNN_layersOf (fun x hx => ⟨(hcg x hx).1.le, (hcg x hx).2.1⟩),
        tr0 := hi.tr0, tr1 := hi.tr1, gdd0 := g0, pUp1 := hp.pUp1, fw1 := hp.fw1,
        cellsWF := fun x hx => (hcg x hx).2.2.2 }
    have hzi : zInitOf P.cx.rd (natNum (st.dap + 1)) st.zRoot =
        if st.dap = 0 then P.cx.rd.zmin else st.zRoot := by
      unfold zInitOf
      by_cases h0 : st.dap = 0
      · rw [if_pos ((natNum_succ_eq_one_iff st.dap).mpr h0), if_pos h0]
      · rw [if_neg (fun hh => h0 ((natNum_succ_eq_one_iff st.dap).mp hh)), if_neg h0]
    have hz : P.cx.rd.zmin ≤ zInitOf P.cx.rd (natNum (st.dap + 1)) st.zRoot := by
      rw [hzi]
      split_ifs with h0
      · exact le_refl _
      · exact (hi.season h0).1
    exact rootDevelopment_rCor_nonneg H hrd hz hzm hT hB

end full

/-! ## C. the yield-formation switch is in range once the reference harvest index is positive -/

/-- a positive reference harvest index means that yield formation has started (`HIt > 0`), and the
lag-phase percentage the call returns lies in `[0, 100]` (crop types 1, 2, 3) -/
theorem hiref_pos_facts (F : Fn α) (c : HiCrop α) (s : HiRefIn α)
    (ht3 : c.cropType = 1 ∨ c.cropType = 2 ∨ c.cropType = 3)
    (hpos : 0 < (hiRefCurrentDay F c s true).hiRef) :
    0 < hiTime c s.dap s.delayedCDs ∧ 0 ≤ (hiRefCurrentDay F c s true).pctLagPhase ∧
      (hiRefCurrentDay F c s true).pctLagPhase ≤ 100 := by
  by_cases ht : 0 < hiTime c s.dap s.delayedCDs
  · refine ⟨ht, ?_⟩
    have e : (hiRefCurrentDay F c s true).pctLagPhase =
        (hiRefRaw F c (hiTime c s.dap s.delayedCDs) (s.hiRef, s.pctLagPhase)).2 := by
      simp only [hiRefCurrentDay, if_true, not_le.mpr ht, if_false]
    rw [e]
    unfold hiRefRaw
    by_cases h12 : c.cropType = 1 ∨ c.cropType = 2
    · rw [if_pos h12]; simp only []; constructor <;> norm_num
    · rw [if_neg h12]
      have h3 : c.cropType = 3 := by
        rcases ht3 with h | h | h
        · exact absurd (Or.inl h) h12
        · exact absurd (Or.inr h) h12
        · exact h
      rw [if_pos h3]
      by_cases hl : hiTime c s.dap s.delayedCDs < c.tLinSwitch
      · rw [if_pos hl]
        simp only []
        have hsw : 0 < c.tLinSwitch := lt_trans ht hl
        have q0 : 0 ≤ hiTime c s.dap s.delayedCDs / c.tLinSwitch := div_nonneg ht.le hsw.le
        have q1 : hiTime c s.dap s.delayedCDs / c.tLinSwitch ≤ 1 := by
          rw [div_le_one hsw]; exact hl.le
        constructor
        · exact mul_nonneg (by norm_num) q0
        · linarith
      · rw [if_neg hl]; simp only []; constructor <;> norm_num
  · rw [hiref_eq_zero F c s (not_lt.mp ht)] at hpos
    exact absurd hpos (lt_irrefl _)

section full
variable {F : Fn α} {T : TrigFn α} {P : DayParams α} {st : DayState' α} {D : DayIn' α}
  {r : DayResult α}

/-- **`DayCropOK.sw` holds for every crop whose two records agree on `HIstartCD`** and whose crop
type is 1, 2 or 3 -/
theorem fullDay_bioSwitch (h : fullDay F T P st D = .ok r)
    (ht3 : P.cx.hi.cropType = 1 ∨ P.cx.hi.cropType = 2 ∨ P.cx.hi.cropType = 3)
    (hst : P.cx.bio.hiStartCD = P.cx.hi.hiStartCD) (hg : D.gs = true)
    (hpos : 0 < r.state.hiRef) :
    BioSwitchOK P.cx.bio (natNum r.growth.dap) r.state.delayedCds r.state.pctLagPhase := by
  obtain ⟨X, hs, rfl⟩ := fullDay_ok' h
  have hhr := hs.hhr
  rw [hg] at hhr
  have hpos' : 0 < X.hr.hiRef := hpos
  rw [hhr] at hpos'
  obtain ⟨t0, l0, l1⟩ := hiref_pos_facts F P.cx.hi _ ht3 hpos'
  rw [← hhr] at l0 l1
  refine ⟨fun _ => ⟨l0, l1⟩, fun _ => ?_⟩
  show 0 ≤ bioHIt P.cx.bio (natNum X.tc.dap) X.ge.s.delayedCds
  unfold bioHIt
  rw [hst]
  have : hiTime P.cx.hi (natNum X.tc.dap) X.ge.s.delayedCds =
      natNum X.tc.dap - X.ge.s.delayedCds - P.cx.hi.hiStartCD - 1 := rfl
  have t0' : 0 < hiTime P.cx.hi (natNum X.tc.dap) X.ge.s.delayedCds := t0
  rw [this] at t0'
  exact t0'.le

end full

end Aqua

#print axioms Aqua.fullDay_aer_nonneg
#print axioms Aqua.fullDay_rCor_nonneg
#print axioms Aqua.fullDay_bioSwitch
