import AquaVerif.Model.Yield
import AquaVerif.Proofs.Basic
/-
Lemmas about `biomass_accumulation` and the yield step (daily identities of property C06), at an
arbitrary linearly ordered field.
-/

set_option linter.unusedSectionVars false
namespace Aqua
variable {α : Type} [Field α] [LinearOrder α] [IsStrictOrderedRing α]

/-- the premise under which `fswitch ∈ [0,1]`: a determinant crop has its lag-phase percentage in
`[0,100]`, any other crop has reached the start of yield formation (`HIt ≥ 0`) -/
def BioSwitchOK (crop : BioCrop α) (dap delayedCDs pctLag : α) : Prop :=
  (crop.determinant = 1 → 0 ≤ pctLag ∧ pctLag ≤ 100) ∧
  (crop.determinant ≠ 1 → 0 ≤ bioHIt crop dap delayedCDs)

theorem bioFswitch_range (crop : BioCrop α) (dap delayedCDs pctLag : α)
    (h : BioSwitchOK crop dap delayedCDs pctLag) :
    0 ≤ bioFswitch crop (bioHIt crop dap delayedCDs) pctLag ∧
      bioFswitch crop (bioHIt crop dap delayedCDs) pctLag ≤ 1 := by
  unfold bioFswitch
  by_cases hd : crop.determinant = 1
  · obtain ⟨h0, h1⟩ := h.1 hd
    simp only [hd, if_true]
    exact ⟨div_nonneg h0 (by norm_num), by rw [div_le_one (by norm_num)]; exact h1⟩
  · have h0 := h.2 hd
    simp only [hd, if_false]
    split_ifs with hlt
    · have hpos : 0 < crop.yldFormCD / 3 := lt_of_le_of_lt h0 hlt
      exact ⟨div_nonneg h0 hpos.le, by rw [div_le_one hpos]; exact hlt.le⟩
    · exact ⟨zero_le_one, le_refl _⟩

/-- the yield-formation adjustment scales `WP` by a factor in `[WPy/100, 1]` -/
theorem bioWPadj_bounds (crop : BioCrop α) (dap delayedCDs hiRef pctLag : α)
    (hy0 : 0 ≤ crop.wpy) (hy1 : crop.wpy ≤ 100) (hw : 0 ≤ crop.wp * crop.fco2)
    (h : BioSwitchOK crop dap delayedCDs pctLag) :
    crop.wp * crop.fco2 * (crop.wpy / 100) ≤ bioWPadj crop dap delayedCDs hiRef pctLag ∧
      bioWPadj crop dap delayedCDs hiRef pctLag ≤ crop.wp * crop.fco2 := by
  obtain ⟨f0, f1⟩ := bioFswitch_range crop dap delayedCDs pctLag h
  have y0 : 0 ≤ crop.wpy / 100 := div_nonneg hy0 (by norm_num)
  have y1 : crop.wpy / 100 ≤ 1 := by rw [div_le_one (by norm_num)]; exact hy1
  unfold bioWPadj bioWPadj0
  split_ifs
  · set f := bioFswitch crop (bioHIt crop dap delayedCDs) pctLag
    have e : crop.wp * (1 - (1 - crop.wpy / 100) * f) * crop.fco2 =
        crop.wp * crop.fco2 * (1 - (1 - crop.wpy / 100) * f) := by ring
    rw [e]
    have k1 : crop.wpy / 100 ≤ 1 - (1 - crop.wpy / 100) * f := by nlinarith
    have k2 : 1 - (1 - crop.wpy / 100) * f ≤ 1 := by nlinarith
    exact ⟨mul_le_mul_of_nonneg_left k1 hw, by nlinarith⟩
  · exact ⟨by nlinarith, le_refl _⟩

/-- in the growing season the biomass grows by `WPadj · Tr/ET0` (the `NaN → 0` replacement never
fires in an ordered field), the no-stress biomass by `WPadj · TrPot/ET0` -/
theorem biomass_step (crop : BioCrop α) (dap delayedCDs hiRef pctLag b bNS tr trPot et0 : α) :
    biomassAccumulation crop dap delayedCDs hiRef pctLag b bNS tr trPot et0 true =
      (b + bioWPadj crop dap delayedCDs hiRef pctLag * (tr / et0),
       bNS + bioWPadj crop dap delayedCDs hiRef pctLag * (trPot / et0)) := by
  simp [biomassAccumulation]

theorem biomass_offseason (crop : BioCrop α) (dap delayedCDs hiRef pctLag b bNS tr trPot et0 : α) :
    biomassAccumulation crop dap delayedCDs hiRef pctLag b bNS tr trPot et0 false = (0, 0) := by
  simp [biomassAccumulation]

/-- bounds on the daily biomass gain -/
theorem biomass_gain_bounds (crop : BioCrop α) (dap delayedCDs hiRef pctLag b bNS tr trPot et0 : α)
    (hy0 : 0 ≤ crop.wpy) (hy1 : crop.wpy ≤ 100) (hw : 0 ≤ crop.wp * crop.fco2)
    (h : BioSwitchOK crop dap delayedCDs pctLag) (htr : 0 ≤ tr) (het : 0 < et0) :
    b + crop.wp * crop.fco2 * (crop.wpy / 100) * (tr / et0) ≤
        (biomassAccumulation crop dap delayedCDs hiRef pctLag b bNS tr trPot et0 true).1 ∧
      (biomassAccumulation crop dap delayedCDs hiRef pctLag b bNS tr trPot et0 true).1 ≤
        b + crop.wp * crop.fco2 * (tr / et0) := by
  rw [biomass_step]
  obtain ⟨l, u⟩ := bioWPadj_bounds crop dap delayedCDs hiRef pctLag hy0 hy1 hw h
  have q : 0 ≤ tr / et0 := div_nonneg htr het.le
  simp only []
  exact ⟨by have := mul_le_mul_of_nonneg_right l q; linarith,
    by have := mul_le_mul_of_nonneg_right u q; linarith⟩

/-- biomass never decreases during the growing season -/
theorem biomass_nondecreasing (crop : BioCrop α) (dap delayedCDs hiRef pctLag b bNS tr trPot et0 : α)
    (hy0 : 0 ≤ crop.wpy) (hy1 : crop.wpy ≤ 100) (hw : 0 ≤ crop.wp * crop.fco2)
    (h : BioSwitchOK crop dap delayedCDs pctLag) (htr : 0 ≤ tr) (het : 0 < et0) :
    b ≤ (biomassAccumulation crop dap delayedCDs hiRef pctLag b bNS tr trPot et0 true).1 := by
  obtain ⟨l, _⟩ := biomass_gain_bounds crop dap delayedCDs hiRef pctLag b bNS tr trPot et0 hy0 hy1
    hw h htr het
  have : 0 ≤ crop.wp * crop.fco2 * (crop.wpy / 100) * (tr / et0) :=
    mul_nonneg (mul_nonneg hw (div_nonneg hy0 (by norm_num))) (div_nonneg htr het.le)
  linarith

/-- more transpiration, more biomass (same day, same state) -/
theorem biomass_mono_in_tr (crop : BioCrop α) (dap delayedCDs hiRef pctLag b bNS tr tr' trPot et0 : α)
    (hy0 : 0 ≤ crop.wpy) (hy1 : crop.wpy ≤ 100) (hw : 0 ≤ crop.wp * crop.fco2)
    (h : BioSwitchOK crop dap delayedCDs pctLag) (het : 0 < et0) (htr : tr ≤ tr') :
    (biomassAccumulation crop dap delayedCDs hiRef pctLag b bNS tr trPot et0 true).1 ≤
      (biomassAccumulation crop dap delayedCDs hiRef pctLag b bNS tr' trPot et0 true).1 := by
  rw [biomass_step, biomass_step]
  obtain ⟨l, _⟩ := bioWPadj_bounds crop dap delayedCDs hiRef pctLag hy0 hy1 hw h
  have w0 : 0 ≤ bioWPadj crop dap delayedCDs hiRef pctLag :=
    le_trans (mul_nonneg hw (div_nonneg hy0 (by norm_num))) l
  have q : tr / et0 ≤ tr' / et0 := div_le_div_of_nonneg_right htr het.le
  simp only []
  have := mul_le_mul_of_nonneg_left q w0
  linarith

/-- the actual biomass never exceeds the no-stress biomass when `Tr ≤ TrPot` and it did not
before -/
theorem biomass_le_nostress (crop : BioCrop α) (dap delayedCDs hiRef pctLag b bNS tr trPot et0 : α)
    (hy0 : 0 ≤ crop.wpy) (hy1 : crop.wpy ≤ 100) (hw : 0 ≤ crop.wp * crop.fco2)
    (h : BioSwitchOK crop dap delayedCDs pctLag) (het : 0 < et0) (htr : tr ≤ trPot) (hb : b ≤ bNS) :
    (biomassAccumulation crop dap delayedCDs hiRef pctLag b bNS tr trPot et0 true).1 ≤
      (biomassAccumulation crop dap delayedCDs hiRef pctLag b bNS tr trPot et0 true).2 := by
  rw [biomass_step]
  obtain ⟨l, _⟩ := bioWPadj_bounds crop dap delayedCDs hiRef pctLag hy0 hy1 hw h
  have w0 : 0 ≤ bioWPadj crop dap delayedCDs hiRef pctLag :=
    le_trans (mul_nonneg hw (div_nonneg hy0 (by norm_num))) l
  have q : tr / et0 ≤ trPot / et0 := div_le_div_of_nonneg_right htr het.le
  simp only []
  have := mul_le_mul_of_nonneg_left q w0
  linarith

/-! ### yield step -/

theorem yieldStep_pot (bNS b hi hiAdj yldWC : α) (gs : Bool) :
    (yieldStep bNS b hi hiAdj yldWC gs).yieldPot = (bNS / 100) * hi := by
  unfold yieldStep; cases gs <;> rfl

theorem yieldStep_dry (bNS b hi hiAdj yldWC : α) :
    (yieldStep bNS b hi hiAdj yldWC true).dryYield = (b / 100) * hiAdj := rfl

theorem yieldStep_fresh (bNS b hi hiAdj yldWC : α) :
    (yieldStep bNS b hi hiAdj yldWC true).freshYield =
      (yieldStep bNS b hi hiAdj yldWC true).dryYield / (yldWC / 100) := rfl

theorem yieldStep_offseason (bNS b hi hiAdj yldWC : α) :
    (yieldStep bNS b hi hiAdj yldWC false).dryYield = 0 ∧
      (yieldStep bNS b hi hiAdj yldWC false).freshYield = 0 := ⟨rfl, rfl⟩

/-- with a non-zero dry-matter fraction, fresh yield times the fraction gives back dry yield -/
theorem yieldStep_fresh_mul (bNS b hi hiAdj yldWC : α) (h : yldWC ≠ 0) :
    (yieldStep bNS b hi hiAdj yldWC true).freshYield * (yldWC / 100) =
      (yieldStep bNS b hi hiAdj yldWC true).dryYield := by
  rw [yieldStep_fresh]
  have : yldWC / 100 ≠ 0 := div_ne_zero h (by norm_num)
  field_simp

end Aqua
